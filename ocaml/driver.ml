(* Line driver for the extracted model. One query per input line: "<op> <int tokens...>"; one answer line per query.
   Integers are arbitrary-precision decimals (Zarith is used only for text <-> Model.z conversion). *)
module ZZ = Z
open Model

let rec pos_of_zz (n : ZZ.t) : positive =
  if ZZ.equal n ZZ.one then XH
  else if ZZ.is_even n then XO (pos_of_zz (ZZ.shift_right n 1)) else XI (pos_of_zz (ZZ.shift_right n 1))
let z_of_zz (n : ZZ.t) : z = if ZZ.sign n = 0 then Z0 else if ZZ.sign n > 0 then Zpos (pos_of_zz n) else Zneg (pos_of_zz (ZZ.neg n))
let rec zz_of_pos = function XH -> ZZ.one | XO p -> ZZ.shift_left (zz_of_pos p) 1 | XI p -> ZZ.succ (ZZ.shift_left (zz_of_pos p) 1)
let zz_of_z = function Z0 -> ZZ.zero | Zpos p -> zz_of_pos p | Zneg p -> ZZ.neg (zz_of_pos p)
let n_of_int (i : int) : n = if i = 0 then N0 else Npos (pos_of_zz (ZZ.of_int i))
let int_of_n = function N0 -> 0 | Npos p -> ZZ.to_int (zz_of_pos p)
let rec nat_of_int i = if i <= 0 then O else S (nat_of_int (i - 1))
let rec int_of_nat = function O -> 0 | S n -> 1 + int_of_nat n

(* token stream *)
let toks = ref []
let next () = match !toks with t :: r -> toks := r; t | [] -> failwith "short line"
let rd_int () = int_of_string (next ())
let rd_nat () = nat_of_int (rd_int ())
let rd_z () = z_of_zz (ZZ.of_string (next ()))
let rd_bool () = rd_int () <> 0
let rec rd_n k f = if k = 0 then [] else let x = f () in x :: rd_n (k - 1) f
let rd_zlist () = let k = rd_int () in rd_n k rd_z
let rd_natlist () = let k = rd_int () in rd_n k rd_nat
let rd_str () = let k = rd_int () in rd_n k (fun () -> n_of_int (rd_int ()))
let rd_graph () = let n = rd_int () in rd_n n (fun () -> rd_n n rd_z)

let buf = Buffer.create 256
let out s = if Buffer.length buf > 0 then Buffer.add_char buf ' '; Buffer.add_string buf s
let out_int i = out (string_of_int i)
let out_z z = out (ZZ.to_string (zz_of_z z))
let out_nat n = out_int (int_of_nat n)
let out_bool b = out (if b then "1" else "0")
let out_zlist l = out_int (List.length l); List.iter out_z l
let out_natlist l = out_int (List.length l); List.iter out_nat l
let out_str (s : n list) = out_int (List.length s); List.iter (fun c -> out_int (int_of_n c)) s
let out_res f = function OutOfFuel -> out "FUEL" | Done x -> f x

let fuel = nat_of_int 100000
let kfuel = nat_of_int 400

let dispatch op =
  match op with
  | "info" -> let g = rd_graph () in
      out_bool (wfb g); out_bool (connected_b g); out_z (genus_g g); out_z (nedges_g g);
      List.iter (fun v -> out_z (valg g v)) (vg g)
  | "ewd" -> let g = rd_graph () in let d = rd_zlist () in let opt = rd_bool () in
      out_res (fun ((b, r), o) -> out_bool b;
        (match r with None -> out "-" | Some r -> out_zlist r);
        (match o with None -> out "-" | Some o -> out_natlist o)) (ewd fuel g d opt)
  | "ewdq" -> let g = rd_graph () in let q = rd_nat () in let d = rd_zlist () in
      out_res (fun ((b, r), o) -> out_bool b; out_zlist r; out_natlist o) (ewd_q fuel g q d)
  | "iswin" -> let g = rd_graph () in let d = rd_zlist () in out_res out_bool (is_winnable fuel g d)
  | "qred" -> let g = rd_graph () in let d = rd_zlist () in
      out_res (fun (q, r) -> out_nat q; out_zlist r) (q_reduction fuel g d)
  | "reducedb" -> let g = rd_graph () in let q = rd_nat () in let d = rd_zlist () in out_bool (reduced_b g q d)
  | "lineq" -> let g1 = rd_graph () in let d1 = rd_zlist () in let g2 = rd_graph () in let d2 = rd_zlist () in
      out_res out_bool (linear_equivalence fuel g1 d1 g2 d2)
  | "conc" -> let g = rd_graph () in let q = rd_nat () in let d = rd_zlist () in
      out_res out_zlist (concentrate fuel g q (default_ord g q) d)
  | "burn" -> let g = rd_graph () in let q = rd_nat () in let d = rd_zlist () in
      out_natlist (unburnt_list g q d); out_natlist (burn_list g q d)
  | "moves" -> (* g D k ops: 0 lend v | 1 borrow v | 2 fire S | 3 transfer a b amt ; prints divisor after every op *)
      let g = rd_graph () in let d = ref (rd_zlist ()) in let k = rd_int () in
      for _ = 1 to k do
        (match rd_int () with
         | 0 -> let v = rd_nat () in d := lend g !d v
         | 1 -> let v = rd_nat () in d := borrow g !d v
         | 2 -> let s = rd_natlist () in d := fire_set g !d s
         | 3 -> let a = rd_nat () in let b = rd_nat () in let amt = rd_z () in d := transfer g !d a b amt
         | _ -> failwith "bad move");
        List.iter out_z !d; out "|"
      done
  | "rank" -> let g = rd_graph () in let d = rd_zlist () in let opt = rd_bool () in
      out_res out_z ((if opt then rank_opt else rank_plain) kfuel fuel g d)
  | "rankold" -> let g = rd_graph () in let d = rd_zlist () in out_res out_z (rank_opt_uncorrected kfuel fuel g d)
  | "gon" -> let g = rd_graph () in let mx = rd_nat () in let fs = rd_bool () in
      out_res (fun (k, l) -> out_z k; out_int (List.length l); List.iter (fun s -> List.iter out_z s) l) (compute_gonality fuel g mx fs)
  | "persink" -> let g = rd_graph () in let q = rd_nat () in let mx = rd_nat () in
      out_res (fun (k, l) -> out_nat k; out_int (List.length l); List.iter (fun s -> List.iter out_z s) l) (per_sink fuel g q mx)
  | "legal" -> let g = rd_graph () in let q = rd_nat () in let d = rd_zlist () in let s = rd_natlist () in
      (match is_legal_set_firing g q d s with Ok b -> out "ok"; out_bool b | Err -> out "err")
  | "sstable" -> let g = rd_graph () in let q = rd_nat () in let d = rd_zlist () in out_bool (superstable_enum g q d); out_bool (reduced_b g q d)
  | "cfgcmp" -> let g = rd_graph () in let q = rd_nat () in let d = rd_zlist () in let e = rd_zlist () in
      out_bool (cfg_le g q d e); out_bool (cfg_eq g q d e); out_bool (cfg_lt g q d e); out_bool (cfg_le g q e d); out_bool (cfg_lt g q e d)
  | "parking" -> let a = rd_zlist () in let n = rd_int () in out_bool (if n < 0 then is_parking a else is_parking_n a (nat_of_int n))
  | "genpark" -> let n = rd_nat () in let l = generate_parking n in out_int (List.length l); out_z (parking_count n); List.iter (fun a -> List.iter out_z a; out ";") l
  | "sscount" -> let g = rd_graph () in let q = rd_nat () in out_z (count_superstables g q); out_z (det (lap_reduced g q))
  | "greedy" -> let g = rd_graph () in let o = rd_natlist () in let d = rd_zlist () in
      (match greedy g o d with None -> out "fail" | Some (d', s) -> out "ok"; List.iter out_z d'; out ";"; List.iter out_z s)
  | "txtread" -> (* kind: 0 graph 1 divisor 2 script 3 orientation *)
      let kind = rd_int () in let s = rd_str () in
      let out_g names (gs : gstate) = out "ok"; out_int (List.length names); List.iter out_str names; List.iter (fun r -> List.iter out_z r) gs.adj; out ";" in
      (match kind with
       | 0 -> (match read_graph s with None -> out "none" | Some (names, gs) -> out_g names gs)
       | 1 -> (match read_divisor s with None -> out "none" | Some ((names, gs), d) -> out_g names gs; List.iter out_z d)
       | 2 -> (match read_script s with None -> out "none" | Some ((names, gs), d) -> out_g names gs; List.iter out_z d)
       | _ -> (match read_orientation s with None -> out "none" | Some ((names, gs), o) -> out_g names gs; List.iter (fun r -> List.iter out_z r) o.dir))
  | "txtwrite" -> (* kind n names graph payload *)
      let kind = rd_int () in let n = rd_int () in let names = rd_n n rd_str in let g = rd_graph () in
      (match kind with
       | 0 -> out_str (write_graph names g)
       | 1 -> let d = rd_zlist () in out_str (write_divisor names g d)
       | 2 -> let d = rd_zlist () in out_str (write_script names g d)
       | _ -> let c = rd_int () in let init = rd_n c (fun () -> let a = rd_nat () in let b = rd_nat () in (a, b)) in
              (match oconstruct g init with Ok o -> out_str (write_orientation names g o) | Err -> out "err"))
  | "dictwrite" -> (* kind graph [orientation pairs]: the dictionary form in vertex ids *)
      let kind = rd_int () in let g = rd_graph () in
      let el = dedge_list g in out_int (List.length el); List.iter (fun ((a, b), k) -> out_nat a; out_nat b; out_z k) el;
      if kind = 3 then begin
        let c = rd_int () in let init = rd_n c (fun () -> let a = rd_nat () in let b = rd_nat () in (a, b)) in
        (match oconstruct g init with Ok o -> let ps = odict_pairs g o in out_int (List.length ps); List.iter (fun (a, b) -> out_nat a; out_nat b) ps | Err -> out "err") end
  | "dictread" -> (* kind nnames names nedges (str str z)* payload: from_dict of a well-typed dictionary *)
      let kind = rd_int () in let n = rd_int () in let names = rd_n n rd_str in
      let ne = rd_int () in let edges = rd_n ne (fun () -> let a = rd_str () in let b = rd_str () in let k = rd_z () in ((a, b), k)) in
      let gd = { d_vertices = names; d_edges = edges } in
      let out_g names (gs : gstate) = out "ok"; out_int (List.length names); List.iter out_str names; List.iter (fun r -> List.iter out_z r) gs.adj; out ";" in
      (match kind with
       | 0 -> (match graph_from_dict gd with None -> out "none" | Some (names, gs) -> out_g names gs)
       | 1 -> let np = rd_int () in let ps = rd_n np (fun () -> let a = rd_str () in let k = rd_z () in (a, k)) in
              (match divisor_from_dict (gd, ps) with None -> out "none" | Some ((names, gs), d) -> out_g names gs; List.iter out_z d)
       | 2 -> let np = rd_int () in let ps = rd_n np (fun () -> let a = rd_str () in let k = rd_z () in (a, k)) in
              (match script_from_dict (gd, ps) with None -> out "none" | Some ((names, gs), d) -> out_g names gs; List.iter out_z d)
       | _ -> let np = rd_int () in let ps = rd_n np (fun () -> let a = rd_str () in let b = rd_str () in (a, b)) in
              (match orientation_from_dict (gd, ps) with None -> out "none" | Some ((names, gs), o) -> out_g names gs; List.iter (fun r -> List.iter out_z r) o.dir))
  | "nameok" -> let s = rd_str () in out_bool (name_ok s)
  | "pyint" -> let s = rd_str () in (match py_int s with None -> out "none" | Some z -> out_z z)
  | "indep" -> let g = rd_graph () in out_nat (indep_number g); out_z (min_degree g); out_bool (is_complete_simple g)
  | "multipart" -> let ps = rd_natlist () in let g = complete_multipartite ps in
      out_z (multipartite_formula_as_implemented ps); out_int (List.length g); List.iter (fun r -> List.iter out_z r) g
  | "game" -> let g = rd_graph () in let d = rd_zlist () in let v = rd_nat () in out_res out_bool (play_game fuel g d v)
  | "strat" -> let g = rd_graph () in let d = rd_zlist () in
      out_res (fun (b, l) -> out_bool b; out_natlist l) (test_strategy fuel g d)
  | "linq" -> let g = rd_graph () in let q = rd_nat () in let d = rd_zlist () in let e = rd_zlist () in
      out_res out_bool (lin_equiv_q fuel g q d e)
  | "concok" -> let g = rd_graph () in let q = rd_nat () in let d = rd_zlist () in let e = rd_zlist () in
      out_res out_bool (conc_ok fuel g q d e)
  | "certok" -> let g = rd_graph () in let q = rd_nat () in let r = rd_zlist () in
      let k = rd_int () in let o = rd_n k (fun () -> let a = rd_nat () in let b = rd_nat () in (a, b)) in
      let pos = rd_natlist () in out_bool (cert_ok g q r o pos)
  | "burnorient" -> let g = rd_graph () in let q = rd_nat () in let d = rd_zlist () in
      let b = burn_list g q d in let o = burn_orient g b in
      out_bool (cert_ok g q d o (burn_pos g b)); out_int (List.length o); List.iter (fun (a, b) -> out_nat a; out_nat b) o
  | "ghist" -> (* n k ops ; 0 a b k | 1 cnt (a b k)* | 2 v *)
      let n = rd_int () in let st = ref (ginit (nat_of_int n)) in let k = rd_int () in
      let dump (s : gstate) = List.iter (fun r -> List.iter out_z r) s.adj; out ";"; List.iter out_z s.valc; out ";"; out_z s.tot; out_z (g_genus s) in
      for _ = 1 to k do
        (match rd_int () with
         | 0 -> let a = rd_nat () in let b = rd_nat () in let kk = rd_z () in
             (match add_edge !st a b kk with Ok s -> st := s; out "ok" | Err -> out "err")
         | 1 -> let c = rd_int () in let es = rd_n c (fun () -> let a = rd_nat () in let b = rd_nat () in let kk = rd_z () in ((a, b), kk)) in
             let (s, okf) = add_edges !st es in st := s; out (if okf then "ok" else "err")
         | 2 -> let v = rd_nat () in
             (match remove_vertex !st v with Ok s -> out "ok"; out "["; dump s; out "]" | Err -> out "err")
         | _ -> failwith "bad gop");
        dump !st; out "|"
      done
  | "dhist" -> (* g q(-1 = divisor level) D k ops *)
      let g = rd_graph () in let q = rd_int () in let st = ref (dinit g (rd_zlist ())) in let k = rd_int () in
      for _ = 1 to k do
        let mv = (match rd_int () with
         | 0 -> MLend (rd_nat ()) | 1 -> MBorrow (rd_nat ()) | 2 -> MFire (rd_natlist ())
         | 3 -> let a = rd_nat () in let b = rd_nat () in let amt = rd_z () in MTransfer (a, b, amt)
         | _ -> failwith "bad move") in
        (match (if q < 0 then dstep g !st mv else cstep g (nat_of_int q) !st mv) with Ok s -> st := s; out "ok" | Err -> out "err");
        List.iter out_z (!st).degs; out ";"; out_z (!st).total; out_bool (is_effective_b g (!st).degs); out "|"
      done
  | "darith" -> (* n1 D n2 E : add sub *)
      let n1 = rd_nat () in let d = rd_zlist () in let n2 = rd_nat () in let e = rd_zlist () in
      (match d_add n1 n2 d e with Ok r -> out "ok"; List.iter out_z r | Err -> out "err"); out "|";
      (match d_sub n1 n2 d e with Ok r -> out "ok"; List.iter out_z r | Err -> out "err")
  | "dunary" -> (* n D k : neg, scale k *)
      let n = rd_nat () in let d = rd_zlist () in let k = rd_z () in
      List.iter out_z (dneg n d); out "|"; List.iter out_z (dscale n k d)
  | "deq" -> let g1 = rd_graph () in let d = rd_zlist () in let g2 = rd_graph () in let e = rd_zlist () in out_bool (d_eqb g1 d g2 e)
  | "chip" -> let n = rd_nat () in let v = rd_nat () in (match chip_at n v with Ok r -> out "ok"; List.iter out_z r | Err -> out "err")
  | "shist" -> let n = rd_int () in let st = ref (List.init n (fun _ -> Z0)) in let k = rd_int () in
      for _ = 1 to k do
        let o = (match rd_int () with 0 -> let v = rd_nat () in SSet (v, rd_z ()) | 1 -> let v = rd_nat () in SUpdate (v, rd_z ()) | _ -> failwith "bad sop") in
        (match sstep (nat_of_int n) !st o with Ok s -> st := s; out "ok" | Err -> out "err");
        List.iter out_z !st; out "|"
      done
  | "lapm" -> let g = rd_graph () in List.iter (fun r -> List.iter out_z r) (lap_matrix g)
  | "lapred" -> let g = rd_graph () in let q = rd_nat () in List.iter (fun r -> List.iter out_z r) (lap_reduced g q)
  | "lapapply" -> let g = rd_graph () in let d = rd_zlist () in let s = rd_zlist () in List.iter out_z (lap_apply g d s)
  | "scripted" -> let g = rd_graph () in let d = rd_zlist () in let s = rd_zlist () in let o = rd_natlist () in List.iter out_z (scripted_moves g d s o)
  | "ohist" -> (* g c (a b)* k ops ; 0 set a b st | 1 check_fullness | 2 divisor | 3 reverse | 4 get a b *)
      let g = rd_graph () in let c = rd_int () in let init = rd_n c (fun () -> let a = rd_nat () in let b = rd_nat () in (a, b)) in
      let dump (s : ostate) = List.iter (fun r -> List.iter out_z r) s.dir; out ";"; List.iter out_z s.inc; out ";"; List.iter out_z s.outc in
      (match oconstruct g init with
       | Err -> out "err"
       | Ok s0 -> out "ok"; let st = ref s0 in dump !st; out "|";
          let k = rd_int () in
          for _ = 1 to k do
            (match rd_int () with
             | 0 -> let a = rd_nat () in let b = rd_nat () in let x = rd_z () in
                 (match set_orientation g !st a b x with Ok s -> st := s; out "ok" | Err -> out "err")
             | 1 -> let (s, f) = check_fullness g !st in st := s; out_bool f
             | 2 -> let (s, r) = o_divisor g !st in st := s; (match r with Ok d -> out "ok"; List.iter out_z d | Err -> out "err")
             | 3 -> let (s, r) = o_reverse g !st in st := s; (match r with Ok o -> out "ok"; out "["; dump o; out "]" | Err -> out "err")
             | 4 -> let a = rd_nat () in let b = rd_nat () in (match o_get g !st a b with Ok z -> out "ok"; out_z z | Err -> out "err")
             | _ -> failwith "bad oop");
            out ";"; dump !st; out "|"
          done)
  | _ -> failwith ("unknown op " ^ op)

let () =
  try while true do
    let line = input_line stdin in
    toks := List.filter (fun s -> s <> "") (String.split_on_char ' ' line);
    Buffer.clear buf;
    (match !toks with
     | [] -> ()
     | op :: rest -> toks := rest;
        (try dispatch op with Failure m -> Buffer.clear buf; out ("ERROR:" ^ String.concat "_" (String.split_on_char ' ' m))));
    print_endline (Buffer.contents buf)
  done with End_of_file -> ()
