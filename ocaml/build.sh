#!/bin/sh
# Extract the model and build the driver. Usage: ocaml/build.sh
set -e
cd "$(dirname "$0")"
mkdir -p gen _build
cp Extract.v gen/Extract.v
(cd gen && timeout 600 coqc -Q ../../coq/theories CF Extract.v > extract.log 2>&1) || { cat gen/extract.log; exit 1; }
cp driver.ml gen/model.ml gen/model.mli _build/
cd _build
timeout 600 ocamlfind ocamlopt -w -a -O2 -package zarith -linkpkg model.mli model.ml driver.ml -o driver 2>build.log || timeout 600 ocamlfind ocamlopt -w -a -package zarith -linkpkg model.mli model.ml driver.ml -o driver
