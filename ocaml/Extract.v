(* Extraction of the verified reference model to OCaml. Only ExtrOcamlBasic is used:
   bool, option, unit, list, prod, sumbool, sumor are mapped to OCaml's; Z, positive, nat, ascii stay inductive. *)
Require Extraction.
Require Import ExtrOcamlBasic.
From CF Require Import ListAux Defs Burn Core Cert Machines Config GreedyModel Txt DictForm.
Extraction Language OCaml.
Extraction "model.ml"
  nv mult Vg wfb valg nedges_g genus_g degD graph_eqb div_eqb connected_b
  lend borrow fire_set transfer
  concentrate concentrate_single_pass burn_list unburnt_list reduce_loop default_ord argmin
  ewd_q ewd is_winnable winnable_plain q_reduction reduced_b linear_equivalence
  dsub dadd dneg dscale placements
  rank_plain rank_opt rank_opt_uncorrected canonical_g
  play_game test_strategy find_strategies compute_gonality per_sink
  lin_equiv_q conc_ok cert_ok indeg_o outdeg_o burn_orient burn_pos
  ginit gn add_edge add_edges g_genus remove_vertex graph_of_adj
  dinit dstep cstep is_effective_b d_add d_sub d_eqb chip_at sstep
  lap_entry lap_matrix lap_reduced lap_apply scripted_moves
  is_legal_set_firing legal_b superstable_enum out_degree_S cfg_le cfg_eq cfg_lt is_parking_n is_parking generate_parking parking_count det count_superstables
  greedy greedy_budget indep_number min_degree is_complete_simple complete_multipartite multipartite_formula_as_implemented
  read_graph read_divisor read_script read_orientation write_graph write_divisor write_script write_orientation name_ok py_int print_Z strip
  oinit oconstruct set_orientation check_fullness o_divisor o_reverse o_get dir_at full_b
  dedge_list odict_pairs graph_from_dict divisor_from_dict script_from_dict orientation_from_dict.
