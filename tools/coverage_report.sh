#!/bin/sh
# Measures which lines of /repo/chipfiring the quick checks execute on the implementation side (not a check; evidence files are rewritten as usual).
ROOT="$(cd "$(dirname "$0")/.." && pwd)"
D="$ROOT/.scratch/cov"; rm -rf "$D"; mkdir -p "$D"
for p in C01 C02 C03 C04 C05 C06 C07 C08 C09 C10 C11 C12 C13 C14 C15 C16 C17 C18 C19 C20; do
  CF_COVERAGE="$D" /venv/bin/python "$ROOT/harness/check.py" $p 2>&1 | grep -v "WARNING\|KNOWN" | tail -1
done
cd "$D" && /venv/bin/python -m coverage combine -q . >/dev/null 2>&1; /venv/bin/python -m coverage report --data-file="$D/.coverage" -m 2>&1 | tail -30
