#!/usr/bin/env python3
"""recheck_seeds_parallel.py [JOBS [SUBSTRING ...]] - every kept seeded change (or, with SUBSTRINGs, those whose directory name contains one; the report file is then left alone) against the quick checks its meta.json names, several at a time: each change is applied to
its own scratch copy of /repo's library (under /tmp, removed afterwards) and the checks run with CF_REPO=<copy> CF_SKIP_PROOF=1, i.e. this measures the
correspondence runs only (a change inside a translated method is additionally rejected by its refinement proof, which is not exercised here).
/repo itself is not touched. Output: reports/seeds_recheck.txt"""
import os, sys, json, glob, subprocess, shutil, tempfile, concurrent.futures as cf
V = os.path.dirname(os.path.dirname(os.path.abspath(__file__)))
def sh(c, **kw): return subprocess.run(c, shell=True, capture_output=True, text=True, **kw)
def one(d):
    name = os.path.basename(d); m = json.load(open(os.path.join(d, "meta.json"))); det = m.get("detected_by", {})
    props = [p for p, v in det.items() if v is True]
    if not props: return "%-45s (no quick check named: %s)" % (name, det)
    t = tempfile.mkdtemp(prefix="cfseed_")
    try:
        sh("git -C /repo archive HEAD | tar -x -C %s" % t)
        a = sh("cd %s && git init -q . && git apply %s" % (t, os.path.join(d, "patch.diff")))
        if a.returncode != 0: return "%-45s PATCH DOES NOT APPLY" % name
        res = {}
        for p in props:
            env = dict(os.environ); env.update({"CF_REPO": t, "CF_SKIP_PROOF": "1", "CF_EVIDENCE_DIR": os.path.join(t, "ev"), "CF_REPLAY_DIR": os.path.join(t, "rp")})
            r = sh("cd %s && timeout 1500 /venv/bin/python harness/check.py %s" % (V, p), env=env)
            vl = [l for l in r.stdout.split("\n") if l.startswith("VIOLATION")]
            res[p] = False if not vl else ("failing input" if any("no-failing-input-found" not in l for l in vl) else "disagreement not confirmed by the definition-level oracle")
            if res[p] == "failing input": break
        return "%-45s %s %s" % (name, "detected" if any(res.values()) else "NOT DETECTED", res)
    finally: shutil.rmtree(t, ignore_errors=True)
def main():
    jobs = int(sys.argv[1]) if len(sys.argv) > 1 else 8
    ds = sorted(glob.glob(os.path.join(V, "seeded", "*"))); only = sys.argv[2:]
    if only: ds = [d for d in ds if any(x in os.path.basename(d) for x in only)]
    out = []
    with cf.ThreadPoolExecutor(max_workers=jobs) as ex:
        for line in ex.map(one, ds): out.append(line); print(line); sys.stdout.flush()
    if only: return
    os.makedirs(os.path.join(V, "reports"), exist_ok=True)
    hdr = "# %d kept changes, each applied to a scratch copy of the library (CF_REPO) and run against the quick checks named in its meta.json with CF_SKIP_PROOF=1 (correspondence runs only)\n" % len(ds)
    open(os.path.join(V, "reports", "seeds_recheck.txt"), "w").write(hdr + "\n".join(out) + "\n")
main()
