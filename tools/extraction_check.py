#!/usr/bin/env python3
"""extraction_check.py - validates the extracted OCaml driver against the Coq kernel: for random small inputs the driver's printed answer is turned
into a Gallina equation `model term = driver's answer` and coqc has to prove every equation by vm_compute; reflexivity. A wrong extraction directive,
a parsing / printing slip in ocaml/driver.ml or in harness/common.py's encoders would make an equation false and the file would not compile.
Usage: extraction_check.py [N]   (default 60 inputs per operation). Not a registered check: it narrows the trusted base, it says nothing about /repo."""
import sys, os, random, subprocess
sys.path.insert(0, os.path.join(os.path.dirname(os.path.abspath(__file__)), "..", "harness"))
import common
COQ = common.COQ
def zl(l): return "[" + ";".join("(%d)" % x for x in l) + "]"
def nl(l): return "[" + ";".join(str(x) for x in l) + "]%nat"
def gm(G): return "[" + ";".join(zl(r) for r in common.matrix(G)) + "]"
def take_list(tok, i, f=int):
    k = int(tok[i]); return [f(x) for x in tok[i + 1:i + 1 + k]], i + 1 + k
def main():
    N = int(sys.argv[1]) if len(sys.argv) > 1 else 60
    rng = random.Random(20261002); lines = []; eqs = []
    for i in range(N):
        G, _ = common.random_connected_graph(rng, 1, 4); n = G["n"]; D = [rng.randint(-3, 4) for _ in range(n)]; q = rng.randrange(n); g = common.enc_graph(G)
        E = common.lap_apply(G, D, [rng.randint(-2, 2) for _ in range(n)]) if rng.random() < 0.5 else [rng.randint(-3, 4) for _ in range(n)]
        lines += [["ewd"] + g + common.enc_list(D) + [0], ["ewd"] + g + common.enc_list(D) + [1], ["ewdq"] + g + [q] + common.enc_list(D), ["qred"] + g + common.enc_list(D),
                  ["burn"] + g + [q] + common.enc_list([abs(x) if v != q else x for v, x in enumerate(D)]), ["lineq"] + g + common.enc_list(D) + g + common.enc_list(E),
                  ["rank"] + g + common.enc_list([max(x, -1) for x in D]) + [0], ["rank"] + g + common.enc_list([max(x, -1) for x in D]) + [1], ["persink"] + g + [q, max(0, n - 1)]]
        eqs.append((G, D, E, q))
    out = common.run_model(lines); v = ["From Coq Require Import ZArith List.", "Import ListNotations.", "From CF Require Import ListAux Core.", "Open Scope Z_scope."]
    k = 0
    def ex(lhs, rhs):
        nonlocal k; k += 1; v.append("Example x%d : %s = %s. Proof. vm_compute. reflexivity. Qed." % (k, lhs, rhs))
    for i, (G, D, E, q) in enumerate(eqs):
        o = out[9 * i:9 * i + 9]; g = gm(G); n = G["n"]
        for j, opt in ((0, "false"), (1, "true")):
            t = o[j]
            if t[0] == "FUEL": continue
            b = "true" if t[0] == "1" else "false"
            if t[1] == "-": r = "None"; p = 2
            else: l, p = take_list(t, 1); r = "Some %s" % zl(l)
            if t[p] == "-": oo = "None"
            else: l2, _ = take_list(t, p); oo = "Some %s" % nl(l2)
            ex("ewd 3000 %s %s %s" % (g, zl(D), opt), "Done (%s, %s, %s)" % (b, r, oo))
        t = o[2]
        if t[0] != "FUEL":
            l, p = take_list(t, 1); l2, _ = take_list(t, p); ex("ewd_q 3000 %s %d%%nat %s" % (g, q, zl(D)), "Done (%s, %s, %s)" % ("true" if t[0] == "1" else "false", zl(l), nl(l2)))
        t = o[3]
        if t[0] != "FUEL":
            l, _ = take_list(t, 1); ex("q_reduction 3000 %s %s" % (g, zl(D)), "Done (%s%%nat, %s)" % (t[0], zl(l)))
        t = o[4]; Db = [abs(x) if w != q else x for w, x in enumerate(D)]; l, p = take_list(t, 0); l2, _ = take_list(t, p)
        ex("(unburnt_list %s %d%%nat %s, burn_list %s %d%%nat %s)" % (g, q, zl(Db), g, q, zl(Db)), "(%s, %s)" % (nl(l), nl(l2)))
        t = o[5]
        if t[0] != "FUEL": ex("linear_equivalence 3000 %s %s %s %s" % (g, zl(D), g, zl(E)), "Done %s" % ("true" if t[0] == "1" else "false"))
        Dr = [max(x, -1) for x in D]
        for j, fn in ((6, "rank_plain"), (7, "rank_opt")):
            t = o[j]
            if t[0] != "FUEL": ex("%s 400 3000 %s %s" % (fn, g, zl(Dr)), "Done (%s)" % t[0])
        t = o[8]
        if t[0] != "FUEL":
            kk = int(t[0]); cnt = int(t[1]); xs = [int(x) for x in t[2:]]; S = [xs[a * n:(a + 1) * n] for a in range(cnt)]
            ex("per_sink 3000 %s %d%%nat %d%%nat" % (g, q, max(0, n - 1)), "Done (%d%%nat, [%s])" % (kk, ";".join(zl(s) for s in S)))
    d = os.path.join(COQ, "scratch"); os.makedirs(d, exist_ok=True); f = os.path.join(d, "ExtractionCheck.v"); open(f, "w").write("\n".join(v) + "\n")
    p = subprocess.run("cd %s && timeout 1800 coqc -Q theories CF scratch/ExtractionCheck.v" % COQ, shell=True, capture_output=True, text=True)
    for x in ("ExtractionCheck.vo", "ExtractionCheck.vok", "ExtractionCheck.vos", "ExtractionCheck.glob", ".ExtractionCheck.aux"):
        try: os.remove(os.path.join(d, x))
        except OSError: pass
    if p.returncode != 0:
        print("EXTRACTION CHECK FAILED: %s" % (p.stdout + p.stderr)[-1500:]); sys.exit(1)
    print("extraction check: %d equations between the OCaml driver's answers and the Coq model proved by vm_compute" % k)
main()
