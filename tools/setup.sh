#!/bin/sh
# One-off build after a fresh restore (offline): Coq development (full .vo build) + extracted model driver.
set -e
cd /verif/coq
coq_makefile -f _CoqProject -o Makefile > /dev/null
timeout 3000 make -j16
sh /verif/ocaml/build.sh
mkdir -p /verif/evidence /verif/replays /verif/.scratch
echo "setup ok"
