#!/bin/sh
# One-off build after a fresh restore (offline): Coq development (full .vo build) + extracted model driver.
set -e
ROOT="$(cd "$(dirname "$0")/.." && pwd)"
python3 "$ROOT/tools/translate.py"
python3 "$ROOT/tools/translate_imp.py"
cd "$ROOT/coq"
coq_makefile -f _CoqProject -o Makefile > /dev/null
timeout 3000 make -j16
sh "$ROOT/ocaml/build.sh"
python3 "$ROOT/tools/extraction_check.py" 40
mkdir -p "$ROOT/evidence" "$ROOT/replays" "$ROOT/.scratch"
echo "setup ok"
