#!/usr/bin/env python3
"""seeds_translated.py - for every kept seeded change: does it alter the Gallina text generated from the source by tools/translate.py / tools/translate_imp.py
(or push a method out of the translators' subset)? Each change is applied to a scratch copy (under /tmp, removed afterwards); /repo and the generated files of
/verif/coq are not touched. Output: reports/seeds_translated.txt"""
import os, glob, subprocess, shutil, tempfile, json, hashlib, concurrent.futures as cf
def sh(c, **kw): return subprocess.run(c, shell=True, capture_output=True, text=True, **kw)
def gen(repo, work):
    os.makedirs(work + "/tools", exist_ok=True); os.makedirs(work + "/coq/theories", exist_ok=True)
    shutil.copy("/verif/tools/translate_imp.py", work + "/tools/"); shutil.copy("/verif/tools/translate.py", work + "/tools/")
    r = sh("CF_REPO=%s python3 %s/tools/translate_imp.py; CF_REPO=%s python3 %s/tools/translate.py" % (repo, work, repo, work))
    out = {}
    for f in sorted(glob.glob(work + "/coq/theories/Translated*.v")):
        out[os.path.basename(f)] = open(f).read().replace(repo, "/repo")
    return out, [l for l in r.stdout.split("\n") if "UNSUPPORTED" in l]
base_dir = tempfile.mkdtemp(prefix="stb_"); sh("git -C /repo archive HEAD | tar -x -C %s" % base_dir)
base, _ = gen(base_dir, base_dir + "/w")
def one(d):
    t = tempfile.mkdtemp(prefix="stx_")
    try:
        sh("git -C /repo archive HEAD | tar -x -C %s" % t)
        if sh("cd %s && git init -q . && git apply %s/patch.diff" % (t, d)).returncode != 0: return os.path.basename(d), "patch does not apply", []
        g, uns = gen(t, t + "/w")
        ch = sorted(k for k in base if g.get(k) != base[k])
        return os.path.basename(d), ("unsupported: " + "; ".join(u[:90] for u in uns)) if uns else ("changed" if ch else "same"), ch
    finally: shutil.rmtree(t, ignore_errors=True)
ds = sorted(glob.glob("/verif/seeded/*"))
rows = []
with cf.ThreadPoolExecutor(max_workers=12) as ex:
    for r in ex.map(one, ds): rows.append(r)
shutil.rmtree(base_dir, ignore_errors=True)
n_touch = sum(1 for r in rows if r[1] != "same")
with open("/verif/reports/seeds_translated.txt", "w") as f:
    f.write("# for each kept seeded change: does it alter the Gallina text that tools/translate.py / tools/translate_imp.py generate from the source (then the refinement proofs of the\n# affected file are re-examined against the changed text and the check reports a broken proof or a broken tie in addition to whatever the correspondence run finds)?\n# %d of %d changes do.\n" % (n_touch, len(rows)))
    for name, st, ch in rows: f.write("%-45s %s %s\n" % (name, st, " ".join(ch)))
print(n_touch, len(rows))
