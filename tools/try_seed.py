#!/usr/bin/env python3
"""try_seed.py <seed_dir> [PROP ...]   - confirm a seeded change and run checks against it.
seed_dir holds patch.diff, demo.py, meta.json. The patch is applied to /repo (git apply), everything is run, and it is always
reverted (git checkout -- .) afterwards. Prints a JSON summary; with --keep ID also copies the triple to /verif/seeded/ID/."""
import sys, os, subprocess, json, shutil
def sh(cmd, **kw): return subprocess.run(cmd, shell=True, capture_output=True, text=True, **kw)
def main():
    args = sys.argv[1:]; keep = None
    if "--keep" in args:
        i = args.index("--keep"); keep = args[i + 1]; del args[i:i + 2]
    sd = args[0]; props = args[1:]
    patch = os.path.join(sd, "patch.diff"); demo = os.path.join(sd, "demo.py")
    res = {"seed_dir": sd}
    assert sh("git -C /repo status --porcelain").stdout.strip() == "", "/repo not clean"
    env = "PYTHONPATH=/repo PYTHONDONTWRITEBYTECODE=1"
    r = sh("%s /venv/bin/python %s" % (env, demo)); res["demo_clean_rc"] = r.returncode
    a = sh("git -C /repo apply %s" % patch)
    if a.returncode != 0:
        res["apply_error"] = a.stderr[-500:]; print(json.dumps(res, indent=1)); return
    try:
        r = sh("cd /repo && %s /venv/bin/python -m pytest -q -p no:cacheprovider -x 2>&1 | tail -1" % env); res["suite"] = r.stdout.strip()
        r = sh("%s /venv/bin/python %s" % (env, demo)); res["demo_patched_rc"] = r.returncode; res["demo_patched_out"] = r.stdout[-400:]
        det = {}
        for p in props:
            r = sh("cd /verif && /venv/bin/python harness/check.py %s" % p)
            v = [l for l in r.stdout.split("\n") if l.startswith("VIOLATION")]
            det[p] = {"rc": r.returncode, "violations": len(v), "first": v[:1], "tail": r.stdout.strip().split("\n")[-1][:300] if not v else ""}
            if v:
                rp = v[0].split("replay=")[1].split()[0]
                try: det[p]["what"] = json.load(open(rp)).get("what", "")[:300]
                except Exception: pass
        res["checks"] = det
    finally:
        sh("git -C /repo checkout -- . && git -C /repo clean -fdq -e __pycache__")
        sh("rm -f /verif/replays/*.json")
    res["repo_clean_after"] = sh("git -C /repo status --porcelain").stdout.strip() == ""
    res["confirmed"] = res.get("demo_clean_rc") == 0 and res.get("demo_patched_rc") not in (0, None) and "350 passed" in res.get("suite", "")
    print(json.dumps(res, indent=1))
    if keep and res["confirmed"]:
        dst = "/verif/seeded/%s" % keep; os.makedirs(dst, exist_ok=True)
        shutil.copy(patch, dst); shutil.copy(demo, dst)
        meta = json.load(open(os.path.join(sd, "meta.json"))) if os.path.exists(os.path.join(sd, "meta.json")) else {}
        meta["confirmed_by_me"] = {"suite_with_patch": res["suite"], "demo_rc_clean": res["demo_clean_rc"], "demo_rc_patched": res["demo_patched_rc"],
                                   "how": "git -C /repo apply patch.diff; pytest; demo.py; checks; git -C /repo checkout -- ."}
        meta["detected_by"] = {p: (d["violations"] > 0) for p, d in res.get("checks", {}).items()}
        meta["detection_detail"] = {p: d.get("what", d.get("tail", "")) for p, d in res.get("checks", {}).items()}
        json.dump(meta, open(os.path.join(dst, "meta.json"), "w"), indent=1)
main()
