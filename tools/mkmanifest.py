#!/usr/bin/env python3
"""Regenerates /verif/MANIFEST.json from the table below (one entry per claimed property)."""
import json, os
V = os.path.dirname(os.path.dirname(os.path.abspath(__file__)))
props = [json.loads(l) for l in open(os.path.join(V, "properties.jsonl"))]
CLAIMED = json.load(open(os.path.join(V, "tools", "claims.json")))
checks, na = [], []
for p in props:
    pid = p["id"]
    c = CLAIMED.get(pid)
    if not c or c.get("not_applicable"):
        na.append({"property_id": pid, "reason": (c or {}).get("not_applicable", "check not built yet in this development (work in progress); nothing is claimed for it")})
        continue
    checks.append({
        "property_id": pid,
        "quick_cmd": "/venv/bin/python harness/check.py %s --tier quick" % pid,
        "thorough_cmd": "/venv/bin/python harness/check.py %s --tier thorough" % pid,
        "evidence_file": "/verif/evidence/%s.json" % pid,
        "replay_cmd_template": "/venv/bin/python harness/check.py %s --replay {path}" % pid,
        "engine": "coq-vrm",
        "level_claimed": {"category": "proof", "text": c["text"], "design_ref": c.get("design_ref", "DESIGN.md section 6 (%s)" % pid)},
        "level_note": c["note"],
        "technique": c.get("technique", "machine-checked proof in Coq 8.16 about a hand-written executable model + checked correspondence (extracted OCaml model vs implementation on generated cases under several PYTHONHASHSEEDs)"),
    })
m = {
    "version": 1,
    "setup_cmd": "sh /verif/tools/setup.sh",
    "hooks": {"guard": "CHIPFIRING_VERIF", "enable": "no source hooks are needed: the checks import chipfiring from /repo's working tree (PYTHONPATH=/repo) and observe public attributes only",
              "baseline_off_cmd": "cd /repo && /venv/bin/python -m pytest -q -p no:cacheprovider --timeout=900", "source_commits": [], "add_only": True},
    "engines": [{"name": "coq-vrm", "path": "/verif/coq", "serves_properties": [c["property_id"] for c in checks],
                 "kind_free_text": "Coq 8.16.1 development (Base/Theory/Model/Link/Props), model extracted to OCaml (ocaml/), Python correspondence harness (harness/)"}],
    "checks": checks,
    "notes": "Fix commits in /repo (unguarded, message starts 'fix:'): see known_findings.json. Known findings are listed there too.",
    "not_applicable": na,
}
json.dump(m, open(os.path.join(V, "MANIFEST.json"), "w"), indent=1)
print("claimed:", [c["property_id"] for c in checks]); print("not claimed:", [x["property_id"] for x in na])
