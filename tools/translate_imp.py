#!/usr/bin/env python3
"""translate_imp.py - fail-closed translator for the small IMPERATIVE methods that mutate the dictionaries of CFDivisor / CFGraph
(lending_move, borrowing_move, chip_transfer, set_fire, is_effective, get_degree, the constructor __init__ and __neg__ / __rmul__ / __add__ / __sub__ / __eq__; the constructors of CFGraph, CFiringScript, CFConfig; add_edge, get_valence, is_loopless;
CFiringScript.get_firings / set_firings / update_firings; CFConfig.get_out_degree_S, the wrappers set_fire / lending_move / borrowing_move and the readers
get_degree_at / get_q_underlying_degree / get_degree_sum / is_non_negative;
CFOrientation.set_orientation / check_fullness / get_in_degree / get_out_degree / get_orientation / is_source / is_sink) to Gallina.
Writes coq/theories/TranslatedImpCFDivisor.v and TranslatedImpCFGraph.v (one file per class, so that a method that leaves the subset only
affects the property that speaks about its class) from /repo's CURRENT source on every run; Link/ImpLink.v proves that each translated method, run on a
dictionary state that represents a model state, raises exactly when the model refuses and otherwise ends in a state representing the model's
result (lend / borrow / transfer / fire_set / add_edge of Model/Core.v, Model/Machines.v) - the functions the C05 / C13 theorems are about.

Assumed semantics (the trusted part of this tie, restated in Base/PyDict.v):
  * a Vertex is identified with its name, names with natural numbers (keys); `Vertex(x)` and `x.name` are the identity; str parameters are keys;
  * a dict is an insertion-ordered association list: `k in d`, `d[k]` (KeyError = the method raises), `d[k] = x` (update in place, or append),
    iteration over a dict / `.items()` in insertion order;
  * a set is a duplicate-free list; iterating over a set visits `set_order s`, where `set_order` is an ARBITRARY function handed to the translated
    method as a parameter (the theorems assume only that it returns a permutation of its argument) - Python's unspecified set order;
  * int = Z; an exception (`raise`, KeyError) ends the method with `PyExn st`, where st holds the CURRENT values of the fields the method writes -
    what the caller's object looks like after the exception; a normal end is `PyOk result`;
Subset (anything else raises Unsupported and the run fails closed): see the methods stmt/expr below - assignments to locals, `x, y = (a, b)`,
`if/else`, `raise`, `return e`, `for k in d`, `for k, v in d.items()`, `for x in <set>`, `s.add(x)`, `self.f[k] op= e`, `self.f[a][b] (op)= e`,
`self.f (op)= e`, conditional expressions, the members of the enum OrientationState (read from the source: distinct integer constants),
calls of already translated methods on self (and on self.divisor from a CFConfig; a read-only method that may raise can be called inside an
expression and is hoisted like a dictionary read), validation-only loops, the early-exit loop `for ..: if c: return CONST`, and loops
that `return` from anywhere inside (the accumulator then carries `(option result, state)` and later iterations are skipped); `<` on vertices is the
order of their names = of their numbers; a method with a result that also writes fields returns `(result, fields)`; a method annotated
Optional[bool] / Optional[Tuple[str, str]] returns an option (`return None` = None, any other return = Some). An `if` whose branches only update state and which
is followed by more statements is translated as `match (if c then A else B) with ...` so that the continuation appears once.
For the constructor and the operators: `{v: e for v in <set>}`, `[... for a, b in <pairs or d.items()>]`, `len(xs) != len(set(xs))` (= a name occurs twice), `xs = []` / `xs.append((name, int))`,
`==` / `!=` on sets, `for a, b in <pairs>`, `return CFDivisor(self.graph, pairs)` (the translated constructor on this object's own graph); a CFGraph parameter is seen through
its vertex set and adjacency dictionary, a CFDivisor parameter through its graph's vertex set and its chips; `isinstance(n, int)` on a parameter annotated int is true.
A read `m[v][w]` through a local alias of self.laplacian is `0 when w is absent` only while every row CFLaplacian._construct_matrix creates is a `defaultdict(int)` in the
current source (LAP_ROWS_DEFAULT), otherwise a strict lookup; `{v.name: <value that may raise> for v in <set>}` in a method that writes nothing is a loop over the set that stops
at the first exception."""
import ast, sys, os
REPO = os.environ.get("CF_REPO", "/repo")
OUT = os.path.join(os.path.dirname(os.path.abspath(__file__)), "..", "coq", "theories", "TranslatedImp.v")     # directory of the generated files TranslatedImp<Class>.v
# class -> { attribute text : (gallina name, type) }
FIELDS = {
    "CFDivisor": {"self.degrees": ("self_degrees", "dictZ"), "self.graph.graph": ("self_graph_graph", "dictD"), "self.total_degree": ("self_total_degree", "Z"), "self.graph.vertices": ("self_graph_vertices", "set")},
    "CFGraph": {"self.graph": ("self_graph", "dictD"), "self.vertex_total_valence": ("self_vertex_total_valence", "dictZ"), "self.total_valence": ("self_total_valence", "Z"), "self.vertices": ("self_vertices", "set")},
    "CFiringScript": {"self._script": ("self_script", "dictZ"), "self.graph.vertices": ("self_graph_vertices", "set")},
    "CFConfig": {"self.graph.graph": ("self_graph_graph", "dictD"), "self.graph.vertices": ("self_graph_vertices", "set"), "self.q_vertex": ("self_q_vertex", "key")},
    "CFOrientation": {"self.orientation": ("self_orientation", "dictD"), "self.graph.graph": ("self_graph_graph", "dictD"), "self.in_degree": ("self_in_degree", "dictZ"),
                      "self.out_degree": ("self_out_degree", "dictZ"), "self.is_full": ("self_is_full", "bool"), "self.is_full_checked": ("self_is_full_checked", "bool"),
                      "self.graph.vertices": ("self_graph_vertices", "set"), "self.graph.vertex_total_valence": ("self_graph_vertex_total_valence", "dictZ")},
}
FIELDS["DharAlgorithm"] = {"self.graph.graph": ("self_graph_graph", "dictD")}
FIELDS["CFLaplacian"] = {"self.graph.vertices": ("self_graph_vertices", "set"), "self.graph.graph": ("self_graph_graph", "dictD"),
                         "self.graph.vertex_total_valence": ("self_graph_vertex_total_valence", "dictZ"), "self.laplacian": ("self_laplacian", "dictD")}
FIELDS["CFConfigMoves"] = {"self.q_vertex": ("self_q_vertex", "key"), "self.v_tilde_vertices": ("self_v_tilde_vertices", "set"),
                           "self.divisor.degrees": ("self_divisor_degrees", "dictZ"), "self.divisor.graph.graph": ("self_divisor_graph_graph", "dictD"),
                           "self.graph.vertices": ("self_graph_vertices", "set"), "self.graph.graph": ("self_graph_graph", "dictD")}
SRC_CLASS = {"CFConfigMoves": "CFConfig"}          # a group that is translated from the source of another class (kept in a file of its own)
CROSS = {"self_degrees": "self_divisor_degrees", "self_graph_graph": "self_divisor_graph_graph"}      # fields of self.divisor as seen from a CFConfig
COPY_OK = False     # CFConfig.copy() has the expected one-line body (set in main)
LAP_ROWS_DEFAULT = None     # True when every row _construct_matrix creates is a defaultdict(int) in the current source (None: not seen yet)
ENUMS = {}     # "OrientationState.NAME" -> int, read from the source of the enum class
TARGETS = [
    ("chipfiring/CFDivisor.py", "CFDivisor", "is_effective"), ("chipfiring/CFDivisor.py", "CFDivisor", "get_degree"),
    ("chipfiring/CFDivisor.py", "CFDivisor", "lending_move"), ("chipfiring/CFDivisor.py", "CFDivisor", "borrowing_move"),
    ("chipfiring/CFDivisor.py", "CFDivisor", "chip_transfer"), ("chipfiring/CFDivisor.py", "CFDivisor", "set_fire"),
    ("chipfiring/CFDivisor.py", "CFDivisor", "__init__"), ("chipfiring/CFDivisor.py", "CFDivisor", "__neg__"), ("chipfiring/CFDivisor.py", "CFDivisor", "__rmul__"),
    ("chipfiring/CFDivisor.py", "CFDivisor", "__eq__"), ("chipfiring/CFDivisor.py", "CFDivisor", "__add__"), ("chipfiring/CFDivisor.py", "CFDivisor", "__sub__"), ("chipfiring/CFDivisor.py", "CFDivisor", "get_total_degree"),
    ("chipfiring/CFGraph.py", "CFGraph", "is_loopless"), ("chipfiring/CFGraph.py", "CFGraph", "get_valence"), ("chipfiring/CFGraph.py", "CFGraph", "add_edge"),
    ("chipfiring/CFGraph.py", "CFGraph", "add_edges"), ("chipfiring/CFGraph.py", "CFGraph", "__init__"),
    ("chipfiring/CFiringScript.py", "CFiringScript", "__init__"), ("chipfiring/CFiringScript.py", "CFiringScript", "get_firings"), ("chipfiring/CFiringScript.py", "CFiringScript", "set_firings"),
    ("chipfiring/CFiringScript.py", "CFiringScript", "update_firings"), ("chipfiring/CFiringScript.py", "CFiringScript", "script"),
    ("chipfiring/CFConfig.py", "CFConfig", "get_out_degree_S"),
    ("chipfiring/CFOrientation.py", "CFOrientation", "set_orientation"), ("chipfiring/CFOrientation.py", "CFOrientation", "check_fullness"),
    ("chipfiring/CFOrientation.py", "CFOrientation", "get_in_degree"), ("chipfiring/CFOrientation.py", "CFOrientation", "get_out_degree"),
    ("chipfiring/CFOrientation.py", "CFOrientation", "get_orientation"), ("chipfiring/CFOrientation.py", "CFOrientation", "is_source"), ("chipfiring/CFOrientation.py", "CFOrientation", "is_sink"),
    ("chipfiring/CFOrientation.py", "CFOrientation", "divisor"), ("chipfiring/CFOrientation.py", "CFOrientation", "canonical_divisor"),
    ("chipfiring/CFDhar.py", "DharAlgorithm", "outdegree_S"),
    ("chipfiring/CFLaplacian.py", "CFLaplacian", "_construct_matrix"), ("chipfiring/CFLaplacian.py", "CFLaplacian", "get_matrix_entry"), ("chipfiring/CFLaplacian.py", "CFLaplacian", "get_reduced_matrix"),
    ("chipfiring/CFConfig.py", "CFConfigMoves", "__init__"), ("chipfiring/CFConfig.py", "CFConfigMoves", "get_degree_at"), ("chipfiring/CFConfig.py", "CFConfigMoves", "is_non_negative"), ("chipfiring/CFConfig.py", "CFConfigMoves", "get_degree_sum"), ("chipfiring/CFConfig.py", "CFConfigMoves", "get_q_underlying_degree"),
    ("chipfiring/CFConfig.py", "CFConfigMoves", "_is_comparable_to"), ("chipfiring/CFConfig.py", "CFConfigMoves", "__eq__"), ("chipfiring/CFConfig.py", "CFConfigMoves", "__ge__"), ("chipfiring/CFConfig.py", "CFConfigMoves", "__le__"),
    ("chipfiring/CFConfig.py", "CFConfigMoves", "set_fire"), ("chipfiring/CFConfig.py", "CFConfigMoves", "lending_move"), ("chipfiring/CFConfig.py", "CFConfigMoves", "borrowing_move"),
    ("chipfiring/CFConfig.py", "CFConfigMoves", "is_legal_set_firing"), ("chipfiring/CFConfig.py", "CFConfigMoves", "is_superstable"), ("chipfiring/CFConfig.py", "CFConfigMoves", "__lt__"), ("chipfiring/CFConfig.py", "CFConfigMoves", "__gt__"),
    ("chipfiring/CFConfig.py", "CFConfigMoves", "get_q_vertex_name"), ("chipfiring/CFConfig.py", "CFConfigMoves", "get_v_tilde_names"), ("chipfiring/CFConfig.py", "CFConfigMoves", "get_config_degrees_as_dict"),
]
class Unsupported(Exception): pass
def bad(node, why=""): raise Unsupported("%s at line %s: %s" % (type(node).__name__, getattr(node, "lineno", "?"), why))
COQTY = {"optdiv": "(option (list nat * dictD * dictZ))", "optdict": "(option dictZ)", "pairs": "(list (nat * Z))", "keys": "(list nat)", "divobj": "(dictZ * Z)", "optbool": "(option bool)", "optpair": "(option (nat * nat))", "key": "nat", "Z": "Z", "bool": "bool", "dictZ": "dictZ", "dictD": "dictD", "set": "list nat", "edges": "list (nat * nat * Z)"}
def ann_type(a):
    s = ast.unparse(a)
    if s == "int": return "Z"
    if s == "str": return "key"
    if s == "bool": return "bool"
    if s == "Vertex": return "key"
    if s in ("typing.List[typing.Tuple[str, str, int]]", "List[Tuple[str, str, int]]"): return "edges"
    if s == "OrientationState": return "Z"
    if s in ("List[Tuple[str, int]]", "typing.List[typing.Tuple[str, int]]"): return "pairs"
    if s == "CFGraph": return "graphobj"
    if s in ("'CFConfig'", '"CFConfig"'): return "cfgparam"
    if s in ("Optional[typing.Dict[str, int]]", "typing.Optional[typing.Dict[str, int]]", "Optional[Dict[str, int]]"): return "optdict"
    if s in ("'CFDivisor'", '"CFDivisor"', "CFDivisor"): return "divparam"
    if s in ("Set[str]", "typing.Set[str]", "typing.Set[typing.str]", "Set[Vertex]", "typing.Set[Vertex]"): return "set"
    raise Unsupported("annotation " + s)
DONE = {}      # (cls, name) -> Fn, in translation order
CFGPARAM = [("q_vertex", "key"), ("graph_vertices", "set"), ("graph_graph", "dictD"), ("v_tilde_vertices", "set"), ("divisor_degrees", "dictZ")]

class Fn:
    def __init__(self, node, cls):
        self.node = node; self.cls = cls; self.env = {}; self.params = []; self.tmp = 0; self.pending = []
        self.reads = []; self.writes = []; self.uses_order = False; self.rty = None; self.can_raise = False; self.objargs = {}
        self.bookkeeping = {"seen_edges", "edge"} if (cls, node.name) == ("CFGraph", "add_edges") else set()
    def fresh(self, p="t"): self.tmp += 1; return "%s%d_" % (p, self.tmp)
    def field(self, e, write=False):
        if getattr(self, "graph_alias", False) and not write and ast.unparse(e) in ("self.graph.vertices", "self.graph.graph"):
            nm_ = self.graph_alias + "_" + ast.unparse(e).rsplit(".", 1)[1]
            if nm_ not in [p_ for p_, _ in self.params]: bad(e, "the constructor's argument is not seen through " + nm_)
            return nm_, ("set" if nm_.endswith("vertices") else "dictD")
        f = FIELDS[self.cls].get(ast.unparse(e))
        if not f: return None
        if f[0] not in self.reads: self.reads.append(f[0])
        if write and f[0] not in self.writes: self.writes.append(f[0])
        return f
    def lookup(self, d, k):
        """d[k]: hoisted as a match on d_find (KeyError = None)"""
        t = self.fresh(); self.pending.append((t, "d_find %s %s" % (k, d))); self.can_raise = True; return t
    def expr(self, e):
        if isinstance(e, ast.Constant):
            if e.value is True: return "true", "bool"
            if e.value is False: return "false", "bool"
            if type(e.value) is int: return ("%d" % e.value if e.value >= 0 else "(%d)" % e.value), "Z"
            bad(e, "constant")
        if isinstance(e, ast.Name) and self.env.get(e.id) == "edges" and getattr(self, "in_test", False):
            return "(negb (match %s with [] => true | _ :: _ => false end))" % e.id, "bool"       # `if edges:` - a non-empty list
        if isinstance(e, ast.Name):
            if e.id not in self.env: bad(e, "unknown name " + e.id)
            return e.id, self.env[e.id]
        if isinstance(e, ast.Attribute) and ast.unparse(e) in ENUMS: return "%d" % ENUMS[ast.unparse(e)], "Z"
        if isinstance(e, ast.IfExp):
            n0 = len(self.pending); c, tc = self.expr(e.test); a, ta = self.expr(e.body); b, tb = self.expr(e.orelse)
            if tc != "bool" or ta != tb or len(self.pending) != n0: bad(e, "conditional expression")
            return "(if %s then %s else %s)" % (c, a, b), ta
        if isinstance(e, ast.Attribute) and isinstance(e.value, ast.Name) and self.env.get(e.value.id) == "graphobj" and e.attr in ("vertices", "graph"):
            return e.value.id + "_" + e.attr, ("set" if e.attr == "vertices" else "dictD")
        if isinstance(e, ast.Attribute) and ast.unparse(e).count(".") in (1, 2) and isinstance(ast.parse(ast.unparse(e).split(".")[0], mode="eval").body, ast.Name) \
                and ((self.env.get(ast.unparse(e).split(".")[0]) == "divparam" and ast.unparse(e).split(".", 1)[1] in ("graph.vertices", "degrees"))
                     or (self.env.get(ast.unparse(e).split(".")[0]) == "divparam3" and ast.unparse(e).split(".", 1)[1] in ("graph.vertices", "degrees", "graph.graph"))):
            o_, r_ = ast.unparse(e).split(".", 1); return o_ + "_" + r_.replace(".", "_"), {"graph.vertices": "set", "degrees": "dictZ", "graph.graph": "dictD"}[r_]
        if isinstance(e, ast.Attribute) and ast.unparse(e).split(".")[0] in self.env and self.env[ast.unparse(e).split(".")[0]] == "cfgparam" \
                and ast.unparse(e).split(".", 1)[1].replace(".", "_") in [f_ for f_, _ in CFGPARAM]:
            o_, r_ = ast.unparse(e).split(".", 1); return o_ + "_" + r_.replace(".", "_"), dict(CFGPARAM)[r_.replace(".", "_")]
        if isinstance(e, ast.Call) and isinstance(e.func, ast.Attribute) and isinstance(e.func.value, ast.Name) and self.env.get(e.func.value.id) == "cfgparam" \
                and DONE.get((self.cls, e.func.attr)) is not None and not e.keywords:
            # a read-only method of this class called on ANOTHER configuration: the same translated function on the other object's fields
            callee = DONE[(self.cls, e.func.attr)]; o_ = e.func.value.id
            if callee.writes or callee.rty is None or callee.uses_order or callee.objargs or len(e.args) != len(callee.params): bad(e, "method of another configuration")
            args = []
            for fld in callee.reads:
                if not fld.startswith("self_") or fld[5:] not in [f_ for f_, _ in CFGPARAM]: bad(e, "field %s of another configuration" % fld)
                args.append(o_ + fld[4:])
            for a_, (_, ty_) in zip(e.args, callee.params):
                t_, tt_ = self.expr(a_)
                if tt_ != ty_: bad(e, "argument type")
                args.append(t_)
            call = "%s_%s %s" % (self.cls, e.func.attr, " ".join(args))
            if not callee.can_raise: return "(%s)" % call, callee.rty
            t = self.fresh(); self.pending.append((t, "CALL_ " + call)); self.can_raise = True; return t, callee.rty
        if isinstance(e, ast.Call) and isinstance(e.func, ast.Attribute) and e.func.attr == "get" and len(e.args) == 2 and not e.keywords and isinstance(e.args[1], ast.Dict) and not e.args[1].keys:
            d, td = self.expr(e.func.value); k, tk = self.expr(e.args[0])
            if td != "dictD" or tk != "key": bad(e, "get with an empty-dictionary default on %s" % td)
            return "(d_get %s [] %s)" % (k, d), "dictZ"
        if isinstance(e, ast.Call) and isinstance(e.func, ast.Attribute) and ast.unparse(e.func.value) == "self.graph" and DONE.get(("CFGraph", e.func.attr)) is not None and not e.keywords:
            # a read-only CFGraph method on this object's graph
            callee = DONE[("CFGraph", e.func.attr)]
            if callee.writes or callee.rty is None or callee.uses_order or callee.objargs or len(e.args) != len(callee.params): bad(e, "method of the graph")
            args = []
            for fld in callee.reads:
                mine = FIELDS[self.cls].get("self.graph." + fld[5:])
                if not fld.startswith("self_") or not mine: bad(e, "field %s of the graph" % fld)
                if mine[0] not in self.reads: self.reads.append(mine[0])
                args.append(mine[0])
            for a_, (_, ty_) in zip(e.args, callee.params):
                t_, tt_ = self.expr(a_)
                if tt_ != ty_: bad(e, "argument type")
                args.append(t_)
            call = "CFGraph_%s %s" % (e.func.attr, " ".join(args))
            if not callee.can_raise: return "(%s)" % call, callee.rty
            t = self.fresh(); self.pending.append((t, "CALL_ " + call)); self.can_raise = True; return t, callee.rty
        if isinstance(e, ast.Call) and isinstance(e.func, ast.Name) and e.func.id == "sum" and len(e.args) == 1 and not e.keywords and isinstance(e.args[0], ast.GeneratorExp) \
                and len(e.args[0].generators) == 1 and isinstance(e.args[0].generators[0].target, ast.Name) and len(e.args[0].generators[0].ifs) <= 1:
            # sum(E for x in <dict> if C): the keys in insertion order; dictionary reads that do not mention x are hoisted out of the sum
            g_ = e.args[0].generators[0]; x_ = g_.target.id
            if x_ in self.env: bad(e, "generator variable shadows a name")
            d_, td_ = self.expr(g_.iter)
            if td_ not in ("dictZ", "dictD"): bad(e, "sum over " + td_)
            n0 = len(self.pending); self.env[x_] = "key"
            c_ = self.expr(g_.ifs[0]) if g_.ifs else ("true", "bool"); el_, te_ = self.expr(e.args[0].elt); del self.env[x_]
            import re as _re
            if c_[1] != "bool" or te_ != "Z" or any(_re.search(r"\b%s\b" % _re.escape(x_), look) for _, look in self.pending[n0:]): bad(e, "generator expression")
            return "(fold_left (fun a_ %s => if %s then (a_ + %s) else a_) (d_keys %s) 0)" % (x_, c_[0], el_, d_), "Z"
        if isinstance(e, ast.Call) and isinstance(e.func, ast.Attribute) and isinstance(e.func.value, ast.Name) and self.env.get(e.func.value.id) == "cfgcopy" \
                and DONE.get((self.cls, e.func.attr)) is not None and not e.keywords:
            callee = DONE[(self.cls, e.func.attr)]; x = e.func.value.id
            if callee.writes or callee.rty is None or callee.uses_order or callee.objargs or len(e.args) != len(callee.params): bad(e, "method of the copy")
            args = [{"self_q_vertex": x + "_q_vertex", "self_v_tilde_vertices": x + "_v_tilde_vertices", "self_divisor_degrees": x + "_divisor_degrees"}.get(f_) for f_ in callee.reads]
            if None in args: bad(e, "field of the copy")
            for a_, (_, ty_) in zip(e.args, callee.params):
                t_, tt_ = self.expr(a_)
                if tt_ != ty_: bad(e, "argument type")
                args.append(t_)
            call = "%s_%s %s" % (self.cls, e.func.attr, " ".join(args))
            if not callee.can_raise: return "(%s)" % call, callee.rty
            t = self.fresh(); self.pending.append((t, "CALL_ " + call)); self.can_raise = True; return t, callee.rty
        if isinstance(e, ast.List) and not e.elts: return "(@nil (nat * Z))", "pairs"        # (only ever appended to with (name, int) pairs: checked at the append)
        if isinstance(e, ast.Call) and isinstance(e.func, ast.Name) and e.func.id == "isinstance" and len(e.args) == 2 and isinstance(e.args[0], ast.Name) \
                and self.env.get(e.args[0].id) == "Z" and ast.unparse(e.args[1]) == "int": return "true", "bool"      # a parameter annotated int (assumption of the tie: callers respect the annotation)
        if isinstance(e, ast.DictComp) and len(e.generators) == 1 and not e.generators[0].ifs and isinstance(e.generators[0].target, ast.Name) and isinstance(e.key, ast.Name) \
                and e.key.id == e.generators[0].target.id and e.key.id not in self.env:
            # {v: e for v in <set>}: the keys are inserted in the order the set is iterated in
            src, ts = self.expr(e.generators[0].iter); v = e.key.id
            if ts != "set": bad(e, "dict comprehension over " + ts)
            self.env[v] = "key"; n0 = len(self.pending); val, tv = self.expr(e.value); del self.env[v]
            if tv != "Z" or len(self.pending) != n0: bad(e, "dict comprehension value")
            self.uses_order = True; return "(fold_left (fun d_ %s => d_set %s %s d_) (set_order %s) [])" % (v, v, val, src), "dictZ"
        if isinstance(e, ast.DictComp) and len(e.generators) == 1 and not e.generators[0].ifs and isinstance(e.generators[0].target, ast.Name) and isinstance(e.key, ast.Attribute) \
                and e.key.attr == "name" and isinstance(e.key.value, ast.Name) and e.key.value.id == e.generators[0].target.id and e.key.value.id not in self.env and not self.assigned(self.node.body):
            # {v.name: <value that may raise> for v in <set>} in a method that writes nothing: a loop over the set in iteration order that stops at the first exception
            src, ts = self.expr(e.generators[0].iter); v = e.key.value.id
            if ts != "set": bad(e, "dict comprehension over " + ts)
            outer = self.pending; self.pending = []; self.env[v] = "key"; val, tv = self.expr(e.value); del self.env[v]
            if tv != "Z": bad(e, "dict comprehension value")
            inner = self.wrap("PyOk (d_set %s %s d_)" % (v, val)).replace("EXN_", "PyExn tt"); self.pending = outer
            t = self.fresh(); self.uses_order = True; self.can_raise = True
            self.pending.append((t, "CALL_ (fold_left (fun acc_ %s => match acc_ with PyExn e_ => PyExn e_ | PyOk d_ =>\n  %s end) (set_order %s) (PyOk (@nil (nat * Z))))" % (v, inner, src)))
            return t, "dictZ"
        if isinstance(e, ast.ListComp) and len(e.generators) == 1 and not e.generators[0].ifs and isinstance(e.generators[0].target, ast.Tuple) and len(e.generators[0].target.elts) == 2 \
                and all(isinstance(x, ast.Name) for x in e.generators[0].target.elts):
            # [name for name, _ in pairs]   /   [(v.name, f(deg)) for v, deg in d.items()]
            g_ = e.generators[0]; a_, b_ = [x.id for x in g_.target.elts]
            if isinstance(g_.iter, ast.Call) and isinstance(g_.iter.func, ast.Attribute) and g_.iter.func.attr == "items" and not g_.iter.args:
                src, ts = self.expr(g_.iter.func.value)
                if ts != "dictZ": bad(e, "items() of " + ts)
            else:
                src, ts = self.expr(g_.iter)
                if ts != "pairs": bad(e, "list comprehension over " + ts)
            if a_ in self.env or b_ in self.env or a_ == "_": bad(e, "comprehension variable shadows a name")
            self.env[a_] = "key"
            if b_ != "_": self.env[b_] = "Z"
            n0 = len(self.pending)
            if isinstance(e.elt, ast.Tuple) and len(e.elt.elts) == 2:
                (x_, tx_), (y_, ty_) = self.expr(e.elt.elts[0]), self.expr(e.elt.elts[1]); out_ = "(%s, %s)" % (x_, y_); to_ = "pairs"
                if tx_ != "key" or ty_ != "Z": bad(e, "element of the comprehension")
            else:
                out_, tx_ = self.expr(e.elt); to_ = "keys"
                if tx_ != "key": bad(e, "element of the comprehension")
            del self.env[a_]
            if b_ != "_": del self.env[b_]
            if len(self.pending) != n0: bad(e, "a dictionary read inside a comprehension")
            return "(map (fun '(%s, %s) => %s) %s)" % (a_, b_, out_, src), to_
        if isinstance(e, ast.Compare) and len(e.ops) == 1 and isinstance(e.ops[0], (ast.Eq, ast.NotEq)) and isinstance(e.left, ast.Call) and isinstance(e.comparators[0], ast.Call) \
                and ast.unparse(e.left.func) == "len" and ast.unparse(e.comparators[0].func) == "len" and len(e.left.args) == 1 and isinstance(e.left.args[0], ast.Name) \
                and ast.unparse(e.comparators[0].args[0]) == "set(%s)" % e.left.args[0].id and self.env.get(e.left.args[0].id) in ("keys", "set"):
            # len(xs) == len(set(xs)): no name occurs twice
            t = "(nodupb %s)" % e.left.args[0].id; return (t if isinstance(e.ops[0], ast.Eq) else "(negb %s)" % t), "bool"
        f = self.field(e) if isinstance(e, ast.Attribute) else None
        if f: return f
        if isinstance(e, ast.Attribute) and e.attr == "name":
            a, ta = self.expr(e.value)
            if ta != "key": bad(e, ".name of " + ta)
            return a, "key"
        if isinstance(e, ast.Call) and isinstance(e.func, ast.Name) and e.func.id == "Vertex" and len(e.args) == 1 and not e.keywords:
            a, ta = self.expr(e.args[0])
            if ta != "key": bad(e, "Vertex of " + ta)
            return a, "key"
        if isinstance(e, ast.Call) and isinstance(e.func, ast.Name) and e.func.id == "set" and not e.args and not e.keywords: return "(@nil nat)", "set"
        if isinstance(e, ast.Call) and isinstance(e.func, ast.Name) and e.func.id == "set" and len(e.args) == 1 and not e.keywords:
            a_ = e.args[0]
            if isinstance(a_, ast.Call) and isinstance(a_.func, ast.Attribute) and a_.func.attr == "keys" and not a_.args:        # set(d.keys()): the keys of a dictionary are distinct
                d_, td_ = self.expr(a_.func.value)
                if td_ not in ("dictZ", "dictD"): bad(e, "keys() of " + td_)
                return "(d_keys %s)" % d_, "set"
            x_, tx_ = self.expr(a_)
            if tx_ != "set": bad(e, "set() of " + tx_)
            return x_, "set"
        if isinstance(e, ast.Call) and isinstance(e.func, ast.Attribute) and e.func.attr == "get" and len(e.args) == 2 and not e.keywords and ast.unparse(e.func.value) != "self":
            d, td = self.expr(e.func.value); k, tk = self.expr(e.args[0]); dflt, tdf = self.expr(e.args[1])
            if td != "dictZ" or tk != "key" or tdf != "Z": bad(e, "get on %s" % td)
            return "(d_get %s %s %s)" % (k, dflt, d), "Z"
        if isinstance(e, ast.SetComp) and len(e.generators) == 1 and not e.generators[0].ifs and isinstance(e.generators[0].target, ast.Name):
            # {Vertex(name) for name in S}: the same set of keys
            src, ts = self.expr(e.generators[0].iter); v = e.generators[0].target.id
            if ts != "set" or ast.unparse(e.elt) not in ("Vertex(%s)" % v, v, "%s.name" % v): bad(e, "set comprehension")
            return src, "set"
        if isinstance(e, ast.Call) and isinstance(e.func, ast.Attribute) and ast.unparse(e.func.value) == "self.divisor" and self.cls == "CFConfigMoves":
            # a read-only CFDivisor method called on the wrapped divisor; hoisted like a dictionary read (it may raise)
            callee = DONE.get(("CFDivisor", e.func.attr)); names = [p_ for p_, _ in (callee.params if callee else [])]
            if not callee or callee.writes or callee.rty is None or callee.uses_order or e.keywords or len(e.args) != len(names): bad(e, "call of an untranslated / impure CFDivisor method in an expression")
            args = []
            for fld in callee.reads:
                mine = CROSS[fld]
                if mine not in self.reads: self.reads.append(mine)
                args.append(mine)
            for a_, (_, ty_) in zip(e.args, callee.params):
                t_, tt_ = self.expr(a_)
                if tt_ != ty_: bad(e, "argument type")
                args.append(t_)
            call = "CFDivisor_%s %s" % (e.func.attr, " ".join(args))
            if not callee.can_raise: return "(%s)" % call, callee.rty
            t = self.fresh(); self.pending.append((t, "CALL_ " + call)); self.can_raise = True; return t, callee.rty
        if isinstance(e, ast.Call) and isinstance(e.func, ast.Attribute) and ast.unparse(e.func.value) == "self" and DONE.get((self.cls, e.func.attr)) is not None \
                and DONE[(self.cls, e.func.attr)].can_raise and not DONE[(self.cls, e.func.attr)].writes and DONE[(self.cls, e.func.attr)].rty is not None:
            callee = DONE[(self.cls, e.func.attr)]; args = self.call_args(callee, e)
            t = self.fresh(); self.pending.append((t, "CALL_ %s_%s %s" % (self.cls, e.func.attr, " ".join(args)))); self.can_raise = True; return t, callee.rty
        if isinstance(e, ast.Call) and isinstance(e.func, ast.Attribute) and ast.unparse(e.func.value) == "self":
            callee = DONE.get((self.cls, e.func.attr))
            if not callee or callee.writes or callee.can_raise: bad(e, "call of an untranslated / impure method in an expression")
            args = self.call_args(callee, e)
            return "(%s_%s %s)" % (self.cls, e.func.attr, " ".join(args)), callee.rty
        if isinstance(e, ast.BinOp) and isinstance(e.op, ast.Sub) and isinstance(e.right, ast.Set) and len(e.right.elts) == 1:
            a, ta = self.expr(e.left); k_, tk_ = self.expr(e.right.elts[0])
            if ta != "set" or tk_ != "key": bad(e, "set difference")
            return "(filter (fun x_ => negb (Nat.eqb x_ %s)) %s)" % (k_, a), "set"
        if isinstance(e, ast.BinOp):
            a, ta = self.expr(e.left); b, tb = self.expr(e.right)
            op = {ast.Add: "+", ast.Sub: "-", ast.Mult: "*"}.get(type(e.op))
            if ta != "Z" or tb != "Z" or not op: bad(e, "arithmetic")
            return "(%s %s %s)" % (a, op, b), "Z"
        if isinstance(e, ast.UnaryOp) and isinstance(e.op, ast.USub):
            a, ta = self.expr(e.operand)
            if ta != "Z": bad(e)
            return "(- %s)" % a, "Z"
        if isinstance(e, ast.UnaryOp) and isinstance(e.op, ast.Not) and isinstance(e.operand, ast.Name) and self.env.get(e.operand.id) in ("set", "edges", "pairs"):
            return "(match %s with [] => true | _ :: _ => false end)" % e.operand.id, "bool"       # `not xs`: the collection is empty
        if isinstance(e, ast.UnaryOp) and isinstance(e.op, ast.Not):
            a, ta = self.expr(e.operand)
            if ta != "bool": bad(e, "not on " + ta)
            return "(negb %s)" % a, "bool"
        if isinstance(e, ast.BoolOp):
            # `and` / `or` short-circuit: only allowed when the later operands cannot raise (no hoisted lookups)
            parts = []
            for i, v in enumerate(e.values):
                n0 = len(self.pending); p = self.expr(v)
                if i > 0 and len(self.pending) != n0: bad(e, "a dictionary read in a short-circuited operand")
                parts.append(p)
            if any(t != "bool" for _, t in parts): bad(e, "and/or on non-bool")
            return "(" + (" && " if isinstance(e.op, ast.And) else " || ").join(p for p, _ in parts) + ")", "bool"
        if isinstance(e, ast.Compare) and len(e.ops) == 1 and isinstance(e.left, ast.Name) and e.left.id == "self" and isinstance(e.comparators[0], ast.Name) \
                and self.env.get(e.comparators[0].id) == "cfgparam" and type(e.ops[0]) in (ast.LtE, ast.GtE, ast.Eq):
            nm_ = {ast.LtE: "__le__", ast.GtE: "__ge__", ast.Eq: "__eq__"}[type(e.ops[0])]; callee = DONE.get((self.cls, nm_))
            if callee is None or callee.writes or callee.rty != "bool" or list(callee.objargs) != ["other"]: bad(e, "comparison of configurations")
            fake = ast.Call(func=ast.Attribute(value=ast.Name(id="self"), attr=nm_), args=[e.comparators[0]], keywords=[])
            args = self.call_args(callee, fake); call = "%s_%s %s" % (self.cls, nm_, " ".join(args))
            if not callee.can_raise: return "(%s)" % call, "bool"
            t = self.fresh(); self.pending.append((t, "CALL_ " + call)); self.can_raise = True; return t, "bool"
        if isinstance(e, ast.Compare) and len(e.ops) == 1:
            op = e.ops[0]; a, ta = self.expr(e.left); b, tb = self.expr(e.comparators[0])
            if isinstance(op, (ast.In, ast.NotIn)):
                if ta != "key": bad(e, "membership of a non-key")
                t = {"dictZ": "(d_mem %s %s)", "dictD": "(d_mem %s %s)", "set": "(s_mem %s %s)"}.get(tb)
                if not t: bad(e, "membership in " + tb)
                t = t % (a, b); return (t if isinstance(op, ast.In) else "(negb %s)" % t), "bool"
            if ta == "key" and tb == "key" and isinstance(op, (ast.Lt, ast.LtE, ast.Gt, ast.GtE)):
                # Vertex.__lt__ & co compare names; keys are numbered in name order (the harness' canonical ids), so this is the order of the numbers
                return {ast.Lt: "(Nat.ltb %s %s)", ast.LtE: "(Nat.leb %s %s)", ast.Gt: "(Nat.ltb %s %s)", ast.GtE: "(Nat.leb %s %s)"}[type(op)] % ((a, b) if isinstance(op, (ast.Lt, ast.LtE)) else (b, a)), "bool"
            if ta == "key" and tb == "key" and isinstance(op, (ast.Eq, ast.NotEq)):
                t = "(Nat.eqb %s %s)" % (a, b); return (t if isinstance(op, ast.Eq) else "(negb %s)" % t), "bool"
            if ta == "dictZ" and tb == "dictZ" and isinstance(op, (ast.Eq, ast.NotEq)):
                t = "(dict_eqb %s %s)" % (a, b); return (t if isinstance(op, ast.Eq) else "(negb %s)" % t), "bool"
            if ta == "set" and tb == "set" and isinstance(op, (ast.Eq, ast.NotEq)):
                t = "(set_eqb %s %s)" % (a, b); return (t if isinstance(op, ast.Eq) else "(negb %s)" % t), "bool"
            if ta != "Z" or tb != "Z": bad(e, "comparison of %s and %s" % (ta, tb))
            o = {ast.Lt: "(%s <? %s)", ast.LtE: "(%s <=? %s)", ast.Gt: "(%s >? %s)", ast.GtE: "(%s >=? %s)", ast.Eq: "(%s =? %s)", ast.NotEq: "(negb (%s =? %s))"}.get(type(op))
            if not o: bad(e, "comparison operator")
            return o % (a, b), "bool"
        if isinstance(e, ast.Subscript) and LAP_ROWS_DEFAULT and self.cls == "CFLaplacian" and isinstance(e.value, ast.Subscript) and isinstance(e.value.value, ast.Name) \
                and e.value.value.id in self.lap_aliases():
            # a row of self.laplacian is a defaultdict(int) (seen in the CURRENT source of _construct_matrix): an absent entry reads as 0; the outer dictionary is plain (KeyError)
            d, td = self.expr(e.value); k, tk = self.expr(e.slice)
            if tk != "key" or td != "dictZ": bad(e, "subscript of a Laplacian row")
            return "(d_get %s 0 %s)" % (k, d), "Z"
        if isinstance(e, ast.Subscript):
            d, td = self.expr(e.value); k, tk = self.expr(e.slice)
            if tk != "key" or td not in ("dictZ", "dictD"): bad(e, "subscript of %s by %s" % (td, tk))
            return self.lookup(d, k), ("Z" if td == "dictZ" else "dictZ")
        bad(e, ast.unparse(e)[:60])
    def lap_aliases(self):
        """local names bound exactly once, to self.laplacian"""
        binds = {}
        for n_ in ast.walk(self.node):
            tg_ = n_.targets if isinstance(n_, ast.Assign) else ([n_.target] if isinstance(n_, (ast.AnnAssign, ast.AugAssign, ast.For)) else [])
            for t_ in tg_:
                for x_ in ast.walk(t_):
                    if isinstance(x_, ast.Name): binds.setdefault(x_.id, []).append(ast.unparse(n_.value) if isinstance(n_, ast.Assign) and len(n_.targets) == 1 and isinstance(t_, ast.Name) else None)
        return {x_ for x_, v_ in binds.items() if v_ == ["self.laplacian"]}
    def call_args(self, callee, e):
        exp_ = {x_ for v_ in callee.objargs.values() for x_, _ in v_}
        names = [p for p, _ in callee.params if p not in exp_] + list(callee.objargs); vals = {}
        if callee.objargs and (len(callee.objargs) != 1 or [p for p, _ in callee.params if p not in exp_]): bad(e, "object argument mixed with others")
        if len(e.args) > len(names): bad(e, "too many arguments")
        for n, a in zip(names, e.args): vals[n] = a
        for kw in e.keywords:
            if kw.arg not in names or kw.arg in vals: bad(e, "keyword " + str(kw.arg))
            vals[kw.arg] = kw.value
        if set(vals) != set(names): bad(e, "a parameter is left to its default")
        out = []
        for fld in callee.reads:
            if fld not in self.reads: self.reads.append(fld)
            out.append(fld)
        if callee.uses_order: self.uses_order = True; out.append("set_order")
        for n, ty in callee.params:
            if n in exp_: continue
            a, ta = self.expr(vals[n])
            if ta != ty: bad(e, "argument %s of type %s, expected %s" % (n, ta, ty))
            out.append(a)
        for o_, fs_ in callee.objargs.items():
            if not (isinstance(vals[o_], ast.Name) and self.env.get(vals[o_].id) == "cfgparam"): bad(e, "object argument")
            out += [vals[o_].id + x_[len(o_):] for x_, _ in fs_]
        return out
    def wrap(self, text):
        """close the lookups hoisted while translating the current statement around `text`"""
        for t, look in reversed(self.pending):
            if look.startswith("CALL_ "): text = "match %s with PyExn _ => EXN_ | PyOk %s =>\n  %s end" % (look[6:], t, text)      # a read-only method that may raise
            else: text = "match %s with None => EXN_ | Some %s =>\n  %s end" % (look, t, text)
        self.pending = []; return text
    def state_tuple(self, vs): return "tt" if not vs else ("(" + ", ".join(vs) + ")" if len(vs) != 1 else vs[0])
    def assigned(self, stmts):
        """fields written and sets grown inside a loop body: the loop-carried state"""
        out = []
        for n in ast.walk(ast.Module(body=stmts, type_ignores=[])):
            tgt = None
            if isinstance(n, (ast.Assign, ast.AugAssign)):
                t = n.targets[0] if isinstance(n, ast.Assign) else n.target
                while isinstance(t, ast.Subscript): t = t.value
                if isinstance(t, ast.Attribute): tgt = FIELDS[self.cls].get(ast.unparse(t), (None,))[0]
                t0_ = n.targets[0] if isinstance(n, ast.Assign) else n.target
                if isinstance(t, ast.Name) and isinstance(t0_, ast.Subscript) and self.env.get(t.id) in ("dictD", "dictZ"): tgt = t.id      # a store into a local dictionary
            if isinstance(n, ast.AugAssign) and isinstance(n.target, ast.Name): tgt = n.target.id
            if isinstance(n, ast.Call) and isinstance(n.func, ast.Attribute) and n.func.attr in ("add", "append") and isinstance(n.func.value, ast.Name) and n.func.value.id not in self.bookkeeping: tgt = n.func.value.id
            if isinstance(n, ast.Call) and isinstance(n.func, ast.Attribute) and ast.unparse(n.func.value) == "self":
                c = DONE.get((self.cls, n.func.attr))
                for w in (c.writes if c else []):
                    if w not in out: out.append(w)
            if tgt and tgt not in out: out.append(tgt)
        return out
    def iter_of(self, it, target):
        """returns (coq list text, binder text, {name: type})"""
        if isinstance(it, ast.Call) and isinstance(it.func, ast.Attribute) and it.func.attr == "items" and not it.args:
            d, td = self.expr(it.func.value)
            if td not in ("dictZ", "dictD") or not isinstance(target, ast.Tuple) or len(target.elts) != 2: bad(it, "items() form")
            ns = [x.id if x.id != "_" else self.fresh("u") for x in target.elts]
            return d, "let '(%s, %s) := kv_ in" % tuple(ns), {ns[0]: "key", ns[1]: ("Z" if td == "dictZ" else "dictZ")}, "kv_"
        if isinstance(it, ast.Name) and self.env.get(it.id) == "edges" and isinstance(target, ast.Tuple) and len(target.elts) == 3 and all(isinstance(x, ast.Name) for x in target.elts):
            ns = [x.id for x in target.elts]
            return it.id, "let '(%s, %s, %s) := kv_ in" % tuple(ns), {ns[0]: "key", ns[1]: "key", ns[2]: "Z"}, "kv_"
        if isinstance(it, ast.Name) and self.env.get(it.id) == "pairs" and isinstance(target, ast.Tuple) and len(target.elts) == 2 and all(isinstance(x, ast.Name) for x in target.elts):
            ns = [x.id for x in target.elts]
            return it.id, "let '(%s, %s) := kv_ in" % tuple(ns), {ns[0]: "key", ns[1]: "Z"}, "kv_"
        if isinstance(it, ast.Call) and ast.unparse(it.func) == "range" and len(it.args) == 2 and ast.unparse(it.args[0]) == "1" and isinstance(target, ast.Name) \
                and isinstance(it.args[1], ast.BinOp) and isinstance(it.args[1].op, ast.Add) and ast.unparse(it.args[1].right) == "1" and isinstance(it.args[1].left, ast.Call) \
                and ast.unparse(it.args[1].left.func) == "len" and len(it.args[1].left.args) == 1 and isinstance(it.args[1].left.args[0], ast.Name) and self.env.get(it.args[1].left.args[0].id) == "set":
            return "(seq 1 (length %s))" % it.args[1].left.args[0].id, "", {target.id: "natidx"}, target.id      # the sizes 1 .. |X|
        if isinstance(it, ast.Call) and ast.unparse(it.func) == "itertools.combinations" and len(it.args) == 2 and isinstance(target, ast.Name) and isinstance(it.args[0], ast.Name) \
                and self.env.get(it.args[0].id) == "set" and isinstance(it.args[1], ast.Name) and self.env.get(it.args[1].id) == "natidx":
            # itertools.combinations of a SET: the subsequences of the order in which the set is iterated
            self.uses_order = True; return "(combinations (set_order %s) %s)" % (it.args[0].id, it.args[1].id), "", {target.id: "set"}, target.id
        d, td = self.expr(it)
        if not isinstance(target, ast.Name): bad(it, "loop target")
        if td in ("dictZ", "dictD"): return "(d_keys %s)" % d, "", {target.id: "key"}, target.id
        if td == "set": self.uses_order = True; return "(set_order %s)" % d, "", {target.id: "key"}, target.id
        bad(it, "iteration over " + td)
    def stmts(self, ss, k):
        if not ss: return k()
        s, rest = ss[0], ss[1:]; K = lambda: self.stmts(rest, k)
        if isinstance(s, ast.Expr) and isinstance(s.value, ast.Constant) and isinstance(s.value.value, str): return K()
        # the duplicate-edge warning of add_edges: four exact statement shapes about two locals that nothing else may mention (checked in translate());
        # they only feed warnings.warn, which under the default warning filters returns None (assumption: warnings are not turned into errors)
        u = ast.unparse(s)
        if isinstance(s, ast.Assign) and u.endswith("= set()") and isinstance(s.targets[0], ast.Name) and s.targets[0].id in self.bookkeeping: return K()
        if isinstance(s, ast.Assign) and isinstance(s.targets[0], ast.Name) and s.targets[0].id in self.bookkeeping and isinstance(s.value, ast.Call) and ast.unparse(s.value.func) == "tuple" \
                and len(s.value.args) == 1 and isinstance(s.value.args[0], ast.Call) and ast.unparse(s.value.args[0].func) == "sorted" and isinstance(s.value.args[0].args[0], ast.List) \
                and all(isinstance(x, ast.Name) and self.env.get(x.id) == "key" for x in s.value.args[0].args[0].elts): return K()
        if isinstance(s, ast.If) and not s.orelse and isinstance(s.test, ast.Compare) and isinstance(s.test.ops[0], ast.In) and isinstance(s.test.left, ast.Name) and s.test.left.id in self.bookkeeping \
                and isinstance(s.test.comparators[0], ast.Name) and s.test.comparators[0].id in self.bookkeeping and len(s.body) == 1 and isinstance(s.body[0], ast.Expr) \
                and isinstance(s.body[0].value, ast.Call) and ast.unparse(s.body[0].value.func) == "warnings.warn": return K()
        if isinstance(s, ast.Expr) and isinstance(s.value, ast.Call) and isinstance(s.value.func, ast.Attribute) and s.value.func.attr == "add" and isinstance(s.value.func.value, ast.Name) \
                and s.value.func.value.id in self.bookkeeping and len(s.value.args) == 1 and isinstance(s.value.args[0], ast.Name) and s.value.args[0].id in self.bookkeeping: return K()
        if isinstance(s, ast.AnnAssign) and s.simple == 1 and isinstance(s.target, ast.Name) and isinstance(s.value, ast.Dict) and not s.value.keys \
                and ast.unparse(s.annotation) in ("typing.Dict[Vertex, typing.Dict[Vertex, int]]", "Dict[Vertex, Dict[Vertex, int]]"):
            if s.target.id in self.env: bad(s, "re-binding " + s.target.id)
            self.env[s.target.id] = "dictD"; body = K()
            return "let %s := (@nil (nat * dictZ)) in\n  %s" % (s.target.id, body)
        if isinstance(s, ast.AnnAssign) and s.value is not None and s.simple == 0:
            s = ast.copy_location(ast.Assign(targets=[s.target], value=s.value), s); u = ast.unparse(s)
        if isinstance(s, ast.Assign) and u == "self.graph = graph" and self.node.name == "__init__" and self.env.get("graph") == "graphobj": self.graph_alias = "graph"; return K()
        if isinstance(s, ast.Assign) and u == "self.divisor = divisor" and self.node.name == "__init__" and self.env.get("divisor") == "divparam": return K()       # the configuration wraps the argument itself
        if isinstance(s, ast.Assign) and u == "self.graph = divisor.graph" and self.node.name == "__init__" and self.env.get("divisor") == "divparam": self.graph_alias = "divisor_graph"; return K()      # the new object's graph IS the argument
        if isinstance(s, ast.If) and u.replace("\n", " ").split() == "if not isinstance(other, CFDivisor): return False".split() and self.env.get("other") == "optdiv":
            if self.rty not in (None, "bool"): bad(s, "returns of different types")
            self.rty = "bool"; self.env["other"] = "divparam3"; body = K()
            return "match other with None => RETB_ false RETE_ | Some (other_graph_vertices, other_graph_graph, other_degrees) =>\n  %s end" % body
        if isinstance(s, ast.Assign) and len(s.targets) == 1 and isinstance(s.targets[0], ast.Name) and ast.unparse(s.value) == "self.copy()" and self.cls == "CFConfigMoves":
            # CFConfig.copy() must be `return CFConfig(copy.deepcopy(self.divisor), self.q_vertex.name)` (checked against the source): the translated constructor on a divisor
            # with the same dictionaries (deepcopy: equal values, independent objects - so what happens to the copy never reaches self, which is how a functional value behaves)
            ctor = DONE.get(("CFConfigMoves", "__init__")); x = s.targets[0].id
            if not COPY_OK or ctor is None or x in self.env or [p_ for p_, _ in ctor.params] != ["divisor_graph_vertices", "divisor_degrees", "q_name"]: bad(s, "copy()")
            for f_ in ("self_graph_vertices", "self_divisor_degrees", "self_q_vertex", "self_divisor_graph_graph"):
                if f_ not in self.reads: self.reads.append(f_)
            self.env[x] = "cfgcopy"; self.can_raise = True; body = K()
            return "match CFConfigMoves___init__ self_graph_vertices self_divisor_degrees self_q_vertex with PyExn _ => EXN_ | PyOk (%s_q_vertex, %s_v_tilde_vertices) =>\n  let %s_divisor_degrees := self_divisor_degrees in\n  %s end" % (x, x, x, body)
        if isinstance(s, ast.Expr) and isinstance(s.value, ast.Call) and isinstance(s.value.func, ast.Attribute) and isinstance(s.value.func.value, ast.Name) \
                and self.env.get(s.value.func.value.id) == "cfgcopy" and DONE.get((self.cls, s.value.func.attr)) is not None and not s.value.keywords:
            # a mutator of this class called on the copy: only the copy's dictionary of chips changes
            x = s.value.func.value.id; callee = DONE[(self.cls, s.value.func.attr)]
            if callee.rty is not None or callee.writes != ["self_divisor_degrees"] or callee.objargs or len(s.value.args) != len(callee.params): bad(s, "method of the copy")
            args = [{"self_q_vertex": x + "_q_vertex", "self_v_tilde_vertices": x + "_v_tilde_vertices", "self_divisor_degrees": x + "_divisor_degrees", "self_divisor_graph_graph": "self_divisor_graph_graph"}.get(f_) for f_ in callee.reads]
            if None in args: bad(s, "field of the copy")
            if callee.uses_order: self.uses_order = True; args.append("set_order")
            for a_, (_, ty_) in zip(s.value.args, callee.params):
                t_, tt_ = self.expr(a_)
                if tt_ != ty_: bad(s, "argument type")
                args.append(t_)
            self.can_raise = True; pre = self.pending; self.pending = []; body = K(); self.pending = pre
            return self.wrap("match %s_%s %s with PyExn _ => EXN_ | PyOk %s_divisor_degrees =>\n  %s end" % (self.cls, s.value.func.attr, " ".join(args), x, body))
        if isinstance(s, ast.Raise): self.can_raise = True; return "EXN_"
        if isinstance(s, ast.Return):
            if s.value is None: bad(s, "bare return")
            if isinstance(s.value, ast.Call) and isinstance(s.value.func, ast.Name) and s.value.func.id == "CFDivisor" and self.cls in ("CFDivisor", "CFOrientation") and len(s.value.args) == 2 and not s.value.keywords \
                    and ast.unparse(s.value.args[0]) == "self.graph" and DONE.get(("CFDivisor", "__init__")) is not None:
                # return CFDivisor(self.graph, pairs): the constructor translated above, on this object's own graph; the result is the new object's (degrees, total_degree)
                ctor = DONE[("CFDivisor", "__init__")]; lst, tl = self.expr(s.value.args[1])
                if tl != "pairs" or ctor.reads or ctor.writes != ["self_degrees", "self_total_degree"] or [p_ for p_, _ in ctor.params] != ["graph_vertices", "graph_graph", "degrees"]: bad(s, "constructor call")
                for f_ in ("self_graph_vertices", "self_graph_graph"):
                    if f_ not in self.reads: self.reads.append(f_)
                if ctor.uses_order: self.uses_order = True
                if self.rty not in (None, "divobj"): bad(s, "returns of different types")
                self.rty = "divobj"; self.can_raise = True
                return self.wrap("match CFDivisor___init__ %sself_graph_vertices self_graph_graph %s with PyExn _ => EXN_ | PyOk new_ => RETB_ new_ RETE_ end" % ("set_order " if ctor.uses_order else "", lst))
            if isinstance(s.value, ast.BoolOp) and isinstance(s.value.op, ast.And) and len(s.value.values) == 2 and not getattr(self, "loop_ret", []) and not self.opt_ret:
                pre = self.pending; self.pending = []
                x_, tx_ = self.expr(s.value.values[0]); px_ = self.pending; self.pending = []
                y_, ty_ = self.expr(s.value.values[1]); py_ = self.pending; self.pending = pre
                if px_ or py_:
                    if tx_ != "bool" or ty_ != "bool" or self.rty not in (None, "bool"): bad(s, "and of non-bool")
                    self.rty = "bool"; save = self.pending
                    self.pending = py_; inner = self.wrap("RETB_ %s RETE_" % y_)
                    self.pending = px_; text = self.wrap("if %s then\n  %s\n  else\n  RETB_ false RETE_" % (x_, inner))
                    self.pending = save; return self.wrap(text)
            if self.opt_ret:
                # a method annotated Optional[bool] / Optional[Tuple[str, str]]: `return None` is None, any other return is Some of a bool / of a pair of names
                if isinstance(s.value, ast.Constant) and s.value.value is None: t, ty = "None", self.opt_ret
                elif self.opt_ret == "optpair" and isinstance(s.value, ast.Tuple) and len(s.value.elts) == 2:
                    (a_, ta_), (b_, tb_) = self.expr(s.value.elts[0]), self.expr(s.value.elts[1])
                    if ta_ != "key" or tb_ != "key": bad(s, "pair of non-names")
                    t, ty = "Some (%s, %s)" % (a_, b_), "optpair"
                else:
                    t, ty = self.expr(s.value)
                    if self.opt_ret != "optbool" or ty != "bool": bad(s, "return of %s in an Optional method" % ty)
                    t, ty = "Some %s" % t, "optbool"
            else: t, ty = self.expr(s.value)
            if self.rty not in (None, ty): bad(s, "returns of different types")
            self.rty = ty
            if getattr(self, "loop_ret", []): return self.wrap("PyOk (Some (%s), %s)" % (t, self.loop_ret[-1]))     # inside a loop: leave it with the value and the current state
            return self.wrap("RETB_ %s RETE_" % t)
        if isinstance(s, ast.Assign) and len(s.targets) == 1:
            tg = s.targets[0]
            if isinstance(tg, ast.Tuple) and isinstance(s.value, ast.Tuple) and len(tg.elts) == len(s.value.elts) and all(isinstance(x, ast.Name) for x in tg.elts):
                vals = [self.expr(v) for v in s.value.elts]; pre = self.pending; self.pending = []
                for x, (_, ty) in zip(tg.elts, vals):
                    if x.id in self.env: bad(s, "re-binding " + x.id)
                    self.env[x.id] = ty
                body = K(); self.pending = pre
                for x, (t, _) in reversed(list(zip(tg.elts, vals))): body = "let %s := %s in\n  %s" % (x.id, t, body)
                return self.wrap(body)
            if isinstance(tg, ast.Name) and isinstance(s.value, ast.Call) and isinstance(s.value.func, ast.Attribute) and ast.unparse(s.value.func.value) == "self" \
                    and DONE.get((self.cls, s.value.func.attr)) is not None and DONE[(self.cls, s.value.func.attr)].can_raise:
                callee = DONE[(self.cls, s.value.func.attr)]
                if callee.writes or callee.rty is None: bad(s, "result of a method with effects")
                args = self.call_args(callee, s.value); pre = self.pending; self.pending = []; self.can_raise = True
                if tg.id in self.env: bad(s, "re-binding " + tg.id)
                self.env[tg.id] = callee.rty; body = K(); self.pending = pre
                return self.wrap("match %s_%s %s with PyExn _ => EXN_ | PyOk %s =>\n  %s end" % (self.cls, s.value.func.attr, " ".join(args), tg.id, body))
            if isinstance(tg, ast.Name) and isinstance(s.value, ast.Dict) and not s.value.keys:
                if tg.id in self.env: bad(s, "re-binding " + tg.id)
                self.env[tg.id] = "dictZ"; body = K()
                return "let %s := (@nil (nat * Z)) in\n  %s" % (tg.id, body)
            if isinstance(tg, ast.Name):
                t, ty = self.expr(s.value); pre = self.pending; self.pending = []
                if tg.id in self.env: bad(s, "re-binding " + tg.id)
                self.env[tg.id] = ty; body = K(); self.pending = pre
                return self.wrap("let %s := %s in\n  %s" % (tg.id, t, body))
            if isinstance(tg, ast.Subscript): return self.store(s, tg, None, s.value, K)
            if isinstance(tg, ast.Attribute) and self.field(tg) and self.field(tg)[1] in ("Z", "bool", "dictZ", "dictD", "set", "key"):
                f = self.field(tg, write=True)
                if isinstance(s.value, ast.Dict) and not s.value.keys and f[1] in ("dictZ", "dictD"): t, ty = "[]", f[1]       # {}
                else: t, ty = self.expr(s.value)
                if ty != f[1]: bad(s, "field %s assigned a value of type %s" % (f[0], ty))
                pre = self.pending; self.pending = []; body = K(); self.pending = pre
                return self.wrap("let %s := %s in\n  %s" % (f[0], t, body))
        if isinstance(s, ast.AugAssign) and isinstance(s.op, (ast.Add, ast.Sub)):
            op = "+" if isinstance(s.op, ast.Add) else "-"
            if isinstance(s.target, ast.Subscript): return self.store(s, s.target, op, s.value, K)
            if isinstance(s.target, ast.Name) and self.env.get(s.target.id) == "Z":
                t, ty = self.expr(s.value)
                if ty != "Z": bad(s)
                pre = self.pending; self.pending = []; body = K(); self.pending = pre
                return self.wrap("let %s := (%s %s %s) in\n  %s" % (s.target.id, s.target.id, op, t, body))
            f = self.field(s.target, write=True) if isinstance(s.target, ast.Attribute) else None
            if f and f[1] == "Z":
                t, ty = self.expr(s.value)
                if ty != "Z": bad(s)
                pre = self.pending; self.pending = []; body = K(); self.pending = pre
                return self.wrap("let %s := (%s %s %s) in\n  %s" % (f[0], f[0], op, t, body))
        if isinstance(s, ast.Expr) and isinstance(s.value, ast.Call) and isinstance(s.value.func, ast.Attribute):
            c = s.value
            if c.func.attr == "append" and isinstance(c.func.value, ast.Name) and self.env.get(c.func.value.id) == "pairs" and len(c.args) == 1 and isinstance(c.args[0], ast.Tuple) and len(c.args[0].elts) == 2:
                (a_, ta_), (b_, tb_) = self.expr(c.args[0].elts[0]), self.expr(c.args[0].elts[1])
                if ta_ != "key" or tb_ != "Z": bad(s, "append of (%s, %s)" % (ta_, tb_))
                x = c.func.value.id; pre = self.pending; self.pending = []; body = K(); self.pending = pre
                return self.wrap("let %s := %s ++ [(%s, %s)] in\n  %s" % (x, x, a_, b_, body))
            if c.func.attr == "add" and isinstance(c.func.value, ast.Name) and self.env.get(c.func.value.id) == "set" and len(c.args) == 1:
                a, ta = self.expr(c.args[0])
                if ta != "key": bad(s, "add of " + ta)
                x = c.func.value.id; pre = self.pending; self.pending = []; body = K(); self.pending = pre
                return self.wrap("let %s := s_add %s %s in\n  %s" % (x, a, x, body))
            if ast.unparse(c.func.value) == "self.divisor" and self.cls == "CFConfigMoves":
                callee = DONE.get(("CFDivisor", c.func.attr))
                if not callee or callee.rty is not None or not callee.can_raise: bad(s, "call of an untranslated CFDivisor method")
                names = [p_ for p_, _ in callee.params]
                if c.keywords or len(c.args) != len(names): bad(s, "arguments of the delegated call")
                args = []
                for fld in callee.reads:
                    mine = CROSS[fld]
                    if mine not in self.reads: self.reads.append(mine)
                    args.append(mine)
                if callee.uses_order: self.uses_order = True; args.append("set_order")
                for a_, (_, ty_) in zip(c.args, callee.params):
                    t_, tt_ = self.expr(a_)
                    if tt_ != ty_: bad(s, "argument type")
                    args.append(t_)
                ws = [CROSS[w] for w in callee.writes]
                for w in ws:
                    if w not in self.writes: self.writes.append(w)
                self.can_raise = True; pre = self.pending; self.pending = []; body = K(); self.pending = pre
                return self.wrap("match CFDivisor_%s %s with PyExn %s => EXN_ | PyOk %s =>\n  %s end" % (c.func.attr, " ".join(args), self.state_tuple(ws), self.state_tuple(ws), body))
            if ast.unparse(c.func.value) == "self":
                callee = DONE.get((self.cls, c.func.attr))
                if not callee: bad(s, "call of an untranslated method")
                if callee.rty is not None:
                    # the result of the call is dropped; only its effect on the fields remains
                    if not callee.writes or not callee.can_raise: bad(s, "a call whose result is dropped and that has no effect")
                    args = self.call_args(callee, c); pre = self.pending; self.pending = []
                    for w in callee.writes:
                        if w not in self.writes: self.writes.append(w)
                    self.can_raise = True; body = K(); self.pending = pre
                    return self.wrap("match %s_%s %s with PyExn %s => EXN_ | PyOk (_, %s) =>\n  %s end" % (self.cls, c.func.attr, " ".join(args), self.state_tuple(callee.writes), self.state_tuple(callee.writes), body))
                args = self.call_args(callee, c); pre = self.pending; self.pending = []
                for w in callee.writes:
                    if w not in self.writes: self.writes.append(w)
                self.can_raise = self.can_raise or callee.can_raise
                body = K(); self.pending = pre
                if not callee.can_raise: return self.wrap("let %s := %s_%s %s in\n  %s" % (self.state_tuple(callee.writes), self.cls, c.func.attr, " ".join(args), body))
                return self.wrap("match %s_%s %s with PyExn %s => EXN_ | PyOk %s =>\n  %s end" % (self.cls, c.func.attr, " ".join(args), self.state_tuple(callee.writes), self.state_tuple(callee.writes), body))
        if isinstance(s, ast.If) and rest and not any(isinstance(n, (ast.Return, ast.Raise, ast.For)) for n in ast.walk(s)) and self.assigned(s.body + s.orelse):
            # branches that only update state, followed by more statements: evaluate the branch, then continue ONCE (no duplication of the continuation)
            c, tc = self.expr(s.test)
            if tc != "bool": bad(s, "condition of type " + tc)
            vs = self.assigned(s.body + s.orelse)
            for v in vs:
                if v in [f[0] for f in FIELDS[self.cls].values()]:
                    if v not in self.writes: self.writes.append(v)
                    if v not in self.reads: self.reads.append(v)
                elif v not in self.env: bad(s, "a local first assigned inside a branch: " + v)
            pre = self.pending; self.pending = []; st = self.state_tuple(vs); env0 = dict(self.env)
            a = self.stmts(s.body, lambda: "JOIN_"); self.env = dict(env0)
            b = self.stmts(s.orelse, lambda: "JOIN_") if s.orelse else "JOIN_"; self.env = env0
            body = K(); self.pending = pre
            pat = ("'%s" % st) if len(vs) > 1 else st
            if "EXN_" in a or "EXN_" in b or "PyExn" in a or "PyExn" in b:
                self.can_raise = True
                return self.wrap("match (if %s then\n  %s\n  else\n  %s) with PyExn e_ => PyExn e_ | PyOk %s =>\n  %s end" % (c, a.replace("JOIN_", "PyOk %s" % st), b.replace("JOIN_", "PyOk %s" % st), st, body))
            return self.wrap("let %s := (if %s then\n  %s\n  else\n  %s) in\n  %s" % (pat, c, a.replace("JOIN_", st), b.replace("JOIN_", st), body))
        if isinstance(s, ast.If) and not s.orelse and isinstance(s.test, ast.Compare) and len(s.test.ops) == 1 and isinstance(s.test.ops[0], ast.IsNot) and isinstance(s.test.left, ast.Name) \
                and self.env.get(s.test.left.id) == "optdict" and isinstance(s.test.comparators[0], ast.Constant) and s.test.comparators[0].value is None:
            x = s.test.left.id; pre = self.pending; self.pending = []; env0 = dict(self.env); self.env[x] = "dictZ"
            a = self.stmts(s.body, K); self.env = env0; b = K(); self.pending = pre
            return self.wrap("match %s with Some %s =>\n  %s\n  | None =>\n  %s end" % (x, x, a, b))
        if isinstance(s, ast.If):
            self.in_test = isinstance(s.test, ast.Name); c, tc = self.expr(s.test); self.in_test = False
            if tc != "bool": bad(s, "condition of type " + tc)
            pre = self.pending; self.pending = []
            env0 = dict(self.env); a = self.stmts(s.body, K); self.env = dict(env0)
            b = self.stmts(s.orelse, K) if s.orelse else K(); self.env = env0
            self.pending = pre
            return self.wrap("if %s then\n  %s\n  else\n  %s" % (c, a, b))
        if isinstance(s, ast.For) and not s.orelse:
            # early exit: `for ..: if c: return CONST`
            if len(s.body) == 1 and isinstance(s.body[0], ast.If) and not s.body[0].orelse and len(s.body[0].body) == 1 and isinstance(s.body[0].body[0], ast.Return) \
                    and isinstance(s.body[0].body[0].value, ast.Constant) and not any(isinstance(n_, (ast.Call, ast.Subscript)) for n_ in ast.walk(s.body[0].test)):      # (a condition that can raise goes through the general returning loop below)
                lst, bind, vs, binder = self.iter_of(s.iter, s.target)
                env0 = dict(self.env); self.env.update(vs); n0 = len(self.pending); c, tc = self.expr(s.body[0].test)
                if tc != "bool" or len(self.pending) != n0: bad(s, "early-exit condition")
                self.env = env0; r, rt = self.expr(s.body[0].body[0].value)
                if self.rty not in (None, rt): bad(s, "returns of different types")
                self.rty = rt; pre = self.pending; self.pending = []; body = K(); self.pending = pre
                return self.wrap("if existsb (fun %s => %s %s) %s then RETB_ %s RETE_ else\n  %s" % (binder, bind, c, lst, r, body))
            if any(isinstance(n_, ast.Return) for n_ in ast.walk(s)):
                # a loop that can return: the accumulator carries (option result, state); once a result is there the remaining iterations are skipped
                carried = self.assigned(s.body)
                for v in carried:
                    if v in [f[0] for f in FIELDS[self.cls].values()]:
                        if v not in self.writes: self.writes.append(v)
                        if v not in self.reads: self.reads.append(v)
                    elif self.env.get(v) not in ("set", "Z", "pairs", "dictD", "dictZ"): bad(s, "loop-carried local " + v)
                lst, bind, vs, binder = self.iter_of(s.iter, s.target)
                pre = self.pending; self.pending = []; env0 = dict(self.env)
                for x in vs:
                    if x in self.env: bad(s, "loop variable shadows " + x)
                self.env.update(vs); st = self.state_tuple(carried); self.can_raise = True
                if not hasattr(self, "loop_ret"): self.loop_ret = []
                self.loop_ret.append(st); inner = self.stmts(s.body, lambda: "PyOk (None, %s)" % st); self.loop_ret.pop(); self.env = env0
                after = ("PyOk (Some r_, %s)" % self.loop_ret[-1]) if self.loop_ret else "RETB_ r_ RETE_"
                body = K(); self.pending = pre
                return self.wrap("match fold_left (fun acc_ %s => match acc_ with PyExn e_ => PyExn e_ | PyOk (Some r_, %s) => PyOk (Some r_, %s) | PyOk (None, %s) => %s\n  %s end) %s (PyOk (None, %s)) with PyExn e_ => PyExn e_ | PyOk (Some r_, %s) => %s | PyOk (None, %s) =>\n  %s end"
                                 % (binder, st, st, st, bind, inner, lst, st, st, after, st, body))
            carried = self.assigned(s.body)
            if not carried and not any(isinstance(n_, ast.Raise) for n_ in ast.walk(s)): bad(s, "loop without effect")
            for v in carried:
                if v in [f[0] for f in FIELDS[self.cls].values()]:
                    if v not in self.writes: self.writes.append(v)
                    if v not in self.reads: self.reads.append(v)
                elif self.env.get(v) not in ("set", "Z", "pairs", "dictD", "dictZ"): bad(s, "loop-carried local " + v)
            lst, bind, vs, binder = self.iter_of(s.iter, s.target)
            pre = self.pending; self.pending = []
            env0 = dict(self.env)
            for x in vs:
                if x in self.env: bad(s, "loop variable shadows " + x)
            self.env.update(vs); st = self.state_tuple(carried)
            inner = self.stmts(s.body, lambda: "PyOk %s" % st); self.env = env0
            body = K(); self.pending = pre; self.loop_used = True
            return self.wrap("match fold_left (fun acc_ %s => match acc_ with PyExn e_ => PyExn e_ | PyOk %s => %s\n  %s end) %s (PyOk %s) with PyExn e_ => PyExn e_ | PyOk %s =>\n  %s end"
                             % (binder, st, bind, inner, lst, st, st, body))
        bad(s, "statement " + ast.unparse(s)[:50])
    def store(self, s, tg, op, value, K):
        """self.f[k] (op)= e   and   self.f[a][b] (op)= e; the same on a LOCAL dictionary of dictionaries: d[k] = defaultdict(int) / {} and d[a][b] = e"""
        if isinstance(tg.value, ast.Name) and self.env.get(tg.value.id) == "dictD" and op is None and \
                ((isinstance(value, ast.Dict) and not value.keys) or ast.unparse(value) == "defaultdict(int)"):
            # a fresh row; a defaultdict(int) row reads absent entries as 0, which is how every translated reader treats rows (d.get(k, 0))
            d = tg.value.id; kx, tk = self.expr(tg.slice)
            if tk != "key": bad(s)
            if (self.cls, self.node.name) == ("CFLaplacian", "_construct_matrix"):
                global LAP_ROWS_DEFAULT; LAP_ROWS_DEFAULT = LAP_ROWS_DEFAULT is not False and ast.unparse(value) == "defaultdict(int)"     # every row the constructor creates
            pre = self.pending; self.pending = []; body = K(); self.pending = pre
            return self.wrap("let %s := d_set %s [] %s in\n  %s" % (d, kx, d, body))
        if isinstance(tg.value, ast.Name) and self.env.get(tg.value.id) == "dictZ" and op is None:
            d = tg.value.id; v, tv = self.expr(value); kx, tk = self.expr(tg.slice)
            if tv != "Z" or tk != "key": bad(s, "store into a local dictionary")
            pre = self.pending; self.pending = []; body = K(); self.pending = pre
            return self.wrap("let %s := d_set %s %s %s in\n  %s" % (d, kx, v, d, body))
        if isinstance(tg.value, ast.Subscript) and isinstance(tg.value.value, ast.Name) and self.env.get(tg.value.value.id) == "dictD" and op is None:
            d = tg.value.value.id; v, tv = self.expr(value); a, ta = self.expr(tg.value.slice); b, tb = self.expr(tg.slice)
            if tv != "Z" or ta != "key" or tb != "key": bad(s, "nested store into a local dictionary")
            row = self.lookup(d, a)
            pre = self.pending; self.pending = []; body = K(); self.pending = pre
            return self.wrap("let %s := d_set %s (d_set %s %s %s) %s in\n  %s" % (d, a, b, v, row, d, body))
        if isinstance(value, ast.Dict) and not value.keys and op is None and isinstance(tg.value, ast.Attribute) and (self.field(tg.value) or (None, None))[1] == "dictD":
            f = self.field(tg.value, write=True); kx, tk = self.expr(tg.slice)
            if tk != "key": bad(s)
            pre = self.pending; self.pending = []; body = K(); self.pending = pre
            return self.wrap("let %s := d_set %s [] %s in\n  %s" % (f[0], kx, f[0], body))
        v, tv = self.expr(value)
        if tv != "Z": bad(s, "stored value of type " + tv)
        if isinstance(tg.value, ast.Attribute):
            f = self.field(tg.value, write=True)
            if not f or f[1] != "dictZ": bad(s, "store into " + ast.unparse(tg.value))
            kx, tk = self.expr(tg.slice)
            if tk != "key": bad(s)
            new = v if op is None else "(%s %s %s)" % (self.lookup(f[0], kx), op, v)
            pre = self.pending; self.pending = []; body = K(); self.pending = pre
            return self.wrap("let %s := d_set %s %s %s in\n  %s" % (f[0], kx, new, f[0], body))
        if isinstance(tg.value, ast.Subscript) and isinstance(tg.value.value, ast.Attribute):
            f = self.field(tg.value.value, write=True)
            if not f or f[1] != "dictD": bad(s, "nested store into " + ast.unparse(tg.value.value))
            a, ta = self.expr(tg.value.slice); b, tb = self.expr(tg.slice)
            if ta != "key" or tb != "key": bad(s)
            row = self.lookup(f[0], a)
            new = v if op is None else "(%s %s %s)" % (self.lookup(row, b), op, v)
            pre = self.pending; self.pending = []; body = K(); self.pending = pre
            return self.wrap("let %s := d_set %s (d_set %s %s %s) %s in\n  %s" % (f[0], a, b, new, row, f[0], body))
        bad(s, "store")
    def translate(self):
        n = self.node
        r_ = ast.unparse(n.returns) if n.returns is not None else ""
        self.opt_ret = {"typing.Optional[bool]": "optbool", "Optional[bool]": "optbool", "typing.Optional[typing.Tuple[str, str]]": "optpair", "Optional[Tuple[str, str]]": "optpair"}.get(r_)
        if n.args.vararg or n.args.kwarg or n.args.kwonlyargs or [d_ for d_ in n.decorator_list if ast.unparse(d_) != "property"]: bad(n, "signature")      # (a property is a method without arguments)
        for a_, d_ in zip(n.args.args[len(n.args.args) - len(n.args.defaults):], n.args.defaults):
            # (a default only matters to callers that omit the argument; an Optional dictionary must default to None, its only other value being a dictionary)
            if a_.annotation is not None and "Optional" in ast.unparse(a_.annotation) and not (isinstance(d_, ast.Constant) and d_.value is None): bad(n, "default value of " + a_.arg)
        for a in n.args.args:
            if a.arg == "self": continue
            if a.annotation is None and (self.cls, n.name, a.arg) == ("CFDivisor", "__eq__", "other"):
                # the right operand of == may be anything: None = not a CFDivisor, Some (vertex set, adjacency dictionary, chips) = a CFDivisor
                self.env[a.arg] = "optdiv"; self.params.append((a.arg, "optdiv")); continue
            if a.annotation is None: bad(a, "parameter without annotation")
            self.env[a.arg] = ann_type(a.annotation)
            if self.env[a.arg] == "graphobj":       # a CFGraph argument is seen through its vertex set and its adjacency dictionary
                self.params.append((a.arg + "_vertices", "set")); self.params.append((a.arg + "_graph", "dictD")); continue
            if self.env[a.arg] == "cfgparam":       # another configuration: its sink, its graph's vertex set and adjacency dictionary, its V - {q}, the chips of its divisor
                self.objargs[a.arg] = [(a.arg + "_" + f_, t_) for f_, t_ in CFGPARAM]
                for p_ in self.objargs[a.arg]: self.params.append(p_)
                continue
            if self.env[a.arg] == "divparam":       # another divisor is seen through the vertex set of its graph and its dictionary of chips
                self.params.append((a.arg + "_graph_vertices", "set")); self.params.append((a.arg + "_degrees", "dictZ")); continue
            self.params.append((a.arg, self.env[a.arg]))
        if self.bookkeeping:
            uses = [x for x in ast.walk(n) if isinstance(x, ast.Name) and x.id in self.bookkeeping]
            if len(uses) != 6: bad(n, "the duplicate-edge bookkeeping locals are used in an unexpected way (%d mentions)" % len(uses))
        body = self.stmts(n.body, lambda: "END_")
        if self.rty is not None and "END_" in body: bad(n, "control can reach the end of a method that returns a value")
        if n.name == "__init__":
            for f_ in self.writes:
                if f_ not in self.reads: self.reads.append(f_)
            # a constructor starts from nothing: every field it reads must first be assigned by a plain top-level `self.f = e` (a `let` that shadows the parameter), which is then dropped
            inv = {v[0]: k for k, v in FIELDS[self.cls].items()}
            for f_ in list(self.reads):
                first = next((x for x in n.body if inv[f_] in ast.unparse(x) and not (isinstance(x, ast.Expr) and isinstance(x.value, ast.Constant))), None)
                tgt_ = first.target if isinstance(first, ast.AnnAssign) else (first.targets[0] if isinstance(first, ast.Assign) and len(first.targets) == 1 else None)
                if tgt_ is None or ast.unparse(tgt_) != inv[f_] or inv[f_] in ast.unparse(first.value): bad(n, "a constructor reads the field %s before assigning it" % f_)
                self.reads.remove(f_)
                # (a `raise` before the assignment leaves no object behind; the state an exception carries out of a constructor is a placeholder)
                body = "let %s := %s in\n  %s" % (f_, {"Z": "0", "bool": "false", "key": "0%nat", "dictZ": "(@nil (nat * Z))", "dictD": "(@nil (nat * dictZ))", "set": "(@nil nat)"}[FIELDS[self.cls][inv[f_]][1]], body)
        opt = self.can_raise
        ftypes0 = {v[0]: COQTY[v[1]] for v in FIELDS[self.cls].values()}
        wt = " * ".join(ftypes0[w] for w in self.writes) if self.writes else "unit"          # the state an exception leaves behind: the written fields
        exn = "PyExn %s" % (self.state_tuple(self.writes) if self.writes else "tt")
        if self.rty is None:
            if not self.writes: bad(n, "a method without result and without effect")
            res = self.state_tuple(self.writes)
            body = body.replace("END_", ("PyOk %s" % res) if opt else res); rt = ("pyres (%s) (%s)" % (wt, wt)) if opt else wt
        else:
            # a method with a result: the result alone when it writes nothing, otherwise (result, written fields)
            tail = (", %s)" % self.state_tuple(self.writes)) if self.writes else ")"
            body = body.replace("RETB_ ", "PyOk (" if opt else "(").replace(" RETE_", tail)
            rty_ = ("(%s * (%s))" % (COQTY[self.rty], wt)) if self.writes else COQTY[self.rty]
            rt = ("pyres (%s) %s" % (wt, rty_)) if opt else rty_
        if not opt and ("EXN_" in body or "PyExn" in body): bad(n, "internal: exception in a method that cannot raise")
        body = body.replace("EXN_", exn)
        ftypes = {v[0]: COQTY[v[1]] for v in FIELDS[self.cls].values()}
        ps = [(f, ftypes[f]) for f in self.reads] + ([("set_order", "list nat -> list nat")] if self.uses_order else []) + [(p, COQTY[t]) for p, t in self.params]
        return "Definition %s_%s %s : %s :=\n  %s." % (self.cls, n.name, " ".join("(%s : %s)" % p for p in ps), rt, body)

def find(tree, cls, name):
    c = [n for n in tree.body if isinstance(n, ast.ClassDef) and n.name == cls]
    if len(c) != 1: raise Unsupported("class %s not found" % cls)
    f = [n for n in c[0].body if isinstance(n, ast.FunctionDef) and n.name == name]
    if len(f) != 1: raise Unsupported("method %s.%s not found (or defined twice)" % (cls, name))
    return f[0]
def check_alias(tree, cls, alias, name):
    """`firing_move = lending_move` style class attributes: report them so that the link file can mention them"""
    c = [n for n in tree.body if isinstance(n, ast.ClassDef) and n.name == cls][0]
    return any(isinstance(n, ast.Assign) and ast.unparse(n) == "%s = %s" % (alias, name) for n in c.body)

def read_enums():
    """OrientationState: the members must be distinct integer constants (only == / != on them is translated)"""
    try:
        tree = ast.parse(open(os.path.join(REPO, "chipfiring/CFOrientation.py")).read())
        c = [n for n in tree.body if isinstance(n, ast.ClassDef) and n.name == "OrientationState"][0]
        vals = {}
        for n in c.body:
            if isinstance(n, ast.Assign) and len(n.targets) == 1 and isinstance(n.targets[0], ast.Name) and isinstance(n.value, ast.Constant) and type(n.value.value) is int:
                vals["OrientationState." + n.targets[0].id] = n.value.value
        if len(set(vals.values())) == len(vals) and set(vals) == {"OrientationState.NO_ORIENTATION", "OrientationState.SOURCE_TO_SINK", "OrientationState.SINK_TO_SOURCE"}: ENUMS.update(vals)
    except Exception: pass
def main():
    global COPY_OK
    failed = []
    try:
        t_ = ast.parse(open(os.path.join(REPO, "chipfiring/CFConfig.py")).read()); f_ = find(t_, "CFConfig", "copy")
        b_ = [x for x in f_.body if not (isinstance(x, ast.Expr) and isinstance(x.value, ast.Constant))]
        COPY_OK = len(b_) == 1 and ast.unparse(b_[0]) == "return CFConfig(copy.deepcopy(self.divisor), self.q_vertex.name)"
    except Exception: COPY_OK = False
    read_enums()
    for cls in ("CFDivisor", "CFGraph", "CFiringScript", "CFConfig", "CFOrientation", "CFConfigMoves", "CFLaplacian", "DharAlgorithm"):
        out_path = os.path.join(os.path.dirname(OUT), "TranslatedImp%s.v" % cls)
        try:
            out = ["(* GENERATED on every run by tools/translate_imp.py from the current source in %s. Do not edit. *)" % REPO,
                   "From Coq Require Import ZArith List Bool Arith.", "Import ListNotations.", "From CF Require Import PyDict%s." % (" TranslatedImpCFDivisor" if cls == "CFConfigMoves" else (" TranslatedImpCFDivisor TranslatedImpCFGraph" if cls == "CFOrientation" else (" TranslatedImpCFGraph" if cls == "CFLaplacian" else ""))), "Open Scope Z_scope.", ""]
            k = 0
            for path, c, name in TARGETS:
                if c != cls: continue
                tree = ast.parse(open(os.path.join(REPO, path)).read())
                fn = Fn(find(tree, SRC_CLASS.get(cls, cls), name), cls); text = fn.translate(); DONE[(cls, name)] = fn; k += 1
                out.append("(* %s :: %s.%s   reads %s, writes %s%s *)" % (path, cls, name, fn.reads, fn.writes, ", may raise" if fn.can_raise else "")); out.append(text); out.append("")
            if cls == "CFDivisor":
                tree = ast.parse(open(os.path.join(REPO, "chipfiring/CFDivisor.py")).read())
                if not check_alias(tree, "CFDivisor", "firing_move", "lending_move"): raise Unsupported("CFDivisor.firing_move is no longer an alias of lending_move")
                out.append("(* CFDivisor.firing_move is the class attribute `firing_move = lending_move` *)"); out.append("Definition CFDivisor_firing_move := CFDivisor_lending_move."); out.append("")
            text = "\n".join(out); old = open(out_path).read() if os.path.exists(out_path) else None
            if old != text: open(out_path, "w").write(text)
            print("translated %d methods of %s -> %s%s" % (k, cls, os.path.normpath(out_path), "" if old != text else " (unchanged)"))
        except (Unsupported, SyntaxError, OSError) as e:
            print("TRANSLATOR-UNSUPPORTED[%s]: %s" % (cls, e)); failed.append(cls)
    sys.exit(2 if failed else 0)
if __name__ == "__main__": main()
