#!/usr/bin/env python3
"""recheck_seeds.py - applies every kept seeded change to /repo in turn (git apply / git checkout), runs the quick checks its meta.json says detect it,
and prints one line per seed. /repo is restored after every seed. Output: reports/seeds_recheck.txt"""
import os, sys, json, glob, subprocess
V = os.path.dirname(os.path.dirname(os.path.abspath(__file__)))
def sh(c): return subprocess.run(c, shell=True, capture_output=True, text=True)
assert sh("git -C /repo status --porcelain").stdout.strip() == "", "/repo not clean"
out = []
for d in sorted(glob.glob(os.path.join(V, "seeded", "*"))):
    m = json.load(open(os.path.join(d, "meta.json"))); det = m.get("detected_by", {})
    props = [p for p, v in det.items() if v is True]
    if not props: out.append("%-45s (thorough-only or undetected in quick: %s)" % (os.path.basename(d), det)); print(out[-1]); sys.stdout.flush(); continue
    a = sh("git -C /repo apply %s" % os.path.join(d, "patch.diff"))
    if a.returncode != 0: out.append("%-45s PATCH DOES NOT APPLY" % os.path.basename(d)); print(out[-1]); continue
    try:
        res = {}
        for p in props:
            r = sh("cd %s && CF_EVIDENCE_DIR=%s/.scratch/ev_recheck CF_REPLAY_DIR=%s/.scratch/rp_recheck timeout 900 /venv/bin/python harness/check.py %s" % (V, V, V, p))
            vl = [l for l in r.stdout.split("\n") if l.startswith("VIOLATION")]
            res[p] = False if not vl else ("failing input" if any("no-failing-input-found" not in l for l in vl) else "broken proof, no failing input")
            if res[p] == "failing input": break
    finally:
        sh("git -C /repo checkout -- . && git -C /repo clean -fdq -e __pycache__")
    out.append("%-45s %s %s" % (os.path.basename(d), "detected" if any(res.values()) else "NOT DETECTED", res)); print(out[-1]); sys.stdout.flush()
os.makedirs(os.path.join(V, "reports"), exist_ok=True); open(os.path.join(V, "reports", "seeds_recheck.txt"), "w").write("\n".join(out) + "\n")
sh("rm -rf %s/.scratch/ev_recheck %s/.scratch/rp_recheck" % (V, V))
