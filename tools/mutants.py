#!/usr/bin/env python3
"""mutants.py - systematic first-order mutants of /repo/chipfiring, to measure what the checks see beyond the test-suite.
For every mutant (one operator / constant / boolean connective changed in one place) a scratch copy of the library is made under /tmp, the
pinned test-suite is run on it, and - only if the suite still passes - the quick checks mapped to the mutated file are run against the copy
(CF_REPO=<copy>, CF_SKIP_PROOF=1, evidence and replays redirected into the copy). Nothing in /repo or /verif is touched; every copy is removed.
Usage: mutants.py [--per-file N] [--jobs J] [--files a.py,b.py] [--out report.json]"""
import ast, os, sys, json, random, shutil, subprocess, argparse, tempfile, concurrent.futures as cf
VERIF = os.path.dirname(os.path.dirname(os.path.abspath(__file__)))
REPO = os.environ.get("CF_MUTANTS_REPO", "/repo")      # a stable copy can be named here, so that /repo itself stays free for seeded changes while a campaign runs
FILEMAP = {
    "algo.py": ["C01", "C02", "C07", "C09", "C16", "C17"], "CFDhar.py": ["C02", "C08", "C09", "C01"], "CFRank.py": ["C03"],
    "CFDivisor.py": ["C05", "C12", "C20", "C16", "C07"], "CFGraph.py": ["C13", "C20", "C17", "C02"], "CFConfig.py": ["C10", "C05", "C20", "C16"],
    "CFOrientation.py": ["C11", "C20", "C15"], "CFLaplacian.py": ["C06"], "CFiringScript.py": ["C06", "C20", "C15"], "CFGreedyAlgorithm.py": ["C14", "C16"],
    "CFGonality.py": ["C04"], "CFGonalityDhar.py": ["C04"], "CFCombinatorics.py": ["C10", "C19"], "CFDataProcessor.py": ["C15"], "CFVisualizer.py": ["C18"],
    "CFPlatonicSolids.py": ["C19"],
}
CMP = {ast.Lt: ast.LtE, ast.LtE: ast.Lt, ast.Gt: ast.GtE, ast.GtE: ast.Gt, ast.Eq: ast.NotEq, ast.NotEq: ast.Eq}
BIN = {ast.Add: ast.Sub, ast.Sub: ast.Add, ast.Mult: ast.FloorDiv, ast.FloorDiv: ast.Mult}

class Collector(ast.NodeVisitor):
    """enumerates mutation sites as (kind, lineno, col, index-in-node)"""
    def __init__(self): self.sites = []; self.skip = 0
    def visit_FunctionDef(self, n):
        if n.name in ("visualize", "to_tex", "__repr__", "__str__", "degrees_to_str", "log") or n.name.startswith("_get_tikz") or n.name.startswith("_generate_tikz"): return
        self.generic_visit(n)
    def visit_Raise(self, n): return          # messages
    def visit_JoinedStr(self, n): return
    def visit_Compare(self, n):
        for i, op in enumerate(n.ops):
            if type(op) in CMP: self.sites.append(("cmp", n.lineno, n.col_offset, i))
        self.generic_visit(n)
    def visit_BinOp(self, n):
        if type(n.op) in BIN and not isinstance(n.left, ast.Constant) or (type(n.op) in BIN and isinstance(n.left, ast.Constant) and isinstance(n.left.value, int)):
            self.sites.append(("bin", n.lineno, n.col_offset, 0))
        self.generic_visit(n)
    def visit_BoolOp(self, n):
        self.sites.append(("bool", n.lineno, n.col_offset, 0)); self.generic_visit(n)
    def visit_UnaryOp(self, n):
        if isinstance(n.op, ast.Not): self.sites.append(("not", n.lineno, n.col_offset, 0))
        self.generic_visit(n)
    def visit_Constant(self, n):
        if type(n.value) is int and 0 <= n.value <= 10: self.sites.append(("const", n.lineno, n.col_offset, 0))
        elif n.value is True or n.value is False: self.sites.append(("flag", n.lineno, n.col_offset, 0))
    def visit_AugAssign(self, n):
        if type(n.op) in (ast.Add, ast.Sub): self.sites.append(("aug", n.lineno, n.col_offset, 0))
        self.sites.append(("del", n.lineno, n.col_offset, 1)); self.generic_visit(n)
    def visit_Assign(self, n):
        # a forgotten update: assignments to attributes / subscripts (state), not to local names
        if any(isinstance(t, (ast.Attribute, ast.Subscript)) for t in n.targets): self.sites.append(("del", n.lineno, n.col_offset, 1))
        self.generic_visit(n)
    def visit_Expr(self, n):
        if isinstance(n.value, ast.Call) and isinstance(n.value.func, ast.Attribute) and n.value.func.attr not in ("log", "append_log", "add_step", "print"):
            self.sites.append(("del", n.lineno, n.col_offset, 1))
        self.generic_visit(n)

class Mutator(ast.NodeTransformer):
    def __init__(self, site): self.site = site; self.done = False
    def hit(self, n, kind): return not self.done and self.site[0] == kind and (n.lineno, n.col_offset) == (self.site[1], self.site[2])
    def visit_Compare(self, n):
        self.generic_visit(n)
        if self.hit(n, "cmp"): n.ops[self.site[3]] = CMP[type(n.ops[self.site[3]])](); self.done = True
        return n
    def visit_BinOp(self, n):
        self.generic_visit(n)
        if self.hit(n, "bin"): n.op = BIN[type(n.op)](); self.done = True
        return n
    def visit_BoolOp(self, n):
        self.generic_visit(n)
        if self.hit(n, "bool"): n.op = ast.Or() if isinstance(n.op, ast.And) else ast.And(); self.done = True
        return n
    def visit_UnaryOp(self, n):
        self.generic_visit(n)
        if self.hit(n, "not"): self.done = True; return n.operand
        return n
    def visit_Constant(self, n):
        if self.hit(n, "const"): self.done = True; return ast.copy_location(ast.Constant(n.value + 1), n)
        if self.hit(n, "flag"): self.done = True; return ast.copy_location(ast.Constant(not n.value), n)
        return n
    def visit_AugAssign(self, n):
        self.generic_visit(n)
        if self.hit(n, "aug"): n.op = ast.Sub() if isinstance(n.op, ast.Add) else ast.Add(); self.done = True
        if self.hit(n, "del"): self.done = True; return ast.copy_location(ast.Pass(), n)
        return n
    def visit_Assign(self, n):
        self.generic_visit(n)
        if self.hit(n, "del"): self.done = True; return ast.copy_location(ast.Pass(), n)
        return n
    def visit_Expr(self, n):
        self.generic_visit(n)
        if self.hit(n, "del"): self.done = True; return ast.copy_location(ast.Pass(), n)
        return n

def sh(cmd, env=None, timeout=1200):
    try:
        p = subprocess.run(cmd, shell=True, capture_output=True, text=True, timeout=timeout, env=env)
        return p.returncode, p.stdout + p.stderr
    except subprocess.TimeoutExpired: return 124, "timeout"

def run_one(job):
    fname, site, idx = job
    src = open(os.path.join(REPO, "chipfiring", fname)).read(); tree = ast.parse(src)
    m = Mutator(site); tree = m.visit(tree); ast.fix_missing_locations(tree)
    if not m.done: return None
    new = ast.unparse(tree)
    line = src.split("\n")[site[1] - 1].strip()[:110]
    d = tempfile.mkdtemp(prefix="cfmut_")
    res = {"file": fname, "site": list(site), "line": line}
    try:
        shutil.copytree(os.path.join(REPO, "chipfiring"), os.path.join(d, "chipfiring")); shutil.copytree(os.path.join(REPO, "tests"), os.path.join(d, "tests"))
        for f in ("pyproject.toml", "setup.py", "setup.cfg", "pytest.ini", "conftest.py"):
            if os.path.exists(os.path.join(REPO, f)): shutil.copy(os.path.join(REPO, f), d)
        open(os.path.join(d, "chipfiring", fname), "w").write(new)
        env = dict(os.environ); env.update({"PYTHONPATH": d, "PYTHONDONTWRITEBYTECODE": "1", "PYTHONHASHSEED": "0"})
        rc, out = sh("cd %s && timeout 600 /venv/bin/python -m pytest -q -p no:cacheprovider -x tests 2>&1 | tail -2" % d, env, 700)
        res["suite"] = "passed" if " passed" in out and "failed" not in out and "error" not in out.lower() else "killed"
        if res["suite"] == "killed": return res
        env.update({"CF_REPO": d, "CF_SKIP_PROOF": "1", "CF_EVIDENCE_DIR": os.path.join(d, "ev"), "CF_REPLAY_DIR": os.path.join(d, "rp"), "CF_CASE_TIMEOUT": "20"})
        env.pop("PYTHONPATH")
        res["checks"] = {}
        for pid in FILEMAP[fname]:
            rc, out = sh("/venv/bin/python %s %s" % (os.path.join(VERIF, "harness", "check.py"), pid), env, 900)
            viol = [l for l in out.split("\n") if l.startswith("VIOLATION")]
            res["checks"][pid] = bool(viol) or rc not in (0,)
            if res["checks"][pid]:
                try:
                    rp = viol[0].split("replay=")[1].split()[0]; res.setdefault("what", {})[pid] = json.load(open(rp)).get("what", "")[:160]
                except Exception: pass
                break          # one detecting check is enough
        res["detected"] = any(res["checks"].values())
        return res
    finally:
        shutil.rmtree(d, ignore_errors=True)

def main():
    ap = argparse.ArgumentParser(); ap.add_argument("--per-file", type=int, default=30); ap.add_argument("--jobs", type=int, default=10)
    ap.add_argument("--files", default=""); ap.add_argument("--out", default=os.path.join(VERIF, ".scratch", "mutants.json")); ap.add_argument("--seed", type=int, default=1); ap.add_argument("--kinds", default="")
    a = ap.parse_args(); rng = random.Random(a.seed)
    jobs = []
    for fname in (a.files.split(",") if a.files else sorted(FILEMAP)):
        c = Collector(); c.visit(ast.parse(open(os.path.join(REPO, "chipfiring", fname)).read()))
        sites = sorted(set(x for x in c.sites if not a.kinds or x[0] in a.kinds.split(","))); rng.shuffle(sites)
        for i, s in enumerate(sites[:a.per_file]): jobs.append((fname, s, i))
    print("mutants: %d" % len(jobs)); sys.stdout.flush()
    out = []
    with cf.ThreadPoolExecutor(max_workers=a.jobs) as ex:
        for r in ex.map(run_one, jobs):
            if r is None: continue
            out.append(r)
            if r["suite"] == "passed": print("%-22s L%-4d %-5s %-9s %s" % (r["file"], r["site"][1], r["site"][0], "DETECTED" if r["detected"] else "survived", r["line"])); sys.stdout.flush()
    os.makedirs(os.path.dirname(os.path.abspath(a.out)), exist_ok=True); json.dump(out, open(a.out, "w"), indent=1)
    surv = [r for r in out if r["suite"] == "passed"]
    print("total %d, killed by the suite %d, passing the suite %d: detected by the checks %d, surviving %d" % (len(out), len(out) - len(surv), len(surv), sum(r["detected"] for r in surv), sum(not r["detected"] for r in surv)))
if __name__ == "__main__": main()
