#!/usr/bin/env python3
"""translate.py - fail-closed translator from a small subset of Python (the pure integer / list functions named in TARGETS) to Gallina.
Writes coq/theories/Translated.v from /repo's CURRENT source on every run. The theorems of Link/TranslatedLink.v are then re-checked against
what the code says now (they state that each translated function IS the model function the property theorems are about).

Subset (anything else raises Unsupported and the run fails closed):
  def f(params with annotations int | List[int] | Optional[int] | bool) with a body of
     docstring | `if c: return e` | `if c: raise ...` | `if x is None: x = e` | `x = e` | `return e` | `raise ...`
  expressions: int constants, names, + - * ** , comparisons (chained), and/or/not, `not <list>`, len sum min sorted, x[i],
     all(<expr> for v in <list>) , all(<expr> for v in range(e)), self.<field> (fields become parameters), == / != on str parameters.
Semantics assumed (the trusted part of this tie): Python int = Z; list of int = list Z; sorted = insertion sort (PyLib.py_sorted, any stable
sort gives the same list of integers); ** with a negative exponent is never reached in the translated functions (guarded), Z.pow gives 0 there.
A function that can raise returns option: None = raised."""
import ast, sys, os

REPO = os.environ.get("CF_REPO", "/repo")
OUT = os.path.join(os.path.dirname(os.path.abspath(__file__)), "..", "coq", "theories", "Translated.v")
TARGETS = [
    ("chipfiring/CFCombinatorics.py", None, "is_parking_function"),
    ("chipfiring/CFCombinatorics.py", None, "parking_function_count"),
    ("chipfiring/CFCombinatorics.py", None, "complete_multipartite_gonality"),
    ("chipfiring/CFPlatonicSolids.py", None, "complete_graph_gonality"),
    ("chipfiring/CFGraph.py", "CFGraph", "get_genus"),
    ("chipfiring/CFGraph.py", "CFGraph", "is_loopless"),
]
SELF_FIELDS = {"total_valence": ("self_total_valence", "Z"), "vertices": ("self_vertices", "list Z")}   # a set is only measured with len()

class Unsupported(Exception): pass
def bad(node, why=""): raise Unsupported("%s at line %s: %s" % (type(node).__name__, getattr(node, "lineno", "?"), why))

def ann_type(a):
    s = ast.unparse(a)
    if s == "int": return "Z"
    if s == "bool": return "bool"
    if s == "str": return "pystr"
    if s in ("List[int]", "typing.List[int]", "list"): return "list Z"
    if s in ("Optional[int]", "typing.Optional[int]"): return "option Z"
    raise Unsupported("annotation " + s)

class Fn:
    def __init__(self, node, cls):
        self.node = node; self.cls = cls; self.env = {}; self.params = []; self.raises = any(isinstance(n, ast.Raise) for n in ast.walk(node)); self.used_fields = []
    def expr(self, e):
        """returns (coq_text, type)"""
        if isinstance(e, ast.Constant):
            if e.value is True: return "true", "bool"
            if e.value is False: return "false", "bool"
            if isinstance(e.value, int): return ("%d" % e.value if e.value >= 0 else "(%d)" % e.value), "Z"
            bad(e, "constant")
        if isinstance(e, ast.Name):
            if e.id not in self.env: bad(e, "unknown name " + e.id)
            return e.id, self.env[e.id]
        if isinstance(e, ast.Attribute) and isinstance(e.value, ast.Name) and e.value.id == "self" and e.attr in SELF_FIELDS:
            nm, ty = SELF_FIELDS[e.attr]
            if nm not in self.used_fields: self.used_fields.append(nm)
            return nm, ty
        if isinstance(e, ast.BinOp):
            a, ta = self.expr(e.left); b, tb = self.expr(e.right)
            if ta != "Z" or tb != "Z": bad(e, "arithmetic on non-integers")
            op = {ast.Add: "+", ast.Sub: "-", ast.Mult: "*", ast.Pow: "^"}.get(type(e.op))
            if not op: bad(e, "operator")
            return "(%s %s %s)" % (a, op, b), "Z"
        if isinstance(e, ast.UnaryOp) and isinstance(e.op, ast.USub):
            a, ta = self.expr(e.operand)
            if ta != "Z": bad(e)
            return "(- %s)" % a, "Z"
        if isinstance(e, ast.UnaryOp) and isinstance(e.op, ast.Not):
            a, ta = self.expr(e.operand)
            if ta == "bool": return "(negb %s)" % a, "bool"
            if ta == "list Z": return "(py_is_empty %s)" % a, "bool"
            bad(e, "not on " + ta)
        if isinstance(e, ast.BoolOp):
            parts = [self.expr(v) for v in e.values]
            if any(t != "bool" for _, t in parts): bad(e, "and/or on non-bool")
            op = " && " if isinstance(e.op, ast.And) else " || "
            return "(" + op.join(p for p, _ in parts) + ")", "bool"
        if isinstance(e, ast.Compare):
            terms = [e.left] + list(e.comparators); out = []
            for l, op, r in zip(terms, e.ops, terms[1:]):
                if isinstance(op, (ast.Is, ast.IsNot)): bad(e, "'is' outside the `if x is None: x = ...` form")
                a, ta = self.expr(l); b, tb = self.expr(r)
                if ta == "pystr" and tb == "pystr" and isinstance(op, (ast.Eq, ast.NotEq)):      # == / != on strings: equality of the code-point lists (never identity)
                    out.append(("(py_str_eqb %s %s)" if isinstance(op, ast.Eq) else "(negb (py_str_eqb %s %s))") % (a, b)); continue
                if ta != "Z" or tb != "Z": bad(e, "comparison of non-integers")
                o = {ast.Lt: "(%s <? %s)", ast.LtE: "(%s <=? %s)", ast.Gt: "(%s >? %s)", ast.GtE: "(%s >=? %s)", ast.Eq: "(%s =? %s)", ast.NotEq: "(negb (%s =? %s))"}.get(type(op))
                if not o: bad(e, "comparison operator")
                out.append(o % (a, b))
            return ("(" + " && ".join(out) + ")") if len(out) > 1 else out[0], "bool"
        if isinstance(e, ast.Subscript):
            a, ta = self.expr(e.value); i, ti = self.expr(e.slice)
            if ta != "list Z" or ti != "Z": bad(e, "subscript")
            return "(py_index %s %s)" % (a, i), "Z"
        if isinstance(e, ast.Call) and isinstance(e.func, ast.Name) and not e.keywords:
            f = e.func.id
            if f in ("len", "sum", "min", "sorted") and len(e.args) == 1:
                a, ta = self.expr(e.args[0])
                if ta != "list Z": bad(e, f + " of " + ta)
                return "(py_%s %s)" % (f, a), ("list Z" if f == "sorted" else "Z")
            if f == "all" and len(e.args) == 1 and isinstance(e.args[0], ast.GeneratorExp):
                g = e.args[0]
                if len(g.generators) != 1 or g.generators[0].ifs or not isinstance(g.generators[0].target, ast.Name): bad(e, "generator shape")
                it = g.generators[0].iter; v = g.generators[0].target.id
                if isinstance(it, ast.Call) and isinstance(it.func, ast.Name) and it.func.id == "range" and len(it.args) == 1:
                    n, tn = self.expr(it.args[0])
                    if tn != "Z": bad(e, "range of non-int")
                    dom = "(py_range %s)" % n
                else:
                    dom, td = self.expr(it)
                    if td != "list Z": bad(e, "iteration over " + td)
                if v in self.env: bad(e, "generator variable shadows " + v)
                self.env[v] = "Z"
                body, tb = self.expr(g.elt); del self.env[v]
                if tb != "bool": bad(e, "all() of non-bool")
                return "(forallb (fun %s => %s) %s)" % (v, body, dom), "bool"
        bad(e, ast.unparse(e)[:60])
    def ret(self, text): return ("Some (%s)" % text) if self.raises else text
    def block(self, stmts, rty):
        if not stmts: raise Unsupported("control reaches the end of %s without return" % self.node.name)
        s, rest = stmts[0], stmts[1:]
        if isinstance(s, ast.Expr) and isinstance(s.value, ast.Constant) and isinstance(s.value.value, str): return self.block(rest, rty)
        if isinstance(s, ast.Return):
            t, ty = self.expr(s.value); rty.append(ty); return self.ret(t)
        if isinstance(s, ast.Raise): return "None"
        if isinstance(s, ast.Assign) and len(s.targets) == 1 and isinstance(s.targets[0], ast.Name):
            t, ty = self.expr(s.value); x = s.targets[0].id
            if x in self.env and self.env[x] != ty: bad(s, "re-binding %s at another type" % x)
            self.env[x] = ty
            return "let %s := %s in\n  %s" % (x, t, self.block(rest, rty))
        if isinstance(s, ast.If) and not s.orelse:
            c = s.test
            # `if x is None: x = e`
            if isinstance(c, ast.Compare) and len(c.ops) == 1 and isinstance(c.ops[0], ast.Is) and isinstance(c.left, ast.Name) and isinstance(c.comparators[0], ast.Constant) and c.comparators[0].value is None:
                x = c.left.id
                if self.env.get(x) != "option Z" or len(s.body) != 1 or not isinstance(s.body[0], ast.Assign) or ast.unparse(s.body[0].targets[0]) != x: bad(s, "`is None` form")
                del self.env[x]; t, ty = self.expr(s.body[0].value)
                if ty != "Z": bad(s, "default of another type")
                self.env[x] = "Z"
                return "let %s := match %s with Some v_ => v_ | None => %s end in\n  %s" % (x, x, t, self.block(rest, rty))
            ct, cty = self.expr(c)
            if cty != "bool": bad(s, "condition of type " + cty)
            if len(s.body) == 1 and isinstance(s.body[0], (ast.Return, ast.Raise)):
                return "if %s then %s else\n  %s" % (ct, self.block(s.body, rty), self.block(rest, rty))
        bad(s, "statement")
    def translate(self):
        n = self.node
        if n.args.vararg or n.args.kwarg or n.args.kwonlyargs or n.decorator_list: bad(n, "signature")
        args = [a for a in n.args.args if a.arg != "self"]
        for a in args:
            if a.annotation is None: bad(a, "parameter without annotation")
            self.env[a.arg] = ann_type(a.annotation); self.params.append((a.arg, self.env[a.arg]))
        rty = []; body = self.block(n.body, rty)
        if len(set(rty)) != 1: raise Unsupported("%s returns values of types %s" % (n.name, rty))
        ps = [(nm, next(t for (q, t) in SELF_FIELDS.values() if q == nm)) for nm in self.used_fields] + self.params
        sig = " ".join("(%s : %s)" % p for p in ps)
        rt = ("option (%s)" % rty[0]) if self.raises else rty[0]
        name = ("%s_%s" % (self.cls, n.name)) if self.cls else n.name
        return "Definition %s %s : %s :=\n  %s." % (name, sig, rt, body)

def find(tree, cls, name):
    scope = tree.body
    if cls:
        c = [n for n in tree.body if isinstance(n, ast.ClassDef) and n.name == cls]
        if len(c) != 1: raise Unsupported("class %s not found" % cls)
        scope = c[0].body
    f = [n for n in scope if isinstance(n, ast.FunctionDef) and n.name == name]
    if len(f) != 1: raise Unsupported("function %s not found (or defined twice)" % name)
    return f[0]

def main():
    out = ["(* GENERATED on every run by tools/translate.py from the current source in %s. Do not edit. *)" % REPO,
           "From Coq Require Import ZArith List Bool.", "Import ListNotations.", "From CF Require Import PyLib.", "Open Scope Z_scope.", ""]
    for path, cls, name in TARGETS:
        src = open(os.path.join(REPO, path)).read()
        fn = Fn(find(ast.parse(src), cls, name), cls)
        out.append("(* %s :: %s%s *)" % (path, (cls + ".") if cls else "", name)); out.append(fn.translate()); out.append("")
    text = "\n".join(out)
    old = open(OUT).read() if os.path.exists(OUT) else None
    if old != text: open(OUT, "w").write(text)
    print("translated %d functions -> %s%s" % (len(TARGETS), os.path.normpath(OUT), "" if old != text else " (unchanged)"))
if __name__ == "__main__":
    try: main()
    except Unsupported as e:
        print("TRANSLATOR-UNSUPPORTED: %s" % e); sys.exit(2)
