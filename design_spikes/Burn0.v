From Coq Require Import ZArith List Lia Bool Arith.
Import ListNotations.
Require Import ZSum.
Open Scope Z_scope.

Definition mem (v : nat) (l : list nat) := existsb (Nat.eqb v) l.
Lemma mem_In v l : mem v l = true <-> In v l.
Proof. unfold mem. rewrite existsb_exists. split. intros [x [Hx E]]. apply Nat.eqb_eq in E. now subst. intros H. exists v. split; auto. apply Nat.eqb_refl. Qed.
Lemma mem_false v l : mem v l = false <-> ~ In v l.
Proof. rewrite <- mem_In. destruct (mem v l); split; congruence. Qed.
Fixpoint iter {A} (n : nat) (f : A -> A) (x : A) := match n with O => x | S k => iter k f (f x) end.

Section B.
Variable V : list nat.
Hypothesis V_nodup : NoDup V.
Variable m : nat -> nat -> Z.
Hypothesis m_nonneg : forall v w, 0 <= m v w.
Variable q : nat.
Hypothesis q_in : In q V.
Variable D : nat -> Z.

Definition outdeg (S : nat -> bool) v := zsum (fun w => if S w then 0 else m v w) V.
Definition legal (S : nat -> bool) := forall v, In v V -> S v = true -> outdeg S v <= D v.

Definition edges_to (v : nat) (B : list nat) := zsum (fun w => if mem w B then m v w else 0) V.
Definition burn_step (B : list nat) (v : nat) : list nat :=
  if mem v B then B else if D v <? edges_to v B then B ++ [v] else B.
Definition burn_pass (B : list nat) := fold_left burn_step V B.
Definition burn := iter (S (length V)) burn_pass [q].
Definition unburnt := filter (fun v => negb (mem v burn)) V.

Inductive BurnSeq : list nat -> Prop :=
| bs0 : BurnSeq [q]
| bs1 B v : BurnSeq B -> In v V -> ~ In v B -> D v < edges_to v B -> BurnSeq (B ++ [v]).

Lemma step_seq B v : In v V -> BurnSeq B -> BurnSeq (burn_step B v).
Proof. intros Hv HB. unfold burn_step. destruct (mem v B) eqn:E; [exact HB|]. destruct (Z.ltb_spec (D v) (edges_to v B)); [|exact HB].
  apply bs1; [exact HB|exact Hv|now apply mem_false|assumption]. Qed.
Lemma fold_seq l B : (forall v, In v l -> In v V) -> BurnSeq B -> BurnSeq (fold_left burn_step l B).
Proof. revert B. induction l as [|a l IH]; cbn; intros B Hl HB; auto. apply IH; [intros; apply Hl; now right|]. apply step_seq; [apply Hl; now left|exact HB]. Qed.
Lemma pass_seq B : BurnSeq B -> BurnSeq (burn_pass B). Proof. apply fold_seq; auto. Qed.
Lemma iter_seq n B : BurnSeq B -> BurnSeq (iter n burn_pass B).
Proof. revert B. induction n; cbn; intros; auto. apply IHn, pass_seq; auto. Qed.
Lemma burn_seq : BurnSeq burn. Proof. apply iter_seq. constructor. Qed.

Lemma seq_facts B : BurnSeq B -> NoDup B /\ (forall v, In v B -> In v V) /\ In q B.
Proof. induction 1 as [|B v HB [Hn [Hs Hq]] Hv Hnv Hlt].
  - repeat split. constructor; [intros []|constructor]. intros v [<-|[]]; auto. now left.
  - repeat split.
    +       assert (NoDup (B ++ [v])). { apply NoDup_rev in Hn. rewrite <- (rev_involutive (B ++ [v])). apply NoDup_rev. rewrite rev_app_distr. cbn. constructor; auto. rewrite <- in_rev. auto. }
      auto.
    + intros w Hw. apply in_app_or in Hw. destruct Hw as [Hw|[<-|[]]]; auto.
    + apply in_or_app; now left.
Qed.

(* maximality: no member of a legal set avoiding q ever burns *)
Theorem burn_avoids_legal (S : nat -> bool) B : S q = false -> legal S -> BurnSeq B -> forall v, In v B -> S v = false.
Proof.
  intros Sq HL. induction 1 as [|B v HB IH Hv Hnv Hlt]; intros w Hw.
  - destruct Hw as [<-|[]]; auto.
  - apply in_app_or in Hw. destruct Hw as [Hw|[<-|[]]]; auto.
    destruct (S v) eqn:E; auto. exfalso. specialize (HL v Hv E).
    assert (edges_to v B <= outdeg S v); [|lia].
    unfold edges_to, outdeg. apply zsum_le. intros x Hx. destruct (mem x B) eqn:Ex.
    + apply mem_In in Ex. rewrite (IH x Ex). lia.
    + destruct (S x); [lia|apply m_nonneg].
Qed.

(* fixpoint *)
Lemma step_prefix B v : exists t, burn_step B v = B ++ t /\ (t = [] \/ t = [v]).
Proof. unfold burn_step. destruct (mem v B). exists []; rewrite app_nil_r; auto. destruct (D v <? edges_to v B). exists [v]; auto. exists []; rewrite app_nil_r; auto. Qed.
Lemma fold_prefix l B : exists t, fold_left burn_step l B = B ++ t.
Proof. revert B. induction l as [|a l IH]; cbn; intros B. exists []; now rewrite app_nil_r.
  destruct (step_prefix B a) as [t [E _]]. destruct (IH (burn_step B a)) as [t' E']. rewrite E', E. exists (t ++ t'). now rewrite app_assoc. Qed.
Lemma fold_fix l B : fold_left burn_step l B = B -> forall v, In v l -> burn_step B v = B.
Proof. revert B. induction l as [|a l IH]; cbn; intros B HF v Hv; [destruct Hv|].
  destruct (step_prefix B a) as [t [E Ht]]. destruct (fold_prefix l (burn_step B a)) as [t' E'].
  assert (t = []). { rewrite HF, E, <- app_assoc in E'. assert (length B = length (B ++ t ++ t')) by (rewrite <- E'; reflexivity).
    rewrite !app_length in H. destruct Ht as [-> | ->]; auto. cbn in H. lia. }
  subst t. rewrite app_nil_r in E. rewrite E in HF. destruct Hv as [<-|Hv]; auto. Qed.
Lemma pass_len B : (length B <= length (burn_pass B))%nat.
Proof. unfold burn_pass. destruct (fold_prefix V B) as [t E]. rewrite E, app_length. lia. Qed.
Lemma pass_fix_or_grow B : burn_pass B = B \/ (length B < length (burn_pass B))%nat.
Proof. unfold burn_pass. destruct (fold_prefix V B) as [t E]. rewrite E. destruct t. left; now rewrite app_nil_r. right. rewrite app_length. cbn. lia. Qed.
Lemma iter_fix n B : burn_pass B = B -> iter n burn_pass B = B.
Proof. intros H. induction n; cbn; auto. now rewrite H. Qed.
Lemma iter_grow n B : burn_pass (iter n burn_pass B) = iter n burn_pass B \/ (length B + n <= length (iter n burn_pass B))%nat.
Proof. revert B. induction n; cbn; intros B. right; lia.
  destruct (pass_fix_or_grow B) as [F|G]. left. rewrite F. rewrite (iter_fix n B F). auto.
  destruct (IHn (burn_pass B)) as [F'|G']; auto. right. lia. Qed.
Lemma NoDup_incl_len (l l' : list nat) : NoDup l -> (forall x, In x l -> In x l') -> (length l <= length l')%nat.
Proof. intros. apply NoDup_incl_length; auto. Qed.
Theorem burn_fixpoint : burn_pass burn = burn.
Proof. unfold burn. destruct (iter_grow (S (length V)) [q]) as [F|G]; auto. exfalso.
  destruct (seq_facts _ burn_seq) as [Hn [Hs _]]. pose proof (NoDup_incl_len _ _ Hn Hs). unfold burn in H. cbn in G. cbn in H. lia. Qed.

Theorem burn_closed v : In v V -> ~ In v burn -> edges_to v burn <= D v.
Proof. intros Hv Hn. pose proof (fold_fix V burn burn_fixpoint v Hv) as H. unfold burn_step in H.
  apply mem_false in Hn. rewrite Hn in H. destruct (Z.ltb_spec (D v) (edges_to v burn)); auto.
  exfalso. assert (length (burn ++ [v]) = length burn) by now rewrite H. rewrite app_length in H1. cbn in H1. lia. Qed.

Theorem unburnt_legal : legal (fun v => mem v unburnt).
Proof. intros v Hv HS. apply mem_In in HS. unfold unburnt in HS. apply filter_In in HS. destruct HS as [_ HS].
  apply negb_true_iff, mem_false in HS. pose proof (burn_closed v Hv HS).
  assert (outdeg (fun v => mem v unburnt) v = edges_to v burn); [|lia].
  unfold outdeg, edges_to. apply zsum_ext. intros w Hw. destruct (mem w burn) eqn:E.
  - assert (mem w unburnt = false). { apply mem_false. unfold unburnt. rewrite filter_In. rewrite E. cbn. intros [_ ?]; congruence. } now rewrite H0.
  - assert (mem w unburnt = true). { apply mem_In. unfold unburnt. rewrite filter_In. rewrite E. auto. } now rewrite H0.
Qed.
Theorem unburnt_maximal S : S q = false -> legal S -> forall v, In v V -> S v = true -> In v unburnt.
Proof. intros Sq HL v Hv HS. unfold unburnt. apply filter_In. split; auto. apply negb_true_iff, mem_false. intros Hb.
  pose proof (burn_avoids_legal S burn Sq HL burn_seq v Hb). congruence. Qed.
End B.
Print Assumptions unburnt_legal.
Print Assumptions unburnt_maximal.
