open Model
(* line: n ; n*n matrix entries ; n divisor entries  (ints) -> prints "W b q d0 d1 ..." *)
let rec z_of_int (i:int) : z = if i = 0 then Z0 else if i > 0 then Zpos (pos_of_int i) else Zneg (pos_of_int (-i))
and pos_of_int i = if i = 1 then XH else if i land 1 = 0 then XO (pos_of_int (i lsr 1)) else XI (pos_of_int (i lsr 1))
let rec int_of_pos = function XH -> 1 | XO p -> 2 * int_of_pos p | XI p -> 2 * int_of_pos p + 1
let int_of_z = function Z0 -> 0 | Zpos p -> int_of_pos p | Zneg p -> - (int_of_pos p)
let rec nat_of_int i = if i = 0 then O else S (nat_of_int (i-1))
let rec int_of_nat = function O -> 0 | S n -> 1 + int_of_nat n
let () =
  let fuel = nat_of_int 5000 in
  try while true do
    let line = input_line stdin in
    let xs = List.map int_of_string (List.filter (fun s -> s <> "") (String.split_on_char ' ' line)) in
    match xs with
    | n :: rest ->
      let rec take k l = if k = 0 then ([], l) else match l with x::t -> let (a,b) = take (k-1) t in (x::a,b) | [] -> failwith "short" in
      let rec rows k l = if k = 0 then ([], l) else let (r, l') = take n l in let (rs, l'') = rows (k-1) l' in (List.map z_of_int r :: rs, l'') in
      let (g, rest') = rows n rest in
      let d = List.map z_of_int rest' in
      (match qreduce fuel g d with
       | None -> print_endline "FUEL"
       | Some (q, d2) -> Printf.printf "%d %s\n" (int_of_nat q) (String.concat " " (List.map (fun z -> string_of_int (int_of_z z)) d2)))
    | [] -> ()
  done with End_of_file -> ()
