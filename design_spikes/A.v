From Coq Require Import ZArith List Lia Bool.
Import ListNotations.
Open Scope Z_scope.

Fixpoint zsum {A} (f : A -> Z) (l : list A) : Z :=
  match l with [] => 0 | x :: t => f x + zsum f t end.

Lemma zsum_le {A} (f g : A -> Z) l : (forall x, In x l -> f x <= g x) -> zsum f l <= zsum g l.
Proof. induction l as [|a l IH]; cbn; intros H; [lia|]. 
  assert (f a <= g a) by (apply H; now left). assert (zsum f l <= zsum g l) by (apply IH; intros; apply H; now right). lia. Qed.
Lemma zsum_nonneg {A} (f : A -> Z) l : (forall x, In x l -> 0 <= f x) -> 0 <= zsum f l.
Proof. induction l as [|a l IH]; cbn; intros H; [lia|]. 
  assert (0 <= f a) by (apply H; now left). assert (0 <= zsum f l) by (apply IH; intros; apply H; now right). lia. Qed.

Section G.
Variable V : list nat.
Variable m : nat -> nat -> Z.
Hypothesis m_nonneg : forall v w, 0 <= m v w.

Definition lap (s : nat -> Z) (v : nat) : Z := zsum (fun w => m v w * (s v - s w)) V.
Definition inS (S : nat -> bool) v := S v.
Definition outdeg (S : nat -> bool) v := zsum (fun w => if S w then 0 else m v w) V.

Definition reduced (q : nat) (D : nat -> Z) : Prop :=
  (forall v, In v V -> v <> q -> 0 <= D v) /\
  (forall S : nat -> bool, S q = false -> (exists v, In v V /\ S v = true) ->
      exists v, In v V /\ S v = true /\ D v < outdeg S v).

(* maximum of sigma over nonempty V *)
Lemma max_exists (s : nat -> Z) : V <> [] -> exists M, (forall v, In v V -> s v <= M) /\ exists v, In v V /\ s v = M.
Proof.
  induction V as [|a l IH]; [congruence|]. intros _.
  destruct l as [|b l'].
  - exists (s a). split; [intros v [<-|[]]; lia | exists a; split; [now left|reflexivity]].
  - destruct IH as [M [HM [v [Hv Hs]]]]; [congruence|].
    destruct (Z_le_gt_dec (s a) M).
    + exists M. split. intros x [<-|Hx]; [lia|auto]. exists v. split; [now right|auto].
    + exists (s a). split. intros x [<-|Hx]; [lia|]. specialize (HM x Hx). lia. exists a. split; [now left|auto].
Qed.

Theorem reduced_dominates q D sigma :
  In q V -> reduced q D ->
  (forall v, In v V -> 0 <= D v - lap sigma v) ->
  D q - lap sigma q <= D q /\ 0 <= D q.
Proof.
  intros Hq [Hnn Hnl] Heff.
  destruct (max_exists sigma) as [M [HM [vm [Hvm Hsm]]]]. { intro E; rewrite E in Hq; destruct Hq. }
  set (S := fun v => Z.eqb (sigma v) M).
  assert (Hlap : forall v, In v V -> S v = true -> outdeg S v <= lap sigma v).
  { intros v Hv HS. unfold outdeg, lap. apply zsum_le. intros w Hw.
    unfold S in *. apply Z.eqb_eq in HS. destruct (Z.eqb_spec (sigma w) M).
    - rewrite HS, e. lia.
    - specialize (HM w Hw). specialize (m_nonneg v w). nia. }
  destruct (S q) eqn:Sq.
  - assert (0 <= lap sigma q). { unfold lap. apply zsum_nonneg. intros w Hw. unfold S in Sq. apply Z.eqb_eq in Sq. specialize (HM w Hw). specialize (m_nonneg q w). nia. }
    specialize (Heff q Hq). lia.
  - exfalso. destruct (Hnl S Sq) as [v [Hv [HSv Hlt]]].
    { exists vm. split; auto. unfold S. now apply Z.eqb_eq. }
    specialize (Hlap v Hv HSv). specialize (Heff v Hv). lia.
Qed.
End G.
Print Assumptions reduced_dominates.
