# independent reference implementation (mathematical definitions), ints only
import itertools
def mk(n, edges):
    m=[[0]*n for _ in range(n)]
    for a,b,k in edges:
        m[a][b]+=k; m[b][a]+=k
    return m
def val(m,v): return sum(m[v])
def fire(m,D,S,k=1):
    D=list(D); n=len(D)
    for v in S:
        for w in range(n):
            if w not in S and m[v][w]:
                D[v]-=k*m[v][w]; D[w]+=k*m[v][w]
    return D
def dist(m,q):
    n=len(m); d=[None]*n; d[q]=0; fr=[q]
    while fr:
        nf=[]
        for u in fr:
            for w in range(n):
                if m[u][w] and d[w] is None: d[w]=d[u]+1; nf.append(w)
        fr=nf
    return d
def concentrate(m,D,q):
    n=len(m); d=dist(m,q); D=list(D)
    for lev in range(max(d),0,-1):
        S={u for u in range(n) if d[u]<lev}
        while any(D[v]<0 for v in range(n) if d[v]==lev):
            D=fire(m,D,S)
    return D
def burn(m,D,q):
    n=len(m); B={q}; ch=True
    while ch:
        ch=False
        for v in range(n):
            if v not in B and D[v] < sum(m[v][w] for w in B):
                B.add(v); ch=True
    return set(range(n))-B
def qreduce(m,D,q):
    D=concentrate(m,D,q)
    while True:
        U=burn(m,D,q)
        if not U: return D
        D=fire(m,D,U)
def winnable(m,D):
    q=0
    return qreduce(m,D,q)[q]>=0
def rank(m,D):
    if not winnable(m,D): return -1
    n=len(m); k=1
    while True:
        for comb in itertools.combinations_with_replacement(range(n),k):
            E=list(D)
            for v in comb: E[v]-=1
            if not winnable(m,E): return k-1
        k+=1
def gonality(m):
    n=len(m)
    for k in range(1,n+1):
        for comb in itertools.combinations_with_replacement(range(n),k):
            D=[0]*n
            for v in comb: D[v]+=1
            if all(winnable(m,[D[i]-(i==v) for i in range(n)]) for v in range(n)): return k
def connected(m):
    return all(x is not None for x in dist(m,0))
