From Coq Require Import ZArith List Lia Bool Arith Permutation.
Import ListNotations.
Require Import ZSum.
Open Scope Z_scope.

Lemma zsum_perm {A} (f : A -> Z) l l' : Permutation l l' -> zsum f l = zsum f l'.
Proof. induction 1; cbn; lia. Qed.
Lemma zsum_app {A} (f : A -> Z) l l' : zsum f (l ++ l') = zsum f l + zsum f l'.
Proof. induction l; cbn; lia. Qed.

Section Gen.
Variable m : nat -> nat -> Z.
Hypothesis m_sym : forall v w, m v w = m w v.
Hypothesis m_diag : forall v, m v v = 0.
Variable q : nat.
Variable D : nat -> Z.

(* burn sequences with the edge count taken over the burnt list itself *)
Definition edges_to (v : nat) (B : list nat) := zsum (m v) B.
Inductive BurnSeq : list nat -> Prop :=
| bs0 : BurnSeq [q]
| bs1 B v : BurnSeq B -> ~ In v B -> D v < edges_to v B -> BurnSeq (B ++ [v]).

Definition twice_edges (l : list nat) := zsum (fun v => zsum (m v) l) l.
Definition chips_off_q (l : list nat) := zsum (fun v => if Nat.eqb v q then 0 else D v + 1) l.

Lemma twice_edges_snoc B v : twice_edges (B ++ [v]) = twice_edges B + 2 * edges_to v B.
Proof.
  unfold twice_edges, edges_to. rewrite zsum_app. cbn [zsum]. rewrite zsum_app. cbn [zsum]. rewrite m_diag.
  rewrite (zsum_ext (fun v0 => zsum (m v0) (B ++ [v])) (fun v0 => zsum (m v0) B + m v0 v)).
  - rewrite zsum_add. rewrite (zsum_ext (fun x => m x v) (m v)) by (intros; apply m_sym). lia.
  - intros x _. rewrite zsum_app. cbn [zsum]. lia.
Qed.

Lemma burn_counts B : BurnSeq B -> 2 * chips_off_q B <= twice_edges B /\ In q B.
Proof.
  induction 1 as [|B v HB [IH Hq] Hn Hlt].
  - unfold chips_off_q, twice_edges. cbn [zsum]. rewrite Nat.eqb_refl, m_diag. split; [lia|now left].
  - split; [|apply in_or_app; now left]. rewrite twice_edges_snoc. unfold chips_off_q in *. rewrite zsum_app. cbn [zsum].
    destruct (Nat.eqb_spec v q) as [->|]; [contradiction|]. lia.
Qed.

(* when the burn consumes every vertex: deg of the configuration off q is at most |E| - (n-1) *)
Theorem complete_burn_degree_bound B V : BurnSeq B -> Permutation B V -> NoDup V ->
  2 * (zsum (fun v => if Nat.eqb v q then 0 else D v) V) <= twice_edges V - 2 * (Z.of_nat (length V) - 1).
Proof.
  intros HB HP HN. destruct (burn_counts B HB) as [H Hq].
  assert (E1 : twice_edges B = twice_edges V).
  { unfold twice_edges. rewrite (zsum_perm _ _ _ HP). apply zsum_ext. intros v _. apply zsum_perm; auto. }
  assert (E2 : chips_off_q B = zsum (fun v => if Nat.eqb v q then 0 else D v) V + (Z.of_nat (length V) - 1)).
  { unfold chips_off_q. rewrite (zsum_perm _ _ _ HP).
    assert (In q V) by (eapply Permutation_in; eauto). clear - HN H0.
    induction V as [|a l IH]; [destruct H0|]. cbn [zsum length]. inversion HN; subst.
    destruct (Nat.eqb_spec a q) as [->|Hne].
    - assert (forall l, ~ In q l -> zsum (fun v => if Nat.eqb v q then 0 else D v + 1) l = zsum (fun v => if Nat.eqb v q then 0 else D v) l + Z.of_nat (length l)) as Hl.
      { clear. induction l as [|b l IH]; intros Hn; [reflexivity|]. cbn [zsum length]. destruct (Nat.eqb_spec b q). subst; exfalso; apply Hn; now left.
        rewrite IH by (intro; apply Hn; now right). lia. }
      rewrite Hl by auto. lia.
    - destruct H0 as [->|Hin]; [congruence|]. rewrite IH by auto. lia. }
  rewrite E1, E2 in H. lia.
Qed.
End Gen.
Print Assumptions complete_burn_degree_bound.
