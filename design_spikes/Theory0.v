From Coq Require Import ZArith List Lia Bool Arith.
Import ListNotations.
Require Import ZSum.
Open Scope Z_scope.

Section G.
Variable V : list nat.
Variable m : nat -> nat -> Z.
Hypothesis m_nonneg : forall v w, 0 <= m v w.
Hypothesis m_sym : forall v w, m v w = m w v.

Definition lap (s : nat -> Z) (v : nat) : Z := zsum (fun w => m v w * (s v - s w)) V.
Definition deg (D : nat -> Z) := zsum D V.
Definition lequiv (D E : nat -> Z) := exists s, forall v, In v V -> E v = D v - lap s v.
Definition effective (D : nat -> Z) := forall v, In v V -> 0 <= D v.
Definition winnable D := exists E, lequiv D E /\ effective E.
Definition outdeg (S : nat -> bool) v := zsum (fun w => if S w then 0 else m v w) V.
Definition legal (D : nat -> Z) (S : nat -> bool) := forall v, In v V -> S v = true -> outdeg S v <= D v.
Definition nonempty (S : nat -> bool) := exists v, In v V /\ S v = true.
Definition reduced (q : nat) (D : nat -> Z) : Prop :=
  (forall v, In v V -> v <> q -> 0 <= D v) /\
  (forall S, S q = false -> nonempty S -> ~ legal D S).

(* --- linearity of lap and the equivalence relation --- *)
Lemma lap_add s t v : lap (fun x => s x + t x) v = lap s v + lap t v.
Proof. unfold lap. rewrite <- zsum_add. apply zsum_ext; intros; ring. Qed.
Lemma lap_neg s v : lap (fun x => - s x) v = - lap s v.
Proof. unfold lap.
  replace (- zsum (fun w => m v w * (s v - s w)) V) with ((-1) * zsum (fun w => m v w * (s v - s w)) V) by ring.
  rewrite <- zsum_scale. apply zsum_ext; intros; ring. Qed.
Lemma lap_const c v : lap (fun _ => c) v = 0.
Proof. unfold lap. rewrite (zsum_ext _ (fun _ => 0)). apply zsum_zero. intros; ring. Qed.
Lemma lap_sum_zero s : zsum (lap s) V = 0.
Proof.
  unfold lap.
  assert (E : zsum (fun v => zsum (fun w => m v w * (s v - s w)) V) V
            = zsum (fun v => zsum (fun w => m v w * s v) V) V - zsum (fun v => zsum (fun w => m v w * s w) V) V).
  { rewrite <- zsum_sub. apply zsum_ext; intros v _. rewrite <- zsum_sub. apply zsum_ext; intros; ring. }
  rewrite E. rewrite (zsum_swap (fun v w => m v w * s w)).
  rewrite (zsum_ext (fun b => zsum (fun a => m a b * s b) V) (fun v => zsum (fun w => m v w * s v) V)); [lia|].
  intros v _. apply zsum_ext; intros w _. rewrite (m_sym w v). ring.
Qed.
Lemma lequiv_refl D : lequiv D D.
Proof. exists (fun _ => 0). intros v _. rewrite lap_const. lia. Qed.
Lemma lequiv_sym D E : lequiv D E -> lequiv E D.
Proof. intros [s H]. exists (fun x => - s x). intros v Hv. rewrite lap_neg, (H v Hv). lia. Qed.
Lemma lap_ext s t v : (forall x, In x V -> s x = t x) -> In v V -> lap s v = lap t v.
Proof. intros H Hv. unfold lap. apply zsum_ext. intros w Hw. rewrite (H v Hv), (H w Hw). reflexivity. Qed.
Lemma lequiv_trans D E F : lequiv D E -> lequiv E F -> lequiv D F.
Proof. intros [s H] [t H']. exists (fun x => s x + t x). intros v Hv. rewrite lap_add, (H' v Hv), (H v Hv). lia. Qed.
Lemma lequiv_deg D E : lequiv D E -> deg E = deg D.
Proof. intros [s H]. unfold deg. rewrite (zsum_ext E (fun v => D v - lap s v)) by exact H.
  rewrite zsum_sub, lap_sum_zero. lia. Qed.
Lemma neg_deg_unwinnable D : deg D < 0 -> ~ winnable D.
Proof. intros Hd [E [Heq Heff]]. apply lequiv_deg in Heq. assert (0 <= deg E) by (apply zsum_nonneg; auto). lia. Qed.

(* --- the argmax argument --- *)
Lemma reduced_sink_is_max q D sigma :
  In q V -> reduced q D ->
  (forall v, In v V -> v <> q -> 0 <= D v - lap sigma v) ->
  forall v, In v V -> sigma v <= sigma q.
Proof.
  intros Hq [Hnn Hnl] Heff.
  destruct (max_exists V sigma) as [vm [Hvm HM]]. { intro E; rewrite E in Hq; destruct Hq. }
  set (M := sigma vm). set (S := fun v => Z.eqb (sigma v) M).
  destruct (S q) eqn:Sq.
  - unfold S in Sq. apply Z.eqb_eq in Sq. intros v Hv. specialize (HM v Hv). unfold M in Sq. lia.
  - exfalso. apply (Hnl S Sq). { exists vm. split; auto. unfold S, M. apply Z.eqb_refl. }
    intros v Hv HS. assert (v <> q) by (intro; subst; congruence).
    specialize (Heff v Hv H).
    assert (outdeg S v <= lap sigma v); [|lia].
    unfold outdeg, lap. apply zsum_le. intros w Hw. unfold S in *. apply Z.eqb_eq in HS.
    destruct (Z.eqb_spec (sigma w) M).
    + rewrite HS, e. lia.
    + pose proof (HM w Hw). pose proof (m_nonneg v w). fold M in H1. nia.
Qed.

Theorem reduced_dominates q D sigma :
  In q V -> reduced q D -> (forall v, In v V -> 0 <= D v - lap sigma v) -> 0 <= D q.
Proof.
  intros Hq Hr Heff. pose proof (reduced_sink_is_max q D sigma Hq Hr (fun v Hv _ => Heff v Hv)) as Hmax.
  assert (0 <= lap sigma q). { unfold lap. apply zsum_nonneg. intros w Hw. specialize (Hmax w Hw). pose proof (m_nonneg q w). nia. }
  specialize (Heff q Hq). lia.
Qed.

Theorem reduced_unwinnable q D : In q V -> reduced q D -> D q < 0 -> ~ winnable D.
Proof. intros Hq Hr Hneg [E [[s Hs] Heff]]. 
  assert (0 <= D q); [|lia]. apply (reduced_dominates q D s Hq Hr). intros v Hv. rewrite <- (Hs v Hv). auto. Qed.

Theorem reduced_unique q D E : In q V -> reduced q D -> reduced q E -> lequiv D E -> forall v, In v V -> D v = E v.
Proof.
  intros Hq HD HE [s Hs] v Hv.
  assert (H1 : forall w, In w V -> s w <= s q).
  { apply (reduced_sink_is_max q D s Hq HD). intros w Hw Hne. rewrite <- (Hs w Hw). destruct HE as [HE _]. auto. }
  assert (H2 : forall w, In w V -> - s w <= - s q).
  { apply (reduced_sink_is_max q E (fun x => - s x) Hq HE). intros w Hw Hne. rewrite lap_neg, (Hs w Hw).
    destruct HD as [HD _]. specialize (HD w Hw Hne). lia. }
  assert (Hc : forall w, In w V -> s w = s q). { intros w Hw. specialize (H1 w Hw). specialize (H2 w Hw). lia. }
  rewrite (Hs v Hv). rewrite (lap_ext s (fun _ => s q) v Hc Hv), lap_const. lia.
Qed.

(* --- acyclic orientations given by a position function --- *)
Variable pos : nat -> nat.
Definition indeg v := zsum (fun w => if Nat.ltb (pos w) (pos v) then m v w else 0) V.
Definition orient_div v := indeg v - 1.

Theorem acyclic_unwinnable : V <> [] -> ~ winnable orient_div.
Proof.
  intros Hne [E [[s Hs] Heff]].
  destruct (max_exists V s Hne) as [vm [Hvm HM]].
  set (S := fun v => Z.eqb (s v) (s vm)).
  destruct (min_pos V S pos) as [u [Hu [HSu Hmin]]]. { exists vm. split; auto. unfold S. apply Z.eqb_refl. }
  specialize (Heff u Hu). rewrite (Hs u Hu) in Heff. unfold orient_div in Heff.
  assert (indeg u <= lap s u); [|lia].
  unfold indeg, lap. apply zsum_le. intros w Hw. pose proof (m_nonneg u w). pose proof (HM w Hw).
  unfold S in HSu. apply Z.eqb_eq in HSu.
  destruct (Nat.ltb_spec (pos w) (pos u)).
  - assert (S w = false). { destruct (S w) eqn:E'; auto. specialize (Hmin w Hw E'). lia. }
    unfold S in H2. apply Z.eqb_neq in H2. nia.
  - nia.
Qed.
End G.
Print Assumptions reduced_unique.
Print Assumptions acyclic_unwinnable.
Print Assumptions lequiv_deg.
