From Coq Require Import ZArith List Lia Bool Arith.
Import ListNotations.
Open Scope Z_scope.

Definition graph := list (list Z).
Definition div := list Z.
Definition nthZ (l : list Z) (i : nat) := nth i l 0.
Definition mult (g : graph) (v w : nat) := nthZ (nth v g []) w.
Definition nverts (g : graph) := length g.
Definition verts (g : graph) := seq 0 (nverts g).
Fixpoint zsum {A} (f : A -> Z) (l : list A) : Z := match l with [] => 0 | x :: t => f x + zsum f t end.
Definition mem (v : nat) (S : list nat) := existsb (Nat.eqb v) S.

(* borrow at v *)
Definition borrow (g : graph) (D : div) (v : nat) : div :=
  map (fun w => if Nat.eqb w v then nthZ D w + zsum (fun x => mult g v x) (verts g)
                else nthZ D w - mult g v w) (verts g).
Definition fire_set (g : graph) (D : div) (S : list nat) : div :=
  map (fun w => if mem w S then nthZ D w - zsum (fun x => if mem x S then 0 else mult g w x) (verts g)
                else nthZ D w + zsum (fun x => if mem x S then mult g w x else 0) (verts g)) (verts g).

(* debt concentration: passes over V~ in decreasing id order, to fixpoint, fuel *)
Fixpoint borrow_while (fuel : nat) g D v : option div :=
  match fuel with O => None | S f => if nthZ D v <? 0 then borrow_while f g (borrow g D v) v else Some D end.
Fixpoint pass (fuel : nat) g (q : nat) (vs : list nat) (D : div) : option div :=
  match vs with [] => Some D | v :: t => if Nat.eqb v q then pass fuel g q t D else
     match borrow_while fuel g D v with None => None | Some D' => pass fuel g q t D' end end.
Definition nonneg_off (q : nat) (D : div) (vs : list nat) := forallb (fun v => Nat.eqb v q || (0 <=? nthZ D v)) vs.
Fixpoint concentrate (fuel : nat) g q D : option div :=
  match fuel with O => None | S f =>
    if nonneg_off q D (verts g) then Some D else
    match pass (S f) g q (rev (verts g)) D with None => None | Some D' => concentrate f g q D' end end.

(* burn *)
Definition burn_pass g (D : div) (burnt : list nat) : list nat :=
  fold_left (fun B v => if mem v B then B else
        if nthZ D v <? zsum (fun w => if mem w B then mult g v w else 0) (verts g) then B ++ [v] else B) (verts g) burnt.
Fixpoint iter {A} (n : nat) (f : A -> A) (x : A) := match n with O => x | S k => iter k f (f x) end.
Definition burn g q D : list nat := iter (S (nverts g)) (burn_pass g D) [q].
Definition unburnt g q D := filter (fun v => negb (mem v (burn g q D))) (verts g).

Fixpoint reduce_loop (fuel : nat) g q D : option div :=
  match fuel with O => None | S f =>
    match unburnt g q D with [] => Some D | U => reduce_loop f g q (fire_set g D U) end end.
Definition argmin (D : div) : nat :=
  snd (fold_left (fun '(best, bi) i => if nthZ D i <? best then (nthZ D i, i) else (best, bi)) (seq 1 (length D - 1)) (nthZ D 0, 0%nat)).
Definition qreduce fuel g D :=
  let q := argmin D in
  match concentrate fuel g q D with None => None | Some D1 =>
  match reduce_loop fuel g q D1 with None => None | Some D2 => Some (q, D2) end end.
Definition winnable_b fuel g D : option bool :=
  match qreduce fuel g D with None => None | Some (q, D2) => Some (0 <=? nthZ D2 q) end.

(* combinations with replacement, as chip vectors *)
Fixpoint placements (n : nat) (k : nat) : list (list Z) :=
  match n with
  | O => match k with O => [[]] | _ => [] end
  | S n' => flat_map (fun j => map (fun t => Z.of_nat j :: t) (placements n' (k - j))) (rev (seq 0 (S k)))
  end.
Definition sub1 (D : div) (v : nat) := map (fun w => if Nat.eqb w v then nthZ D w - 1 else nthZ D w) (seq 0 (length D)).
Definition strategy_ok fuel g D := forallb (fun v => match winnable_b fuel g (sub1 D v) with Some true => true | _ => false end) (verts g).
Fixpoint gon_search fuel g (ks : list nat) : option nat :=
  match ks with [] => None | k :: t => if existsb (strategy_ok fuel g) (placements (nverts g) k) then Some k else gon_search fuel g t end.
Definition gonality fuel g := gon_search fuel g (seq 1 (nverts g)).

(* cube *)
Definition cube : graph :=
 [[0;1;1;0;1;0;0;0];[1;0;0;1;0;1;0;0];[1;0;0;1;0;0;1;0];[0;1;1;0;0;0;0;1];
  [1;0;0;0;0;1;1;0];[0;1;0;0;1;0;0;1];[0;0;1;0;1;0;0;1];[0;0;0;1;0;1;1;0]].
Definition K4 : graph := [[0;1;1;1];[1;0;1;1];[1;1;0;1];[1;1;1;0]].
Eval vm_compute in qreduce 100 [[0;1;0];[1;0;1];[0;1;0]] [0;-1;0].
Time Eval vm_compute in gonality 200 K4.
Time Eval vm_compute in gonality 200 cube.
Require Extraction. Require Import ExtrOcamlBasic.
Extraction "model.ml" gonality qreduce winnable_b cube.
