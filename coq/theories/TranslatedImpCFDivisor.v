(* GENERATED on every run by tools/translate_imp.py from the current source in /repo. Do not edit. *)
From Coq Require Import ZArith List Bool Arith.
Import ListNotations.
From CF Require Import PyDict.
Open Scope Z_scope.

(* chipfiring/CFDivisor.py :: CFDivisor.is_effective   reads ['self_degrees'], writes [] *)
Definition CFDivisor_is_effective (self_degrees : dictZ) : bool :=
  if existsb (fun kv_ => let '(u1_, degree) := kv_ in (degree <? 0)) self_degrees then (false) else
  (true).

(* chipfiring/CFDivisor.py :: CFDivisor.get_degree   reads ['self_degrees'], writes [], may raise *)
Definition CFDivisor_get_degree (self_degrees : dictZ) (vertex_name : nat) : pyres (unit) Z :=
  let vertex := vertex_name in
  if (negb (d_mem vertex self_degrees)) then
  PyExn tt
  else
  match d_find vertex self_degrees with None => PyExn tt | Some t1_ =>
  PyOk (t1_) end.

(* chipfiring/CFDivisor.py :: CFDivisor.lending_move   reads ['self_graph_graph', 'self_degrees'], writes ['self_degrees'], may raise *)
Definition CFDivisor_lending_move (self_graph_graph : dictD) (self_degrees : dictZ) (vertex_name : nat) : pyres (dictZ) (dictZ) :=
  let vertex := vertex_name in
  if (negb (d_mem vertex self_graph_graph)) then
  PyExn self_degrees
  else
  match d_find vertex self_graph_graph with None => PyExn self_degrees | Some t1_ =>
  let neighbors := t1_ in
  match fold_left (fun acc_ neighbor => match acc_ with PyExn e_ => PyExn e_ | PyOk self_degrees => 
  match d_find neighbor neighbors with None => PyExn self_degrees | Some t2_ =>
  let valence := t2_ in
  match d_find neighbor self_degrees with None => PyExn self_degrees | Some t3_ =>
  let self_degrees := d_set neighbor (t3_ + valence) self_degrees in
  match d_find vertex self_degrees with None => PyExn self_degrees | Some t4_ =>
  let self_degrees := d_set vertex (t4_ - valence) self_degrees in
  PyOk self_degrees end end end end) (d_keys neighbors) (PyOk self_degrees) with PyExn e_ => PyExn e_ | PyOk self_degrees =>
  PyOk self_degrees end end.

(* chipfiring/CFDivisor.py :: CFDivisor.borrowing_move   reads ['self_graph_graph', 'self_degrees'], writes ['self_degrees'], may raise *)
Definition CFDivisor_borrowing_move (self_graph_graph : dictD) (self_degrees : dictZ) (vertex_name : nat) : pyres (dictZ) (dictZ) :=
  let vertex := vertex_name in
  if (negb (d_mem vertex self_graph_graph)) then
  PyExn self_degrees
  else
  match d_find vertex self_graph_graph with None => PyExn self_degrees | Some t1_ =>
  let neighbors := t1_ in
  match fold_left (fun acc_ neighbor => match acc_ with PyExn e_ => PyExn e_ | PyOk self_degrees => 
  match d_find neighbor neighbors with None => PyExn self_degrees | Some t2_ =>
  let valence := t2_ in
  match d_find neighbor self_degrees with None => PyExn self_degrees | Some t3_ =>
  let self_degrees := d_set neighbor (t3_ - valence) self_degrees in
  match d_find vertex self_degrees with None => PyExn self_degrees | Some t4_ =>
  let self_degrees := d_set vertex (t4_ + valence) self_degrees in
  PyOk self_degrees end end end end) (d_keys neighbors) (PyOk self_degrees) with PyExn e_ => PyExn e_ | PyOk self_degrees =>
  PyOk self_degrees end end.

(* chipfiring/CFDivisor.py :: CFDivisor.chip_transfer   reads ['self_degrees'], writes ['self_degrees'], may raise *)
Definition CFDivisor_chip_transfer (self_degrees : dictZ) (vertex_from_name : nat) (vertex_to_name : nat) (amount : Z) : pyres (dictZ) (dictZ) :=
  if (amount <=? 0) then
  PyExn self_degrees
  else
  let vertex_from := vertex_from_name in
  let vertex_to := vertex_to_name in
  if (negb (d_mem vertex_from self_degrees)) then
  PyExn self_degrees
  else
  if (negb (d_mem vertex_to self_degrees)) then
  PyExn self_degrees
  else
  match d_find vertex_from self_degrees with None => PyExn self_degrees | Some t1_ =>
  let self_degrees := d_set vertex_from (t1_ - amount) self_degrees in
  match d_find vertex_to self_degrees with None => PyExn self_degrees | Some t2_ =>
  let self_degrees := d_set vertex_to (t2_ + amount) self_degrees in
  PyOk self_degrees end end.

(* chipfiring/CFDivisor.py :: CFDivisor.set_fire   reads ['self_graph_graph', 'self_degrees'], writes ['self_degrees'], may raise *)
Definition CFDivisor_set_fire (self_graph_graph : dictD) (self_degrees : dictZ) (set_order : list nat -> list nat) (vertex_names : list nat) : pyres (dictZ) (dictZ) :=
  let firing_set_vertices := (@nil nat) in
  match fold_left (fun acc_ name => match acc_ with PyExn e_ => PyExn e_ | PyOk firing_set_vertices => 
  let vertex := name in
  if (negb (d_mem vertex self_graph_graph)) then
  PyExn self_degrees
  else
  let firing_set_vertices := s_add vertex firing_set_vertices in
  PyOk firing_set_vertices end) (set_order vertex_names) (PyOk firing_set_vertices) with PyExn e_ => PyExn e_ | PyOk firing_set_vertices =>
  match fold_left (fun acc_ vertex => match acc_ with PyExn e_ => PyExn e_ | PyOk self_degrees => 
  match d_find vertex self_graph_graph with None => PyExn self_degrees | Some t1_ =>
  let neighbors := t1_ in
  match fold_left (fun acc_ kv_ => match acc_ with PyExn e_ => PyExn e_ | PyOk self_degrees => let '(neighbor_vertex, valence) := kv_ in
  if (negb (s_mem neighbor_vertex firing_set_vertices)) then
  match CFDivisor_chip_transfer self_degrees vertex neighbor_vertex valence with PyExn self_degrees => PyExn self_degrees | PyOk self_degrees =>
  PyOk self_degrees end
  else
  PyOk self_degrees end) neighbors (PyOk self_degrees) with PyExn e_ => PyExn e_ | PyOk self_degrees =>
  PyOk self_degrees end end end) (set_order firing_set_vertices) (PyOk self_degrees) with PyExn e_ => PyExn e_ | PyOk self_degrees =>
  PyOk self_degrees end end.

(* chipfiring/CFDivisor.py :: CFDivisor.__init__   reads [], writes ['self_degrees', 'self_total_degree'], may raise *)
Definition CFDivisor___init__ (set_order : list nat -> list nat) (graph_vertices : list nat) (graph_graph : dictD) (degrees : (list (nat * Z))) : pyres (dictZ * Z) (dictZ * Z) :=
  let self_total_degree := 0 in
  let self_degrees := (@nil (nat * Z)) in
  let self_degrees := (fold_left (fun d_ v => d_set v 0 d_) (set_order graph_vertices) []) in
  let self_total_degree := 0 in
  let vertex_names := (map (fun '(name, _) => name) degrees) in
  if (negb (nodupb vertex_names)) then
  PyExn (self_degrees, self_total_degree)
  else
  match fold_left (fun acc_ kv_ => match acc_ with PyExn e_ => PyExn e_ | PyOk (self_degrees, self_total_degree) => let '(vertex_name, degree) := kv_ in
  let vertex := vertex_name in
  if (negb (d_mem vertex graph_graph)) then
  PyExn (self_degrees, self_total_degree)
  else
  let self_degrees := d_set vertex degree self_degrees in
  let self_total_degree := (self_total_degree + degree) in
  PyOk (self_degrees, self_total_degree) end) degrees (PyOk (self_degrees, self_total_degree)) with PyExn e_ => PyExn e_ | PyOk (self_degrees, self_total_degree) =>
  PyOk (self_degrees, self_total_degree) end.

(* chipfiring/CFDivisor.py :: CFDivisor.__neg__   reads ['self_degrees', 'self_graph_vertices', 'self_graph_graph'], writes [], may raise *)
Definition CFDivisor___neg__ (self_degrees : dictZ) (self_graph_vertices : list nat) (self_graph_graph : dictD) (set_order : list nat -> list nat) : pyres (unit) (dictZ * Z) :=
  let neg_degrees := (map (fun '(v, deg) => (v, (- deg))) self_degrees) in
  match CFDivisor___init__ set_order self_graph_vertices self_graph_graph neg_degrees with PyExn _ => PyExn tt | PyOk new_ => PyOk (new_) end.

(* chipfiring/CFDivisor.py :: CFDivisor.__rmul__   reads ['self_degrees', 'self_graph_vertices', 'self_graph_graph'], writes [], may raise *)
Definition CFDivisor___rmul__ (self_degrees : dictZ) (self_graph_vertices : list nat) (self_graph_graph : dictD) (set_order : list nat -> list nat) (n : Z) : pyres (unit) (dictZ * Z) :=
  if (negb true) then
  PyExn tt
  else
  let new_degrees := (map (fun '(v, deg) => (v, (n * deg))) self_degrees) in
  match CFDivisor___init__ set_order self_graph_vertices self_graph_graph new_degrees with PyExn _ => PyExn tt | PyOk new_ => PyOk (new_) end.

(* chipfiring/CFDivisor.py :: CFDivisor.__eq__   reads ['self_degrees', 'self_graph_vertices', 'self_graph_graph'], writes [], may raise *)
Definition CFDivisor___eq__ (self_degrees : dictZ) (self_graph_vertices : list nat) (self_graph_graph : dictD) (set_order : list nat -> list nat) (other : (option (list nat * dictD * dictZ))) : pyres (unit) bool :=
  match other with None => PyOk (false) | Some (other_graph_vertices, other_graph_graph, other_degrees) =>
  if (negb (set_eqb (d_keys self_degrees) (d_keys other_degrees))) then
  PyOk (false)
  else
  match fold_left (fun acc_ kv_ => match acc_ with PyExn e_ => PyExn e_ | PyOk (Some r_, tt) => PyOk (Some r_, tt) | PyOk (None, tt) => let '(vertex, degree) := kv_ in
  match d_find vertex other_degrees with None => PyExn tt | Some t1_ =>
  if (negb (t1_ =? degree)) then
  PyOk (Some (false), tt)
  else
  PyOk (None, tt) end end) self_degrees (PyOk (None, tt)) with PyExn e_ => PyExn e_ | PyOk (Some r_, tt) => PyOk (r_) | PyOk (None, tt) =>
  if (negb (set_eqb self_graph_vertices other_graph_vertices)) then
  PyOk (false)
  else
  match fold_left (fun acc_ v => match acc_ with PyExn e_ => PyExn e_ | PyOk (Some r_, tt) => PyOk (Some r_, tt) | PyOk (None, tt) => 
  if (negb (d_mem v other_graph_graph)) then
  PyOk (Some (false), tt)
  else
  match d_find v self_graph_graph with None => PyExn tt | Some t2_ =>
  match d_find v other_graph_graph with None => PyExn tt | Some t3_ =>
  if (negb (set_eqb (d_keys t2_) (d_keys t3_))) then
  PyOk (Some (false), tt)
  else
  match d_find v self_graph_graph with None => PyExn tt | Some t4_ =>
  match fold_left (fun acc_ kv_ => match acc_ with PyExn e_ => PyExn e_ | PyOk (Some r_, tt) => PyOk (Some r_, tt) | PyOk (None, tt) => let '(neighbor, weight) := kv_ in
  match d_find v other_graph_graph with None => PyExn tt | Some t5_ =>
  match d_find neighbor t5_ with None => PyExn tt | Some t6_ =>
  if (negb (t6_ =? weight)) then
  PyOk (Some (false), tt)
  else
  PyOk (None, tt) end end end) t4_ (PyOk (None, tt)) with PyExn e_ => PyExn e_ | PyOk (Some r_, tt) => PyOk (Some r_, tt) | PyOk (None, tt) =>
  PyOk (None, tt) end end end end end) (set_order self_graph_vertices) (PyOk (None, tt)) with PyExn e_ => PyExn e_ | PyOk (Some r_, tt) => PyOk (r_) | PyOk (None, tt) =>
  PyOk (true) end end end.

(* chipfiring/CFDivisor.py :: CFDivisor.__add__   reads ['self_graph_vertices', 'self_degrees', 'self_graph_graph'], writes [], may raise *)
Definition CFDivisor___add__ (self_graph_vertices : list nat) (self_degrees : dictZ) (self_graph_graph : dictD) (set_order : list nat -> list nat) (other_graph_vertices : list nat) (other_degrees : dictZ) : pyres (unit) (dictZ * Z) :=
  if (negb (set_eqb self_graph_vertices other_graph_vertices)) then
  PyExn tt
  else
  let new_degrees_list := (@nil (nat * Z)) in
  match fold_left (fun acc_ v_obj => match acc_ with PyExn e_ => PyExn e_ | PyOk new_degrees_list => 
  let deg1 := (d_get v_obj 0 self_degrees) in
  let deg2 := (d_get v_obj 0 other_degrees) in
  let new_degrees_list := new_degrees_list ++ [(v_obj, (deg1 + deg2))] in
  PyOk new_degrees_list end) (set_order self_graph_vertices) (PyOk new_degrees_list) with PyExn e_ => PyExn e_ | PyOk new_degrees_list =>
  match CFDivisor___init__ set_order self_graph_vertices self_graph_graph new_degrees_list with PyExn _ => PyExn tt | PyOk new_ => PyOk (new_) end end.

(* chipfiring/CFDivisor.py :: CFDivisor.__sub__   reads ['self_graph_vertices', 'self_degrees', 'self_graph_graph'], writes [], may raise *)
Definition CFDivisor___sub__ (self_graph_vertices : list nat) (self_degrees : dictZ) (self_graph_graph : dictD) (set_order : list nat -> list nat) (other_graph_vertices : list nat) (other_degrees : dictZ) : pyres (unit) (dictZ * Z) :=
  if (negb (set_eqb self_graph_vertices other_graph_vertices)) then
  PyExn tt
  else
  let new_degrees_list := (@nil (nat * Z)) in
  match fold_left (fun acc_ v_obj => match acc_ with PyExn e_ => PyExn e_ | PyOk new_degrees_list => 
  let deg1 := (d_get v_obj 0 self_degrees) in
  let deg2 := (d_get v_obj 0 other_degrees) in
  let new_degrees_list := new_degrees_list ++ [(v_obj, (deg1 - deg2))] in
  PyOk new_degrees_list end) (set_order self_graph_vertices) (PyOk new_degrees_list) with PyExn e_ => PyExn e_ | PyOk new_degrees_list =>
  match CFDivisor___init__ set_order self_graph_vertices self_graph_graph new_degrees_list with PyExn _ => PyExn tt | PyOk new_ => PyOk (new_) end end.

(* chipfiring/CFDivisor.py :: CFDivisor.get_total_degree   reads ['self_total_degree'], writes [] *)
Definition CFDivisor_get_total_degree (self_total_degree : Z) : Z :=
  (self_total_degree).

(* CFDivisor.firing_move is the class attribute `firing_move = lending_move` *)
Definition CFDivisor_firing_move := CFDivisor_lending_move.
