(* GENERATED on every run by tools/translate_imp.py from the current source in /repo. Do not edit. *)
From Coq Require Import ZArith List Bool Arith.
Import ListNotations.
From CF Require Import PyDict TranslatedImpCFGraph.
Open Scope Z_scope.

(* chipfiring/CFLaplacian.py :: CFLaplacian._construct_matrix   reads ['self_graph_vertices', 'self_graph_vertex_total_valence', 'self_graph_graph'], writes [], may raise *)
Definition CFLaplacian__construct_matrix (self_graph_vertices : list nat) (self_graph_vertex_total_valence : dictZ) (self_graph_graph : dictD) (set_order : list nat -> list nat) : pyres (unit) dictD :=
  let laplacian := (@nil (nat * dictZ)) in
  let vertices := self_graph_vertices in
  match fold_left (fun acc_ v => match acc_ with PyExn e_ => PyExn e_ | PyOk laplacian => 
  let laplacian := d_set v [] laplacian in
  match CFGraph_get_valence self_graph_vertex_total_valence v with PyExn _ => PyExn tt | PyOk t1_ =>
  let degree := t1_ in
  match d_find v laplacian with None => PyExn tt | Some t2_ =>
  let laplacian := d_set v (d_set v degree t2_) laplacian in
  if (d_mem v self_graph_graph) then
  match d_find v self_graph_graph with None => PyExn tt | Some t3_ =>
  match fold_left (fun acc_ kv_ => match acc_ with PyExn e_ => PyExn e_ | PyOk laplacian => let '(w, valence) := kv_ in
  match d_find v laplacian with None => PyExn tt | Some t4_ =>
  let laplacian := d_set v (d_set w (- valence) t4_) laplacian in
  PyOk laplacian end end) t3_ (PyOk laplacian) with PyExn e_ => PyExn e_ | PyOk laplacian =>
  PyOk laplacian end end
  else
  PyOk laplacian end end end) (set_order vertices) (PyOk laplacian) with PyExn e_ => PyExn e_ | PyOk laplacian =>
  PyOk (laplacian) end.

(* chipfiring/CFLaplacian.py :: CFLaplacian.get_matrix_entry   reads ['self_graph_vertices', 'self_laplacian'], writes [], may raise *)
Definition CFLaplacian_get_matrix_entry (self_graph_vertices : list nat) (self_laplacian : dictD) (v_name : nat) (w_name : nat) : pyres (unit) Z :=
  let v := v_name in
  let w := w_name in
  if ((negb (s_mem v self_graph_vertices)) || (negb (s_mem w self_graph_vertices))) then
  PyExn tt
  else
  let matrix := self_laplacian in
  PyOk ((d_get w 0 (d_get v [] matrix))).

(* chipfiring/CFLaplacian.py :: CFLaplacian.get_reduced_matrix   reads ['self_laplacian', 'self_graph_vertices'], writes [], may raise *)
Definition CFLaplacian_get_reduced_matrix (self_laplacian : dictD) (self_graph_vertices : list nat) (set_order : list nat -> list nat) (q : nat) : pyres (unit) dictD :=
  let laplacian := self_laplacian in
  let vertices := self_graph_vertices in
  let reduced_matrix := (@nil (nat * dictZ)) in
  match fold_left (fun acc_ v => match acc_ with PyExn e_ => PyExn e_ | PyOk reduced_matrix => 
  if (negb (Nat.eqb v q)) then
  let reduced_matrix := d_set v [] reduced_matrix in
  match fold_left (fun acc_ w => match acc_ with PyExn e_ => PyExn e_ | PyOk reduced_matrix => 
  if (negb (Nat.eqb w q)) then
  match d_find v laplacian with None => PyExn tt | Some t1_ =>
  match d_find v reduced_matrix with None => PyExn tt | Some t2_ =>
  let reduced_matrix := d_set v (d_set w (d_get w 0 t1_) t2_) reduced_matrix in
  PyOk reduced_matrix end end
  else
  PyOk reduced_matrix end) (set_order vertices) (PyOk reduced_matrix) with PyExn e_ => PyExn e_ | PyOk reduced_matrix =>
  PyOk reduced_matrix end
  else
  PyOk reduced_matrix end) (set_order vertices) (PyOk reduced_matrix) with PyExn e_ => PyExn e_ | PyOk reduced_matrix =>
  PyOk (reduced_matrix) end.
