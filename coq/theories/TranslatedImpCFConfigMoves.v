(* GENERATED on every run by tools/translate_imp.py from the current source in /repo. Do not edit. *)
From Coq Require Import ZArith List Bool Arith.
Import ListNotations.
From CF Require Import PyDict TranslatedImpCFDivisor.
Open Scope Z_scope.

(* chipfiring/CFConfig.py :: CFConfigMoves.__init__   reads [], writes ['self_q_vertex', 'self_v_tilde_vertices'], may raise *)
Definition CFConfigMoves___init__ (divisor_graph_vertices : list nat) (divisor_degrees : dictZ) (q_name : nat) : pyres (nat * list nat) (nat * list nat) :=
  let self_v_tilde_vertices := (@nil nat) in
  let self_q_vertex := 0%nat in
  let q_vertex_candidate := q_name in
  if (negb (s_mem q_vertex_candidate divisor_graph_vertices)) then
  PyExn (self_q_vertex, self_v_tilde_vertices)
  else
  let self_q_vertex := q_vertex_candidate in
  let self_v_tilde_vertices := (filter (fun x_ => negb (Nat.eqb x_ self_q_vertex)) divisor_graph_vertices) in
  PyOk (self_q_vertex, self_v_tilde_vertices).

(* chipfiring/CFConfig.py :: CFConfigMoves.get_degree_at   reads ['self_q_vertex', 'self_v_tilde_vertices', 'self_divisor_degrees'], writes [], may raise *)
Definition CFConfigMoves_get_degree_at (self_q_vertex : nat) (self_v_tilde_vertices : list nat) (self_divisor_degrees : dictZ) (vertex_name : nat) : pyres (unit) Z :=
  let v := vertex_name in
  if (Nat.eqb v self_q_vertex) then
  PyExn tt
  else
  if (negb (s_mem v self_v_tilde_vertices)) then
  PyExn tt
  else
  match CFDivisor_get_degree self_divisor_degrees vertex_name with PyExn _ => PyExn tt | PyOk t1_ =>
  PyOk (t1_) end.

(* chipfiring/CFConfig.py :: CFConfigMoves.is_non_negative   reads ['self_v_tilde_vertices', 'self_q_vertex', 'self_divisor_degrees'], writes [], may raise *)
Definition CFConfigMoves_is_non_negative (self_v_tilde_vertices : list nat) (self_q_vertex : nat) (self_divisor_degrees : dictZ) (set_order : list nat -> list nat) : pyres (unit) bool :=
  match fold_left (fun acc_ v_node => match acc_ with PyExn e_ => PyExn e_ | PyOk (Some r_, tt) => PyOk (Some r_, tt) | PyOk (None, tt) => 
  match CFConfigMoves_get_degree_at self_q_vertex self_v_tilde_vertices self_divisor_degrees v_node with PyExn _ => PyExn tt | PyOk t1_ =>
  if (t1_ <? 0) then
  PyOk (Some (false), tt)
  else
  PyOk (None, tt) end end) (set_order self_v_tilde_vertices) (PyOk (None, tt)) with PyExn e_ => PyExn e_ | PyOk (Some r_, tt) => PyOk (r_) | PyOk (None, tt) =>
  PyOk (true) end.

(* chipfiring/CFConfig.py :: CFConfigMoves.get_degree_sum   reads ['self_v_tilde_vertices', 'self_q_vertex', 'self_divisor_degrees'], writes [], may raise *)
Definition CFConfigMoves_get_degree_sum (self_v_tilde_vertices : list nat) (self_q_vertex : nat) (self_divisor_degrees : dictZ) (set_order : list nat -> list nat) : pyres (unit) Z :=
  let current_sum := 0 in
  match fold_left (fun acc_ v_node => match acc_ with PyExn e_ => PyExn e_ | PyOk current_sum => 
  match CFConfigMoves_get_degree_at self_q_vertex self_v_tilde_vertices self_divisor_degrees v_node with PyExn _ => PyExn tt | PyOk t1_ =>
  let current_sum := (current_sum + t1_) in
  PyOk current_sum end end) (set_order self_v_tilde_vertices) (PyOk current_sum) with PyExn e_ => PyExn e_ | PyOk current_sum =>
  PyOk (current_sum) end.

(* chipfiring/CFConfig.py :: CFConfigMoves.get_q_underlying_degree   reads ['self_divisor_degrees', 'self_q_vertex'], writes [], may raise *)
Definition CFConfigMoves_get_q_underlying_degree (self_divisor_degrees : dictZ) (self_q_vertex : nat) : pyres (unit) Z :=
  match CFDivisor_get_degree self_divisor_degrees self_q_vertex with PyExn _ => PyExn tt | PyOk t1_ =>
  PyOk (t1_) end.

(* chipfiring/CFConfig.py :: CFConfigMoves._is_comparable_to   reads ['self_q_vertex', 'self_graph_vertices', 'self_graph_graph'], writes [], may raise *)
Definition CFConfigMoves__is_comparable_to (self_q_vertex : nat) (self_graph_vertices : list nat) (self_graph_graph : dictD) (set_order : list nat -> list nat) (other_q_vertex : nat) (other_graph_vertices : list nat) (other_graph_graph : dictD) (other_v_tilde_vertices : list nat) (other_divisor_degrees : dictZ) : pyres (unit) bool :=
  if (negb (Nat.eqb self_q_vertex other_q_vertex)) then
  PyOk (false)
  else
  if (negb (set_eqb self_graph_vertices other_graph_vertices)) then
  PyOk (false)
  else
  match fold_left (fun acc_ v_node => match acc_ with PyExn e_ => PyExn e_ | PyOk (Some r_, tt) => PyOk (Some r_, tt) | PyOk (None, tt) => 
  let self_v_neighbors := (d_get v_node [] self_graph_graph) in
  let other_v_neighbors := (d_get v_node [] other_graph_graph) in
  if (negb (dict_eqb self_v_neighbors other_v_neighbors)) then
  PyOk (Some (false), tt)
  else
  PyOk (None, tt) end) (set_order self_graph_vertices) (PyOk (None, tt)) with PyExn e_ => PyExn e_ | PyOk (Some r_, tt) => PyOk (r_) | PyOk (None, tt) =>
  PyOk (true) end.

(* chipfiring/CFConfig.py :: CFConfigMoves.__eq__   reads ['self_q_vertex', 'self_graph_vertices', 'self_graph_graph', 'self_v_tilde_vertices', 'self_divisor_degrees'], writes [], may raise *)
Definition CFConfigMoves___eq__ (self_q_vertex : nat) (self_graph_vertices : list nat) (self_graph_graph : dictD) (self_v_tilde_vertices : list nat) (self_divisor_degrees : dictZ) (set_order : list nat -> list nat) (other_q_vertex : nat) (other_graph_vertices : list nat) (other_graph_graph : dictD) (other_v_tilde_vertices : list nat) (other_divisor_degrees : dictZ) : pyres (unit) bool :=
  match CFConfigMoves__is_comparable_to self_q_vertex self_graph_vertices self_graph_graph set_order other_q_vertex other_graph_vertices other_graph_graph other_v_tilde_vertices other_divisor_degrees with PyExn _ => PyExn tt | PyOk t1_ =>
  if (negb t1_) then
  PyOk (false)
  else
  match fold_left (fun acc_ v_node => match acc_ with PyExn e_ => PyExn e_ | PyOk (Some r_, tt) => PyOk (Some r_, tt) | PyOk (None, tt) => 
  match CFConfigMoves_get_degree_at self_q_vertex self_v_tilde_vertices self_divisor_degrees v_node with PyExn _ => PyExn tt | PyOk t2_ =>
  match CFConfigMoves_get_degree_at other_q_vertex other_v_tilde_vertices other_divisor_degrees v_node with PyExn _ => PyExn tt | PyOk t3_ =>
  if (negb (t2_ =? t3_)) then
  PyOk (Some (false), tt)
  else
  PyOk (None, tt) end end end) (set_order self_v_tilde_vertices) (PyOk (None, tt)) with PyExn e_ => PyExn e_ | PyOk (Some r_, tt) => PyOk (r_) | PyOk (None, tt) =>
  PyOk (true) end end.

(* chipfiring/CFConfig.py :: CFConfigMoves.__ge__   reads ['self_q_vertex', 'self_graph_vertices', 'self_graph_graph', 'self_v_tilde_vertices', 'self_divisor_degrees'], writes [], may raise *)
Definition CFConfigMoves___ge__ (self_q_vertex : nat) (self_graph_vertices : list nat) (self_graph_graph : dictD) (self_v_tilde_vertices : list nat) (self_divisor_degrees : dictZ) (set_order : list nat -> list nat) (other_q_vertex : nat) (other_graph_vertices : list nat) (other_graph_graph : dictD) (other_v_tilde_vertices : list nat) (other_divisor_degrees : dictZ) : pyres (unit) bool :=
  match CFConfigMoves__is_comparable_to self_q_vertex self_graph_vertices self_graph_graph set_order other_q_vertex other_graph_vertices other_graph_graph other_v_tilde_vertices other_divisor_degrees with PyExn _ => PyExn tt | PyOk t1_ =>
  if (negb t1_) then
  PyExn tt
  else
  match fold_left (fun acc_ v_node => match acc_ with PyExn e_ => PyExn e_ | PyOk (Some r_, tt) => PyOk (Some r_, tt) | PyOk (None, tt) => 
  match CFConfigMoves_get_degree_at self_q_vertex self_v_tilde_vertices self_divisor_degrees v_node with PyExn _ => PyExn tt | PyOk t2_ =>
  match CFConfigMoves_get_degree_at other_q_vertex other_v_tilde_vertices other_divisor_degrees v_node with PyExn _ => PyExn tt | PyOk t3_ =>
  if (t2_ <? t3_) then
  PyOk (Some (false), tt)
  else
  PyOk (None, tt) end end end) (set_order self_v_tilde_vertices) (PyOk (None, tt)) with PyExn e_ => PyExn e_ | PyOk (Some r_, tt) => PyOk (r_) | PyOk (None, tt) =>
  PyOk (true) end end.

(* chipfiring/CFConfig.py :: CFConfigMoves.__le__   reads ['self_q_vertex', 'self_graph_vertices', 'self_graph_graph', 'self_v_tilde_vertices', 'self_divisor_degrees'], writes [], may raise *)
Definition CFConfigMoves___le__ (self_q_vertex : nat) (self_graph_vertices : list nat) (self_graph_graph : dictD) (self_v_tilde_vertices : list nat) (self_divisor_degrees : dictZ) (set_order : list nat -> list nat) (other_q_vertex : nat) (other_graph_vertices : list nat) (other_graph_graph : dictD) (other_v_tilde_vertices : list nat) (other_divisor_degrees : dictZ) : pyres (unit) bool :=
  match CFConfigMoves__is_comparable_to self_q_vertex self_graph_vertices self_graph_graph set_order other_q_vertex other_graph_vertices other_graph_graph other_v_tilde_vertices other_divisor_degrees with PyExn _ => PyExn tt | PyOk t1_ =>
  if (negb t1_) then
  PyExn tt
  else
  match fold_left (fun acc_ v_node => match acc_ with PyExn e_ => PyExn e_ | PyOk (Some r_, tt) => PyOk (Some r_, tt) | PyOk (None, tt) => 
  match CFConfigMoves_get_degree_at self_q_vertex self_v_tilde_vertices self_divisor_degrees v_node with PyExn _ => PyExn tt | PyOk t2_ =>
  match CFConfigMoves_get_degree_at other_q_vertex other_v_tilde_vertices other_divisor_degrees v_node with PyExn _ => PyExn tt | PyOk t3_ =>
  if (t2_ >? t3_) then
  PyOk (Some (false), tt)
  else
  PyOk (None, tt) end end end) (set_order self_v_tilde_vertices) (PyOk (None, tt)) with PyExn e_ => PyExn e_ | PyOk (Some r_, tt) => PyOk (r_) | PyOk (None, tt) =>
  PyOk (true) end end.

(* chipfiring/CFConfig.py :: CFConfigMoves.set_fire   reads ['self_q_vertex', 'self_v_tilde_vertices', 'self_divisor_graph_graph', 'self_divisor_degrees'], writes ['self_divisor_degrees'], may raise *)
Definition CFConfigMoves_set_fire (self_q_vertex : nat) (self_v_tilde_vertices : list nat) (self_divisor_graph_graph : dictD) (self_divisor_degrees : dictZ) (set_order : list nat -> list nat) (S_vertex_names : list nat) : pyres (dictZ) (dictZ) :=
  match fold_left (fun acc_ name => match acc_ with PyExn e_ => PyExn e_ | PyOk tt => 
  let v := name in
  if (Nat.eqb v self_q_vertex) then
  PyExn self_divisor_degrees
  else
  if (negb (s_mem v self_v_tilde_vertices)) then
  PyExn self_divisor_degrees
  else
  PyOk tt end) (set_order S_vertex_names) (PyOk tt) with PyExn e_ => PyExn e_ | PyOk tt =>
  match CFDivisor_set_fire self_divisor_graph_graph self_divisor_degrees set_order S_vertex_names with PyExn self_divisor_degrees => PyExn self_divisor_degrees | PyOk self_divisor_degrees =>
  PyOk self_divisor_degrees end end.

(* chipfiring/CFConfig.py :: CFConfigMoves.lending_move   reads ['self_divisor_graph_graph', 'self_divisor_degrees'], writes ['self_divisor_degrees'], may raise *)
Definition CFConfigMoves_lending_move (self_divisor_graph_graph : dictD) (self_divisor_degrees : dictZ) (vertex_name : nat) : pyres (dictZ) (dictZ) :=
  match CFDivisor_lending_move self_divisor_graph_graph self_divisor_degrees vertex_name with PyExn self_divisor_degrees => PyExn self_divisor_degrees | PyOk self_divisor_degrees =>
  PyOk self_divisor_degrees end.

(* chipfiring/CFConfig.py :: CFConfigMoves.borrowing_move   reads ['self_divisor_graph_graph', 'self_divisor_degrees'], writes ['self_divisor_degrees'], may raise *)
Definition CFConfigMoves_borrowing_move (self_divisor_graph_graph : dictD) (self_divisor_degrees : dictZ) (vertex_name : nat) : pyres (dictZ) (dictZ) :=
  match CFDivisor_borrowing_move self_divisor_graph_graph self_divisor_degrees vertex_name with PyExn self_divisor_degrees => PyExn self_divisor_degrees | PyOk self_divisor_degrees =>
  PyOk self_divisor_degrees end.

(* chipfiring/CFConfig.py :: CFConfigMoves.is_legal_set_firing   reads ['self_q_vertex', 'self_v_tilde_vertices', 'self_graph_vertices', 'self_divisor_degrees', 'self_divisor_graph_graph'], writes [], may raise *)
Definition CFConfigMoves_is_legal_set_firing (self_q_vertex : nat) (self_v_tilde_vertices : list nat) (self_graph_vertices : list nat) (self_divisor_degrees : dictZ) (self_divisor_graph_graph : dictD) (set_order : list nat -> list nat) (S_names : list nat) : pyres (unit) bool :=
  if (match S_names with [] => true | _ :: _ => false end) then
  PyOk (false)
  else
  match fold_left (fun acc_ name => match acc_ with PyExn e_ => PyExn e_ | PyOk tt => 
  let v := name in
  if (Nat.eqb v self_q_vertex) then
  PyExn tt
  else
  if (negb (s_mem v self_v_tilde_vertices)) then
  PyExn tt
  else
  PyOk tt end) (set_order S_names) (PyOk tt) with PyExn e_ => PyExn e_ | PyOk tt =>
  match CFConfigMoves___init__ self_graph_vertices self_divisor_degrees self_q_vertex with PyExn _ => PyExn tt | PyOk (temp_config_copy_q_vertex, temp_config_copy_v_tilde_vertices) =>
  let temp_config_copy_divisor_degrees := self_divisor_degrees in
  match CFConfigMoves_set_fire temp_config_copy_q_vertex temp_config_copy_v_tilde_vertices self_divisor_graph_graph temp_config_copy_divisor_degrees set_order S_names with PyExn _ => PyExn tt | PyOk temp_config_copy_divisor_degrees =>
  match fold_left (fun acc_ v_name_in_S => match acc_ with PyExn e_ => PyExn e_ | PyOk (Some r_, tt) => PyOk (Some r_, tt) | PyOk (None, tt) => 
  match CFConfigMoves_get_degree_at temp_config_copy_q_vertex temp_config_copy_v_tilde_vertices temp_config_copy_divisor_degrees v_name_in_S with PyExn _ => PyExn tt | PyOk t1_ =>
  if (t1_ <? 0) then
  PyOk (Some (false), tt)
  else
  PyOk (None, tt) end end) (set_order S_names) (PyOk (None, tt)) with PyExn e_ => PyExn e_ | PyOk (Some r_, tt) => PyOk (r_) | PyOk (None, tt) =>
  PyOk (true) end end end end.

(* chipfiring/CFConfig.py :: CFConfigMoves.is_superstable   reads ['self_v_tilde_vertices', 'self_q_vertex', 'self_divisor_degrees', 'self_graph_vertices', 'self_divisor_graph_graph'], writes [], may raise *)
Definition CFConfigMoves_is_superstable (self_v_tilde_vertices : list nat) (self_q_vertex : nat) (self_divisor_degrees : dictZ) (self_graph_vertices : list nat) (self_divisor_graph_graph : dictD) (set_order : list nat -> list nat) : pyres (unit) bool :=
  match CFConfigMoves_is_non_negative self_v_tilde_vertices self_q_vertex self_divisor_degrees set_order with PyExn _ => PyExn tt | PyOk t1_ =>
  if (negb t1_) then
  PyOk (false)
  else
  let v_tilde_node_names := self_v_tilde_vertices in
  match fold_left (fun acc_ i => match acc_ with PyExn e_ => PyExn e_ | PyOk (Some r_, tt) => PyOk (Some r_, tt) | PyOk (None, tt) => 
  match fold_left (fun acc_ s_tuple => match acc_ with PyExn e_ => PyExn e_ | PyOk (Some r_, tt) => PyOk (Some r_, tt) | PyOk (None, tt) => 
  let S_names_subset := s_tuple in
  match CFConfigMoves_is_legal_set_firing self_q_vertex self_v_tilde_vertices self_graph_vertices self_divisor_degrees self_divisor_graph_graph set_order S_names_subset with PyExn _ => PyExn tt | PyOk t2_ =>
  if t2_ then
  PyOk (Some (false), tt)
  else
  PyOk (None, tt) end end) (combinations (set_order v_tilde_node_names) i) (PyOk (None, tt)) with PyExn e_ => PyExn e_ | PyOk (Some r_, tt) => PyOk (Some r_, tt) | PyOk (None, tt) =>
  PyOk (None, tt) end end) (seq 1 (length v_tilde_node_names)) (PyOk (None, tt)) with PyExn e_ => PyExn e_ | PyOk (Some r_, tt) => PyOk (r_) | PyOk (None, tt) =>
  PyOk (true) end end.

(* chipfiring/CFConfig.py :: CFConfigMoves.__lt__   reads ['self_q_vertex', 'self_graph_vertices', 'self_graph_graph', 'self_v_tilde_vertices', 'self_divisor_degrees'], writes [], may raise *)
Definition CFConfigMoves___lt__ (self_q_vertex : nat) (self_graph_vertices : list nat) (self_graph_graph : dictD) (self_v_tilde_vertices : list nat) (self_divisor_degrees : dictZ) (set_order : list nat -> list nat) (other_q_vertex : nat) (other_graph_vertices : list nat) (other_graph_graph : dictD) (other_v_tilde_vertices : list nat) (other_divisor_degrees : dictZ) : pyres (unit) bool :=
  match CFConfigMoves___le__ self_q_vertex self_graph_vertices self_graph_graph self_v_tilde_vertices self_divisor_degrees set_order other_q_vertex other_graph_vertices other_graph_graph other_v_tilde_vertices other_divisor_degrees with PyExn _ => PyExn tt | PyOk t1_ =>
  if t1_ then
  match CFConfigMoves___eq__ self_q_vertex self_graph_vertices self_graph_graph self_v_tilde_vertices self_divisor_degrees set_order other_q_vertex other_graph_vertices other_graph_graph other_v_tilde_vertices other_divisor_degrees with PyExn _ => PyExn tt | PyOk t2_ =>
  PyOk ((negb t2_)) end
  else
  PyOk (false) end.

(* chipfiring/CFConfig.py :: CFConfigMoves.__gt__   reads ['self_q_vertex', 'self_graph_vertices', 'self_graph_graph', 'self_v_tilde_vertices', 'self_divisor_degrees'], writes [], may raise *)
Definition CFConfigMoves___gt__ (self_q_vertex : nat) (self_graph_vertices : list nat) (self_graph_graph : dictD) (self_v_tilde_vertices : list nat) (self_divisor_degrees : dictZ) (set_order : list nat -> list nat) (other_q_vertex : nat) (other_graph_vertices : list nat) (other_graph_graph : dictD) (other_v_tilde_vertices : list nat) (other_divisor_degrees : dictZ) : pyres (unit) bool :=
  match CFConfigMoves___ge__ self_q_vertex self_graph_vertices self_graph_graph self_v_tilde_vertices self_divisor_degrees set_order other_q_vertex other_graph_vertices other_graph_graph other_v_tilde_vertices other_divisor_degrees with PyExn _ => PyExn tt | PyOk t1_ =>
  if t1_ then
  match CFConfigMoves___eq__ self_q_vertex self_graph_vertices self_graph_graph self_v_tilde_vertices self_divisor_degrees set_order other_q_vertex other_graph_vertices other_graph_graph other_v_tilde_vertices other_divisor_degrees with PyExn _ => PyExn tt | PyOk t2_ =>
  PyOk ((negb t2_)) end
  else
  PyOk (false) end.

(* chipfiring/CFConfig.py :: CFConfigMoves.get_q_vertex_name   reads ['self_q_vertex'], writes [] *)
Definition CFConfigMoves_get_q_vertex_name (self_q_vertex : nat) : nat :=
  (self_q_vertex).

(* chipfiring/CFConfig.py :: CFConfigMoves.get_v_tilde_names   reads ['self_v_tilde_vertices'], writes [] *)
Definition CFConfigMoves_get_v_tilde_names (self_v_tilde_vertices : list nat) : list nat :=
  (self_v_tilde_vertices).

(* chipfiring/CFConfig.py :: CFConfigMoves.get_config_degrees_as_dict   reads ['self_v_tilde_vertices', 'self_q_vertex', 'self_divisor_degrees'], writes [], may raise *)
Definition CFConfigMoves_get_config_degrees_as_dict (self_v_tilde_vertices : list nat) (self_q_vertex : nat) (self_divisor_degrees : dictZ) (set_order : list nat -> list nat) : pyres (unit) dictZ :=
  match (fold_left (fun acc_ v => match acc_ with PyExn e_ => PyExn e_ | PyOk d_ =>
  match CFConfigMoves_get_degree_at self_q_vertex self_v_tilde_vertices self_divisor_degrees v with PyExn _ => PyExn tt | PyOk t1_ =>
  PyOk (d_set v t1_ d_) end end) (set_order self_v_tilde_vertices) (PyOk (@nil (nat * Z)))) with PyExn _ => PyExn tt | PyOk t2_ =>
  PyOk (t2_) end.
