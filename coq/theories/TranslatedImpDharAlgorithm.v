(* GENERATED on every run by tools/translate_imp.py from the current source in /repo. Do not edit. *)
From Coq Require Import ZArith List Bool Arith.
Import ListNotations.
From CF Require Import PyDict.
Open Scope Z_scope.

(* chipfiring/CFDhar.py :: DharAlgorithm.outdegree_S   reads ['self_graph_graph'], writes [], may raise *)
Definition DharAlgorithm_outdegree_S (self_graph_graph : dictD) (vertex : nat) (S : list nat) : pyres (unit) Z :=
  if (negb (d_mem vertex self_graph_graph)) then
  PyOk (0)
  else
  match d_find vertex self_graph_graph with None => PyExn tt | Some t1_ =>
  match d_find vertex self_graph_graph with None => PyExn tt | Some t2_ =>
  PyOk ((fold_left (fun a_ neighbor => if (s_mem neighbor S) then (a_ + (d_get neighbor 0 t2_)) else a_) (d_keys t1_) 0)) end end.
