(* The mathematics of chip firing on a multigraph, independent of any algorithm.
   A multigraph is a duplicate-free vertex list V and a multiplicity function m
   (symmetric, non-negative, zero on the diagonal: hypotheses of the theorems, not baked in). *)
From Coq Require Import ZArith List Lia Bool Arith.
Import ListNotations.
From CF Require Import ZSum ListAux.
Open Scope Z_scope.

Definition divisor := nat -> Z.
Definition script := nat -> Z.

Section Defs.
Variable V : list nat.
Variable m : nat -> nat -> Z.

Definition val (v : nat) : Z := zsum (m v) V.
Definition nedges : Z := zsum (fun v => zsum (fun w => if Nat.ltb v w then m v w else 0) V) V.
Definition genus : Z := nedges - Z.of_nat (length V) + 1.
Definition lap (s : script) (v : nat) : Z := zsum (fun w => m v w * (s v - s w)) V.          (* (L s)(v) *)
Definition deg (D : divisor) : Z := zsum D V.
Definition lequiv (D E : divisor) : Prop := exists s, forall v, In v V -> E v = D v - lap s v.
Definition effective (D : divisor) : Prop := forall v, In v V -> 0 <= D v.
Definition winnable (D : divisor) : Prop := exists E, lequiv D E /\ effective E.
Definition outdeg (S : nat -> bool) (v : nat) : Z := zsum (fun w => if S w then 0 else m v w) V.
Definition legal (D : divisor) (S : nat -> bool) : Prop := forall v, In v V -> S v = true -> outdeg S v <= D v.
Definition nonempty (S : nat -> bool) : Prop := exists v, In v V /\ S v = true.
Definition reduced (q : nat) (D : divisor) : Prop :=
  (forall v, In v V -> v <> q -> 0 <= D v) /\
  (forall S, S q = false -> nonempty S -> ~ legal D S).
Definition superstable (q : nat) (D : divisor) : Prop := reduced q D.
Definition connected : Prop := forall S, nonempty S -> nonempty (fun v => negb (S v)) ->
  exists v w, In v V /\ In w V /\ S v = true /\ S w = false /\ 0 < m v w.
Definition rank_ge (D : divisor) (k : nat) : Prop :=
  forall E, effective E -> deg E = Z.of_nat k -> winnable (fun v => D v - E v).
Definition is_rank (D : divisor) (r : Z) : Prop :=
  (r = -1 /\ ~ winnable D) \/ (0 <= r /\ rank_ge D (Z.to_nat r) /\ ~ rank_ge D (S (Z.to_nat r))).
Definition is_gonality (k : nat) : Prop :=
  (exists D, effective D /\ deg D = Z.of_nat k /\ rank_ge D 1) /\
  (forall j D, (j < k)%nat -> effective D -> deg D = Z.of_nat j -> ~ rank_ge D 1).
Definition canonical (v : nat) : Z := val v - 2.

(* set firing as a function on divisors: fire every member of U once *)
Definition fire (U : nat -> bool) (D : divisor) : divisor := fun v =>
  if U v then D v - zsum (fun x => if U x then 0 else m v x) V
  else D v + zsum (fun u => if U u then m v u else 0) V.
Definition indicator (U : nat -> bool) : script := fun v => if U v then 1 else 0.
End Defs.

Record wf (V : list nat) (m : nat -> nat -> Z) : Prop := {
  wf_nodup : NoDup V;
  wf_nonneg : forall v w, 0 <= m v w;
  wf_sym : forall v w, m v w = m w v;
  wf_diag : forall v, m v v = 0 }.
