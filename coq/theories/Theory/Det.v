(* Determinants of integer matrices given as functions nat -> nat -> Z (row, column), by cofactor expansion along the first row:
   extensionality, linearity in every row, vanishing on two equal adjacent rows, invariance under adding a multiple of a row to an
   ADJACENT row (all that the lattice-index argument of Theory/LatticeIndex.v needs), vanishing on a zero first column, and the block form. *)
From Coq Require Import ZArith List Lia Bool Arith.
Import ListNotations.
From CF Require Import ZSum ListAux.
Open Scope Z_scope.

Definition sgn (j : nat) : Z := if Nat.even j then 1 else -1.
Definition skip (j c : nat) : nat := if Nat.ltb c j then c else S c.
Definition minor (M : nat -> nat -> Z) (j : nat) : nat -> nat -> Z := fun r c => M (S r) (skip j c).
Fixpoint fdet (n : nat) (M : nat -> nat -> Z) : Z :=
  match n with O => 1 | S k => zsum (fun j => sgn j * M O j * fdet k (minor M j)) (seq 0 (S k)) end.

Lemma sgn_S j : sgn (S j) = - sgn j.
Proof. unfold sgn. rewrite Nat.even_succ, <- Nat.negb_even. destruct (Nat.even j); reflexivity. Qed.
Lemma sgn_sq j : sgn j * sgn j = 1.
Proof. unfold sgn. destruct (Nat.even j); reflexivity. Qed.

Lemma skip_lt j c n : (j < S n)%nat -> (c < n)%nat -> (skip j c < S n)%nat.
Proof. unfold skip. destruct (Nat.ltb_spec c j); lia. Qed.

Lemma fdet_ext n : forall M M', (forall r c, (r < n)%nat -> (c < n)%nat -> M r c = M' r c) -> fdet n M = fdet n M'.
Proof. induction n as [|k IH]; intros M M' H; [reflexivity|]. cbn [fdet]. apply zsum_ext. intros j Hj. apply in_seq in Hj.
  rewrite (H O j) by lia. f_equal. apply IH. intros r c Hr Hc. unfold minor. apply H; [lia|]. apply skip_lt; lia. Qed.

(* ---- rows ---- *)
Definition setrow (M : nat -> nat -> Z) (i : nat) (v : nat -> Z) : nat -> nat -> Z := fun r => if Nat.eqb r i then v else M r.

Lemma minor_setrow_S M i v j r c : minor (setrow M (S i) v) j r c = setrow (minor M j) i (fun c => v (skip j c)) r c.
Proof. unfold minor, setrow. cbn [Nat.eqb]. destruct (Nat.eqb r i); reflexivity. Qed.
Lemma minor_setrow_0 M v j r c : minor (setrow M O v) j r c = minor M j r c.
Proof. reflexivity. Qed.

Lemma fdet_linear n : forall M i u v a b, (i < n)%nat ->
  fdet n (setrow M i (fun c => a * u c + b * v c)) = a * fdet n (setrow M i u) + b * fdet n (setrow M i v).
Proof. induction n as [|k IH]; intros M i u v a b Hi; [lia|]. cbn [fdet]. rewrite <- !zsum_scale, <- zsum_add. apply zsum_ext. intros j Hj.
  destruct i as [|i].
  - rewrite (fdet_ext k (minor (setrow M O (fun c => a * u c + b * v c)) j) (minor M j)) by (intros; apply minor_setrow_0).
    rewrite (fdet_ext k (minor (setrow M O u) j) (minor M j)) by (intros; apply minor_setrow_0).
    rewrite (fdet_ext k (minor (setrow M O v) j) (minor M j)) by (intros; apply minor_setrow_0). unfold setrow. cbn [Nat.eqb]. ring.
  - rewrite (fdet_ext k (minor (setrow M (S i) (fun c => a * u c + b * v c)) j) (setrow (minor M j) i (fun c => a * u (skip j c) + b * v (skip j c))))
      by (intros; apply minor_setrow_S).
    rewrite (fdet_ext k (minor (setrow M (S i) u) j) (setrow (minor M j) i (fun c => u (skip j c)))) by (intros; apply minor_setrow_S).
    rewrite (fdet_ext k (minor (setrow M (S i) v) j) (setrow (minor M j) i (fun c => v (skip j c)))) by (intros; apply minor_setrow_S).
    rewrite (IH (minor M j) i (fun c => u (skip j c)) (fun c => v (skip j c)) a b) by lia. unfold setrow. cbn [Nat.eqb]. ring. Qed.

(* ---- the triangular cancellation behind the double expansion ---- *)
Lemma zsum_seq_S (f : nat -> Z) n : zsum f (seq 0 (S n)) = zsum f (seq 0 n) + f n.
Proof. rewrite seq_S, zsum_app. cbn. lia. Qed.

Lemma tri_cancel n : forall G : nat -> nat -> Z, (forall j l, (j <= l)%nat -> (l < n)%nat -> G j l = - G (S l) j) ->
  zsum (fun j => zsum (fun l => G j l) (seq 0 n)) (seq 0 (S n)) = 0.
Proof. induction n as [|n IH]; intros G H; [cbn; lia|].
  rewrite zsum_seq_S. rewrite (zsum_ext _ (fun j => zsum (fun l => G j l) (seq 0 n) + G j n)) by (intros; apply zsum_seq_S).
  rewrite zsum_add, IH by (intros; apply H; lia). rewrite (zsum_seq_S (fun l => G (S n) l)).
  rewrite (zsum_ext (fun j => G j n) (fun j => - G (S n) j)) by (intros j Hj; apply in_seq in Hj; apply H; lia). rewrite zsum_opp.
  rewrite (zsum_seq_S (fun j => G (S n) j)). lia. Qed.

Lemma skip_skip j l c : (j <= l)%nat -> skip j (skip l c) = skip (S l) (skip j c).
Proof. intros H. unfold skip. destruct (Nat.ltb_spec c l), (Nat.ltb_spec c j); try lia.
  - destruct (Nat.ltb_spec c j), (Nat.ltb_spec c (S l)); lia.
  - destruct (Nat.ltb_spec c j); try lia. destruct (Nat.ltb_spec (S c) (S l)); lia.
  - destruct (Nat.ltb_spec (S c) j); try lia. destruct (Nat.ltb_spec (S c) (S l)); lia. Qed.

(* two equal adjacent rows: the determinant vanishes *)
Lemma fdet_adj_equal n : forall M i, (S i < n)%nat -> (forall c, (c < n)%nat -> M i c = M (S i) c) -> fdet n M = 0.
Proof. induction n as [|k IH]; intros M i Hi Heq; [lia|]. destruct i as [|i].
  - destruct k as [|k]; [lia|]. cbn [fdet].
    rewrite (zsum_ext _ (fun j => zsum (fun l => sgn j * sgn l * M O j * M O (skip j l) * fdet k (minor (minor M j) l)) (seq 0 (S k)))).
    + apply tri_cancel. intros j l Hjl Hl. rewrite sgn_S.
      assert (E1 : skip j l = S l) by (unfold skip; destruct (Nat.ltb_spec l j); lia).
      assert (E2 : skip (S l) j = j) by (unfold skip; destruct (Nat.ltb_spec j (S l)); lia). rewrite E1, E2.
      rewrite (fdet_ext k (minor (minor M (S l)) j) (minor (minor M j) l)).
      * ring.
      * intros r c _ _. unfold minor. f_equal. symmetry. apply skip_skip. exact Hjl.
    + intros j Hj. apply in_seq in Hj. rewrite <- zsum_scale. apply zsum_ext. intros l Hl. apply in_seq in Hl.
      unfold minor at 1. rewrite <- (Heq (skip j l)) by (apply skip_lt; lia). ring.
  - cbn [fdet]. rewrite (zsum_ext _ (fun _ => 0)), zsum_zero; [reflexivity|]. intros j Hj. apply in_seq in Hj.
    rewrite (IH (minor M j) i); [ring|lia|]. intros c Hc. unfold minor. apply Heq. apply skip_lt; lia. Qed.

(* adding a multiple of a row to an adjacent row leaves the determinant unchanged *)
Definition addrow (M : nat -> nat -> Z) (src dst : nat) (k : Z) : nat -> nat -> Z :=
  fun r => if Nat.eqb r dst then (fun c => M dst c + k * M src c) else M r.

Lemma fdet_addrow_adj n M src dst k : (src < n)%nat -> (dst < n)%nat -> (src = S dst \/ dst = S src) -> fdet n (addrow M src dst k) = fdet n M.
Proof. intros Hs Hd Hadj.
  rewrite (fdet_ext n (addrow M src dst k) (setrow M dst (fun c => 1 * M dst c + k * M src c))).
  2:{ intros r c _ _. unfold addrow, setrow. destruct (Nat.eqb r dst); [ring|reflexivity]. }
  rewrite fdet_linear by exact Hd.
  rewrite (fdet_ext n (setrow M dst (M dst)) M).
  2:{ intros r c _ _. unfold setrow. destruct (Nat.eqb_spec r dst) as [Q|Q]; [rewrite Q|]; reflexivity. }
  assert (Z0 : fdet n (setrow M dst (M src)) = 0).
  { destruct Hadj as [Q|Q].
    - apply (fdet_adj_equal n _ dst); [lia|]. intros c _. unfold setrow. rewrite Nat.eqb_refl.
      destruct (Nat.eqb_spec (S dst) dst) as [Q'|Q']; [lia|]. rewrite Q. reflexivity.
    - apply (fdet_adj_equal n _ src); [lia|]. intros c _. unfold setrow. rewrite <- Q, Nat.eqb_refl.
      destruct (Nat.eqb_spec src dst) as [Q'|Q']; [lia|]. reflexivity. }
  rewrite Z0. ring. Qed.

(* a zero first column *)
Lemma fdet_zero_col n : forall M, (0 < n)%nat -> (forall r, (r < n)%nat -> M r O = 0) -> fdet n M = 0.
Proof. induction n as [|k IH]; intros M Hn H0; [lia|]. cbn [fdet]. rewrite (zsum_ext _ (fun _ => 0)), zsum_zero; [reflexivity|].
  intros j Hj. apply in_seq in Hj. destruct j as [|j]; [rewrite (H0 O) by lia; ring|].
  destruct k as [|k]; [lia|]. rewrite (IH (minor M (S j))); [ring|lia|]. intros r Hr. unfold minor, skip. cbn. apply H0. lia. Qed.

(* block form: if every row below the first starts with 0, det M = M00 * det (M without row 0 and column 0) *)
Lemma fdet_block n M : (forall r, (r < n)%nat -> M (S r) O = 0) -> fdet (S n) M = M O O * fdet n (minor M O).
Proof. intros H0. cbn [fdet]. rewrite <- cons_seq, <- seq_shift. cbn [zsum]. rewrite zsum_map.
  rewrite (zsum_ext _ (fun _ => 0)), zsum_zero; [change (sgn 0) with 1; ring|]. intros j Hj. apply in_seq in Hj.
  destruct n as [|n]; [lia|]. rewrite (fdet_zero_col (S n) (minor M (S j))); [ring|lia|]. intros r Hr. unfold minor, skip. cbn. apply H0. exact Hr. Qed.
