(* q-reduced divisors: the arg-max argument. Dominance, unwinnability certificate, uniqueness; acyclic orientations. *)
From Coq Require Import ZArith List Lia Bool Arith.
Import ListNotations.
From CF Require Import ZSum ListAux Defs LinEquiv.
Open Scope Z_scope.

Section G.
Variable V : list nat.
Variable m : nat -> nat -> Z.
Hypothesis m_nonneg : forall v w, 0 <= m v w.
Hypothesis m_sym : forall v w, m v w = m w v.
Local Notation lap := (lap V m).
Local Notation lequiv := (lequiv V m).
Local Notation winnable := (winnable V m).
Local Notation outdeg := (outdeg V m).
Local Notation legal := (legal V m).
Local Notation reduced := (reduced V m).

Lemma reduced_sink_is_max q D sigma :
  In q V -> reduced q D ->
  (forall v, In v V -> v <> q -> 0 <= D v - lap sigma v) ->
  forall v, In v V -> sigma v <= sigma q.
Proof.
  intros Hq [Hnn Hnl] Heff.
  destruct (max_exists V sigma) as [vm [Hvm HM]]. { intro E; rewrite E in Hq; destruct Hq. }
  set (M := sigma vm). set (S := fun v => Z.eqb (sigma v) M).
  destruct (S q) eqn:Sq.
  - unfold S in Sq. apply Z.eqb_eq in Sq. intros v Hv. specialize (HM v Hv). unfold M in Sq. lia.
  - exfalso. apply (Hnl S Sq). { exists vm. split; auto. unfold S, M. apply Z.eqb_refl. }
    intros v Hv HS. assert (v <> q) by (intro; subst; congruence).
    specialize (Heff v Hv H).
    assert (outdeg S v <= lap sigma v); [|lia].
    unfold Defs.outdeg, Defs.lap. apply zsum_le. intros w Hw. unfold S in *. apply Z.eqb_eq in HS.
    destruct (Z.eqb_spec (sigma w) M) as [e|n].
    + rewrite HS, e. lia.
    + pose proof (HM w Hw) as HMw. pose proof (m_nonneg v w). fold M in HMw. nia.
Qed.

Theorem reduced_dominates q D sigma :
  In q V -> reduced q D -> (forall v, In v V -> 0 <= D v - lap sigma v) -> 0 <= D q.
Proof.
  intros Hq Hr Heff. pose proof (reduced_sink_is_max q D sigma Hq Hr (fun v Hv _ => Heff v Hv)) as Hmax.
  assert (0 <= lap sigma q). { unfold Defs.lap. apply zsum_nonneg. intros w Hw. specialize (Hmax w Hw). pose proof (m_nonneg q w). nia. }
  specialize (Heff q Hq). lia.
Qed.

Theorem reduced_unwinnable q D : In q V -> reduced q D -> D q < 0 -> ~ winnable D.
Proof. intros Hq Hr Hneg [E [[s Hs] Heff]].
  assert (0 <= D q); [|lia]. apply (reduced_dominates q D s Hq Hr). intros v Hv. rewrite <- (Hs v Hv). auto. Qed.

Theorem reduced_winnable_iff q D : In q V -> reduced q D -> (winnable D <-> 0 <= D q).
Proof. intros Hq Hr. split.
  - intros Hw. destruct (Z_lt_le_dec (D q) 0); auto. exfalso. eapply reduced_unwinnable; eauto.
  - intros H. apply effective_winnable. intros v Hv. destruct (Nat.eq_dec v q) as [->|Hne]; auto. destruct Hr as [Hr _]. auto. Qed.

Theorem reduced_unique q D E : In q V -> reduced q D -> reduced q E -> lequiv D E -> forall v, In v V -> D v = E v.
Proof.
  intros Hq HD HE [s Hs] v Hv.
  assert (H1 : forall w, In w V -> s w <= s q).
  { apply (reduced_sink_is_max q D s Hq HD). intros w Hw Hne. rewrite <- (Hs w Hw). destruct HE as [HE _]. auto. }
  assert (H2 : forall w, In w V -> - s w <= - s q).
  { apply (reduced_sink_is_max q E (fun x => - s x) Hq HE). intros w Hw Hne. rewrite lap_neg, (Hs w Hw).
    destruct HD as [HD _]. specialize (HD w Hw Hne). lia. }
  assert (Hc : forall w, In w V -> s w = s q). { intros w Hw. specialize (H1 w Hw). specialize (H2 w Hw). lia. }
  rewrite (Hs v Hv). rewrite (lap_ext V m s (fun _ => s q) v Hc Hv), lap_const. lia.
Qed.

Lemma reduced_ext q D E : (forall v, In v V -> D v = E v) -> reduced q D -> reduced q E.
Proof. intros H [H1 H2]. split.
  - intros v Hv Hne. rewrite <- (H v Hv). auto.
  - intros S Sq Hne HL. apply (H2 S Sq Hne). intros v Hv HS. rewrite (H v Hv). auto. Qed.

(* --- acyclic orientations given by a position function: w -> v iff pos w < pos v --- *)
Section Acyclic.
Variable pos : nat -> nat.
Definition indeg_pos v := zsum (fun w => if Nat.ltb (pos w) (pos v) then m v w else 0) V.
Definition orient_div v := indeg_pos v - 1.

Theorem acyclic_unwinnable : V <> [] -> ~ winnable orient_div.
Proof.
  intros Hne [E [[s Hs] Heff]].
  destruct (max_exists V s Hne) as [vm [Hvm HM]].
  set (S := fun v => Z.eqb (s v) (s vm)).
  destruct (min_pos V S pos) as [u [Hu [HSu Hmin]]]. { exists vm. split; auto. unfold S. apply Z.eqb_refl. }
  specialize (Heff u Hu). rewrite (Hs u Hu) in Heff. unfold orient_div in Heff.
  assert (indeg_pos u <= lap s u); [|lia].
  unfold indeg_pos, Defs.lap. apply zsum_le. intros w Hw. pose proof (m_nonneg u w). pose proof (HM w Hw) as HMw.
  unfold S in HSu. apply Z.eqb_eq in HSu.
  destruct (Nat.ltb_spec (pos w) (pos u)).
  - assert (HSw : S w = false). { destruct (S w) eqn:E'; auto. specialize (Hmin w Hw E'). lia. }
    unfold S in HSw. apply Z.eqb_neq in HSw. nia.
  - nia.
Qed.
(* any divisor dominated by an acyclic orientation divisor is unwinnable *)
Theorem dominated_unwinnable D : V <> [] -> (forall v, In v V -> D v <= orient_div v) -> ~ winnable D.
Proof. intros Hne Hdom Hw. apply (acyclic_unwinnable Hne).
  apply (winnable_ext V m (fun v => D v + (orient_div v - D v))); [intros; lia|].
  apply winnable_mono; auto. intros v Hv. specialize (Hdom v Hv). lia. Qed.
End Acyclic.
End G.
