(* Greedy borrowing: any two successful greedy runs borrow the same number of times at every vertex (the script is unique),
   and an unfinished greedy run is strictly shorter than every winning non-negative borrowing vector. *)
From Coq Require Import ZArith List Lia Bool Arith.
Import ListNotations.
From CF Require Import ZSum ListAux Defs.
Open Scope Z_scope.

Fixpoint counts (l : list nat) (v : nat) : Z :=
  match l with [] => 0 | x :: t => (if Nat.eqb x v then 1 else 0) + counts t v end.
Lemma counts_app l l' v : counts (l ++ l') v = counts l v + counts l' v.
Proof. induction l; cbn; lia. Qed.
Lemma counts_nonneg l v : 0 <= counts l v.
Proof. induction l; cbn; [lia|]. destruct (Nat.eqb a v); lia. Qed.
Lemma counts_total l V : NoDup V -> (forall v, In v l -> In v V) -> zsum (counts l) V = Z.of_nat (length l).
Proof. intros HN. induction l as [|a t IH]; intros Hl; cbn [counts length]; [apply zsum_zero|].
  rewrite zsum_add, IH by (intros; apply Hl; now right). rewrite (zsum_ext _ (fun v => if Nat.eqb v a then 1 else 0)) by (intros; now rewrite Nat.eqb_sym).
  rewrite zsum_indicator; auto; [lia|apply Hl; now left]. Qed.

Section Gr.
Variable V : list nat.
Variable m : nat -> nat -> Z.
Hypothesis m_nonneg : forall v w, 0 <= m v w.
Variable D : nat -> Z.
Local Notation lap := (lap V m).
(* divisor after borrowing b(v) times at each v *)
Definition after (b : nat -> Z) v := D v + lap b v.
Local Notation effective := (effective V).

(* a greedy run: each borrowing vertex is in debt at the moment it borrows *)
Inductive greedy_run : list nat -> Prop :=
| gr0 : greedy_run []
| gr1 l v : greedy_run l -> In v V -> after (counts l) v < 0 -> greedy_run (l ++ [v]).

Lemma greedy_dominated l c :
  greedy_run l -> (forall v, In v V -> 0 <= c v) -> effective (after c) ->
  forall v, In v V -> counts l v <= c v.
Proof.
  intros Hr Hc Heff. induction Hr as [|l v Hr IH Hv Hdebt]; intros w Hw.
  - cbn. auto.
  - rewrite counts_app. cbn. destruct (Nat.eqb_spec v w) as [->|Hne]; [|specialize (IH w Hw); lia].
    specialize (IH w Hw) as IHw. destruct (Z.eq_dec (counts l w) (c w)) as [E|]; [|lia].
    exfalso. specialize (Heff w Hw). unfold after in *.
    assert (lap c w <= lap (counts l) w); [|lia].
    unfold Defs.lap. apply zsum_le. intros x Hx. specialize (IH x Hx). pose proof (m_nonneg w x). rewrite E. nia.
Qed.

Theorem greedy_script_unique l1 l2 :
  greedy_run l1 -> greedy_run l2 -> effective (after (counts l1)) -> effective (after (counts l2)) ->
  forall v, In v V -> counts l1 v = counts l2 v.
Proof.
  intros R1 R2 E1 E2 v Hv.
  pose proof (greedy_dominated l1 (counts l2) R1 (fun v _ => counts_nonneg l2 v) E2 v Hv).
  pose proof (greedy_dominated l2 (counts l1) R2 (fun v _ => counts_nonneg l1 v) E1 v Hv). lia.
Qed.

Theorem unfinished_run_shorter l c :
  greedy_run l -> ~ effective (after (counts l)) -> (forall v, In v V -> 0 <= c v) -> effective (after c) ->
  zsum (counts l) V < zsum c V.
Proof.
  intros Hr Hne Hc Heff. pose proof (greedy_dominated l c Hr Hc Heff) as Hdom.
  destruct (existsb (fun v => counts l v <? c v) V) eqn:Ex.
  - apply existsb_exists in Ex. destruct Ex as [x [Hx Hlt]]. apply Z.ltb_lt in Hlt. eapply zsum_lt_one; eauto.
  - exfalso. apply Hne. intros v Hv.
    assert (H : forall w, In w V -> counts l w = c w).
    { intros w Hw. specialize (Hdom w Hw). destruct (Z.ltb_spec (counts l w) (c w)); [|lia].
      assert (existsb (fun v => counts l v <? c v) V = true) by (apply existsb_exists; exists w; split; auto; now apply Z.ltb_lt). congruence. }
    specialize (Heff v Hv). unfold after in *. assert (lap (counts l) v = lap c v); [|lia].
    unfold Defs.lap. apply zsum_ext. intros x Hx. rewrite (H v Hv), (H x Hx). reflexivity.
Qed.
End Gr.
