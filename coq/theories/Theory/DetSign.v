(* The sign of the determinant of a weakly diagonally dominant Z-matrix (off-diagonal entries <= 0, row sums >= 0) is never negative:
   one step of fraction-free Gaussian elimination, a^k det M = a det S with S the (scaled) Schur complement, stays inside the class.
   Reduced Laplacians of multigraphs are in the class, so with Theory/LatticeIndex.v their determinant is positive. *)
From Coq Require Import ZArith List Lia Bool Arith.
Import ListNotations.
From CF Require Import ZSum ListAux Det.
Open Scope Z_scope.

(* ---- two equal rows, at any distance ---- *)
Lemma setrow_comm n M i j u v : i <> j -> fdet n (setrow (setrow M i u) j v) = fdet n (setrow (setrow M j v) i u).
Proof. intros Hne. apply fdet_ext. intros r c _ _. unfold setrow. destruct (Nat.eqb_spec r j) as [Q|Q], (Nat.eqb_spec r i) as [Q'|Q']; try reflexivity. lia. Qed.
Lemma setrow_same n M i u : (forall c, (c < n)%nat -> u c = M i c) -> fdet n (setrow M i u) = fdet n M.
Proof. intros H. apply fdet_ext. intros r c _ Hc. unfold setrow. destruct (Nat.eqb_spec r i) as [Q|Q]; [rewrite Q; apply H; exact Hc|reflexivity]. Qed.

Lemma fdet_equal_rows n : forall d i M, (i + S d < n)%nat -> (forall c, (c < n)%nat -> M i c = M (i + S d)%nat c) -> fdet n M = 0.
Proof. induction d as [|d IH]; intros i M Hlt Heq.
  - apply (fdet_adj_equal n M i); [lia|]. intros c Hc. rewrite (Heq c Hc). f_equal. lia.
  - set (p := (i + S d)%nat). set (j := S p). assert (Ej : (i + S (S d))%nat = j) by (unfold j, p; lia). rewrite Ej in *.
    set (a := M p). set (b := M j). set (ab := fun c => 1 * a c + 1 * b c).
    assert (W : fdet n (setrow (setrow M p ab) j ab) = 0).
    { apply (fdet_adj_equal n _ p); [unfold j in Hlt; lia|]. intros c _. unfold setrow. fold j. rewrite !Nat.eqb_refl.
      destruct (Nat.eqb_spec p j) as [Q|Q]; [unfold j in Q; lia|]. reflexivity. }
    unfold ab in W at 2. rewrite fdet_linear in W by lia.
    rewrite (setrow_comm n M p j ab a) in W by (unfold j; lia). rewrite (setrow_comm n M p j ab b) in W by (unfold j; lia).
    unfold ab in W. rewrite !fdet_linear in W by (unfold j in Hlt; lia).
    assert (T1 : fdet n (setrow (setrow M j a) p a) = 0).
    { apply (fdet_adj_equal n _ p); [unfold j in Hlt; lia|]. intros c _. unfold setrow. fold j. rewrite !Nat.eqb_refl.
      destruct (Nat.eqb_spec j p) as [Q|Q]; [unfold j in Q; lia|]. reflexivity. }
    assert (T2 : fdet n (setrow (setrow M j a) p b) = 0).
    { apply (IH i); [unfold j in Hlt; lia|]. fold p. intros c Hc. unfold setrow. rewrite Nat.eqb_refl.
      destruct (Nat.eqb_spec i p) as [Q|Q]; [unfold p in Q; lia|]. destruct (Nat.eqb_spec i j) as [Q'|Q']; [unfold j, p in Q'; lia|]. unfold b. apply Heq. exact Hc. }
    assert (T3 : fdet n (setrow (setrow M j b) p a) = fdet n M).
    { rewrite setrow_same; [apply setrow_same; reflexivity|]. intros c _. unfold setrow. destruct (Nat.eqb_spec p j) as [Q|Q]; [unfold j in Q; lia|]. reflexivity. }
    assert (T4 : fdet n (setrow (setrow M j b) p b) = 0).
    { apply (fdet_adj_equal n _ p); [unfold j in Hlt; lia|]. intros c _. unfold setrow. fold j. rewrite !Nat.eqb_refl.
      destruct (Nat.eqb_spec j p) as [Q|Q]; [unfold j in Q; lia|]. reflexivity. }
    rewrite T1, T2, T3, T4 in W. lia. Qed.

(* ---- one elimination step ---- *)
Definition schur (M : nat -> nat -> Z) : nat -> nat -> Z := fun r c => M O O * M (S r) (S c) - M (S r) O * M O (S c).
Definition elim (M : nat -> nat -> Z) (j : nat) : nat -> nat -> Z :=
  fun r => if (Nat.leb 1 r && Nat.leb r j)%bool then (fun c => M O O * M r c - M r O * M O c) else M r.

Lemma elim_in M j r : (1 <= r <= j)%nat -> elim M j r = fun c => M O O * M r c - M r O * M O c.
Proof. intros H. unfold elim. destruct (Nat.leb_spec 1 r), (Nat.leb_spec r j); try lia. reflexivity. Qed.
Lemma elim_out M j r : ~ (1 <= r <= j)%nat -> elim M j r = M r.
Proof. intros H. unfold elim. destruct (Nat.leb_spec 1 r), (Nat.leb_spec r j); try lia; reflexivity. Qed.

Lemma elim_det k M : forall j, (j <= k)%nat -> fdet (S k) (elim M j) = M O O ^ Z.of_nat j * fdet (S k) M.
Proof. induction j as [|j IH]; intros Hj.
  - rewrite Z.pow_0_r, Z.mul_1_l. apply fdet_ext. intros r c _ _. rewrite elim_out by lia. reflexivity.
  - rewrite Nat2Z.inj_succ, Z.pow_succ_r by lia. rewrite <- Z.mul_assoc, <- IH by lia.
    rewrite (fdet_ext (S k) (elim M (S j)) (setrow (elim M j) (S j) (fun c => M O O * elim M j (S j) c + (- M (S j) O) * elim M j O c))).
    + rewrite fdet_linear by lia. rewrite (setrow_same (S k) (elim M j) (S j)) by reflexivity.
      rewrite (fdet_equal_rows (S k) j O (setrow (elim M j) (S j) (elim M j O))); [ring|lia|]. intros c _. unfold setrow. cbn [Nat.eqb plus]. rewrite Nat.eqb_refl. reflexivity.
    + intros r c _ _. unfold setrow. destruct (Nat.eqb_spec r (S j)) as [Q|Q].
      * subst r. rewrite elim_in by lia. rewrite (elim_out M j (S j)) by lia. rewrite (elim_out M j O) by lia. ring.
      * destruct (Nat.le_gt_cases 1 r) as [A|A]; [destruct (Nat.le_gt_cases r j) as [B|B]|].
        -- rewrite !elim_in by lia. reflexivity.
        -- rewrite !elim_out by lia. reflexivity.
        -- rewrite !elim_out by lia. reflexivity. Qed.

Lemma elim_schur k M : M O O ^ Z.of_nat k * fdet (S k) M = M O O * fdet k (schur M).
Proof. rewrite <- (elim_det k M k) by lia. rewrite fdet_block.
  - rewrite (elim_out M k O) by lia. f_equal. apply fdet_ext. intros r c Hr Hc. unfold minor. rewrite elim_in by lia. reflexivity.
  - intros r Hr. rewrite elim_in by lia. ring. Qed.

(* ---- the class ---- *)
Definition zdd (n : nat) (M : nat -> nat -> Z) : Prop :=
  (forall r c, (r < n)%nat -> (c < n)%nat -> r <> c -> M r c <= 0) /\ (forall r, (r < n)%nat -> 0 <= zsum (fun c => M r c) (seq 0 n)).

Lemma zsum_seq_shift' (f : nat -> Z) k : zsum f (seq 0 (S k)) = f O + zsum (fun r => f (S r)) (seq 0 k).
Proof. rewrite <- cons_seq, <- seq_shift. cbn [zsum]. rewrite zsum_map. reflexivity. Qed.

Lemma zdd_schur k M : zdd (S k) M -> 0 < M O O -> zdd k (schur M).
Proof. intros [Hoff Hsum] Ha. split.
  - intros r c Hr Hc Hne. unfold schur. pose proof (Hoff (S r) (S c) ltac:(lia) ltac:(lia) ltac:(lia)). pose proof (Hoff (S r) O ltac:(lia) ltac:(lia) ltac:(lia)).
    pose proof (Hoff O (S c) ltac:(lia) ltac:(lia) ltac:(lia)). nia.
  - intros r Hr. unfold schur. rewrite zsum_sub, !zsum_scale.
    pose proof (Hsum (S r) ltac:(lia)) as H1. pose proof (Hsum O ltac:(lia)) as H0. rewrite zsum_seq_shift' in H1, H0.
    pose proof (Hoff (S r) O ltac:(lia) ltac:(lia) ltac:(lia)) as Hr0.
    set (X := zsum (fun c => M (S r) (S c)) (seq 0 k)) in *. set (Y := zsum (fun c => M O (S c)) (seq 0 k)) in *. nia. Qed.

Lemma zero_row_det k M : (forall c, (c < S k)%nat -> M O c = 0) -> fdet (S k) M = 0.
Proof. intros H. cbn [fdet]. rewrite (zsum_ext _ (fun _ => 0)), zsum_zero; [reflexivity|]. intros j Hj. apply in_seq in Hj. rewrite H by lia. ring. Qed.

Theorem zdd_det_nonneg n : forall M, zdd n M -> 0 <= fdet n M.
Proof. induction n as [|k IH]; intros M HM; [cbn; lia|]. destruct HM as [Hoff Hsum].
  pose proof (Hsum O ltac:(lia)) as H0. rewrite zsum_seq_shift' in H0.
  assert (Hneg : forall c, In c (seq 0 k) -> 0 <= - M O (S c)).
  { intros c Hc. apply in_seq in Hc. pose proof (Hoff O (S c) ltac:(lia) ltac:(lia) ltac:(lia)). lia. }
  pose proof (zsum_nonneg _ _ Hneg) as Hs. rewrite zsum_opp in Hs.
  destruct (Z.eq_dec (M O O) 0) as [Ha|Ha].
  - rewrite zero_row_det; [lia|]. intros c Hc. destruct c as [|c]; [exact Ha|].
    assert (E : zsum (fun c => - M O (S c)) (seq 0 k) = 0) by (rewrite zsum_opp; lia).
    assert (Hc' : In c (seq 0 k)) by (apply in_seq; lia).
    assert (Q : - M O (S c) = 0).
    { revert E Hneg Hc'. generalize (seq 0 k). intros l. induction l as [|x l IHl]; intros E Hn Hin; [destruct Hin|]. cbn [zsum] in E.
      assert (0 <= - M O (S x)) by (apply Hn; now left). assert (0 <= zsum (fun c => - M O (S c)) l) by (apply zsum_nonneg; intros; apply Hn; now right).
      destruct Hin as [->|Hin]; [lia|]. apply IHl; [lia|intros; apply Hn; now right|exact Hin]. }
    lia.
  - assert (Hpos : 0 < M O O) by lia. pose proof (IH (schur M) (zdd_schur k M (conj Hoff Hsum) Hpos)) as HS.
    pose proof (elim_schur k M) as E. assert (P : 0 < M O O ^ Z.of_nat k) by (apply Z.pow_pos_nonneg; lia).
    apply (Z.mul_nonneg_cancel_l _ _ P). rewrite E. nia. Qed.
