(* Degree bound for configurations whose burn consumes every vertex (superstables): deg off q <= |E| - (|V|-1) = g.
   Consequence: a q-reduced divisor of degree >= g has no debt at q. *)
From Coq Require Import ZArith List Lia Bool Arith Permutation.
Import ListNotations.
From CF Require Import ZSum ListAux Defs Burn.
Open Scope Z_scope.

Section Gen.
Variable V : list nat.
Variable m : nat -> nat -> Z.
Hypothesis V_nodup : NoDup V.
Hypothesis m_sym : forall v w, m v w = m w v.
Hypothesis m_diag : forall v, m v v = 0.
Variable q : nat.
Hypothesis q_in : In q V.
Variable D : nat -> Z.
Local Notation BurnSeq := (BurnSeq V m q D).
Local Notation edges_to := (edges_to V m).

Lemma filter_mem_perm (B : list nat) : NoDup B -> incl B V -> Permutation (filter (fun w => mem w B) V) B.
Proof. intros HB HI. apply NoDup_Permutation; auto. apply NoDup_filter; auto.
  intros x. rewrite filter_In, mem_In. split; [tauto|]. intros Hx. split; auto. Qed.
Lemma edges_to_sum v (B : list nat) : NoDup B -> incl B V -> edges_to v B = zsum (m v) B.
Proof. intros HB HI. unfold Burn.edges_to. rewrite <- (zsum_filter (m v) (fun w => mem w B)).
  apply zsum_perm. now apply filter_mem_perm. Qed.

Definition twice_edges (l : list nat) := zsum (fun v => zsum (m v) l) l.
Definition chips_off_q (l : list nat) := zsum (fun v => if Nat.eqb v q then 0 else D v + 1) l.

Lemma twice_edges_snoc B v : twice_edges (B ++ [v]) = twice_edges B + 2 * zsum (m v) B.
Proof.
  unfold twice_edges. rewrite zsum_app. cbn [zsum]. rewrite zsum_app. cbn [zsum]. rewrite m_diag.
  rewrite (zsum_ext (fun v0 => zsum (m v0) (B ++ [v])) (fun v0 => zsum (m v0) B + m v0 v)).
  - rewrite zsum_add. rewrite (zsum_ext (fun x => m x v) (m v)) by (intros; apply m_sym). lia.
  - intros x _. rewrite zsum_app. cbn [zsum]. lia.
Qed.

Lemma burn_counts B : BurnSeq B -> 2 * chips_off_q B <= twice_edges B.
Proof.
  induction 1 as [|B v HB IH Hv Hn Hlt].
  - unfold chips_off_q, twice_edges. cbn [zsum]. rewrite Nat.eqb_refl, m_diag. lia.
  - destruct (seq_facts V m q D q_in B HB) as [HN [HI Hq]].
    rewrite edges_to_sum in Hlt by auto.
    rewrite twice_edges_snoc. unfold chips_off_q in *. rewrite zsum_app. cbn [zsum].
    destruct (Nat.eqb_spec v q) as [->|]; [contradiction|]. lia.
Qed.

Lemma chips_off_q_total : chips_off_q V = zsum (fun v => if Nat.eqb v q then 0 else D v) V + (Z.of_nat (length V) - 1).
Proof. unfold chips_off_q. clear - V_nodup q_in.
  induction V as [|a l IH]; [destruct q_in|]. cbn [zsum length]. inversion V_nodup; subst.
  destruct (Nat.eqb_spec a q) as [->|Hne].
  - assert (Hl : forall l, ~ In q l -> zsum (fun v => if Nat.eqb v q then 0 else D v + 1) l = zsum (fun v => if Nat.eqb v q then 0 else D v) l + Z.of_nat (length l)).
    { clear. induction l as [|b l IH]; intros Hn; [reflexivity|]. cbn [zsum length]. destruct (Nat.eqb_spec b q). subst; exfalso; apply Hn; now left.
      rewrite IH by (intro; apply Hn; now right). lia. }
    rewrite Hl by auto. lia.
  - destruct q_in as [->|Hin]; [congruence|]. rewrite IH by auto. lia. Qed.

(* when the burn consumes every vertex *)
Theorem complete_burn_degree_bound B : BurnSeq B -> (forall v, In v V -> In v B) ->
  2 * (zsum (fun v => if Nat.eqb v q then 0 else D v) V) <= twice_edges V - 2 * (Z.of_nat (length V) - 1).
Proof.
  intros HB Hall. pose proof (burn_counts B HB) as H. destruct (seq_facts V m q D q_in B HB) as [HN [HI Hq]].
  assert (HP : Permutation B V) by (apply NoDup_Permutation; auto; intros x; split; auto).
  assert (E1 : twice_edges B = twice_edges V).
  { unfold twice_edges. rewrite (zsum_perm _ _ _ HP). apply zsum_ext. intros v _. apply zsum_perm; auto. }
  assert (E2 : chips_off_q B = chips_off_q V) by (apply zsum_perm; auto).
  rewrite E1, E2, chips_off_q_total in H. lia.
Qed.

(* twice_edges V = 2 * nedges *)
Lemma twice_edges_nedges : twice_edges V = 2 * nedges V m.
Proof. unfold twice_edges, nedges.
  assert (E : forall v, zsum (m v) V = zsum (fun w => if Nat.ltb v w then m v w else 0) V + zsum (fun w => if Nat.ltb w v then m v w else 0) V).
  { intros v. rewrite <- zsum_add. apply zsum_ext. intros w _. destruct (Nat.ltb_spec v w), (Nat.ltb_spec w v); try lia.
    assert (v = w) by lia. subst. rewrite m_diag. lia. }
  rewrite (zsum_ext _ _ V (fun v _ => E v)). rewrite zsum_add.
  rewrite (zsum_swap (fun v w => if Nat.ltb w v then m v w else 0)).
  rewrite (zsum_ext (fun b => zsum (fun a => if Nat.ltb b a then m a b else 0) V) (fun v => zsum (fun w => if Nat.ltb v w then m v w else 0) V)); [lia|].
  intros v _. apply zsum_ext. intros w _. rewrite (m_sym w v). reflexivity. Qed.

Lemma deg_split : deg V D = D q + zsum (fun v => if Nat.eqb v q then 0 else D v) V.
Proof. unfold deg. rewrite (zsum_split D (fun v => Nat.eqb v q)).
  rewrite (zsum_ext (fun x => if Nat.eqb x q then D x else 0) (fun x => if Nat.eqb x q then D q else 0)).
  - rewrite zsum_indicator by auto. reflexivity.
  - intros x _. destruct (Nat.eqb_spec x q); subst; reflexivity. Qed.

Hypothesis m_nonneg : forall v w, 0 <= m v w.
(* a q-reduced divisor of degree at least the genus is effective at q *)
Theorem reduced_deg_ge_genus : reduced V m q D -> genus V m <= deg V D -> 0 <= D q.
Proof. intros Hr Hg. pose proof Hr as [Hnn _].
  apply (burn_reduced_iff V m q D m_nonneg q_in Hnn) in Hr.
  pose proof (complete_burn_degree_bound _ (burn_seq V m q D) (burn_complete_all V m q D Hr)) as Hb.
  rewrite twice_edges_nedges in Hb. rewrite deg_split in Hg. unfold genus in Hg. lia. Qed.
End Gen.
