(* Renaming the vertices: every notion of the theory is carried along by a bijective relabelling pi (with left inverse rho on V). *)
From Coq Require Import ZArith List Lia Bool Arith.
Import ListNotations.
From CF Require Import ZSum ListAux Defs LinEquiv.
Open Scope Z_scope.

Section Ren.
Variable V : list nat.
Variable m m' : nat -> nat -> Z.
Variable pi rho : nat -> nat.
Hypothesis Hrho : forall v, In v V -> rho (pi v) = v.
Hypothesis Hm : forall v w, In v V -> In w V -> m' (pi v) (pi w) = m v w.
Let V' := map pi V.

Lemma in_V' v' : In v' V' -> exists v, In v V /\ v' = pi v.
Proof. unfold V'. rewrite in_map_iff. intros [v [E H]]. eauto. Qed.
Lemma rho_in v' : In v' V' -> In (rho v') V /\ pi (rho v') = v'.
Proof. intros H. destruct (in_V' v' H) as [v [Hv ->]]. rewrite Hrho; auto. Qed.
Lemma lap_rename s' v : In v V -> lap V' m' s' (pi v) = lap V m (fun x => s' (pi x)) v.
Proof. intros Hv. unfold lap, V'. rewrite zsum_map. apply zsum_ext. intros w Hw. now rewrite Hm. Qed.
Lemma deg_rename X' : deg V' X' = deg V (fun v => X' (pi v)).
Proof. unfold deg, V'. apply zsum_map. Qed.
Lemma effective_rename X' : effective V' X' <-> effective V (fun v => X' (pi v)).
Proof. split; intros H v Hv.
  - apply H. unfold V'. now apply in_map.
  - destruct (in_V' v Hv) as [x [Hx ->]]. now apply H. Qed.
Theorem lequiv_rename X' Y' : lequiv V' m' X' Y' <-> lequiv V m (fun v => X' (pi v)) (fun v => Y' (pi v)).
Proof. split.
  - intros [s' H]. exists (fun x => s' (pi x)). intros v Hv. rewrite <- lap_rename by auto. apply H. unfold V'. now apply in_map.
  - intros [s H]. exists (fun x' => s (rho x')). intros v' Hv'. destruct (in_V' v' Hv') as [v [Hv ->]]. rewrite lap_rename by auto.
    rewrite (lap_ext V m (fun x => s (rho (pi x))) s) by (auto; intros; now rewrite Hrho). now apply H. Qed.
Theorem winnable_rename X' : winnable V' m' X' <-> winnable V m (fun v => X' (pi v)).
Proof. split.
  - intros [E' [HE Heff]]. exists (fun v => E' (pi v)). split; [now apply lequiv_rename|now apply effective_rename].
  - intros [E [[s H] Heff]]. exists (fun v' => E (rho v')). split.
    + apply lequiv_rename. exists s. intros v Hv. rewrite Hrho by auto. now apply H.
    + apply effective_rename. intros v Hv. rewrite Hrho by auto. now apply Heff. Qed.
Theorem rank_ge_rename X' k : rank_ge V' m' X' k <-> rank_ge V m (fun v => X' (pi v)) k.
Proof. split.
  - intros H E Heff Hd. specialize (H (fun v' => E (rho v'))).
    assert (A : effective V' (fun v' => E (rho v'))) by (apply effective_rename; intros v Hv; rewrite Hrho by auto; now apply Heff).
    assert (B : deg V' (fun v' => E (rho v')) = Z.of_nat k) by (rewrite deg_rename; rewrite <- Hd; apply zsum_ext; intros v Hv; now rewrite Hrho).
    specialize (H A B). apply winnable_rename in H. eapply winnable_ext; [|exact H]. intros v Hv. cbv beta. now rewrite Hrho.
  - intros H E' Heff Hd. apply winnable_rename. apply (H (fun v => E' (pi v))); [now apply effective_rename|now rewrite <- deg_rename]. Qed.
Theorem is_rank_rename X' r : is_rank V' m' X' r <-> is_rank V m (fun v => X' (pi v)) r.
Proof. unfold is_rank. rewrite winnable_rename, !rank_ge_rename. tauto. Qed.
Theorem is_gonality_rename k : is_gonality V' m' k <-> is_gonality V m k.
Proof. unfold is_gonality. split; intros [[D [He [Hd Hr]]] Hmin]; split.
  - exists (fun v => D (pi v)). split; [now apply effective_rename|]. split; [now rewrite <- deg_rename|now apply rank_ge_rename].
  - intros j D0 Hj He0 Hd0 Hr0. apply (Hmin j (fun v' => D0 (rho v')) Hj).
    + apply effective_rename. intros v Hv. rewrite Hrho by auto. now apply He0.
    + rewrite deg_rename. rewrite <- Hd0. apply zsum_ext. intros v Hv. now rewrite Hrho.
    + apply rank_ge_rename. intros E Heff HdE. eapply winnable_ext; [|apply (Hr0 E Heff HdE)]. intros v Hv. cbv beta. now rewrite Hrho.
  - exists (fun v' => D (rho v')). split; [apply effective_rename; intros v Hv; rewrite Hrho by auto; now apply He|]. split.
    + rewrite deg_rename. rewrite <- Hd. apply zsum_ext. intros v Hv. now rewrite Hrho.
    + apply rank_ge_rename. intros E Heff HdE. eapply winnable_ext; [|apply (Hr E Heff HdE)]. intros v Hv. cbv beta. now rewrite Hrho.
  - intros j D0 Hj He0 Hd0 Hr0. apply (Hmin j (fun v => D0 (pi v)) Hj); [now apply effective_rename|now rewrite <- deg_rename|now apply rank_ge_rename]. Qed.
End Ren.
