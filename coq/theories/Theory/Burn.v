(* Dhar's burning algorithm, as the executable fold the model uses, and Dhar's theorem about it:
   the unburnt set is legal, contains every legal set avoiding q, and is empty iff the configuration is superstable. *)
From Coq Require Import ZArith List Lia Bool Arith.
Import ListNotations.
From CF Require Import ZSum ListAux Defs.
Open Scope Z_scope.

Section B.
Variable V : list nat.
Variable m : nat -> nat -> Z.
Variable q : nat.
Variable D : nat -> Z.

(* executable definitions *)
Definition edges_to (v : nat) (B : list nat) := zsum (fun w => if mem w B then m v w else 0) V.
Definition burn_step (B : list nat) (v : nat) : list nat :=
  if mem v B then B else if D v <? edges_to v B then B ++ [v] else B.
Definition burn_pass (B : list nat) := fold_left burn_step V B.
Definition burn := iter (S (length V)) burn_pass [q].
Definition unburnt := filter (fun v => negb (mem v burn)) V.

Inductive BurnSeq : list nat -> Prop :=
| bs0 : BurnSeq [q]
| bs1 B v : BurnSeq B -> In v V -> ~ In v B -> D v < edges_to v B -> BurnSeq (B ++ [v]).

Hypothesis V_nodup : NoDup V.
Hypothesis m_nonneg : forall v w, 0 <= m v w.
Hypothesis q_in : In q V.
Local Notation outdeg := (outdeg V m).
Local Notation legal := (legal V m D).

Lemma step_seq B v : In v V -> BurnSeq B -> BurnSeq (burn_step B v).
Proof. intros Hv HB. unfold burn_step. destruct (mem v B) eqn:E; [exact HB|]. destruct (Z.ltb_spec (D v) (edges_to v B)); [|exact HB].
  apply bs1; [exact HB|exact Hv|now apply mem_false|assumption]. Qed.
Lemma fold_seq l B : (forall v, In v l -> In v V) -> BurnSeq B -> BurnSeq (fold_left burn_step l B).
Proof. revert B. induction l as [|a l IH]; cbn; intros B Hl HB; auto. apply IH; [intros; apply Hl; now right|]. apply step_seq; [apply Hl; now left|exact HB]. Qed.
Lemma pass_seq B : BurnSeq B -> BurnSeq (burn_pass B). Proof. apply fold_seq; auto. Qed.
Lemma iter_seq n B : BurnSeq B -> BurnSeq (iter n burn_pass B).
Proof. revert B. induction n; cbn; intros; auto. apply IHn, pass_seq; auto. Qed.
Lemma burn_seq : BurnSeq burn. Proof. apply iter_seq. constructor. Qed.

Lemma NoDup_snoc (B : list nat) v : NoDup B -> ~ In v B -> NoDup (B ++ [v]).
Proof. intros Hn Hv. apply NoDup_rev in Hn. rewrite <- (rev_involutive (B ++ [v])). apply NoDup_rev. rewrite rev_app_distr. cbn. constructor; auto. rewrite <- in_rev. auto. Qed.
Lemma seq_facts B : BurnSeq B -> NoDup B /\ (forall v, In v B -> In v V) /\ In q B.
Proof. induction 1 as [|B v HB [Hn [Hs Hq]] Hv Hnv Hlt].
  - repeat split. constructor; [intros []|constructor]. intros v [<-|[]]; auto. now left.
  - repeat split.
    + now apply NoDup_snoc.
    + intros w Hw. apply in_app_or in Hw. destruct Hw as [Hw|[<-|[]]]; auto.
    + apply in_or_app; now left.
Qed.

(* maximality: no member of a legal set avoiding q ever burns *)
Theorem burn_avoids_legal (S : nat -> bool) B : S q = false -> legal S -> BurnSeq B -> forall v, In v B -> S v = false.
Proof.
  intros Sq HL. induction 1 as [|B v HB IH Hv Hnv Hlt]; intros w Hw.
  - destruct Hw as [<-|[]]; auto.
  - apply in_app_or in Hw. destruct Hw as [Hw|[<-|[]]]; auto.
    destruct (S v) eqn:E; auto. exfalso. specialize (HL v Hv E).
    assert (edges_to v B <= outdeg S v); [|lia].
    unfold edges_to, Defs.outdeg. apply zsum_le. intros x Hx. destruct (mem x B) eqn:Ex.
    + apply mem_In in Ex. rewrite (IH x Ex). lia.
    + destruct (S x); [lia|apply m_nonneg].
Qed.

(* fixpoint *)
Lemma step_prefix B v : exists t, burn_step B v = B ++ t /\ (t = [] \/ t = [v]).
Proof. unfold burn_step. destruct (mem v B). exists []; rewrite app_nil_r; auto. destruct (D v <? edges_to v B). exists [v]; auto. exists []; rewrite app_nil_r; auto. Qed.
Lemma fold_prefix l B : exists t, fold_left burn_step l B = B ++ t.
Proof. revert B. induction l as [|a l IH]; cbn; intros B. exists []; now rewrite app_nil_r.
  destruct (step_prefix B a) as [t [E _]]. destruct (IH (burn_step B a)) as [t' E']. rewrite E', E. exists (t ++ t'). now rewrite app_assoc. Qed.
Lemma fold_fix l B : fold_left burn_step l B = B -> forall v, In v l -> burn_step B v = B.
Proof. revert B. induction l as [|a l IH]; cbn; intros B HF v Hv; [destruct Hv|].
  destruct (step_prefix B a) as [t [E Ht]]. destruct (fold_prefix l (burn_step B a)) as [t' E'].
  assert (t = []). { rewrite HF, E, <- app_assoc in E'. assert (HL : length B = length (B ++ t ++ t')) by (rewrite <- E'; reflexivity).
    rewrite !app_length in HL. destruct Ht as [-> | ->]; auto. cbn in HL. lia. }
  subst t. rewrite app_nil_r in E. rewrite E in HF. destruct Hv as [<-|Hv]; auto. Qed.
Lemma pass_fix_or_grow B : burn_pass B = B \/ (length B < length (burn_pass B))%nat.
Proof. unfold burn_pass. destruct (fold_prefix V B) as [t E]. rewrite E. destruct t. left; now rewrite app_nil_r. right. rewrite app_length. cbn. lia. Qed.
Lemma iter_fix n B : burn_pass B = B -> iter n burn_pass B = B.
Proof. intros H. induction n; cbn; auto. now rewrite H. Qed.
Lemma iter_grow n B : burn_pass (iter n burn_pass B) = iter n burn_pass B \/ (length B + n <= length (iter n burn_pass B))%nat.
Proof. revert B. induction n; cbn; intros B. right; lia.
  destruct (pass_fix_or_grow B) as [F|G]. left. rewrite F. rewrite (iter_fix n B F). auto.
  destruct (IHn (burn_pass B)) as [F'|G']; auto. right. lia. Qed.
Theorem burn_fixpoint : burn_pass burn = burn.
Proof. unfold burn. destruct (iter_grow (S (length V)) [q]) as [F|G]; auto. exfalso.
  destruct (seq_facts _ burn_seq) as [Hn [Hs _]]. pose proof (NoDup_incl_length Hn Hs) as HL. unfold burn in HL. cbn in G. cbn in HL. lia. Qed.

Theorem burn_closed v : In v V -> ~ In v burn -> edges_to v burn <= D v.
Proof. intros Hv Hn. pose proof (fold_fix V burn burn_fixpoint v Hv) as H. unfold burn_step in H.
  apply mem_false in Hn. rewrite Hn in H. destruct (Z.ltb_spec (D v) (edges_to v burn)); auto.
  exfalso. assert (HL : length (burn ++ [v]) = length burn) by now rewrite H. rewrite app_length in HL. cbn in HL. lia. Qed.

Lemma unburnt_spec v : In v unburnt <-> In v V /\ ~ In v burn.
Proof. unfold unburnt. rewrite filter_In, negb_true_iff, mem_false. tauto. Qed.
Lemma q_burnt : ~ In q unburnt.
Proof. rewrite unburnt_spec. destruct (seq_facts _ burn_seq) as [_ [_ Hq]]. tauto. Qed.
Lemma outdeg_unburnt v : outdeg (fun v => mem v unburnt) v = edges_to v burn.
Proof. unfold Defs.outdeg, edges_to. apply zsum_ext. intros w Hw. destruct (mem w burn) eqn:E.
  - assert (Hm : mem w unburnt = false). { apply mem_false. rewrite unburnt_spec. apply mem_In in E. tauto. } now rewrite Hm.
  - assert (Hm : mem w unburnt = true). { apply mem_In. rewrite unburnt_spec. apply mem_false in E. tauto. } now rewrite Hm. Qed.

Theorem unburnt_legal : legal (fun v => mem v unburnt).
Proof. intros v Hv HS. apply mem_In, unburnt_spec in HS. destruct HS as [_ HS].
  rewrite outdeg_unburnt. now apply burn_closed. Qed.
Theorem unburnt_maximal S : S q = false -> legal S -> forall v, In v V -> S v = true -> In v unburnt.
Proof. intros Sq HL v Hv HS. apply unburnt_spec. split; auto. intros Hb.
  pose proof (burn_avoids_legal S burn Sq HL burn_seq v Hb). congruence. Qed.

(* empty unburnt set <-> no non-empty legal set avoiding q *)
Theorem unburnt_empty_iff : unburnt = [] <-> (forall S, S q = false -> nonempty V S -> ~ legal S).
Proof. split.
  - intros HE S Sq [v [Hv HS]] HL. pose proof (unburnt_maximal S Sq HL v Hv HS) as Hin. rewrite HE in Hin. destruct Hin.
  - intros H. destruct unburnt as [|u U] eqn:E; auto. exfalso.
    apply (H (fun v => mem v unburnt)).
    + apply mem_false. apply q_burnt.
    + exists u. assert (In u unburnt) by (rewrite E; now left). split; [now apply unburnt_spec in H0|now apply mem_In].
    + apply unburnt_legal. Qed.
Corollary burn_reduced_iff : (forall v, In v V -> v <> q -> 0 <= D v) -> (unburnt = [] <-> reduced V m q D).
Proof. intros Hnn. rewrite unburnt_empty_iff. unfold reduced. tauto. Qed.

(* when every vertex burns, the burn list is a permutation of V *)
Lemma burn_complete_all : unburnt = [] -> forall v, In v V -> In v burn.
Proof. intros HE v Hv. destruct (mem v burn) eqn:E; [now apply mem_In|]. exfalso.
  assert (In v unburnt) by (apply unburnt_spec; split; auto; now apply mem_false). rewrite HE in H. destruct H. Qed.
End B.
