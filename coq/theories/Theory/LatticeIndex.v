(* The index of the row lattice of an integer square matrix is the absolute value of its determinant:
   if a finite list T of integer vectors of length n contains exactly one representative of every class of Z^n modulo the
   integer combinations of the rows of M, then |T| = |det M| (in particular det M <> 0).  Pure linear algebra over Z, by induction on n:
   Euclid's algorithm on the first column with ADJACENT row operations (Theory/Det.v), then the block form. *)
From Coq Require Import ZArith List Lia Bool Arith.
Import ListNotations.
From CF Require Import ZSum ListAux Det.
Open Scope Z_scope.

Definition comb (n : nat) (M : nat -> nat -> Z) (z : nat -> Z) (c : nat) : Z := zsum (fun r => z r * M r c) (seq 0 n).
Definition congr (n : nat) (M : nat -> nat -> Z) (x y : list Z) : Prop :=
  exists z : nat -> Z, forall c, (c < n)%nat -> nthZ x c - nthZ y c = comb n M z c.
Definition covers (n : nat) (M : nat -> nat -> Z) (T : list (list Z)) : Prop := forall x, length x = n -> exists t, In t T /\ congr n M x t.
Definition transversal (n : nat) (M : nat -> nat -> Z) (T : list (list Z)) : Prop :=
  NoDup T /\ (forall t, In t T -> length t = n) /\ covers n M T /\ (forall t t', In t T -> In t' T -> congr n M t t' -> t = t').
Definition rowequiv (n : nat) (M M' : nat -> nat -> Z) : Prop := forall x y, congr n M x y <-> congr n M' x y.

Lemma congr_refl n M x : congr n M x x.
Proof. exists (fun _ => 0). intros c _. unfold comb. rewrite (zsum_ext _ (fun _ => 0)), zsum_zero by (intros; ring). lia. Qed.
Lemma congr_sym n M x y : congr n M x y -> congr n M y x.
Proof. intros [z H]. exists (fun r => - z r). intros c Hc. specialize (H c Hc). unfold comb in *.
  rewrite (zsum_ext _ (fun r => - (z r * M r c))) by (intros; ring). rewrite zsum_opp. lia. Qed.
Lemma congr_trans n M x y w : congr n M x y -> congr n M y w -> congr n M x w.
Proof. intros [z H] [z' H']. exists (fun r => z r + z' r). intros c Hc. specialize (H c Hc). specialize (H' c Hc). unfold comb in *.
  rewrite (zsum_ext _ (fun r => z r * M r c + z' r * M r c)) by (intros; ring). rewrite zsum_add. lia. Qed.
Lemma comb_ext n M M' z z' c : (forall r, (r < n)%nat -> M r c = M' r c) -> (forall r, (r < n)%nat -> z r = z' r) -> comb n M z c = comb n M' z' c.
Proof. intros H Hz. unfold comb. apply zsum_ext. intros r Hr. apply in_seq in Hr. rewrite H, Hz by lia. reflexivity. Qed.
Lemma congr_ext n M M' x y : (forall r c, (r < n)%nat -> (c < n)%nat -> M r c = M' r c) -> congr n M x y -> congr n M' x y.
Proof. intros H [z Hz]. exists z. intros c Hc. rewrite (Hz c Hc). apply comb_ext; auto. Qed.
Lemma rowequiv_refl n M : rowequiv n M M.
Proof. intros x y. tauto. Qed.
Lemma rowequiv_trans n M1 M2 M3 : rowequiv n M1 M2 -> rowequiv n M2 M3 -> rowequiv n M1 M3.
Proof. intros H1 H2 x y. rewrite (H1 x y). apply H2. Qed.

(* ---- any two transversals of the same congruence have the same size ---- *)
Lemma inj_length {A} (R : A -> A -> Prop) : forall T T' : list A, NoDup T -> (forall t, In t T -> exists t', In t' T' /\ R t t') ->
  (forall t1 t2 t', In t1 T -> In t2 T -> R t1 t' -> R t2 t' -> t1 = t2) -> (length T <= length T')%nat.
Proof. induction T as [|a T IH]; intros T' Hnd Hex Hinj; [cbn; lia|]. inversion Hnd as [|? ? Ha HndT]; subst.
  destruct (Hex a (or_introl eq_refl)) as [a' [Hin Ra]]. apply in_split in Hin. destruct Hin as [l1 [l2 E]]. subst T'.
  assert (L : (length T <= length (l1 ++ l2))%nat).
  { apply IH; [exact HndT| |].
    - intros t Ht. destruct (Hex t (or_intror Ht)) as [t' [Hin' Rt]]. exists t'. split; [|exact Rt].
      apply in_app_or in Hin'. destruct Hin' as [Hl|[Heq|Hr]]; [apply in_or_app; now left| |apply in_or_app; now right].
      exfalso. subst t'. apply Ha. rewrite (Hinj a t a'); auto; [now left|now right].
    - intros t1 t2 t' H1 H2. apply Hinj; now right. }
  rewrite app_length in *. cbn [length]. lia. Qed.

Lemma transversal_le n M M' T T' : transversal n M T -> transversal n M' T' -> rowequiv n M M' -> (length T <= length T')%nat.
Proof. intros (Hnd & Hlen & _ & Huniq) (_ & _ & Hcov' & _) Heq. apply (inj_length (congr n M')); [exact Hnd| |].
  - intros t Ht. apply Hcov'. apply Hlen. exact Ht.
  - intros t1 t2 t' H1 H2 R1 R2. apply Huniq; auto. apply Heq. eapply congr_trans; [exact R1|apply congr_sym; exact R2]. Qed.
Lemma transversal_same_length n M M' T T' : transversal n M T -> transversal n M' T' -> rowequiv n M M' -> length T = length T'.
Proof. intros H H' E. apply Nat.le_antisymm; [eapply transversal_le; eauto|].
  eapply transversal_le; eauto. intros x y. symmetry. apply E. Qed.

(* ---- row operations keep the lattice ---- *)
Lemma comb_addrow n M src dst k z c : (dst < n)%nat -> comb n (addrow M src dst k) z c = comb n M z c + k * z dst * M src c.
Proof. intros Hd. unfold comb. rewrite (zsum_ext _ (fun r => z r * M r c + (if Nat.eqb r dst then k * z dst * M src c else 0))).
  - rewrite zsum_add, zsum_indicator; [reflexivity|apply seq_NoDup|apply in_seq; lia].
  - intros r _. unfold addrow. destruct (Nat.eqb_spec r dst) as [Q|Q]; [rewrite Q|]; ring. Qed.
Lemma comb_shift_coeff n M src dst k z c : (src < n)%nat ->
  comb n M (fun r => if Nat.eqb r src then z src + k * z dst else z r) c = comb n M z c + k * z dst * M src c.
Proof. intros Hs. unfold comb. rewrite (zsum_ext _ (fun r => z r * M r c + (if Nat.eqb r src then k * z dst * M src c else 0))).
  - rewrite zsum_add, zsum_indicator; [reflexivity|apply seq_NoDup|apply in_seq; lia].
  - intros r _. destruct (Nat.eqb_spec r src) as [Q|Q]; [rewrite Q|]; ring. Qed.
Lemma congr_addrow_1 n M src dst k x y : (src < n)%nat -> (dst < n)%nat -> congr n (addrow M src dst k) x y -> congr n M x y.
Proof. intros Hs Hd [z Hz]. exists (fun r => if Nat.eqb r src then z src + k * z dst else z r). intros c Hc.
  rewrite (Hz c Hc), comb_addrow, comb_shift_coeff by assumption. reflexivity. Qed.
Lemma addrow_rowequiv n M src dst k : (src < n)%nat -> (dst < n)%nat -> src <> dst -> rowequiv n M (addrow M src dst k).
Proof. intros Hs Hd Hne x y. split; [|apply congr_addrow_1; assumption].
  intros H. apply (congr_addrow_1 n (addrow M src dst k) src dst (- k)); [assumption|assumption|].
  revert H. apply congr_ext. intros r c _ _. unfold addrow. destruct (Nat.eqb_spec r dst) as [Q|Q]; [|reflexivity].
  destruct (Nat.eqb_spec src dst) as [Q'|Q']; [contradiction|]. rewrite Nat.eqb_refl, Q. ring. Qed.

(* ---- Euclid on two adjacent rows: the lower first-column entry can be made 0 ---- *)
Ltac Zify.zify_post_hook ::= Z.to_euclidean_division_equations.
Lemma pair_clear n i : (S i < n)%nat -> forall (m : nat) M, Z.abs (M i O) + Z.abs (M (S i) O) < Z.of_nat m ->
  exists M', rowequiv n M M' /\ fdet n M' = fdet n M /\ M' (S i) O = 0 /\ (forall r, r <> i -> r <> S i -> forall c, M' r c = M r c).
Proof. intros Hi. induction m as [|m IH]; intros M Hm; [lia|].
  destruct (Z.eq_dec (M (S i) O) 0) as [Hb|Hb].
  { exists M. split; [apply rowequiv_refl|]. split; [reflexivity|]. split; [exact Hb|reflexivity]. }
  destruct (Z.eq_dec (M i O) 0) as [Ha|Ha].
  { set (M1 := addrow M (S i) i 1). set (M2 := addrow M1 i (S i) (-1)). exists M2. split; [|split; [|split]].
    - eapply rowequiv_trans; [apply (addrow_rowequiv n M (S i) i 1); lia|apply (addrow_rowequiv n M1 i (S i) (-1)); lia].
    - unfold M2, M1. rewrite fdet_addrow_adj by lia. apply fdet_addrow_adj; lia.
    - unfold M2, M1, addrow. rewrite Nat.eqb_refl. destruct (Nat.eqb_spec (S i) i) as [Q|Q]; [lia|]. rewrite !Nat.eqb_refl. lia.
    - intros r H1 H2 c. unfold M2, M1, addrow. destruct (Nat.eqb_spec r (S i)) as [Q|Q]; [contradiction|].
      destruct (Nat.eqb_spec r i) as [Q'|Q']; [contradiction|reflexivity]. }
  destruct (Z_le_gt_dec (Z.abs (M (S i) O)) (Z.abs (M i O))) as [Hle|Hgt].
  - set (M1 := addrow M (S i) i (- (M i O / M (S i) O))).
    assert (E1 : M1 i O = M i O - (M i O / M (S i) O) * M (S i) O) by (unfold M1, addrow; rewrite Nat.eqb_refl; ring).
    assert (E2 : M1 (S i) O = M (S i) O) by (unfold M1, addrow; destruct (Nat.eqb_spec (S i) i) as [Q|Q]; [lia|reflexivity]).
    destruct (IH M1) as (M' & R & D & Z0 & Oth).
    { rewrite E1, E2. assert (Z.abs (M i O - M i O / M (S i) O * M (S i) O) < Z.abs (M (S i) O)).
      { replace (M i O - M i O / M (S i) O * M (S i) O) with (M i O mod M (S i) O) by (rewrite (Z.div_mod (M i O) (M (S i) O)) at 2 by exact Hb; ring).
        destruct (Z_lt_le_dec 0 (M (S i) O)) as [P|P]; [pose proof (Z.mod_pos_bound (M i O) _ P)|assert (P' : M (S i) O < 0) by lia; pose proof (Z.mod_neg_bound (M i O) _ P')]; lia. }
      lia. }
    exists M'. split; [|split; [|split]].
    + eapply rowequiv_trans; [apply (addrow_rowequiv n M (S i) i); lia|exact R].
    + rewrite D. unfold M1. apply fdet_addrow_adj; lia.
    + exact Z0.
    + intros r H1 H2 c. rewrite (Oth r H1 H2 c). unfold M1, addrow. destruct (Nat.eqb_spec r i) as [Q|Q]; [contradiction|reflexivity].
  - set (M1 := addrow M i (S i) (- (M (S i) O / M i O))).
    assert (E1 : M1 (S i) O = M (S i) O - (M (S i) O / M i O) * M i O) by (unfold M1, addrow; rewrite Nat.eqb_refl; ring).
    assert (E2 : M1 i O = M i O) by (unfold M1, addrow; destruct (Nat.eqb_spec i (S i)) as [Q|Q]; [lia|reflexivity]).
    destruct (IH M1) as (M' & R & D & Z0 & Oth).
    { rewrite E1, E2. assert (Z.abs (M (S i) O - M (S i) O / M i O * M i O) < Z.abs (M i O)).
      { replace (M (S i) O - M (S i) O / M i O * M i O) with (M (S i) O mod M i O) by (rewrite (Z.div_mod (M (S i) O) (M i O)) at 2 by exact Ha; ring).
        destruct (Z_lt_le_dec 0 (M i O)) as [P|P]; [pose proof (Z.mod_pos_bound (M (S i) O) _ P)|assert (P' : M i O < 0) by lia; pose proof (Z.mod_neg_bound (M (S i) O) _ P')]; lia. }
      lia. }
    exists M'. split; [|split; [|split]].
    + eapply rowequiv_trans; [apply (addrow_rowequiv n M i (S i)); lia|exact R].
    + rewrite D. unfold M1. apply fdet_addrow_adj; lia.
    + exact Z0.
    + intros r H1 H2 c. rewrite (Oth r H1 H2 c). unfold M1, addrow. destruct (Nat.eqb_spec r (S i)) as [Q|Q]; [contradiction|reflexivity]. Qed.

Definition cleared_from (n q : nat) (M : nat -> nat -> Z) : Prop := forall r, (q < r < n)%nat -> M r O = 0.
Lemma col_clear n : forall q, (q < n)%nat -> forall M, cleared_from n q M ->
  exists M', rowequiv n M M' /\ fdet n M' = fdet n M /\ cleared_from n O M'.
Proof. induction q as [|q IH]; intros Hq M Hc.
  - exists M. split; [apply rowequiv_refl|]. split; [reflexivity|exact Hc].
  - destruct (pair_clear n q Hq (S (Z.to_nat (Z.abs (M q O) + Z.abs (M (S q) O)))) M) as (M1 & R1 & D1 & Z1 & O1); [lia|].
    destruct (IH ltac:(lia) M1) as (M' & R & D & C).
    { intros r Hr. destruct (Nat.eq_dec r (S q)) as [Q|Q]; [rewrite Q; exact Z1|]. rewrite O1 by lia. apply Hc. lia. }
    exists M'. split; [eapply rowequiv_trans; eauto|]. split; [lia|exact C]. Qed.
Lemma col_clear_all n M : exists M', rowequiv n M M' /\ fdet n M' = fdet n M /\ cleared_from n O M'.
Proof. destruct n as [|k].
  - exists M. split; [apply rowequiv_refl|]. split; [reflexivity|]. intros r Hr. lia.
  - apply (col_clear (S k) k); [lia|]. intros r Hr. lia. Qed.

(* ---- the block step ---- *)
Definition lower (M : nat -> nat -> Z) : nat -> nat -> Z := fun r c => M (S r) (S c).
Lemma fdet_lower k M : fdet k (minor M O) = fdet k (lower M).
Proof. apply fdet_ext. intros r c _ _. reflexivity. Qed.
Lemma zsum_seq_shift (f : nat -> Z) k : zsum f (seq 0 (S k)) = f O + zsum (fun r => f (S r)) (seq 0 k).
Proof. rewrite <- cons_seq, <- seq_shift. cbn [zsum]. rewrite zsum_map. reflexivity. Qed.
Lemma comb_S k M z c : comb (S k) M z c = z O * M O c + zsum (fun r => z (S r) * M (S r) c) (seq 0 k).
Proof. unfold comb. apply zsum_seq_shift. Qed.
Lemma comb_col0 k M z : cleared_from (S k) O M -> comb (S k) M z O = z O * M O O.
Proof. intros Hc. rewrite comb_S. rewrite (zsum_ext _ (fun _ => 0)), zsum_zero; [lia|]. intros r Hr. apply in_seq in Hr. rewrite (Hc (S r)) by lia. ring. Qed.
Lemma comb_colS k M z c : comb (S k) M z (S c) = z O * M O (S c) + comb k (lower M) (fun r => z (S r)) c.
Proof. apply comb_S. Qed.

Definition prod_list (m : nat) (TN : list (list Z)) : list (list Z) := flat_map (fun a => map (cons (Z.of_nat a)) TN) (seq 0 m).
Lemma in_prod_list m TN a t : In (a :: t) (prod_list m TN) <-> (0 <= a < Z.of_nat m /\ In t TN).
Proof. unfold prod_list. rewrite in_flat_map. split.
  - intros [j [Hj Hin]]. apply in_map_iff in Hin. destruct Hin as [t' [E Ht]]. apply in_seq in Hj. inversion E; subst. split; [lia|exact Ht].
  - intros [Ha Ht]. exists (Z.to_nat a). split; [apply in_seq; lia|]. apply in_map_iff. exists t. split; [f_equal; lia|exact Ht]. Qed.
Lemma in_prod_list_shape m TN x : In x (prod_list m TN) -> exists a t, x = a :: t.
Proof. unfold prod_list. rewrite in_flat_map. intros [j [_ Hin]]. apply in_map_iff in Hin. destruct Hin as [t [E _]]. eauto. Qed.
Lemma nodup_app2 {A} (l1 l2 : list A) : NoDup l1 -> NoDup l2 -> (forall x, In x l1 -> ~ In x l2) -> NoDup (l1 ++ l2).
Proof. induction l1 as [|a l1 IH]; intros H1 H2 H; [exact H2|]. inversion H1; subst. cbn. constructor.
  - intros Hin. apply in_app_or in Hin. destruct Hin as [Hin|Hin]; [contradiction|]. apply (H a); [now left|exact Hin].
  - apply IH; auto. intros x Hx. apply H. now right. Qed.
Lemma prod_list_nodup TN : NoDup TN -> forall m j, NoDup (flat_map (fun a => map (cons (Z.of_nat a)) TN) (seq j m)).
Proof. intros Hnd. induction m as [|m IH]; intros j; [constructor|]. cbn [seq flat_map]. apply nodup_app2; [|apply IH|].
  - apply FinFun.Injective_map_NoDup; [|exact Hnd]. intros x y E. inversion E. reflexivity.
  - intros x Hx Hin. apply in_map_iff in Hx. destruct Hx as [t [E _]]. subst x. apply in_flat_map in Hin. destruct Hin as [a [Ha Hin]].
    apply in_seq in Ha. apply in_map_iff in Hin. destruct Hin as [t' [E _]]. inversion E. lia. Qed.
Lemma prod_list_length m TN : length (prod_list m TN) = (m * length TN)%nat.
Proof. unfold prod_list. generalize 0%nat. induction m as [|m IH]; intros j; [reflexivity|]. cbn [seq flat_map]. rewrite app_length, map_length, IH. lia. Qed.

Lemma block_transversal k M TN : cleared_from (S k) O M -> M O O <> 0 -> transversal k (lower M) TN ->
  transversal (S k) M (prod_list (Z.to_nat (Z.abs (M O O))) TN).
Proof. intros Hc Hd (Hnd & Hlen & Hcov & Huniq). set (d := M O O) in *. set (m := Z.to_nat (Z.abs d)).
  assert (Hm : Z.of_nat m = Z.abs d) by (unfold m; lia). split; [|split; [|split]].
  - apply prod_list_nodup. exact Hnd.
  - intros x Hx. destruct (in_prod_list_shape _ _ _ Hx) as [a [t E]]. subst x. apply in_prod_list in Hx. cbn [length]. rewrite (Hlen t) by tauto. reflexivity.
  - intros x Hx. destruct x as [|x0 x']; [discriminate|]. cbn [length] in Hx.
    set (a := x0 mod Z.abs d). set (c0 := (x0 / Z.abs d) * Z.sgn d).
    assert (Ha : 0 <= a < Z.abs d) by (apply Z.mod_pos_bound; lia).
    assert (Hc0 : x0 - a = c0 * d).
    { unfold c0, a. pose proof (Z.div_mod x0 (Z.abs d) ltac:(lia)) as E. assert (E2 : Z.abs d = Z.sgn d * d) by (destruct d as [|p|p]; cbn [Z.sgn Z.abs]; lia).
      set (q := x0 / Z.abs d) in *. set (r := x0 mod Z.abs d) in *. rewrite E2 in E. lia. }
    destruct (Hcov (tab k (fun c => nthZ x' c - c0 * M O (S c)))) as [t [Ht [z' Hz']]]; [apply tab_length|].
    exists (a :: t). split; [apply in_prod_list; split; [lia|exact Ht]|].
    exists (fun r => match r with O => c0 | S r' => z' r' end). intros c Hcl. destruct c as [|c].
    + rewrite comb_col0 by exact Hc. unfold nthZ. cbn [nth]. exact Hc0.
    + rewrite comb_colS. specialize (Hz' c ltac:(lia)). rewrite nthZ_tab in Hz' by lia. unfold nthZ in *. cbn [nth].
      change (comb k (lower M) (fun r : nat => z' r) c) with (comb k (lower M) z' c). lia.
  - intros x y Hx Hy [z Hz]. destruct (in_prod_list_shape _ _ _ Hx) as [a [t E]]. subst x. destruct (in_prod_list_shape _ _ _ Hy) as [a' [t' E]]. subst y.
    apply in_prod_list in Hx. apply in_prod_list in Hy. destruct Hx as [Ha Ht], Hy as [Ha' Ht'].
    pose proof (Hz O ltac:(lia)) as H0. rewrite comb_col0 in H0 by exact Hc. unfold nthZ in H0. cbn [nth] in H0. fold d in H0.
    assert (Z0 : z O = 0).
    { destruct (Z.eq_dec (z O) 0) as [Q|Q]; [exact Q|exfalso]. assert (Z.abs (a - a') < Z.abs d) by lia. rewrite H0, Z.abs_mul in H.
      assert (1 <= Z.abs (z O)) by lia. nia. }
    assert (a = a') by (rewrite Z0 in H0; lia). subst a'. f_equal. apply Huniq; auto.
    exists (fun r => z (S r)). intros c Hcl. specialize (Hz (S c) ltac:(lia)). rewrite comb_colS, Z0 in Hz. unfold nthZ in *. cbn [nth] in Hz. lia. Qed.

Lemma transversal_rowequiv n M M' T : rowequiv n M M' -> transversal n M' T -> transversal n M T.
Proof. intros E (Hnd & Hlen & Hcov & Huniq). split; [exact Hnd|]. split; [exact Hlen|]. split.
  - intros x Hx. destruct (Hcov x Hx) as [t [Ht C]]. exists t. split; [exact Ht|]. apply E. exact C.
  - intros t t' Ht Ht' C. apply Huniq; auto. apply E. exact C. Qed.

(* existence of a transversal of the right size when det <> 0 *)
Theorem transversal_exists n : forall M, fdet n M <> 0 -> exists T, transversal n M T /\ Z.of_nat (length T) = Z.abs (fdet n M).
Proof. induction n as [|k IH]; intros M Hdet.
  - exists [[]]. split; [|reflexivity]. split; [constructor; [intros []|constructor]|]. split; [intros t [<-|[]]; reflexivity|]. split.
    + intros x Hx. exists []. split; [now left|]. exists (fun _ => 0). intros c Hc. lia.
    + intros t t' [<-|[]] [<-|[]] _. reflexivity.
  - destruct (col_clear_all (S k) M) as (M' & R & D & C).
    assert (B : fdet (S k) M' = M' O O * fdet k (lower M')).
    { rewrite <- fdet_lower. apply fdet_block. intros r Hr. apply C. lia. }
    rewrite <- D, B in Hdet. assert (Hd : M' O O <> 0) by (intros Q; apply Hdet; rewrite Q; ring).
    assert (HN : fdet k (lower M') <> 0) by (intros Q; apply Hdet; rewrite Q; ring).
    destruct (IH (lower M') HN) as (TN & HT & HL).
    exists (prod_list (Z.to_nat (Z.abs (M' O O))) TN). split.
    + apply (transversal_rowequiv _ _ _ _ R). apply block_transversal; assumption.
    + rewrite prod_list_length, <- D, B, Z.abs_mul, Nat2Z.inj_mul, HL. lia. Qed.

(* no finite list covers Z^n modulo the rows of a singular matrix *)
Lemma zsum_abs_ge (T : list (list Z)) t : In t T -> Z.abs (nthZ t O) <= zsum (fun t => Z.abs (nthZ t O)) T.
Proof. induction T as [|a T IH]; intros Hin; [destruct Hin|]. cbn [zsum].
  assert (0 <= zsum (fun t => Z.abs (nthZ t O)) T) by (apply zsum_nonneg; intros; lia). destruct Hin as [->|Hin]; [lia|]. specialize (IH Hin). lia. Qed.
Theorem singular_no_cover n : forall M, fdet n M = 0 -> forall T, ~ covers n M T.
Proof. induction n as [|k IH]; intros M Hdet T Hcov; [cbn in Hdet; lia|].
  destruct (col_clear_all (S k) M) as (M' & R & D & C).
  assert (B : fdet (S k) M' = M' O O * fdet k (lower M')).
  { rewrite <- fdet_lower. apply fdet_block. intros r Hr. apply C. lia. }
  assert (Hcov' : covers (S k) M' T).
  { intros x Hx. destruct (Hcov x Hx) as [t [Ht Ct]]. exists t. split; [exact Ht|]. apply R. exact Ct. }
  rewrite <- D, B in Hdet. destruct (Z.eq_dec (M' O O) 0) as [Hd|Hd].
  - set (big := 1 + zsum (fun t => Z.abs (nthZ t O)) T). destruct (Hcov' (big :: repeat 0 k)) as [t [Ht [z Hz]]]; [cbn; rewrite repeat_length; reflexivity|].
    specialize (Hz O ltac:(lia)). rewrite comb_col0, Hd in Hz by exact C. pose proof (zsum_abs_ge T t Ht). unfold nthZ at 1 in Hz. cbn [nth] in Hz. unfold big in Hz. lia.
  - assert (HN : fdet k (lower M') = 0) by nia. apply (IH (lower M') HN (map (fun t => tab k (fun c => nthZ t (S c) + ((- nthZ t O) / M' O O) * M' O (S c))) T)).
    intros x' Hx'. destruct (Hcov' (0 :: x')) as [t [Ht [z Hz]]]; [cbn; lia|].
    exists (tab k (fun c => nthZ t (S c) + ((- nthZ t O) / M' O O) * M' O (S c))). split; [apply in_map_iff; exists t; split; [reflexivity|exact Ht]|].
    pose proof (Hz O ltac:(lia)) as H0. rewrite comb_col0 in H0 by exact C. unfold nthZ at 1 in H0. cbn [nth] in H0.
    assert (Ez : (- nthZ t O) / M' O O = z O). { replace (- nthZ t O) with (z O * M' O O) by lia. apply Z.div_mul. exact Hd. }
    exists (fun r => z (S r)). intros c Hc. specialize (Hz (S c) ltac:(lia)). rewrite comb_colS in Hz. rewrite nthZ_tab by exact Hc. rewrite Ez.
    unfold nthZ in *. cbn [nth] in Hz. lia. Qed.

(* THE INDEX THEOREM *)
Theorem lattice_index n M T : transversal n M T -> Z.of_nat (length T) = Z.abs (fdet n M) /\ fdet n M <> 0.
Proof. intros HT. assert (Hdet : fdet n M <> 0). { intros Q. apply (singular_no_cover n M Q T). apply HT. }
  split; [|exact Hdet]. destruct (transversal_exists n M Hdet) as (T' & HT' & HL). rewrite <- HL. f_equal.
  apply (transversal_same_length n M M); auto. apply rowequiv_refl. Qed.
