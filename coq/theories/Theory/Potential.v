(* The weighted potential Phi(D) = sum_v K^(L - level v) * D(v): firing any non-empty set avoiding q raises it by at least 1.
   (level = a BFS-type level function from q with the parent property, K > total multiplicity + 1.) This is the engine of termination. *)
From Coq Require Import ZArith List Lia Bool Arith.
Import ListNotations.
From CF Require Import ZSum ListAux Defs.
Open Scope Z_scope.

Section Pot.
Variable V : list nat.
Hypothesis V_nodup : NoDup V.
Variable m : nat -> nat -> Z.
Hypothesis m_nonneg : forall v w, 0 <= m v w.
Hypothesis m_sym : forall v w, m v w = m w v.
Variable q : nat.
Variable level : nat -> nat.
Variable L : nat.
Hypothesis level_le : forall v, In v V -> (level v <= L)%nat.
Hypothesis parent : forall v, In v V -> v <> q -> exists p, In p V /\ 0 < m v p /\ (level p + 1 = level v)%nat.
Variable K : Z.
Definition totE := zsum (fun v => zsum (fun x => m v x) V) V.
Hypothesis K_big : totE + 2 <= K.

Definition w (v : nat) : Z := K ^ Z.of_nat (L - level v).
Definition Phi (D : nat -> Z) := zsum (fun v => w v * D v) V.
Local Notation fire := (Defs.fire V m).
Lemma totE_nonneg : 0 <= totE.
Proof. unfold totE. apply (Z.le_trans _ (zsum (fun _ => 0) V)); [rewrite zsum_zero; lia|]. apply zsum_le. intros v _.
  apply (Z.le_trans _ (zsum (fun _ => 0) V)); [rewrite zsum_zero; lia|]. apply zsum_le. intros; apply m_nonneg. Qed.
Lemma K_pos : 2 <= K. Proof. pose proof totE_nonneg. lia. Qed.
Lemma w_pos v : 0 < w v. Proof. unfold w. apply Z.pow_pos_nonneg; [pose proof K_pos; lia| lia]. Qed.

(* minimal-level member of U *)
Lemma min_level (U : nat -> bool) : (exists u, In u V /\ U u = true) ->
  exists u, In u V /\ U u = true /\ forall v, In v V -> U v = true -> (level u <= level v)%nat.
Proof.
  intros [u0 [H0 HU0]]. remember (level u0) as k eqn:Ek. revert u0 H0 HU0 Ek.
  induction k as [k IH] using lt_wf_ind. intros u0 H0 HU0 Ek.
  destruct (existsb (fun v => U v && Nat.ltb (level v) k) V) eqn:Ex.
  - apply existsb_exists in Ex. destruct Ex as [v [Hv Hc]]. apply andb_true_iff in Hc. destruct Hc as [HUv Hlt].
    apply Nat.ltb_lt in Hlt. eapply (IH (level v)); eauto.
  - exists u0. repeat split; auto. intros v Hv HUv.
    destruct (le_lt_dec (level u0) (level v)); auto. exfalso.
    assert (existsb (fun v => U v && Nat.ltb (level v) k) V = true).
    { apply existsb_exists. exists v. split; auto. rewrite HUv. cbn. apply Nat.ltb_lt. lia. }
    congruence.
Qed.

Lemma Phi_diff U D :
  Phi (fire U D) - Phi D =
  zsum (fun v => zsum (fun x => if U v then (if U x then 0 else m v x * (w x - w v)) else 0) V) V.
Proof.
  unfold Phi.
  assert (E1 : zsum (fun v => w v * fire U D v) V - zsum (fun v => w v * D v) V =
          zsum (fun v => zsum (fun x => if U v then (if U x then 0 else - (w v * m v x)) else 0) V) V
        + zsum (fun v => zsum (fun x => if U v then 0 else (if U x then w v * m v x else 0)) V) V).
  { rewrite <- zsum_add.
    rewrite <- zsum_sub. apply zsum_ext. intros v _. unfold Defs.fire. destruct (U v).
    - rewrite zsum_zero. replace (w v * (D v - zsum (fun x => if U x then 0 else m v x) V) - w v * D v)
        with (- w v * zsum (fun x => if U x then 0 else m v x) V) by ring.
      rewrite <- zsum_scale. rewrite Z.add_0_r. apply zsum_ext. intros x _. destruct (U x); lia.
    - rewrite zsum_zero. replace (w v * (D v + zsum (fun u => if U u then m v u else 0) V) - w v * D v)
        with (w v * zsum (fun u => if U u then m v u else 0) V) by ring.
      rewrite <- zsum_scale. cbn. apply zsum_ext. intros x _. destruct (U x); lia. }
  rewrite E1. rewrite (zsum_swap (fun v x => if U v then 0 else if U x then w v * m v x else 0)).
  rewrite <- zsum_add. apply zsum_ext. intros v _. rewrite <- zsum_add. apply zsum_ext. intros x _.
  destruct (U v), (U x); try lia. rewrite (m_sym x v). lia.
Qed.

Theorem fire_increases U D :
  U q = false -> (exists u, In u V /\ U u = true) -> Phi D + 1 <= Phi (fire U D).
Proof.
  intros Uq Hex. destruct (min_level U Hex) as [u [Hu [HUu Hmin]]].
  assert (u <> q) by (intro; subst; congruence).
  destruct (parent u Hu H) as [p [Hp [Hmp Hlev]]].
  assert (Up : U p = false).
  { destruct (U p) eqn:E; auto. specialize (Hmin p Hp E). lia. }
  set (P := K ^ Z.of_nat (L - level u)).
  assert (HP : 1 <= P). { unfold P. pose proof K_pos. assert (0 < K ^ Z.of_nat (L - level u)) by (apply Z.pow_pos_nonneg; lia). lia. }
  assert (Hwp : w p = K * P).
  { unfold w, P. pose proof (level_le u Hu). replace (L - level p)%nat with (S (L - level u))%nat by lia.
    rewrite Nat2Z.inj_succ, Z.pow_succ_r by lia. reflexivity. }
  assert (Hwu : w u = P) by reflexivity.
  assert (Hwle : forall v, In v V -> U v = true -> w v <= P).
  { intros v Hv HUv. unfold w, P. apply Z.pow_le_mono_r; [pose proof K_pos; lia|]. specialize (Hmin v Hv HUv). lia. }
  pose proof (Phi_diff U D) as Hd.
  assert (Hlow : zsum (fun v => zsum (fun x => - m v x * P + (if Nat.eqb v u then (if Nat.eqb x p then K * P else 0) else 0)) V) V
                 <= Phi (fire U D) - Phi D).
  { rewrite Hd. apply zsum_le. intros v Hv. apply zsum_le. intros x Hx.
    pose proof (m_nonneg v x) as Hm. pose proof (w_pos x) as Hwx.
    destruct (U v) eqn:EUv.
    - specialize (Hwle v Hv EUv). destruct (U x) eqn:EUx.
      + destruct (Nat.eqb_spec v u); [destruct (Nat.eqb_spec x p); [subst; congruence|]|]; nia.
      + destruct (Nat.eqb_spec v u); [destruct (Nat.eqb_spec x p)|].
        * subst. rewrite Hwp, Hwu. nia.
        * nia.
        * nia.
    - destruct (Nat.eqb_spec v u); [subst; congruence|]. nia. }
  assert (Hsum : zsum (fun v => zsum (fun x => - m v x * P + (if Nat.eqb v u then (if Nat.eqb x p then K * P else 0) else 0)) V) V
                 = - totE * P + K * P).
  { transitivity (zsum (fun v => (-P) * zsum (fun x => m v x) V + (if Nat.eqb v u then K * P else 0)) V).
    - apply zsum_ext. intros v Hv. rewrite zsum_add. f_equal.
      + rewrite <- zsum_scale. apply zsum_ext; intros; ring.
      + destruct (Nat.eqb v u). apply zsum_indicator; auto. apply zsum_zero.
    - rewrite zsum_add, zsum_scale, zsum_indicator by auto. unfold totE. ring. }
  rewrite Hsum in Hlow. nia.
Qed.
End Pot.

