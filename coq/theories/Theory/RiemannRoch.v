(* The abstract core of Riemann-Roch for graphs: from the burning certificate (RR1) and the closure of the set N of unwinnable
   divisors of degree g-1 under nu |-> K - nu (N_closed), 'some effective E of degree k makes D - E unwinnable' transfers between D and K - D. *)
From Coq Require Import ZArith List Lia Bool Arith.
Import ListNotations.
From CF Require Import ZSum.
Open Scope Z_scope.

Section RR.
Variable V : list nat.
Variable m : nat -> nat -> Z.
Hypothesis m_sym : forall v w, m v w = m w v.

Definition lap (s : nat -> Z) (v : nat) : Z := zsum (fun w => m v w * (s v - s w)) V.
Definition deg (D : nat -> Z) := zsum D V.
Definition lequiv (D E : nat -> Z) := exists s, forall v, In v V -> E v = D v - lap s v.
Definition effective (D : nat -> Z) := forall v, In v V -> 0 <= D v.
Definition winnable D := exists E, lequiv D E /\ effective E.

(* facts proved elsewhere (Theory0.v), restated here as lemmas to keep the spike self-contained *)
Lemma lap_add s t v : lap (fun x => s x + t x) v = lap s v + lap t v.
Proof. unfold lap. rewrite <- zsum_add. apply zsum_ext; intros; ring. Qed.
Lemma lap_sum_zero s : zsum (lap s) V = 0.
Proof.
  unfold lap.
  assert (E : zsum (fun v => zsum (fun w => m v w * (s v - s w)) V) V
            = zsum (fun v => zsum (fun w => m v w * s v) V) V - zsum (fun v => zsum (fun w => m v w * s w) V) V).
  { rewrite <- zsum_sub. apply zsum_ext; intros v _. rewrite <- zsum_sub. apply zsum_ext; intros; ring. }
  rewrite E. rewrite (zsum_swap (fun v w => m v w * s w)).
  rewrite (zsum_ext (fun b => zsum (fun a => m a b * s b) V) (fun v => zsum (fun w => m v w * s v) V)); [lia|].
  intros v _. apply zsum_ext; intros w _. rewrite (m_sym w v). ring.
Qed.

Variable g : Z.
Variable K : nat -> Z.
Hypothesis deg_K : deg K = 2 * g - 2.
Definition N (nu : nat -> Z) := deg nu = g - 1 /\ ~ winnable nu.

(* the three inputs from the rest of the development *)
Hypothesis RR1 : forall X, ~ winnable X -> exists nu, N nu /\ winnable (fun v => nu v - X v).   (* burning certificate, C09 *)
Hypothesis N_closed : forall nu, N nu -> N (fun v => K v - nu v).                               (* D(O)+D(rev O)=K, C11 *)

Definition unwinnable_at (D : nat -> Z) (k : Z) := exists E, effective E /\ deg E = k /\ ~ winnable (fun v => D v - E v).

Lemma winnable_sum X Y : winnable X -> winnable Y -> winnable (fun v => X v + Y v).
Proof. intros [X' [[s Hs] HX]] [Y' [[t Ht] HY]]. exists (fun v => X' v + Y' v). split.
  - exists (fun v => s v + t v). intros v Hv. rewrite lap_add, (Hs v Hv), (Ht v Hv). lia.
  - intros v Hv. specialize (HX v Hv). specialize (HY v Hv). lia. Qed.
Lemma winnable_ext X Y : (forall v, In v V -> X v = Y v) -> winnable X -> winnable Y.
Proof. intros H [E [[s Hs] HE]]. exists E. split; auto. exists s. intros v Hv. rewrite <- (H v Hv). auto. Qed.

Theorem RR_half D k : unwinnable_at D k ->
  unwinnable_at (fun v => K v - D v) (k - deg D - 1 + g).
Proof.
  intros [E [HE [HdE Hnw]]].
  destruct (RR1 _ Hnw) as [nu [HN [E' [[s Hs] HE']]]].
  exists E'. split; auto. split.
  - (* degree of E' *)
    unfold deg in *. rewrite (zsum_ext E' (fun v => nu v - D v + E v - lap s v)).
    + rewrite zsum_sub, lap_sum_zero. rewrite zsum_add, zsum_sub. destruct HN as [HdN _]. unfold deg in HdN. lia.
    + intros v Hv. pose proof (Hs v Hv) as Hsv. cbv beta in Hsv. lia.
  - (* K - D - E' is unwinnable: otherwise K - nu = (K - D - E') + (D - nu + E') would be winnable *)
    intros Hw. destruct (N_closed nu HN) as [_ Hun]. apply Hun.
    destruct Hw as [W [[t Ht] HW]]. exists (fun v => W v + E v). split.
    + exists (fun v => t v + (- s v)). intros v Hv. rewrite lap_add.
      assert (lap (fun x => - s x) v = - lap s v).
      { unfold lap. replace (- zsum (fun w => m v w * (s v - s w)) V) with ((-1) * zsum (fun w => m v w * (s v - s w)) V) by ring.
        rewrite <- zsum_scale. apply zsum_ext; intros; ring. }
      pose proof (Ht v Hv) as Htv. pose proof (Hs v Hv) as Hsv. cbv beta in Htv, Hsv. lia.
    + intros v Hv. specialize (HW v Hv). specialize (HE v Hv). lia.
Qed.

(* the other half is the same statement applied to K - D *)
Theorem RR_iff D k : unwinnable_at D k <-> unwinnable_at (fun v => K v - D v) (k - deg D - 1 + g).
Proof.
  split; [apply RR_half|]. intros H. apply RR_half in H.
  assert (Hd : deg (fun v => K v - D v) = 2 * g - 2 - deg D). { unfold deg in *. rewrite zsum_sub. lia. }
  rewrite Hd in H. replace (k - deg D - 1 + g - (2 * g - 2 - deg D) - 1 + g) with k in H by lia.
  destruct H as [E [HE [HdE Hn]]]. exists E. repeat split; auto. intros Hw. apply Hn.
  eapply winnable_ext; [|exact Hw]. intros v Hv. cbv beta. lia.
Qed.
End RR.

