(* Riemann-Roch for graphs (Baker-Norine), in the form used by the optimized rank:
     "some effective E of degree k makes D - E unwinnable"  <->  the same for K - D at level k - deg D - 1 + g.
   Part 1 (abstract core): from RR1 (every unwinnable X is dominated, up to equivalence, by some nu in N) and N_closed (nu in N -> K - nu in N),
   where N = unwinnable divisors of degree g - 1.
   Part 2: RR1 and N_closed from the burning certificate: every unwinnable X is equivalent to some R dominated by the divisor of an acyclic
   orientation given by an injective position function (supplied by the algorithm, see Link/RRLink.v). *)
From Coq Require Import ZArith List Lia Bool Arith.
Import ListNotations.
From CF Require Import ZSum ListAux Defs LinEquiv Reduced Genus.
Open Scope Z_scope.

Section RR.
Variable V : list nat.
Variable m : nat -> nat -> Z.
Hypothesis m_sym : forall v w, m v w = m w v.
Local Notation lap := (lap V m).
Local Notation deg := (deg V).
Local Notation lequiv := (lequiv V m).
Local Notation effective := (effective V).
Local Notation winnable := (winnable V m).

Variable g : Z.
Variable K : nat -> Z.
Hypothesis deg_K : deg K = 2 * g - 2.
Definition N (nu : nat -> Z) := deg nu = g - 1 /\ ~ winnable nu.
Hypothesis RR1 : forall X, ~ winnable X -> exists nu, N nu /\ winnable (fun v => nu v - X v).
Hypothesis N_closed : forall nu, N nu -> N (fun v => K v - nu v).

Definition unwinnable_at (D : nat -> Z) (k : Z) := exists E, effective E /\ deg E = k /\ ~ winnable (fun v => D v - E v).

Theorem RR_half D k : unwinnable_at D k -> unwinnable_at (fun v => K v - D v) (k - deg D - 1 + g).
Proof.
  intros [E [HE [HdE Hnw]]].
  destruct (RR1 _ Hnw) as [nu [HN [E' [[s Hs] HE']]]].
  exists E'. split; auto. split.
  - unfold Defs.deg in *. rewrite (zsum_ext E' (fun v => nu v - D v + E v - lap s v)).
    + rewrite zsum_sub, (lap_sum_zero V m m_sym). rewrite zsum_add, zsum_sub. destruct HN as [HdN _]. unfold Defs.deg in HdN. lia.
    + intros v Hv. pose proof (Hs v Hv) as Hsv. cbv beta in Hsv. lia.
  - intros Hw. destruct (N_closed nu HN) as [_ Hun]. apply Hun.
    destruct Hw as [W [[t Ht] HW]]. exists (fun v => W v + E v). split.
    + exists (fun v => t v + (- s v)). intros v Hv. rewrite lap_add, lap_neg.
      pose proof (Ht v Hv) as Htv. pose proof (Hs v Hv) as Hsv. cbv beta in Htv, Hsv. lia.
    + intros v Hv. specialize (HW v Hv). specialize (HE v Hv). lia.
Qed.
Theorem RR_iff D k : unwinnable_at D k <-> unwinnable_at (fun v => K v - D v) (k - deg D - 1 + g).
Proof.
  split; [apply RR_half|]. intros H. apply RR_half in H.
  assert (Hd : deg (fun v => K v - D v) = 2 * g - 2 - deg D). { unfold Defs.deg in *. rewrite zsum_sub. lia. }
  rewrite Hd in H. replace (k - deg D - 1 + g - (2 * g - 2 - deg D) - 1 + g) with k in H by lia.
  destruct H as [E [HE [HdE Hn]]]. exists E. repeat split; auto. intros Hw. apply Hn.
  eapply winnable_ext; [|exact Hw]. intros v Hv. cbv beta. lia.
Qed.
Lemma unwinnable_at_nonneg D k : unwinnable_at D k -> 0 <= k.
Proof. intros [E [HE [Hd _]]]. rewrite <- Hd. apply zsum_nonneg. auto. Qed.
End RR.

(* ---------------- Part 2: the two facts, from certificates ---------------- *)
Section Glue.
Variable V : list nat.
Variable m : nat -> nat -> Z.
Hypothesis V_nodup : NoDup V.
Hypothesis V_ne : V <> [].
Hypothesis m_nonneg : forall v w, 0 <= m v w.
Hypothesis m_sym : forall v w, m v w = m w v.
Hypothesis m_diag : forall v, m v v = 0.
Local Notation deg := (deg V).
Local Notation lequiv := (lequiv V m).
Local Notation winnable := (winnable V m).
Local Notation gg := (genus V m).
Definition inj_on (pos : nat -> nat) : Prop := forall v w, In v V -> In w V -> pos v = pos w -> v = w.
(* the certificate the winnability algorithm produces for every unwinnable divisor *)
Hypothesis cert_exists : forall X, ~ winnable X -> exists R pos, lequiv X R /\ inj_on pos /\ forall v, In v V -> R v <= orient_div V m pos v.

Lemma indeg_sum_two (pos pos' : nat -> nat) : inj_on pos -> (forall v w, In v V -> In w V -> (Nat.ltb (pos' w) (pos' v) = Nat.ltb (pos v) (pos w))) ->
  forall v, In v V -> indeg_pos V m pos v + indeg_pos V m pos' v = val V m v.
Proof. intros Hinj Hrev v Hv. unfold indeg_pos, val. rewrite <- zsum_add. apply zsum_ext. intros w Hw. rewrite (Hrev v w Hv Hw).
  destruct (Nat.ltb_spec (pos w) (pos v)), (Nat.ltb_spec (pos v) (pos w)); try lia.
  assert (v = w) by (apply Hinj; auto; lia). subst. rewrite m_diag. lia. Qed.
Lemma indeg_total pos : inj_on pos -> zsum (indeg_pos V m pos) V = nedges V m.
Proof. intros Hinj.
  assert (Hsw : zsum (indeg_pos V m pos) V = zsum (fun v => zsum (fun w => if Nat.ltb (pos v) (pos w) then m v w else 0) V) V).
  { unfold indeg_pos. rewrite (zsum_swap (fun v w => if Nat.ltb (pos w) (pos v) then m v w else 0)). apply zsum_ext. intros v _. apply zsum_ext. intros w _.
    now rewrite (m_sym w v). }
  assert (Hsum : zsum (indeg_pos V m pos) V + zsum (fun v => zsum (fun w => if Nat.ltb (pos v) (pos w) then m v w else 0) V) V = zsum (val V m) V).
  { rewrite <- zsum_add. apply zsum_ext. intros v Hv. unfold indeg_pos, val. rewrite <- zsum_add. apply zsum_ext. intros w Hw.
    destruct (Nat.ltb_spec (pos w) (pos v)), (Nat.ltb_spec (pos v) (pos w)); try lia. assert (v = w) by (apply Hinj; auto; lia). subst. rewrite m_diag. lia. }
  pose proof (twice_edges_nedges V m m_sym m_diag) as T. unfold twice_edges in T. unfold val in Hsum. lia. Qed.
Lemma orient_div_degree pos : inj_on pos -> deg (orient_div V m pos) = gg - 1.
Proof. intros Hinj. unfold Defs.deg, orient_div. rewrite zsum_sub, zsum_const, (indeg_total pos Hinj). unfold genus. lia. Qed.
Lemma canonical_degree : deg (canonical V m) = 2 * gg - 2.
Proof. unfold Defs.deg, canonical. rewrite zsum_sub, zsum_const. pose proof (twice_edges_nedges V m m_sym m_diag) as T. unfold twice_edges in T. unfold val, genus. lia. Qed.

Theorem RR1_holds : forall X, ~ winnable X -> exists nu, N V m gg nu /\ winnable (fun v => nu v - X v).
Proof. intros X HX. destruct (cert_exists X HX) as [R [pos [HE [Hinj Hdom]]]]. exists (orient_div V m pos). split.
  - split; [now apply orient_div_degree|]. now apply acyclic_unwinnable.
  - apply (winnable_lequiv V m _ (fun v => orient_div V m pos v - R v)).
    + apply lequiv_sub; [apply lequiv_refl|exact HE].
    + apply effective_winnable. intros v Hv. specialize (Hdom v Hv). lia. Qed.
Theorem N_closed_holds : forall nu, N V m gg nu -> N V m gg (fun v => canonical V m v - nu v).
Proof. intros nu [Hd Hnw]. split.
  - unfold Defs.deg in *. rewrite zsum_sub. pose proof canonical_degree as C. unfold Defs.deg in C. lia.
  - destruct (cert_exists nu Hnw) as [R [pos [HE [Hinj Hdom]]]].
    (* nu ~ R <= D(O) with equal degrees: R = D(O) on V *)
    assert (HdR : deg R = gg - 1) by (rewrite (lequiv_deg V m m_sym _ _ HE); exact Hd).
    assert (HRO : forall v, In v V -> R v = orient_div V m pos v).
    { assert (H0 : forall v, In v V -> orient_div V m pos v - R v = 0).
      { apply zsum_nonneg_zero; [intros v Hv; specialize (Hdom v Hv); lia|]. rewrite zsum_sub. pose proof (orient_div_degree pos Hinj) as HO. unfold Defs.deg in HO, HdR. lia. }
      intros v Hv. specialize (H0 v Hv). lia. }
    (* the reversed order *)
    destruct (max_exists V (fun v => Z.of_nat (pos v)) V_ne) as [vm [_ HM]].
    set (pos' := fun v => (pos vm - pos v)%nat).
    assert (Hrev : forall v w, In v V -> In w V -> Nat.ltb (pos' w) (pos' v) = Nat.ltb (pos v) (pos w)).
    { intros v w Hv Hw. unfold pos'. pose proof (HM v Hv). pose proof (HM w Hw). destruct (Nat.ltb_spec (pos vm - pos w) (pos vm - pos v)), (Nat.ltb_spec (pos v) (pos w)); auto; lia. }
    assert (HK : forall v, In v V -> canonical V m v - R v = orient_div V m pos' v).
    { intros v Hv. rewrite (HRO v Hv). unfold canonical, orient_div. pose proof (indeg_sum_two pos pos' Hinj Hrev v Hv). lia. }
    intros Hw. apply (acyclic_unwinnable V m m_nonneg pos' V_ne).
    apply (winnable_ext V m (fun v => canonical V m v - R v)); auto.
    apply (winnable_lequiv V m _ (fun v => canonical V m v - nu v)); auto.
    apply lequiv_sub; [apply lequiv_refl|apply lequiv_sym; exact HE]. Qed.
(* Riemann-Roch *)
Theorem riemann_roch D k : unwinnable_at V m D k <-> unwinnable_at V m (fun v => canonical V m v - D v) (k - deg D - 1 + gg).
Proof. apply (RR_iff V m m_sym gg (canonical V m) canonical_degree RR1_holds N_closed_holds). Qed.
End Glue.
