(* Linear equivalence: an equivalence relation, compatible with +, degree preserving. Firing is -L*(indicator). *)
From Coq Require Import ZArith List Lia Bool Arith.
Import ListNotations.
From CF Require Import ZSum ListAux Defs.
Open Scope Z_scope.

Section G.
Variable V : list nat.
Variable m : nat -> nat -> Z.
Hypothesis m_sym : forall v w, m v w = m w v.
Local Notation lap := (lap V m).
Local Notation deg := (deg V).
Local Notation lequiv := (lequiv V m).
Local Notation effective := (effective V).
Local Notation winnable := (winnable V m).

Lemma lap_add s t v : lap (fun x => s x + t x) v = lap s v + lap t v.
Proof. unfold Defs.lap. rewrite <- zsum_add. apply zsum_ext; intros; ring. Qed.
Lemma lap_neg s v : lap (fun x => - s x) v = - lap s v.
Proof. unfold Defs.lap. rewrite <- zsum_opp. apply zsum_ext; intros; ring. Qed.
Lemma lap_scale c s v : lap (fun x => c * s x) v = c * lap s v.
Proof. unfold Defs.lap. rewrite <- zsum_scale. apply zsum_ext; intros; ring. Qed.
Lemma lap_const c v : lap (fun _ => c) v = 0.
Proof. unfold Defs.lap. rewrite (zsum_ext _ (fun _ => 0)). apply zsum_zero. intros; ring. Qed.
Lemma lap_ext s t v : (forall x, In x V -> s x = t x) -> In v V -> lap s v = lap t v.
Proof. intros H Hv. unfold Defs.lap. apply zsum_ext. intros w Hw. rewrite (H v Hv), (H w Hw). reflexivity. Qed.
Lemma lap_sum_zero s : zsum (lap s) V = 0.
Proof.
  unfold Defs.lap.
  assert (E : zsum (fun v => zsum (fun w => m v w * (s v - s w)) V) V
            = zsum (fun v => zsum (fun w => m v w * s v) V) V - zsum (fun v => zsum (fun w => m v w * s w) V) V).
  { rewrite <- zsum_sub. apply zsum_ext; intros v _. rewrite <- zsum_sub. apply zsum_ext; intros; ring. }
  rewrite E. rewrite (zsum_swap (fun v w => m v w * s w)).
  rewrite (zsum_ext (fun b => zsum (fun a => m a b * s b) V) (fun v => zsum (fun w => m v w * s v) V)); [lia|].
  intros v _. apply zsum_ext; intros w _. rewrite (m_sym w v). ring.
Qed.
Lemma lequiv_refl D : lequiv D D.
Proof. exists (fun _ => 0). intros v _. rewrite lap_const. lia. Qed.
Lemma lequiv_sym D E : lequiv D E -> lequiv E D.
Proof. intros [s H]. exists (fun x => - s x). intros v Hv. rewrite lap_neg, (H v Hv). lia. Qed.
Lemma lequiv_trans D E F : lequiv D E -> lequiv E F -> lequiv D F.
Proof. intros [s H] [t H']. exists (fun x => s x + t x). intros v Hv. rewrite lap_add, (H' v Hv), (H v Hv). lia. Qed.
Lemma lequiv_ext D D' E E' : (forall v, In v V -> D v = D' v) -> (forall v, In v V -> E v = E' v) -> lequiv D E -> lequiv D' E'.
Proof. intros HD HE [s H]. exists s. intros v Hv. rewrite <- (HD v Hv), <- (HE v Hv). auto. Qed.
Lemma lequiv_add D E D' E' : lequiv D E -> lequiv D' E' -> lequiv (fun v => D v + D' v) (fun v => E v + E' v).
Proof. intros [s H] [t H']. exists (fun x => s x + t x). intros v Hv. rewrite lap_add, (H v Hv), (H' v Hv). lia. Qed.
Lemma lequiv_sub D E D' E' : lequiv D E -> lequiv D' E' -> lequiv (fun v => D v - D' v) (fun v => E v - E' v).
Proof. intros [s H] [t H']. exists (fun x => s x + - t x). intros v Hv. rewrite lap_add, lap_neg, (H v Hv), (H' v Hv). lia. Qed.
Lemma lequiv_deg D E : lequiv D E -> deg E = deg D.
Proof. intros [s H]. unfold Defs.deg. rewrite (zsum_ext E (fun v => D v - lap s v)) by exact H.
  rewrite zsum_sub, lap_sum_zero. lia. Qed.
Lemma effective_deg_nonneg E : effective E -> 0 <= deg E.
Proof. intros H. apply zsum_nonneg; auto. Qed.
Lemma neg_deg_unwinnable D : deg D < 0 -> ~ winnable D.
Proof. intros Hd [E [Heq Heff]]. apply lequiv_deg in Heq. pose proof (effective_deg_nonneg E Heff). lia. Qed.
Lemma winnable_lequiv D E : lequiv D E -> winnable E -> winnable D.
Proof. intros H [F [HF Heff]]. exists F. split; auto. eapply lequiv_trans; eauto. Qed.
Lemma winnable_lequiv_iff D E : lequiv D E -> (winnable D <-> winnable E).
Proof. intros H. split; apply winnable_lequiv; auto. now apply lequiv_sym. Qed.
Lemma winnable_ext X Y : (forall v, In v V -> X v = Y v) -> winnable X -> winnable Y.
Proof. intros H [E [[s Hs] HE]]. exists E. split; auto. exists s. intros v Hv. rewrite <- (H v Hv). auto. Qed.
Lemma effective_winnable D : effective D -> winnable D.
Proof. intros H. exists D. split; auto. apply lequiv_refl. Qed.
Lemma winnable_sum X Y : winnable X -> winnable Y -> winnable (fun v => X v + Y v).
Proof. intros [X' [HX HX']] [Y' [HY HY']]. exists (fun v => X' v + Y' v). split.
  - now apply lequiv_add.
  - intros v Hv. specialize (HX' v Hv). specialize (HY' v Hv). lia. Qed.
(* adding chips keeps a divisor winnable *)
Lemma winnable_mono D E : effective E -> winnable D -> winnable (fun v => D v + E v).
Proof. intros HE HD. apply winnable_sum; auto. now apply effective_winnable. Qed.

(* a divisor of degree 0 is winnable iff it is equivalent to 0 *)
Lemma zsum_nonneg_zero (f : nat -> Z) l : (forall x, In x l -> 0 <= f x) -> zsum f l = 0 -> forall x, In x l -> f x = 0.
Proof. induction l as [|a l IH]; intros Hnn Hs x Hx; [destruct Hx|]. cbn in Hs.
  assert (0 <= f a) by (apply Hnn; now left). assert (0 <= zsum f l) by (apply zsum_nonneg; intros; apply Hnn; now right).
  destruct Hx as [<-|Hx]; [lia|]. apply IH; auto. intros; apply Hnn; now right. lia. Qed.
Lemma deg0_winnable_iff D : deg D = 0 -> (winnable D <-> lequiv D (fun _ => 0)).
Proof. intros Hd. split.
  - intros [E [HE Heff]]. pose proof (lequiv_deg _ _ HE) as HdE. rewrite Hd in HdE.
    eapply lequiv_ext; [| |exact HE]; auto. intros v Hv. apply (zsum_nonneg_zero E V); auto.
  - intros H. exists (fun _ => 0). split; auto. intros v _. lia. Qed.

(* firing a set U is subtracting L * indicator U *)
Variable V_nodup : NoDup V.
Lemma fire_is_lap U D v : In v V -> fire V m U D v = D v - lap (indicator U) v.
Proof. intros Hv. unfold fire, Defs.lap, indicator. destruct (U v) eqn:E.
  - assert (zsum (fun x => if U x then 0 else m v x) V = zsum (fun w => m v w * (1 - (if U w then 1 else 0))) V); [|lia].
    apply zsum_ext. intros w _. destruct (U w); ring.
  - assert (zsum (fun u => if U u then m v u else 0) V = - zsum (fun w => m v w * (0 - (if U w then 1 else 0))) V); [|lia].
    rewrite <- zsum_opp. apply zsum_ext. intros w _. destruct (U w); ring. Qed.
Lemma fire_lequiv U D : lequiv D (fire V m U D).
Proof. exists (indicator U). intros v Hv. now apply fire_is_lap. Qed.
Lemma fire_all D v : In v V -> fire V m (fun _ => true) D v = D v.
Proof. intros Hv. rewrite fire_is_lap by auto. unfold indicator. rewrite lap_const. lia. Qed.
End G.
