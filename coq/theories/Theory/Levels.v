(* Connectivity (cut form) yields a level function from q: every other vertex has a neighbour one level closer; levels <= |V|. *)
From Coq Require Import ZArith List Lia Bool Arith.
Import ListNotations.
From CF Require Import ZSum ListAux Defs.
Open Scope Z_scope.

Section L.
Variable V : list nat.
Hypothesis V_nodup : NoDup V.
Variable m : nat -> nat -> Z.
Hypothesis m_sym : forall v w, m v w = m w v.
Hypothesis conn : Defs.connected V m.

Variable q : nat.
Hypothesis q_in : In q V.

Definition tree_on (P : list nat) (lev : nat -> nat) :=
  NoDup P /\ incl P V /\ In q P /\ lev q = 0%nat /\
  (forall v, In v P -> v <> q -> exists p, In p P /\ 0 < m v p /\ (lev p + 1 = lev v)%nat) /\
  (forall v, In v P -> (lev v < length P)%nat).

Lemma missing P : NoDup P -> incl P V -> (length P < length V)%nat -> exists v, In v V /\ ~ In v P.
Proof.
  intros HN HI HL. destruct (existsb (fun v => negb (mem v P)) V) eqn:E.
  - apply existsb_exists in E. destruct E as [v [Hv Hn]]. exists v. split; auto. now apply mem_false, negb_true_iff.
  - exfalso. assert (incl V P).
    { intros v Hv. destruct (mem v P) eqn:Em; [now apply mem_In|]. exfalso.
      assert (existsb (fun v => negb (mem v P)) V = true) by (apply existsb_exists; exists v; split; auto; now rewrite Em). congruence. }
    pose proof (NoDup_incl_length V_nodup H). lia.
Qed.

Lemma grow k : (1 <= k <= length V)%nat -> exists P lev, length P = k /\ tree_on P lev.
Proof.
  induction k as [|k IH]; [lia|]. intros Hk. destruct k as [|k'].
  - exists [q], (fun _ => 0%nat). split; auto. repeat split.
    + constructor; [intros []|constructor].
    + intros v [<-|[]]; auto.
    + now left.
    + intros v [<-|[]] Hne; congruence.
    + intros v _. cbn. lia.
  - destruct IH as [P [lev [HL [HN [HI [Hq [Hl0 [Hpar Hbnd]]]]]]]]; [lia|].
    destruct (missing P HN HI) as [x [Hx Hnx]]; [lia|].
    destruct (conn (fun v => mem v P)) as [v [w [Hv [Hw [Sv [Sw Hm]]]]]].
    { exists q. split; auto. now apply mem_In. }
    { exists x. split; auto. apply negb_true_iff. now apply mem_false. }
    apply mem_In in Sv. apply mem_false in Sw.
    exists (w :: P), (fun y => if Nat.eqb y w then S (lev v) else lev y). split; [cbn; lia|].
    assert (q <> w) by (intro; subst; contradiction).
    repeat split.
    + constructor; auto.
    + intros y [<-|Hy]; auto.
    + now right.
    + destruct (Nat.eqb_spec q w); [contradiction|auto].
    + intros y [<-|Hy] Hne.
      * exists v. split; [now right|]. split; [rewrite m_sym; auto|]. rewrite Nat.eqb_refl.
        destruct (Nat.eqb_spec v w); [subst; contradiction|lia].
      * destruct (Hpar y Hy Hne) as [p [Hp [Hmp Hlp]]]. exists p. split; [now right|]. split; auto.
        destruct (Nat.eqb_spec p w); [subst; contradiction|]. destruct (Nat.eqb_spec y w); [subst; contradiction|]. auto.
    + intros y [<-|Hy]; cbn [length].
      * rewrite Nat.eqb_refl. specialize (Hbnd v Sv). lia.
      * destruct (Nat.eqb_spec y w); [subst; contradiction|]. specialize (Hbnd y Hy). lia.
Qed.

Theorem levels_exist : exists lev : nat -> nat, lev q = 0%nat /\
  (forall v, In v V -> v <> q -> exists p, In p V /\ 0 < m v p /\ (lev p + 1 = lev v)%nat) /\
  (forall v, In v V -> (lev v <= length V)%nat).
Proof.
  destruct (grow (length V)) as [P [lev [HL [HN [HI [Hq [Hl0 [Hpar Hbnd]]]]]]]].
  { destruct V; [destruct q_in|cbn; lia]. }
  assert (incl V P) by (apply NoDup_length_incl; auto; lia).
  exists lev. repeat split; auto.
  - intros v Hv Hne. destruct (Hpar v (H v Hv) Hne) as [p [Hp Hr]]. exists p. split; auto.
  - intros v Hv. specialize (Hbnd v (H v Hv)). lia.
Qed.
End L.

