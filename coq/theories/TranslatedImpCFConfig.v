(* GENERATED on every run by tools/translate_imp.py from the current source in /repo. Do not edit. *)
From Coq Require Import ZArith List Bool Arith.
Import ListNotations.
From CF Require Import PyDict.
Open Scope Z_scope.

(* chipfiring/CFConfig.py :: CFConfig.get_out_degree_S   reads ['self_graph_vertices', 'self_q_vertex', 'self_graph_graph'], writes [], may raise *)
Definition CFConfig_get_out_degree_S (self_graph_vertices : list nat) (self_q_vertex : nat) (self_graph_graph : dictD) (v_name_in_S : nat) (S_names : list nat) : pyres (unit) Z :=
  let v_in_S_obj := v_name_in_S in
  if (negb (s_mem v_in_S_obj self_graph_vertices)) then
  PyExn tt
  else
  if (Nat.eqb v_in_S_obj self_q_vertex) then
  PyExn tt
  else
  if (negb (s_mem v_name_in_S S_names)) then
  PyExn tt
  else
  let S_vertices_objs := S_names in
  let out_degree := 0 in
  if (d_mem v_in_S_obj self_graph_graph) then
  match d_find v_in_S_obj self_graph_graph with None => PyExn tt | Some t1_ =>
  match fold_left (fun acc_ kv_ => match acc_ with PyExn e_ => PyExn e_ | PyOk out_degree => let '(neighbor_vertex, valence) := kv_ in
  if (negb (s_mem neighbor_vertex S_vertices_objs)) then
  let out_degree := (out_degree + valence) in
  PyOk out_degree
  else
  PyOk out_degree end) t1_ (PyOk out_degree) with PyExn e_ => PyExn e_ | PyOk out_degree =>
  PyOk (out_degree) end end
  else
  PyOk (out_degree).
