(* VRM part 2: verified checkers used in "accepted-by-checker" comparisons: linear equivalence through reduced forms,
   debt-concentration post-condition, the orientation certificate of C09. Definitions only. *)
From Coq Require Import ZArith List Lia Bool Arith.
Import ListNotations.
From CF Require Import ZSum ListAux Defs Burn Core.
Open Scope Z_scope.

(* D ~ E decided by comparing q-reduced forms (sound and complete by uniqueness of reduced forms) *)
Definition lin_equiv_q (fuel : nat) (g : graph) (q : nat) (D E : div) : res bool :=
  match ewd_q fuel g q D, ewd_q fuel g q E with
  | Done (_, R1, _), Done (_, R2, _) => Done (div_eqb (nv g) R1 R2)
  | _, _ => OutOfFuel end.
(* post-condition of debt concentration: debt-free off q, same class *)
Definition conc_ok (fuel : nat) (g : graph) (q : nat) (D D' : div) : res bool :=
  if nonneg_off g q D' && Nat.eqb (length D') (nv g) then lin_equiv_q fuel g q D D' else Done false.

(* orientations as lists of (source, target) pairs *)
Definition orient := list (nat * nat).
Definition o_mem (o : orient) (v w : nat) : bool := existsb (fun p => Nat.eqb (fst p) v && Nat.eqb (snd p) w) o.
Definition indeg_o (g : graph) (o : orient) (v : nat) : Z := zsum (fun w => if o_mem o w v then mult g v w else 0) (Vg g).
Definition outdeg_o (g : graph) (o : orient) (v : nat) : Z := zsum (fun w => if o_mem o v w then mult g v w else 0) (Vg g).
(* pos : position of each vertex in a claimed topological order (certificate supplied by the caller) *)
Definition cert_ok (g : graph) (q : nat) (R : div) (o : orient) (pos : list nat) : bool :=
  forallb (fun v => forallb (fun w =>
      if 0 <? mult g v w then xorb (o_mem o v w) (o_mem o w v) && implb (o_mem o v w) (Nat.ltb (nth v pos 0%nat) (nth w pos 0%nat))
      else true) (Vg g)) (Vg g)
  && (indeg_o g o q =? 0)
  && forallb (fun v => Nat.eqb v q || ((1 <=? indeg_o g o v) && (nthZ R v <? indeg_o g o v))) (Vg g).
(* the orientation the model's own burn produces: earlier-burnt -> later-burnt *)
Fixpoint index_of (v : nat) (l : list nat) : nat :=
  match l with [] => 0%nat | x :: t => if Nat.eqb x v then 0%nat else S (index_of v t) end.
Definition burn_orient (g : graph) (B : list nat) : orient :=
  flat_map (fun v => flat_map (fun w => if (0 <? mult g v w) && Nat.ltb (index_of v B) (index_of w B) then [(v, w)] else []) (Vg g)) (Vg g).
Definition burn_pos (g : graph) (B : list nat) : list nat := tab (nv g) (fun v => index_of v B).
