(* VRM part 3: the bookkeeping state machines -- graph construction (CFGraph), divisor moves with validation (CFDivisor /
   CFConfig), divisor arithmetic, firing scripts (CFiringScript), the Laplacian (CFLaplacian) and orientations (CFOrientation).
   Every mutator returns Ok new_state or Err (the request is refused and the caller keeps the old state).
   Vertex ids >= n stand for names that are not vertices of the graph. Definitions only. *)
From Coq Require Import ZArith List Lia Bool Arith.
Import ListNotations.
From CF Require Import ZSum ListAux Defs Core.
Open Scope Z_scope.

Inductive outcome (A : Type) := Ok (a : A) | Err.
Arguments Ok {A} a. Arguments Err {A}.

(* ------------------------------------------------------------------ CFGraph *)
Record gstate := { adj : graph; valc : list Z; tot : Z }.
Fixpoint upd {A} (l : list A) (i : nat) (x : A) : list A :=
  match l, i with [], _ => [] | _ :: t, O => x :: t | y :: t, S j => y :: upd t j x end.
Definition upd2 (g : graph) (a b : nat) (x : Z) : graph := upd g a (upd (nth a g []) b x).
Definition ginit (n : nat) : gstate := {| adj := tab n (fun _ => tab n (fun _ => 0)); valc := tab n (fun _ => 0); tot := 0 |}.
Definition gn (s : gstate) : nat := length (adj s).
(* add_edge: loop check, positivity check, membership check -- then the two adjacency entries, two valences and the total *)
Definition add_edge (s : gstate) (a b : nat) (k : Z) : outcome gstate :=
  if Nat.eqb a b then Err else if k <=? 0 then Err
  else if negb (Nat.ltb a (gn s) && Nat.ltb b (gn s)) then Err
  else Ok {| adj := upd2 (upd2 (adj s) a b (mult (adj s) a b + k)) b a (mult (adj s) b a + k);
             valc := upd (upd (valc s) a (nthZ (valc s) a + k)) b (nthZ (upd (valc s) a (nthZ (valc s) a + k)) b + k);
             tot := tot s + k |}.
(* add_edges: one add_edge per entry, in order; the first refused edge raises, earlier ones stay applied *)
Fixpoint add_edges (s : gstate) (es : list (nat * nat * Z)) : gstate * bool :=
  match es with [] => (s, true) | (a, b, k) :: t =>
    match add_edge s a b k with Err => (s, false) | Ok s' => add_edges s' t end end.
Definition g_genus (s : gstate) : Z := tot s - Z.of_nat (gn s) + 1.
(* remove_vertex: the induced multigraph on the other vertices (fresh object; ids above v shift down) *)
Definition skip (v i : nat) : nat := if Nat.ltb i v then i else S i.
Definition remove_vertex_adj (g : graph) (v : nat) : graph :=
  tab (nv g - 1) (fun a => tab (nv g - 1) (fun b => mult g (skip v a) (skip v b))).
Definition graph_of_adj (g : graph) : gstate :=
  {| adj := g; valc := tab (nv g) (fun v => valg g v); tot := nedges_g g |}.
Definition remove_vertex (s : gstate) (v : nat) : outcome gstate :=
  if Nat.ltb v (gn s) then Ok (graph_of_adj (remove_vertex_adj (adj s) v)) else Err.

(* ------------------------------------------------------------------ CFDivisor moves, with validation *)
Record dstate := { degs : div; total : Z }.   (* total_degree is a cached field, written only by the constructor *)
Definition dinit (g : graph) (D : div) : dstate := {| degs := D; total := degD g D |}.
Inductive move := MLend (v : nat) | MBorrow (v : nat) | MFire (vs : list nat) | MTransfer (a b : nat) (k : Z).
Definition inb (g : graph) (v : nat) : bool := Nat.ltb v (nv g).
Definition dstep (g : graph) (s : dstate) (mv : move) : outcome dstate :=
  match mv with
  | MLend v => if inb g v then Ok {| degs := lend g (degs s) v; total := total s |} else Err
  | MBorrow v => if inb g v then Ok {| degs := borrow g (degs s) v; total := total s |} else Err
  | MFire vs => if forallb (inb g) vs then Ok {| degs := fire_set g (degs s) vs; total := total s |} else Err
  | MTransfer a b k => if k <=? 0 then Err else if inb g a && inb g b then Ok {| degs := transfer g (degs s) a b k; total := total s |} else Err
  end.
Fixpoint drun (g : graph) (s : dstate) (ms : list move) : dstate :=
  match ms with [] => s | mv :: t => match dstep g s mv with Ok s' => drun g s' t | Err => drun g s t end end.
(* configuration-level moves (CFConfig): set_fire additionally refuses q *)
Definition cstep (g : graph) (q : nat) (s : dstate) (mv : move) : outcome dstate :=
  match mv with
  | MFire vs => if forallb (fun v => inb g v && negb (Nat.eqb v q)) vs then dstep g s mv else Err
  | _ => dstep g s mv end.
Definition is_effective_b (g : graph) (D : div) : bool := forallb (fun v => 0 <=? nthZ D v) (Vg g).

(* ------------------------------------------------------------------ divisor arithmetic (operands on vertex sets of sizes n1, n2) *)
Definition d_add (n1 n2 : nat) (D E : div) : outcome div := if Nat.eqb n1 n2 then Ok (dadd n1 D E) else Err.
Definition d_sub (n1 n2 : nat) (D E : div) : outcome div := if Nat.eqb n1 n2 then Ok (dsub n1 D E) else Err.
Definition d_eqb (g1 : graph) (D : div) (g2 : graph) (E : div) : bool := graph_eqb g1 g2 && div_eqb (nv g1) D E.
Definition chip_at (n v : nat) : outcome div := if Nat.ltb v n then Ok (tab n (fun w => if Nat.eqb w v then 1 else 0)) else Err.

(* ------------------------------------------------------------------ CFiringScript and CFLaplacian *)
Inductive sop := SSet (v : nat) (k : Z) | SUpdate (v : nat) (k : Z).
Definition sstep (n : nat) (s : list Z) (o : sop) : outcome (list Z) :=
  match o with
  | SSet v k => if Nat.ltb v n then Ok (upd s v k) else Err
  | SUpdate v k => if Nat.ltb v n then Ok (upd s v (nthZ s v + k)) else Err end.
Fixpoint srun (n : nat) (s : list Z) (os : list sop) : list Z :=
  match os with [] => s | o :: t => match sstep n s o with Ok s' => srun n s' t | Err => srun n s t end end.
Definition lap_entry (g : graph) (v w : nat) : Z := if Nat.eqb v w then valg g v else - mult g v w.
Definition lap_matrix (g : graph) : list (list Z) := tab (nv g) (fun v => tab (nv g) (lap_entry g v)).
Definition lap_reduced (g : graph) (q : nat) : list (list Z) :=
  map (fun v => map (lap_entry g v) (filter (fun w => negb (Nat.eqb w q)) (Vg g))) (filter (fun v => negb (Nat.eqb v q)) (Vg g)).
Definition lap_apply (g : graph) (D : div) (s : list Z) : div :=
  tab (nv g) (fun v => nthZ D v - zsum (fun w => lap_entry g v w * nthZ s w) (Vg g)).
(* the same result by performing the scripted lends / borrows one at a time *)
Fixpoint lend_times (k : nat) (g : graph) (D : div) (v : nat) : div := match k with O => D | S j => lend_times j g (lend g D v) v end.
Fixpoint borrow_times (k : nat) (g : graph) (D : div) (v : nat) : div := match k with O => D | S j => borrow_times j g (borrow g D v) v end.
Definition scripted_moves (g : graph) (D : div) (s : list Z) (order : list nat) : div :=
  fold_left (fun D v => if 0 <=? nthZ s v then lend_times (Z.to_nat (nthZ s v)) g D v else borrow_times (Z.to_nat (- nthZ s v)) g D v) order D.

(* ------------------------------------------------------------------ CFOrientation *)
(* dir a b : 0 = unoriented, 1 = a -> b (a is the source), 2 = b -> a *)
Record ostate := { dir : list (list Z); inc : list Z; outc : list Z; is_full : bool; is_full_checked : bool }.
Definition dir_at (s : ostate) (a b : nat) : Z := mult (dir s) a b.
Definition full_b (g : graph) (s : ostate) : bool :=
  forallb (fun v => forallb (fun w => if (0 <? mult g v w) && Nat.ltb v w then negb (dir_at s v w =? 0) else true) (Vg g)) (Vg g).
Definition check_fullness (g : graph) (s : ostate) : ostate * bool :=
  let f := full_b g s in ({| dir := dir s; inc := inc s; outc := outc s; is_full := f; is_full_checked := true |}, f).
Definition mirror (st : Z) : Z := if st =? 1 then 2 else if st =? 2 then 1 else 0.
Definition bump (l : list Z) (v : nat) (d : Z) : list Z := upd l v (nthZ l v + d).
Definition set_orientation (g : graph) (s : ostate) (a b : nat) (st : Z) : outcome ostate :=
  if negb (inb g a && inb g b) then Err else if mult g a b <=? 0 then Err
  else if negb ((st =? 0) || (st =? 1) || (st =? 2)) then Err else   (* OrientationState is a three-valued enum *)
  let k := mult g a b in let old := dir_at s a b in
  let '(o1, i1) := if old =? 1 then (bump (outc s) a (- k), bump (inc s) b (- k))
                   else if old =? 2 then (bump (outc s) b (- k), bump (inc s) a (- k)) else (outc s, inc s) in
  let '(o2, i2) := if st =? 1 then (bump o1 a k, bump i1 b k)
                   else if st =? 2 then (bump o1 b k, bump i1 a k) else (o1, i1) in
  Ok {| dir := upd2 (upd2 (dir s) a b st) b a (mirror st); inc := i2; outc := o2;
        is_full := if st =? 0 then false else is_full s;
        is_full_checked := if st =? 0 then true else if (old =? 0) then false else is_full_checked s |}.
Definition oinit (g : graph) : ostate :=
  {| dir := tab (nv g) (fun _ => tab (nv g) (fun _ => 0)); inc := tab (nv g) (fun _ => 0); outc := tab (nv g) (fun _ => 0);
     is_full := false; is_full_checked := false |}.
(* constructor: every listed (source, sink) must be an edge that is still unoriented; then one fullness check *)
Fixpoint oconstruct_go (g : graph) (s : ostate) (os : list (nat * nat)) : outcome ostate :=
  match os with [] => Ok (fst (check_fullness g s)) | (a, b) :: t =>
    if negb (inb g a && inb g b) then Err else if mult g a b <=? 0 then Err
    else if negb (dir_at s a b =? 0) then Err
    else match set_orientation g s a b 1 with Err => Err | Ok s' => oconstruct_go g s' t end end.
Definition oconstruct (g : graph) (os : list (nat * nat)) : outcome ostate := oconstruct_go g (oinit g) os.
Definition ensure_checked (g : graph) (s : ostate) : ostate := if is_full_checked s then s else fst (check_fullness g s).
Definition o_divisor (g : graph) (s : ostate) : ostate * outcome div :=
  let s' := ensure_checked g s in
  (s', if is_full s' then Ok (tab (nv g) (fun v => nthZ (inc s') v - 1)) else Err).
Definition o_reverse (g : graph) (s : ostate) : ostate * outcome ostate :=
  let s' := ensure_checked g s in
  (s', if is_full s' then
         oconstruct g (flat_map (fun a => flat_map (fun b => if (0 <? mult g a b) && (dir_at s' a b =? 2) then [(a, b)] else []) (Vg g)) (Vg g))
       else Err).
Definition o_get (g : graph) (s : ostate) (a b : nat) : outcome Z :=
  if negb (inb g a && inb g b) then Err else if mult g a b <=? 0 then Err else Ok (dir_at s a b).
