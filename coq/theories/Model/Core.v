(* The verified reference model (VRM), part 1: concrete multigraphs (multiplicity matrix as list of rows),
   divisors (list Z), chip moves, debt concentration, Dhar burn, the EWD loop, q-reduction, winnability,
   linear equivalence, rank and gonality -- structured like chipfiring/{CFDivisor,CFDhar,algo,CFRank,CFGonality}.py.
   Definitions only; every theorem about them lives in Link/ and Props/. *)
From Coq Require Import ZArith List Lia Bool Arith.
Import ListNotations.
From CF Require Import ZSum ListAux Defs Burn.
Open Scope Z_scope.

Definition graph := list (list Z).
Definition div := list Z.
Definition nv (g : graph) : nat := length g.
Definition mult (g : graph) (v w : nat) : Z := nthZ (nth v g []) w.
Definition Vg (g : graph) : list nat := seq 0 (nv g).
(* well-formed: square, non-negative, symmetric, zero diagonal  (CFGraph invariants, property C13) *)
Definition wfb (g : graph) : bool :=
  forallb (fun r => Nat.eqb (length r) (nv g)) g &&
  forallb (fun v => forallb (fun w => (0 <=? mult g v w) && (mult g v w =? mult g w v)) (Vg g) && (mult g v v =? 0)) (Vg g).
Definition valg (g : graph) (v : nat) : Z := val (Vg g) (mult g) v.
Definition nedges_g (g : graph) : Z := nedges (Vg g) (mult g).
Definition genus_g (g : graph) : Z := genus (Vg g) (mult g).
Definition degD (g : graph) (D : div) : Z := deg (Vg g) (nthZ D).
Definition graph_eqb (g h : graph) : bool :=
  Nat.eqb (nv g) (nv h) && forallb (fun v => forallb (fun w => mult g v w =? mult h v w) (Vg g)) (Vg g).
Definition div_eqb (n : nat) (D E : div) : bool := forallb (fun v => nthZ D v =? nthZ E v) (seq 0 n).

(* breadth-first connectivity test (used as the executable form of the hypothesis "connected") *)
Definition reach_step (g : graph) (R : list nat) : list nat :=
  fold_left (fun R v => if mem v R then R else if existsb (fun w => 0 <? mult g v w) R then R ++ [v] else R) (Vg g) R.
Definition reach (g : graph) (q : nat) : list nat := iter (nv g) (reach_step g) [q].
Definition connected_b (g : graph) : bool := forallb (fun v => mem v (reach g 0%nat)) (Vg g).

(* ---- chip moves (CFDivisor.lending_move / borrowing_move / set_fire / chip_transfer) ---- *)
Definition lend (g : graph) (D : div) (v : nat) : div :=
  tab (nv g) (fun w => if Nat.eqb w v then nthZ D w - valg g v else nthZ D w + mult g v w).
Definition borrow (g : graph) (D : div) (v : nat) : div :=
  tab (nv g) (fun w => if Nat.eqb w v then nthZ D w + valg g v else nthZ D w - mult g v w).
Definition fire_set (g : graph) (D : div) (U : list nat) : div :=
  tab (nv g) (fire (Vg g) (mult g) (fun v => mem v U) (nthZ D)).
Definition transfer (g : graph) (D : div) (a b : nat) (k : Z) : div :=
  tab (nv g) (fun w => nthZ D w - (if Nat.eqb w a then k else 0) + (if Nat.eqb w b then k else 0)).

(* ---- debt concentration (DharAlgorithm.send_debt_to_q, with the pass iterated to a fixpoint) ---- *)
Inductive res (A : Type) := Done (a : A) | OutOfFuel.
Arguments Done {A} a. Arguments OutOfFuel {A}.

Fixpoint borrow_while (fuel : nat) (g : graph) (D : div) (v : nat) : res div :=
  match fuel with O => OutOfFuel | S f =>
    if nthZ D v <? 0 then borrow_while f g (borrow g D v) v else Done D end.
Fixpoint pass (fuel : nat) (g : graph) (q : nat) (vs : list nat) (D : div) : res div :=
  match vs with [] => Done D | v :: t =>
    if Nat.eqb v q then pass fuel g q t D else
    match borrow_while fuel g D v with OutOfFuel => OutOfFuel | Done D' => pass fuel g q t D' end end.
Definition nonneg_off (g : graph) (q : nat) (D : div) : bool :=
  forallb (fun v => Nat.eqb v q || (0 <=? nthZ D v)) (Vg g).
Fixpoint concentrate (fuel : nat) (g : graph) (q : nat) (ord : list nat) (D : div) : res div :=
  match fuel with O => OutOfFuel | S f =>
    if nonneg_off g q D then Done D else
    match pass (S f) g q ord D with OutOfFuel => OutOfFuel | Done D' => concentrate f g q ord D' end end.
(* the pre-repair behaviour (one pass only): kept to state the regression theorem send_debt_single_pass_refuted *)
Definition concentrate_single_pass (fuel : nat) (g : graph) (q : nat) (ord : list nat) (D : div) : res div :=
  pass fuel g q ord D.

(* ---- Dhar burn (DharAlgorithm.run): passes over the vertices in increasing id (= sorted name) order ---- *)
Definition burn_list (g : graph) (q : nat) (D : div) : list nat := burn (Vg g) (mult g) q (nthZ D).
Definition unburnt_list (g : graph) (q : nat) (D : div) : list nat := unburnt (Vg g) (mult g) q (nthZ D).

(* ---- EWD main loop (algo.EWD): run(); while unburnt: set_fire(unburnt); run() ---- *)
Fixpoint reduce_loop (fuel : nat) (g : graph) (q : nat) (ord : list nat) (D : div) : res (div * list nat) :=
  match fuel with O => OutOfFuel | S f =>
    match concentrate (S f) g q ord D with OutOfFuel => OutOfFuel | Done D1 =>
      match unburnt_list g q D1 with
      | [] => Done (D1, burn_list g q D1)
      | U => reduce_loop f g q ord (fire_set g D1 U) end end end.

(* first minimum with ties broken by least id (= least name): the repaired sink choice *)
Definition is_minb (D : div) (x : Z) : bool := forallb (fun y => x <=? y) D.
Fixpoint find_first (p : Z -> bool) (l : list Z) (i : nat) : nat :=
  match l with [] => i | x :: t => if p x then i else find_first p t (S i) end.
Definition argmin (D : div) : nat := find_first (is_minb D) D 0.
Definition default_ord (g : graph) (q : nat) : list nat := filter (fun v => negb (Nat.eqb v q)) (rev (Vg g)).

Definition ewd_q (fuel : nat) (g : graph) (q : nat) (D : div) : res (bool * div * list nat) :=
  match reduce_loop fuel g q (default_ord g q) D with OutOfFuel => OutOfFuel
  | Done (R, B) => Done (0 <=? nthZ R q, R, B) end.
Definition ewd (fuel : nat) (g : graph) (D : div) (opt : bool) : res (bool * option div * option (list nat)) :=
  let td := degD g D in
  if opt && (td <? 0) then Done (false, None, None)
  else if opt && (genus_g g <=? td) then Done (true, None, None)
  else match ewd_q fuel g (argmin D) D with OutOfFuel => OutOfFuel
       | Done (b, R, B) => Done (b, Some R, Some B) end.
Definition is_winnable (fuel : nat) (g : graph) (D : div) : res bool :=
  match ewd fuel g D true with OutOfFuel => OutOfFuel | Done (b, _, _) => Done b end.
Definition winnable_plain (fuel : nat) (g : graph) (D : div) : res bool :=
  match ewd fuel g D false with OutOfFuel => OutOfFuel | Done (b, _, _) => Done b end.
Definition q_reduction (fuel : nat) (g : graph) (D : div) : res (nat * div) :=
  match ewd_q fuel g (argmin D) D with OutOfFuel => OutOfFuel | Done (_, R, _) => Done (argmin D, R) end.
(* decision procedure for "D is q-reduced": specification of algo.is_q_reduced *)
Definition reduced_b (g : graph) (q : nat) (D : div) : bool :=
  nonneg_off g q D && match unburnt_list g q D with [] => true | _ => false end.

(* ---- linear equivalence (algo.linear_equivalence, with a structural graph gate) ---- *)
Definition dsub (n : nat) (D E : div) : div := tab n (fun v => nthZ D v - nthZ E v).
Definition dadd (n : nat) (D E : div) : div := tab n (fun v => nthZ D v + nthZ E v).
Definition dneg (n : nat) (D : div) : div := tab n (fun v => - nthZ D v).
Definition dscale (n : nat) (k : Z) (D : div) : div := tab n (fun v => k * nthZ D v).
Definition linear_equivalence (fuel : nat) (g1 : graph) (D1 : div) (g2 : graph) (D2 : div) : res bool :=
  if negb (graph_eqb g1 g2) then Done false
  else if negb (degD g1 D1 =? degD g1 D2) then Done false
  else if div_eqb (nv g1) D1 D2 then Done true
  else is_winnable fuel g1 (dsub (nv g1) D1 D2).

(* ---- combinations with replacement over vertices 0..n-1, as chip-count vectors, in itertools order ---- *)
Fixpoint placements (n : nat) (k : nat) : list (list Z) :=
  match n with
  | O => match k with O => [[]] | _ => [] end
  | S n' => flat_map (fun j => map (fun t => Z.of_nat j :: t) (placements n' (k - j))) (rev (seq 0 (S k)))
  end.

(* ---- rank (CFRank._calculate_rank) ---- *)
Definition all_winnable (fuel : nat) (g : graph) (Ds : list div) : res bool :=
  fold_left (fun acc E => match acc with Done true => winnable_plain fuel g E | other => other end) Ds (Done true).
Fixpoint rank_loop (kfuel : nat) (fuel : nat) (g : graph) (D : div) (k : nat) : res Z :=
  match kfuel with O => OutOfFuel | S kf =>
    match all_winnable fuel g (map (fun E => dsub (nv g) D E) (placements (nv g) k)) with
    | OutOfFuel => OutOfFuel
    | Done false => Done (Z.of_nat k - 1)
    | Done true => rank_loop kf fuel g D (S k) end end.
Definition rank_plain (kfuel fuel : nat) (g : graph) (D : div) : res Z :=
  match winnable_plain fuel g D with OutOfFuel => OutOfFuel
  | Done false => Done (-1)
  | Done true => rank_loop kfuel fuel g D 1 end.
Definition canonical_g (g : graph) : div := tab (nv g) (fun v => valg g v - 2).
(* optimized mode as repaired: Corollary deg > 2g-2, else Riemann-Roch through K-D when that has smaller degree *)
Definition rank_opt (kfuel fuel : nat) (g : graph) (D : div) : res Z :=
  match winnable_plain fuel g D with OutOfFuel => OutOfFuel
  | Done false => Done (-1)
  | Done true =>
    let d := degD g D in let gg := genus_g g in
    if 2 * gg - 2 <? d then Done (d - gg)
    else let KD := dsub (nv g) (canonical_g g) D in
      if degD g KD <? d then
        match rank_plain kfuel fuel g KD with OutOfFuel => OutOfFuel | Done r' => Done (r' + d + 1 - gg) end
      else rank_loop kfuel fuel g D 1 end.
(* the pre-repair optimized mode: returns r(K-D) uncorrected and ungated *)
Definition rank_opt_uncorrected (kfuel fuel : nat) (g : graph) (D : div) : res Z :=
  match winnable_plain fuel g D with OutOfFuel => OutOfFuel
  | Done false => Done (-1)
  | Done true =>
    let d := degD g D in let gg := genus_g g in
    if 2 * gg - 2 <? d then Done (d - gg)
    else let KD := dsub (nv g) (canonical_g g) D in
      if degD g KD <? d then rank_loop kfuel fuel g KD 1 else rank_loop kfuel fuel g D 1 end.

(* ---- gonality (CFGonality) ---- *)
Definition sub1 (n : nat) (D : div) (v : nat) : div := tab n (fun w => if Nat.eqb w v then nthZ D w - 1 else nthZ D w).
Definition play_game (fuel : nat) (g : graph) (D : div) (v : nat) : res bool := is_winnable fuel g (sub1 (nv g) D v).
(* losing vertices of a placement, in increasing id order; OutOfFuel propagates *)
Fixpoint losing (fuel : nat) (g : graph) (D : div) (vs : list nat) : res (list nat) :=
  match vs with [] => Done [] | v :: t =>
    match play_game fuel g D v, losing fuel g D t with
    | Done b, Done l => Done (if b then l else v :: l)
    | _, _ => OutOfFuel end end.
Definition test_strategy (fuel : nat) (g : graph) (D : div) : res (bool * list nat) :=
  match losing fuel g D (Vg g) with OutOfFuel => OutOfFuel
  | Done l => Done (match l with [] => true | _ => false end, l) end.
Fixpoint winning_among (fuel : nat) (g : graph) (cap : option nat) (Ps : list div) : res (list div) :=
  match Ps with [] => Done [] | P :: t =>
    match cap with Some O => Done [] | _ =>
      match test_strategy fuel g P with OutOfFuel => OutOfFuel
      | Done (true, _) =>
          match winning_among fuel g (match cap with Some (S c) => Some c | other => other end) t with
          | OutOfFuel => OutOfFuel | Done l => Done (P :: l) end
      | Done (false, _) => winning_among fuel g cap t end end end.
Definition find_strategies (fuel : nat) (g : graph) (k : nat) (cap : option nat) : res (list div) :=
  winning_among fuel g cap (placements (nv g) k).
Fixpoint gon_search (fuel : nat) (g : graph) (cap : nat) (ks : list nat) : res (Z * list div) :=
  match ks with [] => Done (-1, []) | k :: t =>
    match find_strategies fuel g k (Some cap) with OutOfFuel => OutOfFuel
    | Done [] => gon_search fuel g cap t
    | Done l => Done (Z.of_nat k, l) end end.
(* compute_gonality(max_gonality, find_strategies): cap 5 when strategies are collected, 1 otherwise *)
Definition compute_gonality (fuel : nat) (g : graph) (maxg : nat) (fs : bool) : res (Z * list div) :=
  gon_search fuel g (if fs then 5%nat else 1%nat) (seq 1 maxg).

(* ---- per-sink Dhar-based search (CFGonalityDhar.enhanced_dhar_gonality_test): chips on V - {q} surviving -1 at q ---- *)
Definition test_at_q (fuel : nat) (g : graph) (q : nat) (P : div) : res bool := is_winnable fuel g (sub1 (nv g) P q).
Fixpoint filter_res {A} (f : A -> res bool) (l : list A) : res (list A) :=
  match l with [] => Done [] | x :: t =>
    match f x, filter_res f t with Done b, Done r => Done (if b then x :: r else r) | _, _ => OutOfFuel end end.
Definition off_q (n q k : nat) : list div := filter (fun P => nthZ P q =? 0) (placements n k).
Fixpoint per_sink_search (fuel : nat) (g : graph) (q : nat) (ks : list nat) (dflt : nat) : res (nat * list div) :=
  match ks with [] => Done (dflt, []) | k :: t =>
    match filter_res (test_at_q fuel g q) (off_q (nv g) q k) with
    | OutOfFuel => OutOfFuel | Done [] => per_sink_search fuel g q t dflt | Done l => Done (k, l) end end.
Definition per_sink (fuel : nat) (g : graph) (q : nat) (maxg : nat) : res (nat * list div) := per_sink_search fuel g q (seq 1 maxg) (S maxg).

(* ---- recording variant of the EWD loop (visualize=True): the same computation, plus the list of snapshots taken on the way ---- *)
Fixpoint reduce_loop_rec (fuel : nat) (g : graph) (q : nat) (ord : list nat) (D : div) (hist : list div) : res (div * list nat * list div) :=
  match fuel with O => OutOfFuel | S f =>
    match concentrate (S f) g q ord D with OutOfFuel => OutOfFuel | Done D1 =>
      match unburnt_list g q D1 with
      | [] => Done (D1, burn_list g q D1, hist ++ [D1])
      | U => reduce_loop_rec f g q ord (fire_set g D1 U) (hist ++ [D1; fire_set g D1 U]) end end end.
(* analysis calls as they act on the caller's divisor: the in-place family replaces it by the reduced divisor, the others leave it alone *)
Inductive call := CReduce (q : nat) | CPure.
Definition apply_call (fuel : nat) (g : graph) (D : div) (c : call) : div :=
  match c with CPure => D | CReduce q => match ewd_q fuel g q D with Done (_, R, _) => R | OutOfFuel => D end end.
Definition fst_res {A B} (r : res (A * B)) : option A := match r with Done (a, _) => Some a | OutOfFuel => None end.
