(* VRM part 4: configurations (CFConfig): legality of set firings, superstability by enumeration, the partial order;
   parking functions (CFCombinatorics); exact determinant for the matrix-tree identity. Definitions only. *)
From Coq Require Import ZArith List Lia Bool Arith.
Import ListNotations.
From CF Require Import ZSum ListAux Defs Core Machines.
Open Scope Z_scope.

(* is_legal_set_firing: fire a copy, then test the members *)
Definition legal_b (g : graph) (D : div) (S : list nat) : bool :=
  match S with [] => false | _ => forallb (fun v => 0 <=? nthZ (fire_set g D S) v) S end.
Definition is_legal_set_firing (g : graph) (q : nat) (D : div) (S : list nat) : outcome bool :=
  match S with [] => Ok false | _ => if forallb (fun v => inb g v && negb (Nat.eqb v q)) S then Ok (legal_b g D S) else Err end.
Fixpoint sublists {A} (l : list A) : list (list A) :=
  match l with [] => [[]] | x :: t => map (cons x) (sublists t) ++ sublists t end.
Definition vtilde (g : graph) (q : nat) : list nat := filter (fun v => negb (Nat.eqb v q)) (Vg g).
(* is_superstable: non-negative and no non-empty subset of V - {q} is legal (all subsets are enumerated) *)
Definition superstable_enum (g : graph) (q : nat) (D : div) : bool :=
  nonneg_off g q D && forallb (fun S => match S with [] => true | _ => negb (legal_b g D S) end) (sublists (vtilde g q)).
Definition out_degree_S (g : graph) (v : nat) (S : list nat) : Z := zsum (fun w => if mem w S then 0 else mult g v w) (Vg g).
(* comparison operators: the vertex-wise order on V - {q}; configurations with different q or graph are incomparable *)
Definition cfg_le (g : graph) (q : nat) (D E : div) : bool := forallb (fun v => nthZ D v <=? nthZ E v) (vtilde g q).
Definition cfg_eq (g : graph) (q : nat) (D E : div) : bool := forallb (fun v => nthZ D v =? nthZ E v) (vtilde g q).
Definition cfg_lt (g : graph) (q : nat) (D E : div) : bool := cfg_le g q D E && negb (cfg_eq g q D E).

(* ---- parking functions ---- *)
Fixpoint insert_sorted (x : Z) (l : list Z) : list Z := match l with [] => [x] | y :: t => if x <=? y then x :: l else y :: insert_sorted x t end.
Definition sort (l : list Z) : list Z := fold_right insert_sorted [] l.
Fixpoint prefix_ok (i : Z) (l : list Z) : bool := match l with [] => true | x :: t => (x <=? i) && prefix_ok (i + 1) t end.
Definition is_parking_n (a : list Z) (n : nat) : bool :=
  match a with [] => true | _ =>
    Nat.eqb (length a) n && forallb (fun x => (1 <=? x) && (x <=? Z.of_nat n)) a && prefix_ok 1 (sort a) end.
Definition is_parking (a : list Z) : bool := is_parking_n a (length a).
Fixpoint all_seqs (vals : list Z) (n : nat) : list (list Z) :=
  match n with O => [[]] | S k => flat_map (fun x => map (cons x) (all_seqs vals k)) vals end.
Definition range1 (n : nat) : list Z := map (fun i => Z.of_nat i) (seq 1 n).
Definition generate_parking (n : nat) : list (list Z) := match n with O => [] | _ => filter (fun a => is_parking_n a n) (all_seqs (range1 n) n) end.
Definition parking_count (n : nat) : Z := match n with O => 0 | _ => (Z.of_nat n + 1) ^ (Z.of_nat n - 1) end.
(* the counting form of the parking condition *)
Definition is_parking_count (a : list Z) : bool :=
  let n := length a in forallb (fun x => (1 <=? x) && (x <=? Z.of_nat n)) a &&
  forallb (fun j => Z.of_nat j <=? Z.of_nat (length (filter (fun x => x <=? Z.of_nat j) a))) (seq 1 n).

(* ---- exact integer determinant by cofactor expansion along the first row (small matrices only) ---- *)
Definition drop_col {A} (j : nat) (r : list A) : list A := firstn j r ++ skipn (S j) r.
Fixpoint det_fuel (fuel : nat) (M : list (list Z)) : Z :=
  match fuel with O => 0 | S f =>
    match M with [] => 1 | r :: rest =>
      zsum (fun j => (if Nat.even j then 1 else -1) * nthZ r j * det_fuel f (map (drop_col j) rest)) (seq 0 (length r)) end end.
Definition det (M : list (list Z)) : Z := det_fuel (S (length M)) M.
(* number of superstable configurations w.r.t. q: configurations below the valence box, counted by enumeration *)
Fixpoint boxes (bounds : list Z) : list (list Z) :=
  match bounds with [] => [[]] | b :: t => flat_map (fun x => map (cons (Z.of_nat x)) (boxes t)) (seq 0 (Z.to_nat b)) end.
Definition insert_at (q : nat) (x : Z) (l : list Z) : list Z := firstn q l ++ x :: skipn q l.
Definition count_superstables (g : graph) (q : nat) : Z :=
  Z.of_nat (length (filter (fun c => reduced_b g q (insert_at q 0 c)) (boxes (map (valg g) (vtilde g q))))).

(* ---- independence number, complete (multipartite) graphs, the theorem-backed bounds (CFCombinatorics / CFPlatonicSolids) ---- *)
Definition is_independent (g : graph) (S : list nat) : bool := forallb (fun v => forallb (fun w => mult g v w =? 0) S) S.
Definition indep_number (g : graph) : nat := fold_right Nat.max 0%nat (map (@length nat) (filter (is_independent g) (sublists (Vg g)))).
Definition min_degree (g : graph) : Z := match Vg g with [] => 0 | v :: t => fold_right Z.min (valg g v) (map (valg g) t) end.
Definition is_complete_simple (g : graph) : bool := forallb (fun v => forallb (fun w => if Nat.eqb v w then true else mult g v w =? 1) (Vg g)) (Vg g).
Definition part_of (parts : list nat) (v : nat) : nat :=
  (fix go (ps : list nat) (v i : nat) := match ps with [] => i | p :: t => if Nat.ltb v p then i else go t (v - p)%nat (S i) end) parts v 0%nat.
Definition complete_multipartite (parts : list nat) : graph :=
  let n := fold_right plus 0%nat parts in tab n (fun v => tab n (fun w => if Nat.eqb (part_of parts v) (part_of parts w) then 0 else 1)).
(* the formula as implemented (smallest part) and the correct one (largest part) *)
Definition multipartite_formula_as_implemented (parts : list nat) : Z :=
  match parts with [] => 0 | [p] => Z.of_nat p - 1 | p :: t => Z.of_nat (fold_right plus 0%nat parts) - Z.of_nat (fold_right Nat.min p t) end.
