(* VRM part 6: the dictionary forms (to_dict / from_dict of CFGraph, CFDivisor, CFiringScript, CFOrientation) for well-typed dictionaries:
   vertices = list of names, edges = list of (name, name, multiplicity), degrees / script = association list name -> integer,
   orientations = list of (source, sink). Python's json codec and the dynamic typing of ill-typed dictionaries are NOT modelled. Definitions only. *)
From Coq Require Import ZArith List Bool Arith.
Import ListNotations.
From CF Require Import ZSum ListAux Defs Core Machines Txt.
Open Scope Z_scope.

Record gdict := { d_vertices : list str; d_edges : list (str * str * Z) }.
(* to_dict: sorted vertex names; one entry per pair v1 < v2 (by name) in name order, with the merged multiplicity *)
Definition dedge_list (g : graph) : list (nat * nat * Z) :=
  flat_map (fun a => flat_map (fun b => if Nat.ltb a b && (0 <? mult g a b) then [(a, b, mult g a b)] else []) (Vg g)) (Vg g).
Definition graph_to_dict (names : list str) (g : graph) : gdict :=
  {| d_vertices := names; d_edges := map (fun e => (nth (fst (fst e)) names [], nth (snd (fst e)) names [], snd e)) (dedge_list g) |}.
(* from_dict: set(vertices), then the constructor adds the edges in order *)
Definition graph_from_dict (d : gdict) : option (list str * gstate) :=
  build_graph {| r_names := Some (d_vertices d); r_edges := d_edges d; r_flag := false; r_payload := []; r_bad := false |}.

(* divisor: {"graph": ..., "degrees": {name: chips}}; the constructor refuses unknown names and names listed twice (a dict has no duplicates) *)
Definition zdiv_step (vs : list str) (acc : option (div * list nat)) (p : str * Z) : option (div * list nat) :=
  match acc with None => None | Some (D, seen) =>
    match index_name (fst p) vs 0 with Some v => if mem v seen then None else Some (upd D v (snd p), v :: seen) | None => None end end.
Definition divisor_to_dict (names : list str) (g : graph) (D : div) : gdict * list (str * Z) :=
  (graph_to_dict names g, map (fun v => (nth v names [], nthZ D v)) (Vg g)).
Definition divisor_from_dict (d : gdict * list (str * Z)) : option (list str * gstate * div) :=
  match graph_from_dict (fst d) with None => None | Some (vs, g) =>
    match fold_left (zdiv_step vs) (snd d) (Some (tab (length vs) (fun _ => 0), [])) with None => None | Some (D, _) => Some (vs, g, D) end end.

(* firing script: only the stored (here: non-zero) entries are written; the constructor refuses unknown names *)
Definition zscript_step (vs : list str) (acc : option (list Z)) (p : str * Z) : option (list Z) :=
  match acc with None => None | Some D => match index_name (fst p) vs 0 with Some v => Some (upd D v (snd p)) | None => None end end.
Definition script_to_dict (names : list str) (g : graph) (s : list Z) : gdict * list (str * Z) :=
  (graph_to_dict names g, map (fun v => (nth v names [], nthZ s v)) (filter (fun v => negb (nthZ s v =? 0)) (Vg g))).
Definition script_from_dict (d : gdict * list (str * Z)) : option (list str * gstate * list Z) :=
  match graph_from_dict (fst d) with None => None | Some (vs, g) =>
    match fold_left (zscript_step vs) (snd d) (Some (tab (length vs) (fun _ => 0))) with None => None | Some D => Some (vs, g, D) end end.

(* orientation: one [source, sink] entry per oriented edge, edges visited as pairs v1 < v2 in name order *)
Definition odict_pairs (g : graph) (o : ostate) : list (nat * nat) :=
  flat_map (fun a => flat_map (fun b => if Nat.ltb a b && (0 <? mult g a b) then
     (if dir_at o a b =? 1 then [(a, b)] else if dir_at o a b =? 2 then [(b, a)] else []) else []) (Vg g)) (Vg g).
Definition orientation_to_dict (names : list str) (g : graph) (o : ostate) : gdict * list (str * str) :=
  (graph_to_dict names g, map (fun p => (nth (fst p) names [], nth (snd p) names [])) (odict_pairs g o)).
Definition orientation_from_dict (d : gdict * list (str * str)) : option (list str * gstate * ostate) :=
  match graph_from_dict (fst d) with None => None | Some (vs, g) =>
    match orient_pairs vs (snd d) with None => None | Some ps => match oconstruct (adj g) ps with Ok o => Some (vs, g, o) | Err => None end end end.
