(* VRM part 6: the line-oriented TXT format of CFDataProcessor (to_txt / read_txt) over strings as lists of Unicode code points.
   The string primitives are executable re-statements of the Python operations the reader uses (str.strip, str.split(','), str.replace(kw, ''),
   str.startswith, int(), text-mode line iteration with universal newlines); they are MODELLED, not verified against CPython.
   Objects are returned in canonical form: sorted distinct vertex names, multiplicity matrix, and the kind-specific payload by vertex index. *)
From Coq Require Import ZArith NArith List Lia Bool Arith.
Import ListNotations.
From CF Require Import ZSum ListAux Defs Core Machines.
Open Scope Z_scope.

Definition str := list N.
Definition k_VERTICES : str := [86;69;82;84;73;67;69;83;58]%N.
Definition k_EDGE : str := [69;68;71;69;58]%N.
Definition k_GVERTICES : str := [71;82;65;80;72;95;86;69;82;84;73;67;69;83;58]%N.
Definition k_GEDGE : str := [71;82;65;80;72;95;69;68;71;69;58]%N.
Definition k_DEGREES : str := [45;45;45;68;69;71;82;69;69;83;45;45;45]%N.
Definition k_DEGREE : str := [68;69;71;82;69;69;58]%N.
Definition k_ORIENTATIONS : str := [45;45;45;79;82;73;69;78;84;65;84;73;79;78;83;45;45;45]%N.
Definition k_ORIENTED : str := [79;82;73;69;78;84;69;68;58]%N.
Definition k_SCRIPT : str := [45;45;45;83;67;82;73;80;84;45;45;45]%N.
Definition k_FIRING : str := [70;73;82;73;78;71;58]%N.
Definition k_COMMASP : str := [44;32]%N.
Definition k_SP : str := [32]%N.

(* str.isspace() of CPython 3.12: exactly these 29 code points (measured on the installed interpreter) *)
Definition is_space (c : N) : bool :=
  ((9 <=? c) && (c <=? 13) || (28 <=? c) && (c <=? 32) || (c =? 133) || (c =? 160) || (c =? 5760) || (8192 <=? c) && (c <=? 8202)
   || (c =? 8232) || (c =? 8233) || (c =? 8239) || (c =? 8287) || (c =? 12288))%N.
Fixpoint lstrip (s : str) : str := match s with c :: t => if is_space c then lstrip t else s | [] => [] end.
Definition rstrip (s : str) : str := rev (lstrip (rev s)).
Definition strip (s : str) : str := rstrip (lstrip s).
Fixpoint split_aux (sep : N) (s : str) (cur : str) : list str :=
  match s with [] => [rev cur] | c :: t => if (c =? sep)%N then rev cur :: split_aux sep t [] else split_aux sep t (c :: cur) end.
Definition split_on (sep : N) (s : str) : list str := split_aux sep s [].
Fixpoint starts_with (p s : str) : bool :=
  match p, s with [], _ => true | _ :: _, [] => false | a :: p', b :: s' => (a =? b)%N && starts_with p' s' end.
Fixpoint str_eqb (a b : str) : bool := match a, b with [], [] => true | x :: a', y :: b' => (x =? y)%N && str_eqb a' b' | _, _ => false end.
(* s.replace(p, ''): remove all non-overlapping occurrences, left to right (p non-empty) *)
Fixpoint remove_all_fuel (fuel : nat) (p s : str) : str :=
  match fuel with O => s | S f =>
    match s with [] => [] | c :: t => if starts_with p s then remove_all_fuel f p (skipn (length p) s) else c :: remove_all_fuel f p t end end.
Definition remove_all (p s : str) : str := remove_all_fuel (S (length s)) p s.
(* text-mode iteration: "\r\n", "\r" and "\n" end a line (universal newlines); nothing else does *)
Fixpoint lines_aux (s : str) (cur : str) (prev_cr : bool) : list str :=
  match s with
  | [] => match cur with [] => [] | _ => [rev cur] end
  | c :: t => if (c =? 10)%N then (if prev_cr then lines_aux t cur false else rev cur :: lines_aux t [] false)
              else if (c =? 13)%N then rev cur :: lines_aux t [] true
              else lines_aux t (c :: cur) false end.
Definition lines (s : str) : list str := lines_aux s [] false.
Definition clean_lines (s : str) : list str := filter (fun l => match l with [] => false | _ => true end) (map strip (lines s)).
(* int(): surrounding blanks, optional sign, ASCII digits with single underscores between digits *)
Definition digit_val (c : N) : option Z := if ((48 <=? c) && (c <=? 57))%N then Some (Z.of_N c - 48) else None.
Fixpoint digits_val (s : str) (acc : Z) (prev_digit : bool) : option Z :=
  match s with
  | [] => if prev_digit then Some acc else None
  | c :: t => match digit_val c with
              | Some d => digits_val t (10 * acc + d) true
              | None => if (c =? 95)%N && prev_digit then match t with d :: _ => match digit_val d with Some _ => digits_val t acc false | None => None end | [] => None end else None end end.
Definition py_int (s : str) : option Z :=
  match strip s with
  | [] => None
  | c :: t => if (c =? 45)%N then option_map Z.opp (digits_val t 0 false) else if (c =? 43)%N then digits_val t 0 false else digits_val (c :: t) 0 false end.
Fixpoint print_pos_fuel (fuel : nat) (n : Z) : str :=
  match fuel with O => [] | S f => if n <? 10 then [Z.to_N (n + 48)] else print_pos_fuel f (n / 10) ++ [Z.to_N (n mod 10 + 48)] end.
Definition print_Z (z : Z) : str :=
  if z <? 0 then 45%N :: print_pos_fuel (S (Z.to_nat (Z.log2 (- z)))) (- z) else print_pos_fuel (S (Z.to_nat (Z.log2 z))) z.
Fixpoint join (sep : str) (l : list str) : str := match l with [] => [] | [x] => x | x :: t => x ++ sep ++ join sep t end.

(* ---- names: ordering, sorting, lookup ---- *)
Fixpoint str_ltb (a b : str) : bool :=
  match a, b with _, [] => false | [], _ :: _ => true | x :: a', y :: b' => (x <? y)%N || ((x =? y)%N && str_ltb a' b') end.
Fixpoint insert_name (x : str) (l : list str) : list str :=
  match l with [] => [x] | y :: t => if str_eqb x y then l else if str_ltb x y then x :: l else y :: insert_name x t end.
Definition sort_names (l : list str) : list str := fold_right insert_name [] l.
Fixpoint index_name (x : str) (l : list str) (i : nat) : option nat :=
  match l with [] => None | y :: t => if str_eqb x y then Some i else index_name x t (S i) end.

(* ---- raw parse results ---- *)
Record raw := { r_names : option (list str); r_edges : list (str * str * Z); r_flag : bool; r_payload : list (str * str); r_bad : bool }.
Definition raw0 : raw := {| r_names := None; r_edges := []; r_flag := false; r_payload := []; r_bad := false |}.
Definition fields (kw line : str) : list str := map strip (split_on 44 (remove_all kw line)).
Definition nonempty_names (l : list str) : list str := filter (fun s => match s with [] => false | _ => true end) l.
(* one line of a file of the given kind: kv = keyword of the vertex line, ke = keyword of edge lines, marker / kp = payload section *)
Definition parse_line (kv ke marker kp : str) (r : raw) (line : str) : raw :=
  if starts_with kv line then {| r_names := Some (nonempty_names (fields kv line)); r_edges := r_edges r; r_flag := r_flag r; r_payload := r_payload r; r_bad := r_bad r |}
  else if starts_with ke line then
    match fields ke line with
    | [a; b; c] => match py_int c with
                   | Some k => {| r_names := r_names r; r_edges := r_edges r ++ [(a, b, k)]; r_flag := r_flag r; r_payload := r_payload r; r_bad := r_bad r |}
                   | None => {| r_names := r_names r; r_edges := r_edges r; r_flag := r_flag r; r_payload := r_payload r; r_bad := true |} end
    | _ => r end
  else if match marker with [] => false | _ => str_eqb line marker end then {| r_names := r_names r; r_edges := r_edges r; r_flag := true; r_payload := r_payload r; r_bad := r_bad r |}
  else if match kp with [] => false | _ => starts_with kp line && r_flag r end then
    match fields kp line with
    | [a; b] => {| r_names := r_names r; r_edges := r_edges r; r_flag := r_flag r; r_payload := r_payload r ++ [(a, b)]; r_bad := r_bad r |}
    | _ => r end
  else r.
(* int() of a payload number raises at the moment the line is read: any later line is irrelevant, the result is None *)
Definition parse (kv ke marker kp : str) (numeric_payload : bool) (s : str) : option raw :=
  let r := fold_left (fun r line =>
     let r' := parse_line kv ke marker kp r line in
     if numeric_payload && negb (Nat.eqb (length (r_payload r')) (length (r_payload r))) then
       match r_payload r' with [] => r' | _ => match py_int (snd (last (r_payload r') ([], []))) with Some _ => r' | None =>
         {| r_names := r_names r'; r_edges := r_edges r'; r_flag := r_flag r'; r_payload := r_payload r'; r_bad := true |} end end
     else r') (clean_lines s) raw0 in
  if r_bad r then None else Some r.

(* ---- building the objects (constructors of CFGraph / CFDivisor / CFOrientation / CFiringScript) ---- *)
Definition graph_step (vs : list str) (acc : option gstate) (e : str * str * Z) : option gstate :=
  match acc with None => None | Some s =>
    match index_name (fst (fst e)) vs 0, index_name (snd (fst e)) vs 0 with
    | Some a, Some b => match add_edge s a b (snd e) with Ok s' => Some s' | Err => None end
    | _, _ => None end end.
Definition build_graph (r : raw) : option (list str * gstate) :=
  match r_names r with None => None | Some names =>
    let vs := sort_names names in
    match fold_left (graph_step vs) (r_edges r) (Some (ginit (length vs))) with None => None | Some s => Some (vs, s) end end.
Definition read_graph (s : str) : option (list str * gstate) :=
  match parse k_VERTICES k_EDGE [] [] false s with None => None | Some r => build_graph r end.
(* divisor: every DEGREE entry names a vertex, no name twice *)
Definition div_step (vs : list str) (acc : option (div * list nat)) (p : str * str) : option (div * list nat) :=
  match acc with None => None | Some (D, seen) =>
    match index_name (fst p) vs 0, py_int (snd p) with
    | Some v, Some k => if mem v seen then None else Some (upd D v k, v :: seen)
    | _, _ => None end end.
Definition read_divisor (s : str) : option (list str * gstate * div) :=
  match parse k_GVERTICES k_GEDGE k_DEGREES k_DEGREE true s with None => None | Some r =>
    match build_graph r with None => None | Some (vs, g) =>
      match fold_left (div_step vs) (r_payload r) (Some (tab (length vs) (fun _ => 0), [])) with None => None | Some (D, _) => Some (vs, g, D) end end end.
(* a dict: a later entry for the same name overwrites *)
Definition script_step (vs : list str) (acc : option (list Z)) (p : str * str) : option (list Z) :=
  match acc with None => None | Some D =>
    match index_name (fst p) vs 0, py_int (snd p) with Some v, Some k => Some (upd D v k) | _, _ => None end end.
Definition read_script (s : str) : option (list str * gstate * list Z) :=
  match parse k_GVERTICES k_GEDGE k_SCRIPT k_FIRING true s with None => None | Some r =>
    match build_graph r with None => None | Some (vs, g) =>
      match fold_left (script_step vs) (r_payload r) (Some (tab (length vs) (fun _ => 0))) with None => None | Some D => Some (vs, g, D) end end end.
Definition orient_pairs (vs : list str) (payload : list (str * str)) : option (list (nat * nat)) :=
  fold_right (fun (p : str * str) acc => match acc with None => None | Some l =>
      match index_name (fst p) vs 0, index_name (snd p) vs 0 with Some a, Some b => Some ((a, b) :: l) | _, _ => None end end) (Some []) payload.
Definition read_orientation (s : str) : option (list str * gstate * ostate) :=
  match parse k_GVERTICES k_GEDGE k_ORIENTATIONS k_ORIENTED false s with None => None | Some r =>
    match build_graph r with None => None | Some (vs, g) =>
      match orient_pairs vs (r_payload r) with None => None | Some ps => match oconstruct (adj g) ps with Ok o => Some (vs, g, o) | Err => None end end end end.

(* ---- writers ---- *)
Definition nl : str := [10%N].
Definition edge_lines (kw : str) (names : list str) (g : graph) : str :=
  concat (flat_map (fun a => flat_map (fun b => if Nat.ltb a b && (0 <? mult g a b) then
     [kw ++ k_SP ++ nth a names [] ++ k_COMMASP ++ nth b names [] ++ k_COMMASP ++ print_Z (mult g a b) ++ nl] else []) (Vg g)) (Vg g)).
Definition write_graph (names : list str) (g : graph) : str := k_VERTICES ++ k_SP ++ join k_COMMASP names ++ nl ++ edge_lines k_EDGE names g.
Definition write_divisor (names : list str) (g : graph) (D : div) : str :=
  k_GVERTICES ++ k_SP ++ join k_COMMASP names ++ nl ++ edge_lines k_GEDGE names g ++ k_DEGREES ++ nl ++
  concat (map (fun v => k_DEGREE ++ k_SP ++ nth v names [] ++ k_COMMASP ++ print_Z (nthZ D v) ++ nl) (Vg g)).
Definition write_script (names : list str) (g : graph) (s : list Z) : str :=
  k_GVERTICES ++ k_SP ++ join k_COMMASP names ++ nl ++ edge_lines k_GEDGE names g ++ k_SCRIPT ++ nl ++
  concat (map (fun v => if nthZ s v =? 0 then [] else k_FIRING ++ k_SP ++ nth v names [] ++ k_COMMASP ++ print_Z (nthZ s v) ++ nl) (Vg g)).
(* oriented pairs are written sorted by (source name, sink name) = (source index, sink index) *)
Definition write_orientation (names : list str) (g : graph) (o : ostate) : str :=
  k_GVERTICES ++ k_SP ++ join k_COMMASP names ++ nl ++ edge_lines k_GEDGE names g ++ k_ORIENTATIONS ++ nl ++
  concat (flat_map (fun a => flat_map (fun b => if (0 <? mult g a b) && (dir_at o a b =? 1) then
     [k_ORIENTED ++ k_SP ++ nth a names [] ++ k_COMMASP ++ nth b names [] ++ nl] else []) (Vg g)) (Vg g)).
(* names the line format can represent: non-empty, no comma, colon, CR or LF, no blank at either end *)
Definition name_ok (s : str) : bool :=
  match s with [] => false | _ => forallb (fun c => negb ((c =? 44) || (c =? 58) || (c =? 10) || (c =? 13))%N) s && str_eqb (strip s) s end.
