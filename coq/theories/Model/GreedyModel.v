(* VRM part 5: the greedy dollar-game solver (CFGreedyAlgorithm.GreedyAlgorithm.play). `order` is the iteration order of the vertex set. *)
From Coq Require Import ZArith List Lia Bool Arith.
Import ListNotations.
From CF Require Import ZSum ListAux Defs Core Machines.
Open Scope Z_scope.

Fixpoint greedy_loop (budget : nat) (g : graph) (order : list nat) (D : div) (script : list Z) : option (div * list Z) :=
  if is_effective_b g D then Some (D, script) else
  match budget with O => None | S b =>
    match find (fun v => nthZ D v <? 0) order with
    | None => Some (D, script)      (* no vertex of `order` in debt: the code's `break` *)
    | Some v => greedy_loop b g order (borrow g D v) (upd script v (nthZ script v - 1)) end end.
(* documented budget: 10 * |V| borrowing moves *)
Definition greedy_budget (g : graph) : nat := 10 * nv g.
Definition greedy (g : graph) (order : list nat) (D : div) : option (div * list Z) :=
  greedy_loop (greedy_budget g) g order D (tab (nv g) (fun _ => 0)).
