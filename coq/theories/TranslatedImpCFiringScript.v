(* GENERATED on every run by tools/translate_imp.py from the current source in /repo. Do not edit. *)
From Coq Require Import ZArith List Bool Arith.
Import ListNotations.
From CF Require Import PyDict.
Open Scope Z_scope.

(* chipfiring/CFiringScript.py :: CFiringScript.__init__   reads [], writes ['self_script'], may raise *)
Definition CFiringScript___init__ (graph_vertices : list nat) (graph_graph : dictD) (script : (option dictZ)) : pyres (dictZ) (dictZ) :=
  let self_script := (@nil (nat * Z)) in
  let self_script := [] in
  match script with Some script =>
  match fold_left (fun acc_ kv_ => match acc_ with PyExn e_ => PyExn e_ | PyOk self_script => let '(vertex_name, firings) := kv_ in
  let vertex := vertex_name in
  if (negb (s_mem vertex graph_vertices)) then
  PyExn self_script
  else
  let self_script := d_set vertex firings self_script in
  PyOk self_script end) script (PyOk self_script) with PyExn e_ => PyExn e_ | PyOk self_script =>
  PyOk self_script end
  | None =>
  PyOk self_script end.

(* chipfiring/CFiringScript.py :: CFiringScript.get_firings   reads ['self_graph_vertices', 'self_script'], writes [], may raise *)
Definition CFiringScript_get_firings (self_graph_vertices : list nat) (self_script : dictZ) (vertex_name : nat) : pyres (unit) Z :=
  let vertex := vertex_name in
  if (negb (s_mem vertex self_graph_vertices)) then
  PyExn tt
  else
  PyOk ((d_get vertex 0 self_script)).

(* chipfiring/CFiringScript.py :: CFiringScript.set_firings   reads ['self_graph_vertices', 'self_script'], writes ['self_script'], may raise *)
Definition CFiringScript_set_firings (self_graph_vertices : list nat) (self_script : dictZ) (vertex_name : nat) (firings : Z) : pyres (dictZ) (dictZ) :=
  let vertex := vertex_name in
  if (negb (s_mem vertex self_graph_vertices)) then
  PyExn self_script
  else
  let self_script := d_set vertex firings self_script in
  PyOk self_script.

(* chipfiring/CFiringScript.py :: CFiringScript.update_firings   reads ['self_graph_vertices', 'self_script'], writes ['self_script'], may raise *)
Definition CFiringScript_update_firings (self_graph_vertices : list nat) (self_script : dictZ) (vertex_name : nat) (additional_firings : Z) : pyres (dictZ) (dictZ) :=
  match CFiringScript_get_firings self_graph_vertices self_script vertex_name with PyExn _ => PyExn self_script | PyOk current_firings =>
  match CFiringScript_set_firings self_graph_vertices self_script vertex_name (current_firings + additional_firings) with PyExn self_script => PyExn self_script | PyOk self_script =>
  PyOk self_script end end.

(* chipfiring/CFiringScript.py :: CFiringScript.script   reads ['self_graph_vertices', 'self_script'], writes [], may raise *)
Definition CFiringScript_script (self_graph_vertices : list nat) (self_script : dictZ) (set_order : list nat -> list nat) : pyres (unit) dictZ :=
  let to_return := (@nil (nat * Z)) in
  match fold_left (fun acc_ vertex => match acc_ with PyExn e_ => PyExn e_ | PyOk to_return => 
  match CFiringScript_get_firings self_graph_vertices self_script vertex with PyExn _ => PyExn tt | PyOk t1_ =>
  let to_return := d_set vertex t1_ to_return in
  PyOk to_return end end) (set_order self_graph_vertices) (PyOk to_return) with PyExn e_ => PyExn e_ | PyOk to_return =>
  PyOk (to_return) end.
