(* Python dictionaries and sets as tools/translate_imp.py assumes them: insertion-ordered association lists over natural-number keys
   (a Vertex is identified with its name, names with numbers), `d[k]` partial (KeyError), `d[k] = x` in place or appended; sets as lists. *)
From Coq Require Import ZArith List Bool Arith Lia.
Import ListNotations.
Open Scope Z_scope.

Definition dictZ := list (nat * Z).
Definition dictD := list (nat * dictZ).
Fixpoint d_find {A} (k : nat) (d : list (nat * A)) : option A :=
  match d with [] => None | (k', x) :: t => if Nat.eqb k' k then Some x else d_find k t end.
Definition d_mem {A} (k : nat) (d : list (nat * A)) : bool := match d_find k d with Some _ => true | None => false end.
Fixpoint d_set {A} (k : nat) (x : A) (d : list (nat * A)) : list (nat * A) :=
  match d with [] => [(k, x)] | (k', y) :: t => if Nat.eqb k' k then (k', x) :: t else (k', y) :: d_set k x t end.
Definition d_keys {A} (d : list (nat * A)) : list nat := map fst d.
Definition s_mem (k : nat) (s : list nat) : bool := existsb (Nat.eqb k) s.
Definition s_add (k : nat) (s : list nat) : list nat := if s_mem k s then s else s ++ [k].

Lemma d_find_set_same {A} k (x : A) d : d_find k (d_set k x d) = Some x.
Proof. induction d as [|[k' y] t IH]; cbn [d_set d_find]; [now rewrite Nat.eqb_refl|].
  destruct (Nat.eqb_spec k' k) as [Q|Q]; cbn [d_find]; [rewrite Q, Nat.eqb_refl; reflexivity|]. destruct (Nat.eqb_spec k' k); [contradiction|exact IH]. Qed.
Lemma d_find_set_other {A} k k2 (x : A) d : k2 <> k -> d_find k2 (d_set k x d) = d_find k2 d.
Proof. intros Hne. induction d as [|[k' y] t IH]; cbn [d_set d_find].
  - destruct (Nat.eqb_spec k k2); [congruence|reflexivity].
  - destruct (Nat.eqb_spec k' k) as [Q|Q]; cbn [d_find]; [|rewrite IH; reflexivity]. destruct (Nat.eqb_spec k' k2); [congruence|reflexivity]. Qed.
Lemma d_find_set {A} k k2 (x : A) d : d_find k2 (d_set k x d) = if Nat.eqb k2 k then Some x else d_find k2 d.
Proof. destruct (Nat.eqb_spec k2 k) as [->|Q]; [apply d_find_set_same|now apply d_find_set_other]. Qed.
Lemma d_keys_set_present {A} k (x : A) d : d_mem k d = true -> d_keys (d_set k x d) = d_keys d.
Proof. unfold d_mem. induction d as [|[k' y] t IH]; cbn [d_find d_set d_keys map]; [discriminate|].
  destruct (Nat.eqb_spec k' k); cbn [map fst]; [reflexivity|]. intros H. f_equal. apply IH. exact H. Qed.
Lemma d_find_in_keys {A} k (d : list (nat * A)) : d_mem k d = true <-> In k (d_keys d).
Proof. unfold d_mem. induction d as [|[k' y] t IH]; cbn [d_find d_keys map In fst]; [split; [discriminate|tauto]|].
  destruct (Nat.eqb_spec k' k) as [Q|Q]; [split; auto|]. rewrite IH. split; [auto|]. intros [H|H]; [contradiction|exact H]. Qed.
Lemma d_find_some_in {A} k (x : A) d : d_find k d = Some x -> In (k, x) d.
Proof. induction d as [|[k' y] t IH]; cbn [d_find]; [discriminate|]. destruct (Nat.eqb_spec k' k) as [Q|Q]; [intros E; inversion E; subst; now left|intros E; right; auto]. Qed.
Lemma d_in_find {A} k (x : A) d : NoDup (d_keys d) -> In (k, x) d -> d_find k d = Some x.
Proof. induction d as [|[k' y] t IH]; cbn [d_keys map fst d_find]; intros Hnd Hin; [destruct Hin|]. inversion Hnd as [|? ? Hn Hd]; subst.
  destruct Hin as [E|Hin]; [inversion E; subst; now rewrite Nat.eqb_refl|].
  destruct (Nat.eqb_spec k' k) as [Q|Q]; [|apply IH; auto]. exfalso. apply Hn. subst k'. change (In k (map fst t)). apply in_map_iff. exists (k, x). split; [reflexivity|exact Hin]. Qed.
Lemma s_mem_In k s : s_mem k s = true <-> In k s.
Proof. unfold s_mem. rewrite existsb_exists. split; [intros [x [H E]]; apply Nat.eqb_eq in E; now subst|intros H; exists k; split; [exact H|apply Nat.eqb_refl]]. Qed.
Lemma s_add_In k s x : In x (s_add k s) <-> x = k \/ In x s.
Proof. unfold s_add. destruct (s_mem k s) eqn:E.
  - apply s_mem_In in E. split; [auto|]. intros [->|H]; auto.
  - rewrite in_app_iff. cbn [In]. split; [intros [H|[H|[]]]; auto|intros [H|H]; auto]. Qed.
Lemma s_add_NoDup k s : NoDup s -> NoDup (s_add k s).
Proof. intros H. unfold s_add. destruct (s_mem k s) eqn:E; [exact H|].
  assert (Hk : ~ In k s) by (intros Q; apply s_mem_In in Q; congruence).
  clear E. induction s as [|a s IH]; [constructor; [intros []|constructor]|]. inversion H; subst. cbn. constructor.
  - rewrite in_app_iff. cbn. intros [Q|[Q|[]]]; [contradiction|]. apply Hk. now left.
  - apply IH; auto. intros Q. apply Hk. now right. Qed.
Definition d_get {A} (k : nat) (dflt : A) (d : list (nat * A)) : A := match d_find k d with Some x => x | None => dflt end.
(* outcome of a method that may raise: PyExn st = an exception, leaving the written fields in state st; PyOk x = normal end *)
Inductive pyres (S A : Type) := PyOk (a : A) | PyExn (s : S).
Arguments PyOk {S A} a. Arguments PyExn {S A} s.
(* len(xs) == len(set(xs)): no name occurs twice *)
Fixpoint nodupb (l : list nat) : bool := match l with [] => true | x :: t => negb (s_mem x t) && nodupb t end.
Lemma nodupb_NoDup l : nodupb l = true <-> NoDup l.
Proof. induction l as [|x t IH]; cbn [nodupb]; [split; [constructor|reflexivity]|]. rewrite andb_true_iff, negb_true_iff, IH. split.
  - intros [H1 H2]. constructor; [intros Q; apply s_mem_In in Q; congruence|exact H2].
  - intros H. inversion H; subst. split; [destruct (s_mem x t) eqn:E; [apply s_mem_In in E; contradiction|reflexivity]|assumption]. Qed.
(* s == t on sets *)
Definition set_eqb (a b : list nat) : bool := forallb (fun x => s_mem x b) a && forallb (fun x => s_mem x a) b.
(* d1 == d2 on dictionaries of integers: the same keys with the same values, in any order *)
Definition dict_eqb (a b : dictZ) : bool :=
  set_eqb (d_keys a) (d_keys b) && forallb (fun kv => match d_find (fst kv) b with Some y => snd kv =? y | None => false end) a.
(* itertools.combinations(xs, k): the subsequences of length k, in lexicographic order of positions *)
Fixpoint combinations (l : list nat) (k : nat) {struct l} : list (list nat) :=
  match k with O => [[]] | S k' => match l with [] => [] | x :: t => map (cons x) (combinations t k') ++ combinations t (S k') end end.
