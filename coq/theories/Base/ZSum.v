(* Sums of integers over lists: the only "big operator" the development needs. *)
From Coq Require Import ZArith List Lia Bool Arith Permutation.
Import ListNotations.
Open Scope Z_scope.

Fixpoint zsum {A} (f : A -> Z) (l : list A) : Z :=
  match l with [] => 0 | x :: t => f x + zsum f t end.

Lemma zsum_ext {A} (f g : A -> Z) l : (forall x, In x l -> f x = g x) -> zsum f l = zsum g l.
Proof. induction l as [|a l IH]; cbn; intros H; [reflexivity|]. rewrite (H a) by now left. f_equal. apply IH. intros; apply H; now right. Qed.
Lemma zsum_le {A} (f g : A -> Z) l : (forall x, In x l -> f x <= g x) -> zsum f l <= zsum g l.
Proof. induction l as [|a l IH]; cbn; intros H; [lia|].
  assert (f a <= g a) by (apply H; now left). assert (zsum f l <= zsum g l) by (apply IH; intros; apply H; now right). lia. Qed.
Lemma zsum_nonneg {A} (f : A -> Z) l : (forall x, In x l -> 0 <= f x) -> 0 <= zsum f l.
Proof. induction l as [|a l IH]; cbn; intros H; [lia|].
  assert (0 <= f a) by (apply H; now left). assert (0 <= zsum f l) by (apply IH; intros; apply H; now right). lia. Qed.
Lemma zsum_add {A} (f g : A -> Z) l : zsum (fun x => f x + g x) l = zsum f l + zsum g l.
Proof. induction l; cbn; lia. Qed.
Lemma zsum_sub {A} (f g : A -> Z) l : zsum (fun x => f x - g x) l = zsum f l - zsum g l.
Proof. induction l; cbn; lia. Qed.
Lemma zsum_scale {A} (f : A -> Z) c l : zsum (fun x => c * f x) l = c * zsum f l.
Proof. induction l; cbn; lia. Qed.
Lemma zsum_opp {A} (f : A -> Z) l : zsum (fun x => - f x) l = - zsum f l.
Proof. induction l; cbn; lia. Qed.
Lemma zsum_zero {A} (l : list A) : zsum (fun _ => 0) l = 0.
Proof. induction l; cbn; lia. Qed.
Lemma zsum_const {A} (l : list A) c : zsum (fun _ => c) l = c * Z.of_nat (length l).
Proof. induction l; cbn [zsum length]; [lia|]. rewrite IHl. lia. Qed.
Lemma zsum_swap {A B} (f : A -> B -> Z) la lb :
  zsum (fun a => zsum (fun b => f a b) lb) la = zsum (fun b => zsum (fun a => f a b) la) lb.
Proof. induction la as [|a la IH]; cbn. now rewrite zsum_zero. rewrite IH, <- zsum_add. reflexivity. Qed.
Lemma zsum_perm {A} (f : A -> Z) l l' : Permutation l l' -> zsum f l = zsum f l'.
Proof. induction 1; cbn; lia. Qed.
Lemma zsum_app {A} (f : A -> Z) l l' : zsum f (l ++ l') = zsum f l + zsum f l'.
Proof. induction l; cbn; lia. Qed.
Lemma zsum_map {A B} (f : B -> Z) (g : A -> B) l : zsum f (map g l) = zsum (fun x => f (g x)) l.
Proof. induction l; cbn; lia. Qed.
Lemma zsum_indicator (l : list nat) (p : nat) c : NoDup l -> In p l ->
  zsum (fun x => if Nat.eqb x p then c else 0) l = c.
Proof. induction 1 as [|a l Hn Hd IH]; intros Hin; [destruct Hin|]. cbn. destruct (Nat.eqb_spec a p).
  - subst. rewrite (zsum_ext _ (fun _ => 0)), zsum_zero; [lia|]. intros x Hx. destruct (Nat.eqb_spec x p); [subst; contradiction|reflexivity].
  - destruct Hin; [contradiction|]. rewrite IH; auto. Qed.
Lemma zsum_indicator_notin (l : list nat) (p : nat) c : ~ In p l ->
  zsum (fun x => if Nat.eqb x p then c else 0) l = 0.
Proof. intros H. rewrite (zsum_ext _ (fun _ => 0)), zsum_zero; auto. intros x Hx. destruct (Nat.eqb_spec x p); [subst; contradiction|reflexivity]. Qed.
Lemma zsum_lt_one {A} (f g : A -> Z) l x : In x l -> (forall y, In y l -> f y <= g y) -> f x < g x -> zsum f l < zsum g l.
Proof. induction l as [|a l IH]; intros Hin Hle Hlt; [destruct Hin|]. cbn.
  assert (zsum f l <= zsum g l) by (apply zsum_le; intros; apply Hle; now right).
  destruct Hin as [->|Hin]. lia. assert (f a <= g a) by (apply Hle; now left). specialize (IH Hin (fun y Hy => Hle y (or_intror Hy)) Hlt). lia. Qed.
(* splitting a sum by a boolean predicate *)
Lemma zsum_split {A} (f : A -> Z) (p : A -> bool) l :
  zsum f l = zsum (fun x => if p x then f x else 0) l + zsum (fun x => if p x then 0 else f x) l.
Proof. induction l as [|a l IH]; cbn; [lia|]. destruct (p a); lia. Qed.
Lemma zsum_filter {A} (f : A -> Z) (p : A -> bool) l :
  zsum f (filter p l) = zsum (fun x => if p x then f x else 0) l.
Proof. induction l as [|a l IH]; cbn; [lia|]. destruct (p a); cbn; lia. Qed.

(* extremal elements *)
Lemma max_exists (l : list nat) (s : nat -> Z) : l <> [] ->
  exists v, In v l /\ forall w, In w l -> s w <= s v.
Proof.
  induction l as [|a l IH]; [congruence|]. intros _. destruct l as [|b l'].
  - exists a. split; [now left|]. intros w [<-|[]]; lia.
  - destruct IH as [v [Hv HM]]; [congruence|]. destruct (Z_le_gt_dec (s a) (s v)).
    + exists v. split; [now right|]. intros w [<-|Hw]; auto.
    + exists a. split; [now left|]. intros w [<-|Hw]; [lia|]. specialize (HM w Hw). lia.
Qed.
Lemma min_pos (l : list nat) (U : nat -> bool) (pos : nat -> nat) : (exists u, In u l /\ U u = true) ->
  exists u, In u l /\ U u = true /\ forall v, In v l -> U v = true -> (pos u <= pos v)%nat.
Proof.
  intros [u0 [H0 HU0]]. remember (pos u0) as k eqn:Ek. revert u0 H0 HU0 Ek.
  induction k as [k IH] using lt_wf_ind. intros u0 H0 HU0 Ek.
  destruct (existsb (fun v => U v && Nat.ltb (pos v) k) l) eqn:Ex.
  - apply existsb_exists in Ex. destruct Ex as [v [Hv Hc]]. apply andb_true_iff in Hc. destruct Hc as [HUv Hlt].
    apply Nat.ltb_lt in Hlt. eapply (IH (pos v)); eauto.
  - exists u0. repeat split; auto. intros v Hv HUv.
    destruct (le_lt_dec (pos u0) (pos v)); auto. exfalso.
    assert (existsb (fun v => U v && Nat.ltb (pos v) k) l = true).
    { apply existsb_exists. exists v. split; auto. rewrite HUv. cbn. apply Nat.ltb_lt. lia. }
    congruence.
Qed.
