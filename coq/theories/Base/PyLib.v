(* The Python built-ins the translated functions use, as Gallina functions over Z and list Z (the assumed semantics of tools/translate.py). *)
From Coq Require Import ZArith NArith List Bool.
Import ListNotations.
Open Scope Z_scope.
Definition py_len (l : list Z) : Z := Z.of_nat (length l).
Definition py_sum (l : list Z) : Z := fold_right Z.add 0 l.
Definition py_min (l : list Z) : Z := match l with [] => 0 | x :: t => fold_right Z.min x t end.   (* min([]) raises; the translated code guards it *)
Fixpoint py_insert (x : Z) (l : list Z) : list Z := match l with [] => [x] | y :: t => if x <=? y then x :: l else y :: py_insert x t end.
Definition py_sorted (l : list Z) : list Z := fold_right py_insert [] l.
Definition py_is_empty (l : list Z) : bool := match l with [] => true | _ => false end.
Definition py_range (n : Z) : list Z := map Z.of_nat (seq 0 (Z.to_nat n)).
Definition py_index (l : list Z) (i : Z) : Z := nth (Z.to_nat i) l 0.     (* only used with 0 <= i < len l *)
(* str: the list of code points; == on str is equality of these lists *)
Definition pystr := list N.
Fixpoint py_str_eqb (a b : pystr) : bool := match a, b with [], [] => true | x :: a', y :: b' => (x =? y)%N && py_str_eqb a' b' | _, _ => false end.
