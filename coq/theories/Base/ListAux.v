(* Small list utilities shared by model and theory: membership test, tabulation, default-0 nth. *)
From Coq Require Import ZArith List Lia Bool Arith.
Import ListNotations.
Open Scope Z_scope.

Definition mem (v : nat) (l : list nat) : bool := existsb (Nat.eqb v) l.
Lemma mem_In v l : mem v l = true <-> In v l.
Proof. unfold mem. rewrite existsb_exists. split. intros [x [Hx E]]. apply Nat.eqb_eq in E. now subst. intros H. exists v. split; auto. apply Nat.eqb_refl. Qed.
Lemma mem_false v l : mem v l = false <-> ~ In v l.
Proof. rewrite <- mem_In. destruct (mem v l); split; congruence. Qed.
Lemma mem_app v l l' : mem v (l ++ l') = mem v l || mem v l'.
Proof. unfold mem. apply existsb_app. Qed.

Fixpoint iter {A} (n : nat) (f : A -> A) (x : A) := match n with O => x | S k => iter k f (f x) end.

Definition nthZ (l : list Z) (i : nat) : Z := nth i l 0.
Definition tab {A} (n : nat) (f : nat -> A) : list A := map f (seq 0 n).

Lemma tab_length {A} n (f : nat -> A) : length (tab n f) = n.
Proof. unfold tab. now rewrite map_length, seq_length. Qed.
Lemma nth_tab {A} n (f : nat -> A) d v : (v < n)%nat -> nth v (tab n f) d = f v.
Proof. intros H. unfold tab. rewrite (nth_indep _ d (f 0%nat)) by (rewrite map_length, seq_length; lia).
  rewrite map_nth. rewrite seq_nth by lia. reflexivity. Qed.
Lemma nthZ_tab n (f : nat -> Z) v : (v < n)%nat -> nthZ (tab n f) v = f v.
Proof. apply nth_tab. Qed.
Lemma nthZ_tab_out n (f : nat -> Z) v : (n <= v)%nat -> nthZ (tab n f) v = 0.
Proof. intros H. unfold nthZ. apply nth_overflow. rewrite tab_length. lia. Qed.
Lemma tab_ext {A} n (f g : nat -> A) : (forall v, (v < n)%nat -> f v = g v) -> tab n f = tab n g.
Proof. intros H. unfold tab. apply map_ext_in. intros v Hv. apply in_seq in Hv. apply H. lia. Qed.
Lemma tab_nthZ (l : list Z) : tab (length l) (nthZ l) = l.
Proof. apply nth_ext with (d := 0) (d' := 0).
  - apply tab_length.
  - intros i Hi. rewrite tab_length in Hi. rewrite nth_tab by lia. reflexivity. Qed.
Lemma in_seq0 n v : In v (seq 0 n) <-> (v < n)%nat.
Proof. rewrite in_seq. lia. Qed.
Lemma list_eq_nthZ (l l' : list Z) : length l = length l' -> (forall v, (v < length l)%nat -> nthZ l v = nthZ l' v) -> l = l'.
Proof. intros HL H. apply nth_ext with (d := 0) (d' := 0); auto. Qed.
