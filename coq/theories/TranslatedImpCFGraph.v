(* GENERATED on every run by tools/translate_imp.py from the current source in /repo. Do not edit. *)
From Coq Require Import ZArith List Bool Arith.
Import ListNotations.
From CF Require Import PyDict.
Open Scope Z_scope.

(* chipfiring/CFGraph.py :: CFGraph.is_loopless   reads [], writes [] *)
Definition CFGraph_is_loopless (v1_name : nat) (v2_name : nat) : bool :=
  ((negb (Nat.eqb v1_name v2_name))).

(* chipfiring/CFGraph.py :: CFGraph.get_valence   reads ['self_vertex_total_valence'], writes [], may raise *)
Definition CFGraph_get_valence (self_vertex_total_valence : dictZ) (v_name : nat) : pyres (unit) Z :=
  let v := v_name in
  if (negb (d_mem v self_vertex_total_valence)) then
  PyExn tt
  else
  match d_find v self_vertex_total_valence with None => PyExn tt | Some t1_ =>
  PyOk (t1_) end.

(* chipfiring/CFGraph.py :: CFGraph.add_edge   reads ['self_graph', 'self_vertex_total_valence', 'self_total_valence'], writes ['self_graph', 'self_vertex_total_valence', 'self_total_valence'], may raise *)
Definition CFGraph_add_edge (self_graph : dictD) (self_vertex_total_valence : dictZ) (self_total_valence : Z) (v1_name : nat) (v2_name : nat) (valence : Z) : pyres (dictD * dictZ * Z) (dictD * dictZ * Z) :=
  if (negb (CFGraph_is_loopless v1_name v2_name)) then
  PyExn (self_graph, self_vertex_total_valence, self_total_valence)
  else
  if (valence <=? 0) then
  PyExn (self_graph, self_vertex_total_valence, self_total_valence)
  else
  let v1 := v1_name in
  let v2 := v2_name in
  if ((negb (d_mem v1 self_graph)) || (negb (d_mem v2 self_graph))) then
  PyExn (self_graph, self_vertex_total_valence, self_total_valence)
  else
  match d_find v1 self_graph with None => PyExn (self_graph, self_vertex_total_valence, self_total_valence) | Some t1_ =>
  if (d_mem v2 t1_) then
  match d_find v1 self_graph with None => PyExn (self_graph, self_vertex_total_valence, self_total_valence) | Some t2_ =>
  match d_find v2 t2_ with None => PyExn (self_graph, self_vertex_total_valence, self_total_valence) | Some t3_ =>
  let self_graph := d_set v1 (d_set v2 (t3_ + valence) t2_) self_graph in
  match d_find v2 self_graph with None => PyExn (self_graph, self_vertex_total_valence, self_total_valence) | Some t4_ =>
  match d_find v1 t4_ with None => PyExn (self_graph, self_vertex_total_valence, self_total_valence) | Some t5_ =>
  let self_graph := d_set v2 (d_set v1 (t5_ + valence) t4_) self_graph in
  match d_find v1 self_vertex_total_valence with None => PyExn (self_graph, self_vertex_total_valence, self_total_valence) | Some t6_ =>
  let self_vertex_total_valence := d_set v1 (t6_ + valence) self_vertex_total_valence in
  match d_find v2 self_vertex_total_valence with None => PyExn (self_graph, self_vertex_total_valence, self_total_valence) | Some t7_ =>
  let self_vertex_total_valence := d_set v2 (t7_ + valence) self_vertex_total_valence in
  let self_total_valence := (self_total_valence + valence) in
  PyOk (self_graph, self_vertex_total_valence, self_total_valence) end end end end end end
  else
  match d_find v1 self_graph with None => PyExn (self_graph, self_vertex_total_valence, self_total_valence) | Some t8_ =>
  let self_graph := d_set v1 (d_set v2 valence t8_) self_graph in
  match d_find v2 self_graph with None => PyExn (self_graph, self_vertex_total_valence, self_total_valence) | Some t9_ =>
  let self_graph := d_set v2 (d_set v1 valence t9_) self_graph in
  match d_find v1 self_vertex_total_valence with None => PyExn (self_graph, self_vertex_total_valence, self_total_valence) | Some t10_ =>
  let self_vertex_total_valence := d_set v1 (t10_ + valence) self_vertex_total_valence in
  match d_find v2 self_vertex_total_valence with None => PyExn (self_graph, self_vertex_total_valence, self_total_valence) | Some t11_ =>
  let self_vertex_total_valence := d_set v2 (t11_ + valence) self_vertex_total_valence in
  let self_total_valence := (self_total_valence + valence) in
  PyOk (self_graph, self_vertex_total_valence, self_total_valence) end end end end end.

(* chipfiring/CFGraph.py :: CFGraph.add_edges   reads ['self_graph', 'self_vertex_total_valence', 'self_total_valence'], writes ['self_graph', 'self_vertex_total_valence', 'self_total_valence'], may raise *)
Definition CFGraph_add_edges (self_graph : dictD) (self_vertex_total_valence : dictZ) (self_total_valence : Z) (edges : list (nat * nat * Z)) : pyres (dictD * dictZ * Z) (dictD * dictZ * Z) :=
  match fold_left (fun acc_ kv_ => match acc_ with PyExn e_ => PyExn e_ | PyOk (self_graph, self_vertex_total_valence, self_total_valence) => let '(v1_name, v2_name, valence) := kv_ in
  match CFGraph_add_edge self_graph self_vertex_total_valence self_total_valence v1_name v2_name valence with PyExn (self_graph, self_vertex_total_valence, self_total_valence) => PyExn (self_graph, self_vertex_total_valence, self_total_valence) | PyOk (self_graph, self_vertex_total_valence, self_total_valence) =>
  PyOk (self_graph, self_vertex_total_valence, self_total_valence) end end) edges (PyOk (self_graph, self_vertex_total_valence, self_total_valence)) with PyExn e_ => PyExn e_ | PyOk (self_graph, self_vertex_total_valence, self_total_valence) =>
  PyOk (self_graph, self_vertex_total_valence, self_total_valence) end.

(* chipfiring/CFGraph.py :: CFGraph.__init__   reads [], writes ['self_vertices', 'self_graph', 'self_vertex_total_valence', 'self_total_valence'], may raise *)
Definition CFGraph___init__ (set_order : list nat -> list nat) (vertices : list nat) (edges : list (nat * nat * Z)) : pyres (list nat * dictD * dictZ * Z) (list nat * dictD * dictZ * Z) :=
  let self_total_valence := 0 in
  let self_vertex_total_valence := (@nil (nat * Z)) in
  let self_graph := (@nil (nat * dictZ)) in
  let self_vertices := (@nil nat) in
  if (negb (nodupb vertices)) then
  PyExn (self_vertices, self_graph, self_vertex_total_valence, self_total_valence)
  else
  let self_vertices := vertices in
  let self_graph := [] in
  let self_vertex_total_valence := [] in
  let self_total_valence := 0 in
  match fold_left (fun acc_ vertex => match acc_ with PyExn e_ => PyExn e_ | PyOk (self_graph, self_vertex_total_valence) => 
  let self_graph := d_set vertex [] self_graph in
  let self_vertex_total_valence := d_set vertex 0 self_vertex_total_valence in
  PyOk (self_graph, self_vertex_total_valence) end) (set_order self_vertices) (PyOk (self_graph, self_vertex_total_valence)) with PyExn e_ => PyExn e_ | PyOk (self_graph, self_vertex_total_valence) =>
  if (negb (match edges with [] => true | _ :: _ => false end)) then
  match CFGraph_add_edges self_graph self_vertex_total_valence self_total_valence edges with PyExn (self_graph, self_vertex_total_valence, self_total_valence) => PyExn (self_vertices, self_graph, self_vertex_total_valence, self_total_valence) | PyOk (self_graph, self_vertex_total_valence, self_total_valence) =>
  PyOk (self_vertices, self_graph, self_vertex_total_valence, self_total_valence) end
  else
  PyOk (self_vertices, self_graph, self_vertex_total_valence, self_total_valence) end.
