(* CFGraph methods translated from /repo's current source (TranslatedImpCFGraph.v, regenerated on every run by tools/translate_imp.py) refine the model:
   add_edge / get_valence / is_loopless against add_edge of Model/Machines.v. *)
From Coq Require Import ZArith List Lia Bool Arith Permutation.
Import ListNotations.
From CF Require Import ZSum ListAux Defs Core Machines GraphLink MachinesLink PyDict ImpRep TranslatedImpCFDivisor ImpLinkArith TranslatedImpCFGraph.
Open Scope Z_scope.

(* ---- CFGraph.add_edge / get_valence / is_loopless ---- *)
Definition rep_gstate (gg : dictD) (vtv : dictZ) (tv : Z) (s : gstate) : Prop :=
  rep_graph gg (adj s) /\ rep_div (gn s) vtv (valc s) /\ tv = tot s.

Lemma rep_graph_update gg g g' a b x y row_a row_b : a <> b -> (a < nv g)%nat -> (b < nv g)%nat -> nv g' = nv g ->
  rep_graph gg g -> d_find a gg = Some row_a -> d_find b gg = Some row_b -> 0 < x -> 0 < y ->
  (forall v w, mult g' v w = if Nat.eqb v a && Nat.eqb w b then x else if Nat.eqb v b && Nat.eqb w a then y else mult g v w) ->
  rep_graph (d_set b (d_set a y row_b) (d_set a (d_set b x row_a) gg)) g'.
Proof. intros Hab Ha Hb Hn Hg Ea Eb Hx Hy Hm v. rewrite Hn. rewrite !d_find_set. pose proof (Hg v) as Hv.
  pose proof (Hg a) as Hga. pose proof (Hg b) as Hgb.
  assert (La : Nat.ltb a (nv g) = true) by (apply Nat.ltb_lt; exact Ha). assert (Lb : Nat.ltb b (nv g) = true) by (apply Nat.ltb_lt; exact Hb).
  rewrite La in Hga. rewrite Lb in Hgb. destruct Hga as (ra & Ea' & Ra). destruct Hgb as (rb & Eb' & Rb).
  assert (ra = row_a) by congruence. assert (rb = row_b) by congruence. subst ra rb.
  destruct (Nat.eqb_spec v b) as [Q|Q].
  - subst v. rewrite Lb. eexists. split; [reflexivity|]. destruct Rb as [Nb Fb]. split; [apply d_keys_set_nodup; exact Nb|].
    intros w. rewrite d_find_set, Hm. rewrite Nat.eqb_refl. destruct (Nat.eqb_spec b a) as [Q'|Q']; [congruence|]. cbn [andb].
    destruct (Nat.eqb_spec w a) as [Q2|Q2]; [destruct (Z.ltb_spec 0 y); [reflexivity|lia]|apply Fb].
  - destruct (Nat.eqb_spec v a) as [Q'|Q'].
    + subst v. rewrite La. eexists. split; [reflexivity|]. destruct Ra as [Na Fa]. split; [apply d_keys_set_nodup; exact Na|].
      intros w. rewrite d_find_set, Hm. rewrite Nat.eqb_refl. cbn [andb]. destruct (Nat.eqb_spec w b) as [Q2|Q2]; [destruct (Z.ltb_spec 0 x); [reflexivity|lia]|].
      destruct (Nat.eqb_spec a b); [congruence|]. cbn [andb]. apply Fa.
    + destruct (Nat.ltb v (nv g)); [|exact Hv]. destruct Hv as (row & Er & [Nr Fr]). exists row. split; [exact Er|]. split; [exact Nr|].
      intros w. rewrite Hm. destruct (Nat.eqb_spec v a); [contradiction|]. destruct (Nat.eqb_spec v b); [contradiction|]. cbn [andb]. apply Fr. Qed.

Theorem add_edge_refines gg vtv tv s a b k : ginv s -> rep_gstate gg vtv tv s ->
  match CFGraph_add_edge gg vtv tv a b k with
  | PyExn st => add_edge s a b k = Err /\ st = (gg, vtv, tv)
  | PyOk (gg', vtv', tv') => exists s', add_edge s a b k = Ok s' /\ rep_gstate gg' vtv' tv' s' end.
Proof. intros Hinv (Hg & (HLv & Hkv & Hfv) & Ht). pose proof Hinv as (Hwf & HL & _ & _).
  unfold CFGraph_add_edge, CFGraph_is_loopless. destruct (add_edge s a b k) as [s'|] eqn:E.
  2:{ unfold add_edge in E. destruct (Nat.eqb_spec a b) as [Q|Q]; cbn [negb]; [split; reflexivity|]. destruct (Z.leb_spec k 0) as [Q1|Q1]; [split; reflexivity|].
      rewrite !(rep_graph_mem gg (adj s)) by exact Hg. change (gn s) with (nv (adj s)) in *. destruct (Nat.ltb a (nv (adj s))), (Nat.ltb b (nv (adj s))); cbn [andb negb orb] in *; try (split; reflexivity). discriminate. }
  destruct (add_edge_inv s a b k s' Hinv E) as (Hinv' & Hgn & Hab & Hk & Ha & Hb & Hm).
  destruct (Nat.eqb_spec a b) as [Q|_]; [contradiction|]. cbn [negb]. destruct (Z.leb_spec k 0) as [Q1|_]; [lia|].
  pose proof (Hg a) as Ga. pose proof (Hg b) as Gb. change (nv (adj s)) with (gn s) in Ga, Gb.
  assert (La : Nat.ltb a (gn s) = true) by (apply Nat.ltb_lt; exact Ha). assert (Lb : Nat.ltb b (gn s) = true) by (apply Nat.ltb_lt; exact Hb).
  rewrite La in Ga. rewrite Lb in Gb. destruct Ga as (ra & Ea & Ra). destruct Gb as (rb & Eb & Rb).
  unfold d_mem at 1 2. rewrite Ea, Eb. cbn [negb orb]. pose proof Ra as [Na Fa]. pose proof Rb as [Nb Fb].
  assert (Sym : mult (adj s) b a = mult (adj s) a b) by (apply (mult_sym (adj s) Hwf)).
  assert (Nn : 0 <= mult (adj s) a b) by (apply (mult_nonneg (adj s) Hwf)).
  assert (Eva : d_find a vtv = Some (nthZ (valc s) a)) by (rewrite Hfv, La; reflexivity).
  assert (Evb : d_find b vtv = Some (nthZ (valc s) b)) by (rewrite Hfv, Lb; reflexivity).
  (* the state the model reaches, read off its definition *)
  assert (Es' : s' = {| adj := upd2 (upd2 (adj s) a b (mult (adj s) a b + k)) b a (mult (adj s) b a + k);
             valc := upd (upd (valc s) a (nthZ (valc s) a + k)) b (nthZ (upd (valc s) a (nthZ (valc s) a + k)) b + k); tot := tot s + k |}).
  { unfold add_edge in E. destruct (Nat.eqb_spec a b); [contradiction|]. destruct (Z.leb_spec k 0); [lia|]. fold (gn s) in E. rewrite La, Lb in E. cbn in E. inversion E. reflexivity. }
  assert (RV : forall t1 t2, t1 = nthZ (valc s) a + k -> t2 = nthZ (valc s) b + k -> rep_div (gn s') (d_set b t2 (d_set a t1 vtv)) (valc s')).
  { intros t1 t2 -> ->. rewrite Hgn. split; [rewrite Es'; cbn [valc]; rewrite !upd_length; exact HLv|]. split; [apply d_keys_set_nodup, d_keys_set_nodup; exact Hkv|].
    intros v. rewrite !d_find_set, Hfv. rewrite Es'. cbn [valc]. rewrite !nthZ_upd, !upd_length, HLv, La, Lb.
    destruct (Nat.eqb_spec b a) as [Q|Q]; [congruence|]. cbn [andb]. destruct (Nat.eqb_spec v b) as [Q1|Q1]; [subst v; rewrite Lb; cbn [andb]; reflexivity|].
    destruct (Nat.eqb_spec v a) as [Q2|Q2]; [subst v; rewrite La; cbn [andb]; reflexivity|]. cbn [andb]. reflexivity. }
  assert (RG : forall x y, x = mult (adj s) a b + k -> y = mult (adj s) b a + k -> rep_graph (d_set b (d_set a y rb) (d_set a (d_set b x ra) gg)) (adj s')).
  { intros x y -> ->. apply (rep_graph_update gg (adj s) (adj s') a b _ _ ra rb); [exact Hab|exact Ha|exact Hb|exact Hgn|exact Hg|exact Ea|exact Eb|lia|lia|].
    intros v w. rewrite Hm. destruct (Nat.eqb_spec v a) as [Q|Q], (Nat.eqb_spec w b) as [Q'|Q']; cbn [andb orb]; subst; try lia.
    + destruct (Nat.eqb_spec a b); [contradiction|]. cbn [andb]. lia.
    + destruct (Nat.eqb_spec v b) as [Q1|Q1], (Nat.eqb_spec b a) as [Q2|Q2]; cbn [andb orb]; subst; try lia; congruence.
    + destruct (Nat.eqb_spec v b) as [Q1|Q1], (Nat.eqb_spec w a) as [Q2|Q2]; cbn [andb orb]; subst; lia. }
  unfold d_mem. rewrite Fa. destruct (Z.ltb_spec 0 (mult (adj s) a b)) as [P|P].
  - (* the pair already has edges *)
    cbn beta iota. rewrite (d_find_set_other a b _ gg) by (intros Q; apply Hab; symmetry; exact Q). rewrite Eb, Fb.
    destruct (Z.ltb_spec 0 (mult (adj s) b a)); [|lia]. rewrite Eva. rewrite (d_find_set_other a b _ vtv) by (intros Q; apply Hab; symmetry; exact Q). rewrite Evb.
    exists s'. split; [reflexivity|]. split; [apply RG; reflexivity|]. split; [apply RV; reflexivity|]. rewrite Es'. cbn [tot]. lia.
  - (* first edge of the pair *)
    rewrite (d_find_set_other a b _ gg) by (intros Q; apply Hab; symmetry; exact Q). rewrite Eb. rewrite Eva. rewrite (d_find_set_other a b _ vtv) by (intros Q; apply Hab; symmetry; exact Q). rewrite Evb.
    exists s'. split; [reflexivity|]. split; [apply RG; lia|]. split; [apply RV; reflexivity|]. rewrite Es'. cbn [tot]. lia. Qed.

Theorem get_valence_refines gg vtv tv s v : rep_gstate gg vtv tv s -> CFGraph_get_valence vtv v = if Nat.ltb v (gn s) then PyOk (nthZ (valc s) v) else PyExn tt.
Proof. intros (_ & (_ & _ & Hf) & _). unfold CFGraph_get_valence, d_mem. rewrite (Hf v). destruct (Nat.ltb v (gn s)); reflexivity. Qed.
Theorem is_loopless_refines a b : CFGraph_is_loopless a b = negb (Nat.eqb a b).
Proof. reflexivity. Qed.


(* ---- CFGraph.add_edges: one add_edge per entry, in order; the first refused edge raises and the earlier ones stay applied ---- *)
Definition add_edges_body (acc_ : pyres (dictD * dictZ * Z) (dictD * dictZ * Z)) (kv_ : nat * nat * Z) : pyres (dictD * dictZ * Z) (dictD * dictZ * Z) :=
  match acc_ with PyExn e_ => PyExn e_ | PyOk (self_graph, self_vertex_total_valence, self_total_valence) => let '(v1_name, v2_name, valence) := kv_ in
  match CFGraph_add_edge self_graph self_vertex_total_valence self_total_valence v1_name v2_name valence with
  | PyExn (self_graph, self_vertex_total_valence, self_total_valence) => PyExn (self_graph, self_vertex_total_valence, self_total_valence)
  | PyOk (self_graph, self_vertex_total_valence, self_total_valence) => PyOk (self_graph, self_vertex_total_valence, self_total_valence) end end.
Lemma add_edges_body_exn es e : fold_left add_edges_body es (PyExn e) = PyExn e.
Proof. induction es as [|x es IH]; [reflexivity|exact IH]. Qed.
Lemma add_edges_unfold gg vtv tv es : CFGraph_add_edges gg vtv tv es =
  match fold_left add_edges_body es (PyOk (gg, vtv, tv)) with PyExn e_ => PyExn e_ | PyOk (a, b, c) => PyOk (a, b, c) end.
Proof. reflexivity. Qed.
Lemma add_edges_loop : forall es gg vtv tv s, ginv s -> rep_gstate gg vtv tv s ->
  match fold_left add_edges_body es (PyOk (gg, vtv, tv)) with
  | PyOk (gg', vtv', tv') => snd (add_edges s es) = true /\ rep_gstate gg' vtv' tv' (fst (add_edges s es))
  | PyExn (gg', vtv', tv') => snd (add_edges s es) = false /\ rep_gstate gg' vtv' tv' (fst (add_edges s es)) end.
Proof. induction es as [|[[a b] k] es IH]; intros gg vtv tv s Hi HR.
  - cbn. split; [reflexivity|exact HR].
  - cbn [fold_left add_edges]. unfold add_edges_body at 2. pose proof (add_edge_refines gg vtv tv s a b k Hi HR) as H.
    destruct (CFGraph_add_edge gg vtv tv a b k) as [[[gg1 vtv1] tv1]|[[gg1 vtv1] tv1]].
    + destruct H as (s1 & E1 & R1). rewrite E1. apply IH; [|exact R1]. apply (add_edge_inv s a b k s1 Hi E1).
    + destruct H as [E1 E2]. inversion E2; subst. rewrite E1, add_edges_body_exn. cbn. split; [reflexivity|exact HR]. Qed.
Theorem add_edges_refines gg vtv tv s es : ginv s -> rep_gstate gg vtv tv s ->
  match CFGraph_add_edges gg vtv tv es with
  | PyOk (gg', vtv', tv') => snd (add_edges s es) = true /\ rep_gstate gg' vtv' tv' (fst (add_edges s es))
  | PyExn (gg', vtv', tv') => snd (add_edges s es) = false /\ rep_gstate gg' vtv' tv' (fst (add_edges s es)) end.
Proof. intros Hi HR. rewrite add_edges_unfold. pose proof (add_edges_loop es gg vtv tv s Hi HR) as H.
  destruct (fold_left add_edges_body es (PyOk (gg, vtv, tv))) as [[[a b] c]|[[a b] c]]; exact H. Qed.

(* ---- the constructor CFGraph(vertices, edges), translated from the current source: one empty row and a zero valence per vertex (in whatever order the set is
   iterated), then add_edges; the new object represents the model's add_edges from the edgeless graph on the same vertices, and the exception leaves behind what
   add_edges had built (no object exists then; the state is what the half-built object held) ---- *)
Lemma ginit_mult0 n v w : mult (adj (ginit n)) v w = 0.
Proof. unfold ginit, mult. cbn [adj]. destruct (le_lt_dec n v). rewrite nth_overflow by (rewrite tab_length; lia). now destruct w.
  rewrite (nth_tab n (fun _ => tab n (fun _ : nat => 0))) by auto. destruct (le_lt_dec n w); [apply nthZ_tab_out; auto|apply (nthZ_tab n (fun _ => 0)); auto]. Qed.
Definition ginit_body (acc_ : pyres (list nat * dictD * dictZ * Z) (dictD * dictZ)) (vertex : nat) : pyres (list nat * dictD * dictZ * Z) (dictD * dictZ) :=
  match acc_ with PyExn e_ => PyExn e_ | PyOk (self_graph, self_vertex_total_valence) =>
  let self_graph := d_set vertex [] self_graph in
  let self_vertex_total_valence := d_set vertex 0 self_vertex_total_valence in
  PyOk (self_graph, self_vertex_total_valence) end.
Lemma ginit_loop : forall L (a : dictD) (b : dictZ), fold_left ginit_body L (PyOk (a, b)) = PyOk (fold_left (fun d v => d_set v [] d) L a, fold_left (fun d v => d_set v 0 d) L b).
Proof. induction L as [|x L IH]; intros a b; [reflexivity|]. cbn [fold_left]. unfold ginit_body at 2. cbn zeta. apply IH. Qed.
Lemma graph_ctor_unfold so vs es : CFGraph___init__ so vs es =
  if negb (nodupb vs) then PyExn ([], [], [], 0) else
  match fold_left ginit_body (so vs) (PyOk ([], [])) with PyExn e_ => PyExn e_ | PyOk (gg, vtv) =>
  if negb (match es with [] => true | _ :: _ => false end) then
    match CFGraph_add_edges gg vtv 0 es with PyExn (gg', vtv', tv') => PyExn (vs, gg', vtv', tv') | PyOk (gg', vtv', tv') => PyOk (vs, gg', vtv', tv') end
  else PyOk (vs, gg, vtv, 0) end.
Proof. reflexivity. Qed.
Lemma ginit_rep n vs so : rep_vset n vs -> NoDup vs -> (forall l, Permutation (so l) l) ->
  rep_gstate (map (fun v => (v, ([] : dictZ))) (so vs)) (map (fun v => (v, 0)) (so vs)) 0 (ginit n).
Proof. intros Hvs Hnd Hso. assert (Hsn : NoDup (so vs)) by (apply (Permutation_NoDup (Permutation_sym (Hso vs))); exact Hnd).
  assert (Hn : nv (adj (ginit n)) = n) by (unfold ginit, nv; cbn [adj]; apply tab_length).
  split; [|split; [|reflexivity]].
  - intros v. rewrite Hn, d_find_const, (s_mem_perm v _ _ (Hso vs)), (Hvs v). destruct (Nat.ltb v n); [|reflexivity].
    exists []. split; [reflexivity|]. split; [constructor|]. intros w. rewrite ginit_mult0. reflexivity.
  - unfold gn. change (length (adj (ginit n))) with (nv (adj (ginit n))). rewrite Hn. change (valc (ginit n)) with (tab n (fun _ : nat => 0)). apply rep_div_intro.
    + rewrite d_keys_const. exact Hsn.
    + intros v. rewrite d_find_const, (s_mem_perm v _ _ (Hso vs)), (Hvs v). reflexivity. Qed.
Theorem graph_ctor_refines n vs so es : rep_vset n vs -> NoDup vs -> (forall l, Permutation (so l) l) ->
  match CFGraph___init__ so vs es with
  | PyOk (vsf, gg, vtv, tv) => vsf = vs /\ snd (add_edges (ginit n) es) = true /\ rep_gstate gg vtv tv (fst (add_edges (ginit n) es))
  | PyExn (vsf, gg, vtv, tv) => snd (add_edges (ginit n) es) = false /\ rep_gstate gg vtv tv (fst (add_edges (ginit n) es)) end.
Proof. intros Hvs Hnd Hso. rewrite graph_ctor_unfold. assert (En : nodupb vs = true) by (apply nodupb_NoDup; exact Hnd). rewrite En. cbn [negb].
  assert (Hsn : NoDup (so vs)) by (apply (Permutation_NoDup (Permutation_sym (Hso vs))); exact Hnd).
  rewrite ginit_loop. rewrite !const_fold by (try exact Hsn; intros; reflexivity). cbn [app].
  pose proof (ginit_rep n vs so Hvs Hnd Hso) as HR.
  destruct es as [|e es]; cbn [negb]; [split; [reflexivity|]; split; [reflexivity|exact HR]|].
  pose proof (add_edges_refines _ _ 0 (ginit n) (e :: es) (ginit_inv n) HR) as H.
  destruct (CFGraph_add_edges _ _ 0 (e :: es)) as [[[a b] c]|[[a b] c]]; [split; [reflexivity|exact H]|exact H]. Qed.
