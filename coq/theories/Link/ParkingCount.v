(* The number of parking functions of length n is (n+1)^(n-1), for every n >= 1 (Pollak's circular argument, via the cycle lemma):
   among the n+1 cyclic shifts (mod n+1) of any sequence in {0..n}^n exactly one is a parking function (0-based). Counting with sums over the
   enumeration all_seqs gives (n+1) * #PF = (n+1)^n. Consequence: the library's generator returns exactly parking_count n sequences. *)
From Coq Require Import ZArith List Lia Bool Arith.
Import ListNotations.
From CF Require Import ZSum ListAux Config ConfigLink ParkingLink.
Open Scope Z_scope.

Definition zrange (N : nat) : list Z := map Z.of_nat (seq 0 N).
Lemma in_zrange N x : In x (zrange N) <-> 0 <= x < Z.of_nat N.
Proof. unfold zrange. rewrite in_map_iff. split.
  - intros [i [<- Hi]]. apply in_seq in Hi. lia.
  - intros H. exists (Z.to_nat x). split; [lia|]. apply in_seq. lia. Qed.
Lemma zrange_length N : length (zrange N) = N. Proof. unfold zrange. now rewrite map_length, seq_length. Qed.

(* ---- rotation of residues ---- *)
Lemma add_mod_cases N x s : 0 <= x < N -> 0 <= s < N -> (x + s) mod N = if x + s <? N then x + s else x + s - N.
Proof. intros Hx Hs. destruct (Z.ltb_spec (x + s) N) as [H|H]; [apply Z.mod_small; lia|].
  symmetry. apply (Z.mod_unique (x + s) N 1); [left; lia|lia]. Qed.
Lemma zsum_seq_shift (H : Z -> Z) : forall len a d, zsum (fun i => H (Z.of_nat i + d)) (seq a len) = zsum (fun i => H (Z.of_nat i)) (seq (a + Z.to_nat d) len) \/ d < 0.
Proof. intros len a d. destruct (Z_lt_le_dec d 0); [now right|left]. revert a. induction len as [|len IH]; intros a; [reflexivity|]. cbn [seq zsum]. f_equal.
  - f_equal. lia.
  - rewrite IH. replace (S a + Z.to_nat d)%nat with (S (a + Z.to_nat d)) by lia. reflexivity. Qed.
Lemma seq_split a b c : seq a (b + c) = seq a b ++ seq (a + b) c.
Proof. apply seq_app. Qed.
Lemma rot_sum_aux (t k : nat) (H : Z -> Z) : (0 < t)%nat ->
  zsum (fun x => H ((x + Z.of_nat k) mod Z.of_nat (t + k))) (zrange (t + k)) = zsum H (zrange (t + k)).
Proof. intros Ht. unfold zrange. rewrite !zsum_map. set (R := zsum (fun x => H (Z.of_nat x)) (seq 0 (t + k))). rewrite seq_split, zsum_app. cbn [Nat.add].
  rewrite (zsum_ext _ (fun i => H (Z.of_nat i + Z.of_nat k)) (seq 0 t)).
  2:{ intros i Hi. apply in_seq in Hi. rewrite add_mod_cases by lia. destruct (Z.ltb_spec (Z.of_nat i + Z.of_nat k) (Z.of_nat (t + k))); [reflexivity|lia]. }
  rewrite (zsum_ext _ (fun i => H (Z.of_nat i + (Z.of_nat k - Z.of_nat (t + k)))) (seq t k)).
  2:{ intros i Hi. apply in_seq in Hi. rewrite add_mod_cases by lia. destruct (Z.ltb_spec (Z.of_nat i + Z.of_nat k) (Z.of_nat (t + k))); [lia|f_equal; lia]. }
  assert (E1 : forall len a, zsum (fun i => H (Z.of_nat i + Z.of_nat k)) (seq a len) = zsum (fun i => H (Z.of_nat i)) (seq (k + a) len)).
  { induction len as [|m IH]; intros a; [reflexivity|]. cbn [seq zsum]. f_equal; [f_equal; lia|]. replace (S (k + a)) with (k + S a)%nat by lia. apply IH. }
  assert (E2 : forall len a, zsum (fun i => H (Z.of_nat i + (Z.of_nat k - Z.of_nat (t + k)))) (seq (t + a) len) = zsum (fun i => H (Z.of_nat i)) (seq a len)).
  { induction len as [|m IH]; intros a; [reflexivity|]. cbn [seq zsum]. f_equal; [f_equal; lia|]. replace (S (t + a)) with (t + S a)%nat by lia. apply IH. }
  rewrite E1. specialize (E2 k 0%nat). rewrite Nat.add_0_r in E2. rewrite E2. rewrite Nat.add_0_r.
  unfold R. rewrite (Nat.add_comm t k), seq_split, zsum_app. cbn [Nat.add]. lia. Qed.
Lemma rot_sum (N : nat) (H : Z -> Z) s : 0 <= s < Z.of_nat N -> zsum (fun x => H ((x + s) mod Z.of_nat N)) (zrange N) = zsum H (zrange N).
Proof. intros Hs. pose proof (rot_sum_aux (N - Z.to_nat s) (Z.to_nat s) H ltac:(lia)) as R.
  replace (N - Z.to_nat s + Z.to_nat s)%nat with N in R by lia. rewrite Z2Nat.id in R by lia. exact R. Qed.

(* ---- sums over all sequences ---- *)
Lemma zsum_flat_map' {A B} (f : B -> Z) (h : A -> list B) l : zsum f (flat_map h l) = zsum (fun a => zsum f (h a)) l.
Proof. induction l as [|a l IH]; [reflexivity|]. cbn [flat_map zsum]. now rewrite zsum_app, IH. Qed.
Lemma all_seqs_sum_step (F : list Z -> Z) vals n : zsum F (all_seqs vals (S n)) = zsum (fun x => zsum (fun u => F (x :: u)) (all_seqs vals n)) vals.
Proof. cbn [all_seqs]. rewrite zsum_flat_map'. apply zsum_ext. intros x _. now rewrite zsum_map. Qed.
Lemma all_seqs_count vals n : zsum (fun _ => 1) (all_seqs vals n) = Z.of_nat (length vals) ^ Z.of_nat n.
Proof. induction n as [|n IH]; [reflexivity|]. rewrite all_seqs_sum_step. rewrite (zsum_ext _ (fun _ => Z.of_nat (length vals) ^ Z.of_nat n)) by (intros; exact IH).
  rewrite zsum_const. rewrite Nat2Z.inj_succ, Z.pow_succ_r by lia. lia. Qed.
Definition shift (N : nat) (s : Z) (u : list Z) : list Z := map (fun x => (x + s) mod Z.of_nat N) u.
Lemma shift_sum N s : 0 <= s < Z.of_nat N -> forall n (F : list Z -> Z),
  zsum (fun u => F (shift N s u)) (all_seqs (zrange N) n) = zsum F (all_seqs (zrange N) n).
Proof. intros Hs. induction n as [|n IH]; intros F; [reflexivity|]. rewrite !all_seqs_sum_step.
  rewrite (zsum_ext _ (fun x => (fun y => zsum (fun u => F (y :: u)) (all_seqs (zrange N) n)) ((x + s) mod Z.of_nat N))).
  - apply (rot_sum N (fun y => zsum (fun u => F (y :: u)) (all_seqs (zrange N) n)) s Hs).
  - intros x _. cbn [shift map]. apply (IH (fun u => F ((x + s) mod Z.of_nat N :: u))). Qed.
(* sequences that use a value on which F vanishes do not count *)
Lemma all_seqs_drop_value (v : Z) vals : forall n (F : list Z -> Z), (forall u, In v u -> F u = 0) ->
  zsum F (all_seqs (vals ++ [v]) n) = zsum F (all_seqs vals n).
Proof. induction n as [|n IH]; intros F HF; [reflexivity|]. rewrite !all_seqs_sum_step, zsum_app. cbn [zsum].
  rewrite (zsum_ext (fun u => F (v :: u)) (fun _ => 0)) by (intros u _; apply HF; now left). rewrite zsum_zero.
  rewrite (zsum_ext _ (fun x => zsum (fun u => F (x :: u)) (all_seqs vals n))); [lia|].
  intros x _. apply IH. intros u Hu. apply HF. now right. Qed.
Lemma all_seqs_map (h : Z -> Z) vals n : all_seqs (map h vals) n = map (map h) (all_seqs vals n).
Proof. induction n as [|n IH]; [reflexivity|]. cbn [all_seqs]. rewrite IH. rewrite flat_map_concat_map, map_map. rewrite flat_map_concat_map, concat_map, map_map. f_equal.
  apply map_ext. intros x. rewrite !map_map. reflexivity. Qed.

(* ---- the cycle lemma on counts ---- *)
Definition inrange (N : nat) (u : list Z) : Prop := forall x, In x u -> 0 <= x < Z.of_nat N.
Lemma lowc_cons x u j : lowc (x :: u) j = (if x <? j then 1 else 0) + lowc u j.
Proof. reflexivity. Qed.
Lemma lowc_bounds u j : 0 <= lowc u j <= Z.of_nat (length u).
Proof. induction u as [|x u IH]; [cbn; lia|]. rewrite lowc_cons. cbn [length]. destruct (x <? j); lia. Qed.
Lemma lowc_all u j N : inrange N u -> Z.of_nat N <= j -> lowc u j = Z.of_nat (length u).
Proof. intros Hr Hj. induction u as [|x u IH]; [reflexivity|]. rewrite lowc_cons, IH by (intros y Hy; apply Hr; now right). cbn [length].
  specialize (Hr x (or_introl eq_refl)). destruct (Z.ltb_spec x j); lia. Qed.
Lemma lowc_none u j : inrange (length u + 1) u -> j <= 0 -> lowc u j = 0.
Proof. intros _ Hj. induction u as [|x u IH]; [reflexivity|]. Abort.
Lemma lowc_zero N u j : inrange N u -> j <= 0 -> lowc u j = 0.
Proof. intros Hr Hj. induction u as [|x u IH]; [reflexivity|]. rewrite lowc_cons, IH by (intros y Hy; apply Hr; now right).
  specialize (Hr x (or_introl eq_refl)). destruct (Z.ltb_spec x j); lia. Qed.
Lemma count_shift N u s t k : inrange N u -> 0 <= s < Z.of_nat N -> 0 <= t < Z.of_nat N -> (s = 0 /\ t = 0 \/ s + t = Z.of_nat N) -> 0 <= k <= Z.of_nat N ->
  lowc (shift N s u) k = if t + k <=? Z.of_nat N then lowc u (t + k) - lowc u t else (Z.of_nat (length u) - lowc u t) + lowc u (t + k - Z.of_nat N).
Proof. intros Hr Hs Ht Hst Hk. induction u as [|x u IH].
  - cbn. destruct (t + k <=? Z.of_nat N); reflexivity.
  - cbn [shift map]. fold (shift N s u). rewrite !lowc_cons. rewrite IH by (intros y Hy; apply Hr; now right). cbn [length].
    specialize (Hr x (or_introl eq_refl)). rewrite add_mod_cases by lia.
    destruct (Z.leb_spec (t + k) (Z.of_nat N)); destruct (Z.ltb_spec (x + s) (Z.of_nat N));
    repeat match goal with |- context [?a <? ?b] => destruct (Z.ltb_spec a b) end; lia. Qed.

Definition Gf (u : list Z) (j : Z) : Z := lowc u j - j.
Definition pf0 (n : nat) (u : list Z) : bool := forallb (fun k => Z.of_nat k <=? lowc u (Z.of_nat k)) (seq 1 n).
Lemma pf0_spec n u : pf0 n u = true <-> forall k, 1 <= k <= Z.of_nat n -> k <= lowc u k.
Proof. unfold pf0. rewrite forallb_forall. split.
  - intros H k Hk. specialize (H (Z.to_nat k)). rewrite Z2Nat.id in H by lia. apply Z.leb_le. apply H. apply in_seq. lia.
  - intros H k Hk. apply in_seq in Hk. apply Z.leb_le. apply H. lia. Qed.
(* first minimum of G over 0..N-1 *)
Definition first_min (u : list Z) (N : nat) (t : Z) : Prop :=
  0 <= t < Z.of_nat N /\ (forall j, t < j < Z.of_nat N -> Gf u t <= Gf u j) /\ (forall j, 0 <= j < t -> Gf u t < Gf u j).
Lemma first_min_exists u : forall N, (0 < N)%nat -> exists t, first_min u N t.
Proof. induction N as [|N IH]; [lia|]. intros _. destruct N as [|N'].
  - exists 0. split; [lia|]. split; intros; lia.
  - destruct (IH ltac:(lia)) as [t [Ht [H1 H2]]]. set (M := Z.of_nat (S N')) in *.
    destruct (Z_le_gt_dec (Gf u t) (Gf u M)) as [Hle|Hgt].
    + exists t. split; [lia|]. split; [|exact H2]. intros j Hj. destruct (Z.eq_dec j M) as [->|]; [exact Hle|]. apply H1. lia.
    + exists M. split; [unfold M; lia|]. split; [intros j Hj; unfold M in *; lia|]. intros j Hj.
      destruct (Z_lt_le_dec j t) as [L|L]; [specialize (H2 j ltac:(lia)); lia|]. destruct (Z.eq_dec j t) as [->|]; [lia|]. specialize (H1 j ltac:(lia)). lia. Qed.
Lemma first_min_unique u N t t' : first_min u N t -> first_min u N t' -> t = t'.
Proof. intros [Ht [A1 A2]] [Ht' [B1 B2]]. destruct (Z.lt_trichotomy t t') as [L|[E|L]]; [|exact E|].
  - specialize (A1 t' ltac:(lia)). specialize (B2 t ltac:(lia)). lia.
  - specialize (B1 t ltac:(lia)). specialize (A2 t' ltac:(lia)). lia. Qed.

Definition opp_mod (N : nat) (t : Z) : Z := if t =? 0 then 0 else Z.of_nat N - t.
Lemma opp_mod_range N t : 0 <= t < Z.of_nat N -> 0 <= opp_mod N t < Z.of_nat N /\ (opp_mod N t = 0 /\ t = 0 \/ opp_mod N t + t = Z.of_nat N) /\ opp_mod N (opp_mod N t) = t.
Proof. intros H. unfold opp_mod. destruct (Z.eqb_spec t 0) as [->|Hne]; cbn; [lia|]. destruct (Z.eqb_spec (Z.of_nat N - t) 0); lia. Qed.
Section Cycle.
Variable n : nat.
Let N := S n.
Variable u : list Z.
Hypothesis Hlen : length u = n.
Hypothesis Hr : inrange N u.
Lemma G0 : Gf u 0 = 0. Proof. unfold Gf. rewrite (lowc_zero N u 0 Hr) by lia. lia. Qed.
Lemma GN : Gf u (Z.of_nat N) = -1. Proof. unfold Gf. rewrite (lowc_all u (Z.of_nat N) N Hr) by lia. unfold N. lia. Qed.
Lemma pf0_shift_iff s t : 0 <= s < Z.of_nat N -> 0 <= t < Z.of_nat N -> (s = 0 /\ t = 0 \/ s + t = Z.of_nat N) ->
  (pf0 n (shift N s u) = true <-> first_min u N t).
Proof. intros Hs Ht Hst. rewrite pf0_spec. pose proof G0 as g0. pose proof GN as gN. unfold first_min, Gf in *. split.
  - intros H. split; [exact Ht|]. split.
    + intros j Hj. specialize (H (j - t) ltac:(unfold N in *; lia)). rewrite (count_shift N u s t (j - t) Hr Hs Ht Hst) in H by lia.
      replace (t + (j - t)) with j in H by lia. destruct (Z.leb_spec j (Z.of_nat N)); lia.
    + intros j Hj. specialize (H (j + Z.of_nat N - t) ltac:(unfold N in *; lia)). rewrite (count_shift N u s t _ Hr Hs Ht Hst) in H by lia.
      replace (t + (j + Z.of_nat N - t)) with (j + Z.of_nat N) in H by lia.
      destruct (Z.leb_spec (j + Z.of_nat N) (Z.of_nat N)).
      * assert (j = 0) by lia. subst j. replace (0 + Z.of_nat N) with (Z.of_nat N) in H by lia. unfold N in *. lia.
      * replace (j + Z.of_nat N - Z.of_nat N) with j in H by lia. unfold N in *. lia.
  - intros [_ [H1 H2]] k Hk. rewrite (count_shift N u s t k Hr Hs Ht Hst) by (unfold N; lia).
    destruct (Z.leb_spec (t + k) (Z.of_nat N)).
    + destruct (Z.eq_dec (t + k) (Z.of_nat N)) as [E|E].
      * rewrite E. specialize (H2 0 ltac:(unfold N in *; lia)). unfold N in *. lia.
      * specialize (H1 (t + k) ltac:(lia)). lia.
    + specialize (H2 (t + k - Z.of_nat N) ltac:(unfold N in *; lia)). unfold N in *. lia. Qed.
Theorem unique_parking_shift : exists s0, 0 <= s0 < Z.of_nat N /\ pf0 n (shift N s0 u) = true /\
  forall s, 0 <= s < Z.of_nat N -> pf0 n (shift N s u) = true -> s = s0.
Proof. destruct (first_min_exists u N ltac:(unfold N; lia)) as [t Hfm]. pose proof Hfm as [Ht _].
  destruct (opp_mod_range N t Ht) as [A [B C]]. exists (opp_mod N t). split; [exact A|]. split; [apply (pf0_shift_iff _ t A Ht B); exact Hfm|].
  intros s Hs Hp. destruct (opp_mod_range N s Hs) as [A' [B' C']].
  assert (Hfm' : first_min u N (opp_mod N s)). { apply (pf0_shift_iff s (opp_mod N s) Hs A'); [|exact Hp]. destruct B' as [[E1 E2]|E]; [left; split; [exact E2|exact E1]|right; lia]. }
  rewrite <- C'. f_equal. eapply first_min_unique; eauto. Qed.
End Cycle.

(* ---- counting ---- *)
Definition ind (b : bool) : Z := if b then 1 else 0.
Lemma unique_sum n u : length u = n -> inrange (S n) u -> zsum (fun s => ind (pf0 n (shift (S n) s u))) (zrange (S n)) = 1.
Proof. intros Hlen Hr. destruct (unique_parking_shift n u Hlen Hr) as [s0 [Hs0 [Hp Hu]]]. unfold zrange. rewrite zsum_map.
  rewrite (zsum_ext _ (fun i => if Nat.eqb i (Z.to_nat s0) then 1 else 0)).
  - apply zsum_indicator; [apply seq_NoDup|apply in_seq; lia].
  - intros i Hi. apply in_seq in Hi. destruct (Nat.eqb_spec i (Z.to_nat s0)) as [->|Hne].
    + rewrite Z2Nat.id by lia. now rewrite Hp.
    + destruct (pf0 n (shift (S n) (Z.of_nat i) u)) eqn:E; [|reflexivity]. exfalso. apply Hne. rewrite <- (Hu (Z.of_nat i)); [lia|lia|exact E]. Qed.
Lemma in_all_seqs_zrange N n u : In u (all_seqs (zrange N) n) -> length u = n /\ inrange N u.
Proof. intros H. apply all_seqs_spec in H. destruct H as [H1 H2]. split; auto. intros x Hx. apply in_zrange. auto. Qed.
Theorem pf0_count n : (0 < n)%nat -> zsum (fun u => ind (pf0 n u)) (all_seqs (zrange (S n)) n) = Z.of_nat (S n) ^ (Z.of_nat n - 1).
Proof. intros Hn. set (N := S n). set (U := all_seqs (zrange N) n). set (P := zsum (fun u => ind (pf0 n u)) U).
  assert (E1 : zsum (fun u => zsum (fun s => ind (pf0 n (shift N s u))) (zrange N)) U = Z.of_nat N ^ Z.of_nat n).
  { rewrite (zsum_ext _ (fun _ => 1)). - unfold U. rewrite all_seqs_count, zrange_length. reflexivity.
    - intros u Hu. destruct (in_all_seqs_zrange N n u Hu) as [A B]. now apply unique_sum. }
  rewrite zsum_swap in E1.
  rewrite (zsum_ext _ (fun _ => P)) in E1.
  2:{ intros s Hs. apply in_zrange in Hs. unfold P, U. apply (shift_sum N s Hs n (fun u => ind (pf0 n u))). }
  rewrite zsum_const, zrange_length in E1.
  assert (E2 : Z.of_nat N ^ Z.of_nat n = Z.of_nat N * Z.of_nat N ^ (Z.of_nat n - 1)).
  { replace (Z.of_nat n) with (Z.succ (Z.of_nat n - 1)) at 1 by lia. rewrite Z.pow_succ_r by lia. reflexivity. }
  rewrite E2 in E1. apply (Z.mul_reg_l _ _ (Z.of_nat N)); [unfold N; lia|]. lia. Qed.

(* ---- the library's generator ---- *)
Lemma forallb_ext2 {A} (f h : A -> bool) l : (forall x, In x l -> f x = h x) -> forallb f l = forallb h l.
Proof. induction l as [|a l IH]; intros H; cbn; auto. rewrite (H a) by now left. f_equal. apply IH. intros; apply H; now right. Qed.
Lemma filter_length_ind {A} (p : A -> bool) l : Z.of_nat (length (filter p l)) = zsum (fun x => ind (p x)) l.
Proof. induction l as [|a l IH]; [reflexivity|]. cbn [filter zsum]. unfold ind at 1. destruct (p a); cbn [length]; lia. Qed.
Lemma range1_shift n : range1 n = map (fun x => x + 1) (zrange n).
Proof. unfold range1, zrange. rewrite map_map. rewrite <- seq_shift, map_map. apply map_ext. intros i. lia. Qed.
Lemma zrange_S n : zrange (S n) = zrange n ++ [Z.of_nat n].
Proof. unfold zrange. rewrite seq_S, map_app. reflexivity. Qed.
Lemma pf0_parking n v : (0 < n)%nat -> length v = n -> inrange n v -> is_parking_n (map (fun x => x + 1) v) n = pf0 n v.
Proof. intros Hn Hlen Hr. assert (Hne : map (fun x => x + 1) v <> []) by (destruct v; [cbn in Hlen; lia|discriminate]).
  transitivity (is_parking (map (fun x => x + 1) v)); [unfold is_parking; now rewrite map_length, Hlen|].
  rewrite (parking_forms_agree _ Hne). unfold is_parking_count, pf0. rewrite map_length, Hlen.
  assert (E : forallb (fun x => (1 <=? x) && (x <=? Z.of_nat n)) (map (fun x => x + 1) v) = true).
  { apply forallb_forall. intros y Hy. apply in_map_iff in Hy. destruct Hy as [x [<- Hx]]. specialize (Hr x Hx). apply andb_true_iff. split; apply Z.leb_le; lia. }
  rewrite E. cbn [andb]. apply forallb_ext2. intros j _. now rewrite <- cnt_filter, cnt_shift. Qed.
Lemma pf0_count_small n : (0 < n)%nat -> zsum (fun v => ind (pf0 n v)) (all_seqs (zrange n) n) = Z.of_nat (S n) ^ (Z.of_nat n - 1).
Proof. intros Hn. rewrite <- (pf0_count n Hn). rewrite zrange_S.
  set (F := fun u : list Z => if Nat.eqb (length u) n then ind (pf0 n u) else 0).
  rewrite (zsum_ext (fun v => ind (pf0 n v)) F (all_seqs (zrange n) n)).
  2:{ intros v Hv. apply all_seqs_spec in Hv. unfold F. now rewrite (proj1 Hv), Nat.eqb_refl. }
  rewrite (zsum_ext (fun v => ind (pf0 n v)) F (all_seqs (zrange n ++ [Z.of_nat n]) n)).
  2:{ intros v Hv. apply all_seqs_spec in Hv. unfold F. now rewrite (proj1 Hv), Nat.eqb_refl. }
  symmetry. apply all_seqs_drop_value. intros u Hu. unfold F. destruct (Nat.eqb_spec (length u) n) as [El|]; [|reflexivity].
  destruct (pf0 n u) eqn:E; [|reflexivity]. exfalso. rewrite pf0_spec in E. specialize (E (Z.of_nat n) ltac:(lia)).
  assert (Hlt : lowc u (Z.of_nat n) < Z.of_nat (length u)).
  { clear - Hu. induction u as [|x t IH]; [destruct Hu|]. rewrite lowc_cons. cbn [length]. destruct Hu as [->|Hu].
    - destruct (Z.ltb_spec (Z.of_nat n) (Z.of_nat n)); [lia|]. pose proof (lowc_bounds t (Z.of_nat n)). lia.
    - specialize (IH Hu). destruct (x <? Z.of_nat n); lia. }
  lia. Qed.
Theorem generate_parking_count n : Z.of_nat (length (generate_parking n)) = parking_count n.
Proof. destruct n as [|m]; [reflexivity|].
  change (generate_parking (S m)) with (filter (fun a => is_parking_n a (S m)) (all_seqs (range1 (S m)) (S m))).
  change (parking_count (S m)) with ((Z.of_nat (S m) + 1) ^ (Z.of_nat (S m) - 1)). set (n := S m).
  replace (Z.of_nat n + 1) with (Z.of_nat (S n)) by lia.
  rewrite filter_length_ind. rewrite range1_shift, all_seqs_map, zsum_map.
  rewrite (zsum_ext _ (fun v => ind (pf0 n v))).
  2:{ intros v Hv. destruct (in_all_seqs_zrange n n v Hv) as [A B]. f_equal. apply pf0_parking; auto. unfold n; lia. }
  apply pf0_count_small. unfold n; lia. Qed.

(* no sequence is generated twice *)
Lemma nodup_app' {A} (l1 l2 : list A) : NoDup l1 -> NoDup l2 -> (forall x, In x l1 -> ~ In x l2) -> NoDup (l1 ++ l2).
Proof. induction 1 as [|a l1 Ha Hd IH]; intros H2 Hdis; [exact H2|]. cbn [app]. constructor.
  - intro Hin. apply in_app_or in Hin. destruct Hin as [Hin|Hin]; [contradiction|]. apply (Hdis a); [now left|exact Hin].
  - apply IH; auto. intros x Hx. apply Hdis. now right. Qed.
Lemma all_seqs_nodup vals : NoDup vals -> forall n, NoDup (all_seqs vals n).
Proof. intros Hv. induction n as [|n IH]; [repeat constructor; intros []|]. cbn [all_seqs].
  assert (G : forall vs, NoDup vs -> NoDup (flat_map (fun x => map (cons x) (all_seqs vals n)) vs)).
  { induction 1 as [|x vs Hx Hd IHv]; [constructor|]. cbn [flat_map]. apply nodup_app'; [|exact IHv|].
    - apply FinFun.Injective_map_NoDup; [|exact IH]. intros a b E. now inversion E.
    - intros u Hu Hin. apply in_map_iff in Hu. destruct Hu as [w [<- _]]. apply in_flat_map in Hin. destruct Hin as [y [Hy Hin]].
      apply in_map_iff in Hin. destruct Hin as [w' [E _]]. inversion E; subst. contradiction. }
  now apply G. Qed.
Theorem generate_parking_nodup n : NoDup (generate_parking n).
Proof. destruct n as [|m]; [constructor|]. change (generate_parking (S m)) with (filter (fun a => is_parking_n a (S m)) (all_seqs (range1 (S m)) (S m))).
  apply NoDup_filter. apply all_seqs_nodup. unfold range1. apply FinFun.Injective_map_NoDup; [|apply seq_NoDup]. intros a b E. lia. Qed.

(* ---- Cayley's formula as a count of superstables: K_(n+1) has exactly (n+1)^(n-1) superstable configurations (= spanning trees) ---- *)
From CF Require Import Defs Core GraphLink BoundsLink.
Lemma flat_map_map' {A B C} (f : B -> list C) (g : A -> B) l : flat_map f (map g l) = flat_map (fun x => f (g x)) l.
Proof. induction l as [|a l IH]; [reflexivity|]. cbn [map flat_map]. now rewrite IH. Qed.
Lemma boxes_const n : forall m, boxes (repeat (Z.of_nat n) m) = all_seqs (zrange n) m.
Proof. induction m as [|m IH]; [reflexivity|]. cbn [repeat boxes all_seqs]. rewrite Nat2Z.id, IH. unfold zrange. now rewrite flat_map_map'. Qed.
Lemma Kn_valence k v : (v < S (S k))%nat -> valg (Kn k) v = Z.of_nat (S k).
Proof. intros Hv. unfold valg, Defs.val. rewrite (zsum_ext _ (fun w => 1 - (if Nat.eqb w v then 1 else 0))).
  - rewrite zsum_sub, zsum_const, zsum_indicator by (auto using Vg_nodup; apply in_VKn; auto). unfold Vg. rewrite seq_length, Kn_nv. lia.
  - intros w Hw. apply in_VKn in Hw. rewrite Kn_mult by auto. rewrite (Nat.eqb_sym w v). destruct (Nat.eqb v w); lia. Qed.
Lemma filter_all {A} (p : A -> bool) l : (forall x, In x l -> p x = true) -> filter p l = l.
Proof. induction l as [|a l IH]; intros H; [reflexivity|]. cbn [filter]. rewrite (H a) by now left. f_equal. apply IH. intros; apply H; now right. Qed.
Theorem Kn_superstable_count k : count_superstables (Kn k) 0%nat = Z.of_nat (S (S k)) ^ Z.of_nat k.
Proof. unfold count_superstables. set (n := S k).
  assert (Evt : vtilde (Kn k) 0%nat = seq 1 n).
  { unfold vtilde, Vg. rewrite Kn_nv. change (seq 0 (S (S k))) with (0%nat :: seq 1 n). cbn [filter Nat.eqb negb]. apply filter_all. intros x Hx. apply in_seq in Hx. destruct x; [lia|reflexivity]. }
  rewrite Evt.
  assert (Eb : map (valg (Kn k)) (seq 1 n) = repeat (Z.of_nat n) n).
  { transitivity (map (fun _ : nat => Z.of_nat n) (seq 1 n)).
    - apply map_ext_in. intros v Hv. apply in_seq in Hv. apply Kn_valence. unfold n in *. lia.
    - generalize 1%nat. induction n as [|m IH] in |- * at 2 4; intros a; [reflexivity|]. cbn [seq map repeat]. f_equal. apply IH. }
  rewrite Eb, boxes_const. rewrite filter_length_ind.
  rewrite (zsum_ext _ (fun c => ind (pf0 n c))).
  - rewrite pf0_count_small by (unfold n; lia). f_equal. unfold n. lia.
  - intros c Hc. destruct (in_all_seqs_zrange n n c Hc) as [A B]. f_equal. unfold insert_at. cbn [firstn skipn app].
    rewrite (Kn_superstables_are_parking k c A). rewrite <- (pf0_parking n c) by (auto; unfold n; lia). unfold is_parking. now rewrite map_length, A. Qed.
