(* Upper bounds on the gonality of connected simple graphs (n - 1, n - independence number), the gonality of complete graphs for all n,
   and the meaning of the independence number. *)
From Coq Require Import ZArith List Lia Bool Arith.
Import ListNotations.
From CF Require Import ZSum ListAux Defs LinEquiv Reduced Core Machines Config GraphLink MachinesLink ConfigLink GonLink.
Open Scope Z_scope.

Section WF.
Variable g : graph.
Hypothesis Hwf : wfb g = true.
Local Notation V := (Vg g).
Local Notation m := (mult g).
Local Notation n := (nv g).

Definition simple : Prop := forall v w, In v V -> In w V -> m v w <= 1.
Definition no_isolated : Prop := forall v, In v V -> 1 <= valg g v.
Definition independent (I : nat -> bool) : Prop := forall v w, In v V -> In w V -> I v = true -> I w = true -> m v w = 0.

(* chips on the complement of an independent set: a divisor of rank >= 1 *)
Theorem independent_complement_rank1 (I : nat -> bool) : simple -> no_isolated -> independent I ->
  let D := fun v => if I v then 0 else 1 in
  effective V D /\ rank_ge V m D 1.
Proof. intros Hs Hiso HI D. split; [intros v _; unfold D; destruct (I v); lia|].
  intros E Heff Hd.
  (* E is a unit vector on V *)
  assert (Hex : exists v, In v V /\ 0 < E v) by (apply zsum_pos_exists; auto; unfold deg in Hd; lia).
  destruct Hex as [v [Hv Hpos]].
  assert (HE : forall w, In w V -> E w = if Nat.eqb w v then 1 else 0).
  { assert (H0 : forall w, In w V -> E w - (if Nat.eqb w v then 1 else 0) = 0).
    { apply zsum_nonneg_zero. intros w Hw. specialize (Heff w Hw). destruct (Nat.eqb_spec w v); subst; lia.
      rewrite zsum_sub, zsum_indicator; auto using Vg_nodup. unfold deg in Hd. lia. }
    intros w Hw. specialize (H0 w Hw). lia. }
  destruct (I v) eqn:Iv.
  - (* v in I: fire everything except v *)
    set (U := fun w => negb (Nat.eqb w v)).
    exists (fire V m U (fun w => D w - E w)). split; [apply fire_lequiv|].
    intros w Hw. unfold fire, U. destruct (Nat.eqb_spec w v) as [->|Hne]; cbn [negb].
    + rewrite HE, Nat.eqb_refl by auto. unfold D. rewrite Iv.
      assert (zsum (fun u => if negb (Nat.eqb u v) then m v u else 0) V = valg g v); [|specialize (Hiso v Hv); lia].
      unfold valg, val. apply zsum_ext. intros u _. destruct (Nat.eqb_spec u v) as [->|]; cbn [negb]; auto. now rewrite (mult_diag g Hwf).
    + rewrite HE by auto. apply Nat.eqb_neq in Hne. rewrite Hne.
      assert (Hout : zsum (fun x => if negb (Nat.eqb x v) then 0 else m w x) V = m w v).
      { rewrite (zsum_ext _ (fun x => if Nat.eqb x v then m w v else 0)); [apply zsum_indicator; auto using Vg_nodup|].
        intros x _. destruct (Nat.eqb_spec x v) as [->|]; cbn [negb]; auto. }
      rewrite Hout. unfold D. destruct (I w) eqn:Iw.
      * rewrite (HI w v Hw Hv Iw Iv). lia.
      * specialize (Hs w v Hw Hv). lia.
  - (* v outside I: already effective *)
    apply effective_winnable. intros w Hw. rewrite HE by auto. unfold D. destruct (Nat.eqb_spec w v) as [->|]; [rewrite Iv; lia|destruct (I w); lia]. Qed.
Lemma deg_indicator_complement (I : nat -> bool) : deg V (fun v => if I v then 0 else 1) = Z.of_nat (nv g) - Z.of_nat (length (filter I V)).
Proof. unfold deg. assert (H : forall l, zsum (fun v => if I v then 0 else 1) l = Z.of_nat (length l) - Z.of_nat (length (filter I l))).
  { induction l as [|a l IH]; [reflexivity|]. cbn [zsum filter length]. destruct (I a); cbn [length]; lia. }
  rewrite H. unfold Vg at 1. now rewrite seq_length. Qed.
(* hence: an effective divisor of degree n - |I| and rank >= 1 exists for every independent set I (gonality <= n - alpha), in particular n - 1 *)
Corollary gonality_le_n_minus_independent (I : nat -> bool) : simple -> no_isolated -> independent I ->
  exists D, effective V D /\ deg V D = Z.of_nat (nv g) - Z.of_nat (length (filter I V)) /\ rank_ge V m D 1.
Proof. intros Hs Hi HI. destruct (independent_complement_rank1 I Hs Hi HI) as [A B]. eexists. split; [exact A|]. split; [apply deg_indicator_complement|exact B]. Qed.
Corollary gonality_le_n_minus_1 : simple -> no_isolated -> (0 < nv g)%nat -> exists D, effective V D /\ deg V D = Z.of_nat (nv g) - 1 /\ rank_ge V m D 1.
Proof. intros Hs Hi Hn. destruct (gonality_le_n_minus_independent (fun v => Nat.eqb v 0) Hs Hi) as [D [A [B C]]].
  - intros v w Hv Hw Ev Ew. apply Nat.eqb_eq in Ev. apply Nat.eqb_eq in Ew. subst. apply (mult_diag g Hwf).
  - exists D. split; auto. split; auto. rewrite B. f_equal.
    assert (Hf : forall len s, (1 <= s)%nat -> filter (fun v => Nat.eqb v 0) (seq s len) = []).
    { induction len as [|len IH]; intros s Hs1; [reflexivity|]. cbn [seq filter]. destruct s; [lia|]. cbn [Nat.eqb]. apply IH. lia. }
    assert (length (filter (fun v => Nat.eqb v 0) V) = 1%nat); [|lia]. unfold Vg. destruct (nv g) as [|k]; [lia|]. cbn [seq filter Nat.eqb length]. now rewrite Hf. Qed.

(* the independence number of the model is the size of a largest independent set *)
Lemma is_independent_spec S : is_independent g S = true <-> forall v w, In v S -> In w S -> m v w = 0.
Proof. unfold is_independent. rewrite forallb_forall. split.
  - intros H v w Hv Hw. specialize (H v Hv). rewrite forallb_forall in H. apply Z.eqb_eq. now apply H.
  - intros H v Hv. apply forallb_forall. intros w Hw. apply Z.eqb_eq. now apply H. Qed.
Lemma fold_max_ge l x : In x l -> (x <= fold_right Nat.max 0 l)%nat.
Proof. induction l as [|a l IH]; intros H; [destruct H|]. cbn. destruct H as [->|H]; [lia|specialize (IH H); lia]. Qed.
Lemma fold_max_in l : l <> [] -> In (fold_right Nat.max 0%nat l) l.
Proof. induction l as [|a l IH]; [congruence|]. intros _. cbn [fold_right]. destruct l as [|b l']; [left; cbn; lia|].
  destruct (Nat.max_spec a (fold_right Nat.max 0%nat (b :: l'))) as [[_ E]|[_ E]]; rewrite E; [right; apply IH; discriminate|now left]. Qed.
Theorem indep_number_spec :
  (exists S, In S (sublists V) /\ is_independent g S = true /\ length S = indep_number g) /\
  (forall S, In S (sublists V) -> is_independent g S = true -> (length S <= indep_number g)%nat).
Proof. unfold indep_number. split.
  - assert (Hne : map (@length nat) (filter (is_independent g) (sublists V)) <> []).
    { assert (Hin : In [] (filter (is_independent g) (sublists V))). { apply filter_In. split; [|reflexivity]. clear. induction V as [|a l IH]; cbn [sublists]; [now left|]. apply in_or_app. now right. }
      intro E. apply (in_map (@length nat)) in Hin. rewrite E in Hin. destruct Hin. }
    apply fold_max_in in Hne. apply in_map_iff in Hne. destruct Hne as [S [HL HS]]. apply filter_In in HS. destruct HS. exists S. auto.
  - intros S HS HI. apply fold_max_ge. apply in_map. apply filter_In. auto. Qed.
End WF.

(* ---- complete graphs: gonality n - 1 for every n >= 2 ---- *)
Section Kn.
Variable k : nat.        (* n = S (S k) >= 2 *)
Let nn := S (S k).
Definition Kn : graph := tab nn (fun v => tab nn (fun w => if Nat.eqb v w then 0 else 1)).
Lemma Kn_nv : nv Kn = nn. Proof. apply tab_length. Qed.
Lemma Kn_mult v w : (v < nn)%nat -> (w < nn)%nat -> mult Kn v w = if Nat.eqb v w then 0 else 1.
Proof. intros Hv Hw. unfold mult, Kn. rewrite (nth_tab nn (fun v => tab nn (fun w => if Nat.eqb v w then 0 else 1))) by auto.
  now rewrite (nthZ_tab nn (fun w => if Nat.eqb v w then 0 else 1)) by auto. Qed.
Lemma Kn_wf : wfb Kn = true.
Proof. apply wfb_intro; rewrite Kn_nv.
  - intros v Hv. unfold Kn. rewrite (nth_tab nn (fun v => tab nn (fun w => if Nat.eqb v w then 0 else 1))) by auto. apply tab_length.
  - intros v w Hv Hw. rewrite !Kn_mult by auto. rewrite (Nat.eqb_sym w v). destruct (Nat.eqb v w); split; lia.
  - intros v Hv. rewrite Kn_mult by auto. now rewrite Nat.eqb_refl. Qed.
Local Notation V := (Vg Kn).
Local Notation m := (mult Kn).
Lemma in_VKn v : In v V <-> (v < nn)%nat. Proof. rewrite in_Vg, Kn_nv. tauto. Qed.

Lemma count_split (S : nat -> bool) (l : list nat) : Z.of_nat (length l) = zsum (fun w => if S w then 1 else 0) l + zsum (fun w => if S w then 0 else 1) l.
Proof. induction l as [|a l IH]; [reflexivity|]. cbn [length zsum]. destruct (S a); lia. Qed.
(* no effective divisor of degree <= n - 2 has rank >= 1 *)
Theorem Kn_lower D : effective V D -> deg V D <= Z.of_nat nn - 2 -> ~ rank_ge V m D 1.
Proof. intros Heff Hd Hr.
  (* some vertex q has no chips *)
  assert (Hq : exists q, In q V /\ D q = 0).
  { destruct (existsb (fun v => D v =? 0) V) eqn:E.
    - apply existsb_exists in E. destruct E as [q [Hq Hz]]. apply Z.eqb_eq in Hz. eauto.
    - exfalso. assert (Hall : forall v, In v V -> 1 <= D v).
      { intros v Hv. specialize (Heff v Hv). destruct (Z.eq_dec (D v) 0); [|lia]. assert (existsb (fun v => D v =? 0) V = true); [|congruence]. apply existsb_exists. exists v. split; auto. now apply Z.eqb_eq. }
      assert (Z.of_nat nn <= deg V D). { unfold deg. rewrite <- (zsum_const V 1) at 1 || idtac. pose proof (zsum_le (fun _ => 1) D V Hall). rewrite zsum_const in H. unfold Vg in H at 1. rewrite seq_length, Kn_nv in H. lia. }
      lia. }
  destruct Hq as [q [Hq Dq]].
  specialize (Hr (fun w => if Nat.eqb w q then 1 else 0)).
  assert (Hw : winnable V m (fun v => D v - (if Nat.eqb v q then 1 else 0))).
  { apply Hr. intros w _; destruct (Nat.eqb w q); lia. unfold deg. rewrite zsum_indicator; auto using Vg_nodup. }
  revert Hw. apply (reduced_unwinnable V m (mult_nonneg Kn Kn_wf) q); auto; [|rewrite Nat.eqb_refl; lia].
  split. { intros v Hv Hne. apply Nat.eqb_neq in Hne. rewrite Hne. specialize (Heff v Hv). lia. }
  intros S Sq [v0 [Hv0 HS0]] HL.
  (* the members of S hold at least |S| * (n - |S|) chips *)
  set (cnt := zsum (fun w => if S w then 1 else 0) V).
  assert (Hout : forall v, In v V -> S v = true -> outdeg V m S v = Z.of_nat nn - cnt).
  { intros v Hv HSv. unfold outdeg. rewrite (zsum_ext _ (fun w => if S w then 0 else 1)).
    - pose proof (count_split S V) as C. unfold Vg in C at 1. rewrite seq_length, Kn_nv in C. fold cnt in C. lia.
    - intros w Hw. destruct (S w) eqn:E; auto. rewrite Kn_mult by (apply in_VKn; auto). destruct (Nat.eqb_spec v w); [subst; congruence|reflexivity]. }
  assert (Hsum : cnt * (Z.of_nat nn - cnt) <= zsum (fun v => if S v then D v else 0) V).
  { unfold cnt. rewrite <- zsum_scale || idtac.
    assert (zsum (fun v => if S v then (Z.of_nat nn - cnt) else 0) V <= zsum (fun v => if S v then D v else 0) V).
    { apply zsum_le. intros v Hv. destruct (S v) eqn:E; [|lia]. specialize (HL v Hv E). rewrite (Hout v Hv E) in HL.
      assert (v <> q) by (intro; subst; congruence). apply Nat.eqb_neq in H. rewrite H in HL. lia. }
    rewrite (zsum_ext (fun v => if S v then Z.of_nat nn - cnt else 0) (fun v => (Z.of_nat nn - cnt) * (if S v then 1 else 0))) in H by (intros v _; destruct (S v); lia).
    rewrite zsum_scale in H. fold cnt in H. lia. }
  assert (Hle : zsum (fun v => if S v then D v else 0) V <= deg V D) by (apply zsum_le; intros v Hv; specialize (Heff v Hv); destruct (S v); lia).
  assert (Hc1 : 1 <= cnt).
  { unfold cnt. assert (0 < zsum (fun w => if S w then 1 else 0) V); [|lia].
    pose proof (zsum_lt_one (fun _ => 0) (fun w => if S w then 1 else 0) V v0 Hv0) as H. rewrite zsum_zero in H.
    apply H; [intros y _; destruct (S y); lia|rewrite HS0; lia]. }
  assert (Hc2 : cnt <= Z.of_nat nn - 1).
  { pose proof (count_split S V) as C. unfold Vg in C at 1. rewrite seq_length, Kn_nv in C. fold cnt in C.
    assert (1 <= zsum (fun w => if S w then 0 else 1) V); [|lia].
    pose proof (zsum_lt_one (fun _ => 0) (fun w => if S w then 0 else 1) V q Hq) as H. rewrite zsum_zero in H.
    assert (0 < zsum (fun w => if S w then 0 else 1) V); [|lia]. apply H; [intros y _; destruct (S y); lia|rewrite Sq; lia]. }
  nia. Qed.
(* and n - 1 chips suffice: gonality of K_n is exactly n - 1 *)
Theorem Kn_gonality : is_gonality V m (S k).
Proof. split.
  - destruct (gonality_le_n_minus_1 Kn Kn_wf) as [D [A [B C]]].
    + intros v w Hv Hw. rewrite Kn_mult by (apply in_VKn; auto). destruct (Nat.eqb v w); lia.
    + intros v Hv. unfold valg, val. apply in_VKn in Hv.
      assert (exists w, In w V /\ w <> v) as [w [Hw Hne]]. { destruct v; [exists 1%nat|exists 0%nat]; split; try (apply in_VKn; unfold nn; lia); lia. }
      pose proof (zsum_lt_one (fun _ => 0) (m v) V w Hw) as H. rewrite zsum_zero in H.
      assert (0 < zsum (m v) V); [|lia]. apply H; [intros y _; apply (mult_nonneg Kn Kn_wf)|]. apply in_VKn in Hw. rewrite Kn_mult by auto. destruct (Nat.eqb_spec v w); [congruence|lia].
    + rewrite Kn_nv. unfold nn. lia.
    + exists D. split; auto. split; auto. rewrite B, Kn_nv. unfold nn. lia.
  - intros j D Hj Heff Hd. apply Kn_lower; auto. rewrite Hd. unfold nn. lia. Qed.
End Kn.
