(* Dictionary forms: from_dict (to_dict x) = x for graphs, divisors, firing scripts and orientation states (every size), and from_dict of ANY
   well-typed dictionary is None or a well-formed object. *)
From Coq Require Import ZArith NArith List Lia Bool Arith.
Import ListNotations.
From CF Require Import ZSum ListAux Core GraphLink Machines MachinesLink OrientLink OrientRound Txt TxtLink TxtLines TxtRound DictForm.
Open Scope Z_scope.

Theorem graph_from_dict_total d : graph_from_dict d = None \/ exists names gs, graph_from_dict d = Some (names, gs) /\ ginv gs /\ gn gs = length names.
Proof. unfold graph_from_dict. destruct (build_graph _) as [[names gs]|] eqn:E; [right|now left]. exists names, gs. split; [reflexivity|]. exact (build_graph_wf _ names gs E). Qed.
Theorem graph_dict_roundtrip names g : wfb g = true -> length names = nv g -> sort_names names = names ->
  exists s, graph_from_dict (graph_to_dict names g) = Some (names, s) /\ ginv s /\ adj s = g.
Proof. intros Hwf Hlen Hsort. unfold graph_from_dict, graph_to_dict. cbn [d_vertices d_edges].
  apply (build_graph_rebuild names g _ false [] Hwf Hlen Hsort). reflexivity. Qed.

Lemma zdiv_fold names D : NoDup names -> forall l D0 seen0, NoDup l -> (forall v, In v l -> (v < length names)%nat /\ ~ In v seen0) -> length D0 = length names ->
  exists D' seen', fold_left (zdiv_step names) (map (fun v => (nth v names [], nthZ D v)) l) (Some (D0, seen0)) = Some (D', seen') /\
    length D' = length D0 /\ forall v, nthZ D' v = if mem v l then nthZ D v else nthZ D0 v.
Proof. intros Hnd. induction l as [|x l IH]; intros D0 seen0 Hl Hin HL.
  - exists D0, seen0. cbn. auto.
  - inversion Hl as [|? ? Hx Hl']; subst. destruct (Hin x (or_introl eq_refl)) as [Hxn Hxs]. cbn [map fold_left]. unfold zdiv_step at 2. cbn [fst snd].
    rewrite index_name_nth by auto. cbn [Nat.add]. apply mem_false in Hxs. rewrite Hxs.
    destruct (IH (upd D0 x (nthZ D x)) (x :: seen0) Hl') as [D' [seen' [Hf [HL' Hv]]]].
    + intros v Hv. destruct (Hin v (or_intror Hv)) as [A B]. split; auto. intros [->|C]; auto.
    + now rewrite upd_length.
    + exists D', seen'. split; [exact Hf|]. split; [now rewrite HL', upd_length|]. intros v. rewrite Hv. cbn [mem existsb]. fold (mem v l). rewrite nthZ_upd.
      destruct (mem v l) eqn:Em; [now rewrite orb_true_r|]. rewrite orb_false_r. destruct (Nat.eqb_spec v x) as [->|]; cbn [andb]; auto.
      assert (E : Nat.ltb x (length D0) = true) by (apply Nat.ltb_lt; lia). now rewrite E. Qed.
Theorem divisor_dict_roundtrip names g D : wfb g = true -> length names = nv g -> sort_names names = names -> length D = nv g ->
  exists s, divisor_from_dict (divisor_to_dict names g D) = Some (names, s, D) /\ ginv s /\ adj s = g.
Proof. intros Hwf Hlen Hsort HD. unfold divisor_from_dict, divisor_to_dict. cbn [fst snd].
  destruct (graph_dict_roundtrip names g Hwf Hlen Hsort) as [s [Hg [Hi Ha]]]. rewrite Hg.
  destruct (zdiv_fold names D (sorted_names_nodup names Hsort) (Vg g) (tab (length names) (fun _ => 0)) []) as [D' [seen' [Hf [HL Hv]]]].
  - apply Vg_nodup.
  - intros v Hv. apply in_Vg in Hv. split; [lia|intros []].
  - apply tab_length.
  - rewrite Hf. exists s. split; [|auto]. do 2 f_equal. rewrite tab_length in HL. apply list_eq_nthZ; [lia|]. intros v Hlt. rewrite Hv.
    assert (Em : mem v (Vg g) = true) by (apply mem_In, in_Vg; lia). now rewrite Em. Qed.

Lemma zscript_fold names D : NoDup names -> forall l D0, (forall v, In v l -> (v < length names)%nat) -> length D0 = length names ->
  exists D', fold_left (zscript_step names) (map (fun v => (nth v names [], nthZ D v)) l) (Some D0) = Some D' /\
    length D' = length D0 /\ forall v, nthZ D' v = if mem v l then nthZ D v else nthZ D0 v.
Proof. intros Hnd. induction l as [|x l IH]; intros D0 Hin HL.
  - exists D0. cbn. auto.
  - pose proof (Hin x (or_introl eq_refl)) as Hxn. cbn [map fold_left]. unfold zscript_step at 2. cbn [fst snd]. rewrite index_name_nth by auto. cbn [Nat.add].
    destruct (IH (upd D0 x (nthZ D x))) as [D' [Hf [HL' Hv]]].
    + intros v Hv. apply Hin. now right.
    + now rewrite upd_length.
    + exists D'. split; [exact Hf|]. split; [now rewrite HL', upd_length|]. intros v. rewrite Hv. cbn [mem existsb]. fold (mem v l). rewrite nthZ_upd.
      destruct (mem v l) eqn:Em; [now rewrite orb_true_r|]. rewrite orb_false_r. destruct (Nat.eqb_spec v x) as [->|]; cbn [andb]; auto.
      assert (E : Nat.ltb x (length D0) = true) by (apply Nat.ltb_lt; lia). now rewrite E. Qed.
Theorem script_dict_roundtrip names g sc : wfb g = true -> length names = nv g -> sort_names names = names -> length sc = nv g ->
  exists s, script_from_dict (script_to_dict names g sc) = Some (names, s, sc) /\ ginv s /\ adj s = g.
Proof. intros Hwf Hlen Hsort HD. unfold script_from_dict, script_to_dict. cbn [fst snd].
  destruct (graph_dict_roundtrip names g Hwf Hlen Hsort) as [s [Hg [Hi Ha]]]. rewrite Hg.
  assert (Hfil : forall v, In v (filter (fun v => negb (nthZ sc v =? 0)) (Vg g)) -> (v < length names)%nat).
  { intros v Hv. apply filter_In in Hv. destruct Hv as [Hv _]. apply in_Vg in Hv. lia. }
  destruct (zscript_fold names sc (sorted_names_nodup names Hsort) _ (tab (length names) (fun _ => 0)) Hfil (tab_length _ _)) as [D' [Hf [HL Hv]]].
  rewrite Hf. exists s. split; [|auto]. do 2 f_equal. rewrite tab_length in HL. apply list_eq_nthZ; [lia|]. intros v Hlt. rewrite Hv.
  destruct (mem v (filter (fun v0 => negb (nthZ sc v0 =? 0)) (Vg g))) eqn:Em; [reflexivity|].
  rewrite (nthZ_tab (length names) (fun _ => 0)) by lia. apply mem_false in Em. destruct (Z.eqb_spec (nthZ sc v) 0) as [E|E]; [now rewrite E|].
  exfalso. apply Em. apply filter_In. split; [apply in_Vg; lia|]. apply negb_true_iff. now apply Z.eqb_neq. Qed.

(* ---- orientation dictionaries ---- *)
Lemma nodup_flat_map {A B} (f : A -> list B) l : NoDup l -> (forall x, In x l -> NoDup (f x)) ->
  (forall x y z, In x l -> In y l -> x <> y -> In z (f x) -> ~ In z (f y)) -> NoDup (flat_map f l).
Proof. induction 1 as [|a l Ha Hd IH]; intros Hf Hdis; [constructor|]. cbn [flat_map]. apply nodup_app; [apply Hf; now left|apply IH|].
  - intros x Hx. apply Hf. now right.
  - intros x y z Hx Hy. apply Hdis; now right.
  - intros z Hz Hin. apply in_flat_map in Hin. destruct Hin as [y [Hy Hzy]]. apply (Hdis a y z); auto; [now left|now right|]. intro; subst; contradiction. Qed.
Section OD.
Variable g : graph.
Hypothesis Hwf : wfb g = true.
Variable o : ostate.
Hypothesis Ho : oinv g o.
Hypothesis He : oedges g o.
Local Notation n := (nv g).
Local Notation m := (mult g).
Definition ocell (a b : nat) : list (nat * nat) :=
  if Nat.ltb a b && (0 <? m a b) then (if dir_at o a b =? 1 then [(a, b)] else if dir_at o a b =? 2 then [(b, a)] else []) else [].
Lemma in_ocell a b z : In z (ocell a b) -> (a < b)%nat /\ 0 < m a b /\ ((dir_at o a b = 1 /\ z = (a, b)) \/ (dir_at o a b = 2 /\ z = (b, a))).
Proof. unfold ocell. destruct (Nat.ltb_spec a b) as [L|L]; [|intros []]. destruct (Z.ltb_spec 0 (m a b)) as [K|K]; [|intros []]. cbn [andb].
  destruct (Z.eqb_spec (dir_at o a b) 1) as [E|E]; [intros [<-|[]]; auto|]. destruct (Z.eqb_spec (dir_at o a b) 2) as [E2|E2]; [intros [<-|[]]; auto|intros []]. Qed.
Lemma ocell_nodup a b : NoDup (ocell a b).
Proof. unfold ocell. destruct (Nat.ltb a b && (0 <? m a b)); [|constructor]. destruct (dir_at o a b =? 1); [repeat constructor; intros []|].
  destruct (dir_at o a b =? 2); [repeat constructor; intros []|constructor]. Qed.
Lemma odict_pairs_eq : odict_pairs g o = flat_map (fun a => flat_map (fun b => ocell a b) (Vg g)) (Vg g).
Proof. reflexivity. Qed.
Lemma odict_nodup : NoDup (odict_pairs g o).
Proof. rewrite odict_pairs_eq. apply nodup_flat_map; [apply Vg_nodup| |].
  - intros a _. apply nodup_flat_map; [apply Vg_nodup|intros; apply ocell_nodup|]. intros b b' z _ _ Hne Hz Hz'.
    apply in_ocell in Hz, Hz'. destruct Hz as [L [_ [[_ ->]|[_ ->]]]]; destruct Hz' as [L' [_ [[_ E]|[_ E]]]]; inversion E; subst; lia.
  - intros a a' z _ _ Hne Hz Hz'. apply in_flat_map in Hz, Hz'. destruct Hz as [b [_ Hz]]. destruct Hz' as [b' [_ Hz']].
    apply in_ocell in Hz, Hz'. destruct Hz as [L [_ [[_ ->]|[_ ->]]]]; destruct Hz' as [L' [_ [[_ E]|[_ E]]]]; inversion E; subst; lia. Qed.
Lemma odict_in x y : In (x, y) (odict_pairs g o) <-> (x < n)%nat /\ (y < n)%nat /\ 0 < m x y /\ dir_at o x y = 1.
Proof. destruct Ho as [_ [_ [_ [_ [Hmir _]]]]]. rewrite odict_pairs_eq. split.
  - intros H. apply in_flat_map in H. destruct H as [a [Ha H]]. apply in_flat_map in H. destruct H as [b [Hb H]]. apply in_Vg in Ha, Hb.
    apply in_ocell in H. destruct H as [L [K [[E Ez]|[E Ez]]]]; inversion Ez; subst; [auto|].
    destruct (wfb_in g Hwf a b Ha Hb) as [_ [Hs _]]. repeat split; auto; [lia|]. rewrite (Hmir a b Ha Hb), E. reflexivity.
  - intros [Hx [Hy [K E]]]. destruct (wfb_in g Hwf x y Hx Hy) as [_ [Hs D]]. assert (x <> y) by (intro; subst; lia).
    destruct (Nat.lt_ge_cases x y) as [L|L].
    + apply in_flat_map. exists x. split; [now apply in_Vg|]. apply in_flat_map. exists y. split; [now apply in_Vg|]. unfold ocell.
      assert (E1 : Nat.ltb x y = true) by now apply Nat.ltb_lt. assert (E2 : (0 <? m x y) = true) by now apply Z.ltb_lt. rewrite E1, E2, E. now left.
    + apply in_flat_map. exists y. split; [now apply in_Vg|]. apply in_flat_map. exists x. split; [now apply in_Vg|]. unfold ocell.
      assert (E1 : Nat.ltb y x = true) by (apply Nat.ltb_lt; lia). assert (E2 : (0 <? m y x) = true) by (apply Z.ltb_lt; lia).
      rewrite E1, E2. rewrite (Hmir x y Hx Hy), E. cbn. now left. Qed.
Lemma odict_arcs_ok : arcs_ok g (odict_pairs g o).
Proof. apply arcs_ok_intro; [apply odict_nodup|]. intros a b H. apply odict_in in H. destruct H as [Ha [Hb [K E]]]. repeat split; auto.
  intros H'. apply odict_in in H'. destruct H' as [_ [_ [_ E']]]. destruct Ho as [_ [_ [_ [_ [Hmir _]]]]]. rewrite (Hmir a b Ha Hb), E in E'. discriminate. Qed.
Lemma odict_reconstruct : exists o', oconstruct g (odict_pairs g o) = Ok o' /\ oinv g o' /\ dir o' = dir o /\ inc o' = inc o /\ outc o' = outc o.
Proof. destruct (construct_spec g Hwf _ odict_arcs_ok) as [o' [H1 [H2 [_ H4]]]]. exists o'. split; [exact H1|]. split; [exact H2|].
  apply (same_dirs g o o' Ho H2). intros x y Hx Hy. rewrite H4.
  assert (Hmir : dir_at o y x = mirror (dir_at o x y)) by (destruct Ho as [_ [_ [_ [_ [H _]]]]]; auto).
  assert (Hval : dir_at o x y = 0 \/ dir_at o x y = 1 \/ dir_at o x y = 2) by (destruct Ho as [_ [_ [_ [_ [_ [_ [_ H]]]]]]]; auto).
  destruct (wfb_in g Hwf x y Hx Hy) as [_ [Hs _]].
  destruct (has (odict_pairs g o) x y) eqn:E1.
  - apply has_In, odict_in in E1. symmetry. tauto.
  - apply has_false in E1. destruct (has (odict_pairs g o) y x) eqn:E2.
    + apply has_In, odict_in in E2. destruct E2 as [_ [_ [_ E2]]]. rewrite Hmir in E2. destruct Hval as [V|[V|V]]; rewrite V in *; cbn in E2; try discriminate. reflexivity.
    + apply has_false in E2. destruct (Z_le_gt_dec (m x y) 0) as [K|K]; [symmetry; now apply He|].
      destruct Hval as [V|[V|V]]; [now rewrite V| |].
      * exfalso. apply E1. apply odict_in. repeat split; auto; lia.
      * exfalso. apply E2. apply odict_in. repeat split; auto; [lia|]. rewrite Hmir, V. reflexivity. Qed.
End OD.
Theorem orientation_dict_roundtrip names g o : wfb g = true -> length names = nv g -> sort_names names = names -> oinv g o -> oedges g o ->
  exists s o', orientation_from_dict (orientation_to_dict names g o) = Some (names, s, o') /\ ginv s /\ adj s = g /\
    oinv g o' /\ dir o' = dir o /\ inc o' = inc o /\ outc o' = outc o.
Proof. intros Hwf Hlen Hsort Ho He. unfold orientation_from_dict, orientation_to_dict. cbn [fst snd].
  destruct (graph_dict_roundtrip names g Hwf Hlen Hsort) as [s [Hg [Hi Ha]]]. rewrite Hg.
  assert (Harcs : Forall (fun p => (fst p < length names)%nat /\ (snd p < length names)%nat) (odict_pairs g o)).
  { apply Forall_forall. intros [a b] Hin. apply (odict_in g Hwf o Ho) in Hin. cbn [fst snd]. lia. }
  pose proof (orient_pairs_named names (odict_pairs g o) (sorted_names_nodup names Hsort) Harcs) as Hop. unfold arc_pairs in Hop. rewrite Hop, Ha.
  destruct (odict_reconstruct g Hwf o Ho He) as [o' [H1 [H2 H3]]]. rewrite H1. exists s, o'. split; [reflexivity|]. split; [exact Hi|]. split; [exact Ha|]. split; [exact H2|exact H3]. Qed.
