(* The comparisons of configurations translated from /repo's current source (TranslatedImpCFConfigMoves.v): _is_comparable_to answers True exactly for the same
   sink on equal multigraphs; ==, >=, <= are then the model's cfg_eq / cfg_le on V - {q} (Model/Config.v, C10_order), == answers False and >=, <= raise for
   incomparable configurations - in whatever order the sets are iterated. *)
From Coq Require Import ZArith List Lia Bool Arith Permutation.
Import ListNotations.
From CF Require Import ZSum ListAux Defs Core Config Machines GraphLink PyDict ImpRep TranslatedImpCFDivisor ImpLinkEq TranslatedImpCFConfigMoves ImpLinkConfigMoves.
Open Scope Z_scope.

Lemma dict_eqb_iff a b : NoDup (d_keys a) -> (dict_eqb a b = true <-> forall w, d_find w a = d_find w b).
Proof. intros Na. unfold dict_eqb. rewrite andb_true_iff, set_eqb_iff, forallb_forall. split.
  - intros [Hk Hv] w. destruct (d_find w a) as [x|] eqn:Ea.
    + specialize (Hv (w, x) (d_find_some_in w x a Ea)). cbn [fst snd] in Hv. destruct (d_find w b) as [y|]; [|discriminate]. apply Z.eqb_eq in Hv. congruence.
    + specialize (Hk w). assert (s_mem w (d_keys a) = false).
      { destruct (s_mem w (d_keys a)) eqn:E; [|reflexivity]. apply s_mem_In, d_find_in_keys in E. unfold d_mem in E. rewrite Ea in E. discriminate. }
      rewrite H in Hk. destruct (d_find w b) as [y|] eqn:Eb; [|reflexivity]. exfalso.
      assert (s_mem w (d_keys b) = true) by (apply s_mem_In, d_find_in_keys; unfold d_mem; rewrite Eb; reflexivity). congruence.
  - intros H. split.
    + intros w. apply Bool.eq_true_iff_eq. rewrite !s_mem_In, <- !d_find_in_keys. unfold d_mem. rewrite (H w). reflexivity.
    + intros [k x] Hin. cbn [fst snd]. rewrite <- (H k), (d_in_find k x a Na Hin). apply Z.eqb_refl. Qed.
Lemma graph_eqb_spec g h : graph_eqb g h = true <-> nv g = nv h /\ forall v w, (v < nv g)%nat -> (w < nv g)%nat -> mult g v w = mult h v w.
Proof. unfold graph_eqb. rewrite andb_true_iff, Nat.eqb_eq, forallb_forall. split.
  - intros [Hn H]. split; [exact Hn|]. intros v w Hv Hw. specialize (H v (proj2 (in_Vg g v) Hv)). rewrite forallb_forall in H. apply Z.eqb_eq. apply H. now apply in_Vg.
  - intros [Hn H]. split; [exact Hn|]. intros v Hv. apply forallb_forall. intros w Hw. apply Z.eqb_eq. apply H; now apply in_Vg. Qed.

Lemma forallb_ext {A} (f h : A -> bool) l : (forall x, f x = h x) -> forallb f l = forallb h l.
Proof. intros H. induction l as [|a l IH]; cbn [forallb]; [reflexivity|rewrite H, IH; reflexivity]. Qed.

Section ORD.
Variables g1 g2 : graph.
Hypothesis Hwf1 : wfb g1 = true.
Hypothesis Hwf2 : wfb g2 = true.
Variables gg1 gg2 : dictD.
Hypothesis Hgg1 : rep_graph gg1 g1.
Hypothesis Hgg2 : rep_graph gg2 g2.
Variables vs1 vs2 : list nat.
Hypothesis Hvs1 : rep_vset (nv g1) vs1.
Hypothesis Hvs2 : rep_vset (nv g2) vs2.
Variables (q1 q2 : nat) (vt1 vt2 : list nat).
Hypothesis Hvt1 : rep_vtilde (nv g1) q1 vt1.
Hypothesis Hvt2 : rep_vtilde (nv g2) q2 vt2.
Hypothesis Hnd1 : NoDup vt1.
Variables (dd1 dd2 : dictZ) (D E : list Z).
Hypothesis HD : rep_div (nv g1) dd1 D.
Hypothesis HE : rep_div (nv g2) dd2 E.
Variable so : list nat -> list nat.
Hypothesis Hso : forall l, Permutation (so l) l.

Definition comparable_b : bool := Nat.eqb q1 q2 && graph_eqb g1 g2.

Definition cmp_row_body (v_node : nat) : pyres unit (option bool * unit) :=
  let self_v_neighbors := (d_get v_node [] gg1) in let other_v_neighbors := (d_get v_node [] gg2) in
  if (negb (dict_eqb self_v_neighbors other_v_neighbors)) then PyOk (Some (false), tt) else PyOk (None, tt).
Lemma comparable_unfold : CFConfigMoves__is_comparable_to q1 vs1 gg1 so q2 vs2 gg2 vt2 dd2 =
  if (negb (Nat.eqb q1 q2)) then PyOk false else if (negb (set_eqb vs1 vs2)) then PyOk false else
  match fold_left (retstep cmp_row_body) (so vs1) (PyOk (None, tt)) with PyExn e_ => PyExn e_ | PyOk (Some r_, tt) => PyOk r_ | PyOk (None, tt) => PyOk true end.
Proof. reflexivity. Qed.
Lemma row_eq_spec v : (v < nv g1)%nat -> nv g1 = nv g2 ->
  (cmp_row_body v = PyOk (None, tt) /\ (forall w, (w < nv g1)%nat -> mult g1 v w = mult g2 v w)) \/
  (cmp_row_body v = PyOk (Some false, tt) /\ ~ (forall w, (w < nv g1)%nat -> mult g1 v w = mult g2 v w)).
Proof. intros Hv Hn. unfold cmp_row_body. cbn zeta. assert (Lv : Nat.ltb v (nv g1) = true) by (apply Nat.ltb_lt; exact Hv).
  pose proof (Hgg1 v) as H1. rewrite Lv in H1. destruct H1 as (row1 & E1 & N1 & F1). pose proof (Hgg2 v) as H2. rewrite <- Hn, Lv in H2. destruct H2 as (row2 & E2 & N2 & F2).
  unfold d_get. unfold dictD, dictZ in *. rewrite E1, E2. destruct (dict_eqb row1 row2) eqn:Ek; cbn [negb].
  - left. split; [reflexivity|]. intros w Hw. pose proof (proj1 (dict_eqb_iff row1 row2 N1) Ek w) as Hf. rewrite (F1 w), (F2 w) in Hf.
    pose proof (mult_nonneg g1 Hwf1 v w). pose proof (mult_nonneg g2 Hwf2 v w).
    destruct (Z.ltb_spec 0 (mult g1 v w)), (Z.ltb_spec 0 (mult g2 v w)); try discriminate; [congruence|lia].
  - right. split; [reflexivity|]. intros HP. assert (dict_eqb row1 row2 = true); [|congruence]. apply (dict_eqb_iff row1 row2 N1). intros w. rewrite (F1 w), (F2 w).
    destruct (le_lt_dec (nv g1) w) as [Hw|Hw]; [|rewrite (HP w Hw); reflexivity].
    rewrite (mult_out_r g1 Hwf1 v w Hw), (mult_out_r g2 Hwf2 v w) by (rewrite <- Hn; exact Hw). reflexivity. Qed.
Theorem comparable_refines : CFConfigMoves__is_comparable_to q1 vs1 gg1 so q2 vs2 gg2 vt2 dd2 = PyOk comparable_b.
Proof. rewrite comparable_unfold. unfold comparable_b. destruct (Nat.eqb q1 q2); cbn [negb andb]; [|reflexivity].
  rewrite (set_eqb_ltb _ _ _ _ Hvs1 Hvs2). destruct (Nat.eqb_spec (nv g1) (nv g2)) as [Hn|Hn]; cbn [negb].
  - assert (Hin1 : forall v, In v (so vs1) -> (v < nv g1)%nat).
    { intros v Hv. apply (Permutation_in _ (Hso vs1)) in Hv. apply s_mem_In in Hv. rewrite (Hvs1 v) in Hv. apply Nat.ltb_lt. exact Hv. }
    destruct (retloop cmp_row_body (fun v => forall w, (w < nv g1)%nat -> mult g1 v w = mult g2 v w) (so vs1)) as [[Eg HQ]|[Eg (v & Hv & nQ)]].
    + intros v Hv. apply row_eq_spec; [apply Hin1; exact Hv|exact Hn].
    + rewrite Eg. f_equal. symmetry. apply graph_eqb_spec. split; [exact Hn|]. intros v w Hv Hw. apply HQ; [|exact Hw].
      apply (Permutation_in _ (Permutation_sym (Hso vs1))). apply s_mem_In. rewrite (Hvs1 v). apply Nat.ltb_lt. exact Hv.
    + rewrite Eg. f_equal. symmetry. destruct (graph_eqb g1 g2) eqn:Eq; [|reflexivity]. exfalso. apply graph_eqb_spec in Eq. destruct Eq as [_ HS]. apply nQ. intros w Hw. apply HS; [apply Hin1; exact Hv|exact Hw].
  - f_equal. symmetry. destruct (graph_eqb g1 g2) eqn:Eq; [|reflexivity]. apply graph_eqb_spec in Eq. destruct Eq as [Q _]. contradiction. Qed.

(* the three comparison loops: c says when to answer False *)
Definition cmp_body (c : Z -> Z -> bool) (v_node : nat) : pyres unit (option bool * unit) :=
  match CFConfigMoves_get_degree_at q1 vt1 dd1 v_node with PyExn _ => PyExn tt | PyOk t2_ =>
  match CFConfigMoves_get_degree_at q2 vt2 dd2 v_node with PyExn _ => PyExn tt | PyOk t3_ =>
  if c t2_ t3_ then PyOk (Some (false), tt) else PyOk (None, tt) end end.
Lemma cmp_loop (c : Z -> Z -> bool) : comparable_b = true ->
  match fold_left (retstep (cmp_body c)) (so vt1) (PyOk (None, tt)) with PyExn e_ => PyExn e_ | PyOk (Some r_, tt) => PyOk r_ | PyOk (None, tt) => PyOk true end =
  PyOk (forallb (fun v => negb (c (nthZ D v) (nthZ E v))) (vtilde g1 q1)) :> pyres unit bool.
Proof. intros Hc. unfold comparable_b in Hc. apply andb_true_iff in Hc. destruct Hc as [Hq Hg]. apply Nat.eqb_eq in Hq. apply graph_eqb_spec in Hg. destruct Hg as [Hn _].
  assert (Hin : forall v, In v (so vt1) -> In v (vtilde g1 q1)).
  { intros v Hv. apply (Permutation_in _ (vt_perm g1 q1 vt1 Hvt1 Hnd1)). apply (Permutation_in _ (Hso vt1)). exact Hv. }
  assert (Hbody : forall v, In v (vtilde g1 q1) -> cmp_body c v = if c (nthZ D v) (nthZ E v) then PyOk (Some false, tt) else PyOk (None, tt)).
  { intros v Hv. unfold vtilde in Hv. apply filter_In in Hv. destruct Hv as [Hv Hne]. apply in_Vg in Hv. unfold cmp_body.
    rewrite (config_get_degree_at_refines g1 q1 vt1 Hvt1 dd1 D v HD), (config_get_degree_at_refines g2 q2 vt2 Hvt2 dd2 E v HE). unfold inb. rewrite <- Hn, <- Hq.
    apply Nat.ltb_lt in Hv. rewrite Hv, Hne. reflexivity. }
  destruct (retloop (cmp_body c) (fun v => c (nthZ D v) (nthZ E v) = false) (so vt1)) as [[Eg HQ]|[Eg (v & Hv & nQ)]].
  - intros v Hv. rewrite (Hbody v (Hin v Hv)). destruct (c (nthZ D v) (nthZ E v)); [right|left]; split; auto. discriminate.
  - rewrite Eg. f_equal. symmetry. apply forallb_forall. intros v Hv. rewrite HQ; [reflexivity|].
    apply (Permutation_in _ (Permutation_sym (Hso vt1))). apply (Permutation_in _ (Permutation_sym (vt_perm g1 q1 vt1 Hvt1 Hnd1))). exact Hv.
  - rewrite Eg. f_equal. symmetry. destruct (forallb (fun v => negb (c (nthZ D v) (nthZ E v))) (vtilde g1 q1)) eqn:Ef; [|reflexivity]. exfalso.
    rewrite forallb_forall in Ef. specialize (Ef v (Hin v Hv)). apply negb_true_iff in Ef. contradiction. Qed.

Theorem config_eq_refines : CFConfigMoves___eq__ q1 vs1 gg1 vt1 dd1 so q2 vs2 gg2 vt2 dd2 = PyOk (comparable_b && cfg_eq g1 q1 D E).
Proof. unfold CFConfigMoves___eq__. rewrite comparable_refines. destruct comparable_b eqn:Ec; cbn [negb andb]; [|reflexivity].
  change (fold_left _ (so vt1) (PyOk (None, tt))) with (fold_left (retstep (cmp_body (fun a b => negb (a =? b)))) (so vt1) (PyOk (None, tt))).
  rewrite (cmp_loop (fun a b => negb (a =? b)) Ec). f_equal. unfold cfg_eq. apply forallb_ext. intros v. apply negb_involutive. Qed.
Theorem config_ge_refines : CFConfigMoves___ge__ q1 vs1 gg1 vt1 dd1 so q2 vs2 gg2 vt2 dd2 = if comparable_b then PyOk (cfg_le g1 q1 E D) else PyExn tt.
Proof. unfold CFConfigMoves___ge__. rewrite comparable_refines. destruct comparable_b eqn:Ec; cbn [negb]; [|reflexivity].
  change (fold_left _ (so vt1) (PyOk (None, tt))) with (fold_left (retstep (cmp_body Z.ltb)) (so vt1) (PyOk (None, tt))).
  rewrite (cmp_loop Z.ltb Ec). f_equal. unfold cfg_le. apply forallb_ext. intros v. symmetry. apply Z.leb_antisym. Qed.
Theorem config_le_refines : CFConfigMoves___le__ q1 vs1 gg1 vt1 dd1 so q2 vs2 gg2 vt2 dd2 = if comparable_b then PyOk (cfg_le g1 q1 D E) else PyExn tt.
Proof. unfold CFConfigMoves___le__. rewrite comparable_refines. destruct comparable_b eqn:Ec; cbn [negb]; [|reflexivity].
  change (fold_left _ (so vt1) (PyOk (None, tt))) with (fold_left (retstep (cmp_body Z.gtb)) (so vt1) (PyOk (None, tt))).
  rewrite (cmp_loop Z.gtb Ec). f_equal. unfold cfg_le. apply forallb_ext. intros v. rewrite Z.gtb_ltb. symmetry. apply Z.leb_antisym. Qed.
(* < and >: `self <= other and (not self == other)` - the second comparison is made only when the first answered True *)
Theorem config_lt_refines : CFConfigMoves___lt__ q1 vs1 gg1 vt1 dd1 so q2 vs2 gg2 vt2 dd2 = if comparable_b then PyOk (cfg_lt g1 q1 D E) else PyExn tt.
Proof. unfold CFConfigMoves___lt__. rewrite config_le_refines. destruct comparable_b eqn:Ec; [|reflexivity]. unfold cfg_lt.
  destruct (cfg_le g1 q1 D E) eqn:El; [|reflexivity]. rewrite config_eq_refines, Ec. reflexivity. Qed.
Theorem config_gt_refines : CFConfigMoves___gt__ q1 vs1 gg1 vt1 dd1 so q2 vs2 gg2 vt2 dd2 = if comparable_b then PyOk (cfg_lt g1 q1 E D) else PyExn tt.
Proof. unfold CFConfigMoves___gt__. rewrite config_ge_refines. destruct comparable_b eqn:Ec; [|reflexivity]. unfold cfg_lt.
  destruct (cfg_le g1 q1 E D) eqn:El; [|reflexivity]. rewrite config_eq_refines, Ec. cbn [andb]. f_equal. f_equal. unfold cfg_eq. apply forallb_ext. intros v. apply Z.eqb_sym. Qed.
End ORD.
