(* From the concrete matrix representation to the abstract multigraph: wfb g = true gives wf (Vg g) (mult g);
   characterisation of the chip moves as Laplacian actions. *)
From Coq Require Import ZArith List Lia Bool Arith.
Import ListNotations.
From CF Require Import ZSum ListAux Defs LinEquiv Core.
Open Scope Z_scope.

Lemma Vg_nodup g : NoDup (Vg g). Proof. apply seq_NoDup. Qed.
Lemma in_Vg g v : In v (Vg g) <-> (v < nv g)%nat. Proof. apply in_seq0. Qed.

Lemma mult_out_l g v w : (nv g <= v)%nat -> mult g v w = 0.
Proof. intros H. unfold mult. rewrite (nth_overflow g) by exact H. unfold nthZ. now destruct w. Qed.

Section WF.
Variable g : graph.
Hypothesis Hwf : wfb g = true.

Lemma wfb_rows v : (v < nv g)%nat -> length (nth v g []) = nv g.
Proof. intros Hv. unfold wfb in Hwf. apply andb_true_iff in Hwf. destruct Hwf as [H _].
  rewrite forallb_forall in H. apply Nat.eqb_eq. apply H. apply nth_In. exact Hv. Qed.
Lemma mult_out_r v w : (nv g <= w)%nat -> mult g v w = 0.
Proof. intros H. destruct (le_lt_dec (nv g) v) as [Hv|Hv]; [now apply mult_out_l|].
  unfold mult, nthZ. apply nth_overflow. rewrite wfb_rows; auto. Qed.
Lemma wfb_in v w : (v < nv g)%nat -> (w < nv g)%nat -> 0 <= mult g v w /\ mult g v w = mult g w v /\ mult g v v = 0.
Proof. intros Hv Hw. unfold wfb in Hwf. apply andb_true_iff in Hwf. destruct Hwf as [_ H].
  rewrite forallb_forall in H. specialize (H v (proj2 (in_Vg g v) Hv)). apply andb_true_iff in H. destruct H as [H1 H2].
  rewrite forallb_forall in H1. specialize (H1 w (proj2 (in_Vg g w) Hw)). apply andb_true_iff in H1. destruct H1 as [Ha Hb].
  apply Z.leb_le in Ha. apply Z.eqb_eq in Hb. apply Z.eqb_eq in H2. auto. Qed.
Lemma mult_nonneg v w : 0 <= mult g v w.
Proof. destruct (le_lt_dec (nv g) v); [rewrite mult_out_l; auto; lia|]. destruct (le_lt_dec (nv g) w); [rewrite mult_out_r; auto; lia|].
  now apply wfb_in. Qed.
Lemma mult_sym v w : mult g v w = mult g w v.
Proof. destruct (le_lt_dec (nv g) v); [rewrite mult_out_l, mult_out_r; auto|]. destruct (le_lt_dec (nv g) w); [rewrite mult_out_r, mult_out_l; auto|].
  now apply wfb_in. Qed.
Lemma mult_diag v : mult g v v = 0.
Proof. destruct (le_lt_dec (nv g) v); [rewrite mult_out_l; auto|]. now apply (wfb_in v v). Qed.
Lemma wfb_wf : wf (Vg g) (mult g).
Proof. constructor; [apply Vg_nodup|apply mult_nonneg|apply mult_sym|apply mult_diag]. Qed.

(* ---- moves ---- *)
Local Notation V := (Vg g).
Local Notation m := (mult g).
Definition unit_at (v : nat) : script := fun x => if Nat.eqb x v then 1 else 0.

Lemma lap_unit v w : In v V -> lap V m (unit_at v) w = if Nat.eqb w v then valg g v else - m w v.
Proof. intros Hv. unfold lap, unit_at. destruct (Nat.eqb_spec w v) as [->|Hne].
  - unfold valg, val. apply zsum_ext. intros x _. destruct (Nat.eqb_spec x v) as [->|]; [rewrite mult_diag|]; ring.
  - rewrite (zsum_ext _ (fun x => if Nat.eqb x v then - m w v else 0)).
    + apply zsum_indicator; auto. apply Vg_nodup.
    + intros x _. destruct (Nat.eqb_spec x v) as [->|]; ring. Qed.
Lemma nth_lend D v w : In v V -> In w V -> nthZ (lend g D v) w = nthZ D w - lap V m (unit_at v) w.
Proof. intros Hv Hw. unfold lend. rewrite nthZ_tab by now apply in_Vg. rewrite lap_unit by auto.
  destruct (Nat.eqb w v); [lia|]. rewrite (mult_sym w v). lia. Qed.
Lemma nth_borrow D v w : In v V -> In w V -> nthZ (borrow g D v) w = nthZ D w + lap V m (unit_at v) w.
Proof. intros Hv Hw. unfold borrow. rewrite nthZ_tab by now apply in_Vg. rewrite lap_unit by auto.
  destruct (Nat.eqb w v); [lia|]. rewrite (mult_sym w v). lia. Qed.
Lemma nth_fire_set D U w : In w V -> nthZ (fire_set g D U) w = fire V m (fun v => mem v U) (nthZ D) w.
Proof. intros Hw. unfold fire_set. now rewrite nthZ_tab by now apply in_Vg. Qed.
Lemma len_lend D v : length (lend g D v) = nv g. Proof. apply tab_length. Qed.
Lemma len_borrow D v : length (borrow g D v) = nv g. Proof. apply tab_length. Qed.
Lemma len_fire_set D U : length (fire_set g D U) = nv g. Proof. apply tab_length. Qed.
Lemma borrow_lend D v : In v V -> length D = nv g -> borrow g (lend g D v) v = D.
Proof. intros Hv HL. apply list_eq_nthZ; [rewrite len_borrow; auto|]. rewrite len_borrow. intros w Hw.
  apply in_Vg in Hw. rewrite nth_borrow, nth_lend by auto. lia. Qed.
Lemma lend_borrow D v : In v V -> length D = nv g -> lend g (borrow g D v) v = D.
Proof. intros Hv HL. apply list_eq_nthZ; [rewrite len_lend; auto|]. rewrite len_lend. intros w Hw.
  apply in_Vg in Hw. rewrite nth_lend, nth_borrow by auto. lia. Qed.
Lemma lequiv_lend D v : In v V -> lequiv V m (nthZ D) (nthZ (lend g D v)).
Proof. intros Hv. exists (unit_at v). intros w Hw. now apply nth_lend. Qed.
Lemma lequiv_borrow D v : In v V -> lequiv V m (nthZ D) (nthZ (borrow g D v)).
Proof. intros Hv. exists (fun x => - unit_at v x). intros w Hw. rewrite lap_neg. rewrite nth_borrow by auto. lia. Qed.
Lemma lequiv_fire_set D U : lequiv V m (nthZ D) (nthZ (fire_set g D U)).
Proof. exists (indicator (fun v => mem v U)). intros w Hw. rewrite nth_fire_set by auto. apply fire_is_lap; auto. Qed.
Lemma degD_lequiv D E : lequiv V m (nthZ D) (nthZ E) -> degD g E = degD g D.
Proof. apply lequiv_deg. apply mult_sym. Qed.
End WF.
