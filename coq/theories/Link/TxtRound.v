(* The general TXT round trip: for EVERY well-formed multigraph and every list of representable, sorted names, reading what the writer wrote
   gives the same names and the same adjacency matrix back (and, for divisor files, the same chip counts). No bound on sizes or numbers. *)
From Coq Require Import ZArith NArith List Lia Bool Arith Sorted.
Import ListNotations.
From CF Require Import ZSum ListAux Core GraphLink Machines MachinesLink OrientLink OrientRound Txt TxtLink TxtLines.
Open Scope N_scope.

(* ---------------------------------------------------------------- text -> lines *)
Definition no_nl (s : str) : Prop := ~ In 10 s /\ ~ In 13 s.
Lemma lines_aux_line l : forall rest cur, no_nl l -> lines_aux (l ++ 10 :: rest) cur false = (rev cur ++ l) :: lines_aux rest [] false.
Proof. induction l as [|c t IH]; intros rest cur [H10 H13]; cbn [app lines_aux].
  - change (10 =? 10) with true. cbv iota. now rewrite app_nil_r.
  - destruct (N.eqb_spec c 10) as [->|_]; [exfalso; apply H10; now left|]. destruct (N.eqb_spec c 13) as [->|_]; [exfalso; apply H13; now left|].
    rewrite IH by (split; intro; [apply H10|apply H13]; now right). cbn [rev]. now rewrite <- app_assoc. Qed.
Lemma lines_concat ls : Forall no_nl ls -> lines (concat (map (fun l => l ++ nl) ls)) = ls.
Proof. unfold lines. induction 1 as [|l t Hl HF IH]; [reflexivity|]. cbn [map concat]. unfold nl at 1. rewrite <- app_assoc. cbn [app].
  rewrite lines_aux_line by auto. cbn [rev app]. now rewrite IH. Qed.
Lemma no_nl_app a b : no_nl a -> no_nl b -> no_nl (a ++ b).
Proof. intros [A1 A2] [B1 B2]. split; intro H; apply in_app_or in H; tauto. Qed.
Lemma no_nl_join names : Forall no_nl names -> no_nl (join k_COMMASP names).
Proof. induction 1 as [|a t Ha HF IH]; [split; intros []|]. destruct t as [|b t']; [exact Ha|].
  change (join k_COMMASP (a :: b :: t')) with (a ++ k_COMMASP ++ join k_COMMASP (b :: t')). apply no_nl_app; auto. apply no_nl_app; auto.
  split; intros [H|[H|[]]]; discriminate. Qed.
Lemma name_ok_no_nl s : name_ok s = true -> no_nl s.
Proof. intros H. destruct (name_ok_chars s H) as [_ [_ [A B]]]. now split. Qed.

(* ---------------------------------------------------------------- sorted names *)
Definition slt (a b : str) : Prop := str_ltb a b = true.
Lemma str_eqb_refl a : str_eqb a a = true.
Proof. induction a; cbn; auto. now rewrite N.eqb_refl. Qed.
Lemma str_eqb_iff a b : str_eqb a b = true <-> a = b.
Proof. split; [apply str_eqb_eq|intros ->; apply str_eqb_refl]. Qed.
Lemma str_ltb_irrefl a : str_ltb a a = false.
Proof. induction a as [|x a IH]; cbn; auto. rewrite N.ltb_irrefl, N.eqb_refl, IH. reflexivity. Qed.
Lemma str_ltb_trans a : forall b c, str_ltb a b = true -> str_ltb b c = true -> str_ltb a c = true.
Proof. induction a as [|x a IH]; intros [|y b] [|z c] H1 H2; cbn in *; try discriminate; auto.
  apply orb_true_iff in H1. apply orb_true_iff in H2. apply orb_true_iff.
  destruct H1 as [H1|H1]; destruct H2 as [H2|H2].
  - left. apply N.ltb_lt in H1, H2. apply N.ltb_lt. lia.
  - apply andb_true_iff in H2. destruct H2 as [E _]. apply N.eqb_eq in E. subst. now left.
  - apply andb_true_iff in H1. destruct H1 as [E _]. apply N.eqb_eq in E. subst. now left.
  - apply andb_true_iff in H1. apply andb_true_iff in H2. destruct H1 as [E1 L1]. destruct H2 as [E2 L2]. apply N.eqb_eq in E1, E2. subst.
    right. rewrite N.eqb_refl. cbn. eapply IH; eauto. Qed.
Lemma str_tricho a : forall b, str_eqb a b = false -> str_ltb a b = false -> str_ltb b a = true.
Proof. induction a as [|x a IH]; intros [|y b] H1 H2; cbn in *; try discriminate; auto.
  apply orb_false_iff in H2. destruct H2 as [L H2]. apply N.ltb_ge in L.
  destruct (N.eqb_spec x y) as [->|Hne]; cbn [andb] in *.
  - rewrite N.ltb_irrefl, N.eqb_refl. cbn. now apply IH.
  - assert (Hlt : (y <? x) = true) by (apply N.ltb_lt; lia). now rewrite Hlt. Qed.
Lemma insert_in x l z : In z (insert_name x l) -> z = x \/ In z l.
Proof. induction l as [|y t IH]; cbn [insert_name]; [intros [<-|[]]; now left|]. destruct (str_eqb x y); [now right|]. destruct (str_ltb x y).
  - intros [<-|H]; [now left|now right].
  - intros [<-|H]; [right; now left|]. destruct (IH H); [now left|right; now right]. Qed.
Lemma insert_sorted x l : StronglySorted slt l -> StronglySorted slt (insert_name x l).
Proof. induction 1 as [|y t Ht IH Hy]; cbn [insert_name]; [repeat constructor|].
  destruct (str_eqb x y) eqn:E; [now constructor|]. destruct (str_ltb x y) eqn:L.
  - constructor; [now constructor|]. constructor; [exact L|]. rewrite Forall_forall in *. intros z Hz. unfold slt. eapply str_ltb_trans; [exact L|now apply Hy].
  - constructor; auto. rewrite Forall_forall in *. intros z Hz. destruct (insert_in _ _ _ Hz) as [->|Hz']; [now apply str_tricho|now apply Hy]. Qed.
Lemma sort_sorted l : StronglySorted slt (sort_names l).
Proof. induction l; cbn; [constructor|now apply insert_sorted]. Qed.
Lemma sorted_nodup l : StronglySorted slt l -> NoDup l.
Proof. induction 1 as [|y t Ht IH Hy]; constructor; auto. intro Hin. rewrite Forall_forall in Hy. specialize (Hy _ Hin). unfold slt in Hy. now rewrite str_ltb_irrefl in Hy. Qed.
Lemma sorted_names_nodup names : sort_names names = names -> NoDup names.
Proof. intros E. rewrite <- E. apply sorted_nodup, sort_sorted. Qed.
Lemma index_name_nth names : NoDup names -> forall a i, (a < length names)%nat -> index_name (nth a names []) names i = Some (i + a)%nat.
Proof. induction 1 as [|y t Hy Hd IH]; intros a i Ha; [cbn in Ha; lia|]. destruct a as [|a]; cbn [nth index_name].
  - rewrite str_eqb_refl. f_equal. lia.
  - cbn [length] in Ha. destruct (str_eqb (nth a t []) y) eqn:E.
    + apply str_eqb_iff in E. exfalso. apply Hy. rewrite <- E. apply nth_In. lia.
    + rewrite IH by lia. f_equal. lia. Qed.

(* ---------------------------------------------------------------- the writer's edge lines as a list of lines *)
Definition edge_list (g : graph) : list (nat * nat * Z) :=
  flat_map (fun a => flat_map (fun b => if Nat.ltb a b && (0 <? mult g a b)%Z then [(a, b, mult g a b)] else []) (Vg g)) (Vg g).
Definition kw_line (kw : str) (items : list str) : str := kw ++ k_SP ++ join k_COMMASP items.
Definition edge_items (names : list str) (e : nat * nat * Z) : list str := [nth (fst (fst e)) names []; nth (snd (fst e)) names []; print_Z (snd e)].
Lemma flat_map_if_map {A B} (c : nat -> nat -> bool) (F : nat -> nat -> A) (h : A -> B) (V2 : list nat) : forall V1,
  flat_map (fun a => flat_map (fun b => if c a b then [h (F a b)] else []) V2) V1 =
  map h (flat_map (fun a => flat_map (fun b => if c a b then [F a b] else []) V2) V1).
Proof. induction V1 as [|a V1 IH]; [reflexivity|]. cbn [flat_map]. rewrite map_app, IH. f_equal.
  clear IH. induction V2 as [|b V2 IH]; [reflexivity|]. cbn [flat_map]. rewrite map_app, IH. f_equal. now destruct (c a b). Qed.
Lemma edge_lines_eq kw names g :
  edge_lines kw names g = concat (map (fun l => l ++ nl) (map (fun e => kw_line kw (edge_items names e)) (edge_list g))).
Proof. unfold edge_lines, edge_list. f_equal. rewrite map_map.
  rewrite <- (flat_map_if_map (fun a b => Nat.ltb a b && (0 <? mult g a b)%Z) (fun a b => (a, b, mult g a b))
              (fun e => kw_line kw (edge_items names e) ++ nl) (Vg g) (Vg g)).
  apply flat_map_ext. intros a. apply flat_map_ext. intros b. destruct (Nat.ltb a b && (0 <? mult g a b)%Z); [|reflexivity].
  f_equal. unfold kw_line, edge_items. cbn [fst snd join]. now rewrite <- !app_assoc. Qed.
Lemma edge_list_ok g : wfb g = true -> Forall (fun e => (fst (fst e) < snd (fst e))%nat /\ (snd (fst e) < nv g)%nat /\ (0 < snd e)%Z /\ snd e = mult g (fst (fst e)) (snd (fst e))) (edge_list g).
Proof. intros Hwf. apply Forall_forall. intros [[a b] k] H. unfold edge_list in H. apply in_flat_map in H. destruct H as [a' [Ha H]].
  apply in_flat_map in H. destruct H as [b' [Hb H]]. destruct (Nat.ltb a' b' && (0 <? mult g a' b')%Z) eqn:E; [|destruct H].
  destruct H as [H|[]]. inversion H; subst. apply andb_true_iff in E. destruct E as [E1 E2]. apply Nat.ltb_lt in E1. apply Z.ltb_lt in E2.
  apply in_Vg in Hb. cbn [fst snd]. auto. Qed.

(* ---------------------------------------------------------------- one step of the reader's line loop *)
Definition pstep (kv ke marker kp : str) (numeric : bool) (r : raw) (line : str) : raw :=
  let r' := parse_line kv ke marker kp r line in
  if numeric && negb (Nat.eqb (length (r_payload r')) (length (r_payload r))) then
    match r_payload r' with [] => r' | _ => match py_int (snd (last (r_payload r') ([], []))) with Some _ => r' | None =>
      {| r_names := r_names r'; r_edges := r_edges r'; r_flag := r_flag r'; r_payload := r_payload r'; r_bad := true |} end end
  else r'.
Lemma parse_pstep kv ke marker kp numeric s :
  parse kv ke marker kp numeric s = let r := fold_left (pstep kv ke marker kp numeric) (clean_lines s) raw0 in if r_bad r then None else Some r.
Proof. reflexivity. Qed.
Definition kw_shape (kw : str) : Prop := exists c0 kw', kw = c0 :: kw' ++ [58] /\ is_space c0 = false.
Definition add_e (r : raw) (e : str * str * Z) : raw :=
  {| r_names := r_names r; r_edges := r_edges r ++ [e]; r_flag := r_flag r; r_payload := r_payload r; r_bad := r_bad r |}.
Definition named (names : list str) (e : nat * nat * Z) : str * str * Z := (nth (fst (fst e)) names [], nth (snd (fst e)) names [], snd e).
Lemma edge_step kv ke marker kp numeric names r e : kw_shape ke -> (forall x, starts_with kv (ke ++ x) = false) ->
  item_ok (nth (fst (fst e)) names []) -> item_ok (nth (snd (fst e)) names []) ->
  pstep kv ke marker kp numeric r (kw_line ke (edge_items names e)) = add_e r (named names e).
Proof. intros [c0 [kw' [Eke Hc0]]] Hkv Ha Hb.
  assert (Hit : Forall item_ok (edge_items names e)) by (unfold edge_items; constructor; [exact Ha|constructor; [exact Hb|constructor; [apply print_Z_item|constructor]]]).
  destruct (fields_line ke c0 kw' (edge_items names e) Eke Hc0 ltac:(discriminate) Hit) as [_ [Hs Hf]]. fold (kw_line ke (edge_items names e)) in Hs, Hf.
  assert (E : parse_line kv ke marker kp r (kw_line ke (edge_items names e)) = add_e r (named names e)).
  { unfold parse_line. unfold kw_line at 1. rewrite Hkv. rewrite Hs, Hf. unfold edge_items at 1. rewrite py_int_print_Z. reflexivity. }
  unfold pstep. rewrite E. cbn [add_e r_payload]. rewrite Nat.eqb_refl. now rewrite andb_false_r. Qed.
Lemma edges_fold kv ke marker kp numeric names es : kw_shape ke -> (forall x, starts_with kv (ke ++ x) = false) ->
  Forall (fun e => item_ok (nth (fst (fst e)) names []) /\ item_ok (nth (snd (fst e)) names [])) es -> forall r,
  fold_left (pstep kv ke marker kp numeric) (map (fun e => kw_line ke (edge_items names e)) es) r =
  {| r_names := r_names r; r_edges := r_edges r ++ map (named names) es; r_flag := r_flag r; r_payload := r_payload r; r_bad := r_bad r |}.
Proof. intros Hke Hkv. induction 1 as [|e t [Ha Hb] HF IH]; intros r; cbn [map fold_left].
  - rewrite app_nil_r. now destruct r.
  - rewrite (edge_step kv ke marker kp numeric names r e Hke Hkv Ha Hb). rewrite IH. unfold add_e. cbn [r_names r_edges r_flag r_payload r_bad]. now rewrite <- app_assoc. Qed.

(* ---------------------------------------------------------------- rebuilding the adjacency matrix from the edge list *)
Open Scope Z_scope.
Definition hit (v w : nat) (e : nat * nat * Z) : Z :=
  if (Nat.eqb v (fst (fst e)) && Nat.eqb w (snd (fst e))) || (Nat.eqb v (snd (fst e)) && Nat.eqb w (fst (fst e))) then snd e else 0.
Lemma zsum_flat_map {A B} (f : B -> Z) (h : A -> list B) l : zsum f (flat_map h l) = zsum (fun a => zsum f (h a)) l.
Proof. induction l as [|a l IH]; [reflexivity|]. cbn [flat_map zsum]. now rewrite zsum_app, IH. Qed.
Lemma graph_fold_named names : NoDup names -> forall es s0, ginv s0 -> gn s0 = length names ->
  Forall (fun e => fst (fst e) <> snd (fst e) /\ (fst (fst e) < length names)%nat /\ (snd (fst e) < length names)%nat /\ 0 < snd e) es ->
  exists s, fold_left (graph_step names) (map (named names) es) (Some s0) = Some s /\ ginv s /\ gn s = gn s0 /\
    forall v w, mult (adj s) v w = mult (adj s0) v w + zsum (hit v w) es.
Proof. intros Hnd. induction es as [|[[a b] k] es IH]; intros s0 Hinv Hn HF.
  - exists s0. split; [reflexivity|]. split; [exact Hinv|]. split; [reflexivity|]. intros v w. cbn [zsum]. lia.
  - inversion HF as [|e t [Hab [Ha [Hb Hk]]] HF' E]; subst. cbn [fst snd] in *. cbn [map fold_left]. change (named names (a, b, k)) with (nth a names [], nth b names [], k). unfold graph_step at 2. cbn [fst snd].
    rewrite !index_name_nth by auto. cbn [Nat.add].
    destruct (add_edge s0 a b k) as [s1|] eqn:Eadd.
    + destruct (add_edge_inv s0 a b k s1 Hinv Eadd) as [Hinv1 [Hn1 [_ [_ [_ [_ Hm]]]]]].
      destruct (IH s1 Hinv1 ltac:(congruence) HF') as [s [Hf [Hi [Hg Hmm]]]]. exists s. split; [exact Hf|]. split; [exact Hi|]. split; [congruence|].
      intros v w. rewrite Hmm, Hm. cbn [zsum]. unfold hit at 2. cbn [fst snd]. lia.
    + exfalso. unfold add_edge in Eadd. destruct (Nat.eqb_spec a b); [contradiction|]. destruct (Z.leb_spec k 0); [lia|].
      assert (E1 : Nat.ltb a (gn s0) = true) by (apply Nat.ltb_lt; lia). assert (E2 : Nat.ltb b (gn s0) = true) by (apply Nat.ltb_lt; lia).
      rewrite E1, E2 in Eadd. discriminate. Qed.
Lemma edge_term g v w a b : wfb g = true -> (v < nv g)%nat -> (w < nv g)%nat -> (a < nv g)%nat -> (b < nv g)%nat ->
  zsum (hit v w) (if Nat.ltb a b && (0 <? mult g a b) then [(a, b, mult g a b)] else []) =
  if Nat.ltb v w then (if Nat.eqb a v then (if Nat.eqb b w then mult g v w else 0) else 0)
  else if Nat.ltb w v then (if Nat.eqb a w then (if Nat.eqb b v then mult g v w else 0) else 0) else 0.
Proof. intros Hwf Hv Hw Ha Hb. destruct (wfb_in g Hwf v w Hv Hw) as [P1 [P2 _]]. destruct (wfb_in g Hwf a b Ha Hb) as [Q1 _].
  destruct (Nat.ltb_spec a b) as [Lab|Lab]; destruct (Z.ltb_spec 0 (mult g a b)) as [Lm|Lm]; cbn [andb zsum]; unfold hit; cbn [fst snd];
  destruct (Nat.ltb_spec v w) as [Lvw|Lvw]; try destruct (Nat.ltb_spec w v) as [Lwv|Lwv];
  destruct (Nat.eqb_spec v a); destruct (Nat.eqb_spec w b); destruct (Nat.eqb_spec v b); destruct (Nat.eqb_spec w a);
  destruct (Nat.eqb_spec a v); destruct (Nat.eqb_spec b w); try destruct (Nat.eqb_spec a w); try destruct (Nat.eqb_spec b v); cbn [andb orb]; subst; try lia. Qed.
Lemma edge_sum g v w : wfb g = true -> (v < nv g)%nat -> (w < nv g)%nat -> zsum (hit v w) (edge_list g) = mult g v w.
Proof. intros Hwf Hv Hw. unfold edge_list. rewrite zsum_flat_map.
  rewrite (zsum_ext _ (fun a => zsum (fun b => if Nat.ltb v w then (if Nat.eqb a v then (if Nat.eqb b w then mult g v w else 0) else 0)
     else if Nat.ltb w v then (if Nat.eqb a w then (if Nat.eqb b v then mult g v w else 0) else 0) else 0) (Vg g)) (Vg g)).
  2:{ intros a Ha. rewrite zsum_flat_map. apply zsum_ext. intros b Hb. apply in_Vg in Ha, Hb. now apply edge_term. }
  destruct (wfb_in g Hwf v w Hv Hw) as [_ [_ P3]].
  destruct (Nat.ltb_spec v w) as [L|L]; [|destruct (Nat.ltb_spec w v) as [L'|L']].
  - rewrite (zsum_ext _ (fun a => if Nat.eqb a v then mult g v w else 0)).
    + apply zsum_indicator; [apply Vg_nodup|now apply in_Vg].
    + intros a _. destruct (Nat.eqb a v); [|apply zsum_zero]. apply zsum_indicator; [apply Vg_nodup|now apply in_Vg].
  - rewrite (zsum_ext _ (fun a => if Nat.eqb a w then mult g v w else 0)).
    + apply zsum_indicator; [apply Vg_nodup|now apply in_Vg].
    + intros a _. destruct (Nat.eqb a w); [|apply zsum_zero]. apply zsum_indicator; [apply Vg_nodup|now apply in_Vg].
  - assert (v = w) by lia. subst. rewrite P3. rewrite (zsum_ext _ (fun _ => 0)); [apply zsum_zero|]. intros; apply zsum_zero. Qed.
Lemma graph_ext g h : wfb g = true -> wfb h = true -> nv g = nv h -> (forall v w, (v < nv g)%nat -> (w < nv g)%nat -> mult g v w = mult h v w) -> g = h.
Proof. intros Hg Hh Hn Hm. apply nth_ext with (d := []) (d' := []); [exact Hn|]. intros i Hi. fold (nv g) in Hi.
  apply list_eq_nthZ; [rewrite (wfb_rows g Hg), (wfb_rows h Hh); auto; lia|]. intros w Hw. rewrite (wfb_rows g Hg) in Hw by auto. now apply Hm. Qed.
Lemma ginit_mult n v w : mult (adj (ginit n)) v w = 0.
Proof. unfold ginit, mult. cbn [adj]. destruct (le_lt_dec n v). rewrite nth_overflow by (rewrite tab_length; lia). now destruct w.
  rewrite (nth_tab n (fun _ => tab n (fun _ : nat => 0))) by auto. destruct (le_lt_dec n w); [apply nthZ_tab_out; auto|apply (nthZ_tab n (fun _ => 0)); auto]. Qed.
(* building the graph from the named edge list of g gives g back *)
Lemma rebuild_graph names g : wfb g = true -> length names = nv g -> NoDup names ->
  exists s, fold_left (graph_step names) (map (named names) (edge_list g)) (Some (ginit (length names))) = Some s /\ ginv s /\ adj s = g.
Proof. intros Hwf Hlen Hnd.
  destruct (graph_fold_named names Hnd (edge_list g) (ginit (length names)) (ginit_inv _)) as [s [Hf [Hi [Hg Hm]]]].
  - unfold gn, ginit. cbn [adj]. apply tab_length.
  - eapply Forall_impl; [|apply (edge_list_ok g Hwf)]. intros [[a b] k] [H1 [H2 [H3 _]]]. cbn [fst snd] in *. lia.
  - exists s. split; [exact Hf|]. split; [exact Hi|]. assert (Hn : gn s = nv g) by (rewrite Hg; unfold gn, ginit; cbn [adj]; rewrite tab_length; exact Hlen).
    apply graph_ext; [apply Hi|exact Hwf|exact Hn|]. intros v w Hv Hw. rewrite Hm, ginit_mult. unfold gn, nv in *. rewrite edge_sum by (auto; unfold nv; lia). lia. Qed.

(* ---------------------------------------------------------------- the graph part of every file kind *)
Lemma vertex_step kv ke marker kp numeric names r : kw_shape kv -> names_ok names ->
  pstep kv ke marker kp numeric r (strip (kw_line kv names)) =
  {| r_names := Some names; r_edges := r_edges r; r_flag := r_flag r; r_payload := r_payload r; r_bad := r_bad r |}.
Proof. intros [c0 [kw' [Ekv Hc0]]] Hok. destruct (vertices_line_roundtrip kv c0 kw' names Ekv Hc0 Hok) as [Hs Hf]. fold (kw_line kv names) in Hs, Hf.
  unfold pstep, parse_line. rewrite Hs, Hf. cbn [r_payload]. rewrite Nat.eqb_refl. now rewrite andb_false_r. Qed.
Lemma starts_with_nil_false kw : kw_shape kw -> forall l, starts_with kw l = true -> l <> [].
Proof. intros [c0 [kw' [-> _]]] l H E. subst. discriminate. Qed.
Lemma clean_lines_written L0 Ls : no_nl L0 -> Forall no_nl Ls -> strip L0 <> [] -> Forall (fun l => strip l = l /\ l <> []) Ls ->
  clean_lines (concat (map (fun l => l ++ nl) (L0 :: Ls))) = strip L0 :: Ls.
Proof. intros H0 Hs Hne HF. unfold clean_lines. rewrite lines_concat by (constructor; auto). cbn [map filter].
  destruct (strip L0) eqn:E; [congruence|]. f_equal. clear - HF. induction HF as [|l t [A B] HF IH]; [reflexivity|]. cbn [map filter]. rewrite A.
  destruct l; [congruence|]. now rewrite IH. Qed.
Lemma kw_shape_no_nl_line kw items : no_nl kw -> Forall no_nl items -> no_nl (kw_line kw items).
Proof. intros Hk Hi. unfold kw_line. apply no_nl_app; auto. apply no_nl_app; [split; intros [H|[]]; discriminate|now apply no_nl_join]. Qed.
Lemma names_nth_ok names a : names_ok names -> (a < length names)%nat -> name_ok (nth a names []) = true.
Proof. intros H Ha. unfold names_ok in H. rewrite Forall_forall in H. apply H. now apply nth_In. Qed.
Definition graph_lines (kv ke : str) (names : list str) (g : graph) : list str := kw_line kv names :: map (fun e => kw_line ke (edge_items names e)) (edge_list g).
Lemma graph_lines_facts kv ke names g : kw_shape kv -> kw_shape ke -> no_nl kv -> no_nl ke -> wfb g = true -> length names = nv g -> names_ok names ->
  no_nl (kw_line kv names) /\ Forall no_nl (map (fun e => kw_line ke (edge_items names e)) (edge_list g)) /\ strip (kw_line kv names) <> [] /\
  Forall (fun l => strip l = l /\ l <> []) (map (fun e => kw_line ke (edge_items names e)) (edge_list g)) /\
  Forall (fun e => item_ok (nth (fst (fst e)) names []) /\ item_ok (nth (snd (fst e)) names [])) (edge_list g).
Proof. intros Hkv Hke Nkv Nke Hwf Hlen Hok.
  assert (Hnn : Forall no_nl names) by (eapply Forall_impl; [|exact Hok]; intros s Hs; now apply name_ok_no_nl).
  assert (Hedges : Forall (fun e => (fst (fst e) < length names)%nat /\ (snd (fst e) < length names)%nat) (edge_list g)).
  { eapply Forall_impl; [|apply (edge_list_ok g Hwf)]. intros [[a b] k] [H1 [H2 _]]. cbn [fst snd] in *. lia. }
  split; [now apply kw_shape_no_nl_line|]. split; [|split; [|split]].
  - apply Forall_map. eapply Forall_impl; [|exact Hedges]. intros e [Ha Hb]. apply kw_shape_no_nl_line; auto.
    unfold edge_items. repeat constructor; try (apply name_ok_no_nl, names_nth_ok; auto); apply print_Z_no_nl.
  - destruct Hkv as [c0 [kw' [Ekv Hc0]]]. destruct (vertices_line_roundtrip kv c0 kw' names Ekv Hc0 Hok) as [Hs _]. fold (kw_line kv names) in Hs.
    intro E. rewrite E in Hs. rewrite Ekv in Hs. discriminate.
  - apply Forall_map. eapply Forall_impl; [|exact Hedges]. intros e [Ha Hb]. destruct Hke as [c0 [kw' [Eke Hc0]]].
    assert (Hit : Forall item_ok (edge_items names e)).
    { unfold edge_items. constructor; [apply name_ok_item, names_nth_ok; auto|constructor; [apply name_ok_item, names_nth_ok; auto|constructor; [apply print_Z_item|constructor]]]. }
    destruct (fields_line ke c0 kw' (edge_items names e) Eke Hc0 ltac:(discriminate) Hit) as [Hs _]. split; [exact Hs|]. unfold kw_line. rewrite Eke. discriminate.
  - eapply Forall_impl; [|exact Hedges]. intros e [Ha Hb]. split; apply name_ok_item, names_nth_ok; auto. Qed.
Lemma graph_part kv ke marker kp numeric names g : kw_shape kv -> kw_shape ke -> no_nl kv -> no_nl ke -> (forall x, starts_with kv (ke ++ x) = false) ->
  wfb g = true -> length names = nv g -> names_ok names ->
  fold_left (pstep kv ke marker kp numeric) (strip (kw_line kv names) :: map (fun e => kw_line ke (edge_items names e)) (edge_list g)) raw0 =
  {| r_names := Some names; r_edges := map (named names) (edge_list g); r_flag := false; r_payload := []; r_bad := false |}.
Proof. intros Hkv Hke Nkv Nke Hdiff Hwf Hlen Hok. destruct (graph_lines_facts kv ke names g Hkv Hke Nkv Nke Hwf Hlen Hok) as [_ [_ [_ [_ Hitems]]]].
  cbn [fold_left]. rewrite vertex_step by auto. rewrite (edges_fold kv ke marker kp numeric names (edge_list g) Hke Hdiff Hitems). reflexivity. Qed.
Lemma build_graph_rebuild names g es fl pl : wfb g = true -> length names = nv g -> sort_names names = names ->
  es = map (named names) (edge_list g) ->
  exists s, build_graph {| r_names := Some names; r_edges := es; r_flag := fl; r_payload := pl; r_bad := false |} = Some (names, s) /\ ginv s /\ adj s = g.
Proof. intros Hwf Hlen Hsort ->. destruct (rebuild_graph names g Hwf Hlen (sorted_names_nodup names Hsort)) as [s [Hf [Hi Ha]]].
  exists s. unfold build_graph. cbn [r_names r_edges]. rewrite Hsort, Hf. auto. Qed.

(* ---------------------------------------------------------------- graph files *)
Lemma kV_shape : kw_shape k_VERTICES. Proof. exists 86%N, [69;82;84;73;67;69;83]%N. split; reflexivity. Qed.
Lemma kE_shape : kw_shape k_EDGE. Proof. exists 69%N, [68;71;69]%N. split; reflexivity. Qed.
Lemma kGV_shape : kw_shape k_GVERTICES. Proof. exists 71%N, [82;65;80;72;95;86;69;82;84;73;67;69;83]%N. split; reflexivity. Qed.
Lemma kGE_shape : kw_shape k_GEDGE. Proof. exists 71%N, [82;65;80;72;95;69;68;71;69]%N. split; reflexivity. Qed.
Lemma concrete_no_nl s : forallb (fun c => negb ((c =? 10) || (c =? 13))%N) s = true -> no_nl s.
Proof. intros H. rewrite forallb_forall in H. split; intro Hc; specialize (H _ Hc); discriminate. Qed.
Lemma write_graph_lines names g : write_graph names g = concat (map (fun l => l ++ nl) (graph_lines k_VERTICES k_EDGE names g)).
Proof. unfold write_graph, graph_lines. cbn [map concat]. rewrite edge_lines_eq. unfold kw_line at 1. now rewrite <- !app_assoc. Qed.
Theorem read_graph_write_graph names g : wfb g = true -> length names = nv g -> names_ok names -> sort_names names = names ->
  exists s, read_graph (write_graph names g) = Some (names, s) /\ ginv s /\ adj s = g.
Proof. intros Hwf Hlen Hok Hsort.
  assert (N1 : no_nl k_VERTICES) by (now apply concrete_no_nl). assert (N2 : no_nl k_EDGE) by (now apply concrete_no_nl).
  destruct (graph_lines_facts k_VERTICES k_EDGE names g kV_shape kE_shape N1 N2 Hwf Hlen Hok) as [F1 [F2 [F3 [F4 _]]]].
  unfold read_graph. rewrite parse_pstep, write_graph_lines. unfold graph_lines. rewrite clean_lines_written by auto.
  rewrite (graph_part k_VERTICES k_EDGE [] [] false names g kV_shape kE_shape N1 N2 ltac:(intros x; reflexivity) Hwf Hlen Hok).
  cbv zeta. cbn [r_bad]. now apply build_graph_rebuild. Qed.

(* ---------------------------------------------------------------- payload sections (DEGREE / FIRING / ORIENTED lines after their marker) *)
Definition set_flag (r : raw) : raw := {| r_names := r_names r; r_edges := r_edges r; r_flag := true; r_payload := r_payload r; r_bad := r_bad r |}.
Definition add_p (r : raw) (p : str * str) : raw :=
  {| r_names := r_names r; r_edges := r_edges r; r_flag := r_flag r; r_payload := r_payload r ++ [p]; r_bad := r_bad r |}.
Lemma items2 a b : item_ok a -> item_ok b -> Forall item_ok [a; b].
Proof. intros Ha Hb. constructor; [exact Ha|constructor; [exact Hb|constructor]]. Qed.
Lemma marker_step kv ke marker kp numeric r : marker <> [] -> starts_with kv marker = false -> starts_with ke marker = false ->
  pstep kv ke marker kp numeric r marker = set_flag r.
Proof. intros Hne H1 H2. unfold pstep, parse_line. rewrite H1, H2. destruct marker as [|c t]; [congruence|]. rewrite str_eqb_refl.
  cbn [r_payload]. rewrite Nat.eqb_refl. now rewrite andb_false_r. Qed.
Lemma payload_step kv ke marker kp numeric r a b : kw_shape kp -> (forall x, starts_with kv (kp ++ x) = false) -> (forall x, starts_with ke (kp ++ x) = false) ->
  (forall x, str_eqb (kp ++ x) marker = false) -> r_flag r = true -> item_ok a -> item_ok b -> (numeric = true -> exists k, py_int b = Some k) ->
  pstep kv ke marker kp numeric r (kw_line kp [a; b]) = add_p r (a, b).
Proof. intros [c0 [kw' [Ekp Hc0]]] H1 H2 H3 Hfl Ha Hb Hnum.
  destruct (fields_line kp c0 kw' [a; b] Ekp Hc0 ltac:(discriminate) (items2 a b Ha Hb)) as [_ [Hs Hf]]. fold (kw_line kp [a; b]) in Hs, Hf.
  assert (E : parse_line kv ke marker kp r (kw_line kp [a; b]) = add_p r (a, b)).
  { assert (K1 : starts_with kv (kw_line kp [a; b]) = false) by exact (H1 _). assert (K2 : starts_with ke (kw_line kp [a; b]) = false) by exact (H2 _).
    unfold parse_line. rewrite K1, K2.
    assert (E3 : match marker with [] => false | _ :: _ => str_eqb (kw_line kp [a; b]) marker end = false) by (destruct marker; auto; apply H3). rewrite E3.
    rewrite Hs, Hf. unfold add_p. rewrite Hfl. rewrite Ekp. reflexivity. }
  unfold pstep. rewrite E. cbn [add_p r_payload]. rewrite app_length. cbn [length].
  assert (E4 : Nat.eqb (length (r_payload r) + 1) (length (r_payload r)) = false) by (apply Nat.eqb_neq; lia). rewrite E4.
  destruct numeric; cbn [andb negb]; [|reflexivity]. destruct (r_payload r ++ [(a, b)]) eqn:E5; [reflexivity|]. rewrite <- E5. rewrite last_last. cbn [snd].
  destruct (Hnum eq_refl) as [k ->]. reflexivity. Qed.
Lemma payload_fold kv ke marker kp numeric ps : kw_shape kp -> (forall x, starts_with kv (kp ++ x) = false) -> (forall x, starts_with ke (kp ++ x) = false) ->
  (forall x, str_eqb (kp ++ x) marker = false) ->
  Forall (fun p => item_ok (fst p) /\ item_ok (snd p) /\ (numeric = true -> exists k, py_int (snd p) = Some k)) ps -> forall r, r_flag r = true ->
  fold_left (pstep kv ke marker kp numeric) (map (fun p => kw_line kp [fst p; snd p]) ps) r =
  {| r_names := r_names r; r_edges := r_edges r; r_flag := true; r_payload := r_payload r ++ ps; r_bad := r_bad r |}.
Proof. intros Hkp H1 H2 H3. induction 1 as [|[a b] t [Ha [Hb Hn]] HF IH]; intros r Hfl; cbn [map fold_left].
  - rewrite app_nil_r. destruct r. cbn in *. now subst.
  - cbn [fst snd] in *. rewrite (payload_step kv ke marker kp numeric r a b Hkp H1 H2 H3 Hfl Ha Hb Hn). rewrite IH by exact Hfl.
    unfold add_p. cbn [r_names r_edges r_flag r_payload r_bad]. now rewrite <- app_assoc. Qed.
Lemma payload_lines_facts kp ps : kw_shape kp -> no_nl kp -> Forall (fun p => item_ok (fst p) /\ item_ok (snd p) /\ no_nl (fst p) /\ no_nl (snd p)) ps ->
  Forall no_nl (map (fun p => kw_line kp [fst p; snd p]) ps) /\ Forall (fun l => strip l = l /\ l <> []) (map (fun p => kw_line kp [fst p; snd p]) ps).
Proof. intros [c0 [kw' [Ekp Hc0]]] Nkp HF. split; apply Forall_map; (eapply Forall_impl; [|exact HF]); intros [a b] [Ha [Hb [Na Nb]]]; cbn [fst snd] in *.
  - apply kw_shape_no_nl_line; auto.
  - destruct (fields_line kp c0 kw' [a; b] Ekp Hc0 ltac:(discriminate) (items2 a b Ha Hb)) as [Hs _]. split; [exact Hs|]. unfold kw_line. rewrite Ekp. discriminate. Qed.

(* ---------------------------------------------------------------- divisor files *)
Open Scope Z_scope.
Lemma div_fold names D : NoDup names -> forall l D0 seen0, NoDup l -> (forall v, In v l -> (v < length names)%nat /\ ~ In v seen0) -> length D0 = length names ->
  exists D' seen', fold_left (div_step names) (map (fun v => (nth v names [], print_Z (nthZ D v))) l) (Some (D0, seen0)) = Some (D', seen') /\
    length D' = length D0 /\ forall v, nthZ D' v = if mem v l then nthZ D v else nthZ D0 v.
Proof. intros Hnd. induction l as [|x l IH]; intros D0 seen0 Hl Hin HL.
  - exists D0, seen0. cbn. auto.
  - inversion Hl as [|? ? Hx Hl']; subst. destruct (Hin x (or_introl eq_refl)) as [Hxn Hxs]. cbn [map fold_left]. unfold div_step at 2. cbn [fst snd].
    rewrite index_name_nth by auto. cbn [Nat.add]. rewrite py_int_print_Z. apply mem_false in Hxs. rewrite Hxs.
    destruct (IH (upd D0 x (nthZ D x)) (x :: seen0) Hl') as [D' [seen' [Hf [HL' Hv]]]].
    + intros v Hv. destruct (Hin v (or_intror Hv)) as [A B]. split; auto. intros [->|C]; auto.
    + now rewrite upd_length.
    + exists D', seen'. split; [exact Hf|]. split; [now rewrite HL', upd_length|]. intros v. rewrite Hv. cbn [mem existsb]. fold (mem v l). rewrite nthZ_upd.
      destruct (mem v l) eqn:Em; [now rewrite orb_true_r|]. rewrite orb_false_r. destruct (Nat.eqb_spec v x) as [->|]; cbn [andb]; auto.
      assert (E : Nat.ltb x (length D0) = true) by (apply Nat.ltb_lt; lia). now rewrite E. Qed.
Definition degree_pairs (names : list str) (g : graph) (D : div) : list (str * str) := map (fun v => (nth v names [], print_Z (nthZ D v))) (Vg g).
Lemma write_divisor_lines names g D : write_divisor names g D =
  concat (map (fun l => l ++ nl) (graph_lines k_GVERTICES k_GEDGE names g ++ k_DEGREES :: map (fun p => kw_line k_DEGREE [fst p; snd p]) (degree_pairs names g D))).
Proof. unfold write_divisor, graph_lines. rewrite map_app, concat_app. cbn [map concat]. rewrite edge_lines_eq.
  set (E := concat (map (fun l => l ++ nl) (map (fun e => kw_line k_GEDGE (edge_items names e)) (edge_list g)))).
  assert (HP : concat (map (fun v => k_DEGREE ++ k_SP ++ nth v names [] ++ k_COMMASP ++ print_Z (nthZ D v) ++ nl) (Vg g)) =
               concat (map (fun l => l ++ nl) (map (fun p => kw_line k_DEGREE [fst p; snd p]) (degree_pairs names g D)))).
  { unfold degree_pairs. rewrite !map_map. f_equal. apply map_ext. intros v. unfold kw_line. cbn [fst snd join]. now rewrite <- !app_assoc. }
  rewrite HP. unfold kw_line at 1. now rewrite <- !app_assoc. Qed.
Lemma kDEG_shape : kw_shape k_DEGREE. Proof. exists 68%N, [69;71;82;69;69]%N. split; reflexivity. Qed.
Theorem read_divisor_write_divisor names g D : wfb g = true -> length names = nv g -> names_ok names -> sort_names names = names -> length D = nv g ->
  exists s, read_divisor (write_divisor names g D) = Some (names, s, D) /\ ginv s /\ adj s = g.
Proof. intros Hwf Hlen Hok Hsort HD.
  assert (N1 : no_nl k_GVERTICES) by (now apply concrete_no_nl). assert (N2 : no_nl k_GEDGE) by (now apply concrete_no_nl). assert (N3 : no_nl k_DEGREE) by (now apply concrete_no_nl).
  destruct (graph_lines_facts k_GVERTICES k_GEDGE names g kGV_shape kGE_shape N1 N2 Hwf Hlen Hok) as [F1 [F2 [F3 [F4 _]]]].
  assert (HP : Forall (fun p => item_ok (fst p) /\ item_ok (snd p) /\ no_nl (fst p) /\ no_nl (snd p)) (degree_pairs names g D)).
  { unfold degree_pairs. apply Forall_map. apply Forall_forall. intros v Hv. apply in_Vg in Hv. cbn [fst snd].
    assert (Hn : name_ok (nth v names []) = true) by (apply names_nth_ok; auto; lia).
    split; [now apply name_ok_item|]. split; [apply print_Z_item|]. split; [now apply name_ok_no_nl|apply print_Z_no_nl]. }
  destruct (payload_lines_facts k_DEGREE _ kDEG_shape N3 HP) as [P1 P2].
  unfold read_divisor. rewrite parse_pstep, write_divisor_lines. unfold graph_lines. rewrite <- app_comm_cons. rewrite clean_lines_written; auto.
  2:{ apply Forall_app. split; [exact F2|]. constructor; [|exact P1]. apply concrete_no_nl. reflexivity. }
  2:{ apply Forall_app. split; [exact F4|]. constructor; [|exact P2]. split; [reflexivity|discriminate]. }
  rewrite app_comm_cons, fold_left_app.
  rewrite (graph_part k_GVERTICES k_GEDGE k_DEGREES k_DEGREE true names g kGV_shape kGE_shape N1 N2 ltac:(intros x; reflexivity) Hwf Hlen Hok).
  cbn [fold_left]. rewrite marker_step by (try discriminate; reflexivity).
  rewrite (payload_fold k_GVERTICES k_GEDGE k_DEGREES k_DEGREE true (degree_pairs names g D) kDEG_shape ltac:(intros x; reflexivity) ltac:(intros x; reflexivity) ltac:(intros x; reflexivity)).
  2:{ unfold degree_pairs. apply Forall_map. apply Forall_forall. intros v Hv. apply in_Vg in Hv. cbn [fst snd].
      split; [apply name_ok_item, names_nth_ok; auto; lia|]. split; [apply print_Z_item|]. intros _. exists (nthZ D v). apply py_int_print_Z. }
  2:{ reflexivity. }
  cbv zeta. unfold set_flag. cbn [r_names r_edges r_flag r_payload r_bad app].
  destruct (build_graph_rebuild names g (map (named names) (edge_list g)) true (degree_pairs names g D) Hwf Hlen Hsort eq_refl) as [s [Hb [Hi Ha]]].
  rewrite Hb. cbn [r_payload].
  destruct (div_fold names D (sorted_names_nodup names Hsort) (Vg g) (tab (length names) (fun _ => 0)) []) as [D' [seen' [Hf [HL Hv]]]].
  - apply Vg_nodup.
  - intros v Hv. apply in_Vg in Hv. split; [lia|intros []].
  - apply tab_length.
  - fold (degree_pairs names g D) in Hf. rewrite Hf. exists s. split; [|auto]. do 2 f_equal.
    rewrite tab_length in HL. apply list_eq_nthZ; [lia|]. intros v Hlt. rewrite Hv.
    assert (Em : mem v (Vg g) = true) by (apply mem_In, in_Vg; lia). now rewrite Em. Qed.

(* ---------------------------------------------------------------- firing-script files (only non-zero entries are written) *)
Lemma script_fold names D : NoDup names -> forall l D0, (forall v, In v l -> (v < length names)%nat) -> length D0 = length names ->
  exists D', fold_left (script_step names) (map (fun v => (nth v names [], print_Z (nthZ D v))) l) (Some D0) = Some D' /\
    length D' = length D0 /\ forall v, nthZ D' v = if mem v l then nthZ D v else nthZ D0 v.
Proof. intros Hnd. induction l as [|x l IH]; intros D0 Hin HL.
  - exists D0. cbn. auto.
  - pose proof (Hin x (or_introl eq_refl)) as Hxn. cbn [map fold_left]. unfold script_step at 2. cbn [fst snd].
    rewrite index_name_nth by auto. cbn [Nat.add]. rewrite py_int_print_Z.
    destruct (IH (upd D0 x (nthZ D x))) as [D' [Hf [HL' Hv]]].
    + intros v Hv. apply Hin. now right.
    + now rewrite upd_length.
    + exists D'. split; [exact Hf|]. split; [now rewrite HL', upd_length|]. intros v. rewrite Hv. cbn [mem existsb]. fold (mem v l). rewrite nthZ_upd.
      destruct (mem v l) eqn:Em; [now rewrite orb_true_r|]. rewrite orb_false_r. destruct (Nat.eqb_spec v x) as [->|]; cbn [andb]; auto.
      assert (E : Nat.ltb x (length D0) = true) by (apply Nat.ltb_lt; lia). now rewrite E. Qed.
Definition firing_pairs (names : list str) (g : graph) (s : list Z) : list (str * str) :=
  map (fun v => (nth v names [], print_Z (nthZ s v))) (filter (fun v => negb (nthZ s v =? 0)) (Vg g)).
Lemma concat_map_if {A B} (c : A -> bool) (F : A -> list B) l : concat (map (fun v => if c v then [] else F v) l) = concat (map F (filter (fun v => negb (c v)) l)).
Proof. induction l as [|a l IH]; [reflexivity|]. cbn [map concat filter]. destruct (c a); cbn [negb]; [exact IH|]. cbn [map concat]. now rewrite IH. Qed.
Lemma write_script_lines names g s : write_script names g s =
  concat (map (fun l => l ++ nl) (graph_lines k_GVERTICES k_GEDGE names g ++ k_SCRIPT :: map (fun p => kw_line k_FIRING [fst p; snd p]) (firing_pairs names g s))).
Proof. unfold write_script, graph_lines. rewrite map_app, concat_app. cbn [map concat]. rewrite edge_lines_eq.
  set (E := concat (map (fun l => l ++ nl) (map (fun e => kw_line k_GEDGE (edge_items names e)) (edge_list g)))).
  assert (HP : concat (map (fun v => if nthZ s v =? 0 then [] else k_FIRING ++ k_SP ++ nth v names [] ++ k_COMMASP ++ print_Z (nthZ s v) ++ nl) (Vg g)) =
               concat (map (fun l => l ++ nl) (map (fun p => kw_line k_FIRING [fst p; snd p]) (firing_pairs names g s)))).
  { rewrite (concat_map_if (fun v => nthZ s v =? 0)). unfold firing_pairs. rewrite !map_map. f_equal. apply map_ext. intros v. unfold kw_line. cbn [fst snd join]. now rewrite <- !app_assoc. }
  rewrite HP. unfold kw_line at 1. now rewrite <- !app_assoc. Qed.
Lemma kFIR_shape : kw_shape k_FIRING. Proof. exists 70%N, [73;82;73;78;71]%N. split; reflexivity. Qed.
Theorem read_script_write_script names g sc : wfb g = true -> length names = nv g -> names_ok names -> sort_names names = names -> length sc = nv g ->
  exists s, read_script (write_script names g sc) = Some (names, s, sc) /\ ginv s /\ adj s = g.
Proof. intros Hwf Hlen Hok Hsort HD.
  assert (N1 : no_nl k_GVERTICES) by (now apply concrete_no_nl). assert (N2 : no_nl k_GEDGE) by (now apply concrete_no_nl). assert (N3 : no_nl k_FIRING) by (now apply concrete_no_nl).
  destruct (graph_lines_facts k_GVERTICES k_GEDGE names g kGV_shape kGE_shape N1 N2 Hwf Hlen Hok) as [F1 [F2 [F3 [F4 _]]]].
  assert (Hfil : forall v, In v (filter (fun v => negb (nthZ sc v =? 0)) (Vg g)) -> (v < length names)%nat).
  { intros v Hv. apply filter_In in Hv. destruct Hv as [Hv _]. apply in_Vg in Hv. lia. }
  assert (HP : Forall (fun p => item_ok (fst p) /\ item_ok (snd p) /\ no_nl (fst p) /\ no_nl (snd p)) (firing_pairs names g sc)).
  { unfold firing_pairs. apply Forall_map. apply Forall_forall. intros v Hv. apply Hfil in Hv. cbn [fst snd].
    assert (Hn : name_ok (nth v names []) = true) by (apply names_nth_ok; auto).
    split; [now apply name_ok_item|]. split; [apply print_Z_item|]. split; [now apply name_ok_no_nl|apply print_Z_no_nl]. }
  destruct (payload_lines_facts k_FIRING _ kFIR_shape N3 HP) as [P1 P2].
  unfold read_script. rewrite parse_pstep, write_script_lines. unfold graph_lines. rewrite <- app_comm_cons. rewrite clean_lines_written; auto.
  2:{ apply Forall_app. split; [exact F2|]. constructor; [|exact P1]. apply concrete_no_nl. reflexivity. }
  2:{ apply Forall_app. split; [exact F4|]. constructor; [|exact P2]. split; [reflexivity|discriminate]. }
  rewrite app_comm_cons, fold_left_app.
  rewrite (graph_part k_GVERTICES k_GEDGE k_SCRIPT k_FIRING true names g kGV_shape kGE_shape N1 N2 ltac:(intros x; reflexivity) Hwf Hlen Hok).
  cbn [fold_left]. rewrite marker_step by (try discriminate; reflexivity).
  rewrite (payload_fold k_GVERTICES k_GEDGE k_SCRIPT k_FIRING true (firing_pairs names g sc) kFIR_shape ltac:(intros x; reflexivity) ltac:(intros x; reflexivity) ltac:(intros x; reflexivity)).
  2:{ unfold firing_pairs. apply Forall_map. apply Forall_forall. intros v Hv. apply Hfil in Hv. cbn [fst snd].
      split; [apply name_ok_item, names_nth_ok; auto|]. split; [apply print_Z_item|]. intros _. exists (nthZ sc v). apply py_int_print_Z. }
  2:{ reflexivity. }
  cbv zeta. unfold set_flag. cbn [r_names r_edges r_flag r_payload r_bad app].
  destruct (build_graph_rebuild names g (map (named names) (edge_list g)) true (firing_pairs names g sc) Hwf Hlen Hsort eq_refl) as [s [Hb [Hi Ha]]].
  rewrite Hb. cbn [r_payload].
  destruct (script_fold names sc (sorted_names_nodup names Hsort) (filter (fun v => negb (nthZ sc v =? 0)) (Vg g)) (tab (length names) (fun _ => 0)) Hfil (tab_length _ _)) as [D' [Hf [HL Hv]]].
  fold (firing_pairs names g sc) in Hf. rewrite Hf. exists s. split; [|auto]. do 2 f_equal.
  rewrite tab_length in HL. apply list_eq_nthZ; [lia|]. intros v Hlt. rewrite Hv.
  destruct (mem v (filter (fun v0 => negb (nthZ sc v0 =? 0)) (Vg g))) eqn:Em; [reflexivity|].
  rewrite (nthZ_tab (length names) (fun _ => 0)) by lia. apply mem_false in Em. destruct (Z.eqb_spec (nthZ sc v) 0) as [E|E]; [now rewrite E|].
  exfalso. apply Em. apply filter_In. split; [apply in_Vg; lia|]. apply negb_true_iff. now apply Z.eqb_neq. Qed.

(* ---------------------------------------------------------------- orientation files *)
Definition arc_pairs (names : list str) (ps : list (nat * nat)) : list (str * str) := map (fun p => (nth (fst p) names [], nth (snd p) names [])) ps.
Lemma orient_pairs_named names ps : NoDup names -> Forall (fun p => (fst p < length names)%nat /\ (snd p < length names)%nat) ps ->
  orient_pairs names (arc_pairs names ps) = Some ps.
Proof. intros Hnd. induction 1 as [|[a b] t [Ha Hb] HF IH]; [reflexivity|]. unfold orient_pairs, arc_pairs in *. cbn [map fold_right fst snd] in *. rewrite IH.
  rewrite !index_name_nth by auto. reflexivity. Qed.
Lemma write_orientation_lines names g o : write_orientation names g o =
  concat (map (fun l => l ++ nl) (graph_lines k_GVERTICES k_GEDGE names g ++ k_ORIENTATIONS :: map (fun p => kw_line k_ORIENTED [fst p; snd p]) (arc_pairs names (arcs1 g o)))).
Proof. unfold write_orientation, graph_lines. rewrite map_app, concat_app. cbn [map concat]. rewrite edge_lines_eq.
  set (E := concat (map (fun l => l ++ nl) (map (fun e => kw_line k_GEDGE (edge_items names e)) (edge_list g)))).
  assert (HP : concat (flat_map (fun a => flat_map (fun b => if (0 <? mult g a b) && (dir_at o a b =? 1) then
                   [k_ORIENTED ++ k_SP ++ nth a names [] ++ k_COMMASP ++ nth b names [] ++ nl] else []) (Vg g)) (Vg g)) =
               concat (map (fun l => l ++ nl) (map (fun p => kw_line k_ORIENTED [fst p; snd p]) (arc_pairs names (arcs1 g o))))).
  { f_equal. transitivity (map (fun p => kw_line k_ORIENTED [nth (fst p) names []; nth (snd p) names []] ++ nl) (arcs1 g o)).
    - unfold arcs1, arcs_of.
      rewrite <- (flat_map_if_map (fun a b => (0 <? mult g a b) && (dir_at o a b =? 1)) (fun a b => (a, b))
                (fun p => kw_line k_ORIENTED [nth (fst p) names []; nth (snd p) names []] ++ nl) (Vg g) (Vg g)).
      apply flat_map_ext. intros a. apply flat_map_ext. intros b. destruct ((0 <? mult g a b) && (dir_at o a b =? 1)); [|reflexivity].
      f_equal. unfold kw_line. cbn [fst snd join]. now rewrite <- !app_assoc.
    - unfold arc_pairs. rewrite !map_map. reflexivity. }
  rewrite HP. unfold kw_line at 1. now rewrite <- !app_assoc. Qed.
Lemma kORI_shape : kw_shape k_ORIENTED. Proof. exists 79%N, [82;73;69;78;84;69;68]%N. split; reflexivity. Qed.
Theorem read_orientation_write_orientation names g o : wfb g = true -> length names = nv g -> names_ok names -> sort_names names = names ->
  oinv g o -> oedges g o ->
  exists s o', read_orientation (write_orientation names g o) = Some (names, s, o') /\ ginv s /\ adj s = g /\
    oinv g o' /\ dir o' = dir o /\ inc o' = inc o /\ outc o' = outc o.
Proof. intros Hwf Hlen Hok Hsort Ho He.
  assert (N1 : no_nl k_GVERTICES) by (now apply concrete_no_nl). assert (N2 : no_nl k_GEDGE) by (now apply concrete_no_nl). assert (N3 : no_nl k_ORIENTED) by (now apply concrete_no_nl).
  destruct (graph_lines_facts k_GVERTICES k_GEDGE names g kGV_shape kGE_shape N1 N2 Hwf Hlen Hok) as [F1 [F2 [F3 [F4 _]]]].
  assert (Harcs : Forall (fun p => (fst p < length names)%nat /\ (snd p < length names)%nat) (arcs1 g o)).
  { apply Forall_forall. intros [a b] Hin. unfold arcs1 in Hin. apply in_arcs_of in Hin. cbn [fst snd]. lia. }
  assert (HP : Forall (fun p => item_ok (fst p) /\ item_ok (snd p) /\ no_nl (fst p) /\ no_nl (snd p)) (arc_pairs names (arcs1 g o))).
  { unfold arc_pairs. apply Forall_map. eapply Forall_impl; [|exact Harcs]. intros [a b] [Ha Hb]. cbn [fst snd] in *.
    assert (Hna : name_ok (nth a names []) = true) by (apply names_nth_ok; auto). assert (Hnb : name_ok (nth b names []) = true) by (apply names_nth_ok; auto).
    split; [now apply name_ok_item|]. split; [now apply name_ok_item|]. split; now apply name_ok_no_nl. }
  destruct (payload_lines_facts k_ORIENTED _ kORI_shape N3 HP) as [P1 P2].
  unfold read_orientation. rewrite parse_pstep, write_orientation_lines. unfold graph_lines. rewrite <- app_comm_cons. rewrite clean_lines_written; auto.
  2:{ apply Forall_app. split; [exact F2|]. constructor; [|exact P1]. apply concrete_no_nl. reflexivity. }
  2:{ apply Forall_app. split; [exact F4|]. constructor; [|exact P2]. split; [reflexivity|discriminate]. }
  rewrite app_comm_cons, fold_left_app.
  rewrite (graph_part k_GVERTICES k_GEDGE k_ORIENTATIONS k_ORIENTED false names g kGV_shape kGE_shape N1 N2 ltac:(intros x; reflexivity) Hwf Hlen Hok).
  cbn [fold_left]. rewrite marker_step by (try discriminate; reflexivity).
  rewrite (payload_fold k_GVERTICES k_GEDGE k_ORIENTATIONS k_ORIENTED false (arc_pairs names (arcs1 g o)) kORI_shape ltac:(intros x; reflexivity) ltac:(intros x; reflexivity) ltac:(intros x; reflexivity)).
  2:{ eapply Forall_impl; [|exact HP]. intros p [A [B _]]. split; [exact A|]. split; [exact B|discriminate]. }
  2:{ reflexivity. }
  cbv zeta. unfold set_flag. cbn [r_names r_edges r_flag r_payload r_bad app].
  destruct (build_graph_rebuild names g (map (named names) (edge_list g)) true (arc_pairs names (arcs1 g o)) Hwf Hlen Hsort eq_refl) as [s [Hb [Hi Ha]]].
  rewrite Hb. cbn [r_payload]. rewrite (orient_pairs_named names (arcs1 g o) (sorted_names_nodup names Hsort) Harcs). rewrite Ha.
  destruct (reconstruct_same g Hwf o Ho He) as [o' [H1 [H2 [_ [H4 [H5 H6]]]]]]. rewrite H1. exists s, o'. split; [reflexivity|]. split; [exact Hi|]. split; [exact Ha|]. split; [exact H2|]. auto. Qed.
