(* Termination of debt concentration and of the EWD loop on connected multigraphs, by the weighted potential
   Phi(D) = sum_v K^(L - level v) D(v): a borrowing move at a vertex other than q lowers it by at least 1 and it is bounded below along
   the run; firing a non-empty legal set avoiding q raises it by at least 1 and it is bounded above by K^L * deg D. *)
From Coq Require Import ZArith List Lia Bool Arith.
Import ListNotations.
From CF Require Import ZSum ListAux Defs LinEquiv Reduced Burn Potential Levels Core GraphLink MovesLink DharLink CertLink EwdLink QredLink RankLink ConnLink.
Open Scope Z_scope.

(* ---- fuel monotonicity ---- *)
Lemma borrow_while_mono g v f : forall D R f', borrow_while f g D v = Done R -> (f <= f')%nat -> borrow_while f' g D v = Done R.
Proof. induction f as [|f IH]; intros D R f' H Hle; [discriminate|]. destruct f' as [|f']; [lia|]. cbn [borrow_while] in *.
  destruct (nthZ D v <? 0); auto. apply IH; auto. lia. Qed.
Lemma pass_mono g q vs : forall f f' D R, pass f g q vs D = Done R -> (f <= f')%nat -> pass f' g q vs D = Done R.
Proof. induction vs as [|v t IH]; intros f f' D R H Hle; cbn [pass] in *; auto. destruct (Nat.eqb v q); [eapply IH; eauto|].
  destruct (borrow_while f g D v) as [D1|] eqn:E; [|discriminate]. rewrite (borrow_while_mono g v f D D1 f' E Hle). eapply IH; eauto. Qed.
Lemma concentrate_mono g q ord f : forall f' D R, concentrate f g q ord D = Done R -> (f <= f')%nat -> concentrate f' g q ord D = Done R.
Proof. induction f as [|f IH]; intros f' D R H Hle; [discriminate|]. destruct f' as [|f']; [lia|]. cbn [concentrate] in *.
  destruct (nonneg_off g q D); auto. destruct (pass (S f) g q ord D) as [D1|] eqn:E; [|discriminate].
  rewrite (pass_mono g q ord (S f) (S f') D D1 E) by lia. apply IH; auto. lia. Qed.
Lemma concentrate_nonneg g q ord f D : nonneg_off g q D = true -> concentrate (S f) g q ord D = Done D.
Proof. intros H. cbn [concentrate]. now rewrite H. Qed.

Section Pot.
Variable g : graph.
Hypothesis Hwf : wfb g = true.
Variable q : nat.
Local Notation V := (Vg g).
Local Notation m := (mult g).
Hypothesis Hq : In q V.
Variable level : nat -> nat.
Variable L : nat.
Hypothesis level_q : level q = 0%nat.
Hypothesis level_le : forall v, In v V -> (level v <= L)%nat.
Hypothesis parent : forall v, In v V -> v <> q -> exists p, In p V /\ 0 < m v p /\ (level p + 1 = level v)%nat.
Let K := totE V m + 2.
Local Notation Phi := (Potential.Phi V level L K).
Local Notation wt := (Potential.w level L K).
Let W := K ^ Z.of_nat L.
Local Notation mnn := (mult_nonneg g Hwf).
Local Notation msym := (mult_sym g Hwf).

Lemma K_ge2 : 2 <= K. Proof. unfold K. pose proof (totE_nonneg V m mnn). lia. Qed.
Lemma wt_pos v : 0 < wt v. Proof. apply (w_pos V m mnn). unfold K. lia. Qed.
Lemma wt_le_W v : wt v <= W.
Proof. unfold Potential.w, W. apply Z.pow_le_mono_r; [pose proof K_ge2; lia|lia]. Qed.
Lemma wt_q : wt q = W. Proof. unfold Potential.w, W. rewrite level_q. f_equal. lia. Qed.
Lemma Phi_ext D E : (forall v, In v V -> D v = E v) -> Phi D = Phi E.
Proof. intros H. unfold Potential.Phi. apply zsum_ext. intros v Hv. now rewrite H. Qed.
Lemma fire_step U D : U q = false -> (exists u, In u V /\ U u = true) -> Phi D + 1 <= Phi (fire V m U D).
Proof. apply (fire_increases V (Vg_nodup g) m mnn msym q level L level_le parent K). unfold K. lia. Qed.

(* a borrowing move at v <> q lowers the potential *)
Lemma borrow_lowers D v : In v V -> v <> q -> Phi (nthZ (borrow g D v)) + 1 <= Phi (nthZ D).
Proof. intros Hv Hne. set (U := fun x => Nat.eqb x v).
  assert (E : Phi (nthZ D) = Phi (fire V m U (nthZ (borrow g D v)))).
  { apply Phi_ext. intros x Hx. rewrite fire_is_lap by auto. rewrite (nth_borrow g Hwf) by auto.
    assert (lap V m (indicator U) x = lap V m (unit_at v) x) by (apply lap_ext; auto). lia. }
  rewrite E. apply fire_step; [unfold U; apply Nat.eqb_neq; auto|exists v; split; auto; unfold U; apply Nat.eqb_refl]. Qed.

(* ---------------- phase 1: debt concentration ---------------- *)
Section Phase1.
Variable D0 : div.
Hypothesis HL0 : length D0 = nv g.
Let d := degD g D0.
Definition ub (v : nat) : Z := if Nat.eqb v q then nthZ D0 q else Z.max (nthZ D0 v) (valg g v - 1).
Definition inv1 (E : div) : Prop := length E = nv g /\ degD g E = d /\ forall v, In v V -> nthZ E v <= ub v.
Definition phi_low : Z := zsum (fun v => wt v * ub v) V - W * (zsum ub V - d).
Lemma inv1_init : inv1 D0.
Proof. split; auto. split; [reflexivity|]. intros v Hv. unfold ub. destruct (Nat.eqb_spec v q) as [->|]; lia. Qed.
Lemma inv1_low E : inv1 E -> phi_low <= Phi (nthZ E).
Proof. intros [HL [Hd Hub]]. unfold phi_low, Potential.Phi.
  assert (A : zsum (fun v => wt v * nthZ E v) V = zsum (fun v => wt v * ub v) V - zsum (fun v => wt v * (ub v - nthZ E v)) V).
  { rewrite <- zsum_sub. apply zsum_ext. intros; ring. }
  assert (B : zsum (fun v => wt v * (ub v - nthZ E v)) V <= W * (zsum ub V - d)).
  { unfold degD, deg in Hd. rewrite <- Hd, <- zsum_sub, <- zsum_scale. apply zsum_le. intros v Hv. specialize (Hub v Hv). pose proof (wt_le_W v). pose proof (wt_pos v). nia. }
  lia. Qed.
Lemma inv1_borrow E v : inv1 E -> In v V -> v <> q -> nthZ E v < 0 -> inv1 (borrow g E v).
Proof. intros [HL [Hd Hub]] Hv Hne Hneg. split; [apply len_borrow|]. split.
  - rewrite <- Hd. apply (degD_lequiv g Hwf). now apply (lequiv_borrow g Hwf).
  - intros x Hx. rewrite (borrow_explicit g E v x Hv Hx). destruct (Nat.eqb_spec x v) as [->|Hxv].
    + unfold ub. apply Nat.eqb_neq in Hne. rewrite Hne. lia.
    + specialize (Hub x Hx). pose proof (mnn v x). lia. Qed.

(* termination of the three nested loops, with the potential as measure *)
Lemma borrow_while_terminates v : In v V -> v <> q -> forall fuel E, inv1 E -> Phi (nthZ E) - phi_low < Z.of_nat fuel ->
  exists E', borrow_while fuel g E v = Done E' /\ inv1 E' /\ Phi (nthZ E') <= Phi (nthZ E) /\ ((E' = E /\ 0 <= nthZ E v) \/ Phi (nthZ E') + 1 <= Phi (nthZ E)).
Proof. intros Hv Hne. induction fuel as [|f IH]; intros E HI Hm.
  - pose proof (inv1_low E HI). lia.
  - cbn [borrow_while]. destruct (Z.ltb_spec (nthZ E v) 0) as [Hneg|Hnn].
    + pose proof (borrow_lowers E v Hv Hne) as Hl. pose proof (inv1_borrow E v HI Hv Hne Hneg) as HI'.
      destruct (IH (borrow g E v) HI') as [E' [A [B [C _]]]]; [lia|]. exists E'. split; auto. split; auto. split; [lia|right; lia].
    + exists E. split; auto. split; auto. split; [lia|left; auto]. Qed.
Lemma pass_terminates vs : (forall v, In v vs -> In v V) -> forall fuel E, inv1 E -> Phi (nthZ E) - phi_low < Z.of_nat fuel ->
  exists E', pass fuel g q vs E = Done E' /\ inv1 E' /\ Phi (nthZ E') <= Phi (nthZ E) /\
    ((E' = E /\ forall v, In v vs -> v <> q -> 0 <= nthZ E v) \/ Phi (nthZ E') + 1 <= Phi (nthZ E)).
Proof. induction vs as [|v t IH]; intros Hvs fuel E HI Hm; cbn [pass].
  - exists E. split; auto. split; auto. split; [lia|left; split; auto; intros ? []].
  - assert (Ht : forall x, In x t -> In x V) by (intros; apply Hvs; now right).
    destruct (Nat.eqb_spec v q) as [->|Hne].
    + destruct (IH Ht fuel E HI Hm) as [E' [A [B [C Dd]]]]. exists E'. split; auto. split; auto. split; auto.
      destruct Dd as [[-> Hall]|Hlt]; [left; split; auto; intros x [<-|Hx] Hxq; [congruence|auto]|right; auto].
    + destruct (borrow_while_terminates v (Hvs v (or_introl eq_refl)) Hne fuel E HI Hm) as [E1 [A1 [B1 [C1 D1]]]]. rewrite A1.
      destruct (IH Ht fuel E1 B1) as [E' [A [B [C Dd]]]]; [lia|]. exists E'. split; auto. split; auto. split; [lia|].
      destruct D1 as [[-> Hv0]|Hlt1]; [|right; lia].
      destruct Dd as [[-> Hall]|Hlt]; [left; split; auto; intros x [<-|Hx] Hxq; auto|right; auto]. Qed.
Theorem concentrate_terminates ord : (forall v, In v ord -> In v V) -> (forall v, In v V -> v <> q -> In v ord) ->
  forall fuel E, inv1 E -> Phi (nthZ E) - phi_low < Z.of_nat fuel -> exists E', concentrate fuel g q ord E = Done E' /\ inv1 E'.
Proof. intros Hord Hcov. induction fuel as [|f IH]; intros E HI Hm.
  - pose proof (inv1_low E HI). lia.
  - cbn [concentrate]. destruct (nonneg_off g q E) eqn:En; [exists E; auto|].
    destruct (pass_terminates ord Hord (S f) E HI Hm) as [E1 [A [B [C Dd]]]]. rewrite A.
    destruct Dd as [[-> Hall]|Hlt].
    + exfalso. assert (nonneg_off g q E = true); [|congruence]. apply (nonneg_off_spec g). intros v Hv Hne. apply Hall; auto.
    + apply IH; auto. lia. Qed.
End Phase1.

(* ---------------- phase 2: the set-firing loop on configurations that are debt-free off q ---------------- *)
Section Phase2.
Variable d : Z.
Definition inv2 (E : div) : Prop := length E = nv g /\ degD g E = d /\ forall v, In v V -> v <> q -> 0 <= nthZ E v.
Lemma inv2_high E : inv2 E -> Phi (nthZ E) <= W * d.
Proof. intros [HL [Hd Hnn]]. unfold Potential.Phi. rewrite <- Hd. unfold degD, deg. rewrite <- zsum_scale. apply zsum_le. intros v Hv.
  destruct (Nat.eq_dec v q) as [->|Hne]; [rewrite wt_q; lia|]. specialize (Hnn v Hv Hne). pose proof (wt_le_W v). pose proof (wt_pos v). nia. Qed.
Lemma inv2_fire E : inv2 E -> unburnt_list g q E <> [] -> inv2 (fire_set g E (unburnt_list g q E)) /\ Phi (nthZ E) + 1 <= Phi (nthZ (fire_set g E (unburnt_list g q E))).
Proof. intros [HL [Hd Hnn]] Hne. set (U := unburnt_list g q E) in *.
  destruct (burn_facts g Hwf q E Hq) as [Hleg [_ [HqU [HUV Hmem]]]]. fold U in Hleg, HqU, HUV, Hmem. split.
  - split; [apply len_fire_set|]. split; [rewrite <- Hd; apply (degD_lequiv g Hwf), lequiv_fire_set|].
    intros v Hv Hvq. destruct (mem v U) eqn:Em; [apply Hmem; now apply mem_In|].
    rewrite (nth_fire_set g) by auto. unfold fire. rewrite Em. specialize (Hnn v Hv Hvq).
    assert (0 <= zsum (fun u => if mem u U then m v u else 0) V) by (apply zsum_nonneg; intros u _; destruct (mem u U); [apply mnn|lia]). lia.
  - rewrite (Phi_ext (nthZ (fire_set g E U)) (fire V m (fun v => mem v U) (nthZ E))) by (intros v Hv; now apply (nth_fire_set g)).
    apply fire_step; [now apply mem_false|]. destruct U as [|u t] eqn:EU; [congruence|]. exists u. split; [apply HUV; now left|apply mem_In; now left]. Qed.
Theorem loop_terminates ord : forall fuel E, inv2 E -> W * d - Phi (nthZ E) < Z.of_nat fuel -> exists R B, reduce_loop fuel g q ord E = Done (R, B).
Proof. induction fuel as [|f IH]; intros E HI Hm.
  - pose proof (inv2_high E HI). lia.
  - cbn [reduce_loop]. assert (Hn : nonneg_off g q E = true) by (apply (nonneg_off_spec g); apply HI).
    rewrite (concentrate_nonneg g q ord f E Hn). destruct (unburnt_list g q E) as [|u t] eqn:EU; [eauto|].
    assert (Hne : unburnt_list g q E <> []) by (rewrite EU; discriminate). destruct (inv2_fire E HI Hne) as [A B]. rewrite EU in A, B.
    apply IH; auto. lia. Qed.
End Phase2.

(* ---------------- both phases ---------------- *)
Theorem reduce_loop_terminates D : length D = nv g -> exists fuel R B, reduce_loop fuel g q (default_ord g q) D = Done (R, B).
Proof. intros HL. set (ord := default_ord g q).
  assert (Hord : forall v, In v ord -> In v V). { intros v Hv. unfold ord, default_ord in Hv. apply filter_In in Hv. destruct Hv as [Hv _]. now apply in_rev in Hv. }
  assert (Hcov : forall v, In v V -> v <> q -> In v ord). { intros v Hv Hne. unfold ord, default_ord. apply filter_In. split; [now apply in_rev in Hv|]. apply negb_true_iff. now apply Nat.eqb_neq. }
  set (f1 := S (Z.to_nat (Phi (nthZ D) - phi_low D))).
  destruct (concentrate_terminates D HL ord Hord Hcov f1 D (inv1_init D HL)) as [D1 [C1 I1]]. { unfold f1. pose proof (inv1_low D HL D (inv1_init D HL)). lia. }
  assert (I2 : inv2 (degD g D) D1).
  { destruct I1 as [A [B _]]. split; auto. split; auto. apply (concentrate_post g Hwf) in C1; auto. tauto. }
  set (f2 := S (Z.to_nat (W * degD g D - Phi (nthZ D1)))).
  set (F := Nat.max f1 f2).
  destruct (loop_terminates (degD g D) ord F D1 I2) as [R [B HR]]. { unfold F, f2. pose proof (inv2_high (degD g D) D1 I2). lia. }
  exists F, R, B. destruct F as [|f] eqn:EF; [unfold F, f1 in EF; lia|].
  assert (Cb : concentrate (S f) g q ord D = Done D1) by (apply (concentrate_mono g q ord f1); auto; lia).
  assert (Hn : nonneg_off g q D1 = true) by (apply (nonneg_off_spec g); apply I2).
  cbn [reduce_loop] in *. rewrite Cb. rewrite (concentrate_nonneg g q ord f D1 Hn) in HR. exact HR. Qed.
End Pot.

(* ---- the statement without the auxiliary data: connected multigraphs ---- *)
Theorem ewd_q_terminates g : wfb g = true -> connected_b g = true -> forall q D, In q (Vg g) -> length D = nv g ->
  exists fuel x, ewd_q fuel g q D = Done x.
Proof. intros Hwf Hc q D Hq HL.
  destruct (levels_exist (Vg g) (Vg_nodup g) (mult g) (mult_sym g Hwf) (connected_b_connected g Hwf Hc) q Hq) as [lev [L0 [Lp Lb]]].
  destruct (reduce_loop_terminates g Hwf q Hq lev (length (Vg g)) L0 Lb Lp D HL) as [fuel [R [B H]]].
  exists fuel. unfold ewd_q. rewrite H. eauto. Qed.
Theorem connected_terminates g : wfb g = true -> connected_b g = true -> (0 < nv g)%nat -> terminates g.
Proof. intros Hwf Hc Hn D HL. apply ewd_q_terminates; auto. now apply argmin_in. Qed.
