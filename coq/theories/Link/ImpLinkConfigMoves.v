(* The configuration wrappers CFConfig.set_fire / lending_move / borrowing_move translated from /repo's current source (TranslatedImpCFConfigMoves.v,
   regenerated on every run by tools/translate_imp.py; they delegate to the translated CFDivisor methods) refine cstep of Model/Machines.v:
   set_fire additionally refuses the sink q and everything outside V - {q}, before anything is written. *)
From Coq Require Import ZArith List Lia Bool Arith Permutation.
Import ListNotations.
From CF Require Import ZSum ListAux Defs Core Config Machines GraphLink MachinesLink PyDict ImpRep TranslatedImpCFDivisor ImpLinkDiv TranslatedImpCFConfigMoves.
Open Scope Z_scope.

Definition rep_vtilde (n q : nat) (vt : list nat) : Prop := forall v, s_mem v vt = Nat.ltb v n && negb (Nat.eqb v q).

Section CM.
Variable g : graph.
Hypothesis Hwf : wfb g = true.
Variable gg : dictD.
Hypothesis Hgg : rep_graph gg g.
Variables (q : nat) (vt : list nat).
Hypothesis Hvt : rep_vtilde (nv g) q vt.
Local Notation n := (nv g).

Definition val_body (dd : dictZ) (acc_ : pyres dictZ unit) (name : nat) : pyres dictZ unit :=
  match acc_ with PyExn e_ => PyExn e_ | PyOk tt => let v := name in
  if Nat.eqb v q then PyExn dd else if negb (s_mem v vt) then PyExn dd else PyOk tt end.
Lemma val_exn dd L e : fold_left (val_body dd) L (PyExn e) = PyExn e.
Proof. induction L as [|x L IH]; [reflexivity|exact IH]. Qed.
Lemma val_loop dd : forall L, fold_left (val_body dd) L (PyOk tt) =
  if forallb (fun v => inb g v && negb (Nat.eqb v q)) L then PyOk tt else PyExn dd.
Proof. induction L as [|x L IH]; [reflexivity|]. cbn [fold_left forallb]. unfold val_body at 2. cbn zeta. rewrite (Hvt x). unfold inb.
  destruct (Nat.eqb_spec x q) as [Q|Q]; [rewrite andb_false_r; cbn [andb]; apply val_exn|]. cbn [negb]. rewrite andb_true_r.
  destruct (Nat.ltb x n); cbn [negb andb]; [exact IH|apply val_exn]. Qed.
Lemma forallb_perm {A} (p : A -> bool) l l' : Permutation l l' -> forallb p l = forallb p l'.
Proof. intros H. induction H as [|x l l' H IH|x y l|l l' l'' H1 IH1 H2 IH2]; cbn [forallb]; [reflexivity|rewrite IH; reflexivity|destruct (p x), (p y); reflexivity|congruence]. Qed.

Lemma cfg_set_fire_unfold dd so U : CFConfigMoves_set_fire q vt gg dd so U =
  match fold_left (val_body dd) (so U) (PyOk tt) with PyExn e_ => PyExn e_ | PyOk tt =>
  match CFDivisor_set_fire gg dd so U with PyExn st => PyExn st | PyOk dd' => PyOk dd' end end.
Proof. reflexivity. Qed.

Theorem config_set_fire_refines s dd so U : rep_div n dd (degs s) -> (forall l, Permutation (so l) l) ->
  match CFConfigMoves_set_fire q vt gg dd so U with
  | PyExn st => cstep g q s (MFire U) = Err /\ st = dd
  | PyOk dd' => exists s', cstep g q s (MFire U) = Ok s' /\ rep_div n dd' (degs s') /\ total s' = total s end.
Proof. intros HR Hso. rewrite cfg_set_fire_unfold, val_loop. rewrite (forallb_perm _ _ _ (Hso U)). unfold cstep, dstep.
  destruct (forallb (fun v => inb g v && negb (Nat.eqb v q)) U) eqn:E; [|split; reflexivity].
  pose proof (set_fire_refines g Hwf gg Hgg dd (degs s) so U HR Hso) as H.
  assert (EU : forallb (inb g) U = true).
  { apply forallb_forall. intros x Hx. rewrite forallb_forall in E. specialize (E x Hx). apply andb_true_iff in E. apply E. }
  rewrite EU. destruct (CFDivisor_set_fire gg dd so U) as [dd'|st].
  - destruct H as [_ H]. eexists. split; [reflexivity|]. split; [exact H|reflexivity].
  - destruct H as [H _]. congruence. Qed.
Theorem config_lending_borrowing_refines s dd v : rep_div n dd (degs s) ->
  match CFConfigMoves_lending_move gg dd v with
  | PyExn st => cstep g q s (MLend v) = Err /\ st = dd
  | PyOk dd' => exists s', cstep g q s (MLend v) = Ok s' /\ rep_div n dd' (degs s') end /\
  match CFConfigMoves_borrowing_move gg dd v with
  | PyExn st => cstep g q s (MBorrow v) = Err /\ st = dd
  | PyOk dd' => exists s', cstep g q s (MBorrow v) = Ok s' /\ rep_div n dd' (degs s') end.
Proof. intros HR. unfold CFConfigMoves_lending_move, CFConfigMoves_borrowing_move, cstep, dstep. split.
  - pose proof (lending_move_refines g Hwf gg Hgg dd (degs s) v HR) as H. destruct (CFDivisor_lending_move gg dd v) as [dd'|st].
    + destruct H as [H1 H2]. rewrite H1. eexists. split; [reflexivity|exact H2].
    + destruct H as [H1 H2]. rewrite H1. split; [reflexivity|exact H2].
  - pose proof (borrowing_move_refines g Hwf gg Hgg dd (degs s) v HR) as H. destruct (CFDivisor_borrowing_move gg dd v) as [dd'|st].
    + destruct H as [H1 H2]. rewrite H1. eexists. split; [reflexivity|exact H2].
    + destruct H as [H1 H2]. rewrite H1. split; [reflexivity|exact H2]. Qed.
End CM.

(* The readers CFConfig.get_degree_at / get_q_underlying_degree / get_degree_sum / is_non_negative, translated from the current source: they call the
   translated CFDivisor.get_degree on the wrapped divisor; the two loops run over V - {q} in an arbitrary order. *)
Section CR.
Variable g : graph.
Variables (q : nat) (vt : list nat).
Hypothesis Hvt : rep_vtilde (nv g) q vt.
Hypothesis Hnd : NoDup vt.
Local Notation n := (nv g).

Lemma vt_perm : Permutation vt (vtilde g q).
Proof. apply NoDup_Permutation; [exact Hnd|apply NoDup_filter, Vg_nodup|]. intros v. unfold vtilde. rewrite filter_In, in_Vg, <- s_mem_In, (Hvt v).
  rewrite andb_true_iff, Nat.ltb_lt. tauto. Qed.

Theorem config_get_degree_at_refines dd D v : rep_div n dd D ->
  CFConfigMoves_get_degree_at q vt dd v = if inb g v && negb (Nat.eqb v q) then PyOk (nthZ D v) else PyExn tt.
Proof. intros HR. unfold CFConfigMoves_get_degree_at. cbn zeta. rewrite (Hvt v), (get_degree_refines g dd D v HR). unfold inb.
  destruct (Nat.eqb v q); [rewrite andb_false_r; reflexivity|]. cbn [negb]. rewrite andb_true_r. destruct (Nat.ltb v n); reflexivity. Qed.
Theorem config_get_q_underlying_degree_refines dd D : rep_div n dd D ->
  CFConfigMoves_get_q_underlying_degree dd q = if inb g q then PyOk (nthZ D q) else PyExn tt.
Proof. intros HR. unfold CFConfigMoves_get_q_underlying_degree. rewrite (get_degree_refines g dd D q HR). destruct (inb g q); reflexivity. Qed.

Definition sum_body (dd : dictZ) (acc_ : pyres unit Z) (v_node : nat) : pyres unit Z :=
  match acc_ with PyExn e_ => PyExn e_ | PyOk current_sum =>
  match CFConfigMoves_get_degree_at q vt dd v_node with PyExn _ => PyExn tt | PyOk t1_ => let current_sum := (current_sum + t1_) in PyOk current_sum end end.
Lemma sum_loop dd D : rep_div n dd D -> forall L, (forall x, In x L -> In x vt) -> forall a,
  fold_left (sum_body dd) L (PyOk a) = PyOk (a + zsum (nthZ D) L).
Proof. intros HR. induction L as [|x L IH]; intros HL a; [cbn; f_equal; lia|]. cbn [fold_left]. unfold sum_body at 2.
  rewrite (config_get_degree_at_refines dd D x HR).
  assert (E : inb g x && negb (Nat.eqb x q) = true). { unfold inb. rewrite <- (Hvt x). apply s_mem_In, HL. now left. }
  rewrite E. cbn zeta. rewrite IH by (intros y Hy; apply HL; now right). f_equal. cbn [zsum]. lia. Qed.
Theorem config_get_degree_sum_refines dd D so : rep_div n dd D -> (forall l, Permutation (so l) l) ->
  CFConfigMoves_get_degree_sum vt q dd so = PyOk (zsum (nthZ D) (vtilde g q)).
Proof. intros HR Hso. change (CFConfigMoves_get_degree_sum vt q dd so) with
    (match fold_left (sum_body dd) (so vt) (PyOk 0) with PyExn e_ => PyExn e_ | PyOk current_sum => PyOk current_sum end).
  rewrite (sum_loop dd D HR) by (intros x Hx; apply (Permutation_in _ (Hso vt)); exact Hx).
  f_equal. rewrite (zsum_perm _ _ _ (Hso vt)), (zsum_perm _ _ _ vt_perm). lia. Qed.

Definition nn_body (dd : dictZ) (acc_ : pyres unit (option bool * unit)) (v_node : nat) : pyres unit (option bool * unit) :=
  match acc_ with PyExn e_ => PyExn e_ | PyOk (Some r_, tt) => PyOk (Some r_, tt) | PyOk (None, tt) =>
  match CFConfigMoves_get_degree_at q vt dd v_node with PyExn _ => PyExn tt | PyOk t1_ => if (t1_ <? 0) then PyOk (Some (false), tt) else PyOk (None, tt) end end.
Lemma nn_done dd L r : fold_left (nn_body dd) L (PyOk (Some r, tt)) = PyOk (Some r, tt).
Proof. induction L as [|x L IH]; [reflexivity|exact IH]. Qed.
Lemma nn_loop dd D : rep_div n dd D -> forall L, (forall x, In x L -> In x vt) ->
  fold_left (nn_body dd) L (PyOk (None, tt)) = if forallb (fun v => 0 <=? nthZ D v) L then PyOk (None, tt) else PyOk (Some false, tt).
Proof. intros HR. induction L as [|x L IH]; intros HL; [reflexivity|]. cbn [fold_left forallb]. unfold nn_body at 2.
  rewrite (config_get_degree_at_refines dd D x HR).
  assert (E : inb g x && negb (Nat.eqb x q) = true). { unfold inb. rewrite <- (Hvt x). apply s_mem_In, HL. now left. }
  rewrite E. destruct (Z.ltb_spec (nthZ D x) 0) as [Q|Q].
  - rewrite nn_done. destruct (Z.leb_spec 0 (nthZ D x)); [lia|reflexivity].
  - destruct (Z.leb_spec 0 (nthZ D x)); [|lia]. cbn [andb]. apply IH. intros y Hy. apply HL. now right. Qed.
Theorem config_is_non_negative_refines dd D so : rep_div n dd D -> (forall l, Permutation (so l) l) ->
  CFConfigMoves_is_non_negative vt q dd so = PyOk (forallb (fun v => 0 <=? nthZ D v) (vtilde g q)).
Proof. intros HR Hso. change (CFConfigMoves_is_non_negative vt q dd so) with
    (match fold_left (nn_body dd) (so vt) (PyOk (None, tt)) with PyExn e_ => PyExn e_ | PyOk (Some r_, tt) => PyOk r_ | PyOk (None, tt) => PyOk true end).
  rewrite (nn_loop dd D HR) by (intros x Hx; apply (Permutation_in _ (Hso vt)); exact Hx).
  rewrite (forallb_perm _ _ _ (Hso vt)), (forallb_perm _ _ _ vt_perm). destruct (forallb _ (vtilde g q)); reflexivity. Qed.
(* in the model's terms: non-negative away from q *)
Lemma nonneg_off_vtilde D : nonneg_off g q D = forallb (fun v => 0 <=? nthZ D v) (vtilde g q).
Proof. unfold nonneg_off, vtilde. induction (Vg g) as [|x L IH]; [reflexivity|]. cbn [forallb filter]. rewrite IH.
  destruct (Nat.eqb x q); cbn [negb orb forallb]; reflexivity. Qed.
(* get_config_degrees_as_dict, get_q_vertex_name, get_v_tilde_names (translated from the current source): the dictionary {v: D(v) for v in V - {q}} - exactly one entry per
   vertex other than q, none for q, never refused - in whatever order the set is iterated; the other two return q and the set V - {q} themselves *)
Lemma s_mem_perm' v l l' : Permutation l l' -> s_mem v l = s_mem v l'.
Proof. intros H. apply Bool.eq_true_iff_eq. rewrite !s_mem_In. split; apply Permutation_in; [exact H|apply Permutation_sym; exact H]. Qed.
Definition asdict_body (dd : list (nat * Z)) (acc_ : pyres unit (list (nat * Z))) (v : nat) : pyres unit (list (nat * Z)) :=
  match acc_ with PyExn e_ => PyExn e_ | PyOk d_ =>
  match CFConfigMoves_get_degree_at q vt dd v with PyExn _ => PyExn tt | PyOk t1_ => PyOk (d_set v t1_ d_) end end.
Lemma asdict_loop dd D : rep_div n dd D -> forall L, (forall v, In v L -> s_mem v vt = true) -> forall acc,
  exists r, fold_left (asdict_body dd) L (PyOk acc) = PyOk r /\ forall u, d_find u r = if s_mem u L then Some (nthZ D u) else d_find u acc.
Proof. intros HR. induction L as [|x L IH]; intros Hin acc; [exists acc; split; [reflexivity|intros u; reflexivity]|]. cbn [fold_left]. unfold asdict_body at 2.
  rewrite (config_get_degree_at_refines dd D x HR). pose proof (Hin x (or_introl eq_refl)) as Hx. rewrite (Hvt x) in Hx. unfold inb. rewrite Hx.
  destruct (IH (fun v Hv => Hin v (or_intror Hv)) (d_set x (nthZ D x) acc)) as (r & E & F). exists r. split; [exact E|]. intros u. rewrite (F u). unfold s_mem. cbn [existsb]. fold (s_mem u L).
  destruct (s_mem u L); [rewrite orb_true_r; reflexivity|]. rewrite orb_false_r, d_find_set. destruct (Nat.eqb_spec u x) as [->|P]; reflexivity. Qed.
Theorem config_as_dict_refines dd D so : rep_div n dd D -> (forall l, Permutation (so l) l) ->
  exists r, CFConfigMoves_get_config_degrees_as_dict vt q dd so = PyOk r /\ forall u, d_find u r = if inb g u && negb (Nat.eqb u q) then Some (nthZ D u) else None.
Proof. intros HR Hso. unfold CFConfigMoves_get_config_degrees_as_dict. fold (asdict_body dd).
  destruct (asdict_loop dd D HR (so vt) (fun v Hv => proj2 (s_mem_In v vt) (Permutation_in _ (Hso vt) Hv)) []) as (r & E & F). unfold dictZ in *. rewrite E. exists r. split; [reflexivity|].
  intros u. rewrite (F u), (s_mem_perm' u _ _ (Hso vt)), (Hvt u). unfold inb. reflexivity. Qed.
Theorem config_name_readers_refine : CFConfigMoves_get_q_vertex_name q = q /\ CFConfigMoves_get_v_tilde_names vt = vt.
Proof. split; reflexivity. Qed.
End CR.
(* the hypotheses are met: V - {q} itself represents V - {q} *)
Lemma rep_vtilde_of g q : rep_vtilde (nv g) q (vtilde g q) /\ NoDup (vtilde g q).
Proof. split; [|apply NoDup_filter, Vg_nodup]. intros v. apply Bool.eq_true_iff_eq. rewrite s_mem_In. unfold vtilde. rewrite filter_In, in_Vg, andb_true_iff, Nat.ltb_lt. tauto. Qed.

(* the constructor CFConfig(divisor, q), translated from the current source: it raises exactly when q is not a vertex of the divisor's graph; otherwise the new
   configuration remembers q and V - {q} - which is what the hypotheses rep_vtilde / NoDup of the theorems above ask for *)
Lemma s_mem_filter p v l : s_mem v (filter p l) = s_mem v l && p v.
Proof. unfold s_mem. induction l as [|a l IH]; [reflexivity|]. cbn [filter existsb]. destruct (p a) eqn:Pa; cbn [existsb]; rewrite IH.
  - destruct (Nat.eqb_spec v a) as [->|Q]; cbn [orb]; [rewrite Pa; reflexivity|reflexivity].
  - destruct (Nat.eqb_spec v a) as [->|Q]; cbn [orb]; [rewrite Pa, andb_false_r; destruct (existsb (Nat.eqb a) l); reflexivity|reflexivity]. Qed.
Theorem config_ctor_refines n vs dd q : rep_vset n vs -> NoDup vs ->
  match CFConfigMoves___init__ vs dd q with
  | PyOk (qv, vt) => Nat.ltb q n = true /\ qv = q /\ rep_vtilde n q vt /\ NoDup vt
  | PyExn _ => Nat.ltb q n = false end.
Proof. intros Hvs Hnd. unfold CFConfigMoves___init__. cbn zeta. rewrite (Hvs q). destruct (Nat.ltb q n); cbn [negb]; [|reflexivity].
  split; [reflexivity|]. split; [reflexivity|]. split; [|apply NoDup_filter; exact Hnd]. intros v. rewrite s_mem_filter, (Hvs v). reflexivity. Qed.
