(* The configuration wrappers CFConfig.set_fire / lending_move / borrowing_move translated from /repo's current source (TranslatedImpCFConfigMoves.v,
   regenerated on every run by tools/translate_imp.py; they delegate to the translated CFDivisor methods) refine cstep of Model/Machines.v:
   set_fire additionally refuses the sink q and everything outside V - {q}, before anything is written. *)
From Coq Require Import ZArith List Lia Bool Arith Permutation.
Import ListNotations.
From CF Require Import ZSum ListAux Defs Core Machines GraphLink MachinesLink PyDict ImpRep TranslatedImpCFDivisor ImpLinkDiv TranslatedImpCFConfigMoves.
Open Scope Z_scope.

Definition rep_vtilde (n q : nat) (vt : list nat) : Prop := forall v, s_mem v vt = Nat.ltb v n && negb (Nat.eqb v q).

Section CM.
Variable g : graph.
Hypothesis Hwf : wfb g = true.
Variable gg : dictD.
Hypothesis Hgg : rep_graph gg g.
Variables (q : nat) (vt : list nat).
Hypothesis Hvt : rep_vtilde (nv g) q vt.
Local Notation n := (nv g).

Definition val_body (dd : dictZ) (acc_ : pyres dictZ unit) (name : nat) : pyres dictZ unit :=
  match acc_ with PyExn e_ => PyExn e_ | PyOk tt => let v := name in
  if Nat.eqb v q then PyExn dd else if negb (s_mem v vt) then PyExn dd else PyOk tt end.
Lemma val_exn dd L e : fold_left (val_body dd) L (PyExn e) = PyExn e.
Proof. induction L as [|x L IH]; [reflexivity|exact IH]. Qed.
Lemma val_loop dd : forall L, fold_left (val_body dd) L (PyOk tt) =
  if forallb (fun v => inb g v && negb (Nat.eqb v q)) L then PyOk tt else PyExn dd.
Proof. induction L as [|x L IH]; [reflexivity|]. cbn [fold_left forallb]. unfold val_body at 2. cbn zeta. rewrite (Hvt x). unfold inb.
  destruct (Nat.eqb_spec x q) as [Q|Q]; [rewrite andb_false_r; cbn [andb]; apply val_exn|]. cbn [negb]. rewrite andb_true_r.
  destruct (Nat.ltb x n); cbn [negb andb]; [exact IH|apply val_exn]. Qed.
Lemma forallb_perm {A} (p : A -> bool) l l' : Permutation l l' -> forallb p l = forallb p l'.
Proof. intros H. induction H as [|x l l' H IH|x y l|l l' l'' H1 IH1 H2 IH2]; cbn [forallb]; [reflexivity|rewrite IH; reflexivity|destruct (p x), (p y); reflexivity|congruence]. Qed.

Lemma cfg_set_fire_unfold dd so U : CFConfigMoves_set_fire q vt gg dd so U =
  match fold_left (val_body dd) (so U) (PyOk tt) with PyExn e_ => PyExn e_ | PyOk tt =>
  match CFDivisor_set_fire gg dd so U with PyExn st => PyExn st | PyOk dd' => PyOk dd' end end.
Proof. reflexivity. Qed.

Theorem config_set_fire_refines s dd so U : rep_div n dd (degs s) -> (forall l, Permutation (so l) l) ->
  match CFConfigMoves_set_fire q vt gg dd so U with
  | PyExn st => cstep g q s (MFire U) = Err /\ st = dd
  | PyOk dd' => exists s', cstep g q s (MFire U) = Ok s' /\ rep_div n dd' (degs s') /\ total s' = total s end.
Proof. intros HR Hso. rewrite cfg_set_fire_unfold, val_loop. rewrite (forallb_perm _ _ _ (Hso U)). unfold cstep, dstep.
  destruct (forallb (fun v => inb g v && negb (Nat.eqb v q)) U) eqn:E; [|split; reflexivity].
  pose proof (set_fire_refines g Hwf gg Hgg dd (degs s) so U HR Hso) as H.
  assert (EU : forallb (inb g) U = true).
  { apply forallb_forall. intros x Hx. rewrite forallb_forall in E. specialize (E x Hx). apply andb_true_iff in E. apply E. }
  rewrite EU. destruct (CFDivisor_set_fire gg dd so U) as [dd'|st].
  - destruct H as [_ H]. eexists. split; [reflexivity|]. split; [exact H|reflexivity].
  - destruct H as [H _]. congruence. Qed.
Theorem config_lending_borrowing_refines s dd v : rep_div n dd (degs s) ->
  match CFConfigMoves_lending_move gg dd v with
  | PyExn st => cstep g q s (MLend v) = Err /\ st = dd
  | PyOk dd' => exists s', cstep g q s (MLend v) = Ok s' /\ rep_div n dd' (degs s') end /\
  match CFConfigMoves_borrowing_move gg dd v with
  | PyExn st => cstep g q s (MBorrow v) = Err /\ st = dd
  | PyOk dd' => exists s', cstep g q s (MBorrow v) = Ok s' /\ rep_div n dd' (degs s') end.
Proof. intros HR. unfold CFConfigMoves_lending_move, CFConfigMoves_borrowing_move, cstep, dstep. split.
  - pose proof (lending_move_refines g Hwf gg Hgg dd (degs s) v HR) as H. destruct (CFDivisor_lending_move gg dd v) as [dd'|st].
    + destruct H as [H1 H2]. rewrite H1. eexists. split; [reflexivity|exact H2].
    + destruct H as [H1 H2]. rewrite H1. split; [reflexivity|exact H2].
  - pose proof (borrowing_move_refines g Hwf gg Hgg dd (degs s) v HR) as H. destruct (CFDivisor_borrowing_move gg dd v) as [dd'|st].
    + destruct H as [H1 H2]. rewrite H1. eexists. split; [reflexivity|exact H2].
    + destruct H as [H1 H2]. rewrite H1. split; [reflexivity|exact H2]. Qed.
End CM.
