(* CFDivisor methods translated from /repo's current source (TranslatedImpCFDivisor.v, regenerated on every run by tools/translate_imp.py) refine the model:
   lending_move / firing_move / borrowing_move / chip_transfer / set_fire / is_effective / get_degree against lend / borrow / transfer / fire_set / is_effective_b. *)
From Coq Require Import ZArith List Lia Bool Arith Permutation.
Import ListNotations.
From CF Require Import ZSum ListAux Defs Core Machines GraphLink MachinesLink PyDict ImpRep TranslatedImpCFDivisor.
Open Scope Z_scope.

(* ---- the loop of lending_move / borrowing_move ---- *)
Section MoveLoop.
Variables (op1 op2 : Z -> Z -> Z) (sg : Z).
Hypothesis Hop1 : forall t x, op1 t x = t + sg * x.
Hypothesis Hop2 : forall t x, op2 t x = t - sg * x.
Variables (n vertex : nat) (neighbors : dictZ) (xval : nat -> Z).
Definition move_body (acc_ : pyres dictZ dictZ) (neighbor : nat) : pyres dictZ dictZ :=
  match acc_ with PyExn e_ => PyExn e_ | PyOk self_degrees =>
  match d_find neighbor neighbors with None => PyExn self_degrees | Some t2_ => let valence := t2_ in
  match d_find neighbor self_degrees with None => PyExn self_degrees | Some t3_ => let self_degrees := d_set neighbor (op1 t3_ valence) self_degrees in
  match d_find vertex self_degrees with None => PyExn self_degrees | Some t4_ => let self_degrees := d_set vertex (op2 t4_ valence) self_degrees in
  PyOk self_degrees end end end end.
Lemma move_loop : forall ks dd f, NoDup ks -> (forall w, In w ks -> w <> vertex /\ (w < n)%nat /\ d_find w neighbors = Some (xval w)) -> (vertex < n)%nat ->
  NoDup (d_keys dd) -> (forall u, d_find u dd = if Nat.ltb u n then Some (f u) else None) ->
  exists dd', fold_left move_body ks (PyOk dd) = PyOk dd' /\ NoDup (d_keys dd') /\
    forall u, d_find u dd' = if Nat.ltb u n then Some (if Nat.eqb u vertex then f u - sg * zsum xval ks else f u + (if mem u ks then sg * xval u else 0)) else None.
Proof. induction ks as [|w ks IH]; intros dd f Hnd Hks Hv Hdk Hf.
  - exists dd. split; [reflexivity|]. split; [exact Hdk|]. intros u. rewrite Hf. destruct (Nat.ltb u n); [|reflexivity]. cbn [zsum mem existsb]. destruct (Nat.eqb u vertex); f_equal; lia.
  - inversion Hnd as [|? ? Hw Hnd']; subst. destruct (Hks w (or_introl eq_refl)) as (Hwv & Hwn & Hwx).
    assert (Lw : Nat.ltb w n = true) by (apply Nat.ltb_lt; exact Hwn). assert (Lv : Nat.ltb vertex n = true) by (apply Nat.ltb_lt; exact Hv).
    cbn [fold_left]. unfold move_body at 2. rewrite Hwx. cbn zeta. rewrite (Hf w), Lw.
    rewrite d_find_set_other by (intros Q; apply Hwv; symmetry; exact Q). rewrite (Hf vertex), Lv.
    set (dd2 := d_set vertex (op2 (f vertex) (xval w)) (d_set w (op1 (f w) (xval w)) dd)).
    set (f2 := fun u => if Nat.eqb u vertex then f vertex - sg * xval w else if Nat.eqb u w then f w + sg * xval w else f u).
    assert (M1 : d_mem w dd = true) by (unfold d_mem; rewrite (Hf w), Lw; reflexivity).
    assert (M2 : d_mem vertex (d_set w (op1 (f w) (xval w)) dd) = true).
    { unfold d_mem. rewrite d_find_set_other by (intros Q; apply Hwv; symmetry; exact Q). rewrite (Hf vertex), Lv. reflexivity. }
    destruct (IH dd2 f2 Hnd') as (dd' & F & K & L).
    + intros x Hx. apply Hks. now right.
    + exact Hv.
    + unfold dd2. rewrite d_keys_set_present by exact M2. rewrite d_keys_set_present by exact M1. exact Hdk.
    + intros u. unfold dd2, f2. rewrite !d_find_set, Hop1, Hop2. destruct (Nat.eqb_spec u vertex) as [Q|Q]; [subst u; rewrite Lv; reflexivity|].
      destruct (Nat.eqb_spec u w) as [Q'|Q']; [subst u; rewrite Lw; reflexivity|]. apply Hf.
    + exists dd'. split; [exact F|]. split; [exact K|]. intros u. rewrite L. destruct (Nat.ltb u n); [|reflexivity]. f_equal. unfold f2. cbn [zsum].
      destruct (Nat.eqb_spec u vertex) as [Q|Q]; [rewrite Q; lia|]. unfold mem. cbn [existsb]. fold (mem u ks). destruct (Nat.eqb_spec u w) as [Q'|Q'].
      * subst u. assert (E : mem w ks = false) by (apply mem_false; exact Hw). rewrite E. cbn [orb]. lia.
      * cbn [orb]. reflexivity. Qed.
End MoveLoop.

Section G.
Variable g : graph.
Hypothesis Hwf : wfb g = true.
Variable gg : dictD.
Hypothesis Hgg : rep_graph gg g.
Local Notation n := (nv g).

Lemma row_of v : (v < n)%nat -> exists row, d_find v gg = Some row /\ rep_row g v row.
Proof. intros Hv. pose proof (Hgg v) as H. assert (E : Nat.ltb v n = true) by (apply Nat.ltb_lt; exact Hv). rewrite E in H. exact H. Qed.
Lemma no_row v : (n <= v)%nat -> d_find v gg = None.
Proof. intros Hv. pose proof (Hgg v) as H. destruct (Nat.ltb_spec v n); [lia|exact H]. Qed.
Lemma row_keys v row w : (v < n)%nat -> rep_row g v row -> In w (d_keys row) -> w <> v /\ (w < n)%nat /\ d_find w row = Some (mult g v w) /\ 0 < mult g v w.
Proof. intros Hv [_ Hr] Hin. apply d_find_in_keys in Hin. unfold d_mem in Hin. rewrite Hr in Hin. destruct (Z.ltb_spec 0 (mult g v w)) as [P|P]; [|discriminate].
  split; [intros Q; subst w; rewrite (mult_diag g Hwf) in P; lia|]. split.
  - destruct (Nat.lt_ge_cases w n) as [A|A]; [exact A|]. rewrite (mult_out_r g Hwf) in P by exact A. lia.
  - split; [|exact P]. rewrite Hr. destruct (Z.ltb_spec 0 (mult g v w)); [reflexivity|lia]. Qed.
Lemma row_sum v row : (v < n)%nat -> rep_row g v row -> zsum (mult g v) (d_keys row) = valg g v.
Proof. intros Hv Hr. unfold valg, val. apply zsum_support; [apply Hr|apply Vg_nodup| |].
  - intros w Hw. apply in_seq. destruct (row_keys v row w Hv Hr Hw) as (_ & A & _). lia.
  - intros u _ Hu. destruct Hr as [_ Hr]. assert (E : d_mem u row = false).
    { destruct (d_mem u row) eqn:E; [|reflexivity]. exfalso. apply Hu. apply d_find_in_keys. exact E. }
    unfold d_mem in E. rewrite Hr in E. destruct (Z.ltb_spec 0 (mult g v u)); [discriminate|]. pose proof (mult_nonneg g Hwf v u). lia. Qed.
Lemma not_in_row v row u : (v < n)%nat -> rep_row g v row -> mem u (d_keys row) = false -> mult g v u = 0.
Proof. intros Hv [_ Hr] E. assert (E' : d_mem u row = false).
  { destruct (d_mem u row) eqn:Q; [|reflexivity]. apply d_find_in_keys in Q. apply mem_In in Q. congruence. }
  unfold d_mem in E'. rewrite Hr in E'. destruct (Z.ltb_spec 0 (mult g v u)); [discriminate|]. pose proof (mult_nonneg g Hwf v u). lia. Qed.

(* lending_move (= firing_move) and borrowing_move *)
Theorem lending_move_refines dd D v : rep_div n dd D ->
  match CFDivisor_lending_move gg dd v with PyExn st => inb g v = false /\ st = dd | PyOk dd' => inb g v = true /\ rep_div n dd' (lend g D v) end.
Proof. intros (HL & Hk & Hf). unfold CFDivisor_lending_move, inb. destruct (Nat.ltb_spec v n) as [Hv|Hv].
  - destruct (row_of v Hv) as (row & Er & Rr). unfold d_mem. rewrite Er. cbn [negb].
    destruct (move_loop Z.add Z.sub 1 ltac:(intros; lia) ltac:(intros; lia) n v row (mult g v) (d_keys row) dd (nthZ D)) as (dd' & F & K & L).
    + apply Rr.
    + intros w Hw. destruct (row_keys v row w Hv Rr Hw) as (A & B & C & _). auto.
    + exact Hv.
    + exact Hk.
    + exact Hf.
    + unfold move_body in F. cbn beta iota zeta in F. cbn beta iota zeta. unfold dictZ in *. rewrite F. split; [reflexivity|]. unfold lend. apply rep_div_intro; [exact K|]. intros u. rewrite L.
      destruct (Nat.ltb u n); [|reflexivity]. f_equal. destruct (Nat.eqb_spec u v) as [Q|Q]; [subst u; rewrite (row_sum v row Hv Rr); lia|].
      destruct (mem u (d_keys row)) eqn:E; [lia|]. rewrite (not_in_row v row u Hv Rr E). lia.
  - unfold d_mem. rewrite (no_row v Hv). split; reflexivity. Qed.
Theorem borrowing_move_refines dd D v : rep_div n dd D ->
  match CFDivisor_borrowing_move gg dd v with PyExn st => inb g v = false /\ st = dd | PyOk dd' => inb g v = true /\ rep_div n dd' (borrow g D v) end.
Proof. intros (HL & Hk & Hf). unfold CFDivisor_borrowing_move, inb. destruct (Nat.ltb_spec v n) as [Hv|Hv].
  - destruct (row_of v Hv) as (row & Er & Rr). unfold d_mem. rewrite Er. cbn [negb].
    destruct (move_loop Z.sub Z.add (-1) ltac:(intros; lia) ltac:(intros; lia) n v row (mult g v) (d_keys row) dd (nthZ D)) as (dd' & F & K & L).
    + apply Rr.
    + intros w Hw. destruct (row_keys v row w Hv Rr Hw) as (A & B & C & _). auto.
    + exact Hv.
    + exact Hk.
    + exact Hf.
    + unfold move_body in F. cbn beta iota zeta in F. cbn beta iota zeta. unfold dictZ in *. rewrite F. split; [reflexivity|]. unfold borrow. apply rep_div_intro; [exact K|]. intros u. rewrite L.
      destruct (Nat.ltb u n); [|reflexivity]. f_equal. destruct (Nat.eqb_spec u v) as [Q|Q]; [subst u; rewrite (row_sum v row Hv Rr); lia|].
      destruct (mem u (d_keys row)) eqn:E; [lia|]. rewrite (not_in_row v row u Hv Rr E). lia.
  - unfold d_mem. rewrite (no_row v Hv). split; reflexivity. Qed.

(* chip_transfer *)
Theorem chip_transfer_refines dd D a b k : rep_div n dd D ->
  match CFDivisor_chip_transfer dd a b k with
  | PyExn st => ((k <=? 0) || negb (inb g a && inb g b) = true) /\ st = dd
  | PyOk dd' => ((k <=? 0) || negb (inb g a && inb g b) = false) /\ rep_div n dd' (transfer g D a b k) end.
Proof. intros (HL & Hk & Hf). unfold CFDivisor_chip_transfer, inb. destruct (Z.leb_spec k 0) as [Hk0|Hk0]; [split; reflexivity|]. cbn [orb].
  unfold d_mem. rewrite (Hf a). destruct (Nat.ltb_spec a n) as [Ha|Ha]; cbn [negb andb]; [|split; reflexivity].
  rewrite (Hf b). destruct (Nat.ltb_spec b n) as [Hb|Hb]; cbn [negb]; [|split; reflexivity].
  rewrite d_find_set, (Hf b). assert (Lb : Nat.ltb b n = true) by (apply Nat.ltb_lt; exact Hb). assert (La : Nat.ltb a n = true) by (apply Nat.ltb_lt; exact Ha).
  assert (M1 : d_mem a dd = true) by (unfold d_mem; rewrite (Hf a), La; reflexivity).
  destruct (Nat.eqb_spec b a) as [Q|Q].
  - subst b. split; [reflexivity|]. unfold transfer. apply rep_div_intro.
    + rewrite !d_keys_set_present; [exact Hk|exact M1|]. unfold d_mem. rewrite d_find_set_same. reflexivity.
    + intros u. rewrite !d_find_set. destruct (Nat.eqb_spec u a) as [Q|Q]; [subst u; rewrite La; f_equal; lia|]. rewrite Hf. destruct (Nat.ltb u n); [f_equal; lia|reflexivity].
  - rewrite Lb. split; [reflexivity|]. unfold transfer. apply rep_div_intro.
    + rewrite !d_keys_set_present; [exact Hk|exact M1|]. unfold d_mem. rewrite d_find_set_other by exact Q. rewrite (Hf b), Lb. reflexivity.
    + intros u. rewrite !d_find_set. destruct (Nat.eqb_spec u b) as [Q1|Q1].
      * subst u. rewrite Lb. destruct (Nat.eqb_spec b a); [contradiction|]. f_equal. lia.
      * destruct (Nat.eqb_spec u a) as [Q2|Q2]; [subst u; rewrite La; f_equal; lia|]. rewrite Hf. destruct (Nat.ltb u n); [f_equal; lia|reflexivity]. Qed.

(* is_effective and get_degree *)
Theorem is_effective_refines dd D : rep_div n dd D -> CFDivisor_is_effective dd = is_effective_b g D.
Proof. intros (HL & Hk & Hf). unfold CFDivisor_is_effective, is_effective_b.
  destruct (existsb (fun kv_ : nat * Z => let '(_, degree) := kv_ in degree <? 0) dd) eqn:E.
  - apply existsb_exists in E. destruct E as [[k x] [Hin Hx]]. apply (d_in_find k x dd Hk) in Hin. rewrite Hf in Hin.
    destruct (Nat.ltb_spec k n) as [A|A]; [|discriminate]. inversion Hin; subst x. symmetry. apply not_true_is_false. intros Q. rewrite forallb_forall in Q.
    specialize (Q k ltac:(apply in_seq; lia)). apply Z.leb_le in Q. apply Z.ltb_lt in Hx. lia.
  - symmetry. apply forallb_forall. intros v Hv. apply in_seq in Hv. apply Z.leb_le.
    destruct (Z_lt_le_dec (nthZ D v) 0) as [L|L]; [exfalso|exact L]. assert (In (v, nthZ D v) dd).
    { apply d_find_some_in. rewrite Hf. destruct (Nat.ltb_spec v n); [reflexivity|lia]. }
    assert (existsb (fun kv_ : nat * Z => let '(_, degree) := kv_ in degree <? 0) dd = true); [|congruence].
    apply existsb_exists. exists (v, nthZ D v). split; [assumption|]. apply Z.ltb_lt. exact L. Qed.
Theorem get_degree_refines dd D v : rep_div n dd D -> CFDivisor_get_degree dd v = if inb g v then PyOk (nthZ D v) else PyExn tt.
Proof. intros (HL & Hk & Hf). unfold CFDivisor_get_degree, inb, d_mem. rewrite (Hf v). destruct (Nat.ltb v n); reflexivity. Qed.
End G.

(* ---- CFDivisor.set_fire ---- *)
Section Fire.
Variable g : graph.
Hypothesis Hwf : wfb g = true.
Variable gg : dictD.
Hypothesis Hgg : rep_graph gg g.
Local Notation n := (nv g).

Lemma chip_transfer_ok dd D a b k : rep_div n dd D -> 0 < k -> (a < n)%nat -> (b < n)%nat ->
  exists dd', CFDivisor_chip_transfer dd a b k = PyOk dd' /\ rep_div n dd' (transfer g D a b k).
Proof. intros HR Hk Ha Hb. pose proof (chip_transfer_refines g dd D a b k HR) as H. destruct (CFDivisor_chip_transfer dd a b k) as [dd'|].
  - exists dd'. split; [reflexivity|apply H].
  - exfalso. destruct H as [H _]. unfold inb in H. destruct (Z.leb_spec k 0); [lia|]. destruct (Nat.ltb_spec a n); [|lia]. destruct (Nat.ltb_spec b n); [|lia]. discriminate. Qed.
Lemma nthZ_transfer D a b k u : (u < n)%nat -> nthZ (transfer g D a b k) u = nthZ D u - (if Nat.eqb u a then k else 0) + (if Nat.eqb u b then k else 0).
Proof. intros Hu. unfold transfer. rewrite nthZ_tab by exact Hu. reflexivity. Qed.

Variable F : list nat.
Definition inner_body (v : nat) (acc_ : pyres dictZ dictZ) (kv_ : nat * Z) : pyres dictZ dictZ :=
  match acc_ with PyExn e_ => PyExn e_ | PyOk self_degrees => let '(neighbor_vertex, valence) := kv_ in
  if negb (s_mem neighbor_vertex F) then match CFDivisor_chip_transfer self_degrees v neighbor_vertex valence with PyExn self_degrees => PyExn self_degrees | PyOk self_degrees => PyOk self_degrees end
  else PyOk self_degrees end.
Definition inner_model (v : nat) (row : dictZ) (D : list Z) : list Z :=
  fold_left (fun D kv => if s_mem (fst kv) F then D else transfer g D v (fst kv) (snd kv)) row D.
Lemma inner_loop v : (v < n)%nat -> forall row dd D, rep_div n dd D -> (forall w x, In (w, x) row -> (w < n)%nat /\ 0 < x) ->
  exists dd', fold_left (inner_body v) row (PyOk dd) = PyOk dd' /\ rep_div n dd' (inner_model v row D).
Proof. intros Hv. induction row as [|[w x] row IH]; intros dd D HR Hrow.
  - exists dd. split; [reflexivity|exact HR].
  - cbn [fold_left]. unfold inner_body at 2. unfold inner_model. cbn [fold_left fst snd]. destruct (s_mem w F) eqn:E; cbn [negb].
    + apply IH; [exact HR|]. intros w' x' H'. apply Hrow. now right.
    + destruct (Hrow w x (or_introl eq_refl)) as [Hw Hx]. destruct (chip_transfer_ok dd D v w x HR Hx Hv Hw) as (dd1 & E1 & R1). rewrite E1.
      apply IH; [exact R1|]. intros w' x' H'. apply Hrow. now right. Qed.
Lemma inner_model_length v row : forall D, length D = n -> length (inner_model v row D) = n.
Proof. induction row as [|[w x] row IH]; intros D HL; [exact HL|]. unfold inner_model. cbn [fold_left fst snd]. destruct (s_mem w F); [apply IH; exact HL|].
  apply IH. unfold transfer. apply tab_length. Qed.
Lemma inner_model_nth v row u : (u < n)%nat -> forall D, nthZ (inner_model v row D) u =
  nthZ D u - (if Nat.eqb u v then zsum (fun kv => if s_mem (fst kv) F then 0 else snd kv) row else 0)
           + zsum (fun kv => if s_mem (fst kv) F then 0 else if Nat.eqb (fst kv) u then snd kv else 0) row.
Proof. intros Hu. unfold inner_model. induction row as [|[w x] row IH]; intros D.
  - cbn [fold_left zsum]. destruct (Nat.eqb u v); lia.
  - cbn [fold_left fst snd zsum]. destruct (s_mem w F).
    + rewrite IH. destruct (Nat.eqb u v); lia.
    + rewrite IH, nthZ_transfer by exact Hu. rewrite (Nat.eqb_sym w u). destruct (Nat.eqb u v), (Nat.eqb u w); lia. Qed.

Definition rowf (v : nat) : dictZ := match d_find v gg with Some r => r | None => [] end.
Definition outer_body (acc_ : pyres dictZ dictZ) (vertex : nat) : pyres dictZ dictZ :=
  match acc_ with PyExn e_ => PyExn e_ | PyOk self_degrees =>
  match d_find vertex gg with None => PyExn self_degrees | Some t1_ => let neighbors := t1_ in
  match fold_left (inner_body vertex) neighbors (PyOk self_degrees) with PyExn e_ => PyExn e_ | PyOk self_degrees => PyOk self_degrees end end end.
Definition outer_model (Fl : list nat) (D : list Z) : list Z := fold_left (fun D v => inner_model v (rowf v) D) Fl D.

Lemma rowf_facts v : (v < n)%nat -> d_find v gg = Some (rowf v) /\ rep_row g v (rowf v).
Proof. intros Hv. pose proof (Hgg v) as H. assert (E : Nat.ltb v n = true) by (apply Nat.ltb_lt; exact Hv). rewrite E in H. destruct H as (row & Er & Rr).
  unfold rowf. rewrite Er. split; [reflexivity|exact Rr]. Qed.
Lemma row_entries v w x : (v < n)%nat -> In (w, x) (rowf v) -> (w < n)%nat /\ 0 < x /\ x = mult g v w /\ w <> v.
Proof. intros Hv Hin. destruct (rowf_facts v Hv) as [_ Rr]. pose proof Rr as [Nd Fr]. pose proof (d_in_find w x (rowf v) Nd Hin) as E.
  assert (Hk : In w (d_keys (rowf v))) by (apply in_map_iff; exists (w, x); split; [reflexivity|exact Hin]).
  destruct (row_keys g Hwf v (rowf v) w Hv Rr Hk) as (A & B & C & P). rewrite C in E. inversion E. subst x. auto. Qed.
Lemma outer_loop : forall Fl dd D, rep_div n dd D -> (forall v, In v Fl -> (v < n)%nat) ->
  exists dd', fold_left outer_body Fl (PyOk dd) = PyOk dd' /\ rep_div n dd' (outer_model Fl D).
Proof. induction Fl as [|v Fl IH]; intros dd D HR HF.
  - exists dd. split; [reflexivity|exact HR].
  - assert (Hv : (v < n)%nat) by (apply HF; now left). destruct (rowf_facts v Hv) as [Er Rr]. cbn [fold_left]. unfold outer_body at 2. rewrite Er. cbn zeta.
    destruct (inner_loop v Hv (rowf v) dd D HR) as (dd1 & E1 & R1).
    { intros w x Hin. destruct (row_entries v w x Hv Hin) as (A & B & _). auto. }
    rewrite E1. unfold outer_model. cbn [fold_left]. apply IH; [exact R1|]. intros v' H'. apply HF. now right. Qed.
Lemma outer_model_length Fl : forall D, length D = n -> length (outer_model Fl D) = n.
Proof. induction Fl as [|v Fl IH]; intros D HL; [exact HL|]. unfold outer_model. cbn [fold_left]. apply IH. apply inner_model_length. exact HL. Qed.
Definition Sv (v : nat) : Z := zsum (fun kv => if s_mem (fst kv) F then 0 else snd kv) (rowf v).
Definition Rv (v u : nat) : Z := zsum (fun kv => if s_mem (fst kv) F then 0 else if Nat.eqb (fst kv) u then snd kv else 0) (rowf v).
Lemma outer_model_nth u : (u < n)%nat -> forall Fl D, nthZ (outer_model Fl D) u =
  nthZ D u - zsum (fun v => if Nat.eqb u v then Sv v else 0) Fl + zsum (fun v => Rv v u) Fl.
Proof. intros Hu. unfold outer_model. induction Fl as [|v Fl IH]; intros D; [cbn [fold_left zsum]; lia|]. cbn [fold_left zsum].
  rewrite IH, inner_model_nth by exact Hu. unfold Sv, Rv. lia. Qed.

(* the two sums, in terms of the multigraph *)
Lemma Sv_eq v : (v < n)%nat -> Sv v = zsum (fun x => if mem x F then 0 else mult g v x) (Vg g).
Proof. intros Hv. destruct (rowf_facts v Hv) as [_ Rr]. unfold Sv.
  rewrite (zsum_ext _ (fun kv => (fun w => if mem w F then 0 else mult g v w) (fst kv))).
  - rewrite <- (zsum_map (fun w => if mem w F then 0 else mult g v w) fst). fold (d_keys (rowf v)). apply zsum_support; [apply Rr|apply Vg_nodup| |].
    + intros w Hw. apply in_seq. destruct (row_keys g Hwf v (rowf v) w Hv Rr Hw) as (_ & A & _). lia.
    + intros u _ Hu. rewrite (not_in_row g Hwf v (rowf v) u Hv Rr) by (apply mem_false; exact Hu). destruct (mem u F); reflexivity.
  - intros [w x] Hin. cbn [fst snd]. destruct (row_entries v w x Hv Hin) as (_ & _ & -> & _). reflexivity. Qed.
Lemma Rv_eq v u : (v < n)%nat -> (u < n)%nat -> Rv v u = if mem u F then 0 else mult g v u.
Proof. intros Hv Hu. destruct (rowf_facts v Hv) as [_ Rr]. unfold Rv.
  rewrite (zsum_ext _ (fun kv => (fun w => if Nat.eqb w u then (if mem u F then 0 else mult g v u) else 0) (fst kv))).
  - rewrite <- (zsum_map (fun w => if Nat.eqb w u then (if mem u F then 0 else mult g v u) else 0) fst). fold (d_keys (rowf v)).
    destruct (mem u (d_keys (rowf v))) eqn:E.
    + apply zsum_indicator; [apply Rr|apply mem_In; exact E].
    + rewrite zsum_indicator_notin by (apply mem_false; exact E). rewrite (not_in_row g Hwf v (rowf v) u Hv Rr E). destruct (mem u F); reflexivity.
  - intros [w x] Hin. cbn [fst snd]. destruct (row_entries v w x Hv Hin) as (_ & _ & -> & _). destruct (Nat.eqb_spec w u) as [->|Q]; [reflexivity|]. destruct (s_mem w F); reflexivity. Qed.
End Fire.

Section SetFire.
Variable g : graph.
Hypothesis Hwf : wfb g = true.
Variable gg : dictD.
Hypothesis Hgg : rep_graph gg g.
Local Notation n := (nv g).

Variable dd0 : dictZ.
Definition collect_body (acc_ : pyres dictZ (list nat)) (name : nat) : pyres dictZ (list nat) :=
  match acc_ with PyExn e_ => PyExn e_ | PyOk firing_set_vertices => let vertex := name in
  if negb (d_mem vertex gg) then PyExn dd0 else let firing_set_vertices := s_add vertex firing_set_vertices in PyOk firing_set_vertices end.
Lemma collect_none L e : fold_left collect_body L (PyExn e) = PyExn e.
Proof. induction L as [|x L IH]; [reflexivity|exact IH]. Qed.
Lemma collect_loop : forall L acc, NoDup acc ->
  match fold_left collect_body L (PyOk acc) with
  | PyExn e => e = dd0 /\ exists x, In x L /\ ~ (x < n)%nat
  | PyOk fsv => NoDup fsv /\ (forall x, In x fsv <-> In x acc \/ In x L) /\ (forall x, In x L -> (x < n)%nat) end.
Proof. induction L as [|x L IH]; intros acc Hnd.
  - cbn [fold_left]. split; [exact Hnd|]. split; [intros x; cbn [In]; tauto|intros x []].
  - cbn [fold_left]. unfold collect_body at 2. cbn zeta. rewrite (rep_graph_mem gg g x Hgg). destruct (Nat.ltb_spec x n) as [Hx|Hx]; cbn [negb].
    + specialize (IH (s_add x acc) (s_add_NoDup x acc Hnd)). destruct (fold_left collect_body L (PyOk (s_add x acc))) as [fsv|e].
      * destruct IH as (A & B & C). split; [exact A|]. split.
        -- intros y. rewrite B, s_add_In. cbn [In]. split; [intros [[->|H]|H]; auto|intros [H|[->|H]]; auto].
        -- intros y [->|Hy]; [exact Hx|apply C; exact Hy].
      * destruct IH as (E & y & Hy & Hn). split; [exact E|]. exists y. split; [now right|exact Hn].
    + rewrite collect_none. split; [reflexivity|]. exists x. split; [now left|lia]. Qed.

End SetFire.
Section SetFire2.
Variable g : graph.
Hypothesis Hwf : wfb g = true.
Variable gg : dictD.
Hypothesis Hgg : rep_graph gg g.
Local Notation n := (nv g).
Lemma set_fire_unfold dd so U : CFDivisor_set_fire gg dd so U =
  match fold_left (collect_body gg dd) (so U) (PyOk []) with PyExn e_ => PyExn e_ | PyOk fsv =>
  match fold_left (outer_body gg fsv) (so fsv) (PyOk dd) with PyExn e_ => PyExn e_ | PyOk dd' => PyOk dd' end end.
Proof. reflexivity. Qed.

Lemma mem_same A B x : (forall y, In y A <-> In y B) -> mem x A = mem x B.
Proof. intros H. destruct (mem x A) eqn:E1, (mem x B) eqn:E2; try reflexivity.
  - apply mem_In in E1. apply H in E1. apply mem_In in E1. congruence.
  - apply mem_In in E2. apply H in E2. apply mem_In in E2. congruence. Qed.

Theorem set_fire_refines dd D so U : rep_div n dd D -> (forall s, Permutation (so s) s) ->
  match CFDivisor_set_fire gg dd so U with
  | PyExn st => forallb (inb g) U = false /\ st = dd
  | PyOk dd' => forallb (inb g) U = true /\ rep_div n dd' (fire_set g D U) end.
Proof. intros HR Hso. rewrite set_fire_unfold. pose proof (collect_loop g gg Hgg dd (so U) [] (NoDup_nil nat)) as HC.
  destruct (fold_left (collect_body gg dd) (so U) (PyOk [])) as [fsv|e].
  2:{ destruct HC as (E & x & Hx & Hn). split; [|exact E]. apply not_true_is_false. intros Q. rewrite forallb_forall in Q. apply Hn. apply Nat.ltb_lt. apply Q.
      apply (Permutation_in x (Hso U)). exact Hx. }
  destruct HC as (Nf & Mf & Vf).
  assert (EU : forall x, In x fsv <-> In x U).
  { intros x. rewrite Mf. cbn [In]. split; [intros [[]|H]; apply (Permutation_in x (Hso U)); exact H|intros H; right; apply (Permutation_in x (Permutation_sym (Hso U))); exact H]. }
  assert (VU : forall x, In x U -> (x < n)%nat) by (intros x Hx; apply Vf; apply (Permutation_in x (Permutation_sym (Hso U))); exact Hx).
  assert (Pf : Permutation (so fsv) fsv) by apply Hso.
  destruct (outer_loop g Hwf gg Hgg fsv (so fsv) dd D HR) as (dd' & E' & R').
  { intros v Hv. apply VU. apply EU. apply (Permutation_in v Pf). exact Hv. }
  rewrite E'. split; [apply forallb_forall; intros x Hx; apply Nat.ltb_lt; apply VU; exact Hx|].
  replace (fire_set g D U) with (outer_model g gg fsv (so fsv) D); [exact R'|].
  destruct HR as (HL & _ & _). apply list_eq_nthZ.
  - rewrite (outer_model_length g) by exact HL. unfold fire_set. rewrite tab_length. reflexivity.
  - rewrite (outer_model_length g) by exact HL. intros u Hu. rewrite (outer_model_nth g) by exact Hu. unfold fire_set. rewrite nthZ_tab by exact Hu. unfold fire.
    rewrite <- (mem_same fsv U u EU).
    assert (Nso : NoDup (so fsv)) by (apply (Permutation_NoDup (Permutation_sym Pf)); exact Nf).
    assert (Vso : forall v, In v (so fsv) -> (v < n)%nat) by (intros v Hv; apply VU; apply EU; apply (Permutation_in v Pf); exact Hv).
    destruct (mem u fsv) eqn:Eu.
    + assert (Hin : In u (so fsv)) by (apply (Permutation_in u (Permutation_sym Pf)); apply mem_In; exact Eu).
      rewrite (zsum_ext _ (fun v => if Nat.eqb v u then Sv gg fsv u else 0)).
      2:{ intros v _. rewrite (Nat.eqb_sym u v). destruct (Nat.eqb_spec v u) as [->|]; reflexivity. }
      rewrite zsum_indicator by assumption. rewrite (zsum_ext (fun v => Rv gg fsv v u) (fun _ => 0)).
      2:{ intros v Hv. rewrite (Rv_eq g Hwf gg Hgg) by (auto). rewrite Eu. reflexivity. }
      rewrite zsum_zero, (Sv_eq g Hwf gg Hgg) by exact Hu.
      rewrite (zsum_ext (fun x => if mem x U then 0 else mult g u x) (fun x => if mem x fsv then 0 else mult g u x)); [lia|].
      intros x _. rewrite (mem_same fsv U x EU). reflexivity.
    + assert (Hnin : ~ In u (so fsv)) by (intros Q; apply (Permutation_in u Pf) in Q; apply mem_In in Q; congruence).
      rewrite (zsum_ext _ (fun v => if Nat.eqb v u then Sv gg fsv u else 0)).
      2:{ intros v _. rewrite (Nat.eqb_sym u v). destruct (Nat.eqb_spec v u) as [->|]; reflexivity. }
      rewrite zsum_indicator_notin by assumption.
      rewrite (zsum_ext (fun v => Rv gg fsv v u) (fun v => mult g u v)).
      2:{ intros v Hv. rewrite (Rv_eq g Hwf gg Hgg) by (auto). rewrite Eu. apply (mult_sym g Hwf). }
      rewrite (zsum_perm _ _ _ Pf).
      rewrite (zsum_ext (fun u0 => if mem u0 U then mult g u u0 else 0) (fun w => if mem w fsv then mult g u w else 0)) by (intros x _; rewrite (mem_same fsv U x EU); reflexivity).
      rewrite <- (zsum_support (fun w => if mem w fsv then mult g u w else 0) fsv (Vg g) Nf (Vg_nodup g)).
      * rewrite (zsum_ext (fun w => if mem w fsv then mult g u w else 0) (mult g u) fsv); [change (fun v : nat => mult g u v) with (mult g u); lia|]. intros w Hw. apply mem_In in Hw. rewrite Hw. reflexivity.
      * intros w Hw. apply in_seq. pose proof (VU w (proj1 (EU w) Hw)). lia.
      * intros w _ Hw. apply mem_false in Hw. rewrite Hw. reflexivity. Qed.
End SetFire2.
