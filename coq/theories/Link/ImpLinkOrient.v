(* CFOrientation.set_orientation translated from /repo's current source (TranslatedImpCFOrientation.v, regenerated on every run by tools/translate_imp.py)
   refines set_orientation of Model/Machines.v: on dictionaries representing an orientation state it ends with a KeyError - and untouched dictionaries -
   exactly when the model refuses (unknown endpoint or no edge), and otherwise all five fields represent the model's next state. *)
From Coq Require Import ZArith List Lia Bool Arith Permutation.
Import ListNotations.
From CF Require Import ZSum ListAux Defs Core Machines GraphLink MachinesLink OrientLink PyDict ImpRep TranslatedImpCFDivisor ImpLinkArith TranslatedImpCFGraph TranslatedImpCFOrientation.
Open Scope Z_scope.

Definition rep_orient (oo : dictD) (g : graph) (s : ostate) : Prop :=
  forall v, if Nat.ltb v (nv g) then exists row, d_find v oo = Some row /\ NoDup (d_keys row) /\ (forall w, d_find w row = if 0 <? mult g v w then Some (dir_at s v w) else None)
            else d_find v oo = None.
Definition rep_ostate (g : graph) (oo : dictD) (outd ind : dictZ) (isf isfc : bool) (s : ostate) : Prop :=
  rep_orient oo g s /\ rep_div (nv g) outd (outc s) /\ rep_div (nv g) ind (inc s) /\ isf = is_full s /\ isfc = is_full_checked s.

Lemma rep_div_find n dd D v : rep_div n dd D -> (v < n)%nat -> d_find v dd = Some (nthZ D v).
Proof. intros (_ & _ & H) Hv. rewrite H. destruct (Nat.ltb_spec v n); [reflexivity|lia]. Qed.
Lemma rep_div_bump n dd D v x d : rep_div n dd D -> (v < n)%nat -> x = nthZ D v + d -> rep_div n (d_set v x dd) (bump D v d).
Proof. intros (HL & Hk & Hf) Hv ->. split; [rewrite bump_length; exact HL|]. split; [apply d_keys_set_nodup; exact Hk|].
  intros u. rewrite d_find_set, nthZ_bump, HL, Hf. destruct (Nat.eqb_spec u v) as [->|Q]; cbn [andb]; [|reflexivity].
  destruct (Nat.ltb_spec v n); [reflexivity|lia]. Qed.

Lemma rep_orient_update oo g s s' a b x y row_a row_b : a <> b -> (a < nv g)%nat -> (b < nv g)%nat -> 0 < mult g a b -> mult g b a = mult g a b ->
  rep_orient oo g s -> d_find a oo = Some row_a -> d_find b oo = Some row_b ->
  (forall v w, dir_at s' v w = if Nat.eqb v a && Nat.eqb w b then x else if Nat.eqb v b && Nat.eqb w a then y else dir_at s v w) ->
  rep_orient (d_set b (d_set a y row_b) (d_set a (d_set b x row_a) oo)) g s'.
Proof. intros Hab Ha Hb Hk Hsym Ho Ea Eb Hm v. rewrite !d_find_set. pose proof (Ho v) as Hv. pose proof (Ho a) as Hoa. pose proof (Ho b) as Hob.
  assert (La : Nat.ltb a (nv g) = true) by (apply Nat.ltb_lt; exact Ha). assert (Lb : Nat.ltb b (nv g) = true) by (apply Nat.ltb_lt; exact Hb).
  rewrite La in Hoa. rewrite Lb in Hob. destruct Hoa as (ra & Ea' & Na & Fa). destruct Hob as (rb & Eb' & Nb & Fb).
  assert (ra = row_a) by congruence. assert (rb = row_b) by congruence. subst ra rb.
  destruct (Nat.eqb_spec v b) as [Q|Q].
  - subst v. rewrite Lb. eexists. split; [reflexivity|]. split; [apply d_keys_set_nodup; exact Nb|].
    intros w. rewrite d_find_set, Hm. rewrite Nat.eqb_refl. destruct (Nat.eqb_spec b a) as [Q'|Q']; [congruence|]. cbn [andb].
    destruct (Nat.eqb_spec w a) as [Q2|Q2]; [subst w; rewrite Hsym; destruct (Z.ltb_spec 0 (mult g a b)); [reflexivity|lia]|apply Fb].
  - destruct (Nat.eqb_spec v a) as [Q'|Q'].
    + subst v. rewrite La. eexists. split; [reflexivity|]. split; [apply d_keys_set_nodup; exact Na|].
      intros w. rewrite d_find_set, Hm. rewrite Nat.eqb_refl. cbn [andb]. destruct (Nat.eqb_spec w b) as [Q2|Q2]; [subst w; destruct (Z.ltb_spec 0 (mult g a b)); [reflexivity|lia]|].
      destruct (Nat.eqb_spec a b); [congruence|]. cbn [andb]. apply Fa.
    + destruct (Nat.ltb v (nv g)); [|exact Hv]. destruct Hv as (row & Er & Nr & Fr). exists row. split; [exact Er|]. split; [exact Nr|].
      intros w. rewrite Hm. destruct (Nat.eqb_spec v a); [contradiction|]. destruct (Nat.eqb_spec v b); [contradiction|]. cbn [andb]. apply Fr. Qed.

Section SO.
Variable g : graph.
Hypothesis Hwf : wfb g = true.
Variable gg : dictD.
Hypothesis Hgg : rep_graph gg g.
Local Notation n := (nv g).

Lemma so_err1 s a b st : (n <= a)%nat -> set_orientation g s a b st = Err.
Proof. intros H. unfold set_orientation, inb. destruct (Nat.ltb_spec a n); [lia|reflexivity]. Qed.
Lemma so_err2 s a b st : mult g a b <= 0 -> set_orientation g s a b st = Err.
Proof. intros H. unfold set_orientation. destruct (negb (inb g a && inb g b)); [reflexivity|]. destruct (Z.leb_spec (mult g a b) 0); [reflexivity|lia]. Qed.
Definition so_result (s : ostate) (a b : nat) (st : Z) : ostate :=
  let k := mult g a b in let old := dir_at s a b in
  let '(o1, i1) := if old =? 1 then (bump (outc s) a (- k), bump (inc s) b (- k))
                   else if old =? 2 then (bump (outc s) b (- k), bump (inc s) a (- k)) else (outc s, inc s) in
  let '(o2, i2) := if st =? 1 then (bump o1 a k, bump i1 b k)
                   else if st =? 2 then (bump o1 b k, bump i1 a k) else (o1, i1) in
  {| dir := upd2 (upd2 (dir s) a b st) b a (mirror st); inc := i2; outc := o2;
        is_full := if st =? 0 then false else is_full s;
        is_full_checked := if st =? 0 then true else if (old =? 0) then false else is_full_checked s |}.
Lemma so_ok s a b st : (a < n)%nat -> (b < n)%nat -> 0 < mult g a b -> (st = 0 \/ st = 1 \/ st = 2) -> set_orientation g s a b st = Ok (so_result s a b st).
Proof. intros Ha Hb Hk Hst. unfold set_orientation, so_result, inb. destruct (Nat.ltb_spec a n); [|lia]. destruct (Nat.ltb_spec b n); [|lia]. cbn [andb negb].
  destruct (Z.leb_spec (mult g a b) 0); [lia|]. destruct Hst as [-> | [-> | ->]]; cbn [Z.eqb orb negb]; destruct (dir_at s a b =? 1), (dir_at s a b =? 2); reflexivity. Qed.

Theorem set_orientation_refines oo outd ind isf isfc s a b st : oinv g s -> rep_ostate g oo outd ind isf isfc s -> (st = 0 \/ st = 1 \/ st = 2) ->
  match CFOrientation_set_orientation oo gg outd ind isf isfc a b st with
  | PyExn e => set_orientation g s a b st = Err /\ e = (outd, ind, oo, isf, isfc)
  | PyOk (outd', ind', oo', isf', isfc') => exists s', set_orientation g s a b st = Ok s' /\ rep_ostate g oo' outd' ind' isf' isfc' s' end.
Proof. intros Hinv (Ho & Hout & Hin & Hf1 & Hf2) Hst. unfold CFOrientation_set_orientation.
  pose proof (Ho a) as Hoa.
  destruct (Nat.ltb_spec a n) as [Ha|Ha].
  2:{ rewrite Hoa. split; [apply so_err1; exact Ha|reflexivity]. }
  destruct Hoa as (ra & Ea & Na & Fa). rewrite Ea. rewrite (Fa b).
  destruct (Z.ltb_spec 0 (mult g a b)) as [Hk|Hk].
  2:{ split; [apply so_err2; exact Hk|reflexivity]. }
  assert (Hb : (b < n)%nat). { destruct (Nat.lt_ge_cases b n) as [A|A]; [exact A|]. rewrite (mult_out_r g Hwf) in Hk by exact A. lia. }
  assert (Hab : a <> b). { intros Q. subst b. rewrite (mult_diag g Hwf) in Hk. lia. }
  pose proof (Hgg a) as Hga. assert (La : Nat.ltb a n = true) by (apply Nat.ltb_lt; exact Ha). assert (Lb : Nat.ltb b n = true) by (apply Nat.ltb_lt; exact Hb).
  rewrite La in Hga. destruct Hga as (rga & Ega & Nga & Fga). rewrite Ega, (Fga b). destruct (Z.ltb_spec 0 (mult g a b)); [|lia]. cbn beta iota zeta.
  pose proof (Ho b) as Hob. rewrite Lb in Hob. destruct Hob as (rb & Eb & Nb & Fb).
  assert (Eab : Nat.eqb a b = false) by (apply Nat.eqb_neq; exact Hab). assert (Eba : Nat.eqb b a = false) by (apply Nat.eqb_neq; intros Q; apply Hab; symmetry; exact Q).
  pose proof (rep_div_find n outd (outc s) a Hout Ha) as Foa. pose proof (rep_div_find n outd (outc s) b Hout Hb) as Fob.
  pose proof (rep_div_find n ind (inc s) a Hin Ha) as Fia. pose proof (rep_div_find n ind (inc s) b Hin Hb) as Fib.
  rewrite (so_ok s a b st Ha Hb Hk Hst).
  set (k := mult g a b) in *. set (old := dir_at s a b) in *.
  assert (HLo : length (outc s) = n) by apply Hout. assert (HLi : length (inc s) = n) by apply Hin.
  pose proof (set_orientation_inv g Hwf s a b st (so_result s a b st) Hinv (so_ok s a b st Ha Hb Hk Hst)) as (_ & _ & _ & _ & _ & Hdir).
  assert (Hsym : mult g b a = mult g a b) by apply (mult_sym g Hwf).
  assert (Dso : dir (so_result s a b st) = upd2 (upd2 (dir s) a b st) b a (mirror st)).
  { unfold so_result. destruct (dir_at s a b =? 1), (dir_at s a b =? 2), (st =? 1), (st =? 2); reflexivity. }
  assert (RO : forall y s2, y = mirror st -> dir s2 = upd2 (upd2 (dir s) a b st) b a (mirror st) ->
               rep_orient (d_set b (d_set a y rb) (d_set a (d_set b st ra) oo)) g s2).
  { intros y s2 -> Hd. assert (R0 : rep_orient (d_set b (d_set a (mirror st) rb) (d_set a (d_set b st ra) oo)) g (so_result s a b st))
      by (apply (rep_orient_update oo g s (so_result s a b st) a b st (mirror st) ra rb); auto).
    intros v. specialize (R0 v). destruct (Nat.ltb v n); [|exact R0]. destruct R0 as (row & E & N & F). exists row. split; [exact E|]. split; [exact N|].
    intros w. rewrite F. unfold dir_at. rewrite Hd, Dso. reflexivity. }
  assert (BN : forall D v d w, length D = n -> nthZ (bump D v d) w = if Nat.eqb w v then (if Nat.ltb v n then nthZ D v + d else nthZ D w) else nthZ D w).
  { intros D v d w HL. rewrite nthZ_bump, HL. destruct (Nat.eqb w v), (Nat.ltb v n); reflexivity. }
  Ltac look Eab Eba Foa Fob Fia Fib := repeat (rewrite ?d_find_set, ?Nat.eqb_refl, ?Eab, ?Eba, ?Foa, ?Fob, ?Fia, ?Fib; cbn beta iota).
  unfold so_result. fold k. fold old. unfold dictZ, dictD in *.
  destruct (old =? 1) eqn:E1; [|destruct (old =? 2) eqn:E2]; look Eab Eba Foa Fob Fia Fib; rewrite Eb; cbn beta iota;
  destruct Hst as [Hs | [Hs | Hs]]; rewrite Hs in *; cbn [Z.eqb Pos.eqb]; look Eab Eba Foa Fob Fia Fib; cbn [negb]; rewrite ?andb_false_r, ?andb_true_r; destruct (old =? 0) eqn:E0; cbn beta iota;
  (eexists; split; [reflexivity|]); (split; [apply RO; reflexivity|]); cbn [outc inc is_full is_full_checked].
  all: (split; [|split; [|split]]); try reflexivity; try exact Hf1; try exact Hf2.
  all: repeat (apply rep_div_bump; [| assumption | repeat (rewrite BN by (rewrite ?bump_length; assumption)); rewrite ?Nat.eqb_refl, ?Eab, ?Eba, ?La, ?Lb; lia]); try exact Hout; try exact Hin.
Qed.
End SO.

(* ---- CFOrientation.check_fullness, get_in_degree, get_out_degree ---- *)
Lemma forallb_same {A B} (f : A -> bool) (h : B -> bool) l l' :
  ((forall x, In x l -> f x = true) <-> (forall y, In y l' -> h y = true)) -> forallb f l = forallb h l'.
Proof. intros [H1 H2]. destruct (forallb f l) eqn:E1, (forallb h l') eqn:E2; try reflexivity.
  - rewrite forallb_forall in E1. pose proof (H1 E1) as Q. apply forallb_forall in Q. congruence.
  - rewrite forallb_forall in E2. pose proof (H2 E2) as Q. apply forallb_forall in Q. congruence. Qed.

Section CF.
Variable g : graph.
Hypothesis Hwf : wfb g = true.
Variable gg : dictD.
Hypothesis Hgg : rep_graph gg g.
Variables (oo : dictD) (s : ostate).
Hypothesis Ho : rep_orient oo g s.
Local Notation n := (nv g).

Definition cf_inner (v1 : nat) (acc_ : pyres (bool * bool) (option bool * (bool * bool))) (v2 : nat) : pyres (bool * bool) (option bool * (bool * bool)) :=
  match acc_ with PyExn e_ => PyExn e_ | PyOk (Some r_, (self_is_full, self_is_full_checked)) => PyOk (Some r_, (self_is_full, self_is_full_checked)) | PyOk (None, (self_is_full, self_is_full_checked)) =>
  if (Nat.ltb v1 v2) then
  match d_find v1 oo with None => PyExn (self_is_full, self_is_full_checked) | Some t2_ =>
  match d_find v2 t2_ with None => PyExn (self_is_full, self_is_full_checked) | Some t3_ =>
  if (t3_ =? 0) then
  let self_is_full := false in
  let self_is_full_checked := true in
  PyOk (Some (false), (self_is_full, self_is_full_checked))
  else
  PyOk (None, (self_is_full, self_is_full_checked)) end end
  else
  PyOk (None, (self_is_full, self_is_full_checked)) end.
Definition okw (v1 w : nat) : bool := negb (Nat.ltb v1 w && (dir_at s v1 w =? 0)).

Lemma cf_inner_some v1 ks r st : fold_left (cf_inner v1) ks (PyOk (Some r, st)) = PyOk (Some r, st).
Proof. induction ks as [|w ks IH]; [reflexivity|]. cbn [fold_left]. destruct st as [a b]. exact IH. Qed.
Lemma cf_inner_loop v1 : (v1 < n)%nat -> forall ks a b, (forall w, In w ks -> 0 < mult g v1 w) ->
  fold_left (cf_inner v1) ks (PyOk (None, (a, b))) = if forallb (okw v1) ks then PyOk (None, (a, b)) else PyOk (Some false, (false, true)).
Proof. intros Hv. pose proof (Ho v1) as Hr. assert (E : Nat.ltb v1 n = true) by (apply Nat.ltb_lt; exact Hv). rewrite E in Hr. destruct Hr as (row & Er & _ & Fr).
  induction ks as [|w ks IH]; intros a b Hk; [reflexivity|]. cbn [fold_left forallb]. unfold cf_inner at 2. unfold okw at 1.
  destruct (Nat.ltb v1 w); cbn [andb negb]; [|apply IH; intros; apply Hk; now right].
  rewrite Er, (Fr w). pose proof (Hk w (or_introl eq_refl)) as Hw. destruct (Z.ltb_spec 0 (mult g v1 w)); [|lia].
  destruct (dir_at s v1 w =? 0); cbn [negb andb]; [apply cf_inner_some|apply IH; intros; apply Hk; now right]. Qed.

Definition cf_outer (acc_ : pyres (bool * bool) (option bool * (bool * bool))) (v1 : nat) : pyres (bool * bool) (option bool * (bool * bool)) :=
  match acc_ with PyExn e_ => PyExn e_ | PyOk (Some r_, (self_is_full, self_is_full_checked)) => PyOk (Some r_, (self_is_full, self_is_full_checked)) | PyOk (None, (self_is_full, self_is_full_checked)) =>
  match d_find v1 gg with None => PyExn (self_is_full, self_is_full_checked) | Some t1_ =>
  match fold_left (cf_inner v1) (d_keys t1_) (PyOk (None, (self_is_full, self_is_full_checked))) with PyExn e_ => PyExn e_
  | PyOk (Some r_, (self_is_full, self_is_full_checked)) => PyOk (Some r_, (self_is_full, self_is_full_checked))
  | PyOk (None, (self_is_full, self_is_full_checked)) => PyOk (None, (self_is_full, self_is_full_checked)) end end end.
Definition okv (v : nat) : bool := forallb (fun w => if (0 <? mult g v w) && Nat.ltb v w then negb (dir_at s v w =? 0) else true) (Vg g).

Lemma cf_outer_some L r st : fold_left cf_outer L (PyOk (Some r, st)) = PyOk (Some r, st).
Proof. induction L as [|v L IH]; [reflexivity|]. cbn [fold_left]. destruct st as [a b]. exact IH. Qed.
Lemma row_ok v : (v < n)%nat -> exists row, d_find v gg = Some row /\ (forall w, In w (d_keys row) -> 0 < mult g v w) /\ forallb (okw v) (d_keys row) = okv v.
Proof. intros Hv. pose proof (Hgg v) as Hr. assert (E : Nat.ltb v n = true) by (apply Nat.ltb_lt; exact Hv). rewrite E in Hr. destruct Hr as (row & Er & Nr & Fr).
  exists row. split; [exact Er|]. assert (K : forall w, In w (d_keys row) <-> 0 < mult g v w).
  { intros w. rewrite <- d_find_in_keys. unfold d_mem. rewrite Fr. destruct (Z.ltb_spec 0 (mult g v w)); split; intros; try lia; try discriminate; reflexivity. }
  split; [intros w Hw; apply K; exact Hw|]. unfold okv. apply forallb_same. split.
  - intros H w Hw. destruct (Z.ltb_spec 0 (mult g v w)) as [P|P]; cbn [andb]; [|reflexivity]. specialize (H w (proj2 (K w) P)). unfold okw in H.
    destruct (Nat.ltb v w); cbn [andb negb] in *; [exact H|reflexivity].
  - intros H w Hw. apply K in Hw. assert (Hin : In w (Vg g)). { apply in_seq. destruct (Nat.lt_ge_cases w n); [lia|]. rewrite (mult_out_r g Hwf) in Hw by assumption. lia. }
    specialize (H w Hin). destruct (Z.ltb_spec 0 (mult g v w)); [|lia]. cbn [andb] in H. unfold okw. destruct (Nat.ltb v w); cbn [andb negb]; [exact H|reflexivity]. Qed.
Lemma cf_outer_loop : forall L a b, (forall v, In v L -> (v < n)%nat) ->
  fold_left cf_outer L (PyOk (None, (a, b))) = if forallb okv L then PyOk (None, (a, b)) else PyOk (Some false, (false, true)).
Proof. induction L as [|v L IH]; intros a b HL; [reflexivity|]. cbn [fold_left forallb]. unfold cf_outer at 2.
  destruct (row_ok v (HL v (or_introl eq_refl))) as (row & Er & Hk & Eq). rewrite Er, (cf_inner_loop v (HL v (or_introl eq_refl)) (d_keys row) a b Hk), Eq.
  destruct (okv v); cbn [andb]; [apply IH; intros; apply HL; now right|apply cf_outer_some]. Qed.

Lemma check_fullness_unfold isf isfc vs so : CFOrientation_check_fullness isf isfc vs gg oo so =
  match fold_left cf_outer (so vs) (PyOk (None, (isf, isfc))) with PyExn e_ => PyExn e_ | PyOk (Some r_, (a, b)) => PyOk (r_, (a, b)) | PyOk (None, (a, b)) => PyOk (true, (true, true)) end.
Proof. reflexivity. Qed.

Theorem check_fullness_refines isf isfc vs so : rep_vset n vs -> (forall l, Permutation (so l) l) ->
  CFOrientation_check_fullness isf isfc vs gg oo so = PyOk (full_b g s, (full_b g s, true)).
Proof. intros Hvs Hso. rewrite check_fullness_unfold.
  assert (HL : forall v, In v (so vs) -> (v < n)%nat).
  { intros v Hv. apply (Permutation_in v (Hso vs)) in Hv. apply s_mem_In in Hv. rewrite (Hvs v) in Hv. apply Nat.ltb_lt. exact Hv. }
  rewrite (cf_outer_loop (so vs) isf isfc HL).
  assert (E : forallb okv (so vs) = full_b g s).
  { unfold full_b. apply forallb_same. split.
    - intros H v Hv. apply (H v). apply (Permutation_in v (Permutation_sym (Hso vs))). apply s_mem_In. rewrite (Hvs v). apply Nat.ltb_lt. apply in_seq in Hv. lia.
    - intros H v Hv. apply (H v). apply in_seq. specialize (HL v Hv). lia. }
  rewrite E. destruct (full_b g s); reflexivity. Qed.
End CF.

Theorem get_in_out_degree_refines g gg ind outd s v : rep_graph gg g -> rep_div (nv g) ind (inc s) -> rep_div (nv g) outd (outc s) ->
  CFOrientation_get_in_degree gg ind v = (if Nat.ltb v (nv g) then PyOk (nthZ (inc s) v) else PyExn tt) /\
  CFOrientation_get_out_degree gg outd v = (if Nat.ltb v (nv g) then PyOk (nthZ (outc s) v) else PyExn tt).
Proof. intros Hg (_ & _ & Hi) (_ & _ & Ho). unfold CFOrientation_get_in_degree, CFOrientation_get_out_degree. rewrite (rep_graph_mem gg g v Hg), (Hi v), (Ho v).
  destruct (Nat.ltb v (nv g)); split; reflexivity. Qed.

(* The readers get_orientation / is_source / is_sink, translated from the current source (results typed Optional[...] become option): they raise exactly
   when there is no such edge and otherwise report the recorded state of the edge as seen from the first argument. *)
Section OR.
Variable g : graph.
Variables (gg oo : dictD) (s : ostate).
Hypothesis Hgg : rep_graph gg g.
Hypothesis Hoo : rep_orient oo g s.
Local Notation n := (nv g).
Definition edge_ok (a b : nat) : bool := Nat.ltb a n && Nat.ltb b n && (0 <? mult g a b).

Ltac reader_prefix a b :=
  cbn zeta; rewrite !(rep_graph_mem gg g _ Hgg); unfold edge_ok;
  destruct (Nat.ltb a n) eqn:La; [|reflexivity]; destruct (Nat.ltb b n) eqn:Lb; [|reflexivity]; cbn [negb orb andb];
  let Ha := fresh "Ha" in let Ho := fresh "Ho" in
  pose proof (Hgg a) as Ha; rewrite La in Ha; destruct Ha as (row & Er & _ & Fr); rewrite Er; unfold d_mem; rewrite (Fr b);
  destruct (0 <? mult g a b) eqn:Lm; [|reflexivity]; cbn [negb];
  pose proof (Hoo a) as Ho; rewrite La in Ho; destruct Ho as (orow & Eo & _ & Fo); rewrite Eo, (Fo b), Lm.

Theorem get_orientation_refines a b : CFOrientation_get_orientation gg oo a b =
  if edge_ok a b then PyOk (if dir_at s a b =? 0 then None else if dir_at s a b =? 1 then Some (a, b) else Some (b, a)) else PyExn tt.
Proof. unfold CFOrientation_get_orientation. reader_prefix a b. destruct (dir_at s a b =? 0); [reflexivity|]. destruct (dir_at s a b =? 1); reflexivity. Qed.
Theorem is_source_refines a b : CFOrientation_is_source gg oo a b =
  if edge_ok a b then PyOk (if dir_at s a b =? 0 then None else Some (dir_at s a b =? 1)) else PyExn tt.
Proof. unfold CFOrientation_is_source. reader_prefix a b. destruct (dir_at s a b =? 0); reflexivity. Qed.
Theorem is_sink_refines a b : CFOrientation_is_sink gg oo a b =
  if edge_ok a b then PyOk (if dir_at s a b =? 0 then None else Some (dir_at s a b =? 2)) else PyExn tt.
Proof. unfold CFOrientation_is_sink. reader_prefix a b. destruct (dir_at s a b =? 0); reflexivity. Qed.
End OR.

(* ---- divisor() and canonical_divisor(), translated from the current source: the list [(v, in-degree(v) - 1)] resp. [(v, valence(v) - 2)] over the vertex set, handed to
   the translated CFDivisor constructor; divisor() first makes sure that fullness has been checked and refuses an orientation that is not full ---- *)
Section OD.
Variable g : graph.
Hypothesis Hwf : wfb g = true.
Variable gg : dictD.
Hypothesis Hgg : rep_graph gg g.
Variable vs : list nat.
Hypothesis Hvs : rep_vset (nv g) vs.
Hypothesis Hnd : NoDup vs.
Variable so : list nat -> list nat.
Hypothesis Hso : forall l, Permutation (so l) l.
Local Notation n := (nv g).

Definition od_body (st : bool * bool) (ind : list (nat * Z)) (acc_ : pyres (bool * bool) (list (nat * Z))) (vertex : nat) : pyres (bool * bool) (list (nat * Z)) :=
  match acc_ with PyExn e_ => PyExn e_ | PyOk divisor_degrees =>
  match d_find vertex ind with None => PyExn st | Some t1_ =>
  let degree := (t1_ - 1) in let divisor_degrees := divisor_degrees ++ [(vertex, degree)] in PyOk divisor_degrees end end.
Lemma od_loop st ind I : rep_div n ind I -> forall L, (forall v, In v L -> (v < n)%nat) -> forall l0,
  fold_left (od_body st ind) L (PyOk l0) = PyOk (l0 ++ map (fun v => (v, nthZ I v - 1)) L).
Proof. intros (_ & _ & Hf). induction L as [|x L IH]; intros HL l0; cbn [fold_left map]; [now rewrite app_nil_r|]. unfold od_body at 2. rewrite (Hf x).
  assert (E : Nat.ltb x n = true) by (apply Nat.ltb_lt, HL; now left). rewrite E. cbn zeta. rewrite IH by (intros v Hv; apply HL; now right). rewrite <- app_assoc. reflexivity. Qed.
Lemma in_so_lt v : In v (so vs) -> (v < n)%nat.
Proof. intros Hv. apply (Permutation_in _ (Hso vs)) in Hv. apply s_mem_In in Hv. rewrite (Hvs v) in Hv. apply Nat.ltb_lt. exact Hv. Qed.

Theorem divisor_refines oo s ind : rep_orient oo g s -> rep_div n ind (inc s) ->
  let s' := ensure_checked g s in
  match CFOrientation_divisor (is_full_checked s) (is_full s) vs gg oo ind so with
  | PyOk ((dd, t), (isf', isfc')) => is_full s' = true /\ isf' = is_full s' /\ isfc' = is_full_checked s' /\
                                     rep_div n dd (tab n (fun v => nthZ (inc s') v - 1)) /\ t = zsum (fun v => nthZ (inc s') v - 1) (seq 0 n)
  | PyExn (isf', isfc') => is_full s' = false /\ isf' = is_full s' /\ isfc' = is_full_checked s' end.
Proof. intros Ho Hi. unfold CFOrientation_divisor.
  assert (Hst : (if negb (is_full_checked s) then
      match CFOrientation_check_fullness (is_full s) (is_full_checked s) vs gg oo so with
      | PyExn (a, b) => PyExn (a, b) | PyOk (_, (a, b)) => PyOk (a, b) end else PyOk (is_full s, is_full_checked s))
     = (PyOk (is_full (ensure_checked g s), is_full_checked (ensure_checked g s)) : pyres (bool * bool) (bool * bool)) /\ inc (ensure_checked g s) = inc s).
  { unfold ensure_checked. destruct (is_full_checked s) eqn:Ec; cbn [negb]; [rewrite Ec; split; reflexivity|].
    rewrite (check_fullness_refines g Hwf gg Hgg oo s Ho (is_full s) false vs so Hvs Hso). split; reflexivity. }
  destruct Hst as [Hst Hinc]. cbv zeta. rewrite Hinc. unfold dictZ in *. rewrite Hst. destruct (is_full (ensure_checked g s)) eqn:Ef; cbn [negb]; [|repeat split; reflexivity].
  change (fold_left _ (so vs) (PyOk [])) with (fold_left (od_body (true, is_full_checked (ensure_checked g s)) ind) (so vs) (PyOk [])).
  rewrite (od_loop _ ind (inc s) Hi (so vs) in_so_lt []). cbn [app].
  destruct (fun_ctor g gg Hgg vs Hvs Hnd so Hso (fun v => nthZ (inc s) v - 1)) as (dd' & H1 & H2). unfold dictZ in *. rewrite H1. split; [reflexivity|]. split; [reflexivity|]. split; [reflexivity|]. split; [exact H2|reflexivity]. Qed.

Definition cd_body (vtv : list (nat * Z)) (acc_ : pyres unit (list (nat * Z))) (vertex : nat) : pyres unit (list (nat * Z)) :=
  match acc_ with PyExn e_ => PyExn e_ | PyOk canonical_degrees =>
  match CFGraph_get_valence vtv vertex with PyExn _ => PyExn tt | PyOk t1_ =>
  let valence := t1_ in let degree := (valence - 2) in let canonical_degrees := canonical_degrees ++ [(vertex, degree)] in PyOk canonical_degrees end end.
Lemma cd_loop vtv V : rep_div n vtv V -> forall L, (forall v, In v L -> (v < n)%nat) -> forall l0,
  fold_left (cd_body vtv) L (PyOk l0) = PyOk (l0 ++ map (fun v => (v, nthZ V v - 2)) L).
Proof. intros (_ & _ & Hf). induction L as [|x L IH]; intros HL l0; cbn [fold_left map]; [now rewrite app_nil_r|]. unfold cd_body at 2. unfold CFGraph_get_valence, d_mem. cbn zeta. rewrite (Hf x).
  assert (E : Nat.ltb x n = true) by (apply Nat.ltb_lt, HL; now left). rewrite E. cbn [negb]. rewrite IH by (intros v Hv; apply HL; now right). rewrite <- app_assoc. reflexivity. Qed.
Theorem canonical_divisor_refines vtv V : rep_div n vtv V -> (forall v, (v < n)%nat -> nthZ V v = valg g v) ->
  exists dd, CFOrientation_canonical_divisor vs vtv gg so = PyOk (dd, zsum (fun v => valg g v - 2) (seq 0 n)) /\ rep_div n dd (canonical_g g).
Proof. intros HV Hval. unfold CFOrientation_canonical_divisor. cbv zeta.
  change (fold_left _ (so vs) (PyOk [])) with (fold_left (cd_body vtv) (so vs) (PyOk [])). unfold dictZ in *.
  rewrite (cd_loop vtv V HV (so vs) in_so_lt []). cbn [app].
  destruct (fun_ctor g gg Hgg vs Hvs Hnd so Hso (fun v => nthZ V v - 2)) as (dd' & H1 & H2). unfold dictZ in *. rewrite H1. exists dd'. split.
  - f_equal. f_equal. apply zsum_ext. intros v Hv. rewrite Hval; [reflexivity|]. apply in_seq in Hv. lia.
  - unfold canonical_g. replace (tab n (fun v => valg g v - 2)) with (tab n (fun v => nthZ V v - 2)); [exact H2|]. apply tab_ext. intros v Hv. rewrite Hval by exact Hv. reflexivity. Qed.
End OD.
