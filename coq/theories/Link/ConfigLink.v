(* Legality and superstability of the model against their definitions; the enumeration of all subsets is complete. *)
From Coq Require Import ZArith List Lia Bool Arith.
Import ListNotations.
From CF Require Import ZSum ListAux Defs LinEquiv Reduced Burn Core Machines Config GraphLink DharLink.
Open Scope Z_scope.

Lemma sublists_incl {A} (l : list A) S : In S (sublists l) -> incl S l.
Proof. revert S. induction l as [|x t IH]; intros S H; cbn [sublists] in H.
  - destruct H as [<-|[]]. intros ? [].
  - apply in_app_or in H. destruct H as [H|H].
    + apply in_map_iff in H. destruct H as [S0 [<- H0]]. intros y [<-|Hy]; [now left|right; now apply (IH S0)].
    + intros y Hy. right. now apply (IH S). Qed.
Lemma filter_in_sublists {A} (f : A -> bool) (l : list A) : In (filter f l) (sublists l).
Proof. induction l as [|x t IH]; cbn [filter sublists]; [now left|]. apply in_or_app. destruct (f x); [left; apply in_map; auto|right; auto]. Qed.

Section WF.
Variable g : graph.
Hypothesis Hwf : wfb g = true.
Local Notation V := (Vg g).
Local Notation m := (mult g).

Lemma outdeg_ext S S' v : (forall w, In w V -> S w = S' w) -> outdeg V m S v = outdeg V m S' v.
Proof. intros H. unfold outdeg. apply zsum_ext. intros w Hw. now rewrite (H w Hw). Qed.
(* a set is reported legal exactly when it is non-empty and every member holds at least as many chips as it has edges leaving the set *)
Theorem legal_b_spec D S : (forall v, In v S -> In v V) ->
  (legal_b g D S = true <-> S <> [] /\ forall v, In v S -> outdeg V m (fun w => mem w S) v <= nthZ D v).
Proof. intros HS. unfold legal_b. destruct S as [|x t] eqn:ES; [split; [discriminate|intros [H _]; congruence]|]. rewrite <- ES in *.
  rewrite forallb_forall. split.
  - intros H. split; [rewrite ES; discriminate|]. intros v Hv. specialize (H v Hv). apply Z.leb_le in H.
    rewrite (nth_fire_set g) in H by auto. unfold fire in H. assert (Hm : mem v S = true) by now apply mem_In. rewrite Hm in H. unfold outdeg. lia.
  - intros [_ H] v Hv. apply Z.leb_le. rewrite (nth_fire_set g) by auto. unfold fire. assert (Hm : mem v S = true) by now apply mem_In. rewrite Hm.
    specialize (H v Hv). unfold outdeg in H. lia. Qed.
Corollary legal_b_legal D S : (forall v, In v S -> In v V) -> (legal_b g D S = true <-> S <> [] /\ legal V m (nthZ D) (fun w => mem w S)).
Proof. intros HS. rewrite legal_b_spec by auto. split; intros [H1 H2]; split; auto.
  - intros v Hv Hm. apply H2. now apply mem_In.
  - intros v Hv. apply H2; auto. now apply mem_In. Qed.
Theorem is_legal_set_firing_spec q D S : is_legal_set_firing g q D S =
  match S with [] => Ok false | _ => if existsb (fun v => negb (inb g v) || Nat.eqb v q) S then Err else Ok (legal_b g D S) end.
Proof. unfold is_legal_set_firing. destruct S as [|x t]; auto. set (S := x :: t).
  destruct (forallb (fun v => inb g v && negb (Nat.eqb v q)) S) eqn:E.
  - assert (existsb (fun v => negb (inb g v) || Nat.eqb v q) S = false); [|now rewrite H].
    apply not_true_is_false. intros H. apply existsb_exists in H. destruct H as [v [Hv Hb]]. rewrite forallb_forall in E. specialize (E v Hv).
    apply andb_true_iff in E. destruct E as [E1 E2]. rewrite E1 in Hb. apply negb_true_iff in E2. rewrite E2 in Hb. discriminate.
  - assert (existsb (fun v => negb (inb g v) || Nat.eqb v q) S = true); [|now rewrite H].
    destruct (existsb (fun v => negb (inb g v) || Nat.eqb v q) S) eqn:E2; auto. exfalso.
    assert (forallb (fun v => inb g v && negb (Nat.eqb v q)) S = true); [|congruence]. apply forallb_forall. intros v Hv.
    destruct (inb g v) eqn:E3, (Nat.eqb v q) eqn:E4; auto; exfalso;
      (assert (existsb (fun v => negb (inb g v) || Nat.eqb v q) S = true) by (apply existsb_exists; exists v; split; auto; rewrite E3, E4; reflexivity)); congruence. Qed.

Lemma vtilde_spec q v : In v (vtilde g q) <-> In v V /\ v <> q.
Proof. unfold vtilde. rewrite filter_In, negb_true_iff, Nat.eqb_neq. tauto. Qed.
(* the enumeration of all non-empty subsets decides superstability (= q-reducedness of the configuration) *)
Theorem superstable_enum_spec q D : In q V -> (superstable_enum g q D = true <-> superstable V m q (nthZ D)).
Proof. intros Hq. unfold superstable_enum, superstable, reduced. rewrite andb_true_iff, (nonneg_off_spec g), forallb_forall. split.
  - intros [Hnn Hall]. split; auto. intros S Sq [v0 [Hv0 HS0]] HL.
    set (L := filter S (vtilde g q)).
    assert (HLV : forall v, In v L -> In v V) by (intros v Hv; apply filter_In in Hv; destruct Hv as [Hv _]; now apply vtilde_spec in Hv).
    assert (Hagree : forall w, In w V -> mem w L = S w).
    { intros w Hw. destruct (S w) eqn:E; [apply mem_In; apply filter_In; split; auto; apply vtilde_spec; split; auto; intro; subst; congruence|].
      apply mem_false. intros Hin. apply filter_In in Hin. destruct Hin; congruence. }
    assert (HL0 : In v0 L) by (apply filter_In; split; auto; apply vtilde_spec; split; auto; intro; subst; congruence).
    specialize (Hall L (filter_in_sublists S (vtilde g q))). destruct L as [|x t] eqn:EL; [destruct HL0|]. rewrite <- EL in *.
    apply negb_true_iff in Hall. assert (legal_b g D L = true); [|congruence].
    apply legal_b_legal; auto. split; [rewrite EL; discriminate|]. intros v Hv Hm. rewrite (outdeg_ext _ S) by auto. apply HL; auto. now rewrite <- Hagree.
  - intros [Hnn Hno]. split; auto. intros S HS. destruct S as [|x t] eqn:ES; auto. rewrite <- ES in *. apply negb_true_iff. apply not_true_is_false. intros Hleg.
    pose proof (sublists_incl _ _ HS) as Hincl.
    assert (HSV : forall v, In v S -> In v V) by (intros v Hv; apply Hincl in Hv; now apply vtilde_spec in Hv).
    apply legal_b_legal in Hleg; auto. destruct Hleg as [_ Hleg].
    apply (Hno (fun w => mem w S)); auto.
    + apply mem_false. intros Hin. apply Hincl in Hin. apply vtilde_spec in Hin. destruct Hin; congruence.
    + exists x. split; [apply HSV; rewrite ES; now left|apply mem_In; rewrite ES; now left]. Qed.
(* and it agrees with the burn-based decision procedure *)
Corollary superstable_enum_eq_burn q D : In q V -> superstable_enum g q D = reduced_b g q D.
Proof. intros Hq. pose proof (superstable_enum_spec q D Hq) as A. pose proof (reduced_b_spec g Hwf q D Hq) as B. unfold superstable in A.
  destruct (superstable_enum g q D), (reduced_b g q D); auto; [assert (false = true) by tauto|assert (true = false) by (symmetry; tauto)]; congruence. Qed.
(* the comparison operators are the vertex-wise order on V - {q} *)
Theorem cfg_order_spec q D E :
  (cfg_le g q D E = true <-> forall v, In v V -> v <> q -> nthZ D v <= nthZ E v) /\
  (cfg_eq g q D E = true <-> forall v, In v V -> v <> q -> nthZ D v = nthZ E v) /\
  (cfg_lt g q D E = true <-> (forall v, In v V -> v <> q -> nthZ D v <= nthZ E v) /\ exists v, In v V /\ v <> q /\ nthZ D v < nthZ E v).
Proof. assert (A : cfg_le g q D E = true <-> forall v, In v V -> v <> q -> nthZ D v <= nthZ E v).
  { unfold cfg_le. rewrite forallb_forall. split; intros H v; [intros Hv Hne; apply Z.leb_le, H; now apply vtilde_spec|intros Hv; apply vtilde_spec in Hv; apply Z.leb_le, H; tauto]. }
  assert (B : cfg_eq g q D E = true <-> forall v, In v V -> v <> q -> nthZ D v = nthZ E v).
  { unfold cfg_eq. rewrite forallb_forall. split; intros H v; [intros Hv Hne; apply Z.eqb_eq, H; now apply vtilde_spec|intros Hv; apply vtilde_spec in Hv; apply Z.eqb_eq, H; tauto]. }
  split; [exact A|]. split; [exact B|]. unfold cfg_lt. rewrite andb_true_iff, negb_true_iff, A. split.
  - intros [Hle Hne]. split; auto. destruct (existsb (fun v => nthZ D v <? nthZ E v) (vtilde g q)) eqn:Ex.
    + apply existsb_exists in Ex. destruct Ex as [v [Hv Hlt]]. apply vtilde_spec in Hv. apply Z.ltb_lt in Hlt. exists v. tauto.
    + exfalso. assert (cfg_eq g q D E = true); [|congruence]. apply (proj2 B). intros v Hv Hq. specialize (Hle v Hv Hq).
      destruct (Z.ltb_spec (nthZ D v) (nthZ E v)); [|lia]. assert (existsb (fun v => nthZ D v <? nthZ E v) (vtilde g q) = true); [|congruence].
      apply existsb_exists. exists v. split; [now apply vtilde_spec|now apply Z.ltb_lt].
  - intros [Hle [v [Hv [Hq Hlt]]]]. split; auto. apply not_true_is_false. intros He. pose proof (proj1 B He v Hv Hq). lia. Qed.
End WF.

(* parking function generator: exactly the sequences over 1..n of length n that pass the predicate, each once *)
Lemma all_seqs_spec vals n a : In a (all_seqs vals n) <-> length a = n /\ forall x, In x a -> In x vals.
Proof. revert a. induction n as [|n IH]; intros a; cbn [all_seqs].
  - split; [intros [<-|[]]; split; auto; intros ? []|intros [H _]; destruct a; [now left|discriminate]].
  - rewrite in_flat_map. split.
    + intros [x [Hx Ha]]. apply in_map_iff in Ha. destruct Ha as [t [<- Ht]]. apply IH in Ht. destruct Ht. split; [cbn; lia|]. intros y [<-|Hy]; auto.
    + intros [HL Hv]. destruct a as [|x t]; [discriminate|]. exists x. split; [apply Hv; now left|]. apply in_map. apply IH. split; [cbn in HL; lia|intros; apply Hv; now right]. Qed.
Theorem generate_parking_spec n a : (0 < n)%nat ->
  (In a (generate_parking n) <-> length a = n /\ (forall x, In x a -> 1 <= x <= Z.of_nat n) /\ is_parking_n a n = true).
Proof. intros Hn. unfold generate_parking. destruct n; [lia|]. rewrite filter_In, all_seqs_spec. unfold range1. split.
  - intros [[HL Hv] Hp]. repeat split; auto; specialize (Hv x H); apply in_map_iff in Hv; destruct Hv as [i [<- Hi]]; apply in_seq in Hi; lia.
  - intros [HL [Hv Hp]]. repeat split; auto. intros x Hx. specialize (Hv x Hx). apply in_map_iff. exists (Z.to_nat x). split; [lia|apply in_seq; lia]. Qed.
