(* The top-level winnability entry points of the model: sink choice, optimized shortcuts, exactness of the verdict. *)
From Coq Require Import ZArith List Lia Bool Arith.
Import ListNotations.
From CF Require Import ZSum ListAux Defs LinEquiv Reduced Burn Genus Core GraphLink DharLink.
Open Scope Z_scope.

(* ---- argmin: index of the first minimum ---- *)
Lemma find_first_spec p l : forall i, (exists x, In x l /\ p x = true) ->
  let r := find_first p l i in
  (i <= r < i + length l)%nat /\ p (nth (r - i) l 0) = true /\ (forall j, (j < r - i)%nat -> p (nth j l 0) = false).
Proof. induction l as [|x t IH]; intros i [y [Hy Hp]]; [destruct Hy|]. cbn [find_first length].
  destruct (p x) eqn:E.
  - rewrite Nat.sub_diag. cbn [nth]. repeat split; auto; try lia; intros j Hj; lia.
  - destruct Hy as [->|Hy]; [congruence|]. destruct (IH (S i) (ex_intro _ y (conj Hy Hp))) as [H1 [H2 H3]].
    set (r := find_first p t (S i)) in *. replace (r - i)%nat with (S (r - S i)) by lia. cbn [nth]. split; [lia|]. split; [exact H2|].
    intros [|j] Hj; [exact E|]. apply H3. lia. Qed.
Lemma min_exists (l : list Z) : l <> [] -> exists x, In x l /\ forall y, In y l -> x <= y.
Proof. induction l as [|a l IH]; [congruence|]. intros _. destruct l as [|b l'].
  - exists a. split; [now left|]. intros y [<-|[]]. lia.
  - destruct IH as [x [Hx Hm]]; [congruence|]. destruct (Z_le_gt_dec a x).
    + exists a. split; [now left|]. intros y [<-|Hy]; [lia|]. specialize (Hm y Hy). lia.
    + exists x. split; [now right|]. intros y [<-|Hy]; [lia|]. auto. Qed.
Lemma is_minb_spec D x : is_minb D x = true <-> forall y, In y D -> x <= y.
Proof. unfold is_minb. rewrite forallb_forall. split; intros H y Hy; specialize (H y Hy); [now apply Z.leb_le|now apply Z.leb_le]. Qed.

Definition is_min_vertex (D : div) (q : nat) : Prop :=
  (q < length D)%nat /\ (forall v, (v < length D)%nat -> nthZ D q <= nthZ D v) /\
  (forall v, (v < length D)%nat -> nthZ D v = nthZ D q -> (q <= v)%nat).
Lemma argmin_spec D : D <> [] -> is_min_vertex D (argmin D).
Proof. intros Hne. unfold argmin. destruct (min_exists D Hne) as [x [Hx Hm]].
  destruct (find_first_spec (is_minb D) D 0%nat) as [H1 [H2 H3]]. { exists x. split; auto. now apply is_minb_spec. }
  set (r := find_first (is_minb D) D 0%nat) in *. rewrite Nat.sub_0_r in *. rewrite is_minb_spec in H2.
  unfold is_min_vertex, nthZ. split; [lia|]. split.
  - intros v Hv. apply H2. now apply nth_In.
  - intros v Hv Hvv. destruct (le_lt_dec r v); auto. exfalso. specialize (H3 v l). rewrite Hvv in H3.
    assert (is_minb D (nth r D 0) = true) by now apply is_minb_spec. congruence. Qed.
Lemma is_min_vertex_unique D q q' : is_min_vertex D q -> is_min_vertex D q' -> q = q'.
Proof. intros [H1 [H2 H3]] [H1' [H2' H3']]. pose proof (H2 q' H1'). pose proof (H2' q H1).
  assert (nthZ D q = nthZ D q') by lia. pose proof (H3 q' H1' (eq_sym H4)). pose proof (H3' q H1 H4). lia. Qed.

Section WF.
Variable g : graph.
Hypothesis Hwf : wfb g = true.
Local Notation V := (Vg g).
Local Notation m := (mult g).
Local Notation msym := (mult_sym g Hwf).
Local Notation mnn := (mult_nonneg g Hwf).
Local Notation mdiag := (mult_diag g Hwf).

Lemma argmin_in D : length D = nv g -> (0 < nv g)%nat -> In (argmin D) V.
Proof. intros HL Hn. apply in_Vg. assert (D <> []) by (destruct D; cbn in HL; [lia|congruence]).
  destruct (argmin_spec D H) as [Hlt _]. lia. Qed.

(* shortcut 1: negative degree *)
Lemma shortcut_neg D : degD g D < 0 -> ~ winnable V m (nthZ D).
Proof. apply neg_deg_unwinnable. apply msym. Qed.
(* shortcut 2: degree at least the genus, given a q-reduced representative *)
Lemma shortcut_genus q D R : In q V -> lequiv V m (nthZ D) (nthZ R) -> reduced V m q (nthZ R) ->
  genus_g g <= degD g D -> winnable V m (nthZ D).
Proof. intros Hq HE HR Hg. apply (winnable_lequiv V m _ _ HE). apply (reduced_winnable_iff V m mnn q); auto.
  apply (reduced_deg_ge_genus V m (Vg_nodup g) msym mdiag q Hq (nthZ R) mnn HR).
  unfold genus_g, degD in Hg. rewrite (lequiv_deg V m msym _ _ HE). exact Hg. Qed.

(* plain mode: exact for every fuel on which the model returns *)
Theorem ewd_plain_exact fuel D b r o : length D = nv g -> (0 < nv g)%nat ->
  ewd fuel g D false = Done (b, r, o) -> (b = true <-> winnable V m (nthZ D)).
Proof. intros HL Hn H. unfold ewd in H. cbn [andb] in H.
  destruct (ewd_q fuel g (argmin D) D) as [[[b0 R] B]|] eqn:E; [|discriminate]. inversion H; subst.
  apply (ewd_q_sound g Hwf) in E; auto using argmin_in. tauto. Qed.

(* optimized mode: exact whenever the reduction of D terminates at all (discharged by Termination) *)
Theorem ewd_opt_exact fuel D b r o : length D = nv g -> (0 < nv g)%nat ->
  (exists fuel0 x, ewd_q fuel0 g (argmin D) D = Done x) ->
  ewd fuel g D true = Done (b, r, o) -> (b = true <-> winnable V m (nthZ D)).
Proof. intros HL Hn [fuel0 [[[b0 R0] B0] H0]] H. unfold ewd in H. cbn [andb] in H.
  apply (ewd_q_sound g Hwf) in H0; auto using argmin_in. destruct H0 as [HE [HR [_ [_ Hiff]]]].
  destruct (Z.ltb_spec (degD g D) 0) as [Hneg|Hnn].
  - inversion H; subst. split; [discriminate|]. intros Hw. exfalso. exact (shortcut_neg D Hneg Hw).
  - destruct (Z.leb_spec (genus_g g) (degD g D)) as [Hge|Hlt].
    + inversion H; subst. split; auto. intros _. eapply shortcut_genus; eauto using argmin_in.
    + destruct (ewd_q fuel g (argmin D) D) as [[[b1 R] B]|] eqn:E; [|discriminate]. inversion H; subst.
      apply (ewd_q_sound g Hwf) in E; auto using argmin_in. tauto. Qed.

Corollary ewd_modes_agree f1 f2 D b1 r1 o1 b2 r2 o2 : length D = nv g -> (0 < nv g)%nat ->
  ewd f1 g D false = Done (b1, r1, o1) -> ewd f2 g D true = Done (b2, r2, o2) -> b1 = b2.
Proof. intros HL Hn H1 H2. pose proof (ewd_plain_exact _ _ _ _ _ HL Hn H1) as E1.
  assert (Hex : exists fuel0 x, ewd_q fuel0 g (argmin D) D = Done x).
  { unfold ewd in H1. cbn [andb] in H1. destruct (ewd_q f1 g (argmin D) D) as [x|] eqn:E; [|discriminate]. eauto. }
  pose proof (ewd_opt_exact _ _ _ _ _ HL Hn Hex H2) as E2.
  destruct b1, b2; auto; [assert (false = true) by tauto|assert (true = false) by (symmetry; tauto)]; congruence. Qed.
End WF.
