(* Every well-formed simple graph on n <= 5 vertices occurs in the enumeration simple_n n (one bit per vertex pair), so statements checked by kernel
   computation over simple_n n hold for EVERY simple graph of that size. *)
From Coq Require Import ZArith List Lia Bool Arith.
Import ListNotations.
From CF Require Import ZSum ListAux Defs Core Machines Config GraphLink BoundsLink.
Open Scope Z_scope.

Definition pair_index (n a b : nat) : nat := (a * (2 * n - a - 1) / 2 + (b - a - 1))%nat.
Definition graph_of_bits (n : nat) (bs : list Z) : graph :=
  tab n (fun v => tab n (fun w => if Nat.eqb v w then 0 else nthZ bs (pair_index n (Nat.min v w) (Nat.max v w)))).
Definition simple_n (n : nat) : list graph := map (graph_of_bits n) (all_seqs [0;1] (n * (n - 1) / 2)).

Lemma graph_eq_tab g : wfb g = true -> g = tab (nv g) (fun v => tab (nv g) (fun w => mult g v w)).
Proof. intros Hwf. apply (nth_ext _ _ [] []); [rewrite tab_length; reflexivity|]. intros v Hv. change (length g) with (nv g) in Hv.
  rewrite (nth_tab (nv g) _ [] v Hv). rewrite <- (wfb_rows g Hwf v Hv) at 1. unfold mult. symmetry. apply tab_nthZ. Qed.
Lemma in_all_seqs01 : forall k l, length l = k -> (forall x, In x l -> x = 0 \/ x = 1) -> In l (all_seqs [0;1] k).
Proof. induction k as [|k IH]; intros l HL H.
  - destruct l; [now left|discriminate].
  - destruct l as [|x l]; [discriminate|]. cbn [all_seqs]. apply in_flat_map. exists x. split.
    + destruct (H x (or_introl eq_refl)) as [-> | ->]; cbn; auto.
    + apply in_map. apply IH; [cbn in HL; lia|]. intros y Hy. apply H. now right. Qed.

Definition bits_of (g : graph) (n : nat) : list Z :=
  flat_map (fun a => map (fun b => mult g a b) (seq (S a) (n - S a))) (seq 0 n).

Section Complete.
Variable g : graph.
Hypothesis Hwf : wfb g = true.
Hypothesis Hs : simple g.
Lemma entry01 v w : (v < nv g)%nat -> (w < nv g)%nat -> mult g v w = 0 \/ mult g v w = 1.
Proof. intros Hv Hw. pose proof (mult_nonneg g Hwf v w). pose proof (Hs v w ltac:(apply in_seq; lia) ltac:(apply in_seq; lia)). lia. Qed.

Ltac small_n n :=
  unfold simple_n; apply in_map_iff; exists (bits_of g n); split;
  [ rewrite (graph_eq_tab g Hwf) at 2; unfold graph_of_bits; match goal with H : nv g = _ |- _ => rewrite H end;
    apply tab_ext; intros v Hv; apply tab_ext; intros w Hw;
    do 6 (try (destruct v as [|v])); try lia; do 6 (try (destruct w as [|w])); try lia;
    cbn [Nat.eqb]; try (symmetry; apply (mult_diag g Hwf)); unfold bits_of, pair_index; vm_compute nthZ; cbn -[mult];
    try reflexivity; try (apply (mult_sym g Hwf))
  | apply in_all_seqs01; [reflexivity|];
    intros x Hx; unfold bits_of in Hx; cbn [seq flat_map map app Nat.sub] in Hx;
    repeat (destruct Hx as [Hx|Hx]; [subst x; apply entry01; lia|]); destruct Hx ].

Lemma complete_5 : nv g = 5%nat -> In g (simple_n 5).
Proof. intros Hn. small_n 5%nat. Qed.
Lemma complete_4 : nv g = 4%nat -> In g (simple_n 4).
Proof. intros Hn. small_n 4%nat. Qed.
Lemma complete_3 : nv g = 3%nat -> In g (simple_n 3).
Proof. intros Hn. small_n 3%nat. Qed.
Lemma complete_2 : nv g = 2%nat -> In g (simple_n 2).
Proof. intros Hn. small_n 2%nat. Qed.
Lemma complete_1 : nv g = 1%nat -> In g (simple_n 1).
Proof. intros Hn. small_n 1%nat. Qed.
Theorem small_graphs_complete : (1 <= nv g <= 5)%nat -> In g (simple_n (nv g)).
Proof. intros H. destruct (nv g) as [|[|[|[|[|[|k]]]]]] eqn:E; try lia; [apply complete_1|apply complete_2|apply complete_3|apply complete_4|apply complete_5]; exact E. Qed.
End Complete.
