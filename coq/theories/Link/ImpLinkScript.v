(* CFiringScript.get_firings / set_firings / update_firings translated from /repo's current source (TranslatedImpCFiringScript.v, regenerated on every
   run by tools/translate_imp.py) refine the script machine sstep of Model/Machines.v. The Python script is a sparse dictionary (absent = 0). *)
From Coq Require Import ZArith List Lia Bool Arith.
Import ListNotations.
From CF Require Import ZSum ListAux Defs Core Machines GraphLink MachinesLink PyDict ImpRep TranslatedImpCFiringScript.
Open Scope Z_scope.

Definition rep_script (n : nat) (sd : dictZ) (s : list Z) : Prop := length s = n /\ forall v, (v < n)%nat -> d_get v 0 sd = nthZ s v.

Lemma d_get_set k k2 (x dflt : Z) d : d_get k2 dflt (d_set k x d) = if Nat.eqb k2 k then x else d_get k2 dflt d.
Proof. unfold d_get. rewrite d_find_set. destruct (Nat.eqb k2 k); reflexivity. Qed.

Theorem get_firings_refines n vs sd s v : rep_vset n vs -> rep_script n sd s ->
  CFiringScript_get_firings vs sd v = if Nat.ltb v n then PyOk (nthZ s v) else PyExn tt.
Proof. intros Hv [_ Hs]. unfold CFiringScript_get_firings. rewrite (Hv v). destruct (Nat.ltb_spec v n) as [A|A]; cbn [negb]; [rewrite Hs by exact A|]; reflexivity. Qed.
Theorem set_firings_refines n vs sd s v k : rep_vset n vs -> rep_script n sd s ->
  match CFiringScript_set_firings vs sd v k with
  | PyExn st => sstep n s (SSet v k) = Err /\ st = sd
  | PyOk sd' => exists s', sstep n s (SSet v k) = Ok s' /\ rep_script n sd' s' end.
Proof. intros Hv [HL Hs]. unfold CFiringScript_set_firings, sstep. rewrite (Hv v). destruct (Nat.ltb_spec v n) as [A|A]; cbn [negb]; [|split; reflexivity].
  eexists. split; [reflexivity|]. split; [rewrite upd_length; exact HL|]. intros u Hu. rewrite d_get_set, nthZ_upd, HL.
  destruct (Nat.eqb u v); cbn [andb]; [|apply Hs; exact Hu]. destruct (Nat.ltb_spec v n); [reflexivity|lia]. Qed.
Theorem update_firings_refines n vs sd s v k : rep_vset n vs -> rep_script n sd s ->
  match CFiringScript_update_firings vs sd v k with
  | PyExn st => sstep n s (SUpdate v k) = Err /\ st = sd
  | PyOk sd' => exists s', sstep n s (SUpdate v k) = Ok s' /\ rep_script n sd' s' end.
Proof. intros Hv Hs. unfold CFiringScript_update_firings. rewrite (get_firings_refines n vs sd s v Hv Hs).
  pose proof (set_firings_refines n vs sd s v (nthZ s v + k) Hv Hs) as H. unfold sstep in *. destruct (Nat.ltb v n); [|split; reflexivity].
  destruct (CFiringScript_set_firings vs sd v (nthZ s v + k)) as [sd'|st]; [exact H|destruct H as [H _]; discriminate]. Qed.
(* every script state is represented: the dense dictionary *)
Lemma rep_script_of s : rep_script (length s) (dict_of_div s) s.
Proof. split; [reflexivity|]. intros v Hv. unfold d_get, dict_of_div. rewrite d_find_of_fun, mem_seq0. destruct (Nat.ltb_spec v (length s)); [reflexivity|lia]. Qed.
Lemma rep_vset_of n : rep_vset n (seq 0 n).
Proof. intros v. unfold s_mem. fold (mem v (seq 0 n)). apply mem_seq0. Qed.
