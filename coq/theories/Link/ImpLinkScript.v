(* CFiringScript.get_firings / set_firings / update_firings translated from /repo's current source (TranslatedImpCFiringScript.v, regenerated on every
   run by tools/translate_imp.py) refine the script machine sstep of Model/Machines.v. The Python script is a sparse dictionary (absent = 0). *)
From Coq Require Import ZArith List Lia Bool Arith Permutation.
Import ListNotations.
From CF Require Import ZSum ListAux Defs Core Machines GraphLink MachinesLink PyDict ImpRep TranslatedImpCFiringScript TranslatedImpCFDivisor ImpLinkArith.
Open Scope Z_scope.

Definition rep_script (n : nat) (sd : dictZ) (s : list Z) : Prop := length s = n /\ forall v, (v < n)%nat -> d_get v 0 sd = nthZ s v.

Lemma d_get_set k k2 (x dflt : Z) d : d_get k2 dflt (d_set k x d) = if Nat.eqb k2 k then x else d_get k2 dflt d.
Proof. unfold d_get. rewrite d_find_set. destruct (Nat.eqb k2 k); reflexivity. Qed.

Theorem get_firings_refines n vs sd s v : rep_vset n vs -> rep_script n sd s ->
  CFiringScript_get_firings vs sd v = if Nat.ltb v n then PyOk (nthZ s v) else PyExn tt.
Proof. intros Hv [_ Hs]. unfold CFiringScript_get_firings. rewrite (Hv v). destruct (Nat.ltb_spec v n) as [A|A]; cbn [negb]; [rewrite Hs by exact A|]; reflexivity. Qed.
Theorem set_firings_refines n vs sd s v k : rep_vset n vs -> rep_script n sd s ->
  match CFiringScript_set_firings vs sd v k with
  | PyExn st => sstep n s (SSet v k) = Err /\ st = sd
  | PyOk sd' => exists s', sstep n s (SSet v k) = Ok s' /\ rep_script n sd' s' end.
Proof. intros Hv [HL Hs]. unfold CFiringScript_set_firings, sstep. rewrite (Hv v). destruct (Nat.ltb_spec v n) as [A|A]; cbn [negb]; [|split; reflexivity].
  eexists. split; [reflexivity|]. split; [rewrite upd_length; exact HL|]. intros u Hu. rewrite d_get_set, nthZ_upd, HL.
  destruct (Nat.eqb u v); cbn [andb]; [|apply Hs; exact Hu]. destruct (Nat.ltb_spec v n); [reflexivity|lia]. Qed.
Theorem update_firings_refines n vs sd s v k : rep_vset n vs -> rep_script n sd s ->
  match CFiringScript_update_firings vs sd v k with
  | PyExn st => sstep n s (SUpdate v k) = Err /\ st = sd
  | PyOk sd' => exists s', sstep n s (SUpdate v k) = Ok s' /\ rep_script n sd' s' end.
Proof. intros Hv Hs. unfold CFiringScript_update_firings. rewrite (get_firings_refines n vs sd s v Hv Hs).
  pose proof (set_firings_refines n vs sd s v (nthZ s v + k) Hv Hs) as H. unfold sstep in *. destruct (Nat.ltb v n); [|split; reflexivity].
  destruct (CFiringScript_set_firings vs sd v (nthZ s v + k)) as [sd'|st]; [exact H|destruct H as [H _]; discriminate]. Qed.
(* every script state is represented: the dense dictionary *)
Lemma rep_script_of s : rep_script (length s) (dict_of_div s) s.
Proof. split; [reflexivity|]. intros v Hv. unfold d_get, dict_of_div. rewrite d_find_of_fun, mem_seq0. destruct (Nat.ltb_spec v (length s)); [reflexivity|lia]. Qed.
Lemma rep_vset_of n : rep_vset n (seq 0 n).
Proof. intros v. unfold s_mem. fold (mem v (seq 0 n)). apply mem_seq0. Qed.

(* ---- the constructor CFiringScript(graph, script), translated from the current source: without a dictionary (None) the empty script; with one, every key must be a
   vertex of the graph - otherwise it raises - and the stored dictionary answers exactly the given firings, 0 for every vertex not mentioned ---- *)
Definition sinit_body (vs : list nat) (acc_ : pyres (list (nat * Z)) (list (nat * Z))) (kv_ : nat * Z) : pyres (list (nat * Z)) (list (nat * Z)) :=
  match acc_ with PyExn e_ => PyExn e_ | PyOk self_script => let '(vertex_name, firings) := kv_ in
  let vertex := vertex_name in
  if (negb (s_mem vertex vs)) then PyExn self_script else
  let self_script := d_set vertex firings self_script in PyOk self_script end.
Lemma sinit_exn vs L e : fold_left (sinit_body vs) L (PyExn e) = PyExn e.
Proof. induction L as [|x L IH]; [reflexivity|exact IH]. Qed.
Lemma sinit_loop n vs : rep_vset n vs -> forall L sd, forallb (fun kv => Nat.ltb (fst kv) n) L = true -> fold_left (sinit_body vs) L (PyOk sd) = PyOk (store_all L sd).
Proof. intros Hv. induction L as [|[k x] L IH]; intros sd H; [reflexivity|]. cbn [fold_left forallb fst] in *. unfold sinit_body at 2. cbn zeta.
  apply andb_true_iff in H. destruct H as [H1 H2]. rewrite (Hv k), H1. cbn [negb]. rewrite IH by exact H2. reflexivity. Qed.
Lemma sinit_loop_bad n vs : rep_vset n vs -> forall L sd, forallb (fun kv => Nat.ltb (fst kv) n) L = false -> exists e, fold_left (sinit_body vs) L (PyOk sd) = PyExn e.
Proof. intros Hv. induction L as [|[k x] L IH]; intros sd H; [discriminate|]. cbn [fold_left forallb fst] in *. unfold sinit_body at 2. cbn zeta.
  rewrite (Hv k). destruct (Nat.ltb k n); cbn [negb andb] in *; [apply IH; exact H|]. rewrite sinit_exn. eexists. reflexivity. Qed.
Lemma script_ctor_unfold vs gg sc : CFiringScript___init__ vs gg sc =
  match sc with Some d => match fold_left (sinit_body vs) d (PyOk []) with PyExn e_ => PyExn e_ | PyOk sd => PyOk sd end | None => PyOk [] end.
Proof. reflexivity. Qed.
Theorem script_ctor_refines n vs gg sc : rep_vset n vs -> (forall d, sc = Some d -> NoDup (d_keys d)) ->
  match sc with
  | None => CFiringScript___init__ vs gg sc = PyOk [] /\ rep_script n [] (tab n (fun _ => 0))
  | Some d => match CFiringScript___init__ vs gg sc with
              | PyOk sd => forallb (fun kv => Nat.ltb (fst kv) n) d = true /\ rep_script n sd (tab n (fun v => d_get v 0 d))
              | PyExn _ => forallb (fun kv => Nat.ltb (fst kv) n) d = false end end.
Proof. intros Hv Hnd. rewrite script_ctor_unfold. destruct sc as [d|].
  - destruct (forallb (fun kv => Nat.ltb (fst kv) n) d) eqn:Ef.
    + unfold dictZ in *. rewrite (sinit_loop n vs Hv d [] Ef). split; [reflexivity|]. split; [apply tab_length|]. intros v Hvn. rewrite nthZ_tab by exact Hvn.
      unfold d_get. rewrite store_all_find by (apply (Hnd d eq_refl)). destruct (d_find v d); reflexivity.
    + unfold dictZ in *. destruct (sinit_loop_bad n vs Hv d [] Ef) as [e He]. rewrite He. reflexivity.
  - split; [reflexivity|]. split; [apply tab_length|]. intros v Hvn. rewrite nthZ_tab by exact Hvn. reflexivity. Qed.

(* ---- the property `script`, translated from the current source: a fresh dictionary with one entry per vertex of the graph (whatever order the set is iterated in), holding
   get_firings of that vertex - the dense form of the sparse script ---- *)
Definition sp_body (vs : list nat) (sd : list (nat * Z)) (acc_ : pyres unit (list (nat * Z))) (vertex : nat) : pyres unit (list (nat * Z)) :=
  match acc_ with PyExn e_ => PyExn e_ | PyOk to_return =>
  match CFiringScript_get_firings vs sd vertex with PyExn _ => PyExn tt | PyOk t1_ => let to_return := d_set vertex t1_ to_return in PyOk to_return end end.
Lemma sp_loop n vs sd s : rep_vset n vs -> rep_script n sd s -> forall L, (forall v, In v L -> (v < n)%nat) -> forall r0,
  fold_left (sp_body vs sd) L (PyOk r0) = PyOk (store_all (map (fun v => (v, nthZ s v)) L) r0).
Proof. intros Hv Hs. induction L as [|x L IH]; intros HL r0; [reflexivity|]. cbn [fold_left map]. unfold sp_body at 2. rewrite (get_firings_refines n vs sd s x Hv Hs).
  assert (E : Nat.ltb x n = true) by (apply Nat.ltb_lt, HL; now left). rewrite E. cbn zeta. rewrite IH by (intros v Hx; apply HL; now right). reflexivity. Qed.
Theorem script_property_refines n vs sd s so : rep_vset n vs -> NoDup vs -> rep_script n sd s -> (forall l, Permutation (so l) l) ->
  exists dd, CFiringScript_script vs sd so = PyOk dd /\ rep_div n dd s.
Proof. intros Hv Hnd Hs Hso. unfold CFiringScript_script. cbv zeta.
  change (fold_left _ (so vs) (PyOk [])) with (fold_left (sp_body vs sd) (so vs) (PyOk [])). unfold dictZ in *.
  assert (Hin : forall v, In v (so vs) -> (v < n)%nat).
  { intros v H. apply (Permutation_in _ (Hso vs)) in H. apply s_mem_In in H. rewrite (Hv v) in H. apply Nat.ltb_lt. exact H. }
  rewrite (sp_loop n vs sd s Hv Hs (so vs) Hin []). eexists. split; [reflexivity|].
  assert (Hsn : NoDup (so vs)) by (apply (Permutation_NoDup (Permutation_sym (Hso vs))); exact Hnd).
  assert (Hk : map fst (map (fun v => (v, nthZ s v)) (so vs)) = so vs) by (rewrite map_map; cbn [fst]; apply map_id).
  destruct Hs as [HL _]. split; [exact HL|]. split; [apply store_all_nodup; constructor|].
  intros v. rewrite store_all_find by (rewrite Hk; exact Hsn). rewrite (d_find_graph_of (nthZ s) v (so vs)), (s_mem_perm v _ _ (Hso vs)), (Hv v).
  destruct (Nat.ltb v n); reflexivity. Qed.
