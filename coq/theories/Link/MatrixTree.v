(* The matrix-tree theorem in the form the library states it: for a connected multigraph and any sink q, the number of superstable
   configurations (counted by enumeration of the valence box, as count_superstables does) is |det| of the reduced Laplacian, and that
   determinant is not 0.  Route: the superstables are a transversal of Z^k modulo the rows of the reduced Laplacian (existence by termination of
   the reduction, uniqueness by C02_unique), and the index of a row lattice is |det| (Theory/LatticeIndex.v). *)
From Coq Require Import ZArith List Lia Bool Arith.
Import ListNotations.
From CF Require Import ZSum ListAux Defs LinEquiv Reduced Core Machines Config GraphLink MachinesLink MovesLink DharLink Termination Det LatticeIndex DetSign.
Open Scope Z_scope.

(* ---- list matrices and the functional determinant ---- *)
Definition matfun (L : list (list Z)) : nat -> nat -> Z := fun r c => nthZ (nth r L []) c.
Lemma nthZ_nil c : nthZ [] c = 0. Proof. unfold nthZ. destruct c; reflexivity. Qed.
Lemma drop_col_nil j : @drop_col Z j [] = [].
Proof. unfold drop_col. destruct j; reflexivity. Qed.
Lemma nthZ_drop_col : forall j row c, nthZ (drop_col j row) c = nthZ row (skip j c).
Proof. induction j as [|j IH]; intros row c.
  - unfold drop_col, skip. cbn [firstn app skipn Nat.ltb Nat.leb]. destruct row as [|a row]; [now rewrite !nthZ_nil|]. reflexivity.
  - destruct row as [|a row]; [rewrite drop_col_nil; now rewrite !nthZ_nil|].
    change (drop_col (S j) (a :: row)) with (a :: drop_col j row). destruct c as [|c].
    + reflexivity.
    + change (nthZ (a :: drop_col j row) (S c)) with (nthZ (drop_col j row) c). rewrite IH.
      replace (skip (S j) (S c)) with (S (skip j c)); [reflexivity|]. unfold skip. change (Nat.ltb (S c) (S j)) with (Nat.ltb c j). destruct (Nat.ltb c j); reflexivity. Qed.
Lemma drop_col_length {A} j (row : list A) : (j < length row)%nat -> length (drop_col j row) = pred (length row).
Proof. intros H. unfold drop_col. rewrite app_length, firstn_length, skipn_length. lia. Qed.

Lemma det_fuel_S f r rest : det_fuel (S f) (r :: rest) =
  zsum (fun j => (if Nat.even j then 1 else -1) * nthZ r j * det_fuel f (map (drop_col j) rest)) (seq 0 (length r)).
Proof. reflexivity. Qed.
Lemma det_fuel_fdet : forall k L, length L = k -> (forall r, In r L -> length r = k) -> det_fuel (S k) L = fdet k (matfun L).
Proof. induction k as [|k IH]; intros L HL Hrows.
  - destruct L; [reflexivity|discriminate].
  - destruct L as [|r rest]; [discriminate|]. rewrite det_fuel_S. rewrite (Hrows r) by now left. cbn [fdet]. apply zsum_ext. intros j Hj. apply in_seq in Hj.
    assert (E0 : (if Nat.even j then 1 else -1) = sgn j) by reflexivity. rewrite E0. change (matfun (r :: rest) O j) with (nthZ r j). f_equal.
    rewrite IH.
    + apply fdet_ext. intros a c Ha Hc. unfold minor, matfun. cbn [nth].
      replace (nth a (map (drop_col j) rest) []) with (drop_col j (nth a rest [])).
      * apply nthZ_drop_col.
      * rewrite <- (drop_col_nil j) at 2. symmetry. apply map_nth.
    + rewrite map_length. cbn in HL. lia.
    + intros x Hx. apply in_map_iff in Hx. destruct Hx as [y [<- Hy]]. assert (Ly : length y = S k) by (apply Hrows; now right). rewrite drop_col_length; rewrite Ly; lia. Qed.
Lemma det_fdet L : (forall r, In r L -> length r = length L) -> det L = fdet (length L) (matfun L).
Proof. intros H. unfold det. apply det_fuel_fdet; auto. Qed.

(* ---- positions: skip q enumerates the vertices other than q ---- *)
Lemma filter_all' {A} (p : A -> bool) l : (forall x, In x l -> p x = true) -> filter p l = l.
Proof. induction l as [|a l IH]; intros H; [reflexivity|]. cbn [filter]. rewrite (H a) by now left. f_equal. apply IH. intros; apply H; now right. Qed.
Lemma vtilde_tab : forall k q, (q <= k)%nat -> filter (fun v => negb (Nat.eqb v q)) (seq 0 (S k)) = tab k (skip q).
Proof. unfold tab. induction k as [|k IH]; intros q Hq.
  - assert (q = 0%nat) by lia. subst q. reflexivity.
  - rewrite seq_S, filter_app. cbn [plus filter]. destruct (Nat.eq_dec q (S k)) as [Q|Q].
    + subst q. rewrite Nat.eqb_refl. cbn [negb]. rewrite app_nil_r. rewrite filter_all'.
      * rewrite <- (map_id (seq 0 (S k))) at 1. apply map_ext_in. intros c Hc. apply in_seq in Hc. unfold skip. destruct (Nat.ltb_spec c (S k)); lia.
      * intros x Hx. apply in_seq in Hx. destruct (Nat.eqb_spec x (S k)); [lia|reflexivity].
    + rewrite IH by lia. destruct (Nat.eqb_spec (S k) q) as [Q'|Q']; [lia|]. cbn [negb]. rewrite (seq_S k), map_app. cbn [plus map]. f_equal.
      unfold skip. destruct (Nat.ltb_spec k q); [lia|reflexivity]. Qed.
Lemma skip_ne q i : skip q i <> q.
Proof. unfold skip. destruct (Nat.ltb_spec i q); lia. Qed.
Lemma skip_inj q i j : skip q i = skip q j -> i = j.
Proof. unfold skip. destruct (Nat.ltb_spec i q), (Nat.ltb_spec j q); lia. Qed.
Lemma skip_range q i k : (q <= k)%nat -> (i < k)%nat -> (skip q i < S k)%nat.
Proof. unfold skip. destruct (Nat.ltb_spec i q); lia. Qed.
Lemma skip_onto q k v : (q <= k)%nat -> (v < S k)%nat -> v <> q -> exists i, (i < k)%nat /\ v = skip q i.
Proof. intros Hqk Hv Hne. destruct (Nat.lt_ge_cases v q).
  - exists v. split; [lia|]. unfold skip. destruct (Nat.ltb_spec v q); lia.
  - exists (pred v). split; [lia|]. unfold skip. destruct (Nat.ltb_spec (pred v) q); lia. Qed.

Lemma insert_at_length q x (l : list Z) : (q <= length l)%nat -> length (insert_at q x l) = S (length l).
Proof. intros H. unfold insert_at. rewrite app_length. cbn [length]. rewrite firstn_length, skipn_length. lia. Qed.
Lemma nthZ_insert_skip : forall q x l i, (q <= length l)%nat -> nthZ (insert_at q x l) (skip q i) = nthZ l i.
Proof. induction q as [|q IH]; intros x l i H.
  - reflexivity.
  - destruct l as [|a l]; [cbn in H; lia|]. change (insert_at (S q) x (a :: l)) with (a :: insert_at q x l). destruct i as [|i]; [reflexivity|].
    replace (skip (S q) (S i)) with (S (skip q i)).
    + change (nthZ (a :: insert_at q x l) (S (skip q i))) with (nthZ (insert_at q x l) (skip q i)). rewrite IH by (cbn in H; lia). reflexivity.
    + unfold skip. change (Nat.ltb (S i) (S q)) with (Nat.ltb i q). destruct (Nat.ltb i q); reflexivity. Qed.

(* ---- boxes ---- *)
Lemma boxes_cons b t : boxes (b :: t) = prod_list (Z.to_nat b) (boxes t).
Proof. reflexivity. Qed.
Lemma boxes_nodup bs : NoDup (boxes bs).
Proof. induction bs as [|b t IH]; [constructor; [intros []|constructor]|]. rewrite boxes_cons. apply prod_list_nodup. exact IH. Qed.
Lemma in_boxes : forall bs c, In c (boxes bs) <-> (length c = length bs /\ forall i, (i < length bs)%nat -> 0 <= nthZ c i < nthZ bs i).
Proof. induction bs as [|b t IH]; intros c.
  - cbn [boxes In length]. split.
    + intros [<-|[]]. split; [reflexivity|]. intros i Hi. lia.
    + intros [H _]. left. destruct c; [reflexivity|discriminate].
  - rewrite boxes_cons. split.
    + intros Hin. destruct (in_prod_list_shape _ _ _ Hin) as [a [c' E]]. subst c. apply in_prod_list in Hin. destruct Hin as [Ha Hc']. apply IH in Hc'.
      destruct Hc' as [L B]. split; [cbn [length]; lia|]. intros i Hi. destruct i as [|i]; [unfold nthZ; cbn [nth]; lia|]. apply (B i). cbn [length] in Hi. lia.
    + intros [L B]. destruct c as [|a c']; [discriminate|]. apply in_prod_list. split.
      * specialize (B O ltac:(cbn; lia)). unfold nthZ in B. cbn [nth] in B. lia.
      * apply IH. split; [cbn [length] in L; lia|]. intros i Hi. apply (B (S i)). cbn [length]. lia. Qed.

Section MT.
Variable g : graph.
Hypothesis Hwf : wfb g = true.
Hypothesis Hc : connected_b g = true.
Variable q : nat.
Hypothesis Hq : In q (Vg g).
Local Notation V := (Vg g).
Local Notation m := (mult g).
Definition kk := pred (nv g).
Definition LQ : nat -> nat -> Z := fun r c => lap_entry g (skip q r) (skip q c).

Lemma nv_S : nv g = S kk.
Proof. unfold kk. apply in_seq in Hq. lia. Qed.
Lemma q_le : (q <= kk)%nat.
Proof. apply in_seq in Hq. unfold kk. lia. Qed.
Lemma vtilde_eq : vtilde g q = tab kk (skip q).
Proof. unfold vtilde, Vg. rewrite nv_S. apply vtilde_tab. apply q_le. Qed.
Lemma in_V_skip i : (i < kk)%nat -> In (skip q i) V.
Proof. intros H. apply in_seq. rewrite nv_S. pose proof (skip_range q i kk q_le H). lia. Qed.

Lemma lap_reduced_eq : lap_reduced g q = tab kk (fun r => tab kk (fun c => LQ r c)).
Proof. unfold lap_reduced. fold (vtilde g q). rewrite vtilde_eq. unfold tab. rewrite map_map. apply map_ext. intros r. rewrite map_map. reflexivity. Qed.
Lemma det_lap_reduced : det (lap_reduced g q) = fdet kk LQ.
Proof. rewrite det_fdet.
  - rewrite lap_reduced_eq, tab_length. apply fdet_ext. intros r c Hr Hcl. unfold matfun. rewrite (nth_tab kk _ [] r Hr). apply nthZ_tab. exact Hcl.
  - rewrite lap_reduced_eq, tab_length. intros r Hr. unfold tab in Hr. apply in_map_iff in Hr. destruct Hr as [i [<- _]]. apply tab_length. Qed.

(* (L s)(v) at the non-sink vertex number i is the combination of the rows of LQ with coefficients s - s(q) *)
Lemma lap_comb (s : nat -> Z) i : (i < kk)%nat -> lap V m s (skip q i) = comb kk LQ (fun r => s (skip q r) - s q) i.
Proof. intros Hi. unfold comb, LQ.
  transitivity (zsum (fun w => (s w - s q) * lap_entry g w (skip q i)) (vtilde g q)).
  2:{ rewrite vtilde_eq. unfold tab. rewrite zsum_map. reflexivity. }
  unfold vtilde. rewrite zsum_filter.
  rewrite (zsum_ext _ (fun w => lap_entry g (skip q i) w * (s w - s q))).
  2:{ intros w _. destruct (Nat.eqb_spec w q) as [Q|Q]; cbn [negb]; [rewrite Q; ring|]. rewrite (lap_symmetric g Hwf w). ring. }
  rewrite (lap_entry_sum g Hwf (fun w => s w - s q)) by (apply in_V_skip; exact Hi).
  unfold lap. apply zsum_ext. intros w _. ring. Qed.

Lemma reduced_ext_off D E : (forall v, In v V -> v <> q -> D v = E v) -> reduced V m q D -> reduced V m q E.
Proof. intros H [H1 H2]. split.
  - intros v Hv Hne. rewrite <- (H v Hv Hne). auto.
  - intros S Sq Hne HL. apply (H2 S Sq Hne). intros v Hv HS. rewrite (H v Hv); [auto|]. intros Q. subst v. congruence. Qed.
Lemma reduced_below_valence D v : reduced V m q D -> In v V -> v <> q -> D v < valg g v.
Proof. intros [_ H2] Hv Hne. destruct (Z_lt_le_dec (D v) (valg g v)) as [L|L]; [exact L|exfalso].
  apply (H2 (fun w => Nat.eqb w v)).
  - apply Nat.eqb_neq. auto.
  - exists v. split; [exact Hv|apply Nat.eqb_refl].
  - intros v' Hv' E. apply Nat.eqb_eq in E. subst v'. unfold outdeg.
    rewrite (zsum_ext _ (fun w => m v w - (if Nat.eqb w v then m v v else 0))).
    + rewrite zsum_sub, zsum_indicator by (auto using Vg_nodup). rewrite (mult_diag g Hwf). unfold valg, val in L. lia.
    + intros w _. destruct (Nat.eqb_spec w v) as [Q|Q]; [rewrite Q|]; lia. Qed.

Definition superstables : list (list Z) := filter (fun c => reduced_b g q (insert_at q 0 c)) (boxes (map (valg g) (vtilde g q))).
Lemma bounds_eq : map (valg g) (vtilde g q) = tab kk (fun i => valg g (skip q i)).
Proof. rewrite vtilde_eq. unfold tab. apply map_map. Qed.
Lemma in_superstables c : In c superstables <->
  (length c = kk /\ (forall i, (i < kk)%nat -> 0 <= nthZ c i < valg g (skip q i)) /\ reduced V m q (nthZ (insert_at q 0 c))).
Proof. unfold superstables. rewrite filter_In, in_boxes, bounds_eq, tab_length. rewrite (reduced_b_spec g Hwf q _ Hq). split.
  - intros [[L B] R]. split; [exact L|]. split; [|exact R]. intros i Hi. specialize (B i Hi). rewrite nthZ_tab in B by exact Hi. exact B.
  - intros [L [B R]]. split; [|exact R]. split; [exact L|]. intros i Hi. rewrite nthZ_tab by exact Hi. apply B. exact Hi. Qed.

Lemma off_q_cases v : In v V -> v <> q -> exists i, (i < kk)%nat /\ v = skip q i.
Proof. intros Hv Hne. apply in_seq in Hv. rewrite nv_S in Hv. apply skip_onto; [apply q_le|lia|exact Hne]. Qed.

Theorem superstables_transversal : transversal kk LQ superstables.
Proof. split; [|split; [|split]].
  - unfold superstables. apply NoDup_filter. apply boxes_nodup.
  - intros t Ht. apply in_superstables in Ht. tauto.
  - intros x Hx. set (D := insert_at q 0 x).
    assert (HD : length D = nv g) by (unfold D; rewrite insert_at_length, nv_S by (rewrite Hx; apply q_le); lia).
    destruct (ewd_q_terminates g Hwf Hc q D Hq HD) as [fuel [[[b R] B] Hrun]].
    destruct (ewd_q_sound g Hwf fuel q D b R B Hq HD Hrun) as [[s Hs] [Hred [HR _]]].
    set (t := tab kk (fun i => nthZ R (skip q i))).
    assert (Et : forall v, In v V -> v <> q -> nthZ R v = nthZ (insert_at q 0 t) v).
    { intros v Hv Hne. destruct (off_q_cases v Hv Hne) as [i [Hi ->]]. rewrite nthZ_insert_skip by (unfold t; rewrite tab_length; apply q_le).
      unfold t. rewrite nthZ_tab by exact Hi. reflexivity. }
    assert (Rt : reduced V m q (nthZ (insert_at q 0 t))) by (apply (reduced_ext_off (nthZ R)); assumption).
    exists t. split.
    + apply in_superstables. split; [apply tab_length|]. split; [|exact Rt]. intros i Hi. unfold t. rewrite nthZ_tab by exact Hi. split.
      * destruct Hred as [H1 _]. apply H1; [apply in_V_skip; exact Hi|apply skip_ne].
      * apply reduced_below_valence; [exact Hred|apply in_V_skip; exact Hi|apply skip_ne].
    + exists (fun r => s (skip q r) - s q). intros i Hi. rewrite <- lap_comb by exact Hi.
      specialize (Hs (skip q i) (in_V_skip i Hi)). unfold D in Hs. rewrite nthZ_insert_skip in Hs by (rewrite Hx; apply q_le).
      unfold t. rewrite nthZ_tab by exact Hi. lia.
  - intros t t' Ht Ht' [z Hz]. apply in_superstables in Ht. apply in_superstables in Ht'. destruct Ht as [L [_ R]], Ht' as [L' [_ R']].
    set (unskip := fun v => if Nat.ltb v q then v else pred v).
    set (s := fun v => if Nat.eqb v q then 0 else z (unskip v)).
    assert (Eun : forall r, unskip (skip q r) = r). { intros r. unfold unskip, skip. destruct (Nat.ltb_spec r q) as [A|A]; [destruct (Nat.ltb_spec r q); lia|destruct (Nat.ltb_spec (S r) q); lia]. }
    set (D := nthZ (insert_at q 0 t)). set (E := fun v => D v - lap V m s v).
    assert (EE : forall i, (i < kk)%nat -> E (skip q i) = nthZ t' i).
    { intros i Hi. unfold E, D. rewrite nthZ_insert_skip by (rewrite L; apply q_le). rewrite lap_comb by exact Hi.
      rewrite (comb_ext kk LQ LQ _ z i); [specialize (Hz i Hi); lia|reflexivity|].
      intros r _. unfold s. rewrite Nat.eqb_refl. destruct (Nat.eqb_spec (skip q r) q) as [Q|Q]; [exfalso; exact (skip_ne q r Q)|]. rewrite Eun. ring. }
    assert (RE : reduced V m q E).
    { apply (reduced_ext_off (nthZ (insert_at q 0 t'))); [|exact R']. intros v Hv Hne. destruct (off_q_cases v Hv Hne) as [i [Hi ->]].
      rewrite nthZ_insert_skip by (rewrite L'; apply q_le). symmetry. apply EE. exact Hi. }
    assert (U : forall v, In v V -> D v = E v).
    { apply (reduced_unique V m (mult_nonneg g Hwf) q D E Hq R RE). exists s. intros v _. reflexivity. }
    apply list_eq_nthZ; [lia|]. intros i Hi. rewrite L in Hi. rewrite <- (EE i Hi). rewrite <- (U (skip q i) (in_V_skip i Hi)).
    unfold D. rewrite nthZ_insert_skip by (rewrite L; apply q_le). reflexivity. Qed.

(* the reduced Laplacian is a weakly diagonally dominant Z-matrix, so its determinant is not negative *)
Lemma LQ_zdd : zdd kk LQ.
Proof. split.
  - intros r c Hr Hcl Hne. unfold LQ, lap_entry. destruct (Nat.eqb_spec (skip q r) (skip q c)) as [Q|Q]; [exfalso; apply Hne; exact (skip_inj q r c Q)|].
    pose proof (mult_nonneg g Hwf (skip q r) (skip q c)). lia.
  - intros r Hr. unfold LQ. set (v := skip q r).
    transitivity (zsum (fun w => lap_entry g v w) (vtilde g q)); [|rewrite vtilde_eq; unfold tab; rewrite zsum_map; lia].
    unfold vtilde. rewrite zsum_filter.
    rewrite (zsum_ext _ (fun w => lap_entry g v w - (if Nat.eqb w q then lap_entry g v q else 0))).
    2:{ intros w _. destruct (Nat.eqb_spec w q) as [Q|Q]; cbn [negb]; [rewrite Q|]; lia. }
    rewrite zsum_sub, zsum_indicator by (auto using Vg_nodup). rewrite (lap_row_sum_zero g Hwf v) by (apply in_V_skip; exact Hr).
    unfold lap_entry. destruct (Nat.eqb_spec v q) as [Q|Q]; [exfalso; exact (skip_ne q r Q)|]. pose proof (mult_nonneg g Hwf v q). lia. Qed.

Theorem matrix_tree_abs : count_superstables g q = Z.abs (det (lap_reduced g q)) /\ det (lap_reduced g q) <> 0.
Proof. rewrite det_lap_reduced. unfold count_superstables. fold superstables. apply lattice_index. apply superstables_transversal. Qed.
(* MATRIX-TREE: the number of superstable configurations w.r.t. q is the determinant of the reduced Laplacian, which is positive *)
Theorem matrix_tree : count_superstables g q = det (lap_reduced g q) /\ 0 < det (lap_reduced g q).
Proof. destruct matrix_tree_abs as [H1 H2]. assert (0 <= det (lap_reduced g q)) by (rewrite det_lap_reduced; apply zdd_det_nonneg; apply LQ_zdd). lia. Qed.
End MT.
