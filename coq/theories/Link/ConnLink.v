(* The executable connectivity test implies connectivity in the cut form used by the theory. *)
From Coq Require Import ZArith List Lia Bool Arith.
Import ListNotations.
From CF Require Import ZSum ListAux Defs Core GraphLink.
Open Scope Z_scope.

Section Conn.
Variable g : graph.
Hypothesis Hwf : wfb g = true.
Local Notation V := (Vg g).
Local Notation m := (mult g).

(* lists grown from [r0] by appending vertices adjacent to an earlier member *)
Inductive ReachSeq (r0 : nat) : list nat -> Prop :=
| rs0 : ReachSeq r0 [r0]
| rs1 R v w : ReachSeq r0 R -> In v V -> In w R -> 0 < m v w -> ReachSeq r0 (R ++ [v]).
Lemma reach_step_seq r0 R : ReachSeq r0 R -> ReachSeq r0 (reach_step g R).
Proof. unfold reach_step. assert (H : forall l R, (forall v, In v l -> In v V) -> ReachSeq r0 R ->
    ReachSeq r0 (fold_left (fun R v => if mem v R then R else if existsb (fun w => 0 <? m v w) R then R ++ [v] else R) l R)).
  { induction l as [|a l IH]; intros R0 Hl HR; cbn [fold_left]; auto. apply IH; [intros; apply Hl; now right|].
    destruct (mem a R0); auto. destruct (existsb (fun w => 0 <? m a w) R0) eqn:E; auto.
    apply existsb_exists in E. destruct E as [w [Hw Hm]]. apply Z.ltb_lt in Hm. eapply rs1; eauto. apply Hl. now left. }
  intros HR. apply H; auto. Qed.
Lemma reach_seq r0 : ReachSeq r0 (reach g r0).
Proof. unfold reach. generalize (nv g). intros k. assert (H : forall R, ReachSeq r0 R -> ReachSeq r0 (iter k (reach_step g) R)).
  { induction k as [|k IH]; intros R HR; cbn [iter]; auto. apply IH. now apply reach_step_seq. }
  apply H. constructor. Qed.
(* along such a list either all members are on the same side of a cut, or an edge crosses it *)
Lemma reachseq_cut r0 R (S : nat -> bool) : In r0 V -> ReachSeq r0 R ->
  (forall x, In x R -> S x = S r0) \/ (exists v w, In v V /\ In w V /\ S v = true /\ S w = false /\ 0 < m v w).
Proof. intros H0. induction 1 as [|R v w HR IH Hv Hw Hm].
  - left. intros x [<-|[]]. reflexivity.
  - destruct IH as [IH|IH]; [|now right]. destruct (Bool.bool_dec (S v) (S r0)) as [E|E].
    + left. intros x Hx. apply in_app_or in Hx. destruct Hx as [Hx|[<-|[]]]; auto.
    + right. assert (HwV : In w V). { clear - HR Hw H0. induction HR as [|R' v' w' HR' IH' Hv' Hw' Hm']; [destruct Hw as [<-|[]]; auto|]. apply in_app_or in Hw. destruct Hw as [Hw|[<-|[]]]; auto. }
      specialize (IH w Hw). destruct (S v) eqn:Sv.
      * exists v, w. repeat split; auto. rewrite IH. destruct (S r0); congruence.
      * exists w, v. repeat split; auto; [rewrite IH; destruct (S r0); congruence|]. now rewrite (mult_sym g Hwf). Qed.
Theorem connected_b_connected : connected_b g = true -> connected V m.
Proof. intros Hc S [a [Ha Sa]] [b [Hb Sb]]. apply negb_true_iff in Sb.
  assert (H0 : In 0%nat V). { apply in_Vg. apply in_Vg in Ha. lia. }
  unfold connected_b in Hc. rewrite forallb_forall in Hc.
  destruct (reachseq_cut 0%nat (reach g 0%nat) S H0 (reach_seq 0%nat)) as [Hall|Hcut]; auto.
  exfalso. pose proof (Hall a (proj1 (mem_In _ _) (Hc a Ha))) as E1. pose proof (Hall b (proj1 (mem_In _ _) (Hc b Hb))) as E2. congruence. Qed.
End Conn.
