(* CFConfig.is_superstable translated from /repo's current source (TranslatedImpCFConfigMoves.v): not in debt away from q, and for every size i = 1 .. |V - {q}| and every
   itertools.combinations(V - {q}, i) - subsequences of whatever order the set is iterated in - the translated is_legal_set_firing says "not legal".
   This is exactly superstable_enum of Model/Config.v (C10_superstable: the definition of superstability; C10_superstable_eq_burn: Dhar's criterion). *)
From Coq Require Import ZArith List Lia Bool Arith Permutation.
Import ListNotations.
From CF Require Import ZSum ListAux Defs Core Config Machines GraphLink MachinesLink ConfigLink PyDict ImpRep TranslatedImpCFDivisor ImpLinkDiv ImpLinkEq TranslatedImpCFConfigMoves ImpLinkConfigMoves ImpLinkConfigLegal.
Open Scope Z_scope.

Lemma combinations_0 l : combinations l 0 = [[]].
Proof. destruct l; reflexivity. Qed.
Lemma combinations_sub : forall l k U, In U (combinations l k) -> length U = k /\ forall x, In x U -> In x l.
Proof. induction l as [|a l IH]; intros k U H.
  - destruct k; cbn in H; [destruct H as [<-|[]]; split; [reflexivity|intros x []]|destruct H].
  - destruct k as [|k]; [cbn in H; destruct H as [<-|[]]; split; [reflexivity|intros x []]|]. cbn [combinations] in H. apply in_app_iff in H. destruct H as [H|H].
    + apply in_map_iff in H. destruct H as (T & <- & HT). destruct (IH k T HT) as [HL HI]. split; [cbn; lia|]. intros x [<-|Hx]; [now left|right; apply HI; exact Hx].
    + destruct (IH (Datatypes.S k) U H) as [HL HI]. split; [exact HL|]. intros x Hx. right. apply HI. exact Hx. Qed.
Lemma filter_in_combinations (p : nat -> bool) : forall l, In (filter p l) (combinations l (length (filter p l))).
Proof. induction l as [|a l IH]; [now left|]. cbn [filter]. destruct (p a).
  - cbn [length combinations]. apply in_app_iff. left. apply in_map. exact IH.
  - destruct (length (filter p l)) as [|k] eqn:E.
    + rewrite combinations_0. left. symmetry. apply length_zero_iff_nil. exact E.
    + cbn [combinations]. apply in_app_iff. right. exact IH. Qed.
Lemma filter_len_le {A} (p : A -> bool) l : (length (filter p l) <= length l)%nat.
Proof. induction l as [|a l IH]; [reflexivity|]. cbn [filter]. destruct (p a); cbn [length]; lia. Qed.

Section SUPER.
Variable g : graph.
Hypothesis Hwf : wfb g = true.
Variable gg : dictD.
Hypothesis Hgg : rep_graph gg g.
Variable vs : list nat.
Hypothesis Hvs : rep_vset (nv g) vs.
Hypothesis Hnd : NoDup vs.
Variables (q : nat) (vt : list nat).
Hypothesis Hvt : rep_vtilde (nv g) q vt.
Hypothesis Hndt : NoDup vt.
Hypothesis Hq : (q < nv g)%nat.
Variables (dd : dictZ) (D : list Z).
Hypothesis HD : rep_div (nv g) dd D.
Variable so : list nat -> list nat.
Hypothesis Hso : forall l, Permutation (so l) l.
Local Notation n := (nv g).
Local Notation V := (Vg g).
Local Notation m := (mult g).

Definition ss_inner (S_names_subset : list nat) : pyres unit (option bool * unit) :=
  match CFConfigMoves_is_legal_set_firing q vt vs dd gg so S_names_subset with PyExn _ => PyExn tt | PyOk t2_ => if t2_ then PyOk (Some (false), tt) else PyOk (None, tt) end.
Definition ss_outer (i : nat) : pyres unit (option bool * unit) :=
  match fold_left (retstep ss_inner) (combinations (so vt) i) (PyOk (None, tt)) with PyExn e_ => PyExn e_ | PyOk (Some r_, tt) => PyOk (Some r_, tt) | PyOk (None, tt) => PyOk (None, tt) end.
Lemma ss_unfold : CFConfigMoves_is_superstable vt q dd vs gg so =
  match CFConfigMoves_is_non_negative vt q dd so with PyExn _ => PyExn tt | PyOk t1_ => if (negb t1_) then PyOk false else
  match fold_left (retstep ss_outer) (seq 1 (length vt)) (PyOk (None, tt)) with PyExn e_ => PyExn e_ | PyOk (Some r_, tt) => PyOk r_ | PyOk (None, tt) => PyOk true end end.
Proof. reflexivity. Qed.

Lemma in_sovt v : In v (so vt) <-> ((v < n)%nat /\ v <> q).
Proof. split.
  - intros H. apply (Permutation_in _ (Hso vt)) in H. apply s_mem_In in H. rewrite (Hvt v) in H. apply andb_true_iff in H. destruct H as [A B]. apply Nat.ltb_lt in A. apply negb_true_iff, Nat.eqb_neq in B. auto.
  - intros [A B]. apply (Permutation_in _ (Permutation_sym (Hso vt))). apply s_mem_In. rewrite (Hvt v). apply andb_true_iff. split; [apply Nat.ltb_lt; exact A|apply negb_true_iff, Nat.eqb_neq; exact B]. Qed.
Lemma ss_inner_spec i S : (1 <= i)%nat -> In S (combinations (so vt) i) -> ss_inner S = if legal_b g D S then PyOk (Some false, tt) else PyOk (None, tt).
Proof. intros Hi HS. destruct (combinations_sub _ _ _ HS) as [HL Hin]. unfold ss_inner.
  rewrite (is_legal_set_firing_refines g Hwf gg Hgg vs Hvs Hnd q vt Hvt Hq dd D HD so Hso S). unfold is_legal_set_firing.
  destruct S as [|s0 S0]; [cbn in HL; lia|]. 
  assert (Ev : forallb (fun v => inb g v && negb (Nat.eqb v q)) (s0 :: S0) = true).
  { apply forallb_forall. intros x Hx. apply Hin, in_sovt in Hx. destruct Hx as [A B]. unfold inb. apply andb_true_iff. split; [apply Nat.ltb_lt; exact A|apply negb_true_iff, Nat.eqb_neq; exact B]. }
  rewrite Ev. reflexivity. Qed.

Definition all_illegal (i : nat) : Prop := forall S, In S (combinations (so vt) i) -> legal_b g D S = false.
Lemma ss_outer_spec i : (1 <= i)%nat -> (ss_outer i = PyOk (None, tt) /\ all_illegal i) \/ (ss_outer i = PyOk (Some false, tt) /\ ~ all_illegal i).
Proof. intros Hi. unfold ss_outer.
  destruct (retloop ss_inner (fun S => legal_b g D S = false) (combinations (so vt) i)) as [[E HP]|[E (S & HS & nP)]].
  - intros S HS. rewrite (ss_inner_spec i S Hi HS). destruct (legal_b g D S); [right|left]; split; auto. discriminate.
  - rewrite E. left. split; [reflexivity|exact HP].
  - rewrite E. right. split; [reflexivity|]. intros H. apply nP. apply H. exact HS. Qed.

(* the two directions between "no combination is legal" and the definition of superstability *)
Lemma char_agree S L : S q = false -> L = filter S (so vt) -> forall w, In w V -> mem w L = S w.
Proof. intros Hq0 -> w Hw. apply in_Vg in Hw. apply Bool.eq_true_iff_eq. rewrite mem_In, filter_In, in_sovt. split; [tauto|]. intros Hs. split; [|exact Hs]. split; [exact Hw|]. intros ->. congruence. Qed.
Lemma super_from_illegal : nonneg_off g q D = true -> (forall i, In i (seq 1 (length vt)) -> all_illegal i) -> superstable V m q (nthZ D).
Proof. intros Hnn Hall. split.
  - intros v Hv Hne. unfold nonneg_off in Hnn. rewrite forallb_forall in Hnn. specialize (Hnn v Hv). apply orb_true_iff in Hnn. destruct Hnn as [A|A]; [apply Nat.eqb_eq in A; contradiction|apply Z.leb_le; exact A].
  - intros S Hq0 (v & Hv & Sv) Hleg. set (L := filter S (so vt)).
    assert (HvL : In v L). { unfold L. apply filter_In. split; [|exact Sv]. apply in_sovt. split; [apply in_Vg; exact Hv|]. intros ->. congruence. }
    assert (Hlen : (1 <= length L)%nat) by (destruct L; [destruct HvL|cbn; lia]).
    assert (Hle : (length L <= length vt)%nat). { unfold L. rewrite <- (Permutation_length (Hso vt)). apply filter_len_le. }
    assert (Hill : legal_b g D L = false). { apply (Hall (length L)); [apply in_seq; lia|]. unfold L. apply filter_in_combinations. }
    assert (HLV : forall x, In x L -> In x V). { intros x Hx. unfold L in Hx. apply filter_In in Hx. destruct Hx as [Hx _]. apply in_sovt in Hx. apply in_Vg. tauto. }
    assert (legal_b g D L = true); [|congruence]. apply (legal_b_spec g D L HLV). split; [intros E; rewrite E in HvL; destruct HvL|].
    intros x Hx. rewrite (outdeg_ext g (fun w => mem w L) S x (char_agree S L Hq0 eq_refl)). apply Hleg; [apply HLV; exact Hx|]. unfold L in Hx. apply filter_In in Hx. tauto. Qed.
Lemma illegal_from_super i : superstable V m q (nthZ D) -> (1 <= i)%nat -> all_illegal i.
Proof. intros [_ Hs] Hi S HS. destruct (combinations_sub _ _ _ HS) as [HL Hin]. destruct (legal_b g D S) eqn:E; [|reflexivity]. exfalso.
  assert (HSV : forall x, In x S -> In x V). { intros x Hx. apply Hin, in_sovt in Hx. apply in_Vg. tauto. }
  apply (legal_b_spec g D S HSV) in E. destruct E as [Hne Hout].
  apply (Hs (fun w => mem w S)).
  - apply mem_false. intros Hx. apply Hin, in_sovt in Hx. tauto.
  - destruct S as [|s0 S0]; [contradiction|]. exists s0. split; [apply HSV; now left|apply mem_In; now left].
  - intros v Hv Sv. apply Hout. apply mem_In. exact Sv. Qed.

Theorem is_superstable_refines : CFConfigMoves_is_superstable vt q dd vs gg so = PyOk (superstable_enum g q D).
Proof. rewrite ss_unfold, (config_is_non_negative_refines g q vt Hvt Hndt dd D so HD Hso), <- nonneg_off_vtilde.
  assert (Hqv : In q V) by (apply in_Vg; exact Hq). pose proof (superstable_enum_spec g q D Hqv) as Hspec.
  destruct (nonneg_off g q D) eqn:Enn; cbn [negb].
  - destruct (retloop ss_outer all_illegal (seq 1 (length vt))) as [[E HP]|[E (i & Hi & nP)]].
    + intros i Hi. apply ss_outer_spec. apply in_seq in Hi. lia.
    + rewrite E. f_equal. symmetry. apply Hspec. apply super_from_illegal; [exact Enn|exact HP].
    + rewrite E. f_equal. symmetry. destruct (superstable_enum g q D) eqn:Es; [|reflexivity]. exfalso. apply nP. apply illegal_from_super; [apply Hspec; reflexivity|apply in_seq in Hi; lia].
  - f_equal. unfold superstable_enum. rewrite Enn. reflexivity. Qed.
End SUPER.
