(* q-reduction as a class function: uniqueness on concrete divisors, the decision procedure reduced_b, lin_equiv_q. *)
From Coq Require Import ZArith List Lia Bool Arith.
Import ListNotations.
From CF Require Import ZSum ListAux Defs LinEquiv Reduced Burn Core Cert GraphLink DharLink EwdLink.
Open Scope Z_scope.

Section WF.
Variable g : graph.
Hypothesis Hwf : wfb g = true.
Local Notation V := (Vg g).
Local Notation m := (mult g).
Local Notation msym := (mult_sym g Hwf).
Local Notation mnn := (mult_nonneg g Hwf).

Lemma div_eqb_spec n D E : div_eqb n D E = true <-> forall v, (v < n)%nat -> nthZ D v = nthZ E v.
Proof. unfold div_eqb. rewrite forallb_forall. split; intros H v Hv.
  - apply Z.eqb_eq. apply H. now apply in_seq0.
  - apply Z.eqb_eq. apply H. now apply in_seq0. Qed.
Lemma reduced_unique_list q R1 R2 : In q V -> length R1 = nv g -> length R2 = nv g ->
  reduced V m q (nthZ R1) -> reduced V m q (nthZ R2) -> lequiv V m (nthZ R1) (nthZ R2) -> R1 = R2.
Proof. intros Hq L1 L2 H1 H2 HE. apply list_eq_nthZ; [congruence|]. intros v Hv.
  apply (reduced_unique V m mnn q _ _ Hq H1 H2 HE). apply in_Vg. lia. Qed.

Theorem q_reduction_spec fuel D q R : length D = nv g -> (0 < nv g)%nat -> q_reduction fuel g D = Done (q, R) ->
  lequiv V m (nthZ D) (nthZ R) /\ reduced V m q (nthZ R) /\ is_min_vertex D q /\ length R = nv g.
Proof. intros HL Hn H. unfold q_reduction in H. destruct (ewd_q fuel g (argmin D) D) as [[[b R0] B]|] eqn:E; [|discriminate]. inversion H; subst.
  apply (ewd_q_sound g Hwf) in E; auto using argmin_in. destruct E as [E1 [E2 [E3 _]]].
  split; [exact E1|]. split; [exact E2|]. split; [|exact E3].
  apply argmin_spec. destruct D; cbn in HL; [lia|congruence]. Qed.

(* equivalent inputs, same sink: identical outputs *)
Theorem reduction_class_function f1 f2 q D E b1 R1 B1 b2 R2 B2 : In q V -> length D = nv g -> length E = nv g ->
  lequiv V m (nthZ D) (nthZ E) -> ewd_q f1 g q D = Done (b1, R1, B1) -> ewd_q f2 g q E = Done (b2, R2, B2) -> R1 = R2 /\ b1 = b2.
Proof. intros Hq LD LE HDE H1 H2. apply (ewd_q_sound g Hwf) in H1; auto. apply (ewd_q_sound g Hwf) in H2; auto.
  destruct H1 as [A1 [A2 [A3 [A4 _]]]]. destruct H2 as [C1 [C2 [C3 [C4 _]]]].
  assert (R1 = R2). { apply (reduced_unique_list q); auto.
    apply (lequiv_trans V m _ (nthZ D)); [apply lequiv_sym; exact A1|]. apply (lequiv_trans V m _ (nthZ E)); [exact HDE|exact C1]. }
  subst. split; auto. Qed.

(* is_q_reduced, specification: D is its own reduction iff reduced_b says so *)
Theorem is_q_reduced_spec fuel q D b R B : In q V -> length D = nv g -> ewd_q fuel g q D = Done (b, R, B) ->
  (reduced_b g q D = true <-> R = D).
Proof. intros Hq HL H. apply (ewd_q_sound g Hwf) in H; auto. destruct H as [A1 [A2 [A3 _]]]. rewrite (reduced_b_spec g Hwf) by auto. split.
  - intros HD. symmetry. apply (reduced_unique_list q); auto.
  - intros ->. exact A2. Qed.

Theorem lin_equiv_q_spec fuel q D E b : In q V -> length D = nv g -> length E = nv g ->
  lin_equiv_q fuel g q D E = Done b -> (b = true <-> lequiv V m (nthZ D) (nthZ E)).
Proof. intros Hq LD LE H. unfold lin_equiv_q in H.
  destruct (ewd_q fuel g q D) as [[[b1 R1] B1]|] eqn:E1; [|discriminate]. destruct (ewd_q fuel g q E) as [[[b2 R2] B2]|] eqn:E2; [|discriminate].
  inversion H; subst. pose proof E1 as S1. pose proof E2 as S2.
  apply (ewd_q_sound g Hwf) in S1; auto. apply (ewd_q_sound g Hwf) in S2; auto.
  destruct S1 as [A1 [A2 [A3 _]]]. destruct S2 as [C1 [C2 [C3 _]]]. split.
  - intros Hb. pose proof (proj1 (div_eqb_spec _ _ _) Hb) as Hb'. apply (lequiv_trans V m _ (nthZ R1)); [exact A1|]. apply lequiv_sym.
    apply (lequiv_ext V m (nthZ E) (nthZ E) (nthZ R2) (nthZ R1)); [auto| |exact C1]. intros v Hv. symmetry. apply Hb'. now apply in_Vg.
  - intros HDE. destruct (reduction_class_function _ _ q D E _ _ _ _ _ _ Hq LD LE HDE E1 E2) as [-> _].
    apply (proj2 (div_eqb_spec _ _ _)). auto. Qed.

Theorem conc_ok_sound fuel q D D' : In q V -> length D = nv g -> conc_ok fuel g q D D' = Done true ->
  (forall v, In v V -> v <> q -> 0 <= nthZ D' v) /\ lequiv V m (nthZ D) (nthZ D') /\ degD g D' = degD g D.
Proof. intros Hq LD H. unfold conc_ok in H. destruct (nonneg_off g q D' && Nat.eqb (length D') (nv g)) eqn:E; [|discriminate].
  apply andb_true_iff in E. destruct E as [E1 E2]. apply Nat.eqb_eq in E2. pose proof (proj1 (nonneg_off_spec g q D') E1) as E1'.
  apply lin_equiv_q_spec in H; auto. assert (HE : lequiv V m (nthZ D) (nthZ D')) by tauto.
  split; [exact E1'|]. split; [exact HE|]. apply (degD_lequiv g Hwf). exact HE. Qed.
End WF.
