(* How dictionaries (Base/PyDict.v) represent model states: divisors, adjacency rows, graphs. Shared by ImpLinkDiv.v and ImpLinkGraph.v. *)
From Coq Require Import ZArith List Lia Bool Arith Permutation.
Import ListNotations.
From CF Require Import ZSum ListAux Defs Core Machines GraphLink MachinesLink PyDict.
Open Scope Z_scope.

(* ---- representation of model states by dictionaries ---- *)
Definition rep_div (n : nat) (dd : dictZ) (D : list Z) : Prop :=
  length D = n /\ NoDup (d_keys dd) /\ forall v, d_find v dd = if Nat.ltb v n then Some (nthZ D v) else None.
Definition rep_row (g : graph) (v : nat) (row : dictZ) : Prop :=
  NoDup (d_keys row) /\ forall w, d_find w row = if 0 <? mult g v w then Some (mult g v w) else None.
Definition rep_graph (gg : dictD) (g : graph) : Prop :=
  forall v, if Nat.ltb v (nv g) then exists row, d_find v gg = Some row /\ rep_row g v row else d_find v gg = None.

Definition rep_vset (n : nat) (vs : list nat) : Prop := forall v, s_mem v vs = Nat.ltb v n.
Lemma rep_div_intro n dd (f : nat -> Z) : NoDup (d_keys dd) -> (forall v, d_find v dd = if Nat.ltb v n then Some (f v) else None) -> rep_div n dd (tab n f).
Proof. intros H1 H2. split; [apply tab_length|]. split; [exact H1|]. intros v. rewrite H2. destruct (Nat.ltb_spec v n); [rewrite nthZ_tab by assumption|]; reflexivity. Qed.

(* sums over the keys of a row *)
Lemma zsum_support (f : nat -> Z) ks V : NoDup ks -> NoDup V -> incl ks V -> (forall u, In u V -> ~ In u ks -> f u = 0) -> zsum f ks = zsum f V.
Proof. intros Hk HV Hi Hz. rewrite (zsum_ext f (fun u => if mem u ks then f u else 0) V).
  - rewrite <- zsum_filter. apply zsum_perm. apply NoDup_Permutation; [exact Hk|apply NoDup_filter; exact HV|].
    intros x. rewrite filter_In, mem_In. split; [intros H; split; auto|tauto].
  - intros u Hu. destruct (mem u ks) eqn:E; [reflexivity|]. apply Hz; [exact Hu|]. intros Q. apply mem_In in Q. congruence. Qed.

Lemma d_keys_set_nodup {A} k (x : A) d : NoDup (d_keys d) -> NoDup (d_keys (d_set k x d)).
Proof. intros H. destruct (d_mem k d) eqn:E; [rewrite d_keys_set_present by exact E; exact H|].
  assert (Hk : ~ In k (d_keys d)) by (intros Q; apply d_find_in_keys in Q; congruence). clear E.
  induction d as [|[k' y] t IH]; cbn [d_set d_keys map fst]; [constructor; [intros []|constructor]|].
  cbn [d_keys map fst] in H, Hk. inversion H as [|? ? Hn Hd]; subst. destruct (Nat.eqb_spec k' k) as [Q|Q]; [exfalso; apply Hk; now left|].
  cbn [map fst]. constructor.
  - intros Hin. change (In k' (d_keys (d_set k x t))) in Hin. apply d_find_in_keys in Hin. unfold d_mem in Hin. rewrite d_find_set_other in Hin by exact Q.
    apply Hn. apply (d_find_in_keys k' t). exact Hin.
  - apply IH; [exact Hd|]. intros Q'. apply Hk. now right. Qed.

Lemma rep_graph_mem gg g v : rep_graph gg g -> d_mem v gg = Nat.ltb v (nv g).
Proof. intros H. pose proof (H v) as Hv. unfold d_mem. destruct (Nat.ltb v (nv g)); [destruct Hv as (row & -> & _); reflexivity|rewrite Hv; reflexivity]. Qed.

(* ---- every model state is represented by some dictionaries (the refinement theorems are not vacuous) ---- *)
Definition dict_of_fun {A} (f : nat -> A) (p : nat -> bool) (l : list nat) : list (nat * A) := map (fun w => (w, f w)) (filter p l).
Lemma d_find_of_fun {A} (f : nat -> A) p l v : d_find v (dict_of_fun f p l) = if mem v l && p v then Some (f v) else None.
Proof. unfold dict_of_fun. induction l as [|a l IH]; [reflexivity|]. cbn [filter]. unfold mem. cbn [existsb]. fold (mem v l). rewrite (Nat.eqb_sym v a).
  destruct (p a) eqn:Pa; cbn [map d_find].
  - destruct (Nat.eqb_spec a v) as [->|Q]; [rewrite Pa; reflexivity|]. cbn [orb]. exact IH.
  - destruct (Nat.eqb_spec a v) as [->|Q]; cbn [orb]; [|exact IH]. rewrite Pa, andb_false_r in *. rewrite IH. destruct (mem v l); reflexivity. Qed.
Lemma d_keys_of_fun {A} (f : nat -> A) p l : d_keys (dict_of_fun f p l) = filter p l.
Proof. unfold d_keys, dict_of_fun. rewrite map_map. cbn [fst]. apply map_id. Qed.
Definition dict_of_div (D : list Z) : dictZ := dict_of_fun (nthZ D) (fun _ => true) (seq 0 (length D)).
Definition dict_of_row (g : graph) (v : nat) : dictZ := dict_of_fun (mult g v) (fun w => 0 <? mult g v w) (Vg g).
Definition dict_of_graph (g : graph) : dictD := dict_of_fun (dict_of_row g) (fun _ => true) (Vg g).
Lemma mem_seq0 v k : mem v (seq 0 k) = Nat.ltb v k.
Proof. destruct (Nat.ltb_spec v k) as [H|H]; [apply mem_In, in_seq; lia|apply mem_false; intros Q; apply in_seq in Q; lia]. Qed.
Lemma rep_div_of D : rep_div (length D) (dict_of_div D) D.
Proof. split; [reflexivity|]. split.
  - unfold dict_of_div. rewrite d_keys_of_fun. apply NoDup_filter, seq_NoDup.
  - intros v. unfold dict_of_div. rewrite d_find_of_fun, mem_seq0, andb_true_r. reflexivity. Qed.
Lemma rep_graph_of g : wfb g = true -> rep_graph (dict_of_graph g) g.
Proof. intros Hwf v. unfold dict_of_graph. rewrite d_find_of_fun. unfold Vg. rewrite mem_seq0, andb_true_r. destruct (Nat.ltb_spec v (nv g)) as [Hv|Hv]; [|reflexivity].
  eexists. split; [reflexivity|]. split.
  - unfold dict_of_row. rewrite d_keys_of_fun. apply NoDup_filter, Vg_nodup.
  - intros w. unfold dict_of_row. rewrite d_find_of_fun. unfold Vg. rewrite mem_seq0. destruct (Nat.ltb_spec w (nv g)) as [Hw|Hw]; [reflexivity|].
    cbn [andb]. rewrite (mult_out_r g Hwf) by exact Hw. reflexivity. Qed.
