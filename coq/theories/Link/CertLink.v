(* The orientation certificate (C09): soundness of the checker for arbitrary orientations, and the fact that the
   orientation produced by the model's own final burn always passes it. Burn facts for C08. *)
From Coq Require Import ZArith List Lia Bool Arith.
Import ListNotations.
From CF Require Import ZSum ListAux Defs LinEquiv Reduced Burn Core Cert GraphLink DharLink.
Open Scope Z_scope.

(* ---- index_of ---- *)
Lemma index_lt_in v l : (index_of v l < length l)%nat <-> In v l.
Proof. induction l as [|x t IH]; cbn [index_of length In]; [lia|]. destruct (Nat.eqb_spec x v); [split; [auto|lia]|].
  rewrite <- Nat.succ_lt_mono, IH. split; [auto|]. intros [H|H]; [congruence|auto]. Qed.
Lemma index_app_in w B r : In w B -> index_of w (B ++ r) = index_of w B.
Proof. induction B as [|x t IH]; intros H; [destruct H|]. cbn [index_of app]. destruct (Nat.eqb_spec x w); auto.
  destruct H; [congruence|]. now rewrite IH. Qed.
Lemma index_app_notin w B r : ~ In w B -> index_of w (B ++ r) = (length B + index_of w r)%nat.
Proof. induction B as [|x t IH]; intros H; [reflexivity|]. cbn [index_of app length]. destruct (Nat.eqb_spec x w); [subst; exfalso; apply H; now left|].
  rewrite IH; [lia|]. intro; apply H; now right. Qed.
Lemma index_split_lt w v B1 B2 : ~ In v B1 -> (index_of w (B1 ++ v :: B2) < index_of v (B1 ++ v :: B2))%nat <-> In w B1.
Proof. intros Hv. rewrite (index_app_notin v B1) by auto. cbn [index_of]. rewrite Nat.eqb_refl, Nat.add_0_r. split.
  - intros H. destruct (in_dec Nat.eq_dec w B1); auto. rewrite index_app_notin in H by auto. lia.
  - intros H. rewrite index_app_in by auto. now apply index_lt_in. Qed.

Section WF.
Variable g : graph.
Hypothesis Hwf : wfb g = true.
Local Notation V := (Vg g).
Local Notation m := (mult g).
Local Notation msym := (mult_sym g Hwf).
Local Notation mnn := (mult_nonneg g Hwf).
Local Notation mdiag := (mult_diag g Hwf).

(* in-degrees of a checked orientation are bounded by the in-degrees of its claimed order *)
Lemma cert_indeg_le q R o pos : cert_ok g q R o pos = true -> forall v, In v V -> indeg_o g o v <= indeg_pos V m (fun x => nth x pos 0%nat) v.
Proof. intros Hc v Hv. unfold cert_ok in Hc. apply andb_true_iff in Hc. destruct Hc as [Hc _]. apply andb_true_iff in Hc. destruct Hc as [H1 _].
  rewrite forallb_forall in H1. set (posf := fun x => nth x pos 0%nat).
  unfold indeg_o, indeg_pos. apply zsum_le. intros w Hw. pose proof (mnn v w) as Hnn.
  destruct (o_mem o w v) eqn:Eo; [|destruct (Nat.ltb (posf w) (posf v)); lia].
  destruct (Z.ltb_spec 0 (m w v)) as [Hpos|Hz].
  - specialize (H1 w Hw). rewrite forallb_forall in H1. specialize (H1 v Hv). apply Z.ltb_lt in Hpos. rewrite Hpos in H1.
    apply andb_true_iff in H1. destruct H1 as [_ H1]. rewrite Eo in H1. cbn [implb] in H1. change (Nat.ltb (posf w) (posf v) = true) in H1. rewrite H1. lia.
  - rewrite (msym v w). pose proof (mnn w v). assert (m w v = 0) by lia. rewrite H0. destruct (Nat.ltb (posf w) (posf v)); lia. Qed.
Lemma index_of_nth v B : In v B -> nth (index_of v B) B 0%nat = v.
Proof. induction B as [|x t IH]; intros H; [destruct H|]. cbn [index_of]. destruct (Nat.eqb_spec x v) as [->|Hne]; [reflexivity|].
  destruct H as [->|H]; [congruence|]. cbn [nth]. auto. Qed.
Lemma index_of_inj B v w : In v B -> In w B -> index_of v B = index_of w B -> v = w.
Proof. intros Hv Hw E. rewrite <- (index_of_nth v B Hv), <- (index_of_nth w B Hw). now rewrite E. Qed.

(* ---- soundness of the certificate checker, for any orientation and any claimed order ---- *)
Theorem cert_sound q R o pos : In q V -> cert_ok g q R o pos = true -> nthZ R q < 0 -> ~ winnable V m (nthZ R).
Proof. intros Hq Hc Hneg. unfold cert_ok in Hc. apply andb_true_iff in Hc. destruct Hc as [Hc H3]. apply andb_true_iff in Hc. destruct Hc as [H1 H2].
  rewrite forallb_forall in H1, H3.
  set (posf := fun v => nth v pos 0%nat).
  apply (dominated_unwinnable V m mnn posf). { intro E. rewrite E in Hq. destruct Hq. }
  intros v Hv. unfold orient_div.
  assert (Hle : indeg_o g o v <= indeg_pos V m posf v).
  { unfold indeg_o, indeg_pos. apply zsum_le. intros w Hw. pose proof (mnn v w) as Hnn.
    destruct (o_mem o w v) eqn:Eo; [|destruct (Nat.ltb (posf w) (posf v)); lia].
    destruct (Z.ltb_spec 0 (m w v)) as [Hpos|Hz].
    - specialize (H1 w Hw). rewrite forallb_forall in H1. specialize (H1 v Hv). apply Z.ltb_lt in Hpos. rewrite Hpos in H1.
      apply andb_true_iff in H1. destruct H1 as [_ H1]. rewrite Eo in H1. cbn [implb] in H1. change (Nat.ltb (posf w) (posf v) = true) in H1. rewrite H1. lia.
    - rewrite (msym v w). pose proof (mnn w v). assert (m w v = 0) by lia. rewrite H0. destruct (Nat.ltb (posf w) (posf v)); lia. }
  destruct (Nat.eqb_spec v q) as [->|Hne].
  - assert (0 <= indeg_pos V m posf q). { unfold indeg_pos. apply zsum_nonneg. intros w _. destruct (Nat.ltb (posf w) (posf q)); [apply mnn|lia]. } lia.
  - specialize (H3 v Hv). apply orb_true_iff in H3. destruct H3 as [H3|H3]; [apply Nat.eqb_eq in H3; congruence|].
    apply andb_true_iff in H3. destruct H3 as [_ H3]. apply Z.ltb_lt in H3. lia. Qed.

(* what a passing certificate says, spelled out: full, consistent with the order (hence acyclic), q only source, chips < indegree *)
Theorem cert_ok_meaning q R o pos : cert_ok g q R o pos = true ->
  (forall v w, In v V -> In w V -> 0 < m v w -> (o_mem o v w = true /\ o_mem o w v = false) \/ (o_mem o v w = false /\ o_mem o w v = true)) /\
  (forall v w, In v V -> In w V -> 0 < m v w -> o_mem o v w = true -> (nth v pos 0 < nth w pos 0)%nat) /\
  indeg_o g o q = 0 /\ (forall v, In v V -> v <> q -> 1 <= indeg_o g o v /\ nthZ R v < indeg_o g o v).
Proof. intros Hc. unfold cert_ok in Hc. apply andb_true_iff in Hc. destruct Hc as [Hc H3]. apply andb_true_iff in Hc. destruct Hc as [H1 H2].
  rewrite forallb_forall in H1, H3. apply Z.eqb_eq in H2.
  assert (HH : forall v w, In v V -> In w V -> 0 < m v w -> xorb (o_mem o v w) (o_mem o w v) = true /\ implb (o_mem o v w) (Nat.ltb (nth v pos 0%nat) (nth w pos 0%nat)) = true).
  { intros v w Hv Hw Hm. specialize (H1 v Hv). rewrite forallb_forall in H1. specialize (H1 w Hw). apply Z.ltb_lt in Hm. rewrite Hm in H1. now apply andb_true_iff in H1. }
  split; [|split; [|split; [exact H2|]]].
  - intros v w Hv Hw Hm. destruct (HH v w Hv Hw Hm) as [Hx _]. destruct (o_mem o v w), (o_mem o w v); cbn in Hx; try discriminate; auto.
  - intros v w Hv Hw Hm Ho. destruct (HH v w Hv Hw Hm) as [_ Hi]. rewrite Ho in Hi. cbn [implb] in Hi. now apply Nat.ltb_lt.
  - intros v Hv Hne. specialize (H3 v Hv). apply orb_true_iff in H3. destruct H3 as [H3|H3]; [apply Nat.eqb_eq in H3; congruence|].
    apply andb_true_iff in H3. destruct H3 as [Ha Hb]. apply Z.leb_le in Ha. apply Z.ltb_lt in Hb. auto. Qed.

(* ---- the model's own burn produces a passing certificate ---- *)
Section OwnBurn.
Variable q : nat.
Variable D : div.
Hypothesis Hq : In q V.
Local Notation BS := (BurnSeq V m q (nthZ D)).

Lemma burnseq_head B : BS B -> exists t, B = q :: t.
Proof. induction 1 as [|B v HB [t ->] _ _ _]; [exists []; reflexivity|]. exists (t ++ [v]). reflexivity. Qed.
Lemma burnseq_prefix B : BS B -> forall B1 v B2, B = B1 ++ v :: B2 -> v <> q -> nthZ D v < edges_to V m v B1.
Proof. induction 1 as [|B v0 HB IH Hv Hn Hlt]; intros B1 v B2 E Hne.
  - destruct B1 as [|x B1]; cbn in E; [inversion E; congruence|]. inversion E. destruct B1; discriminate.
  - destruct (exists_last (l := v :: B2)) as [l' [x Ex]]; [discriminate|].
    destruct B2 as [|y B2'].
    + apply app_inj_tail in E. destruct E as [-> ->]. exact Hlt.
    + assert (E' : B ++ [v0] = (B1 ++ v :: removelast (y :: B2')) ++ [last (y :: B2') 0%nat]).
      { rewrite E. rewrite <- app_assoc. f_equal. cbn [app]. f_equal. apply app_removelast_last. discriminate. }
      apply app_inj_tail in E'. destruct E' as [E' _]. eapply IH; eauto. Qed.

Lemma o_mem_burn B v w : In v V -> In w V ->
  o_mem (burn_orient g B) v w = (0 <? m v w) && Nat.ltb (index_of v B) (index_of w B).
Proof. intros Hv Hw. unfold o_mem, burn_orient.
  destruct ((0 <? m v w) && Nat.ltb (index_of v B) (index_of w B)) eqn:E.
  - apply existsb_exists. exists (v, w). cbn [fst snd]. rewrite !Nat.eqb_refl. split; auto.
    apply in_flat_map. exists v. split; auto. apply in_flat_map. exists w. split; auto. rewrite E. now left.
  - apply not_true_is_false. intros H. apply existsb_exists in H. destruct H as [[a b] [Hin Hab]]. cbn [fst snd] in Hab.
    apply andb_true_iff in Hab. destruct Hab as [Ha Hb]. apply Nat.eqb_eq in Ha. apply Nat.eqb_eq in Hb. subst.
    apply in_flat_map in Hin. destruct Hin as [x [_ Hin]]. apply in_flat_map in Hin. destruct Hin as [y [_ Hin]].
    destruct ((0 <? m x y) && Nat.ltb (index_of x B) (index_of y B)) eqn:E'; [|destruct Hin].
    destruct Hin as [Hin|[]]. inversion Hin; subst. congruence. Qed.

Theorem own_burn_cert : length D = nv g -> (forall v, In v V -> v <> q -> 0 <= nthZ D v) -> unburnt_list g q D = [] ->
  cert_ok g q D (burn_orient g (burn_list g q D)) (burn_pos g (burn_list g q D)) = true.
Proof. intros HL Hnn HU. set (B := burn_list g q D).
  assert (HB : BS B) by apply burn_seq. destruct (seq_facts V m q (nthZ D) Hq B HB) as [HN [HI HqB]].
  assert (Hall : forall v, In v V -> In v B) by (apply burn_complete_all; exact HU).
  destruct (burnseq_head B HB) as [t Et].
  assert (Hposf : forall v, In v V -> nth v (burn_pos g B) 0%nat = index_of v B).
  { intros v Hv. unfold burn_pos. apply (nth_tab (nv g) (fun v => index_of v B)). now apply in_Vg. }
  assert (Hindeg : forall v B1 B2, B = B1 ++ v :: B2 -> In v V -> indeg_o g (burn_orient g B) v = edges_to V m v B1).
  { intros v B1 B2 E Hv. unfold indeg_o, edges_to. apply zsum_ext. intros w Hw. rewrite o_mem_burn by auto.
    assert (Hnv : ~ In v B1). { rewrite E in HN. apply NoDup_remove_2 in HN. intro; apply HN. apply in_or_app. now left. }
    destruct (mem w B1) eqn:Em.
    - apply mem_In in Em. assert (Hlt : Nat.ltb (index_of w B) (index_of v B) = true). { apply Nat.ltb_lt. rewrite E. now apply index_split_lt. }
      rewrite Hlt, andb_true_r. rewrite (msym w v). destruct (Z.ltb_spec 0 (m v w)); auto. pose proof (mnn v w). lia.
    - apply mem_false in Em. assert (Hlt : Nat.ltb (index_of w B) (index_of v B) = false). { apply Nat.ltb_ge. rewrite E. destruct (le_lt_dec (index_of v (B1 ++ v :: B2)) (index_of w (B1 ++ v :: B2))); auto. exfalso. apply Em. apply (index_split_lt w v B1 B2 Hnv). auto. }
      now rewrite Hlt, andb_false_r. }
  unfold cert_ok. apply andb_true_iff. split; [apply andb_true_iff; split|].
  - apply forallb_forall. intros v Hv. apply forallb_forall. intros w Hw. destruct (Z.ltb_spec 0 (m v w)) as [Hm|]; auto.
    rewrite !o_mem_burn by auto. rewrite (msym w v). apply Z.ltb_lt in Hm. rewrite Hm. cbn [andb]. rewrite !Hposf by auto.
    assert (Hne : v <> w). { intro; subst. apply Z.ltb_lt in Hm. rewrite mdiag in Hm. lia. }
    assert (Hi : index_of v B <> index_of w B).
    { intro Ei. destruct (in_split v B (Hall v Hv)) as [B1 [B2 E]].
      assert (Hnv : ~ In v B1). { rewrite E in HN. apply NoDup_remove_2 in HN. intro; apply HN. apply in_or_app. now left. }
      destruct (in_dec Nat.eq_dec w B1) as [Hw1|Hw1].
      - assert ((index_of w B < index_of v B)%nat) by (rewrite E; now apply index_split_lt). lia.
      - rewrite E in Ei. rewrite (index_app_notin v) in Ei by auto. rewrite (index_app_notin w) in Ei by auto. cbn [index_of] in Ei.
        rewrite Nat.eqb_refl in Ei. destruct (Nat.eqb_spec v w); [congruence|]. lia. }
    destruct (Nat.ltb_spec (index_of v B) (index_of w B)), (Nat.ltb_spec (index_of w B) (index_of v B)); cbn; auto; lia.
  - apply Z.eqb_eq. rewrite (Hindeg q [] t) by auto. unfold edges_to. cbn [mem existsb]. apply zsum_zero.
  - apply forallb_forall. intros v Hv. destruct (Nat.eqb_spec v q) as [|Hne]; auto. cbn [orb].
    destruct (in_split v B (Hall v Hv)) as [B1 [B2 E]]. rewrite (Hindeg v B1 B2 E Hv).
    pose proof (burnseq_prefix B HB B1 v B2 E Hne) as Hlt. specialize (Hnn v Hv Hne).
    apply andb_true_iff. split; [apply Z.leb_le; lia|apply Z.ltb_lt; lia]. Qed.
End OwnBurn.

(* the orientation returned with the verdict is always a passing certificate; the "not full" error is unreachable *)
Theorem ewd_q_certificate fuel q D b R B : In q V -> length D = nv g -> ewd_q fuel g q D = Done (b, R, B) ->
  cert_ok g q R (burn_orient g B) (burn_pos g B) = true /\ (forall v, In v V -> In v B) /\
  (b = false -> forall v, In v V -> nthZ R v <= indeg_o g (burn_orient g B) v - 1).
Proof. intros Hq HL H. unfold ewd_q in H. destruct (reduce_loop fuel g q (default_ord g q) D) as [[R0 B0]|] eqn:E; [|discriminate].
  inversion H; subst. apply (reduce_loop_post g Hwf) in E; auto.
  2:{ intros v Hv. unfold default_ord in Hv. apply filter_In in Hv. destruct Hv as [Hv _]. now apply in_rev in Hv. }
  destruct E as [_ [[Hnn _] [HLR [-> HU]]]].
  pose proof (own_burn_cert q R Hq HLR Hnn HU) as Hc. split; [exact Hc|]. split; [apply burn_complete_all; exact HU|].
  intros Hb v Hv. apply Z.leb_gt in Hb. destruct (cert_ok_meaning _ _ _ _ Hc) as [_ [_ [Hi0 Hoff]]].
  destruct (Nat.eq_dec v q) as [->|Hne]; [lia|]. destruct (Hoff v Hv Hne). lia. Qed.

(* ---- burn facts on concrete configurations (C08) ---- *)
Theorem burn_facts q D : In q V ->
  let U := unburnt_list g q D in
  legal V m (nthZ D) (fun v => mem v U) /\
  (forall S, S q = false -> legal V m (nthZ D) S -> forall v, In v V -> S v = true -> In v U) /\
  ~ In q U /\ (forall v, In v U -> In v V) /\
  (forall v, In v U -> 0 <= nthZ (fire_set g D U) v).
Proof. intros Hq U. assert (HL : legal V m (nthZ D) (fun v => mem v U)) by (apply unburnt_legal; auto).
  split; [exact HL|]. split; [intros S Sq HS; apply unburnt_maximal; auto; apply mnn|]. split; [apply q_burnt; auto|].
  split; [intros v Hv; apply unburnt_spec in Hv; tauto|].
  intros v Hv. assert (HvV : In v V) by (apply unburnt_spec in Hv; tauto). rewrite nth_fire_set by auto. unfold fire.
  assert (Hm : mem v U = true) by now apply mem_In. rewrite Hm. specialize (HL v HvV Hm). unfold outdeg in HL. lia. Qed.
End WF.
