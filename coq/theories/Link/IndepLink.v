(* Independence results: the reduced divisor does not depend on the processing order of debt concentration (C17); recording does not
   perturb the computation and its snapshots stay in the class (C18); analysis calls keep every divisor in its class (C16). *)
From Coq Require Import ZArith List Lia Bool Arith.
Import ListNotations.
From CF Require Import ZSum ListAux Defs LinEquiv Reduced Burn Core GraphLink DharLink EwdLink QredLink.
Open Scope Z_scope.

Section WF.
Variable g : graph.
Hypothesis Hwf : wfb g = true.
Local Notation V := (Vg g).
Local Notation m := (mult g).

Theorem reduce_loop_order_independent f1 f2 q o1 o2 D R1 B1 R2 B2 : In q V -> (forall v, In v o1 -> In v V) -> (forall v, In v o2 -> In v V) -> length D = nv g ->
  reduce_loop f1 g q o1 D = Done (R1, B1) -> reduce_loop f2 g q o2 D = Done (R2, B2) -> R1 = R2 /\ B1 = B2.
Proof. intros Hq H1 H2 HL E1 E2. apply (reduce_loop_post g Hwf) in E1; auto. apply (reduce_loop_post g Hwf) in E2; auto.
  destruct E1 as [A1 [A2 [A3 [A4 _]]]]. destruct E2 as [C1 [C2 [C3 [C4 _]]]].
  assert (R1 = R2). { apply (reduced_unique_list g Hwf q); auto. apply (lequiv_trans V m _ (nthZ D)); [now apply lequiv_sym|exact C1]. }
  subst. auto. Qed.

(* recording *)
Theorem reduce_loop_rec_spec fuel q ord : In q V -> (forall v, In v ord -> In v V) -> forall D hist R B h, length D = nv g ->
  reduce_loop_rec fuel g q ord D hist = Done (R, B, h) ->
  reduce_loop fuel g q ord D = Done (R, B) /\ (exists new, h = hist ++ new /\ new <> [] /\ last new [] = R /\
     forall X, In X new -> length X = nv g /\ lequiv V m (nthZ D) (nthZ X)).
Proof. intros Hq Hord. induction fuel as [|f IH]; intros D hist R B h HL H; [discriminate|]. cbn [reduce_loop_rec] in H. cbn [reduce_loop].
  destruct (concentrate (S f) g q ord D) as [D1|] eqn:E; [|discriminate].
  pose proof (concentrate_post g Hwf (S f) q ord D D1 Hord HL E) as [C1 [C2 _]]. apply conc_rel_lequiv in C1.
  destruct (unburnt_list g q D1) as [|u U] eqn:EU.
  - inversion H; subst. split; auto. exists [R]. split; [reflexivity|]. split; [discriminate|]. split; [reflexivity|]. intros X [HX|[]]. subst X. split; auto.
  - set (D2 := fire_set g D1 (u :: U)) in *. apply IH in H; [|apply len_fire_set]. destruct H as [H1 [new [-> [Hne [Hlast Hall]]]]]. split; auto.
    assert (L12 : lequiv V m (nthZ D) (nthZ D2)) by (eapply lequiv_trans; [exact C1|apply lequiv_fire_set]).
    exists (D1 :: D2 :: new). split; [now rewrite <- app_assoc|]. split; [discriminate|]. split.
    + destruct new; [congruence|]. exact Hlast.
    + intros X [<-|[<-|HX]]; [split; auto|split; [apply len_fire_set|exact L12]|]. destruct (Hall X HX) as [A B']. split; auto. eapply lequiv_trans; eauto. Qed.

(* any sequence of analysis calls: the caller's divisor stays in its linear equivalence class, with the same total degree and length *)
Theorem calls_keep_class fuel cs : forall D, length D = nv g -> (forall q, In (CReduce q) cs -> In q V) ->
  let D' := fold_left (apply_call fuel g) cs D in
  length D' = nv g /\ lequiv V m (nthZ D) (nthZ D') /\ degD g D' = degD g D.
Proof. induction cs as [|c t IH]; intros D HL Hq; cbn [fold_left].
  - split; auto. split; [apply lequiv_refl|reflexivity].
  - assert (Hstep : length (apply_call fuel g D c) = nv g /\ lequiv V m (nthZ D) (nthZ (apply_call fuel g D c))).
    { destruct c as [q|]; cbn [apply_call]; [|split; auto; apply lequiv_refl].
      destruct (ewd_q fuel g q D) as [[[b R] B]|] eqn:E; [|split; auto; apply lequiv_refl].
      apply (ewd_q_sound g Hwf) in E; auto; [|apply Hq; now left]. destruct E as [E1 [_ [E3 _]]]. auto. }
    destruct Hstep as [S1 S2]. destruct (IH _ S1 (fun q Hq' => Hq q (or_intror Hq'))) as [A [B C]]. split; auto. split.
    + eapply lequiv_trans; eauto.
    + rewrite C. now apply (degD_lequiv g Hwf). Qed.
End WF.
