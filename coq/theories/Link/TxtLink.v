(* The TXT reader of the model is total and only ever returns well-formed objects; numbers survive printing and parsing. *)
From Coq Require Import ZArith NArith List Lia Bool Arith.
Import ListNotations.
From CF Require Import ZSum ListAux Defs Core Machines Txt GraphLink MachinesLink OrientLink.
Open Scope Z_scope.

(* ---- graphs built from parsed edges are well formed (every accepted edge went through add_edge) ---- *)
Lemma fold_none {A B} (f : option A -> B -> option A) l : (forall b, f None b = None) -> fold_left f l None = None.
Proof. intros H. induction l; cbn; auto. now rewrite H. Qed.
Lemma graph_fold_inv vs es : forall s0 s, fold_left (graph_step vs) es (Some s0) = Some s -> ginv s0 -> ginv s /\ gn s = gn s0.
Proof. induction es as [|e t IH]; intros s0 s H H0; cbn [fold_left] in H; [inversion H; subst; auto|].
  unfold graph_step at 2 in H. destruct (index_name (fst (fst e)) vs 0) as [a|]; [destruct (index_name (snd (fst e)) vs 0) as [b|]|]; try (rewrite fold_none in H by reflexivity; discriminate).
  destruct (add_edge s0 a b (snd e)) as [s1|] eqn:E; [|rewrite fold_none in H by reflexivity; discriminate].
  apply add_edge_inv in E; auto. destruct E as [E1 [E2 _]]. destruct (IH _ _ H E1). split; auto. congruence. Qed.
Lemma build_graph_wf r names gs : build_graph r = Some (names, gs) -> ginv gs /\ gn gs = length names.
Proof. unfold build_graph. destruct (r_names r) as [ns|]; [|discriminate]. intros H.
  destruct (fold_left (graph_step (sort_names ns)) (r_edges r) (Some (ginit (length (sort_names ns))))) as [s|] eqn:E; [|discriminate]. inversion H; subst.
  destruct (graph_fold_inv _ _ _ _ E (ginit_inv _)) as [A B]. split; auto. rewrite B. unfold gn, ginit; cbn [adj]. apply tab_length. Qed.

(* for EVERY character string the readers return None or a well-formed object *)
Theorem read_graph_total s : read_graph s = None \/ exists names gs, read_graph s = Some (names, gs) /\ ginv gs /\ gn gs = length names.
Proof. unfold read_graph. destruct (parse k_VERTICES k_EDGE [] [] false s) as [r|]; [|now left].
  destruct (build_graph r) as [[names gs]|] eqn:E; [|now left]. right. exists names, gs. split; auto. exact (build_graph_wf r names gs E). Qed.
Lemma div_fold_len vs ps : forall D0 seen0 D seen, fold_left (div_step vs) ps (Some (D0, seen0)) = Some (D, seen) -> length D = length D0.
Proof. induction ps as [|p t IH]; intros D0 seen0 D seen H; cbn [fold_left] in H; [inversion H; auto|]. unfold div_step at 2 in H.
  destruct (index_name (fst p) vs 0) as [v|]; [|rewrite fold_none in H by reflexivity; discriminate]. destruct (py_int (snd p)) as [k|]; [|rewrite fold_none in H by reflexivity; discriminate].
  destruct (mem v seen0); [rewrite fold_none in H by reflexivity; discriminate|]. apply IH in H. rewrite H. apply upd_length. Qed.
Theorem read_divisor_total s : read_divisor s = None \/ exists names gs D, read_divisor s = Some (names, gs, D) /\ ginv gs /\ gn gs = length names /\ length D = length names.
Proof. unfold read_divisor. destruct (parse k_GVERTICES k_GEDGE k_DEGREES k_DEGREE true s) as [r|]; [|now left].
  destruct (build_graph r) as [[names gs]|] eqn:E; [|now left]. pose proof (build_graph_wf r names gs E) as [E1 E2].
  destruct (fold_left (div_step names) (r_payload r) (Some (tab (length names) (fun _ => 0), []))) as [[D seen]|] eqn:F; [|now left].
  right. exists names, gs, D. split; [reflexivity|]. split; [exact E1|]. split; [exact E2|]. apply div_fold_len in F. rewrite F. apply tab_length. Qed.
Lemma script_fold_len vs ps : forall D0 D, fold_left (script_step vs) ps (Some D0) = Some D -> length D = length D0.
Proof. induction ps as [|p t IH]; intros D0 D H; cbn [fold_left] in H; [inversion H; auto|]. unfold script_step at 2 in H.
  destruct (index_name (fst p) vs 0) as [v|]; [|rewrite fold_none in H by reflexivity; discriminate]. destruct (py_int (snd p)) as [k|]; [|rewrite fold_none in H by reflexivity; discriminate].
  apply IH in H. rewrite H. apply upd_length. Qed.
Theorem read_script_total s : read_script s = None \/ exists names gs D, read_script s = Some (names, gs, D) /\ ginv gs /\ gn gs = length names /\ length D = length names.
Proof. unfold read_script. destruct (parse k_GVERTICES k_GEDGE k_SCRIPT k_FIRING true s) as [r|]; [|now left].
  destruct (build_graph r) as [[names gs]|] eqn:E; [|now left]. pose proof (build_graph_wf r names gs E) as [E1 E2].
  destruct (fold_left (script_step names) (r_payload r) (Some (tab (length names) (fun _ => 0)))) as [D|] eqn:F; [|now left].
  right. exists names, gs, D. split; [reflexivity|]. split; [exact E1|]. split; [exact E2|]. apply script_fold_len in F. rewrite F. apply tab_length. Qed.
Theorem read_orientation_total s : read_orientation s = None \/ exists names gs o, read_orientation s = Some (names, gs, o) /\ ginv gs /\ gn gs = length names /\ oinv (adj gs) o.
Proof. unfold read_orientation. destruct (parse k_GVERTICES k_GEDGE k_ORIENTATIONS k_ORIENTED false s) as [r|]; [|now left].
  destruct (build_graph r) as [[names gs]|] eqn:E; [|now left]. pose proof (build_graph_wf r names gs E) as [E1 E2].
  destruct (orient_pairs names (r_payload r)) as [ps|]; [|now left].
  destruct (oconstruct (adj gs) ps) as [o|] eqn:F; [|now left]. right. exists names, gs, o. split; [reflexivity|]. split; [exact E1|]. split; [exact E2|].
  destruct E1 as [Hwf _]. apply (oconstruct_inv (adj gs) Hwf) in F. tauto. Qed.

(* ---- numbers: int(str(z)) = z ---- *)
Lemma digit_val_digit d : 0 <= d < 10 -> digit_val (Z.to_N (d + 48)) = Some d.
Proof. intros H. unfold digit_val. assert (E : (48 <=? Z.to_N (d + 48))%N && (Z.to_N (d + 48) <=? 57)%N = true).
  { apply andb_true_iff. split; apply N.leb_le; lia. } rewrite E. f_equal. rewrite Z2N.id; lia. Qed.
Definition all_digits (s : str) : Prop := forall c, In c s -> exists d, 0 <= d < 10 /\ c = Z.to_N (d + 48).
Lemma digits_val_digits s : all_digits s -> forall acc b, (s <> [] \/ b = true) -> exists v, digits_val s acc b = Some v /\ (s = [] -> v = acc).
Proof. induction s as [|c t IH]; intros Hd acc b Hne.
  - destruct Hne as [H | ->]; [congruence|]. exists acc. cbn. auto.
  - destruct (Hd c (or_introl eq_refl)) as [d [Hr ->]]. cbn [digits_val]. rewrite digit_val_digit by auto.
    destruct (IH (fun x Hx => Hd x (or_intror Hx)) (10 * acc + d) true (or_intror eq_refl)) as [v [Hv _]]. exists v. split; auto. discriminate. Qed.
Lemma digits_val_snoc s d : all_digits s -> 0 <= d < 10 -> forall acc b v, digits_val s acc b = Some v -> (s <> [] \/ b = true) ->
  digits_val (s ++ [Z.to_N (d + 48)]) acc b = Some (10 * v + d).
Proof. induction s as [|c t IH]; intros Hd Hr acc b v H Hne.
  - destruct Hne as [Hn | ->]; [congruence|]. cbn in H. inversion H; subst. cbn [app digits_val]. rewrite digit_val_digit by auto. reflexivity.
  - destruct (Hd c (or_introl eq_refl)) as [dc [Hrc ->]]. cbn [app digits_val] in *. rewrite digit_val_digit in * by auto.
    apply IH; auto. intros x Hx. apply Hd. now right. Qed.
Lemma print_pos_spec fuel : forall n, 0 <= n -> (Z.log2 n < Z.of_nat fuel) -> all_digits (print_pos_fuel fuel n) /\ print_pos_fuel fuel n <> [] /\
  digits_val (print_pos_fuel fuel n) 0 false = Some n.
Proof. induction fuel as [|f IH]; intros n Hn Hf; [pose proof (Z.log2_nonneg n); lia|]. cbn [print_pos_fuel]. destruct (Z.ltb_spec n 10) as [Hlt|Hge].
  - split; [intros c [<-|[]]; exists n; split; auto; lia|]. split; [discriminate|]. cbn [digits_val]. rewrite digit_val_digit by lia. f_equal; lia.
  - assert (Hq : 0 <= n / 10) by (apply Z.div_pos; lia).
    assert (Hlog : Z.log2 (n / 10) < Z.of_nat f).
    { assert (Hpos : 0 < n / 10) by (apply Z.div_str_pos; lia).
      pose proof (Z.log2_double (n / 10) Hpos) as Hd. assert (Hle : 2 * (n / 10) <= n) by (pose proof (Z.mul_div_le n 10 ltac:(lia)); lia).
      pose proof (Z.log2_le_mono _ _ Hle). lia. }
    destruct (IH (n / 10) Hq Hlog) as [A [B C]]. pose proof (Z.mod_pos_bound n 10 ltac:(lia)) as Hm. split; [|split].
    + intros c Hc. apply in_app_or in Hc. destruct Hc as [Hc|[<-|[]]]; auto. exists (n mod 10). split; auto.
    + intro E. apply app_eq_nil in E. destruct E; discriminate.
    + rewrite (digits_val_snoc _ (n mod 10) A Hm 0 false (n / 10) C (or_introl B)). f_equal. pose proof (Z.div_mod n 10 ltac:(lia)). lia. Qed.
Lemma lstrip_nospace s : (forall c, In c s -> is_space c = false) -> lstrip s = s.
Proof. destruct s as [|c t]; auto. intros H. cbn. now rewrite (H c (or_introl eq_refl)). Qed.
Lemma strip_nospace s : (forall c, In c s -> is_space c = false) -> strip s = s.
Proof. intros H. unfold strip, rstrip. rewrite (lstrip_nospace s H). rewrite lstrip_nospace; [apply rev_involutive|]. intros c Hc. apply H. now apply in_rev. Qed.
Lemma digit_not_space d : 0 <= d < 10 -> is_space (Z.to_N (d + 48)) = false.
Proof. intros H. assert (d = 0 \/ d = 1 \/ d = 2 \/ d = 3 \/ d = 4 \/ d = 5 \/ d = 6 \/ d = 7 \/ d = 8 \/ d = 9) by lia.
  repeat (destruct H0 as [->|H0]; [reflexivity|]). subst. reflexivity. Qed.
Theorem py_int_print_Z z : py_int (print_Z z) = Some z.
Proof. unfold print_Z, py_int. destruct (Z.ltb_spec z 0) as [Hneg|Hpos].
  - destruct (print_pos_spec (S (Z.to_nat (Z.log2 (- z)))) (- z)) as [A [B C]]; [lia|pose proof (Z.log2_nonneg (- z)); lia|].
    rewrite strip_nospace.
    + cbn [N.eqb]. change ((45 =? 45)%N) with true. cbv iota. rewrite C. cbn. f_equal. lia.
    + intros c [<-|Hc]; [reflexivity|]. destruct (A c Hc) as [d [Hd ->]]. now apply digit_not_space.
  - destruct (print_pos_spec (S (Z.to_nat (Z.log2 z))) z) as [A [B C]]; [lia|pose proof (Z.log2_nonneg z); lia|].
    rewrite strip_nospace by (intros c Hc; destruct (A c Hc) as [d [Hd ->]]; now apply digit_not_space).
    destruct (print_pos_fuel (S (Z.to_nat (Z.log2 z))) z) as [|c t] eqn:E; [congruence|].
    destruct (A c (or_introl eq_refl)) as [d [Hd ->]].
    assert (N1 : (Z.to_N (d + 48) =? 45)%N = false) by (apply N.eqb_neq; lia). assert (N2 : (Z.to_N (d + 48) =? 43)%N = false) by (apply N.eqb_neq; lia).
    rewrite N1, N2. exact C. Qed.
