(* Parking functions, for every length: the sorted form of the predicate (as implemented: sort, then a_(i) <= i) is the counting form
   #{i | a_i <= j} >= j for j = 1..n; and on the complete graph K_(n+1) the superstable configurations are exactly the parking functions of
   length n shifted down by one (every n, every configuration). *)
From Coq Require Import ZArith List Lia Bool Arith.
Import ListNotations.
From CF Require Import ZSum ListAux Defs Core Machines Config.
Open Scope Z_scope.

Ltac ifs := repeat match goal with |- context [if ?b then _ else _] => destruct b | H : context [if ?b then _ else _] |- _ => destruct b end; try lia.
(* ---- counting ---- *)
Definition cnt (j : Z) (l : list Z) : Z := zsum (fun x => if x <=? j then 1 else 0) l.
Lemma cnt_filter j l : cnt j l = Z.of_nat (length (filter (fun x => x <=? j) l)).
Proof. unfold cnt. induction l as [|x t IH]; [reflexivity|]. cbn [zsum filter]. destruct (x <=? j); cbn [length]; lia. Qed.
Lemma cnt_bounds j l : 0 <= cnt j l <= Z.of_nat (length l).
Proof. unfold cnt. induction l as [|x t IH]; cbn [zsum length]; [lia|]. destruct (x <=? j); lia. Qed.
Lemma cnt_insert j x l : cnt j (insert_sorted x l) = (if x <=? j then 1 else 0) + cnt j l.
Proof. unfold cnt. induction l as [|y t IH]; cbn [insert_sorted zsum]; [ifs|]. destruct (x <=? y); cbn [zsum]; [ifs|]. rewrite IH. ifs. Qed.
Lemma cnt_sort j l : cnt j (sort l) = cnt j l.
Proof. induction l as [|x t IH]; [reflexivity|]. change (sort (x :: t)) with (insert_sorted x (sort t)). rewrite cnt_insert, IH. unfold cnt. cbn [zsum]. reflexivity. Qed.
Lemma length_insert x l : length (insert_sorted x l) = S (length l).
Proof. induction l as [|y t IH]; cbn [insert_sorted length]; auto. destruct (x <=? y); cbn [length]; auto. Qed.
Lemma length_sort l : length (sort l) = length l.
Proof. unfold sort. induction l as [|x t IH]; [reflexivity|]. cbn [fold_right]. rewrite length_insert. cbn [length]. now rewrite IH. Qed.

(* ---- ascending lists ---- *)
Fixpoint asc (l : list Z) : Prop := match l with [] => True | x :: t => (forall y, In y t -> x <= y) /\ asc t end.
Lemma insert_in x l y : In y (insert_sorted x l) -> y = x \/ In y l.
Proof. induction l as [|z t IH]; cbn [insert_sorted]; [intros [<-|[]]; now left|]. destruct (x <=? z).
  - intros [<-|H]; [now left|now right].
  - intros [<-|H]; [right; now left|]. destruct (IH H); [now left|right; now right]. Qed.
Lemma insert_asc x l : asc l -> asc (insert_sorted x l).
Proof. induction l as [|z t IH]; intros H; cbn [insert_sorted]; [cbn; split; [intros y []|exact I]|]. destruct H as [Hz Ht].
  destruct (Z.leb_spec x z) as [L|L].
  - cbn [asc]. split; [|split; auto]. intros y [<-|Hy]; [exact L|]. specialize (Hz y Hy). lia.
  - cbn [asc]. split; [|now apply IH]. intros y Hy. destruct (insert_in _ _ _ Hy) as [->|Hy']; [lia|now apply Hz]. Qed.
Lemma sort_asc l : asc (sort l).
Proof. unfold sort. induction l as [|x t IH]; [exact I|]. cbn [fold_right]. now apply insert_asc. Qed.

(* the heart: on an ascending list, "x_k <= i + k - 1 for all k" is "at least k entries are <= i + k - 1 for all k" *)
Lemma prefix_ok_count l : asc l -> forall i, prefix_ok i l = true <-> forall k, 1 <= k <= Z.of_nat (length l) -> k <= cnt (i + k - 1) l.
Proof. induction l as [|x t IH]; intros Hasc i.
  - cbn [prefix_ok length]. split; [intros _ k Hk; lia|reflexivity].
  - destruct Hasc as [Hx Ht]. cbn [prefix_ok]. rewrite andb_true_iff, (IH Ht (i + 1)). cbn [length]. split.
    + intros [Hxi H] k Hk. unfold cnt. cbn [zsum]. fold (cnt (i + k - 1) t). apply Z.leb_le in Hxi.
      destruct (Z.leb_spec x (i + k - 1)); [|lia]. destruct (Z.eq_dec k 1) as [->|Hk1]; [pose proof (cnt_bounds (i + 1 - 1) t); lia|].
      specialize (H (k - 1) ltac:(lia)). replace (i + 1 + (k - 1) - 1) with (i + k - 1) in H by lia. lia.
    + intros H. split.
      * apply Z.leb_le. specialize (H 1 ltac:(lia)). replace (i + 1 - 1) with i in H by lia. unfold cnt in H. cbn [zsum] in H. fold (cnt i t) in H.
        destruct (Z.leb_spec x i); [assumption|]. assert (E : cnt i t = 0); [|lia].
        unfold cnt. rewrite (zsum_ext _ (fun _ => 0)); [apply zsum_zero|]. intros y Hy. specialize (Hx y Hy). destruct (Z.leb_spec y i); lia.
      * intros k Hk. specialize (H (k + 1) ltac:(lia)). replace (i + (k + 1) - 1) with (i + 1 + k - 1) in H by lia. unfold cnt in H. cbn [zsum] in H. fold (cnt (i + 1 + k - 1) t) in H.
        destruct (x <=? i + 1 + k - 1); lia. Qed.

(* sorted form = counting form, every sequence of every length *)
Theorem parking_forms_agree a : a <> [] -> is_parking a = is_parking_count a.
Proof. intros Hne. unfold is_parking, is_parking_n, is_parking_count. destruct a as [|a0 t] eqn:Ea; [congruence|]. rewrite <- Ea. clear Hne.
  rewrite Nat.eqb_refl. cbn [andb]. f_equal.
  apply eq_true_iff_eq. rewrite (prefix_ok_count (sort a) (sort_asc a) 1). rewrite forallb_forall. rewrite length_sort. split.
  - intros H j Hj. apply in_seq in Hj. apply Z.leb_le. rewrite <- cnt_filter. specialize (H (Z.of_nat j) ltac:(lia)). rewrite cnt_sort in H.
    replace (1 + Z.of_nat j - 1) with (Z.of_nat j) in H by lia. exact H.
  - intros H k Hk. specialize (H (Z.to_nat k)). rewrite cnt_sort. replace (1 + k - 1) with k by lia.
    assert (Hin : In (Z.to_nat k) (seq 1 (length a))) by (apply in_seq; lia). specialize (H Hin). apply Z.leb_le in H. rewrite <- cnt_filter in H. rewrite Z2Nat.id in H by lia. exact H. Qed.

(* ---------------------------------------------------------------- K_(n+1): superstables = parking functions shifted down by one *)
From CF Require Import GraphLink DharLink BoundsLink.
Lemma zsum_nth_seq (F : Z -> Z) (l : list Z) : forall a, zsum (fun v => F (nthZ l (v - a))) (seq a (length l)) = zsum F l.
Proof. induction l as [|x t IH]; intros a; [reflexivity|]. cbn [length seq zsum]. replace (a - a)%nat with 0%nat by lia. cbn [nthZ nth]. f_equal.
  rewrite <- (IH (S a)). apply zsum_ext. intros v Hv. apply in_seq in Hv. replace (v - a)%nat with (S (v - S a))%nat by lia. reflexivity. Qed.
Lemma zsum_pos_exists {A} (p : A -> bool) l : 0 < zsum (fun x => if p x then 1 else 0) l -> exists x, In x l /\ p x = true.
Proof. induction l as [|a l IH]; cbn [zsum]; [lia|]. destruct (p a) eqn:E; [exists a; split; [now left|exact E]|]. intros H. destruct (IH ltac:(lia)) as [x [Hx Hp]]. exists x. split; [now right|exact Hp]. Qed.

Section KP.
Variable k : nat.
Let n := Datatypes.S k.
Let nn := Datatypes.S n.
Let g := Kn k.
Variable c : list Z.
Hypothesis Hlen : length c = n.
Let D := 0 :: c.
Local Notation V := (Vg g).
Local Notation m := (mult g).
Let cf (v : nat) : Z := nthZ D v.
Definition lowc (j : Z) : Z := zsum (fun x => if x <? j then 1 else 0) c.

Lemma V_eq : V = 0%nat :: seq 1 n.
Proof. unfold Vg, g. rewrite Kn_nv. reflexivity. Qed.
Lemma zsum_V_off (F : Z -> Z) : zsum (fun v => if Nat.eqb v 0 then 0 else F (cf v)) V = zsum F c.
Proof. rewrite V_eq. cbn [zsum Nat.eqb]. rewrite <- (zsum_nth_seq F c 1), Hlen. rewrite Z.add_0_l. apply zsum_ext. intros v Hv. apply in_seq in Hv.
  destruct v; [lia|]. cbn [Nat.eqb]. unfold cf, D. replace (Datatypes.S v - 1)%nat with v by lia. reflexivity. Qed.
Lemma card_V : Z.of_nat (length V) = Z.of_nat nn.
Proof. unfold Vg. rewrite seq_length. unfold g. now rewrite Kn_nv. Qed.
Lemma outdeg_K (T : nat -> bool) v : In v V -> T v = true -> outdeg V m T v = Z.of_nat nn - zsum (fun w => if T w then 1 else 0) V.
Proof. intros Hv HSv. unfold outdeg. rewrite (zsum_ext _ (fun w => if T w then 0 else 1)).
  - pose proof (count_split 0%nat T V) as C. rewrite card_V in C. lia.
  - intros w Hw. destruct (T w) eqn:E; auto. unfold g. rewrite Kn_mult by (apply in_VKn; auto). destruct (Nat.eqb_spec v w); [subst; congruence|reflexivity]. Qed.
Lemma in_V_c v : In v V -> v <> 0%nat -> In (cf v) c.
Proof. intros Hv Hne. apply in_VKn in Hv. destruct v; [congruence|]. unfold cf, D. cbn [nthZ nth]. apply nth_In. lia. Qed.
Lemma c_in_V x : In x c -> exists v, In v V /\ v <> 0%nat /\ cf v = x.
Proof. intros Hx. destruct (In_nth c x 0 Hx) as [i [Hi E]]. exists (Datatypes.S i). split; [apply in_VKn; lia|]. split; [discriminate|exact E]. Qed.

(* counting form, in terms of chips: every entry in 0..n-1 and at least j entries below j, for j = 1..n *)
Definition parking_chips : Prop := (forall x, In x c -> 0 <= x <= Z.of_nat n - 1) /\ (forall j, 1 <= j <= Z.of_nat n -> j <= lowc j).

Lemma reduced_parking : reduced V m 0%nat cf -> parking_chips.
Proof. intros [Hnn Hno]. split.
  - intros x Hx. destruct (c_in_V x Hx) as [v [Hv [Hne <-]]]. split; [now apply Hnn|].
    destruct (Z_le_gt_dec (cf v) (Z.of_nat n - 1)) as [|Hbig]; [assumption|]. exfalso.
    apply (Hno (fun w => Nat.eqb w v)).
    + destruct v; [congruence|reflexivity].
    + exists v. split; auto. apply Nat.eqb_refl.
    + intros w Hw Ew. apply Nat.eqb_eq in Ew. subst w. rewrite outdeg_K by (auto; apply Nat.eqb_refl).
      rewrite zsum_indicator by (auto using Vg_nodup). unfold nn. lia.
  - intros j Hj. destruct (Z_le_gt_dec j (lowc j)) as [|Hlow]; [assumption|]. exfalso.
    set (T := fun v => negb (Nat.eqb v 0) && (j <=? cf v)).
    assert (Hcard : zsum (fun w => if T w then 1 else 0) V = Z.of_nat n - lowc j).
    { unfold lowc. rewrite <- (zsum_V_off (fun x => if x <? j then 1 else 0)).
      assert (E : Z.of_nat n = zsum (fun v => if Nat.eqb v 0 then 0 else 1) V).
      { rewrite V_eq. cbn [zsum Nat.eqb]. rewrite (zsum_ext _ (fun _ => 1)); [rewrite zsum_const, seq_length; lia|]. intros v Hv. apply in_seq in Hv. destruct v; [lia|reflexivity]. }
      rewrite E, <- zsum_sub. apply zsum_ext. intros v _. unfold T. destruct (Nat.eqb v 0); cbn [negb andb]; [lia|].
      destruct (Z.leb_spec j (cf v)); destruct (Z.ltb_spec (cf v) j); lia. }
    apply (Hno T).
    + reflexivity.
    + apply (zsum_pos_exists T). lia.
    + intros v Hv HSv. rewrite outdeg_K by auto. rewrite Hcard. unfold T in HSv. apply andb_true_iff in HSv. destruct HSv as [_ HSv]. apply Z.leb_le in HSv. unfold nn. lia. Qed.

Lemma parking_reduced : parking_chips -> reduced V m 0%nat cf.
Proof. intros [Hr Hc]. split.
  - intros v Hv Hne. apply (Hr (cf v)). now apply in_V_c.
  - intros T Sq [v0 [Hv0 HS0]] HL.
    set (s := zsum (fun w => if T w then 1 else 0) V).
    assert (Hs1 : 1 <= s). { unfold s. pose proof (zsum_lt_one (fun _ => 0) (fun w => if T w then 1 else 0) V v0 Hv0) as H. rewrite zsum_zero in H. rewrite HS0 in H.
      assert (0 < zsum (fun w => if T w then 1 else 0) V); [apply H; [intros y _; destruct (T y); lia|lia]|lia]. }
    (* T avoids the sink and every member holds at least nn - s chips; entries below nn - s are outside T *)
    set (j := Z.of_nat nn - s).
    assert (Hmem : forall v, In v V -> T v = true -> j <= cf v). { intros v Hv HSv. specialize (HL v Hv HSv). rewrite outdeg_K in HL by auto. exact HL. }
    assert (Hdisj : lowc j + s <= Z.of_nat n).
    { unfold lowc, s. rewrite <- (zsum_V_off (fun x => if x <? j then 1 else 0)). rewrite <- zsum_add.
      assert (E : Z.of_nat n = zsum (fun v => if Nat.eqb v 0 then 0 else 1) V).
      { rewrite V_eq. cbn [zsum Nat.eqb]. rewrite (zsum_ext _ (fun _ => 1)); [rewrite zsum_const, seq_length; lia|]. intros v Hv. apply in_seq in Hv. destruct v; [lia|reflexivity]. }
      rewrite E. apply zsum_le. intros v Hv. destruct (Nat.eqb_spec v 0) as [->|Hne]; [rewrite Sq; lia|].
      destruct (T v) eqn:ESv; [|destruct (cf v <? j); lia]. specialize (Hmem v Hv ESv). destruct (Z.ltb_spec (cf v) j); lia. }
    assert (Hsn : s <= Z.of_nat n) by (assert (0 <= lowc j) by (unfold lowc; apply zsum_nonneg; intros x _; destruct (x <? j); lia); lia).
    specialize (Hc j ltac:(unfold j, nn; lia)). unfold j, nn in *. lia. Qed.
End KP.

Lemma cnt_shift j c : cnt j (map (fun x => x + 1) c) = lowc c j.
Proof. unfold cnt, lowc. rewrite zsum_map. apply zsum_ext. intros x _. destruct (Z.leb_spec (x + 1) j); destruct (Z.ltb_spec x j); lia. Qed.
Lemma is_parking_count_chips k c : length c = S k -> (is_parking_count (map (fun x => x + 1) c) = true <-> parking_chips k c).
Proof. intros Hlen. unfold is_parking_count, parking_chips. rewrite map_length, Hlen. rewrite andb_true_iff, !forallb_forall. split.
  - intros [Hr Hc]. split.
    + intros x Hx. specialize (Hr (x + 1) (in_map _ _ _ Hx)). apply andb_true_iff in Hr. destruct Hr as [A B]. apply Z.leb_le in A, B. lia.
    + intros j Hj. specialize (Hc (Z.to_nat j)). assert (Hin : In (Z.to_nat j) (seq 1 (S k))) by (apply in_seq; lia). specialize (Hc Hin).
      apply Z.leb_le in Hc. rewrite <- cnt_filter, cnt_shift, Z2Nat.id in Hc by lia. exact Hc.
  - intros [Hr Hc]. split.
    + intros y Hy. apply in_map_iff in Hy. destruct Hy as [x [<- Hx]]. specialize (Hr x Hx). apply andb_true_iff. split; apply Z.leb_le; lia.
    + intros j Hj. apply in_seq in Hj. apply Z.leb_le. rewrite <- cnt_filter, cnt_shift. apply Hc. lia. Qed.
(* the theorem: for every n >= 1 and EVERY integer configuration c on the n non-sink vertices of K_(n+1) *)
Theorem Kn_superstables_are_parking k c : length c = S k ->
  reduced_b (Kn k) 0%nat (0 :: c) = is_parking (map (fun x => x + 1) c).
Proof. intros Hlen. apply eq_true_iff_eq.
  rewrite (reduced_b_spec (Kn k) (Kn_wf k) 0%nat (0 :: c)) by (apply in_VKn; lia).
  rewrite parking_forms_agree by (destruct c; [discriminate|discriminate]).
  rewrite (is_parking_count_chips k c Hlen). split; [apply reduced_parking|apply parking_reduced]; exact Hlen. Qed.
(* every sink: by vertex-transitivity the same holds with any q; stated for q = 0, which is what the library's statement uses *)
