(* CFLaplacian._construct_matrix and get_matrix_entry translated from /repo's current source (TranslatedImpCFLaplacian.v): the dictionary of rows built from the graph
   holds, for every vertex v, a row whose entry at w (absent = 0, the rows being defaultdict(int)) is the Laplacian entry lap_entry g v w of Model/Machines.v
   (C06_entries) - in whatever order the vertex set is iterated; get_matrix_entry reads it back and refuses unknown vertices. *)
From Coq Require Import ZArith List Lia Bool Arith Permutation.
Import ListNotations.
From CF Require Import ZSum ListAux Defs Core Machines GraphLink PyDict ImpRep TranslatedImpCFDivisor ImpLinkArith TranslatedImpCFGraph TranslatedImpCFLaplacian.
Open Scope Z_scope.

Definition rep_lap (LL : list (nat * list (nat * Z))) (g : graph) : Prop :=
  forall v, if Nat.ltb v (nv g) then exists row, d_find v LL = Some row /\ forall w, d_get w 0 row = lap_entry g v w else d_find v LL = None.

Lemma d_set_set_same {A} k (x y : A) d : d_set k x (d_set k y d) = d_set k x d.
Proof. induction d as [|[k' z] t IH]; cbn [d_set]; [now rewrite Nat.eqb_refl|]. destruct (Nat.eqb_spec k' k) as [Q|Q]; cbn [d_set].
  - subst k'. now rewrite Nat.eqb_refl.
  - destruct (Nat.eqb_spec k' k); [contradiction|]. now rewrite IH. Qed.

Section LAP.
Variable g : graph.
Hypothesis Hwf : wfb g = true.
Variable gg : list (nat * list (nat * Z)).
Hypothesis Hgg : rep_graph gg g.
Variable vs : list nat.
Hypothesis Hvs : rep_vset (nv g) vs.
Variables (vtv : list (nat * Z)) (V : list Z).
Hypothesis HV : rep_div (nv g) vtv V.
Hypothesis Hval : forall v, (v < nv g)%nat -> nthZ V v = valg g v.
Variable so : list nat -> list nat.
Hypothesis Hso : forall l, Permutation (so l) l.
Local Notation n := (nv g).

Definition lap_inner (v : nat) (acc_ : pyres unit (list (nat * list (nat * Z)))) (kv_ : nat * Z) : pyres unit (list (nat * list (nat * Z))) :=
  match acc_ with PyExn e_ => PyExn e_ | PyOk laplacian => let '(w, valence) := kv_ in
  match d_find v laplacian with None => PyExn tt | Some t4_ =>
  let laplacian := d_set v (d_set w (- valence) t4_) laplacian in PyOk laplacian end end.
Lemma lap_inner_loop v : forall items LL row, d_find v LL = Some row ->
  fold_left (lap_inner v) items (PyOk LL) = PyOk (d_set v (store_all (map (fun '(w, deg) => (w, - deg)) items) row) LL).
Proof. induction items as [|[w x] items IH]; intros LL row E; cbn [fold_left map].
  - unfold store_all. cbn [fold_left]. f_equal. clear -E. induction LL as [|[k y] t IHt]; cbn [d_find d_set] in *; [discriminate|].
    destruct (Nat.eqb k v); [inversion E; reflexivity|f_equal; apply IHt; exact E].
  - unfold lap_inner at 2. rewrite E. cbn zeta. rewrite (IH _ (d_set w (- x) row)) by apply d_find_set_same. rewrite d_set_set_same. reflexivity. Qed.

Definition lap_row (v : nat) (items : list (nat * Z)) : list (nat * Z) := store_all (map (fun '(w, deg) => (w, - deg)) items) [(v, nthZ V v)].
Definition lap_outer (acc_ : pyres unit (list (nat * list (nat * Z)))) (v : nat) : pyres unit (list (nat * list (nat * Z))) :=
  match acc_ with PyExn e_ => PyExn e_ | PyOk laplacian =>
  let laplacian := d_set v [] laplacian in
  match CFGraph_get_valence vtv v with PyExn _ => PyExn tt | PyOk t1_ =>
  let degree := t1_ in
  match d_find v laplacian with None => PyExn tt | Some t2_ =>
  let laplacian := d_set v (d_set v degree t2_) laplacian in
  if (d_mem v gg) then
  match d_find v gg with None => PyExn tt | Some t3_ =>
  match fold_left (lap_inner v) t3_ (PyOk laplacian) with PyExn e_ => PyExn e_ | PyOk laplacian => PyOk laplacian end end
  else PyOk laplacian end end end.
Lemma construct_unfold : CFLaplacian__construct_matrix vs vtv gg so =
  match fold_left lap_outer (so vs) (PyOk []) with PyExn e_ => PyExn e_ | PyOk laplacian => PyOk laplacian end.
Proof. reflexivity. Qed.
Lemma lap_outer_step v LL : (v < n)%nat -> exists items, d_find v gg = Some items /\ rep_row g v items /\ lap_outer (PyOk LL) v = PyOk (d_set v (lap_row v items) LL).
Proof. intros Hv. assert (Lv : Nat.ltb v n = true) by (apply Nat.ltb_lt; exact Hv). pose proof (Hgg v) as H. rewrite Lv in H. destruct H as (items & Ei & Ri).
  exists items. split; [exact Ei|]. split; [exact Ri|]. unfold lap_outer. cbn zeta. destruct HV as (_ & _ & Hf). unfold CFGraph_get_valence, d_mem. unfold dictD, dictZ in *. rewrite (Hf v), Lv. cbn [negb].
  rewrite d_find_set_same. rewrite Ei. rewrite d_set_set_same.
  rewrite (lap_inner_loop v items _ (d_set v (nthZ V v) [])) by apply d_find_set_same. rewrite d_set_set_same. reflexivity. Qed.
Lemma lap_outer_loop : forall L, (forall v, In v L -> (v < n)%nat) -> forall LL,
  exists LL', fold_left lap_outer L (PyOk LL) = PyOk LL' /\
    forall u, d_find u LL' = if s_mem u L then (match d_find u gg with Some items => Some (lap_row u items) | None => None end) else d_find u LL.
Proof. induction L as [|x L IH]; intros HL LL; [exists LL; split; [reflexivity|intros u; reflexivity]|]. cbn [fold_left].
  destruct (lap_outer_step x LL (HL x (or_introl eq_refl))) as (items & Ei & _ & Es). rewrite Es.
  destruct (IH (fun v Hv => HL v (or_intror Hv)) (d_set x (lap_row x items) LL)) as (LL' & E' & F'). exists LL'. split; [exact E'|].
  intros u. rewrite (F' u). unfold s_mem. cbn [existsb]. fold (s_mem u L). destruct (s_mem u L); [rewrite orb_true_r; reflexivity|]. rewrite orb_false_r, d_find_set.
  destruct (Nat.eqb_spec u x) as [->|Q]; [rewrite Ei; reflexivity|reflexivity]. Qed.

Lemma lap_row_entry v items w : (v < n)%nat -> rep_row g v items -> d_get w 0 (lap_row v items) = lap_entry g v w.
Proof. intros Hv (Nk & Fi). unfold lap_row, d_get. rewrite store_all_find.
  2:{ unfold d_keys in Nk. replace (map fst (map (fun '(w0, deg) => (w0, - deg)) items)) with (map fst items); [exact Nk|]. rewrite map_map. apply map_ext. intros [a b]. reflexivity. }
  rewrite (d_find_map_values Z.opp items w), (Fi w). unfold lap_entry. cbn [d_find]. pose proof (mult_nonneg g Hwf v w) as Hnn. rewrite (Hval v Hv).
  destruct (Z.ltb_spec 0 (mult g v w)) as [P|P]; cbn [option_map].
  - destruct (Nat.eqb_spec v w) as [->|Q]; [rewrite (mult_diag g Hwf w) in P; lia|reflexivity].
  - destruct (Nat.eqb v w); [reflexivity|lia]. Qed.

Theorem construct_matrix_refines : exists LL, CFLaplacian__construct_matrix vs vtv gg so = PyOk LL /\ rep_lap LL g.
Proof. rewrite construct_unfold.
  assert (Hin : forall v, In v (so vs) -> (v < n)%nat).
  { intros v Hv. apply (Permutation_in _ (Hso vs)) in Hv. apply s_mem_In in Hv. rewrite (Hvs v) in Hv. apply Nat.ltb_lt. exact Hv. }
  destruct (lap_outer_loop (so vs) Hin []) as (LL & E & F). rewrite E. exists LL. split; [reflexivity|]. intros v. rewrite (F v), (s_mem_perm v _ _ (Hso vs)), (Hvs v).
  destruct (Nat.ltb v n) eqn:Lv; [|reflexivity]. pose proof (Hgg v) as H. rewrite Lv in H. destruct H as (items & Ei & Ri). unfold dictD, dictZ in *. rewrite Ei. eexists. split; [reflexivity|].
  intros w. apply lap_row_entry; [apply Nat.ltb_lt; exact Lv|exact Ri]. Qed.
Theorem get_matrix_entry_refines LL v w : rep_lap LL g ->
  CFLaplacian_get_matrix_entry vs LL v w = if Nat.ltb v n && Nat.ltb w n then PyOk (lap_entry g v w) else PyExn tt.
Proof. intros HL. unfold CFLaplacian_get_matrix_entry. cbn zeta. rewrite (Hvs v), (Hvs w). destruct (Nat.ltb v n) eqn:Lv; cbn [negb orb andb]; [|reflexivity].
  destruct (Nat.ltb w n); cbn [negb]; [|reflexivity]. pose proof (HL v) as H. rewrite Lv in H. destruct H as (row & Er & Fr). unfold d_get at 2. rewrite Er. rewrite (Fr w). reflexivity. Qed.
(* ---- CFLaplacian.get_reduced_matrix(q): the rows and columns of every vertex but q, each entry the Laplacian entry (rows of self.laplacian being defaultdict(int): absent = 0);
   the result has NO row and NO column for q, and none for a name that is not a vertex - in whatever order the vertex set is iterated (twice) ---- *)
Definition red_inner (LL : list (nat * list (nat * Z))) (q v : nat) (acc_ : pyres unit (list (nat * list (nat * Z)))) (w : nat) : pyres unit (list (nat * list (nat * Z))) :=
  match acc_ with PyExn e_ => PyExn e_ | PyOk reduced_matrix =>
  if (negb (Nat.eqb w q)) then
  match d_find v LL with None => PyExn tt | Some t1_ =>
  match d_find v reduced_matrix with None => PyExn tt | Some t2_ =>
  let reduced_matrix := d_set v (d_set w (d_get w 0 t1_) t2_) reduced_matrix in
  PyOk reduced_matrix end end
  else PyOk reduced_matrix end.
Definition red_outer (LL : list (nat * list (nat * Z))) (q : nat) (W : list nat) (acc_ : pyres unit (list (nat * list (nat * Z)))) (v : nat) : pyres unit (list (nat * list (nat * Z))) :=
  match acc_ with PyExn e_ => PyExn e_ | PyOk reduced_matrix =>
  if (negb (Nat.eqb v q)) then
  let reduced_matrix := d_set v [] reduced_matrix in
  match fold_left (red_inner LL q v) W (PyOk reduced_matrix) with PyExn e_ => PyExn e_ | PyOk reduced_matrix => PyOk reduced_matrix end
  else PyOk reduced_matrix end.
Lemma reduced_unfold LL q : CFLaplacian_get_reduced_matrix LL vs so q =
  match fold_left (red_outer LL q (so vs)) (so vs) (PyOk []) with PyExn e_ => PyExn e_ | PyOk r => PyOk r end.
Proof. reflexivity. Qed.
Lemma red_inner_loop LL q v lrow : d_find v LL = Some lrow -> forall L RR row, d_find v RR = Some row ->
  exists RR' row', fold_left (red_inner LL q v) L (PyOk RR) = PyOk RR' /\ d_find v RR' = Some row' /\ (forall u, u <> v -> d_find u RR' = d_find u RR) /\
    (forall w, d_find w row' = if s_mem w L && negb (Nat.eqb w q) then Some (d_get w 0 lrow) else d_find w row).
Proof. intros El. induction L as [|x L IH]; intros RR row Er.
  - exists RR, row. repeat split; auto.
  - cbn [fold_left]. unfold red_inner at 2. destruct (Nat.eqb_spec x q) as [Q|Q]; cbn [negb].
    + destruct (IH RR row Er) as (RR' & row' & E1 & E2 & E3 & E4). exists RR', row'. repeat split; auto. intros w. rewrite (E4 w). unfold s_mem. cbn [existsb].
      destruct (Nat.eqb_spec w x) as [->|P]; cbn [orb]; [|reflexivity]. subst x. rewrite Nat.eqb_refl. cbn [negb]. rewrite andb_false_r. reflexivity.
    + unfold dictD, dictZ in *. rewrite El, Er. cbn zeta.
      destruct (IH (d_set v (d_set x (d_get x 0 lrow) row) RR) _ (d_find_set_same _ _ _)) as (RR' & row' & E1 & E2 & E3 & E4). exists RR', row'. split; [exact E1|]. split; [exact E2|]. split.
      * intros u Hu. rewrite (E3 u Hu), d_find_set. destruct (Nat.eqb_spec u v); [contradiction|reflexivity].
      * intros w. rewrite (E4 w). unfold s_mem. cbn [existsb]. fold (s_mem w L). destruct (s_mem w L && negb (Nat.eqb w q)) eqn:B.
        { apply andb_true_iff in B. destruct B as [B1 B2]. rewrite B1, B2, orb_true_r. reflexivity. }
        rewrite d_find_set. destruct (Nat.eqb_spec w x) as [->|P]; cbn [orb].
        { destruct (Nat.eqb_spec x q); [contradiction|]. reflexivity. }
        apply andb_false_iff in B. destruct B as [B|B]; rewrite B; [reflexivity|rewrite andb_false_r; reflexivity]. Qed.
Definition red_row_ok (q u : nat) (W : list nat) (row : list (nat * Z)) : Prop := forall w, d_find w row = if s_mem w W && negb (Nat.eqb w q) then Some (lap_entry g u w) else None.
Lemma red_outer_loop LL q W : rep_lap LL g -> forall L, (forall v, In v L -> (v < n)%nat) -> forall RR,
  exists RR', fold_left (red_outer LL q W) L (PyOk RR) = PyOk RR' /\
    forall u, if s_mem u L && negb (Nat.eqb u q) then exists row, d_find u RR' = Some row /\ red_row_ok q u W row else d_find u RR' = d_find u RR.
Proof. intros HL. induction L as [|x L IH]; intros Hin RR; [exists RR; split; [reflexivity|intros u; reflexivity]|]. cbn [fold_left]. unfold red_outer at 2.
  assert (Hx : (x < n)%nat) by (apply Hin; left; reflexivity). pose proof (HL x) as Hr. apply Nat.ltb_lt in Hx. rewrite Hx in Hr. destruct Hr as (lrow & El & Fl).
  destruct (Nat.eqb_spec x q) as [Q|Q]; cbn [negb].
  - destruct (IH (fun v Hv => Hin v (or_intror Hv)) RR) as (RR' & E1 & E2). exists RR'. split; [exact E1|]. intros u. specialize (E2 u). unfold s_mem. cbn [existsb]. fold (s_mem u L).
    destruct (Nat.eqb_spec u x) as [->|P]; cbn [orb]; [|exact E2]. subst x. rewrite Nat.eqb_refl in *. cbn [negb] in *. rewrite andb_false_r in *. exact E2.
  - cbn zeta. destruct (red_inner_loop LL q x lrow El W (d_set x [] RR) [] (d_find_set_same _ _ _)) as (R1 & row1 & F1 & F2 & F3 & F4). unfold dictD, dictZ in *. rewrite F1.
    destruct (IH (fun v Hv => Hin v (or_intror Hv)) R1) as (RR' & E1 & E2). exists RR'. split; [exact E1|]. intros u. specialize (E2 u). unfold s_mem. cbn [existsb]. fold (s_mem u L).
    destruct (s_mem u L && negb (Nat.eqb u q)) eqn:B.
    { apply andb_true_iff in B. destruct B as [B1 B2]. rewrite B1, B2, orb_true_r. exact E2. }
    destruct (Nat.eqb_spec u x) as [->|P]; cbn [orb].
    + destruct (Nat.eqb_spec x q); [contradiction|]. cbn [negb andb]. exists row1. split; [rewrite E2; exact F2|]. intros w. rewrite (F4 w). cbn [d_find]. rewrite (Fl w). reflexivity.
    + apply andb_false_iff in B. rewrite E2, (F3 u P), d_find_set. destruct (Nat.eqb_spec u x); [contradiction|]. destruct B as [B|B]; rewrite B; [reflexivity|rewrite andb_false_r; reflexivity]. Qed.
Theorem get_reduced_matrix_refines LL q : rep_lap LL g -> exists RR, CFLaplacian_get_reduced_matrix LL vs so q = PyOk RR /\
  forall u, if Nat.ltb u n && negb (Nat.eqb u q)
            then exists row, d_find u RR = Some row /\ forall w, d_find w row = if Nat.ltb w n && negb (Nat.eqb w q) then Some (lap_entry g u w) else None
            else d_find u RR = None.
Proof. intros HL. rewrite reduced_unfold.
  assert (Hin : forall v, In v (so vs) -> (v < n)%nat).
  { intros v Hv. apply (Permutation_in _ (Hso vs)) in Hv. apply s_mem_In in Hv. rewrite (Hvs v) in Hv. apply Nat.ltb_lt. exact Hv. }
  destruct (red_outer_loop LL q (so vs) HL (so vs) Hin []) as (RR & E & F). rewrite E. exists RR. split; [reflexivity|]. intros u. specialize (F u).
  rewrite (s_mem_perm u _ _ (Hso vs)), (Hvs u) in F. destruct (Nat.ltb u n && negb (Nat.eqb u q)); [|exact F].
  destruct F as (row & Er & Fr). exists row. split; [exact Er|]. intros w. rewrite (Fr w), (s_mem_perm w _ _ (Hso vs)), (Hvs w). reflexivity. Qed.
End LAP.
