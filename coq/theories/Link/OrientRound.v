(* What the CFOrientation constructor builds from a list of arcs, for every list: the state whose direction table is 1 on the listed arcs,
   2 on their mirror images and 0 elsewhere. Consequences: reverse() yields exactly the transposed orientation (C11), and a state rebuilt
   from its own source->sink arcs has the same direction table and the same counters (used by the TXT round trip, C15). *)
From Coq Require Import ZArith List Lia Bool Arith.
Import ListNotations.
From CF Require Import ZSum ListAux Core Machines GraphLink MachinesLink OrientLink.
Open Scope Z_scope.

Section OR.
Variable g : graph.
Hypothesis Hwf : wfb g = true.
Local Notation m := (mult g).
Local Notation n := (nv g).

(* directions are stored on edges only *)
Definition oedges (s : ostate) : Prop := forall a b, m a b <= 0 -> dir_at s a b = 0.
Lemma oinit_dir x y : dir_at (oinit g) x y = 0.
Proof. unfold dir_at, oinit, mult. cbn [dir]. destruct (le_lt_dec n x). rewrite nth_overflow by (rewrite tab_length; lia). now destruct y.
  rewrite (nth_tab n (fun _ => tab n (fun _ : nat => 0))) by auto. destruct (le_lt_dec n y); [apply nthZ_tab_out; auto|apply (nthZ_tab n (fun _ => 0)); auto]. Qed.
Lemma oinit_edges : oedges (oinit g). Proof. intros a b _. apply oinit_dir. Qed.
Lemma set_orientation_edges s a b st s' : oinv g s -> oedges s -> set_orientation g s a b st = Ok s' -> oedges s'.
Proof. intros Hs He H. destruct (set_orientation_inv g Hwf s a b st s' Hs H) as [_ [Ha [Hb [Hk [_ Hd]]]]]. intros x y Hxy. rewrite Hd.
  destruct (wfb_in g Hwf a b Ha Hb) as [_ [Hsym _]].
  destruct (Nat.eqb_spec x a) as [E1|E1]; destruct (Nat.eqb_spec y b) as [E2|E2]; destruct (Nat.eqb_spec x b) as [E3|E3]; destruct (Nat.eqb_spec y a) as [E4|E4];
  cbn [andb]; try (exfalso; subst; lia); now apply He. Qed.
Lemma set_orientation_ok s a b st : (a < n)%nat -> (b < n)%nat -> 0 < m a b -> (st = 0 \/ st = 1 \/ st = 2) -> exists s', set_orientation g s a b st = Ok s'.
Proof. intros Ha Hb Hk Hst. unfold set_orientation, inb.
  assert (E1 : Nat.ltb a n = true) by now apply Nat.ltb_lt. assert (E2 : Nat.ltb b n = true) by now apply Nat.ltb_lt. rewrite E1, E2. cbn [andb negb].
  destruct (Z.leb_spec (m a b) 0); [lia|].
  assert (E3 : (st =? 0) || (st =? 1) || (st =? 2) = true) by (destruct Hst as [->|[->| ->]]; reflexivity). rewrite E3. cbn [negb].
  destruct (if dir_at s a b =? 1 then _ else _) as [o1 i1]. destruct (if st =? 1 then _ else _) as [o2 i2]. eauto. Qed.

Definition has (ps : list (nat * nat)) (x y : nat) : bool := existsb (fun p => Nat.eqb (fst p) x && Nat.eqb (snd p) y) ps.
(* arcs: edges of g, no arc twice, never both directions of one edge *)
Fixpoint arcs_ok (ps : list (nat * nat)) : Prop :=
  match ps with [] => True | (a, b) :: t => (a < n)%nat /\ (b < n)%nat /\ 0 < m a b /\ has t a b = false /\ has t b a = false /\ arcs_ok t end.
Lemma construct_go_spec : forall ps s, oinv g s -> arcs_ok ps -> (forall a b, has ps a b = true -> dir_at s a b = 0) ->
  exists s', oconstruct_go g s ps = Ok s' /\ oinv g s' /\ is_full_checked s' = true /\
    forall x y, dir_at s' x y = if has ps x y then 1 else if has ps y x then 2 else dir_at s x y.
Proof. induction ps as [|[a b] t IH]; intros s Hs Hok Hfree.
  - cbn [oconstruct_go]. destruct (check_fullness_inv g s Hs) as [A [_ [B [_ [_ C]]]]]. exists (fst (check_fullness g s)). split; [reflexivity|]. split; [exact A|]. split; [exact C|].
    intros x y. cbn [has existsb]. unfold dir_at. now rewrite B.
  - destruct Hok as [Ha [Hb [Hk [Hn1 [Hn2 Hok]]]]]. cbn [oconstruct_go]. unfold inb.
    assert (E1 : Nat.ltb a n = true) by now apply Nat.ltb_lt. assert (E2 : Nat.ltb b n = true) by now apply Nat.ltb_lt. rewrite E1, E2. cbn [andb negb].
    destruct (Z.leb_spec (m a b) 0); [lia|].
    assert (E0 : dir_at s a b = 0). { apply Hfree. cbn [has existsb fst snd]. now rewrite !Nat.eqb_refl. } rewrite E0. cbn [Z.eqb negb].
    destruct (set_orientation_ok s a b 1 Ha Hb Hk ltac:(auto)) as [s1 E]. rewrite E.
    destruct (set_orientation_inv g Hwf s a b 1 s1 Hs E) as [Hs1 [_ [_ [_ [_ Hd]]]]].
    assert (Hab : a <> b). { intro; subst. destruct (wfb_in g Hwf b b Hb Hb) as [_ [_ D]]. lia. }
    destruct (IH s1 Hs1 Hok) as [s' [Hgo [Hi [Hc Hdir]]]].
    + intros x y Hxy. rewrite Hd.
      destruct (Nat.eqb_spec x a) as [Q1|Q1]; destruct (Nat.eqb_spec y b) as [Q2|Q2]; destruct (Nat.eqb_spec x b) as [Q3|Q3]; destruct (Nat.eqb_spec y a) as [Q4|Q4];
      cbn [andb]; try (exfalso; subst; congruence); apply Hfree; unfold has in Hxy |- *; cbn [existsb]; rewrite Hxy; apply orb_true_r.
    + exists s'. split; [exact Hgo|]. split; [exact Hi|]. split; [exact Hc|]. intros x y. rewrite Hdir, Hd. unfold has. cbn [existsb fst snd]. fold (has t x y). fold (has t y x).
      change (mirror 1) with 2. rewrite (Nat.eqb_sym x a), (Nat.eqb_sym y b), (Nat.eqb_sym x b), (Nat.eqb_sym y a).
      destruct (Nat.eqb_spec a x) as [Q1|Q1]; destruct (Nat.eqb_spec b y) as [Q2|Q2]; destruct (Nat.eqb_spec a y) as [Q3|Q3]; destruct (Nat.eqb_spec b x) as [Q4|Q4];
      cbn [andb orb]; try (exfalso; lia); subst; rewrite ?Hn1, ?Hn2; reflexivity. Qed.

(* ---- arc lists enumerated from a predicate ---- *)
Definition arcs_of (c : nat -> nat -> bool) : list (nat * nat) :=
  flat_map (fun a => flat_map (fun b => if c a b then [(a, b)] else []) (Vg g)) (Vg g).
Lemma has_In ps x y : has ps x y = true <-> In (x, y) ps.
Proof. unfold has. rewrite existsb_exists. split.
  - intros [[a b] [Hin E]]. cbn [fst snd] in E. apply andb_true_iff in E. destruct E as [E1 E2]. apply Nat.eqb_eq in E1, E2. now subst.
  - intros H. exists (x, y). split; auto. cbn [fst snd]. now rewrite !Nat.eqb_refl. Qed.
Lemma has_false ps x y : has ps x y = false <-> ~ In (x, y) ps.
Proof. rewrite <- has_In. destruct (has ps x y); split; congruence. Qed.
Lemma in_row (c : nat -> nat -> bool) (a : nat) (V2 : list nat) (x y : nat) : In (x, y) (flat_map (fun b => if c a b then [(a, b)] else []) V2) <-> x = a /\ In y V2 /\ c a y = true.
Proof. rewrite in_flat_map. split.
  - intros [b [Hb H]]. destruct (c a b) eqn:E; [|destruct H]. destruct H as [H|[]]. inversion H; subst. auto.
  - intros [-> [Hy Hc]]. exists y. split; auto. rewrite Hc. now left. Qed.
Lemma in_arcs_of c x y : In (x, y) (arcs_of c) <-> (x < n)%nat /\ (y < n)%nat /\ c x y = true.
Proof. unfold arcs_of. rewrite in_flat_map. split.
  - intros [a [Ha H]]. apply in_row in H. destruct H as [-> [Hy Hc]]. apply in_Vg in Ha, Hy. auto.
  - intros [Hx [Hy Hc]]. exists x. split; [now apply in_Vg|]. apply in_row. split; auto. split; auto. now apply in_Vg. Qed.
Lemma nodup_app {A} (l1 l2 : list A) : NoDup l1 -> NoDup l2 -> (forall x, In x l1 -> ~ In x l2) -> NoDup (l1 ++ l2).
Proof. induction 1 as [|a l1 Ha Hd IH]; intros H2 Hdis; [exact H2|]. cbn [app]. constructor.
  - intro Hin. apply in_app_or in Hin. destruct Hin as [Hin|Hin]; [contradiction|]. apply (Hdis a); [now left|exact Hin].
  - apply IH; auto. intros x Hx. apply Hdis. now right. Qed.
Lemma nodup_row (c : nat -> nat -> bool) (a : nat) : forall V2 : list nat, NoDup V2 -> NoDup (flat_map (fun b => if c a b then [(a, b)] else []) V2).
Proof. induction 1 as [|b V2 Hb Hd IH]; [constructor|]. cbn [flat_map]. destruct (c a b); [|exact IH]. cbn [app]. constructor; auto.
  intro Hin. apply in_row in Hin. tauto. Qed.
Lemma nodup_arcs (c : nat -> nat -> bool) (V2 : list nat) : NoDup V2 -> forall V1 : list nat, NoDup V1 -> NoDup (flat_map (fun a => flat_map (fun b => if c a b then [(a, b)] else []) V2) V1).
Proof. intros H2. induction 1 as [|a V1 Ha Hd IH]; [constructor|]. cbn [flat_map]. apply nodup_app; [now apply nodup_row|exact IH|].
  intros [x y] Hx Hin. apply in_row in Hx. destruct Hx as [-> _]. apply in_flat_map in Hin. destruct Hin as [a' [Ha' H]]. apply in_row in H. destruct H as [-> _]. contradiction. Qed.
Lemma arcs_ok_intro ps : NoDup ps -> (forall a b, In (a, b) ps -> (a < n)%nat /\ (b < n)%nat /\ 0 < m a b /\ ~ In (b, a) ps) -> arcs_ok ps.
Proof. induction 1 as [|[a b] t Hn Hd IH]; intros H; [exact I|]. cbn [arcs_ok]. destruct (H a b (or_introl eq_refl)) as [Ha [Hb [Hk Hsw]]].
  split; [exact Ha|]. split; [exact Hb|]. split; [exact Hk|]. split; [now apply has_false|]. split; [apply has_false; intro; apply Hsw; now right|].
  apply IH. intros x y Hxy. destruct (H x y (or_intror Hxy)) as [A [B [C D]]]. repeat split; auto. intro; apply D; now right. Qed.
Lemma arcs_of_ok c : (forall a b, (a < n)%nat -> (b < n)%nat -> c a b = true -> 0 < m a b /\ c b a = false) -> arcs_ok (arcs_of c).
Proof. intros H. apply arcs_ok_intro; [apply nodup_arcs; apply Vg_nodup|]. intros a b Hin. apply in_arcs_of in Hin. destruct Hin as [Ha [Hb Hc]].
  destruct (H a b Ha Hb Hc) as [Hk Hsw]. repeat split; auto. intro Hin. apply in_arcs_of in Hin. destruct Hin as [_ [_ E]]. congruence. Qed.
Lemma has_arcs_of c x y : has (arcs_of c) x y = Nat.ltb x n && Nat.ltb y n && c x y.
Proof. destruct (has (arcs_of c) x y) eqn:E.
  - apply has_In, in_arcs_of in E. destruct E as [Hx [Hy Hc]]. apply Nat.ltb_lt in Hx, Hy. now rewrite Hx, Hy, Hc.
  - apply has_false in E. destruct (Nat.ltb_spec x n); cbn [andb]; auto. destruct (Nat.ltb_spec y n); cbn [andb]; auto.
    destruct (c x y) eqn:Ec; auto. exfalso. apply E. now apply in_arcs_of. Qed.
Theorem construct_spec ps : arcs_ok ps -> exists s', oconstruct g ps = Ok s' /\ oinv g s' /\ is_full_checked s' = true /\ forall x y, dir_at s' x y = if has ps x y then 1 else if has ps y x then 2 else 0.
Proof. intros Hok. destruct (construct_go_spec ps (oinit g) (oinit_inv g) Hok) as [s' [H1 [H2 [H3 H4]]]]; [intros; apply oinit_dir|].
  exists s'. split; [exact H1|]. split; [exact H2|]. split; [exact H3|]. intros x y. rewrite H4. now rewrite oinit_dir. Qed.

(* ---- matrices and counters of two consistent states with the same directions coincide ---- *)
Lemma dir_out_of_range s x y : oinv g s -> ((n <= x)%nat \/ (n <= y)%nat) -> dir_at s x y = 0.
Proof. intros [H1 [H2 _]] H. unfold dir_at, mult. destruct (le_lt_dec n x) as [Hx|Hx].
  - rewrite nth_overflow by (unfold nv in *; lia). now destruct y.
  - destruct H as [H|H]; [lia|]. unfold nthZ. apply nth_overflow. rewrite H2 by auto. exact H. Qed.
Lemma same_dirs s s' : oinv g s -> oinv g s' -> (forall x y, (x < n)%nat -> (y < n)%nat -> dir_at s' x y = dir_at s x y) ->
  dir s' = dir s /\ inc s' = inc s /\ outc s' = outc s.
Proof. intros Hs Hs' Hd.
  assert (E : dir s' = dir s).
  { destruct Hs as [A1 [A2 _]]. destruct Hs' as [B1 [B2 _]]. apply nth_ext with (d := []) (d' := []); [unfold nv in *; congruence|].
    intros i Hi. assert (Hin : (i < n)%nat) by (unfold nv in *; lia). apply list_eq_nthZ; [rewrite A2, B2; auto|]. intros w Hw. rewrite B2 in Hw by auto. now apply Hd. }
  split; [exact E|]. destruct Hs as [_ [_ [A3 [A4 [_ [A6 _]]]]]]. destruct Hs' as [_ [_ [B3 [B4 [_ [B6 _]]]]]].
  split; apply list_eq_nthZ; try congruence; intros v Hv.
  - rewrite B3 in Hv. rewrite (proj1 (B6 v Hv)), (proj1 (A6 v Hv)), E. reflexivity.
  - rewrite B4 in Hv. rewrite (proj2 (B6 v Hv)), (proj2 (A6 v Hv)), E. reflexivity. Qed.

(* ---- reverse(): exactly the transposed orientation, granted exactly on full orientations ---- *)
Theorem o_reverse_spec s : oinv g s -> oedges s -> match snd (o_reverse g s) with
  | Ok s' => full_b g s = true /\ oinv g s' /\ oedges s' /\ is_full_checked s' = true /\ forall a b, dir_at s' a b = dir_at s b a
  | Err => full_b g s = false end.
Proof. intros Hs He. destruct (ensure_checked_inv g s Hs) as [A [B [C D]]]. unfold o_reverse; cbn [snd]. set (s0 := ensure_checked g s) in *.
  assert (Hcache : is_full s0 = full_b g s0) by (destruct A as [_ [_ [_ [_ [_ [_ [Hc _]]]]]]]; auto).
  assert (Hf : full_b g s0 = full_b g s) by (unfold full_b, dir_at; rewrite C; reflexivity).
  assert (Hd0 : forall x y, dir_at s0 x y = dir_at s x y) by (intros; unfold dir_at; now rewrite C).
  destruct (is_full s0) eqn:E; [|congruence].
  fold (arcs_of (fun a b => (0 <? m a b) && (dir_at s0 a b =? 2))).
  set (c := fun a b => (0 <? m a b) && (dir_at s0 a b =? 2)).
  assert (Hmir : forall a b, (a < n)%nat -> (b < n)%nat -> dir_at s b a = mirror (dir_at s a b)) by (destruct Hs as [_ [_ [_ [_ [H _]]]]]; exact H).
  assert (Hval : forall a b, (a < n)%nat -> (b < n)%nat -> dir_at s a b = 0 \/ dir_at s a b = 1 \/ dir_at s a b = 2) by (destruct Hs as [_ [_ [_ [_ [_ [_ [_ H]]]]]]]; exact H).
  assert (Hok : arcs_ok (arcs_of c)).
  { apply arcs_of_ok. intros a b Ha Hb Hc. unfold c in *. apply andb_true_iff in Hc. destruct Hc as [H1 H2]. apply Z.ltb_lt in H1. apply Z.eqb_eq in H2.
    split; auto. rewrite !Hd0 in *. rewrite (Hmir a b Ha Hb), H2. cbn. apply andb_false_r. }
  destruct (construct_spec (arcs_of c) Hok) as [s' [H1 [H2 [H3 H4]]]]. rewrite H1. split; [congruence|]. split; [exact H2|].
  assert (Hdir : forall a b, dir_at s' a b = dir_at s b a).
  { intros a b. rewrite H4, !has_arcs_of. unfold c. rewrite !Hd0.
    destruct (Nat.ltb_spec a n) as [Ha|Ha]; [destruct (Nat.ltb_spec b n) as [Hb|Hb]|]; cbn [andb].
    - destruct (wfb_in g Hwf a b Ha Hb) as [_ [Hsym _]]. rewrite <- Hsym. rewrite (Hmir a b Ha Hb).
      destruct (Z.ltb_spec 0 (m a b)) as [Hk|Hk]; cbn [andb].
      + destruct (Hval a b Ha Hb) as [V|[V|V]]; rewrite V; reflexivity.
      + rewrite (He a b Hk). reflexivity.
    - symmetry. apply (dir_out_of_range s b a Hs). now left.
    - symmetry. rewrite andb_false_r. cbn [andb]. apply (dir_out_of_range s b a Hs). now right. }
  split; [|split; [exact H3|exact Hdir]].
  intros a b Hk. rewrite Hdir. destruct (le_lt_dec n a) as [Ha|Ha]; [apply (dir_out_of_range s b a Hs); now right|].
  destruct (le_lt_dec n b) as [Hb|Hb]; [apply (dir_out_of_range s b a Hs); now left|]. apply He. destruct (wfb_in g Hwf a b Ha Hb) as [_ [Hsym _]]. lia. Qed.

(* ---- a state rebuilt from its own source->sink arcs ---- *)
Definition arcs1 (s : ostate) : list (nat * nat) := arcs_of (fun a b => (0 <? m a b) && (dir_at s a b =? 1)).
Theorem reconstruct_same s : oinv g s -> oedges s ->
  exists s', oconstruct g (arcs1 s) = Ok s' /\ oinv g s' /\ is_full_checked s' = true /\ dir s' = dir s /\ inc s' = inc s /\ outc s' = outc s.
Proof. intros Hs He. set (c := fun a b => (0 <? m a b) && (dir_at s a b =? 1)).
  assert (Hmir : forall a b, (a < n)%nat -> (b < n)%nat -> dir_at s b a = mirror (dir_at s a b)) by (destruct Hs as [_ [_ [_ [_ [H _]]]]]; exact H).
  assert (Hval : forall a b, (a < n)%nat -> (b < n)%nat -> dir_at s a b = 0 \/ dir_at s a b = 1 \/ dir_at s a b = 2) by (destruct Hs as [_ [_ [_ [_ [_ [_ [_ H]]]]]]]; exact H).
  assert (Hok : arcs_ok (arcs_of c)).
  { apply arcs_of_ok. intros a b Ha Hb Hc. unfold c in *. apply andb_true_iff in Hc. destruct Hc as [H1 H2]. apply Z.ltb_lt in H1. apply Z.eqb_eq in H2.
    split; auto. rewrite (Hmir a b Ha Hb), H2. cbn. apply andb_false_r. }
  destruct (construct_spec (arcs_of c) Hok) as [s' [H1 [H2 [H3 H4]]]]. exists s'. split; [exact H1|]. split; [exact H2|]. split; [exact H3|].
  apply same_dirs; auto. intros x y Hx Hy. rewrite H4, !has_arcs_of. unfold c.
  assert (E1 : Nat.ltb x n = true) by now apply Nat.ltb_lt. assert (E2 : Nat.ltb y n = true) by now apply Nat.ltb_lt. rewrite E1, E2. cbn [andb].
  destruct (wfb_in g Hwf x y Hx Hy) as [_ [Hsym _]]. rewrite <- Hsym. rewrite (Hmir x y Hx Hy).
  destruct (Z.ltb_spec 0 (m x y)) as [Hk|Hk]; cbn [andb].
  - destruct (Hval x y Hx Hy) as [V|[V|V]]; rewrite V; reflexivity.
  - now rewrite (He x y Hk). Qed.

(* ---- directions stay on edges over every history ---- *)
Lemma oconstruct_go_edges os : forall s s', oinv g s -> oedges s -> oconstruct_go g s os = Ok s' -> oedges s'.
Proof. induction os as [|[a b] t IH]; intros s s' Hs He H; cbn [oconstruct_go] in H.
  - inversion H; subst. intros x y Hxy. unfold check_fullness, dir_at. cbn [fst dir]. now apply He.
  - destruct (negb (inb g a && inb g b)); [discriminate|]. destruct (m a b <=? 0); [discriminate|]. destruct (negb (dir_at s a b =? 0)); [discriminate|].
    destruct (set_orientation g s a b 1) as [s1|] eqn:E; [|discriminate]. eapply (IH s1 s'); eauto.
    + apply (set_orientation_inv g Hwf s a b 1 s1 Hs E).
    + eapply set_orientation_edges; eauto. Qed.
Theorem oconstruct_edges os s : oconstruct g os = Ok s -> oedges s.
Proof. apply oconstruct_go_edges; [apply oinit_inv|apply oinit_edges]. Qed.
Theorem orientation_history_edges ops : forall s, oinv g s -> oedges s -> oedges (fold_left (oapply g) ops s).
Proof. induction ops as [|o t IH]; intros s Hs He; [exact He|]. cbn [fold_left].
  assert (Hs' : oinv g (oapply g s o)) by (apply (orientation_history_inv g Hwf [o] s Hs)).
  apply IH; [exact Hs'|]. destruct o as [a b st| | |]; cbn [oapply].
  - destruct (set_orientation g s a b st) as [s1|] eqn:E; [|exact He]. exact (set_orientation_edges s a b st s1 Hs He E).
  - intros x y Hxy. unfold check_fullness, dir_at. cbn [fst dir]. now apply He.
  - unfold o_divisor; cbn [fst]. destruct (ensure_checked_inv g s Hs) as [_ [_ [C _]]]. intros x y Hxy. unfold dir_at. rewrite C. now apply He.
  - unfold o_reverse; cbn [fst]. destruct (ensure_checked_inv g s Hs) as [_ [_ [C _]]]. intros x y Hxy. unfold dir_at. rewrite C. now apply He. Qed.
End OR.
