(* The greedy solver of the model: script invariant, order independence, meaning of failure. *)
From Coq Require Import ZArith List Lia Bool Arith.
Import ListNotations.
From CF Require Import ZSum ListAux Defs LinEquiv Core Machines GraphLink MachinesLink.
From CF Require Greedy GreedyModel.
Module MG := CF.Model.GreedyModel.
Module TG := CF.Theory.Greedy.
Open Scope Z_scope.

Section WF.
Variable g : graph.
Hypothesis Hwf : wfb g = true.
Variable D0 : div.
Hypothesis HL0 : length D0 = nv g.
Local Notation V := (Vg g).
Local Notation m := (mult g).
Local Notation mnn := (mult_nonneg g Hwf).
Local Notation run := (TG.greedy_run V m (nthZ D0)).
Local Notation aft := (TG.after V m (nthZ D0)).

Lemma is_effective_b_spec D : is_effective_b g D = true <-> effective V (nthZ D).
Proof. unfold is_effective_b. rewrite forallb_forall. split; intros H v Hv; [apply Z.leb_le|apply Z.leb_le]; auto. Qed.
Lemma counts_snoc l v x : TG.counts (l ++ [v]) x = TG.counts l x + unit_at v x.
Proof. rewrite TG.counts_app. cbn [TG.counts]. unfold unit_at. rewrite (Nat.eqb_sym v x). lia. Qed.

Section Order.
Variable order : list nat.
Hypothesis Hin : forall v, In v order -> In v V.
Hypothesis Hcov : forall v, In v V -> In v order.

Lemma greedy_loop_inv budget : forall D s l, run l -> length D = nv g -> length s = nv g ->
  (forall v, In v V -> nthZ D v = aft (TG.counts l) v) -> (forall v, In v V -> nthZ s v = - TG.counts l v) ->
  match MG.greedy_loop budget g order D s with
  | Some (D', s') => exists l', run l' /\ (length l' <= length l + budget)%nat /\ effective V (nthZ D') /\ length D' = nv g /\ length s' = nv g /\
        (forall v, In v V -> nthZ D' v = aft (TG.counts l') v) /\ (forall v, In v V -> nthZ s' v = - TG.counts l' v)
  | None => exists l', run l' /\ length l' = (length l + budget)%nat /\ ~ effective V (aft (TG.counts l'))
  end.
Proof. induction budget as [|b IH]; intros D s l Hr HLD HLs HD Hs; cbn [MG.greedy_loop].
  - destruct (is_effective_b g D) eqn:E.
    + exists l. repeat split; auto; [lia|now apply is_effective_b_spec].
    + exists l. split; auto. split; [lia|]. intros Heff. assert (is_effective_b g D = true); [|congruence]. apply is_effective_b_spec. intros v Hv. rewrite HD by auto. now apply Heff.
  - destruct (is_effective_b g D) eqn:E.
    + exists l. repeat split; auto; [lia|now apply is_effective_b_spec].
    + destruct (find (fun v => nthZ D v <? 0) order) as [v|] eqn:Ef.
      * apply find_some in Ef. destruct Ef as [Hvo Hneg]. apply Z.ltb_lt in Hneg. assert (Hv : In v V) by auto.
        assert (Hr' : run (l ++ [v])). { constructor; auto. rewrite <- HD by auto. exact Hneg. }
        specialize (IH (borrow g D v) (upd s v (nthZ s v - 1)) (l ++ [v]) Hr' (len_borrow g D v)).
        rewrite upd_length in IH. specialize (IH HLs).
        assert (A : forall w, In w V -> nthZ (borrow g D v) w = aft (TG.counts (l ++ [v])) w).
        { intros w Hw. rewrite (nth_borrow g Hwf) by auto. rewrite HD by auto. unfold TG.after.
          rewrite (lap_ext V m (TG.counts (l ++ [v])) (fun x => TG.counts l x + unit_at v x)) by (auto; intros; apply counts_snoc). rewrite lap_add. lia. }
        assert (B : forall w, In w V -> nthZ (upd s v (nthZ s v - 1)) w = - TG.counts (l ++ [v]) w).
        { intros w Hw. rewrite nthZ_upd, counts_snoc. rewrite HLs. assert (Hlt : Nat.ltb v (nv g) = true) by (apply Nat.ltb_lt; now apply in_Vg). rewrite Hlt, andb_true_r.
          unfold unit_at. destruct (Nat.eqb_spec w v) as [->|]; rewrite Hs by auto; lia. }
        specialize (IH A B). rewrite app_length in IH. cbn [length] in IH.
        destruct (MG.greedy_loop b g order (borrow g D v) (upd s v (nthZ s v - 1))) as [[D' s']|].
        -- destruct IH as [l' [H1 [H2 H3]]]. exists l'. split; auto. split; [lia|auto].
        -- destruct IH as [l' [H1 [H2 H3]]]. exists l'. split; auto. split; [lia|auto].
      * exfalso. assert (is_effective_b g D = true); [|congruence]. apply is_effective_b_spec. intros v Hv.
        pose proof (find_none _ _ Ef v (Hcov v Hv)) as Hn. cbv beta in Hn. apply Z.ltb_ge in Hn. exact Hn. Qed.

Lemma greedy_start : (forall v, In v V -> nthZ D0 v = aft (TG.counts []) v) /\ (forall v, In v V -> nthZ (tab (nv g) (fun _ => 0)) v = - TG.counts [] v).
Proof. split; intros v Hv.
  - unfold TG.after. cbn [TG.counts]. rewrite lap_const. lia.
  - rewrite (nthZ_tab (nv g) (fun _ => 0)) by now apply in_Vg. reflexivity. Qed.
Definition greedy_result := MG.greedy g order D0.
Lemma greedy_cases : match greedy_result with
  | Some (D', s') => exists l', run l' /\ (length l' <= MG.greedy_budget g)%nat /\ effective V (nthZ D') /\ length D' = nv g /\ length s' = nv g /\
        (forall v, In v V -> nthZ D' v = aft (TG.counts l') v) /\ (forall v, In v V -> nthZ s' v = - TG.counts l' v)
  | None => exists l', run l' /\ length l' = MG.greedy_budget g /\ ~ effective V (aft (TG.counts l')) end.
Proof. unfold greedy_result, MG.greedy. destruct greedy_start as [A B].
  pose proof (greedy_loop_inv (MG.greedy_budget g) D0 (tab (nv g) (fun _ => 0)) [] (TG.gr0 V m (nthZ D0)) HL0 (tab_length _ _) A B) as H. cbn [length plus] in H. exact H. Qed.
(* success: the returned script applied through the Laplacian to the original divisor is the effective divisor the solver ended on *)
Theorem greedy_success_spec D' s' : greedy_result = Some (D', s') ->
  effective V (nthZ D') /\ (forall v, In v V -> nthZ D' v = nthZ D0 v - lap V m (nthZ s') v) /\ (forall v, In v V -> nthZ s' v <= 0) /\ length D' = nv g /\ length s' = nv g.
Proof. intros H. pose proof greedy_cases as C. rewrite H in C. destruct C as [l' [_ [_ [He [L1 [L2 [HD Hs]]]]]]]. repeat split; auto.
  - intros v Hv. rewrite HD by auto. unfold TG.after. rewrite (lap_ext V m (nthZ s') (fun x => - TG.counts l' x)) by auto. rewrite lap_neg. lia.
  - intros v Hv. rewrite Hs by auto. pose proof (TG.counts_nonneg l' v). lia. Qed.
(* failure: every non-negative borrowing vector that reaches an effective divisor needs more than the budget of 10*|V| moves *)
Theorem greedy_failure_spec : greedy_result = None ->
  forall c, (forall v, In v V -> 0 <= c v) -> effective V (aft c) -> Z.of_nat (MG.greedy_budget g) < zsum c V.
Proof. intros H c Hc Heff. pose proof greedy_cases as C. rewrite H in C. destruct C as [l' [Hr [HLl Hne]]].
  pose proof (TG.unfinished_run_shorter V m mnn (nthZ D0) l' c Hr Hne Hc Heff) as Hlt.
  rewrite TG.counts_total in Hlt; [lia|apply Vg_nodup|].
  clear - Hr. induction Hr as [|l v Hr IH Hv _]; intros x Hx; [destruct Hx|]. apply in_app_or in Hx. destruct Hx as [Hx|[<-|[]]]; auto. Qed.
End Order.

(* any two visiting orders (each covering the vertex set): same outcome, same script, same final divisor *)
Theorem greedy_order_independent o1 o2 : (forall v, In v o1 <-> In v V) -> (forall v, In v o2 <-> In v V) -> MG.greedy g o1 D0 = MG.greedy g o2 D0.
Proof. intros H1 H2.
  pose proof (greedy_cases o1 (fun v => proj1 (H1 v)) (fun v => proj2 (H1 v))) as C1. pose proof (greedy_cases o2 (fun v => proj1 (H2 v)) (fun v => proj2 (H2 v))) as C2.
  unfold greedy_result in *. 
  assert (Hruns : forall l, run l -> forall x, In x l -> In x V). { intros l Hr. induction Hr as [|l v Hr IH Hv _]; intros x Hx; [destruct Hx|]. apply in_app_or in Hx. destruct Hx as [Hx|[<-|[]]]; auto. }
  destruct (MG.greedy g o1 D0) as [[D1 s1]|], (MG.greedy g o2 D0) as [[D2 s2]|]; auto.
  - destruct C1 as [l1 [R1 [_ [E1 [LD1 [LS1 [HD1 HS1]]]]]]]. destruct C2 as [l2 [R2 [_ [E2 [LD2 [LS2 [HD2 HS2]]]]]]].
    assert (Eq : forall v, In v V -> TG.counts l1 v = TG.counts l2 v).
    { assert (F1 : effective V (aft (TG.counts l1))) by (intros v Hv; rewrite <- HD1; auto).
      assert (F2 : effective V (aft (TG.counts l2))) by (intros v Hv; rewrite <- HD2; auto).
      exact (TG.greedy_script_unique V m mnn (nthZ D0) l1 l2 R1 R2 F1 F2). }
    assert (ED : D1 = D2).
    { apply list_eq_nthZ; [congruence|]. intros v Hv. assert (Hv' : In v V) by (apply in_Vg; lia).
      rewrite HD1, HD2 by auto. unfold TG.after. f_equal. apply lap_ext; auto. }
    assert (ES : s1 = s2).
    { apply list_eq_nthZ; [congruence|]. intros v Hv. assert (Hv' : In v V) by (apply in_Vg; lia). rewrite HS1, HS2 by auto. now rewrite Eq. }
    subst. reflexivity.
  - exfalso. destruct C1 as [l1 [R1 [B1 [E1 [_ [_ [HD1 _]]]]]]]. destruct C2 as [l2 [R2 [L2 N2]]].
    assert (Heff : effective V (aft (TG.counts l1))) by (intros v Hv; rewrite <- HD1; auto).
    pose proof (TG.unfinished_run_shorter V m mnn (nthZ D0) l2 (TG.counts l1) R2 N2 (fun v _ => TG.counts_nonneg l1 v) Heff) as Hlt.
    rewrite (TG.counts_total l2 V (Vg_nodup g) (Hruns l2 R2)), (TG.counts_total l1 V (Vg_nodup g) (Hruns l1 R1)) in Hlt. lia.
  - exfalso. destruct C2 as [l2 [R2 [B2 [E2 [_ [_ [HD2 _]]]]]]]. destruct C1 as [l1 [R1 [L1 N1]]].
    assert (Heff : effective V (aft (TG.counts l2))) by (intros v Hv; rewrite <- HD2; auto).
    pose proof (TG.unfinished_run_shorter V m mnn (nthZ D0) l1 (TG.counts l2) R1 N1 (fun v _ => TG.counts_nonneg l2 v) Heff) as Hlt.
    rewrite (TG.counts_total l2 V (Vg_nodup g) (Hruns l2 R2)), (TG.counts_total l1 V (Vg_nodup g) (Hruns l1 R1)) in Hlt. lia. Qed.
End WF.
