(* The methods translated from /repo's current source by tools/translate_imp.py (TranslatedImp.v, regenerated on every run), run on dictionaries that
   represent a model state, refuse exactly when the model refuses and otherwise end in dictionaries representing the model's result:
   CFDivisor.lending_move / firing_move / borrowing_move / chip_transfer / set_fire / is_effective / get_degree against lend / borrow / transfer /
   fire_set / is_effective_b (Model/Core.v, Model/Machines.v), CFGraph.add_edge / get_valence / is_loopless against add_edge (Model/Machines.v). *)
From Coq Require Import ZArith List Lia Bool Arith Permutation.
Import ListNotations.
From CF Require Import ZSum ListAux Defs Core Machines GraphLink MachinesLink PyDict TranslatedImp.
Open Scope Z_scope.

(* ---- representation of model states by dictionaries ---- *)
Definition rep_div (n : nat) (dd : dictZ) (D : list Z) : Prop :=
  length D = n /\ NoDup (d_keys dd) /\ forall v, d_find v dd = if Nat.ltb v n then Some (nthZ D v) else None.
Definition rep_row (g : graph) (v : nat) (row : dictZ) : Prop :=
  NoDup (d_keys row) /\ forall w, d_find w row = if 0 <? mult g v w then Some (mult g v w) else None.
Definition rep_graph (gg : dictD) (g : graph) : Prop :=
  forall v, if Nat.ltb v (nv g) then exists row, d_find v gg = Some row /\ rep_row g v row else d_find v gg = None.

Lemma rep_div_intro n dd (f : nat -> Z) : NoDup (d_keys dd) -> (forall v, d_find v dd = if Nat.ltb v n then Some (f v) else None) -> rep_div n dd (tab n f).
Proof. intros H1 H2. split; [apply tab_length|]. split; [exact H1|]. intros v. rewrite H2. destruct (Nat.ltb_spec v n); [rewrite nthZ_tab by assumption|]; reflexivity. Qed.

(* sums over the keys of a row *)
Lemma zsum_support (f : nat -> Z) ks V : NoDup ks -> NoDup V -> incl ks V -> (forall u, In u V -> ~ In u ks -> f u = 0) -> zsum f ks = zsum f V.
Proof. intros Hk HV Hi Hz. rewrite (zsum_ext f (fun u => if mem u ks then f u else 0) V).
  - rewrite <- zsum_filter. apply zsum_perm. apply NoDup_Permutation; [exact Hk|apply NoDup_filter; exact HV|].
    intros x. rewrite filter_In, mem_In. split; [intros H; split; auto|tauto].
  - intros u Hu. destruct (mem u ks) eqn:E; [reflexivity|]. apply Hz; [exact Hu|]. intros Q. apply mem_In in Q. congruence. Qed.

(* ---- the loop of lending_move / borrowing_move ---- *)
Section MoveLoop.
Variables (op1 op2 : Z -> Z -> Z) (sg : Z).
Hypothesis Hop1 : forall t x, op1 t x = t + sg * x.
Hypothesis Hop2 : forall t x, op2 t x = t - sg * x.
Variables (n vertex : nat) (neighbors : dictZ) (xval : nat -> Z).
Definition move_body (acc_ : option dictZ) (neighbor : nat) : option dictZ :=
  match acc_ with None => None | Some self_degrees =>
  match d_find neighbor neighbors with None => None | Some t2_ => let valence := t2_ in
  match d_find neighbor self_degrees with None => None | Some t3_ => let self_degrees := d_set neighbor (op1 t3_ valence) self_degrees in
  match d_find vertex self_degrees with None => None | Some t4_ => let self_degrees := d_set vertex (op2 t4_ valence) self_degrees in
  Some self_degrees end end end end.
Lemma move_loop : forall ks dd f, NoDup ks -> (forall w, In w ks -> w <> vertex /\ (w < n)%nat /\ d_find w neighbors = Some (xval w)) -> (vertex < n)%nat ->
  NoDup (d_keys dd) -> (forall u, d_find u dd = if Nat.ltb u n then Some (f u) else None) ->
  exists dd', fold_left move_body ks (Some dd) = Some dd' /\ NoDup (d_keys dd') /\
    forall u, d_find u dd' = if Nat.ltb u n then Some (if Nat.eqb u vertex then f u - sg * zsum xval ks else f u + (if mem u ks then sg * xval u else 0)) else None.
Proof. induction ks as [|w ks IH]; intros dd f Hnd Hks Hv Hdk Hf.
  - exists dd. split; [reflexivity|]. split; [exact Hdk|]. intros u. rewrite Hf. destruct (Nat.ltb u n); [|reflexivity]. cbn [zsum mem existsb]. destruct (Nat.eqb u vertex); f_equal; lia.
  - inversion Hnd as [|? ? Hw Hnd']; subst. destruct (Hks w (or_introl eq_refl)) as (Hwv & Hwn & Hwx).
    assert (Lw : Nat.ltb w n = true) by (apply Nat.ltb_lt; exact Hwn). assert (Lv : Nat.ltb vertex n = true) by (apply Nat.ltb_lt; exact Hv).
    cbn [fold_left]. unfold move_body at 2. rewrite Hwx. cbn zeta. rewrite (Hf w), Lw.
    rewrite d_find_set_other by (intros Q; apply Hwv; symmetry; exact Q). rewrite (Hf vertex), Lv.
    set (dd2 := d_set vertex (op2 (f vertex) (xval w)) (d_set w (op1 (f w) (xval w)) dd)).
    set (f2 := fun u => if Nat.eqb u vertex then f vertex - sg * xval w else if Nat.eqb u w then f w + sg * xval w else f u).
    assert (M1 : d_mem w dd = true) by (unfold d_mem; rewrite (Hf w), Lw; reflexivity).
    assert (M2 : d_mem vertex (d_set w (op1 (f w) (xval w)) dd) = true).
    { unfold d_mem. rewrite d_find_set_other by (intros Q; apply Hwv; symmetry; exact Q). rewrite (Hf vertex), Lv. reflexivity. }
    destruct (IH dd2 f2 Hnd') as (dd' & F & K & L).
    + intros x Hx. apply Hks. now right.
    + exact Hv.
    + unfold dd2. rewrite d_keys_set_present by exact M2. rewrite d_keys_set_present by exact M1. exact Hdk.
    + intros u. unfold dd2, f2. rewrite !d_find_set, Hop1, Hop2. destruct (Nat.eqb_spec u vertex) as [Q|Q]; [subst u; rewrite Lv; reflexivity|].
      destruct (Nat.eqb_spec u w) as [Q'|Q']; [subst u; rewrite Lw; reflexivity|]. apply Hf.
    + exists dd'. split; [exact F|]. split; [exact K|]. intros u. rewrite L. destruct (Nat.ltb u n); [|reflexivity]. f_equal. unfold f2. cbn [zsum].
      destruct (Nat.eqb_spec u vertex) as [Q|Q]; [rewrite Q; lia|]. unfold mem. cbn [existsb]. fold (mem u ks). destruct (Nat.eqb_spec u w) as [Q'|Q'].
      * subst u. assert (E : mem w ks = false) by (apply mem_false; exact Hw). rewrite E. cbn [orb]. lia.
      * cbn [orb]. reflexivity. Qed.
End MoveLoop.

Section G.
Variable g : graph.
Hypothesis Hwf : wfb g = true.
Variable gg : dictD.
Hypothesis Hgg : rep_graph gg g.
Local Notation n := (nv g).

Lemma row_of v : (v < n)%nat -> exists row, d_find v gg = Some row /\ rep_row g v row.
Proof. intros Hv. pose proof (Hgg v) as H. assert (E : Nat.ltb v n = true) by (apply Nat.ltb_lt; exact Hv). rewrite E in H. exact H. Qed.
Lemma no_row v : (n <= v)%nat -> d_find v gg = None.
Proof. intros Hv. pose proof (Hgg v) as H. destruct (Nat.ltb_spec v n); [lia|exact H]. Qed.
Lemma row_keys v row w : (v < n)%nat -> rep_row g v row -> In w (d_keys row) -> w <> v /\ (w < n)%nat /\ d_find w row = Some (mult g v w) /\ 0 < mult g v w.
Proof. intros Hv [_ Hr] Hin. apply d_find_in_keys in Hin. unfold d_mem in Hin. rewrite Hr in Hin. destruct (Z.ltb_spec 0 (mult g v w)) as [P|P]; [|discriminate].
  split; [intros Q; subst w; rewrite (mult_diag g Hwf) in P; lia|]. split.
  - destruct (Nat.lt_ge_cases w n) as [A|A]; [exact A|]. rewrite (mult_out_r g Hwf) in P by exact A. lia.
  - split; [|exact P]. rewrite Hr. destruct (Z.ltb_spec 0 (mult g v w)); [reflexivity|lia]. Qed.
Lemma row_sum v row : (v < n)%nat -> rep_row g v row -> zsum (mult g v) (d_keys row) = valg g v.
Proof. intros Hv Hr. unfold valg, val. apply zsum_support; [apply Hr|apply Vg_nodup| |].
  - intros w Hw. apply in_seq. destruct (row_keys v row w Hv Hr Hw) as (_ & A & _). lia.
  - intros u _ Hu. destruct Hr as [_ Hr]. assert (E : d_mem u row = false).
    { destruct (d_mem u row) eqn:E; [|reflexivity]. exfalso. apply Hu. apply d_find_in_keys. exact E. }
    unfold d_mem in E. rewrite Hr in E. destruct (Z.ltb_spec 0 (mult g v u)); [discriminate|]. pose proof (mult_nonneg g Hwf v u). lia. Qed.
Lemma not_in_row v row u : (v < n)%nat -> rep_row g v row -> mem u (d_keys row) = false -> mult g v u = 0.
Proof. intros Hv [_ Hr] E. assert (E' : d_mem u row = false).
  { destruct (d_mem u row) eqn:Q; [|reflexivity]. apply d_find_in_keys in Q. apply mem_In in Q. congruence. }
  unfold d_mem in E'. rewrite Hr in E'. destruct (Z.ltb_spec 0 (mult g v u)); [discriminate|]. pose proof (mult_nonneg g Hwf v u). lia. Qed.

(* lending_move (= firing_move) and borrowing_move *)
Theorem lending_move_refines dd D v : rep_div n dd D ->
  match CFDivisor_lending_move gg dd v with None => inb g v = false | Some dd' => inb g v = true /\ rep_div n dd' (lend g D v) end.
Proof. intros (HL & Hk & Hf). unfold CFDivisor_lending_move, inb. destruct (Nat.ltb_spec v n) as [Hv|Hv].
  - destruct (row_of v Hv) as (row & Er & Rr). unfold d_mem. rewrite Er. cbn [negb].
    destruct (move_loop Z.add Z.sub 1 ltac:(intros; lia) ltac:(intros; lia) n v row (mult g v) (d_keys row) dd (nthZ D)) as (dd' & F & K & L).
    + apply Rr.
    + intros w Hw. destruct (row_keys v row w Hv Rr Hw) as (A & B & C & _). auto.
    + exact Hv.
    + exact Hk.
    + exact Hf.
    + unfold move_body in F. cbn beta iota zeta in F. cbn beta iota zeta. unfold dictZ in *. rewrite F. split; [reflexivity|]. unfold lend. apply rep_div_intro; [exact K|]. intros u. rewrite L.
      destruct (Nat.ltb u n); [|reflexivity]. f_equal. destruct (Nat.eqb_spec u v) as [Q|Q]; [subst u; rewrite (row_sum v row Hv Rr); lia|].
      destruct (mem u (d_keys row)) eqn:E; [lia|]. rewrite (not_in_row v row u Hv Rr E). lia.
  - unfold d_mem. rewrite (no_row v Hv). reflexivity. Qed.
Theorem borrowing_move_refines dd D v : rep_div n dd D ->
  match CFDivisor_borrowing_move gg dd v with None => inb g v = false | Some dd' => inb g v = true /\ rep_div n dd' (borrow g D v) end.
Proof. intros (HL & Hk & Hf). unfold CFDivisor_borrowing_move, inb. destruct (Nat.ltb_spec v n) as [Hv|Hv].
  - destruct (row_of v Hv) as (row & Er & Rr). unfold d_mem. rewrite Er. cbn [negb].
    destruct (move_loop Z.sub Z.add (-1) ltac:(intros; lia) ltac:(intros; lia) n v row (mult g v) (d_keys row) dd (nthZ D)) as (dd' & F & K & L).
    + apply Rr.
    + intros w Hw. destruct (row_keys v row w Hv Rr Hw) as (A & B & C & _). auto.
    + exact Hv.
    + exact Hk.
    + exact Hf.
    + unfold move_body in F. cbn beta iota zeta in F. cbn beta iota zeta. unfold dictZ in *. rewrite F. split; [reflexivity|]. unfold borrow. apply rep_div_intro; [exact K|]. intros u. rewrite L.
      destruct (Nat.ltb u n); [|reflexivity]. f_equal. destruct (Nat.eqb_spec u v) as [Q|Q]; [subst u; rewrite (row_sum v row Hv Rr); lia|].
      destruct (mem u (d_keys row)) eqn:E; [lia|]. rewrite (not_in_row v row u Hv Rr E). lia.
  - unfold d_mem. rewrite (no_row v Hv). reflexivity. Qed.

(* chip_transfer *)
Theorem chip_transfer_refines dd D a b k : rep_div n dd D ->
  match CFDivisor_chip_transfer dd a b k with
  | None => (k <=? 0) || negb (inb g a && inb g b) = true
  | Some dd' => ((k <=? 0) || negb (inb g a && inb g b) = false) /\ rep_div n dd' (transfer g D a b k) end.
Proof. intros (HL & Hk & Hf). unfold CFDivisor_chip_transfer, inb. destruct (Z.leb_spec k 0) as [Hk0|Hk0]; [reflexivity|]. cbn [orb].
  unfold d_mem. rewrite (Hf a). destruct (Nat.ltb_spec a n) as [Ha|Ha]; cbn [negb andb]; [|reflexivity].
  rewrite (Hf b). destruct (Nat.ltb_spec b n) as [Hb|Hb]; cbn [negb]; [|reflexivity].
  rewrite d_find_set, (Hf b). assert (Lb : Nat.ltb b n = true) by (apply Nat.ltb_lt; exact Hb). assert (La : Nat.ltb a n = true) by (apply Nat.ltb_lt; exact Ha).
  assert (M1 : d_mem a dd = true) by (unfold d_mem; rewrite (Hf a), La; reflexivity).
  destruct (Nat.eqb_spec b a) as [Q|Q].
  - subst b. split; [reflexivity|]. unfold transfer. apply rep_div_intro.
    + rewrite !d_keys_set_present; [exact Hk|exact M1|]. unfold d_mem. rewrite d_find_set_same. reflexivity.
    + intros u. rewrite !d_find_set. destruct (Nat.eqb_spec u a) as [Q|Q]; [subst u; rewrite La; f_equal; lia|]. rewrite Hf. destruct (Nat.ltb u n); [f_equal; lia|reflexivity].
  - rewrite Lb. split; [reflexivity|]. unfold transfer. apply rep_div_intro.
    + rewrite !d_keys_set_present; [exact Hk|exact M1|]. unfold d_mem. rewrite d_find_set_other by exact Q. rewrite (Hf b), Lb. reflexivity.
    + intros u. rewrite !d_find_set. destruct (Nat.eqb_spec u b) as [Q1|Q1].
      * subst u. rewrite Lb. destruct (Nat.eqb_spec b a); [contradiction|]. f_equal. lia.
      * destruct (Nat.eqb_spec u a) as [Q2|Q2]; [subst u; rewrite La; f_equal; lia|]. rewrite Hf. destruct (Nat.ltb u n); [f_equal; lia|reflexivity]. Qed.

(* is_effective and get_degree *)
Theorem is_effective_refines dd D : rep_div n dd D -> CFDivisor_is_effective dd = is_effective_b g D.
Proof. intros (HL & Hk & Hf). unfold CFDivisor_is_effective, is_effective_b.
  destruct (existsb (fun kv_ : nat * Z => let '(_, degree) := kv_ in degree <? 0) dd) eqn:E.
  - apply existsb_exists in E. destruct E as [[k x] [Hin Hx]]. apply (d_in_find k x dd Hk) in Hin. rewrite Hf in Hin.
    destruct (Nat.ltb_spec k n) as [A|A]; [|discriminate]. inversion Hin; subst x. symmetry. apply not_true_is_false. intros Q. rewrite forallb_forall in Q.
    specialize (Q k ltac:(apply in_seq; lia)). apply Z.leb_le in Q. apply Z.ltb_lt in Hx. lia.
  - symmetry. apply forallb_forall. intros v Hv. apply in_seq in Hv. apply Z.leb_le.
    destruct (Z_lt_le_dec (nthZ D v) 0) as [L|L]; [exfalso|exact L]. assert (In (v, nthZ D v) dd).
    { apply d_find_some_in. rewrite Hf. destruct (Nat.ltb_spec v n); [reflexivity|lia]. }
    assert (existsb (fun kv_ : nat * Z => let '(_, degree) := kv_ in degree <? 0) dd = true); [|congruence].
    apply existsb_exists. exists (v, nthZ D v). split; [assumption|]. apply Z.ltb_lt. exact L. Qed.
Theorem get_degree_refines dd D v : rep_div n dd D -> CFDivisor_get_degree dd v = if inb g v then Some (nthZ D v) else None.
Proof. intros (HL & Hk & Hf). unfold CFDivisor_get_degree, inb, d_mem. rewrite (Hf v). destruct (Nat.ltb v n); reflexivity. Qed.
End G.

(* ---- CFGraph.add_edge / get_valence / is_loopless ---- *)
Lemma d_keys_set_nodup {A} k (x : A) d : NoDup (d_keys d) -> NoDup (d_keys (d_set k x d)).
Proof. intros H. destruct (d_mem k d) eqn:E; [rewrite d_keys_set_present by exact E; exact H|].
  assert (Hk : ~ In k (d_keys d)) by (intros Q; apply d_find_in_keys in Q; congruence). clear E.
  induction d as [|[k' y] t IH]; cbn [d_set d_keys map fst]; [constructor; [intros []|constructor]|].
  cbn [d_keys map fst] in H, Hk. inversion H as [|? ? Hn Hd]; subst. destruct (Nat.eqb_spec k' k) as [Q|Q]; [exfalso; apply Hk; now left|].
  cbn [map fst]. constructor.
  - intros Hin. change (In k' (d_keys (d_set k x t))) in Hin. apply d_find_in_keys in Hin. unfold d_mem in Hin. rewrite d_find_set_other in Hin by exact Q.
    apply Hn. apply (d_find_in_keys k' t). exact Hin.
  - apply IH; [exact Hd|]. intros Q'. apply Hk. now right. Qed.

Lemma rep_graph_mem gg g v : rep_graph gg g -> d_mem v gg = Nat.ltb v (nv g).
Proof. intros H. pose proof (H v) as Hv. unfold d_mem. destruct (Nat.ltb v (nv g)); [destruct Hv as (row & -> & _); reflexivity|rewrite Hv; reflexivity]. Qed.
Definition rep_gstate (gg : dictD) (vtv : dictZ) (tv : Z) (s : gstate) : Prop :=
  rep_graph gg (adj s) /\ rep_div (gn s) vtv (valc s) /\ tv = tot s.

Lemma rep_graph_update gg g g' a b x y row_a row_b : a <> b -> (a < nv g)%nat -> (b < nv g)%nat -> nv g' = nv g ->
  rep_graph gg g -> d_find a gg = Some row_a -> d_find b gg = Some row_b -> 0 < x -> 0 < y ->
  (forall v w, mult g' v w = if Nat.eqb v a && Nat.eqb w b then x else if Nat.eqb v b && Nat.eqb w a then y else mult g v w) ->
  rep_graph (d_set b (d_set a y row_b) (d_set a (d_set b x row_a) gg)) g'.
Proof. intros Hab Ha Hb Hn Hg Ea Eb Hx Hy Hm v. rewrite Hn. rewrite !d_find_set. pose proof (Hg v) as Hv.
  pose proof (Hg a) as Hga. pose proof (Hg b) as Hgb.
  assert (La : Nat.ltb a (nv g) = true) by (apply Nat.ltb_lt; exact Ha). assert (Lb : Nat.ltb b (nv g) = true) by (apply Nat.ltb_lt; exact Hb).
  rewrite La in Hga. rewrite Lb in Hgb. destruct Hga as (ra & Ea' & Ra). destruct Hgb as (rb & Eb' & Rb).
  assert (ra = row_a) by congruence. assert (rb = row_b) by congruence. subst ra rb.
  destruct (Nat.eqb_spec v b) as [Q|Q].
  - subst v. rewrite Lb. eexists. split; [reflexivity|]. destruct Rb as [Nb Fb]. split; [apply d_keys_set_nodup; exact Nb|].
    intros w. rewrite d_find_set, Hm. rewrite Nat.eqb_refl. destruct (Nat.eqb_spec b a) as [Q'|Q']; [congruence|]. cbn [andb].
    destruct (Nat.eqb_spec w a) as [Q2|Q2]; [destruct (Z.ltb_spec 0 y); [reflexivity|lia]|apply Fb].
  - destruct (Nat.eqb_spec v a) as [Q'|Q'].
    + subst v. rewrite La. eexists. split; [reflexivity|]. destruct Ra as [Na Fa]. split; [apply d_keys_set_nodup; exact Na|].
      intros w. rewrite d_find_set, Hm. rewrite Nat.eqb_refl. cbn [andb]. destruct (Nat.eqb_spec w b) as [Q2|Q2]; [destruct (Z.ltb_spec 0 x); [reflexivity|lia]|].
      destruct (Nat.eqb_spec a b); [congruence|]. cbn [andb]. apply Fa.
    + destruct (Nat.ltb v (nv g)); [|exact Hv]. destruct Hv as (row & Er & [Nr Fr]). exists row. split; [exact Er|]. split; [exact Nr|].
      intros w. rewrite Hm. destruct (Nat.eqb_spec v a); [contradiction|]. destruct (Nat.eqb_spec v b); [contradiction|]. cbn [andb]. apply Fr. Qed.

Theorem add_edge_refines gg vtv tv s a b k : ginv s -> rep_gstate gg vtv tv s ->
  match CFGraph_add_edge gg vtv tv a b k with
  | None => add_edge s a b k = Err
  | Some (gg', vtv', tv') => exists s', add_edge s a b k = Ok s' /\ rep_gstate gg' vtv' tv' s' end.
Proof. intros Hinv (Hg & (HLv & Hkv & Hfv) & Ht). pose proof Hinv as (Hwf & HL & _ & _).
  unfold CFGraph_add_edge, CFGraph_is_loopless. destruct (add_edge s a b k) as [s'|] eqn:E.
  2:{ unfold add_edge in E. destruct (Nat.eqb_spec a b) as [Q|Q]; cbn [negb]; [reflexivity|]. destruct (Z.leb_spec k 0) as [Q1|Q1]; [reflexivity|].
      rewrite !(rep_graph_mem gg (adj s)) by exact Hg. change (gn s) with (nv (adj s)) in *. destruct (Nat.ltb a (nv (adj s))), (Nat.ltb b (nv (adj s))); cbn [andb negb orb] in *; try reflexivity. discriminate. }
  destruct (add_edge_inv s a b k s' Hinv E) as (Hinv' & Hgn & Hab & Hk & Ha & Hb & Hm).
  destruct (Nat.eqb_spec a b) as [Q|_]; [contradiction|]. cbn [negb]. destruct (Z.leb_spec k 0) as [Q1|_]; [lia|].
  pose proof (Hg a) as Ga. pose proof (Hg b) as Gb. change (nv (adj s)) with (gn s) in Ga, Gb.
  assert (La : Nat.ltb a (gn s) = true) by (apply Nat.ltb_lt; exact Ha). assert (Lb : Nat.ltb b (gn s) = true) by (apply Nat.ltb_lt; exact Hb).
  rewrite La in Ga. rewrite Lb in Gb. destruct Ga as (ra & Ea & Ra). destruct Gb as (rb & Eb & Rb).
  unfold d_mem at 1 2. rewrite Ea, Eb. cbn [negb orb]. pose proof Ra as [Na Fa]. pose proof Rb as [Nb Fb].
  assert (Sym : mult (adj s) b a = mult (adj s) a b) by (apply (mult_sym (adj s) Hwf)).
  assert (Nn : 0 <= mult (adj s) a b) by (apply (mult_nonneg (adj s) Hwf)).
  assert (Eva : d_find a vtv = Some (nthZ (valc s) a)) by (rewrite Hfv, La; reflexivity).
  assert (Evb : d_find b vtv = Some (nthZ (valc s) b)) by (rewrite Hfv, Lb; reflexivity).
  (* the state the model reaches, read off its definition *)
  assert (Es' : s' = {| adj := upd2 (upd2 (adj s) a b (mult (adj s) a b + k)) b a (mult (adj s) b a + k);
             valc := upd (upd (valc s) a (nthZ (valc s) a + k)) b (nthZ (upd (valc s) a (nthZ (valc s) a + k)) b + k); tot := tot s + k |}).
  { unfold add_edge in E. destruct (Nat.eqb_spec a b); [contradiction|]. destruct (Z.leb_spec k 0); [lia|]. fold (gn s) in E. rewrite La, Lb in E. cbn in E. inversion E. reflexivity. }
  assert (RV : forall t1 t2, t1 = nthZ (valc s) a + k -> t2 = nthZ (valc s) b + k -> rep_div (gn s') (d_set b t2 (d_set a t1 vtv)) (valc s')).
  { intros t1 t2 -> ->. rewrite Hgn. split; [rewrite Es'; cbn [valc]; rewrite !upd_length; exact HLv|]. split; [apply d_keys_set_nodup, d_keys_set_nodup; exact Hkv|].
    intros v. rewrite !d_find_set, Hfv. rewrite Es'. cbn [valc]. rewrite !nthZ_upd, !upd_length, HLv, La, Lb.
    destruct (Nat.eqb_spec b a) as [Q|Q]; [congruence|]. cbn [andb]. destruct (Nat.eqb_spec v b) as [Q1|Q1]; [subst v; rewrite Lb; cbn [andb]; reflexivity|].
    destruct (Nat.eqb_spec v a) as [Q2|Q2]; [subst v; rewrite La; cbn [andb]; reflexivity|]. cbn [andb]. reflexivity. }
  assert (RG : forall x y, x = mult (adj s) a b + k -> y = mult (adj s) b a + k -> rep_graph (d_set b (d_set a y rb) (d_set a (d_set b x ra) gg)) (adj s')).
  { intros x y -> ->. apply (rep_graph_update gg (adj s) (adj s') a b _ _ ra rb); [exact Hab|exact Ha|exact Hb|exact Hgn|exact Hg|exact Ea|exact Eb|lia|lia|].
    intros v w. rewrite Hm. destruct (Nat.eqb_spec v a) as [Q|Q], (Nat.eqb_spec w b) as [Q'|Q']; cbn [andb orb]; subst; try lia.
    + destruct (Nat.eqb_spec a b); [contradiction|]. cbn [andb]. lia.
    + destruct (Nat.eqb_spec v b) as [Q1|Q1], (Nat.eqb_spec b a) as [Q2|Q2]; cbn [andb orb]; subst; try lia; congruence.
    + destruct (Nat.eqb_spec v b) as [Q1|Q1], (Nat.eqb_spec w a) as [Q2|Q2]; cbn [andb orb]; subst; lia. }
  unfold d_mem. rewrite Fa. destruct (Z.ltb_spec 0 (mult (adj s) a b)) as [P|P].
  - (* the pair already has edges *)
    cbn beta iota. rewrite (d_find_set_other a b _ gg) by (intros Q; apply Hab; symmetry; exact Q). rewrite Eb, Fb.
    destruct (Z.ltb_spec 0 (mult (adj s) b a)); [|lia]. rewrite Eva. rewrite (d_find_set_other a b _ vtv) by (intros Q; apply Hab; symmetry; exact Q). rewrite Evb.
    exists s'. split; [reflexivity|]. split; [apply RG; reflexivity|]. split; [apply RV; reflexivity|]. rewrite Es'. cbn [tot]. lia.
  - (* first edge of the pair *)
    rewrite (d_find_set_other a b _ gg) by (intros Q; apply Hab; symmetry; exact Q). rewrite Eb. rewrite Eva. rewrite (d_find_set_other a b _ vtv) by (intros Q; apply Hab; symmetry; exact Q). rewrite Evb.
    exists s'. split; [reflexivity|]. split; [apply RG; lia|]. split; [apply RV; reflexivity|]. rewrite Es'. cbn [tot]. lia. Qed.

Theorem get_valence_refines gg vtv tv s v : rep_gstate gg vtv tv s -> CFGraph_get_valence vtv v = if Nat.ltb v (gn s) then Some (nthZ (valc s) v) else None.
Proof. intros (_ & (_ & _ & Hf) & _). unfold CFGraph_get_valence, d_mem. rewrite (Hf v). destruct (Nat.ltb v (gn s)); reflexivity. Qed.
Theorem is_loopless_refines a b : CFGraph_is_loopless a b = negb (Nat.eqb a b).
Proof. reflexivity. Qed.
