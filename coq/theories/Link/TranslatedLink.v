(* The functions translated from /repo's current source (Translated.v, regenerated on every run by tools/translate.py) ARE the model
   functions the property theorems speak about. If the source changes, Translated.v changes and these proofs are re-checked against it. *)
From Coq Require Import ZArith List Lia Bool Arith.
Import ListNotations.
From CF Require Import ZSum ListAux Defs Core Machines Config PyLib Translated BoundsLink ParkingLink.
Open Scope Z_scope.

Lemma py_insert_eq x l : py_insert x l = insert_sorted x l.
Proof. induction l as [|y t IH]; cbn [py_insert insert_sorted]; [reflexivity|]. now rewrite IH. Qed.
Lemma py_sorted_eq l : py_sorted l = sort l.
Proof. unfold py_sorted, sort. induction l as [|x t IH]; cbn [fold_right]; [reflexivity|]. now rewrite IH, py_insert_eq. Qed.
Lemma forallb_map {A B} (f : B -> bool) (h : A -> B) l : forallb f (map h l) = forallb (fun x => f (h x)) l.
Proof. induction l as [|a l IH]; cbn; auto. now rewrite IH. Qed.
Lemma forallb_ext' {A} (f h : A -> bool) l : (forall x, In x l -> f x = h x) -> forallb f l = forallb h l.
Proof. induction l as [|a l IH]; intros H; cbn; auto. rewrite (H a) by now left. f_equal. apply IH. intros; apply H; now right. Qed.
Lemma prefix_ok_index l : forall i, prefix_ok i l = forallb (fun j : nat => nth j l 0 <=? i + Z.of_nat j) (seq 0 (length l)).
Proof. induction l as [|x t IH]; intros i; [reflexivity|]. cbn [prefix_ok length seq forallb nth]. rewrite Z.add_0_r. f_equal.
  rewrite IH. rewrite <- seq_shift, forallb_map. apply forallb_ext'. intros j _. cbn [nth]. f_equal. lia. Qed.

(* ---- is_parking_function ---- *)
Theorem is_parking_function_some a n : is_parking_function a (Some n) = is_parking_n a (Z.to_nat n).
Proof. unfold is_parking_function, is_parking_n. destruct a as [|a0 t]; [reflexivity|]. set (a := a0 :: t). cbn [py_is_empty]. unfold py_len.
  destruct (Z.eqb_spec (Z.of_nat (length a)) n) as [E|E]; cbn [negb].
  - assert (En : Z.to_nat n = length a) by lia. rewrite En, Nat.eqb_refl. cbn [andb].
    assert (Er : forallb (fun x => (1 <=? x) && (x <=? n)) a = forallb (fun x => (1 <=? x) && (x <=? Z.of_nat (length a))) a) by (now rewrite E).
    rewrite Er. destruct (forallb (fun x => (1 <=? x) && (x <=? Z.of_nat (length a))) a); cbn [negb andb]; [|reflexivity].
    rewrite py_sorted_eq, prefix_ok_index. unfold py_range. rewrite En, forallb_map. rewrite length_sort.
    apply forallb_ext'. intros j _. unfold py_index. rewrite Nat2Z.id. f_equal. lia.
  - assert (En : Nat.eqb (length a) (Z.to_nat n) = false). { apply Nat.eqb_neq. unfold a in *. cbn [length] in *. lia. }
    now rewrite En. Qed.
Theorem is_parking_function_none a : is_parking_function a None = is_parking a.
Proof. unfold is_parking. transitivity (is_parking_function a (Some (Z.of_nat (length a)))); [reflexivity|]. rewrite is_parking_function_some. now rewrite Nat2Z.id. Qed.

(* ---- parking_function_count ---- *)
Theorem parking_function_count_eq n : parking_function_count n = parking_count (Z.to_nat n).
Proof. unfold parking_function_count, parking_count. destruct (Z.leb_spec n 0) as [H|H].
  - destruct (Z.to_nat n) eqn:E; [reflexivity|lia].
  - destruct (Z.to_nat n) eqn:E; [lia|]. rewrite <- E, Z2Nat.id by lia. reflexivity. Qed.

(* ---- complete_multipartite_gonality (the formula AS IMPLEMENTED: smallest part; refuted in Props/C19.v) ---- *)
Lemma py_sum_nat l : Forall (fun x => 0 <= x) l -> py_sum l = Z.of_nat (fold_right plus 0%nat (map Z.to_nat l)).
Proof. induction 1 as [|x t Hx HF IH]; [reflexivity|]. cbn [py_sum map fold_right] in *. unfold py_sum in IH. rewrite IH. lia. Qed.
Lemma fold_min_nat p t : 0 <= p -> Forall (fun x => 0 <= x) t -> fold_right Z.min p t = Z.of_nat (fold_right Nat.min (Z.to_nat p) (map Z.to_nat t)).
Proof. intros Hp. induction 1 as [|x t Hx HF IH]; cbn [map fold_right]; [lia|]. rewrite IH. lia. Qed.
Theorem complete_multipartite_gonality_eq parts : Forall (fun x => 0 <= x) parts ->
  complete_multipartite_gonality parts = multipartite_formula_as_implemented (map Z.to_nat parts).
Proof. intros HF. unfold complete_multipartite_gonality, multipartite_formula_as_implemented. destruct parts as [|p t]; [reflexivity|]. cbn [py_is_empty].
  inversion HF as [|? ? Hp Ht]; subst. rewrite (py_sum_nat (p :: t) HF). unfold py_len. destruct t as [|p2 t2].
  - cbn. lia.
  - assert (E : (Z.of_nat (length (p :: p2 :: t2)) =? 1) = false) by (apply Z.eqb_neq; cbn [length]; lia). rewrite E.
    cbn [py_min map]. rewrite (fold_min_nat p (p2 :: t2) Hp Ht). reflexivity. Qed.

(* ---- complete_graph_gonality: refused below 1; for n >= 2 the returned number IS the gonality of K_n ---- *)
Theorem complete_graph_gonality_refuses n : n < 1 -> complete_graph_gonality n = None.
Proof. intros H. unfold complete_graph_gonality. destruct (Z.ltb_spec n 1); [reflexivity|lia]. Qed.
Theorem complete_graph_gonality_exact k : exists gon, complete_graph_gonality (Z.of_nat (nv (Kn k))) = Some (Z.of_nat gon) /\ is_gonality (Vg (Kn k)) (mult (Kn k)) gon.
Proof. exists (S k). split; [|apply Kn_gonality]. rewrite Kn_nv. unfold complete_graph_gonality. destruct (Z.ltb_spec (Z.of_nat (S (S k))) 1); [lia|]. f_equal. lia. Qed.

(* ---- CFGraph.get_genus: total - |V| + 1 on the bookkeeping state; with the graph invariant (C13) that is the genus of the multigraph ---- *)
Theorem get_genus_eq s (vs : list Z) : length vs = gn s -> CFGraph_get_genus (tot s) vs = g_genus s.
Proof. intros H. unfold CFGraph_get_genus, g_genus, py_len. now rewrite H. Qed.

(* ---- CFGraph.is_loopless: true exactly when the two names differ (as strings, not as objects) ---- *)
Lemma py_str_eqb_iff a : forall b, py_str_eqb a b = true <-> a = b.
Proof. induction a as [|x a IH]; intros [|y b]; cbn; split; intros H; try discriminate; auto.
  - apply andb_true_iff in H. destruct H as [H1 H2]. apply N.eqb_eq in H1. apply IH in H2. now subst.
  - inversion H; subst. rewrite N.eqb_refl. cbn. now apply IH. Qed.
Theorem is_loopless_spec a b : CFGraph_is_loopless a b = true <-> a <> b.
Proof. unfold CFGraph_is_loopless. rewrite negb_true_iff. split.
  - intros H E. apply py_str_eqb_iff in E. congruence.
  - intros H. destruct (py_str_eqb a b) eqn:E; [|reflexivity]. apply py_str_eqb_iff in E. contradiction. Qed.
