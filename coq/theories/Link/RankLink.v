(* Rank and gonality of the model: the k-loop over combinations with replacement computes the Baker-Norine rank; the gonality search
   returns the least degree of a rank >= 1 divisor. Stated relative to exactness of the winnability oracle they call (plain / optimized). *)
From Coq Require Import ZArith List Lia Bool Arith Permutation.
Import ListNotations.
From CF Require Import ZSum ListAux Defs LinEquiv Core GraphLink DharLink EwdLink QredLink LineqLink.
Open Scope Z_scope.

(* ---- placements n k = all chip vectors of length n, entries >= 0, sum k ---- *)
Fixpoint lsum (l : list Z) : Z := match l with [] => 0 | x :: t => x + lsum t end.
Lemma placements_sound n : forall k E, In E (placements n k) -> length E = n /\ (forall x, In x E -> 0 <= x) /\ lsum E = Z.of_nat k.
Proof. induction n as [|n IH]; intros k E H; cbn [placements] in H.
  - destruct k; [|destruct H]. destruct H as [<-|[]]. repeat split; auto. intros x [].
  - apply in_flat_map in H. destruct H as [j [Hj H]]. apply in_map_iff in H. destruct H as [t [<- Ht]].
    apply in_rev, in_seq in Hj. destruct (IH _ _ Ht) as [H1 [H2 H3]]. cbn [length lsum]. repeat split; [lia| |lia].
    intros x [<-|Hx]; [lia|auto]. Qed.
Lemma placements_complete n : forall k E, length E = n -> (forall x, In x E -> 0 <= x) -> lsum E = Z.of_nat k -> In E (placements n k).
Proof. induction n as [|n IH]; intros k E HL Hnn Hs.
  - destruct E; [|discriminate]. cbn in Hs. assert (k = 0%nat) by lia. subst. now left.
  - destruct E as [|x t]; [discriminate|]. cbn [placements]. cbn [lsum] in Hs. assert (Hx : 0 <= x) by (apply Hnn; now left).
    assert (Ht : 0 <= lsum t). { clear - Hnn. induction t as [|y t IH]; cbn; [lia|]. assert (0 <= y) by (apply Hnn; right; now left). assert (0 <= lsum t) by (apply IH; intros z [Hz|Hz]; apply Hnn; [now left|right; now right]). lia. }
    apply in_flat_map. exists (Z.to_nat x). split. { apply in_rev. rewrite rev_involutive. apply in_seq. lia. }
    apply in_map_iff. exists t. split; [now rewrite Z2Nat.id|]. apply IH; [cbn in HL; lia|intros; apply Hnn; now right|lia]. Qed.
Lemma lsum_zsum E : lsum E = zsum (nthZ E) (seq 0 (length E)).
Proof. induction E as [|x t IH]; [reflexivity|]. cbn [lsum length seq zsum]. unfold nthZ at 1. cbn [nth]. rewrite IH. f_equal.
  rewrite <- seq_shift, zsum_map. apply zsum_ext. intros. reflexivity. Qed.

Section WF.
Variable g : graph.
Hypothesis Hwf : wfb g = true.
Hypothesis Hn : (0 < nv g)%nat.
Local Notation V := (Vg g).
Local Notation m := (mult g).
Local Notation msym := (mult_sym g Hwf).
(* an oracle is exact: whenever it answers, the answer is winnability *)
Definition exact (w : nat -> graph -> div -> res bool) : Prop :=
  forall fuel D b, length D = nv g -> w fuel g D = Done b -> (b = true <-> winnable V m (nthZ D)).
Lemma exact_plain : exact winnable_plain.
Proof. intros fuel D b HL H. unfold winnable_plain in H. destruct (ewd fuel g D false) as [[[b0 r] o]|] eqn:E; [|discriminate]. inversion H; subst.
  eapply ewd_plain_exact; eauto. Qed.
(* the optimized oracle is exact wherever the reduction terminates (see C01) *)
Definition terminates : Prop := forall D, length D = nv g -> exists fuel x, ewd_q fuel g (argmin D) D = Done x.
Lemma exact_optimized : terminates -> exact is_winnable.
Proof. intros HT fuel D b HL H. unfold is_winnable in H. destruct (ewd fuel g D true) as [[[b0 r] o]|] eqn:E; [|discriminate]. inversion H; subst.
  eapply ewd_opt_exact; eauto. Qed.

(* ---- rank_ge in terms of placements ---- *)
Lemma rank_ge_placements D k : length D = nv g ->
  (rank_ge V m (nthZ D) k <-> forall E, In E (placements (nv g) k) -> winnable V m (nthZ (dsub (nv g) D E))).
Proof. intros HL. split.
  - intros H E HE. destruct (placements_sound _ _ _ HE) as [L [Nn S]].
    apply (winnable_ext V m (fun v => nthZ D v - nthZ E v)); [intros v Hv; symmetry; now apply nth_dsub|]. apply H.
    + intros v Hv. apply in_Vg in Hv. apply Nn. unfold nthZ. apply nth_In. lia.
    + unfold deg, Vg. rewrite <- L, <- lsum_zsum. exact S.
  - intros H E Heff Hdeg. set (El := tab (nv g) E).
    assert (HEl : In El (placements (nv g) k)).
    { apply placements_complete; [apply tab_length| |].
      - intros x Hx. unfold El, tab in Hx. apply in_map_iff in Hx. destruct Hx as [v [<- Hv]]. apply Heff. exact Hv.
      - rewrite lsum_zsum. unfold El. rewrite tab_length. rewrite <- Hdeg. unfold deg, Vg. apply zsum_ext. intros v Hv. apply nthZ_tab. now apply in_seq0. }
    apply (winnable_ext V m (nthZ (dsub (nv g) D El))); [|now apply H].
    intros v Hv. rewrite nth_dsub by auto. unfold El. rewrite nthZ_tab by now apply in_Vg. reflexivity. Qed.

(* ---- the evaluation of one k: sequential first-hit, and independence of the evaluation order ---- *)
Definition wstep (w : nat -> graph -> div -> res bool) (fuel : nat) (acc : res bool) (E : div) : res bool :=
  match acc with Done true => w fuel g E | other => other end.
Lemma fold_wstep_false w fuel Ds : fold_left (wstep w fuel) Ds (Done false) = Done false.
Proof. induction Ds; cbn; auto. Qed.
Lemma fold_wstep_fuel w fuel Ds : fold_left (wstep w fuel) Ds OutOfFuel = OutOfFuel.
Proof. induction Ds; cbn; auto. Qed.
Lemma all_winnable_spec w (Hw : exact w) fuel Ds : (forall E, In E Ds -> length E = nv g) -> forall b,
  fold_left (wstep w fuel) Ds (Done true) = Done b -> (b = true <-> forall E, In E Ds -> winnable V m (nthZ E)).
Proof. induction Ds as [|E t IH]; intros HL b H; cbn [fold_left] in H.
  - inversion H; subst. split; auto. intros _ ? [].
  - unfold wstep at 2 in H. assert (HLE : length E = nv g) by (apply HL; now left).
    destruct (w fuel g E) as [[|]|] eqn:Ew.
    + pose proof (proj1 (Hw fuel E true HLE Ew) eq_refl) as HwE. rewrite (IH (fun X HX => HL X (or_intror HX)) b H).
      split; [intros Ht X [<-|HX]; auto|intros Ht X HX; apply Ht; now right].
    + rewrite fold_wstep_false in H. inversion H; subst b. split; [discriminate|]. intros Hall.
      pose proof (Hall E (or_introl eq_refl)) as HwE. apply (Hw fuel E false HLE Ew) in HwE. discriminate.
    + rewrite fold_wstep_fuel in H. discriminate. Qed.
(* any evaluation order / pool schedule gives the same verdict for a given k *)
Theorem pool_independent w (Hw : exact w) fuel Ds Ds' b b' : Permutation Ds Ds' -> (forall E, In E Ds -> length E = nv g) ->
  fold_left (wstep w fuel) Ds (Done true) = Done b -> fold_left (wstep w fuel) Ds' (Done true) = Done b' -> b = b'.
Proof. intros HP HL H H'. assert (HL' : forall E, In E Ds' -> length E = nv g) by (intros E HE; apply HL; eapply Permutation_in; [apply Permutation_sym; exact HP|exact HE]).
  pose proof (all_winnable_spec w Hw fuel Ds HL b H) as S. pose proof (all_winnable_spec w Hw fuel Ds' HL' b' H') as S'.
  assert (E : (forall E, In E Ds -> winnable V m (nthZ E)) <-> (forall E, In E Ds' -> winnable V m (nthZ E))).
  { split; intros X E HE; apply X; [eapply Permutation_in; [apply Permutation_sym; exact HP|exact HE]|eapply Permutation_in; eauto]. }
  destruct b, b'; auto; [assert (false = true) by tauto|assert (true = false) by (symmetry; tauto)]; congruence. Qed.

Lemma all_winnable_rank_ge fuel D k b : length D = nv g ->
  all_winnable fuel g (map (fun E => dsub (nv g) D E) (placements (nv g) k)) = Done b -> (b = true <-> rank_ge V m (nthZ D) k).
Proof. intros HL H. unfold all_winnable in H. change (fold_left (wstep winnable_plain fuel) (map (fun E => dsub (nv g) D E) (placements (nv g) k)) (Done true) = Done b) in H.
  apply (all_winnable_spec winnable_plain exact_plain) in H.
  - rewrite H, rank_ge_placements by auto. split; intros X E HE.
    + apply X. apply in_map_iff. exists E. auto.
    + apply in_map_iff in HE. destruct HE as [E0 [<- HE0]]. auto.
  - intros E HE. apply in_map_iff in HE. destruct HE as [E0 [<- _]]. apply tab_length. Qed.

(* ---- the rank loop ---- *)
Theorem rank_loop_spec kfuel fuel D : length D = nv g -> forall k r, (1 <= k)%nat -> rank_ge V m (nthZ D) (k - 1) ->
  rank_loop kfuel fuel g D k = Done r -> 0 <= r /\ rank_ge V m (nthZ D) (Z.to_nat r) /\ ~ rank_ge V m (nthZ D) (S (Z.to_nat r)).
Proof. intros HL. induction kfuel as [|kf IH]; intros k r Hk Hprev H; [discriminate|]. cbn [rank_loop] in H.
  destruct (all_winnable fuel g (map (fun E => dsub (nv g) D E) (placements (nv g) k))) as [[|]|] eqn:E; [| |discriminate].
  - assert (Hge : rank_ge V m (nthZ D) (S k - 1)). { replace (S k - 1)%nat with k by lia. apply (proj1 (all_winnable_rank_ge fuel D k true HL E)). reflexivity. }
    apply (IH (S k) r); auto; lia.
  - inversion H; subst r. replace (Z.to_nat (Z.of_nat k - 1)) with (k - 1)%nat by lia. split; [lia|]. split; [exact Hprev|].
    replace (S (k - 1)) with k by lia. intros Hge. apply (proj2 (all_winnable_rank_ge fuel D k false HL E)) in Hge. discriminate. Qed.
Lemma rank_ge_zero D : rank_ge V m (nthZ D) 0 <-> winnable V m (nthZ D).
Proof. split.
  - intros H. apply (winnable_ext V m (fun v => nthZ D v - 0)); [intros; lia|]. apply (H (fun _ => 0)); [intros v _; lia|]. unfold deg. rewrite zsum_zero. reflexivity.
  - intros Hw E Heff Hd. apply (winnable_ext V m (nthZ D)); auto. intros v Hv. rewrite (zsum_nonneg_zero E V Heff Hd v Hv). lia. Qed.
Theorem rank_plain_spec kfuel fuel D r : length D = nv g -> rank_plain kfuel fuel g D = Done r -> is_rank V m (nthZ D) r.
Proof. intros HL H. unfold rank_plain in H. destruct (winnable_plain fuel g D) as [[|]|] eqn:E; [| |discriminate].
  - right. apply (rank_loop_spec kfuel fuel D HL 1%nat r); auto. cbn. apply rank_ge_zero. apply (exact_plain fuel D true HL E). reflexivity.
  - inversion H; subst. left. split; auto. intros Hw. apply (exact_plain fuel D false HL E) in Hw. discriminate. Qed.
(* the rank is unique, so any two ways of computing it (modes, pools, orders) agree whenever both satisfy the specification *)
Lemma rank_ge_mono D k : rank_ge V m D (S k) -> rank_ge V m D k.
Proof. intros H E Heff Hd. assert (H0 : In 0%nat V) by (apply in_Vg; exact Hn).
  set (E' := fun v => E v + (if Nat.eqb v 0 then 1 else 0)).
  assert (HE' : effective V E'). { intros v Hv. unfold E'. specialize (Heff v Hv). destruct (Nat.eqb v 0); lia. }
  assert (Hd' : deg V E' = Z.of_nat (S k)). { unfold deg, E'. rewrite zsum_add, zsum_indicator; auto using Vg_nodup. unfold deg in Hd. lia. }
  specialize (H E' HE' Hd').
  apply (winnable_ext V m (fun v => (D v - E' v) + (if Nat.eqb v 0 then 1 else 0))); [intros v _; unfold E'; lia|].
  apply winnable_mono; auto. intros v _. destruct (Nat.eqb v 0); lia. Qed.
Lemma rank_ge_le D j k : (j <= k)%nat -> rank_ge V m D k -> rank_ge V m D j.
Proof. induction 1 as [|k' Hle IH]; auto. intros Hk. apply IH. now apply rank_ge_mono. Qed.
Theorem is_rank_unique D r r' : is_rank V m D r -> is_rank V m D r' -> r = r'.
Proof. intros [[-> Hn1]|[H0 [Hge Hng]]] [[-> Hn2]|[H0' [Hge' Hng']]]; auto.
  - exfalso. apply Hn1.
    assert (rank_ge V m D 0) by (apply (rank_ge_le D 0 (Z.to_nat r')); [lia|auto]).
    apply (winnable_ext V m (fun v => D v - 0)); [intros; lia|]. apply (H (fun _ => 0)); [intros v _; lia|]. unfold deg. rewrite zsum_zero. reflexivity.
  - exfalso. apply Hn2. assert (rank_ge V m D 0) by (apply (rank_ge_le D 0 (Z.to_nat r)); [lia|auto]).
    apply (winnable_ext V m (fun v => D v - 0)); [intros; lia|]. apply (H (fun _ => 0)); [intros v _; lia|]. unfold deg. rewrite zsum_zero. reflexivity.
  - destruct (Z_lt_le_dec r r') as [Hlt|Hle]; [exfalso; apply Hng; apply (rank_ge_le D _ (Z.to_nat r')); [lia|auto]|].
    destruct (Z_lt_le_dec r' r) as [Hlt'|Hle']; [exfalso; apply Hng'; apply (rank_ge_le D _ (Z.to_nat r)); [lia|auto]|]. lia. Qed.
End WF.

(* ---- optimized mode: correct given Riemann-Roch (stated as explicit hypotheses; see Theory/RiemannRoch.v for the abstract core) ---- *)
Section Opt.
Variable g : graph.
Hypothesis Hwf : wfb g = true.
Hypothesis Hn : (0 < nv g)%nat.
Local Notation V := (Vg g).
Local Notation m := (mult g).
Hypothesis RR_corollary : forall D, length D = nv g -> winnable V m (nthZ D) -> 2 * genus_g g - 2 < degD g D -> is_rank V m (nthZ D) (degD g D - genus_g g).
Hypothesis RR : forall D r', length D = nv g -> winnable V m (nthZ D) -> is_rank V m (nthZ (dsub (nv g) (canonical_g g) D)) r' ->
  is_rank V m (nthZ D) (r' + degD g D + 1 - genus_g g).
Theorem rank_opt_spec_partial kfuel fuel D r : length D = nv g -> rank_opt kfuel fuel g D = Done r -> is_rank V m (nthZ D) r.
Proof. intros HL H. unfold rank_opt in H. destruct (winnable_plain fuel g D) as [[|]|] eqn:E; [| |discriminate].
  - assert (Hw : winnable V m (nthZ D)) by (apply (exact_plain g Hwf Hn fuel D true HL E); reflexivity).
    destruct (Z.ltb_spec (2 * genus_g g - 2) (degD g D)) as [Hd|Hd].
    + inversion H; subst. now apply RR_corollary.
    + destruct (Z.ltb_spec (degD g (dsub (nv g) (canonical_g g) D)) (degD g D)) as [Hk|Hk].
      * destruct (rank_plain kfuel fuel g (dsub (nv g) (canonical_g g) D)) as [r'|] eqn:Er; [|discriminate]. inversion H; subst.
        apply RR; auto. apply (rank_plain_spec g Hwf Hn kfuel fuel); auto. apply tab_length.
      * right. apply (rank_loop_spec g Hwf Hn kfuel fuel D HL 1%nat r); auto. cbn. now apply rank_ge_zero.
  - inversion H; subst. left. split; auto. intros Hw. apply (exact_plain g Hwf Hn fuel D false HL E) in Hw. discriminate. Qed.
End Opt.
