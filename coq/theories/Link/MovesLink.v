(* Chip moves: Laplacian action, inverses, order independence of set firing, conservation over any history (C05);
   the Laplacian matrix and apply (C06); divisor arithmetic (C12). *)
From Coq Require Import ZArith List Lia Bool Arith Permutation.
Import ListNotations.
From CF Require Import ZSum ListAux Defs LinEquiv Core Machines GraphLink MachinesLink.
Open Scope Z_scope.

Fixpoint counts (l : list nat) (v : nat) : Z :=
  match l with [] => 0 | x :: t => (if Nat.eqb x v then 1 else 0) + counts t v end.
Lemma counts_perm l l' v : Permutation l l' -> counts l v = counts l' v.
Proof. induction 1; cbn [counts]; lia. Qed.
Lemma counts_nodup l v : NoDup l -> counts l v = if mem v l then 1 else 0.
Proof. induction 1 as [|a l Hn Hd IH]; [reflexivity|]. cbn [counts]. unfold mem. cbn [existsb]. fold (mem v l). rewrite IH.
  rewrite (Nat.eqb_sym v a). destruct (Nat.eqb_spec a v) as [->|]; cbn [orb]; [|lia].
  assert (mem v l = false) by now apply mem_false. rewrite H. lia. Qed.

Section WF.
Variable g : graph.
Hypothesis Hwf : wfb g = true.
Local Notation V := (Vg g).
Local Notation m := (mult g).
Local Notation msym := (mult_sym g Hwf).

(* a lending move at v: v loses its valence, each neighbour gains the multiplicity of the shared edge *)
Theorem lend_explicit D v w : In v V -> In w V ->
  nthZ (lend g D v) w = if Nat.eqb w v then nthZ D w - valg g v else nthZ D w + m v w.
Proof. intros Hv Hw. unfold lend. now rewrite nthZ_tab by now apply in_Vg. Qed.
Theorem borrow_explicit D v w : In v V -> In w V ->
  nthZ (borrow g D v) w = if Nat.eqb w v then nthZ D w + valg g v else nthZ D w - m v w.
Proof. intros Hv Hw. unfold borrow. now rewrite nthZ_tab by now apply in_Vg. Qed.

(* folding lends over any list: D - L * (occurrence counts) *)
Lemma fold_lend l : forall D, (forall v, In v l -> In v V) -> forall w, In w V ->
  nthZ (fold_left (lend g) l D) w = nthZ D w - lap V m (counts l) w.
Proof. induction l as [|a t IH]; intros D Hl w Hw; cbn [fold_left counts].
  - rewrite lap_const. lia.
  - rewrite IH by (auto; intros; apply Hl; now right). rewrite (nth_lend g Hwf) by (auto; apply Hl; now left).
    assert (E : lap V m (fun v => (if Nat.eqb a v then 1 else 0) + counts t v) w = lap V m (unit_at a) w + lap V m (counts t) w).
    { rewrite <- lap_add. apply lap_ext; auto. intros x _. unfold unit_at. rewrite (Nat.eqb_sym x a). reflexivity. }
    rewrite E. lia. Qed.
Lemma fold_lend_length l : forall D, length D = nv g -> length (fold_left (lend g) l D) = nv g.
Proof. induction l as [|a t IH]; intros D HL; cbn [fold_left]; auto. apply IH. apply len_lend. Qed.
(* firing a set = firing its members one by one, in every order *)
Theorem fire_set_any_order S S' D : NoDup S -> (forall v, In v S -> In v V) -> Permutation S S' -> length D = nv g ->
  fold_left (lend g) S' D = fire_set g D S.
Proof. intros HN HS HP HL. apply list_eq_nthZ.
  - rewrite fold_lend_length, len_fire_set; auto.
  - rewrite fold_lend_length by auto. intros w Hw. apply in_Vg in Hw.
    rewrite fold_lend; auto. 2:{ intros v Hv. apply HS. eapply Permutation_in; [apply Permutation_sym; exact HP|exact Hv]. }
    rewrite nth_fire_set, fire_is_lap by auto. f_equal. apply lap_ext; auto.
    intros x _. rewrite <- (counts_perm S S' x HP). rewrite counts_nodup by auto. reflexivity. Qed.
(* consequently any two orders agree, and two moves commute *)
Corollary lends_commute l l' D : Permutation l l' -> (forall v, In v l -> In v V) -> length D = nv g ->
  fold_left (lend g) l D = fold_left (lend g) l' D.
Proof. intros HP Hl HL. apply list_eq_nthZ; [rewrite !fold_lend_length; auto|]. rewrite fold_lend_length by auto. intros w Hw. apply in_Vg in Hw.
  rewrite !fold_lend; auto. 2:{ intros v Hv. apply Hl. eapply Permutation_in; [apply Permutation_sym; exact HP|exact Hv]. }
  f_equal. apply lap_ext; auto. intros x _. now apply counts_perm. Qed.
Theorem fire_all_identity D : length D = nv g -> fire_set g D V = D.
Proof. intros HL. apply list_eq_nthZ; [rewrite len_fire_set; auto|]. rewrite len_fire_set. intros w Hw. apply in_Vg in Hw.
  rewrite nth_fire_set by auto. unfold fire. assert (Hm : mem w V = true) by now apply mem_In. rewrite Hm.
  rewrite (zsum_ext _ (fun _ => 0)); [rewrite zsum_zero; lia|]. intros x Hx. assert (Hx' : mem x V = true) by now apply mem_In. now rewrite Hx'. Qed.

(* conservation *)
Lemma degD_transfer D a b k : In a V -> In b V -> degD g (transfer g D a b k) = degD g D.
Proof. intros Ha Hb. unfold degD, deg.
  rewrite (zsum_ext (nthZ (transfer g D a b k)) (fun w => nthZ D w - (if Nat.eqb w a then k else 0) + (if Nat.eqb w b then k else 0))).
  - rewrite zsum_add, zsum_sub, !zsum_indicator; auto using Vg_nodup. lia.
  - intros w Hw. unfold transfer. now rewrite nthZ_tab by now apply in_Vg. Qed.
Definition dinv (s : dstate) : Prop := length (degs s) = nv g /\ total s = degD g (degs s).
Theorem dstep_conserves s mv s' : dinv s -> dstep g s mv = Ok s' -> dinv s' /\ total s' = total s /\ degD g (degs s') = degD g (degs s).
Proof. intros [HL HT] H. destruct mv as [v|v|S|a b k]; cbn [dstep] in H.
  - destruct (inb g v) eqn:E; [|discriminate]. inversion H; subst; cbn [degs total]. apply Nat.ltb_lt, in_Vg in E.
    assert (degD g (lend g (degs s) v) = degD g (degs s)) by (apply (degD_lequiv g Hwf), (lequiv_lend g Hwf); auto).
    repeat split; auto. apply len_lend. cbn. congruence.
  - destruct (inb g v) eqn:E; [|discriminate]. inversion H; subst; cbn [degs total]. apply Nat.ltb_lt, in_Vg in E.
    assert (degD g (borrow g (degs s) v) = degD g (degs s)) by (apply (degD_lequiv g Hwf), (lequiv_borrow g Hwf); auto).
    repeat split; auto. apply len_borrow. cbn. congruence.
  - destruct (forallb (inb g) S); [|discriminate]. inversion H; subst; cbn [degs total].
    assert (degD g (fire_set g (degs s) S) = degD g (degs s)) by (apply (degD_lequiv g Hwf), lequiv_fire_set).
    repeat split; auto. apply len_fire_set. cbn. congruence.
  - destruct (k <=? 0); [discriminate|]. destruct (inb g a) eqn:Ea; [|discriminate]. destruct (inb g b) eqn:Eb; [|discriminate]. cbn [andb] in H.
    inversion H; subst; cbn [degs total]. apply Nat.ltb_lt, in_Vg in Ea. apply Nat.ltb_lt, in_Vg in Eb.
    pose proof (degD_transfer (degs s) a b k Ea Eb). repeat split; auto. apply tab_length. cbn. congruence. Qed.
(* any history of moves (accepted or refused): reported total = sum of reported degrees = total before *)
Theorem history_conserves ms : forall s, dinv s -> dinv (drun g s ms) /\ total (drun g s ms) = total s.
Proof. induction ms as [|mv t IH]; intros s Hs; cbn [drun]; [split; auto|].
  destruct (dstep g s mv) as [s'|] eqn:E; [|apply IH; auto]. apply dstep_conserves in E; auto. destruct E as [E1 [E2 _]].
  destruct (IH s' E1) as [H1 H2]. split; auto. congruence. Qed.
Lemma dinit_inv D : length D = nv g -> dinv (dinit g D).
Proof. intros HL. split; auto. Qed.
(* the configuration wrapper accepts exactly the divisor-level moves whose firing set avoids q *)
Theorem cstep_spec q s mv : cstep g q s mv = match mv with MFire vs => if existsb (Nat.eqb q) vs then Err else dstep g s mv | _ => dstep g s mv end.
Proof. destruct mv as [v|v|S|a b k]; cbn [cstep]; auto.
  destruct (existsb (Nat.eqb q) S) eqn:E.
  - apply existsb_exists in E. destruct E as [x [Hx Hq]]. apply Nat.eqb_eq in Hq. subst x.
    assert (forallb (fun v => inb g v && negb (Nat.eqb v q)) S = false).
    { apply not_true_is_false. intros H. rewrite forallb_forall in H. specialize (H q Hx). rewrite Nat.eqb_refl in H. now rewrite andb_false_r in H. } now rewrite H.
  - destruct (forallb (fun v => inb g v && negb (Nat.eqb v q)) S) eqn:F; auto. cbn [dstep].
    assert (forallb (inb g) S = false); [|now rewrite H].
    apply not_true_is_false. intros H. rewrite forallb_forall in H. assert (forallb (fun v => inb g v && negb (Nat.eqb v q)) S = true); [|congruence].
    apply forallb_forall. intros x Hx. rewrite (H x Hx). cbn [andb]. apply negb_true_iff. apply Nat.eqb_neq. intros ->.
    assert (existsb (Nat.eqb q) S = true) by (apply existsb_exists; exists q; split; auto; apply Nat.eqb_refl). congruence. Qed.

(* ---- the Laplacian (C06) ---- *)
Theorem lap_entry_spec v w : lap_entry g v w = if Nat.eqb v w then valg g v else - m v w.
Proof. reflexivity. Qed.
Theorem lap_symmetric v w : lap_entry g v w = lap_entry g w v.
Proof. unfold lap_entry. rewrite (Nat.eqb_sym w v). destruct (Nat.eqb_spec v w) as [->|]; auto. now rewrite msym. Qed.
Theorem lap_row_sum_zero v : In v V -> zsum (lap_entry g v) V = 0.
Proof. intros Hv. unfold lap_entry.
  rewrite (zsum_ext _ (fun w => (if Nat.eqb w v then valg g v else 0) - m v w)).
  - rewrite zsum_sub, zsum_indicator; auto using Vg_nodup. unfold valg, val. lia.
  - intros w _. rewrite (Nat.eqb_sym w v). destruct (Nat.eqb_spec v w) as [->|]; [rewrite (mult_diag g Hwf)|]; lia. Qed.
Lemma lap_entry_sum (s : nat -> Z) v : In v V -> zsum (fun w => lap_entry g v w * s w) V = lap V m s v.
Proof. intros Hv. unfold lap, lap_entry.
  rewrite (zsum_ext _ (fun w => (if Nat.eqb w v then valg g v * s v else 0) - m v w * s w)).
  - rewrite zsum_sub, zsum_indicator; auto using Vg_nodup. unfold valg, val.
    rewrite (zsum_ext (fun w => m v w * (s v - s w)) (fun w => s v * m v w - m v w * s w)) by (intros; ring).
    rewrite zsum_sub, zsum_scale. lia.
  - intros w _. rewrite (Nat.eqb_sym w v). destruct (Nat.eqb_spec v w) as [->|]; [rewrite (mult_diag g Hwf)|]; lia. Qed.
(* apply is exactly D - L s, in Z *)
Theorem lap_apply_spec D s v : In v V -> nthZ (lap_apply g D s) v = nthZ D v - lap V m (nthZ s) v.
Proof. intros Hv. unfold lap_apply. rewrite nthZ_tab by now apply in_Vg. now rewrite lap_entry_sum. Qed.
Theorem lap_apply_additive D s t v : In v V ->
  nthZ (lap_apply g D (tab (nv g) (fun x => nthZ s x + nthZ t x))) v = nthZ (lap_apply g (lap_apply g D s) t) v.
Proof. intros Hv. rewrite !lap_apply_spec by auto. rewrite <- (lap_ext V m (fun x => nthZ s x + nthZ t x)); auto.
  - rewrite lap_add. lia.
  - intros x Hx. symmetry. apply (nthZ_tab (nv g) (fun x => nthZ s x + nthZ t x)). now apply in_Vg. Qed.
Theorem lap_apply_lequiv D s : lequiv V m (nthZ D) (nthZ (lap_apply g D s)).
Proof. exists (nthZ s). intros v Hv. now apply lap_apply_spec. Qed.

(* the scripted lends / borrows one at a time give the same divisor *)
Lemma lend_times_spec k : forall D v w, In v V -> In w V -> nthZ (lend_times k g D v) w = nthZ D w - Z.of_nat k * lap V m (unit_at v) w.
Proof. induction k as [|k IH]; intros D v w Hv Hw; cbn [lend_times]; [lia|]. rewrite IH, (nth_lend g Hwf) by auto. lia. Qed.
Lemma borrow_times_spec k : forall D v w, In v V -> In w V -> nthZ (borrow_times k g D v) w = nthZ D w + Z.of_nat k * lap V m (unit_at v) w.
Proof. induction k as [|k IH]; intros D v w Hv Hw; cbn [borrow_times]; [lia|]. rewrite IH, (nth_borrow g Hwf) by auto. lia. Qed.
Definition partial_script (s : list Z) (l : list nat) : script := fun x => if mem x l then nthZ s x else 0.
Theorem scripted_moves_spec s order : NoDup order -> (forall v, In v order -> In v V) -> forall D w, In w V ->
  nthZ (scripted_moves g D s order) w = nthZ D w - lap V m (partial_script s order) w.
Proof. unfold scripted_moves. induction order as [|a t IH]; intros HN Ho D w Hw; cbn [fold_left].
  - unfold partial_script. cbn. rewrite lap_const. lia.
  - inversion HN; subst. rewrite IH; auto. 2:{ intros; apply Ho; now right. }
    assert (Ha : In a V) by (apply Ho; now left).
    assert (E : lap V m (partial_script s (a :: t)) w = nthZ s a * lap V m (unit_at a) w + lap V m (partial_script s t) w).
    { rewrite <- lap_scale, <- lap_add. apply lap_ext; auto. intros x _. unfold partial_script, unit_at, mem. cbn [existsb]. fold (mem x t).
      destruct (Nat.eqb_spec x a) as [->|]; cbn [orb]; [|lia]. assert (mem a t = false) by now apply mem_false. rewrite H. lia. }
    rewrite E. destruct (Z.leb_spec 0 (nthZ s a)).
    + rewrite lend_times_spec by auto. rewrite Z2Nat.id by auto. lia.
    + rewrite borrow_times_spec by auto. rewrite Z2Nat.id by lia. lia. Qed.
Corollary apply_eq_scripted_moves D s order : Permutation order V -> forall w, In w V ->
  nthZ (scripted_moves g D s order) w = nthZ (lap_apply g D s) w.
Proof. intros HP w Hw. rewrite scripted_moves_spec, lap_apply_spec; auto.
  - f_equal. apply lap_ext; auto. intros x Hx. unfold partial_script. assert (mem x order = true); [|now rewrite H].
    apply mem_In. eapply Permutation_in; [apply Permutation_sym; exact HP|exact Hx].
  - eapply Permutation_NoDup; [apply Permutation_sym; exact HP|apply Vg_nodup].
  - intros v Hv. eapply Permutation_in; eauto. Qed.
End WF.
