(* Termination of the top-level entry points of the model on connected multigraphs: winnability (both modes), rank (both modes), gonality.
   Every inner reduction terminates for some fuel (Termination.v); results are monotone in the fuel; finitely many inner calls share a fuel. *)
From Coq Require Import ZArith List Lia Bool Arith.
Import ListNotations.
From CF Require Import ZSum ListAux Defs LinEquiv Core GraphLink DharLink EwdLink QredLink LineqLink RankLink GonLink Termination.
Open Scope Z_scope.

Lemma reduce_loop_mono g q ord f : forall f' D x, reduce_loop f g q ord D = Done x -> (f <= f')%nat -> reduce_loop f' g q ord D = Done x.
Proof. induction f as [|f IH]; intros f' D x H Hle; [discriminate|]. destruct f' as [|f']; [lia|]. cbn [reduce_loop] in *.
  destruct (concentrate (S f) g q ord D) as [D1|] eqn:E; [|discriminate]. rewrite (concentrate_mono g q ord (S f) (S f') D D1 E) by lia.
  destruct (unburnt_list g q D1); auto. apply IH; auto. lia. Qed.
Lemma ewd_q_mono g q f f' D x : ewd_q f g q D = Done x -> (f <= f')%nat -> ewd_q f' g q D = Done x.
Proof. unfold ewd_q. intros H Hle. destruct (reduce_loop f g q (default_ord g q) D) as [[R B]|] eqn:E; [|discriminate].
  now rewrite (reduce_loop_mono g q _ f f' D (R, B) E Hle). Qed.
Lemma ewd_mono g f f' D opt x : ewd f g D opt = Done x -> (f <= f')%nat -> ewd f' g D opt = Done x.
Proof. unfold ewd. intros H Hle. destruct (opt && (degD g D <? 0)); auto. destruct (opt && (genus_g g <=? degD g D)); auto.
  destruct (ewd_q f g (argmin D) D) as [[[b R] B]|] eqn:E; [|discriminate]. now rewrite (ewd_q_mono g _ f f' D _ E Hle). Qed.
Lemma winnable_plain_mono g f f' D b : winnable_plain f g D = Done b -> (f <= f')%nat -> winnable_plain f' g D = Done b.
Proof. unfold winnable_plain. intros H Hle. destruct (ewd f g D false) as [[[b0 r] o]|] eqn:E; [|discriminate]. now rewrite (ewd_mono g f f' D false _ E Hle). Qed.
Lemma is_winnable_mono g f f' D b : is_winnable f g D = Done b -> (f <= f')%nat -> is_winnable f' g D = Done b.
Proof. unfold is_winnable. intros H Hle. destruct (ewd f g D true) as [[[b0 r] o]|] eqn:E; [|discriminate]. now rewrite (ewd_mono g f f' D true _ E Hle). Qed.

Section WF.
Variable g : graph.
Hypothesis Hwf : wfb g = true.
Hypothesis Hc : connected_b g = true.
Hypothesis Hn : (0 < nv g)%nat.
Local Notation V := (Vg g).
Local Notation m := (mult g).

Lemma ewd_terminates D opt : length D = nv g -> exists fuel x, ewd fuel g D opt = Done x.
Proof. intros HL. destruct (ewd_q_terminates g Hwf Hc (argmin D) D (argmin_in g D HL Hn) HL) as [fuel [[[b R] B] H]]. exists fuel. unfold ewd.
  destruct (opt && (degD g D <? 0)); [eauto|]. destruct (opt && (genus_g g <=? degD g D)); [eauto|]. rewrite H. eauto. Qed.
(* one fuel for a finite family of divisors *)
Lemma common_fuel (w : nat -> graph -> div -> res bool) : (forall f f' D b, w f g D = Done b -> (f <= f')%nat -> w f' g D = Done b) ->
  (forall D, length D = nv g -> exists f b, w f g D = Done b) ->
  forall Ds, (forall D, In D Ds -> length D = nv g) -> exists f, forall D, In D Ds -> exists b, w f g D = Done b.
Proof. intros Hmono Hterm. induction Ds as [|D t IH]; intros HL; [exists 0%nat; intros ? []|].
  destruct IH as [f1 H1]; [intros; apply HL; now right|]. destruct (Hterm D (HL D (or_introl eq_refl))) as [f2 [b2 H2]].
  exists (Nat.max f1 f2). intros X [<-|HX].
  - exists b2. apply (Hmono f2); auto. lia.
  - destruct (H1 X HX) as [b Hb]. exists b. apply (Hmono f1); auto. lia. Qed.
Lemma plain_terminates D : length D = nv g -> exists f b, winnable_plain f g D = Done b.
Proof. intros HL. destruct (ewd_terminates D false HL) as [f [[[b r] o] H]]. exists f, b. unfold winnable_plain. now rewrite H. Qed.
Lemma opt_terminates D : length D = nv g -> exists f b, is_winnable f g D = Done b.
Proof. intros HL. destruct (ewd_terminates D true HL) as [f [[[b r] o] H]]. exists f, b. unfold is_winnable. now rewrite H. Qed.

(* ---- the level test and the rank loop ---- *)
Lemma all_winnable_done f Ds : (forall D, In D Ds -> exists b, winnable_plain f g D = Done b) -> exists b, all_winnable f g Ds = Done b.
Proof. unfold all_winnable. change (fun acc E => match acc with Done true => winnable_plain f g E | other => other end) with (wstep g winnable_plain f).
  assert (Hgen : forall acc, (exists b0, acc = Done b0) -> (forall D, In D Ds -> exists b, winnable_plain f g D = Done b) -> exists b, fold_left (wstep g winnable_plain f) Ds acc = Done b).
  { induction Ds as [|D t IH]; intros acc [b0 ->] H; cbn [fold_left]; [eauto|]. apply IH; [|intros; apply H; now right].
    unfold wstep. destruct b0; [apply H; now left|eauto]. }
  intros H. apply Hgen; eauto. Qed.
Definition level_divs (D : div) (k : nat) : list div := map (fun E => dsub (nv g) D E) (placements (nv g) k).
Lemma level_divs_len D k X : In X (level_divs D k) -> length X = nv g.
Proof. intros H. apply in_map_iff in H. destruct H as [E [<- _]]. apply tab_length. Qed.
(* once the degree is exhausted the level test fails *)
Lemma level_fails f D k b : length D = nv g -> degD g D < Z.of_nat k -> all_winnable f g (level_divs D k) = Done b -> b = false.
Proof. intros HL Hd H. destruct b; auto. exfalso. apply (all_winnable_rank_ge g Hwf Hn f D k true HL) in H. assert (Hr : rank_ge V m (nthZ D) k) by now apply H.
  set (E := fun v => if Nat.eqb v 0 then Z.of_nat k else 0).
  assert (H0 : In 0%nat V) by (apply in_Vg; exact Hn).
  specialize (Hr E). assert (Hw : winnable V m (fun v => nthZ D v - E v)).
  { apply Hr. intros v _; unfold E; destruct (Nat.eqb v 0); lia. unfold deg, E. rewrite zsum_indicator; auto using Vg_nodup. }
  revert Hw. apply (neg_deg_unwinnable V m (mult_sym g Hwf)). unfold deg. rewrite zsum_sub. unfold E. rewrite zsum_indicator; auto using Vg_nodup. unfold degD, deg in Hd. lia. Qed.
Theorem rank_loop_terminates D : length D = nv g -> forall k, exists kfuel fuel r, rank_loop kfuel fuel g D k = Done r.
Proof. intros HL k.
  (* levels k .. bound, where bound exceeds the degree *)
  set (bound := Nat.max k (S (Z.to_nat (degD g D)))).
  set (allD := flat_map (level_divs D) (seq k (S (bound - k)))).
  destruct (common_fuel winnable_plain (winnable_plain_mono g) plain_terminates allD) as [fuel Hf].
  { intros X HX. apply in_flat_map in HX. destruct HX as [j [_ HX]]. eapply level_divs_len; eauto. }
  exists (S (S (bound - k))), fuel.
  assert (Hlev : forall j, (k <= j <= bound)%nat -> exists b, all_winnable fuel g (level_divs D j) = Done b).
  { intros j Hj. apply all_winnable_done. intros X HX. apply Hf. apply in_flat_map. exists j. split; auto. apply in_seq. lia. }
  assert (Hgen : forall n j, (k <= j)%nat -> (j + n = bound)%nat -> exists r, rank_loop (S (S n)) fuel g D j = Done r).
  { induction n as [|n IH]; intros j Hkj Hjn; cbn [rank_loop]; fold (level_divs D j).
    - destruct (Hlev j ltac:(lia)) as [b Hb]. rewrite Hb. assert (b = false). { apply (level_fails fuel D j b HL); auto. unfold bound in Hjn. lia. } subst. eauto.
    - destruct (Hlev j ltac:(lia)) as [b Hb]. rewrite Hb. destruct b; [|eauto]. apply IH; lia. }
  apply (Hgen (bound - k)%nat k); lia. Qed.
Lemma rank_loop_mono_k kf : forall kf' f D k r, rank_loop kf f g D k = Done r -> (kf <= kf')%nat -> rank_loop kf' f g D k = Done r.
Proof. induction kf as [|kf IH]; intros kf' f D k r H Hle; [discriminate|]. destruct kf' as [|kf']; [lia|]. cbn [rank_loop] in *.
  destruct (all_winnable f g _) as [[|]|]; auto; try discriminate. apply IH; auto. lia. Qed.
Lemma all_winnable_mono f f' Ds b : all_winnable f g Ds = Done b -> (f <= f')%nat -> all_winnable f' g Ds = Done b.
Proof. unfold all_winnable. change (fun acc E => match acc with Done true => winnable_plain f g E | other => other end) with (wstep g winnable_plain f).
  change (fun acc E => match acc with Done true => winnable_plain f' g E | other => other end) with (wstep g winnable_plain f').
  intros H Hle. revert H. generalize (Done true : res bool) as acc. induction Ds as [|D t IH]; intros acc H; cbn [fold_left] in *; auto.
  assert (Hs : forall a, wstep g winnable_plain f a D <> OutOfFuel -> wstep g winnable_plain f' a D = wstep g winnable_plain f a D).
  { intros a Ha. unfold wstep in *. destruct a as [[|]|]; auto. destruct (winnable_plain f g D) as [b0|] eqn:E; [|congruence]. now rewrite (winnable_plain_mono g f f' D b0 E Hle). }
  destruct (wstep g winnable_plain f acc D) as [b0|] eqn:E.
  - rewrite Hs by (rewrite E; discriminate). rewrite E. now apply IH.
  - rewrite fold_wstep_fuel in H. discriminate. Qed.
Lemma rank_loop_mono_f kf : forall f f' D k r, rank_loop kf f g D k = Done r -> (f <= f')%nat -> rank_loop kf f' g D k = Done r.
Proof. induction kf as [|kf IH]; intros f f' D k r H Hle; [discriminate|]. cbn [rank_loop] in *.
  destruct (all_winnable f g _) as [b|] eqn:E; [|discriminate]. rewrite (all_winnable_mono f f' _ b E Hle). destruct b; auto. eapply IH; eauto. Qed.
(* rank, both modes *)
Theorem rank_plain_terminates D : length D = nv g -> exists kfuel fuel r, rank_plain kfuel fuel g D = Done r.
Proof. intros HL. destruct (plain_terminates D HL) as [f1 [b Hb]]. destruct (rank_loop_terminates D HL 1%nat) as [kf [f2 [r Hr]]].
  exists kf, (Nat.max f1 f2). unfold rank_plain. rewrite (winnable_plain_mono g f1 _ D b Hb) by lia. destruct b; [|eauto].
  exists r. apply (rank_loop_mono_f kf f2); auto. lia. Qed.
Theorem rank_opt_terminates D : length D = nv g -> exists kfuel fuel r, rank_opt kfuel fuel g D = Done r.
Proof. intros HL. destruct (plain_terminates D HL) as [f1 [b Hb]]. destruct (rank_loop_terminates D HL 1%nat) as [kf2 [f2 [r2 Hr2]]].
  destruct (rank_plain_terminates (dsub (nv g) (canonical_g g) D) (tab_length _ _)) as [kf3 [f3 [r3 Hr3]]].
  set (F := Nat.max f1 (Nat.max f2 f3)). set (KF := Nat.max kf2 kf3). exists KF, F. unfold rank_opt.
  rewrite (winnable_plain_mono g f1 F D b Hb) by (unfold F; lia). destruct b; [|eauto].
  destruct (2 * genus_g g - 2 <? degD g D); [eauto|]. destruct (degD g (dsub (nv g) (canonical_g g) D) <? degD g D).
  - assert (E : rank_plain KF F g (dsub (nv g) (canonical_g g) D) = Done r3).
    { unfold rank_plain in *. destruct (winnable_plain f3 g (dsub (nv g) (canonical_g g) D)) as [b3|] eqn:E3; [|discriminate].
      rewrite (winnable_plain_mono g f3 F _ b3 E3) by (unfold F; lia). destruct b3; auto.
      apply (rank_loop_mono_k kf3); [|unfold KF; lia]. apply (rank_loop_mono_f kf3 f3); auto. unfold F; lia. }
    rewrite E. eauto.
  - exists r2. apply (rank_loop_mono_k kf2); [|unfold KF; lia]. apply (rank_loop_mono_f kf2 f2); auto. unfold F; lia. Qed.

(* ---- gonality ---- *)
Lemma losing_done f D vs : (forall v, In v vs -> exists b, play_game f g D v = Done b) -> exists l, losing f g D vs = Done l.
Proof. induction vs as [|v t IH]; intros H; cbn [losing]; [eauto|]. destruct (H v (or_introl eq_refl)) as [b Hb]. rewrite Hb.
  destruct IH as [l Hl]; [intros; apply H; now right|]. rewrite Hl. eauto. Qed.
Lemma winning_among_done f Ps : (forall P, In P Ps -> exists x, test_strategy f g P = Done x) -> forall cap, exists l, winning_among f g cap Ps = Done l.
Proof. induction Ps as [|P t IH]; intros H cap; cbn [winning_among]; [eauto|]. destruct cap as [[|c]|]; [eauto| |].
  - destruct (H P (or_introl eq_refl)) as [[b ls] Hb]. rewrite Hb. destruct b.
    + destruct (IH (fun X HX => H X (or_intror HX)) (Some c)) as [l Hl]. rewrite Hl. eauto.
    + apply IH. intros; apply H; now right.
  - destruct (H P (or_introl eq_refl)) as [[b ls] Hb]. rewrite Hb. destruct b.
    + destruct (IH (fun X HX => H X (or_intror HX)) None) as [l Hl]. rewrite Hl. eauto.
    + apply IH. intros; apply H; now right. Qed.
Theorem compute_gonality_terminates maxg fs : exists fuel x, compute_gonality fuel g maxg fs = Done x.
Proof. set (Ps := flat_map (fun k => placements (nv g) k) (seq 1 maxg)).
  set (allD := flat_map (fun P => map (fun v => sub1 (nv g) P v) V) Ps).
  destruct (common_fuel is_winnable (is_winnable_mono g) opt_terminates allD) as [fuel Hf].
  { intros X HX. apply in_flat_map in HX. destruct HX as [P [_ HX]]. apply in_map_iff in HX. destruct HX as [v [<- _]]. apply tab_length. }
  exists fuel. unfold compute_gonality.
  assert (Hts : forall k P, In k (seq 1 maxg) -> In P (placements (nv g) k) -> exists x, test_strategy fuel g P = Done x).
  { intros k P Hk HP. unfold test_strategy. destruct (losing_done fuel P V) as [l Hl]; [|rewrite Hl; eauto].
    intros v Hv. unfold play_game. apply Hf. apply in_flat_map. exists P. split; [apply in_flat_map; exists k; auto|]. apply in_map. exact Hv. }
  generalize (if fs then 5%nat else 1%nat). intros cap.
  assert (Hgen : forall ks, (forall k, In k ks -> In k (seq 1 maxg)) -> exists x, gon_search fuel g cap ks = Done x).
  { induction ks as [|k t IH]; intros Hks; cbn [gon_search]; [eauto|]. unfold find_strategies.
    destruct (winning_among_done fuel (placements (nv g) k)) with (cap := Some cap) as [l Hl]; [intros P HP; apply (Hts k); auto; apply Hks; now left|].
    rewrite Hl. destruct l; [apply IH; intros; apply Hks; now right|eauto]. }
  apply Hgen. auto. Qed.
End WF.
