(* Line-level round trips of the TXT format, for ALL representable names (name_ok) and all integers: what the writer puts on a VERTICES /
   EDGE / DEGREE / FIRING / ORIENTED line is exactly what the reader's string pipeline (strip, startswith, replace, split(','), strip, int) gets back. *)
From Coq Require Import ZArith NArith List Lia Bool Arith.
Import ListNotations.
From CF Require Import ListAux Txt TxtLink.
Open Scope N_scope.

(* ---- strip ---- *)
Lemma lstrip_length s : (length (lstrip s) <= length s)%nat.
Proof. induction s as [|c t IH]; cbn [lstrip]; auto. destruct (is_space c); cbn [length]; lia. Qed.
Lemma lstrip_head c t : is_space c = false -> lstrip (c :: t) = c :: t.
Proof. intros H. cbn. now rewrite H. Qed.
Lemma lstrip_id s : lstrip s = s <-> match s with [] => True | c :: _ => is_space c = false end.
Proof. destruct s as [|c t]; [tauto|]. cbn [lstrip]. destruct (is_space c) eqn:E; split; auto; try discriminate.
  intros H. pose proof (lstrip_length t). rewrite H in H0. cbn in H0. lia. Qed.
Lemma rstrip_length s : (length (rstrip s) <= length s)%nat.
Proof. unfold rstrip. rewrite rev_length. pose proof (lstrip_length (rev s)). now rewrite rev_length in H. Qed.
Lemma str_eqb_eq a : forall b, str_eqb a b = true -> a = b.
Proof. induction a as [|x a IH]; intros [|y b] H; cbn in H; try discriminate; auto. apply andb_true_iff in H. destruct H as [H1 H2]. apply N.eqb_eq in H1. subst. f_equal. auto. Qed.
Definition no_edge_space (s : str) : Prop := s <> [] /\ lstrip s = s /\ rstrip s = s.
Lemma name_ok_edges s : name_ok s = true -> no_edge_space s.
Proof. unfold name_ok. destruct s as [|c t]; [discriminate|]. intros H. apply andb_true_iff in H. destruct H as [_ H].
  assert (E : strip (c :: t) = c :: t) by (now apply str_eqb_eq).
  split; [discriminate|]. unfold strip in E.
  assert (L1 : lstrip (c :: t) = c :: t).
  { apply lstrip_id. cbn. destruct (is_space c) eqn:Es; auto. exfalso.
    pose proof (rstrip_length (lstrip (c :: t))). rewrite E in H0. pose proof (lstrip_length t). cbn [lstrip] in H0. rewrite Es in H0. cbn [length] in H0. lia. }
  split; auto. now rewrite L1 in E. Qed.
Lemma lstrip_app_keep a b : a <> [] -> lstrip a = a -> lstrip (a ++ b) = a ++ b.
Proof. intros Hne H. destruct a as [|c t]; [congruence|]. apply lstrip_id in H. cbn [app]. now apply lstrip_head. Qed.
Lemma rstrip_app_keep x s : s <> [] -> rstrip s = s -> rstrip (x ++ s) = x ++ s.
Proof. intros Hne H. unfold rstrip in *. rewrite rev_app_distr.
  assert (Hr : lstrip (rev s) = rev s) by (rewrite <- (rev_involutive (lstrip (rev s))), H; reflexivity).
  assert (Hn : rev s <> []) by (intro E; apply Hne; rewrite <- (rev_involutive s), E; reflexivity).
  rewrite (lstrip_app_keep _ _ Hn Hr). rewrite rev_app_distr, !rev_involutive. reflexivity. Qed.
Lemma rstrip_drop_space x : rstrip (x ++ [32]) = rstrip x.
Proof. unfold rstrip. rewrite rev_app_distr. cbn [rev app lstrip]. change (is_space 32) with true. reflexivity. Qed.
Lemma strip_keep c x s : is_space c = false -> s <> [] -> rstrip s = s -> strip (c :: x ++ s) = c :: x ++ s.
Proof. intros Hc Hne Hs. unfold strip. rewrite lstrip_head by auto. apply (rstrip_app_keep (c :: x) s Hne Hs). Qed.
Lemma strip_space_name s : no_edge_space s -> strip (32 :: s) = s.
Proof. intros [Hne [H1 H2]]. unfold strip. cbn [lstrip]. change (is_space 32) with true. cbv iota. now rewrite H1. Qed.

(* ---- startswith / replace ---- *)
Lemma starts_with_app p s : starts_with p (p ++ s) = true.
Proof. induction p as [|a p IH]; cbn; auto. now rewrite N.eqb_refl. Qed.
Lemma starts_with_in p s c : starts_with p s = true -> In c p -> In c s.
Proof. revert s. induction p as [|a p IH]; intros s H Hc; [destruct Hc|]. destruct s as [|b s]; cbn in H; [discriminate|].
  apply andb_true_iff in H. destruct H as [H1 H2]. apply N.eqb_eq in H1. subst. destruct Hc as [->|Hc]; [now left|right; eauto]. Qed.
Lemma remove_all_absent p s c : In c p -> ~ In c s -> forall fuel, remove_all_fuel fuel p s = s.
Proof. intros Hp Hs fuel. revert s Hs. induction fuel as [|f IH]; intros s Hs; cbn [remove_all_fuel]; auto. destruct s as [|x t]; auto.
  destruct (starts_with p (x :: t)) eqn:E; [exfalso; apply Hs; eapply starts_with_in; eauto|]. f_equal. apply IH. intro; apply Hs; now right. Qed.
Lemma skipn_app_exact {A} (p s : list A) : skipn (length p) (p ++ s) = s.
Proof. induction p; cbn; auto. Qed.
Lemma remove_all_prefix p s c : p <> [] -> In c p -> ~ In c s -> remove_all p (p ++ s) = s.
Proof. intros Hne Hp Hs. unfold remove_all. cbn [remove_all_fuel]. destruct (p ++ s) as [|x t] eqn:E; [destruct p; [congruence|discriminate]|].
  rewrite <- E. rewrite starts_with_app, skipn_app_exact. eapply remove_all_absent; eauto. Qed.

(* ---- split(',') ---- *)
Lemma split_aux_nosep sep s cur : ~ In sep s -> split_aux sep s cur = [rev cur ++ s].
Proof. revert cur. induction s as [|c t IH]; intros cur H; cbn [split_aux]; [now rewrite app_nil_r|].
  destruct (N.eqb_spec c sep) as [->|Hne]; [exfalso; apply H; now left|]. rewrite IH by (intro; apply H; now right). cbn [rev]. now rewrite <- app_assoc. Qed.
Lemma split_aux_sep sep s1 s2 cur : ~ In sep s1 -> split_aux sep (s1 ++ sep :: s2) cur = (rev cur ++ s1) :: split_aux sep s2 [].
Proof. revert cur. induction s1 as [|c t IH]; intros cur H; cbn [split_aux app].
  - rewrite N.eqb_refl. now rewrite app_nil_r.
  - destruct (N.eqb_spec c sep) as [->|Hne]; [exfalso; apply H; now left|]. rewrite IH by (intro; apply H; now right). cbn [rev]. now rewrite <- app_assoc. Qed.
Lemma split_join_names names : names <> [] -> Forall (fun s => ~ In 44 s) names ->
  split_on 44 (32 :: join k_COMMASP names) = map (cons 32) names.
Proof. unfold split_on. intros Hne HF. revert Hne. induction HF as [|a t Ha HF IH]; [congruence|]. intros _.
  destruct t as [|b t'].
  - cbn [join map]. change (32 :: a) with ([32] ++ a). rewrite split_aux_nosep; [reflexivity|]. intros [H|H]; [discriminate|auto].
  - change (join k_COMMASP (a :: b :: t')) with (a ++ k_COMMASP ++ join k_COMMASP (b :: t')). unfold k_COMMASP at 1. cbn [app].
    change (32 :: a ++ 44 :: 32 :: join k_COMMASP (b :: t')) with ((32 :: a) ++ 44 :: (32 :: join k_COMMASP (b :: t'))).
    rewrite split_aux_sep by (intros [H|H]; [discriminate|auto]). cbn [rev app map]. f_equal. apply IH. discriminate. Qed.

(* ---- the lines ---- *)
Definition names_ok (names : list str) : Prop := Forall (fun s => name_ok s = true) names.
Lemma name_ok_chars s : name_ok s = true -> ~ In 44 s /\ ~ In 58 s /\ ~ In 10 s /\ ~ In 13 s.
Proof. unfold name_ok. destruct s as [|c t]; [discriminate|]. intros H. apply andb_true_iff in H. destruct H as [H _]. rewrite forallb_forall in H.
  repeat split; intros Hin; specialize (H _ Hin); cbn in H; discriminate. Qed.
Lemma join_no_colon names : Forall (fun s => ~ In 58 s) names -> ~ In 58 (join k_COMMASP names).
Proof. induction 1 as [|a t Ha HF IH]; [intros []|]. destruct t as [|b t']; [exact Ha|].
  change (join k_COMMASP (a :: b :: t')) with (a ++ k_COMMASP ++ join k_COMMASP (b :: t')). intros H. apply in_app_or in H. destruct H as [H|H]; auto.
  apply in_app_or in H. destruct H as [H|H]; auto. cbn in H. destruct H as [H|[H|[]]]; discriminate. Qed.
Lemma join_last_keeps names : names <> [] -> Forall no_edge_space names -> exists x s, join k_COMMASP names = x ++ s /\ s <> [] /\ rstrip s = s.
Proof. intros Hne HF. induction HF as [|a t Ha HF IH]; [congruence|]. destruct t as [|b t'].
  - exists [], a. destruct Ha as [A [_ B]]. auto.
  - destruct IH as [x [s [E [S1 S2]]]]; [discriminate|]. exists (a ++ k_COMMASP ++ x), s.
    change (join k_COMMASP (a :: b :: t')) with (a ++ k_COMMASP ++ join k_COMMASP (b :: t')). rewrite E. now rewrite <- !app_assoc. Qed.
(* the vertex line: written as kw ++ " " ++ join ", " names; read back as the names (kw is a keyword ending in ':', starting with a non-blank) *)
Theorem vertices_line_roundtrip kw c0 kw' names : kw = c0 :: kw' ++ [58] -> is_space c0 = false -> names_ok names ->
  let line := strip (kw ++ k_SP ++ join k_COMMASP names) in
  starts_with kw line = true /\ nonempty_names (fields kw line) = names.
Proof. intros Ekw Hc0 Hok line.
  assert (Hchars : Forall (fun s => ~ In 44 s) names /\ Forall (fun s => ~ In 58 s) names /\ Forall no_edge_space names).
  { repeat split; eapply Forall_impl; try exact Hok; intros s Hs; cbv beta in *; [apply (name_ok_chars s Hs)|apply (name_ok_chars s Hs)|now apply name_ok_edges]. }
  destruct Hchars as [H44 [H58 Hedge]].
  destruct names as [|a t].
  - (* empty graph: "KW: " strips to "KW:" *)
    assert (El : line = kw).
    { unfold line. cbn [join]. rewrite app_nil_r. unfold k_SP. unfold strip. rewrite Ekw. rewrite <- app_comm_cons. rewrite lstrip_head by auto.
      rewrite app_comm_cons. rewrite rstrip_drop_space. apply (rstrip_app_keep (c0 :: kw') [58]); [discriminate|reflexivity]. }
    rewrite El. split; [rewrite <- (app_nil_r kw) at 2; apply starts_with_app|].
    unfold fields. rewrite <- (app_nil_r kw) at 2. rewrite (remove_all_prefix kw [] 58); [reflexivity|rewrite Ekw; discriminate|rewrite Ekw; right; apply in_or_app; right; now left|intros []].
  - assert (Hne : a :: t <> []) by discriminate.
    destruct (join_last_keeps (a :: t) Hne Hedge) as [x [s [Ej [S1 S2]]]].
    assert (El : line = kw ++ k_SP ++ join k_COMMASP (a :: t)).
    { unfold line. rewrite Ej.
      replace (kw ++ k_SP ++ x ++ s) with (c0 :: (kw' ++ [58] ++ k_SP ++ x) ++ s) by (rewrite Ekw; cbn [app]; rewrite <- !app_assoc; reflexivity).
      now apply strip_keep. }
    rewrite El. split; [apply starts_with_app|]. unfold fields.
    rewrite (remove_all_prefix kw _ 58); [|rewrite Ekw; discriminate|rewrite Ekw; right; apply in_or_app; right; now left|].
    2:{ unfold k_SP. intros [H|H]; [discriminate|]. now apply (join_no_colon (a :: t) H58). }
    unfold k_SP. cbn [app]. rewrite split_join_names by auto. rewrite map_map.
    assert (Hm : map (fun s => strip (32 :: s)) (a :: t) = a :: t).
    { clear - Hedge. induction Hedge as [|b u Hb HF IH]; [reflexivity|]. cbn [map]. rewrite strip_space_name by auto. now rewrite IH. }
    rewrite Hm. unfold nonempty_names. clear - Hedge. induction Hedge as [|b u [Hb _] HF IH]; [reflexivity|]. cbn [filter]. destruct b; [congruence|]. now rewrite IH. Qed.

(* ---- the general keyword line: kw ++ " " ++ items joined by ", " ---- *)
Definition item_ok (s : str) : Prop := ~ In 44 s /\ ~ In 58 s /\ no_edge_space s.
Lemma name_ok_item s : name_ok s = true -> item_ok s.
Proof. intros H. destruct (name_ok_chars s H) as [A [B _]]. repeat split; auto; apply (name_ok_edges s H). Qed.
Lemma nospace_item s : s <> [] -> (forall c, In c s -> is_space c = false /\ c <> 44 /\ c <> 58) -> item_ok s.
Proof. intros Hne H. split; [intro Hc; now destruct (H _ Hc) as [_ [? _]]|]. split; [intro Hc; now destruct (H _ Hc) as [_ [_ ?]]|].
  split; auto. assert (Hs : strip s = s) by (apply strip_nospace; intros c Hc; apply (H c Hc)).
  split; [apply lstrip_nospace; intros c Hc; apply (H c Hc)|]. unfold strip in Hs. rewrite lstrip_nospace in Hs; auto. intros c Hc; apply (H c Hc). Qed.
Lemma print_Z_item z : item_ok (print_Z z).
Proof. unfold print_Z. destruct (Z.ltb_spec z 0) as [Hneg|Hpos].
  - destruct (print_pos_spec (S (Z.to_nat (Z.log2 (- z)))) (- z)) as [A [B _]]; [lia|pose proof (Z.log2_nonneg (- z)); lia|].
    apply nospace_item; [discriminate|]. intros c [<-|Hc]; [repeat split; discriminate|]. destruct (A c Hc) as [d [Hd ->]].
    split; [now apply digit_not_space|]. split; lia.
  - destruct (print_pos_spec (S (Z.to_nat (Z.log2 z))) z) as [A [B _]]; [lia|pose proof (Z.log2_nonneg z); lia|].
    apply nospace_item; auto. intros c Hc. destruct (A c Hc) as [d [Hd ->]]. split; [now apply digit_not_space|]. split; lia. Qed.
Lemma print_Z_no_nl z : ~ In 10 (print_Z z) /\ ~ In 13 (print_Z z).
Proof. assert (H : forall c, In c (print_Z z) -> c = 45 \/ 48 <= c).
  { unfold print_Z. destruct (Z.ltb_spec z 0) as [Hneg|Hpos].
    - destruct (print_pos_spec (S (Z.to_nat (Z.log2 (- z)))) (- z)) as [A _]; [lia|pose proof (Z.log2_nonneg (- z)); lia|].
      intros c [<-|Hc]; [now left|]. destruct (A c Hc) as [d [Hd ->]]. right. lia.
    - destruct (print_pos_spec (S (Z.to_nat (Z.log2 z))) z) as [A _]; [lia|pose proof (Z.log2_nonneg z); lia|].
      intros c Hc. destruct (A c Hc) as [d [Hd ->]]. right. lia. }
  split; intro Hc; destruct (H _ Hc) as [E|E]; try discriminate; lia. Qed.
Lemma split_join_items items : items <> [] -> Forall (fun s => ~ In 44 s) items ->
  split_on 44 (32 :: join k_COMMASP items) = map (cons 32) items.
Proof. apply split_join_names. Qed.

Theorem fields_line kw c0 kw' items : kw = c0 :: kw' ++ [58] -> is_space c0 = false -> items <> [] -> Forall item_ok items ->
  let line := kw ++ k_SP ++ join k_COMMASP items in
  strip line = line /\ starts_with kw line = true /\ fields kw line = items.
Proof. intros Ekw Hc0 Hne Hok line.
  assert (H44 : Forall (fun s => ~ In 44 s) items) by (eapply Forall_impl; [|exact Hok]; intros s Hs; apply Hs).
  assert (H58 : Forall (fun s => ~ In 58 s) items) by (eapply Forall_impl; [|exact Hok]; intros s Hs; apply Hs).
  assert (Hedge : Forall no_edge_space items) by (eapply Forall_impl; [|exact Hok]; intros s Hs; apply Hs).
  destruct (join_last_keeps items Hne Hedge) as [x [s [Ej [S1 S2]]]].
  split; [|split].
  - unfold line. rewrite Ej.
    replace (kw ++ k_SP ++ x ++ s) with (c0 :: (kw' ++ [58] ++ k_SP ++ x) ++ s) by (rewrite Ekw; cbn [app]; rewrite <- !app_assoc; reflexivity).
    now apply strip_keep.
  - apply starts_with_app.
  - unfold fields, line. rewrite (remove_all_prefix kw _ 58); [|rewrite Ekw; discriminate|rewrite Ekw; right; apply in_or_app; right; now left|].
    2:{ unfold k_SP. intros [H|H]; [discriminate|]. now apply (join_no_colon items H58). }
    unfold k_SP. cbn [app]. rewrite split_join_items by auto. rewrite map_map.
    clear - Hedge. induction Hedge as [|b u Hb HF IH]; [reflexivity|]. cbn [map]. rewrite strip_space_name by auto. now rewrite IH. Qed.
