(* CFConfig.is_legal_set_firing translated from /repo's current source (TranslatedImpCFConfigMoves.v): the empty set is not legal; a member that is q or not a vertex
   raises; otherwise a COPY of the configuration (the translated constructor on equal dictionaries) is fired and the answer says whether every member of the set
   is still out of debt - exactly is_legal_set_firing of Model/Config.v (C10_legal, C10_legal_refusals). The configuration itself is only read. *)
From Coq Require Import ZArith List Lia Bool Arith Permutation.
Import ListNotations.
From CF Require Import ZSum ListAux Defs Core Config Machines GraphLink MachinesLink PyDict ImpRep TranslatedImpCFDivisor ImpLinkDiv ImpLinkEq TranslatedImpCFConfigMoves ImpLinkConfigMoves.
Open Scope Z_scope.

Section LEGAL.
Variable g : graph.
Hypothesis Hwf : wfb g = true.
Variable gg : dictD.
Hypothesis Hgg : rep_graph gg g.
Variable vs : list nat.
Hypothesis Hvs : rep_vset (nv g) vs.
Hypothesis Hnd : NoDup vs.
Variables (q : nat) (vt : list nat).
Hypothesis Hvt : rep_vtilde (nv g) q vt.
Hypothesis Hq : (q < nv g)%nat.
Variables (dd : dictZ) (D : list Z).
Hypothesis HD : rep_div (nv g) dd D.
Variable so : list nat -> list nat.
Hypothesis Hso : forall l, Permutation (so l) l.
Local Notation n := (nv g).

Definition lval_body (acc_ : pyres unit unit) (name : nat) : pyres unit unit :=
  match acc_ with PyExn e_ => PyExn e_ | PyOk tt => let v := name in
  if Nat.eqb v q then PyExn tt else if negb (s_mem v vt) then PyExn tt else PyOk tt end.
Lemma lval_exn L e : fold_left lval_body L (PyExn e) = PyExn e.
Proof. induction L as [|x L IH]; [reflexivity|exact IH]. Qed.
Lemma lval_loop : forall L, fold_left lval_body L (PyOk tt) = if forallb (fun v => inb g v && negb (Nat.eqb v q)) L then PyOk tt else PyExn tt.
Proof. induction L as [|x L IH]; [reflexivity|]. cbn [fold_left forallb]. unfold lval_body at 2. cbn zeta. rewrite (Hvt x). unfold inb.
  destruct (Nat.eqb_spec x q) as [Q|Q]; [rewrite andb_false_r; cbn [andb]; apply lval_exn|]. cbn [negb]. rewrite andb_true_r.
  destruct (Nat.ltb x n); cbn [negb andb]; [exact IH|apply lval_exn]. Qed.

Definition ltest_body (qc : nat) (vtc : list nat) (ddc : dictZ) (v_name_in_S : nat) : pyres unit (option bool * unit) :=
  match CFConfigMoves_get_degree_at qc vtc ddc v_name_in_S with PyExn _ => PyExn tt | PyOk t1_ => if (t1_ <? 0) then PyOk (Some (false), tt) else PyOk (None, tt) end.
Lemma legal_unfold U : CFConfigMoves_is_legal_set_firing q vt vs dd gg so U =
  if (match U with [] => true | _ :: _ => false end) then PyOk false else
  match fold_left lval_body (so U) (PyOk tt) with PyExn e_ => PyExn e_ | PyOk tt =>
  match CFConfigMoves___init__ vs dd q with PyExn _ => PyExn tt | PyOk (qc, vtc) =>
  match CFConfigMoves_set_fire qc vtc gg dd so U with PyExn _ => PyExn tt | PyOk ddc =>
  match fold_left (retstep (ltest_body qc vtc ddc)) (so U) (PyOk (None, tt)) with PyExn e_ => PyExn e_ | PyOk (Some r_, tt) => PyOk r_ | PyOk (None, tt) => PyOk true end end end end.
Proof. reflexivity. Qed.

Theorem is_legal_set_firing_refines U :
  CFConfigMoves_is_legal_set_firing q vt vs dd gg so U = match is_legal_set_firing g q D U with Err => PyExn tt | Ok b => PyOk b end.
Proof. rewrite legal_unfold. unfold is_legal_set_firing. destruct U as [|u0 U0]; [reflexivity|]. set (U := u0 :: U0).
  rewrite lval_loop, (forallb_perm _ _ _ (Hso U)). destruct (forallb (fun v => inb g v && negb (Nat.eqb v q)) U) eqn:Ev; [|reflexivity].
  pose proof (config_ctor_refines n vs dd q Hvs Hnd) as Hc. destruct (CFConfigMoves___init__ vs dd q) as [[qc vtc]|e].
  2:{ apply Nat.ltb_lt in Hq. congruence. }
  destruct Hc as (_ & -> & Hvtc & Hndc).
  pose proof (config_set_fire_refines g Hwf gg Hgg q vtc Hvtc {| degs := D; total := 0 |} dd so U HD Hso) as Hf.
  assert (EU : forallb (inb g) U = true).
  { apply forallb_forall. intros x Hx. rewrite forallb_forall in Ev. specialize (Ev x Hx). apply andb_true_iff in Ev. apply Ev. }
  unfold cstep, dstep in Hf. rewrite Ev, EU in Hf. cbn [degs total] in Hf.
  destruct (CFConfigMoves_set_fire q vtc gg dd so U) as [ddc|st]; [|destruct Hf as [Hf _]; discriminate].
  destruct Hf as (s' & Es & Hrep & _). inversion Es; subst s'. cbn [degs] in Hrep.
  assert (Hbody : forall v, In v (so U) -> ltest_body q vtc ddc v = if nthZ (fire_set g D U) v <? 0 then PyOk (Some false, tt) else PyOk (None, tt)).
  { intros v Hv. apply (Permutation_in _ (Hso U)) in Hv. rewrite forallb_forall in Ev. specialize (Ev v Hv). unfold ltest_body.
    rewrite (config_get_degree_at_refines g q vtc Hvtc ddc (fire_set g D U) v Hrep), Ev. reflexivity. }
  unfold legal_b. fold U.
  destruct (retloop (ltest_body q vtc ddc) (fun v => 0 <= nthZ (fire_set g D U) v) (so U)) as [[Eg HQ]|[Eg (v & Hv & nQ)]].
  - intros v Hv. rewrite (Hbody v Hv). destruct (Z.ltb_spec (nthZ (fire_set g D U) v) 0); [right|left]; split; auto; lia.
  - rewrite Eg. f_equal. symmetry. apply forallb_forall. intros v Hv. apply Z.leb_le. apply HQ. apply (Permutation_in _ (Permutation_sym (Hso U))). exact Hv.
  - rewrite Eg. f_equal. symmetry. destruct (forallb (fun v0 => 0 <=? nthZ (fire_set g D U) v0) U) eqn:Ef; [|reflexivity]. exfalso. apply nQ.
    rewrite forallb_forall in Ef. apply Z.leb_le. apply Ef. apply (Permutation_in _ (Hso U)). exact Hv. Qed.
End LEGAL.
