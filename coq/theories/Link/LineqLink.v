(* linear_equivalence of the model decides membership of D1 - D2 in the Laplacian lattice. *)
From Coq Require Import ZArith List Lia Bool Arith.
Import ListNotations.
From CF Require Import ZSum ListAux Defs LinEquiv Reduced Burn Core GraphLink DharLink EwdLink QredLink.
Open Scope Z_scope.

Section WF.
Variable g : graph.
Hypothesis Hwf : wfb g = true.
Local Notation V := (Vg g).
Local Notation m := (mult g).
Local Notation msym := (mult_sym g Hwf).

Lemma nth_dsub D E v : In v V -> nthZ (dsub (nv g) D E) v = nthZ D v - nthZ E v.
Proof. intros Hv. unfold dsub. apply (nthZ_tab (nv g) (fun v => nthZ D v - nthZ E v)). now apply in_Vg. Qed.
Lemma lequiv_diff_zero D E : lequiv V m (nthZ (dsub (nv g) D E)) (fun _ => 0) <-> lequiv V m (nthZ D) (nthZ E).
Proof. split; intros [s H]; exists s; intros v Hv; specialize (H v Hv); rewrite nth_dsub in * by auto; lia. Qed.
Lemma degD_dsub D E : degD g (dsub (nv g) D E) = degD g D - degD g E.
Proof. unfold degD, deg. rewrite <- zsum_sub. apply zsum_ext. intros v Hv. now apply nth_dsub. Qed.

Theorem lineq_spec fuel D1 g2 D2 b : length D1 = nv g -> length D2 = nv g -> (0 < nv g)%nat ->
  (exists f x, ewd_q f g (argmin (dsub (nv g) D1 D2)) (dsub (nv g) D1 D2) = Done x) ->
  linear_equivalence fuel g D1 g2 D2 = Done b ->
  (b = true <-> graph_eqb g g2 = true /\ lequiv V m (nthZ D1) (nthZ D2)).
Proof. intros L1 L2 Hn Hterm H. unfold linear_equivalence in H.
  destruct (graph_eqb g g2) eqn:Eg; cbn [negb] in H; [|inversion H; subst; split; [discriminate|intros [? _]; discriminate]].
  destruct (Z.eqb_spec (degD g D1) (degD g D2)) as [Ed|Ed]; cbn [negb] in H.
  2:{ inversion H; subst. split; [discriminate|]. intros [_ HE]. exfalso. apply Ed. symmetry. now apply (degD_lequiv g Hwf). }
  destruct (div_eqb (nv g) D1 D2) eqn:Eq.
  - inversion H; subst. split; auto. intros _. split; auto. pose proof (proj1 (div_eqb_spec _ _ _) Eq) as Hq.
    exists (fun _ => 0). intros v Hv. rewrite lap_const. rewrite Hq by now apply in_Vg. lia.
  - unfold is_winnable in H. destruct (ewd fuel g (dsub (nv g) D1 D2) true) as [[[b0 r] o]|] eqn:E; [|discriminate]. inversion H; subst.
    apply (ewd_opt_exact g Hwf) in E; auto; [|apply tab_length].
    rewrite E. rewrite (deg0_winnable_iff V m msym) by (fold (degD g (dsub (nv g) D1 D2)); rewrite degD_dsub; lia).
    rewrite lequiv_diff_zero. tauto. Qed.
End WF.
