(* Invariants of the bookkeeping state machines over arbitrary histories. *)
From Coq Require Import ZArith List Lia Bool Arith Permutation.
Import ListNotations.
From CF Require Import ZSum ListAux Defs LinEquiv Genus Core Machines GraphLink.
Open Scope Z_scope.

(* ---- list update ---- *)
Lemma upd_length {A} (l : list A) i x : length (upd l i x) = length l.
Proof. revert i. induction l as [|y t IH]; intros [|i]; cbn [upd length]; auto. Qed.
Lemma nth_upd {A} (l : list A) i j x d : nth i (upd l j x) d = if Nat.eqb i j && Nat.ltb j (length l) then x else nth i l d.
Proof. revert i j. induction l as [|y t IH]; intros i j.
  - cbn. rewrite andb_false_r. destruct i, j; reflexivity.
  - destruct j as [|j], i as [|i]; cbn [upd nth length]; try reflexivity.
    rewrite IH. cbn [Nat.eqb]. replace (Nat.ltb (S j) (S (length t))) with (Nat.ltb j (length t)); [reflexivity|].
    destruct (Nat.ltb_spec j (length t)), (Nat.ltb_spec (S j) (S (length t))); auto; lia. Qed.
Lemma nthZ_upd (l : list Z) i j x : nthZ (upd l j x) i = if Nat.eqb i j && Nat.ltb j (length l) then x else nthZ l i.
Proof. apply nth_upd. Qed.
Lemma zsum_update (f f' : nat -> Z) l p : NoDup l -> In p l -> (forall x, In x l -> x <> p -> f' x = f x) -> zsum f' l = zsum f l - f p + f' p.
Proof. induction 1 as [|a l Hn Hd IH]; intros Hin He; [destruct Hin|]. cbn [zsum]. destruct (Nat.eq_dec a p) as [->|Hne].
  - rewrite (zsum_ext f' f l); [lia|]. intros x Hx. apply He; [now right|]. intro; subst; contradiction.
  - destruct Hin as [?|Hin]; [congruence|]. rewrite IH; auto. rewrite (He a); auto. lia. now left. intros; apply He; auto. now right. Qed.

(* ---- CFGraph ---- *)
Definition ginv (s : gstate) : Prop :=
  wfb (adj s) = true /\ length (valc s) = gn s /\ (forall v, (v < gn s)%nat -> nthZ (valc s) v = valg (adj s) v) /\
  2 * tot s = zsum (valg (adj s)) (Vg (adj s)).

Lemma mult_upd2 g a b x v w : (a < nv g)%nat -> (b < length (nth a g []))%nat ->
  mult (upd2 g a b x) v w = if Nat.eqb v a && Nat.eqb w b then x else mult g v w.
Proof. intros Ha Hb. unfold mult, upd2. rewrite nth_upd. destruct (Nat.eqb_spec v a) as [->|Hne]; cbn [andb].
  - assert (Hlt : Nat.ltb a (length g) = true) by (apply Nat.ltb_lt; exact Ha). rewrite Hlt. rewrite nthZ_upd.
    destruct (Nat.eqb_spec w b) as [->|]; cbn [andb]; auto. assert (Hlb : Nat.ltb b (length (nth a g [])) = true) by now apply Nat.ltb_lt. now rewrite Hlb.
  - reflexivity. Qed.
Lemma upd2_rows g a b x : nv (upd2 g a b x) = nv g /\ forall v, length (nth v (upd2 g a b x) []) = length (nth v g []).
Proof. unfold upd2, nv. split; [apply upd_length|]. intros v. rewrite nth_upd. destruct (Nat.eqb v a && Nat.ltb a (length g)) eqn:E; auto.
  apply andb_true_iff in E. destruct E as [E _]. apply Nat.eqb_eq in E. subst. apply upd_length. Qed.

Lemma wfb_intro g : (forall v, (v < nv g)%nat -> length (nth v g []) = nv g) ->
  (forall v w, (v < nv g)%nat -> (w < nv g)%nat -> 0 <= mult g v w /\ mult g v w = mult g w v) -> (forall v, (v < nv g)%nat -> mult g v v = 0) -> wfb g = true.
Proof. intros H1 H2 H3. unfold wfb. apply andb_true_iff. split.
  - apply forallb_forall. intros r Hr. apply Nat.eqb_eq. destruct (In_nth g r [] Hr) as [i [Hi <-]]. now apply H1.
  - apply forallb_forall. intros v Hv. apply in_Vg in Hv. apply andb_true_iff. split; [|apply Z.eqb_eq; auto].
    apply forallb_forall. intros w Hw. apply in_Vg in Hw. destruct (H2 v w Hv Hw). apply andb_true_iff. split; [now apply Z.leb_le|now apply Z.eqb_eq]. Qed.

Lemma ginit_inv n : ginv (ginit n).
Proof. unfold ginv, ginit, gn; cbn [adj valc tot].
  assert (Hm : forall v w, mult (tab n (fun _ => tab n (fun _ : nat => 0))) v w = 0).
  { intros v w. unfold mult. destruct (le_lt_dec n v). rewrite nth_overflow by (rewrite tab_length; lia). now destruct w.
    rewrite (nth_tab n (fun _ => tab n (fun _ : nat => 0))) by auto. destruct (le_lt_dec n w); [apply nthZ_tab_out; auto|apply (nthZ_tab n (fun _ => 0)); auto]. }
  assert (Hv : forall v, valg (tab n (fun _ => tab n (fun _ : nat => 0))) v = 0). { intros v. unfold valg, val. rewrite (zsum_ext _ (fun _ => 0)) by (intros; apply Hm). apply zsum_zero. }
  split; [|split; [|split]].
  - apply wfb_intro; unfold nv; rewrite tab_length.
    + intros v Hlt. rewrite (nth_tab n (fun _ => tab n (fun _ : nat => 0))) by auto. apply tab_length.
    + intros. rewrite !Hm. split; [lia|reflexivity].
    + intros. apply Hm.
  - now rewrite !tab_length.
  - rewrite tab_length. intros v Hlt. rewrite Hv. apply (nthZ_tab n (fun _ => 0)). auto.
  - rewrite (zsum_ext _ (fun _ => 0)) by (intros; apply Hv). rewrite zsum_zero. lia. Qed.

Theorem add_edge_inv s a b k s' : ginv s -> add_edge s a b k = Ok s' ->
  ginv s' /\ gn s' = gn s /\ a <> b /\ 0 < k /\ (a < gn s)%nat /\ (b < gn s)%nat /\
  (forall v w, mult (adj s') v w = mult (adj s) v w + (if (Nat.eqb v a && Nat.eqb w b) || (Nat.eqb v b && Nat.eqb w a) then k else 0)).
Proof. intros [Hwf [HL [Hval Htot]]] H. unfold add_edge in H.
  destruct (Nat.eqb_spec a b) as [|Hab]; [discriminate|]. destruct (Z.leb_spec k 0) as [|Hk]; [discriminate|].
  destruct (Nat.ltb_spec a (gn s)) as [Ha|]; [|discriminate]. destruct (Nat.ltb_spec b (gn s)) as [Hb|]; [|discriminate]. cbn [andb negb] in H.
  inversion H; subst s'; clear H. unfold gn in *. set (g := adj s) in *. set (n := length g) in *.
  assert (Hrow : forall v, (v < n)%nat -> length (nth v g []) = n) by (intros; now apply wfb_rows).
  set (g1 := upd2 g a b (mult g a b + k)).
  assert (Hn1 : nv g1 = n) by apply (proj1 (upd2_rows g a b _)).
  assert (Hr1 : forall v, length (nth v g1 []) = length (nth v g [])) by apply (proj2 (upd2_rows g a b _)).
  assert (Hm1 : forall v w, mult g1 v w = if Nat.eqb v a && Nat.eqb w b then mult g a b + k else mult g v w).
  { intros. apply mult_upd2; auto. rewrite Hrow; auto. }
  set (g2 := upd2 g1 b a (mult g b a + k)).
  assert (Hm2 : forall v w, mult g2 v w = mult g v w + (if (Nat.eqb v a && Nat.eqb w b) || (Nat.eqb v b && Nat.eqb w a) then k else 0)).
  { intros v w. unfold g2. rewrite mult_upd2; [|rewrite Hn1; auto|rewrite Hr1, Hrow; auto]. rewrite Hm1.
    destruct (Nat.eqb_spec v a), (Nat.eqb_spec w b), (Nat.eqb_spec v b), (Nat.eqb_spec w a); cbn [andb orb]; subst; try congruence; try lia. }
  assert (Hn2 : nv g2 = n). { unfold g2. rewrite (proj1 (upd2_rows g1 b a _)). exact Hn1. }
  assert (Hwf2 : wfb g2 = true).
  { apply wfb_intro; rewrite Hn2.
    - intros v Hv. unfold g2. rewrite (proj2 (upd2_rows g1 b a _)). rewrite Hr1. auto.
    - intros v w Hv Hw. rewrite !Hm2. destruct (wfb_in g Hwf v w Hv Hw) as [Hnn [Hs _]]. split.
      + destruct ((Nat.eqb v a && Nat.eqb w b) || (Nat.eqb v b && Nat.eqb w a)); lia.
      + rewrite Hs. f_equal. rewrite orb_comm. rewrite (andb_comm (Nat.eqb w a)), (andb_comm (Nat.eqb w b)). reflexivity.
    - intros v Hv. rewrite Hm2. rewrite (mult_diag g Hwf). destruct (Nat.eqb_spec v a), (Nat.eqb_spec v b); subst; cbn; try lia; congruence. }
  assert (Hvalg : forall v, valg g2 v = valg g v + (if Nat.eqb v a || Nat.eqb v b then k else 0)).
  { intros v. unfold valg, val, Vg. rewrite Hn2. fold n. change (seq 0 (nv g)) with (seq 0 n).
    rewrite (zsum_ext (mult g2 v) (fun w => mult g v w + (if (Nat.eqb v a && Nat.eqb w b) || (Nat.eqb v b && Nat.eqb w a) then k else 0))) by (intros; apply Hm2).
    rewrite zsum_add. f_equal.
    destruct (Nat.eqb_spec v a) as [->|Hva]; cbn [andb orb].
    - assert (Nat.eqb a b = false) by now apply Nat.eqb_neq. rewrite H. cbn [andb]. rewrite (zsum_ext _ (fun w => if Nat.eqb w b then k else 0)).
      + apply zsum_indicator; [apply seq_NoDup|apply in_seq0; auto].
      + intros w _. now rewrite orb_false_r.
    - destruct (Nat.eqb_spec v b) as [->|Hvb]; cbn [andb orb].
      + apply zsum_indicator; [apply seq_NoDup|apply in_seq0; auto].
      + apply zsum_zero. }
  split; [|split; [unfold gn; cbn [adj]; exact Hn2|repeat split; auto]].
  unfold ginv, gn; cbn [adj valc tot]. fold g g1 g2. change (length g2) with (nv g2). rewrite Hn2. split; [exact Hwf2|]. split; [|split].
  - rewrite !upd_length. exact HL.
  - intros v Hv. rewrite Hvalg. rewrite !nthZ_upd, !upd_length. rewrite HL.
    assert (La : Nat.ltb a n = true) by now apply Nat.ltb_lt. assert (Lb : Nat.ltb b n = true) by now apply Nat.ltb_lt. rewrite La, Lb, !andb_true_r.
    assert (Hba : Nat.eqb b a = false) by (apply Nat.eqb_neq; auto). rewrite Hba. cbn [andb].
    pose proof (Hval v Hv) as E1. pose proof (Hval a Ha) as E2. pose proof (Hval b Hb) as E3. fold g in E1, E2, E3.
    destruct (Nat.eqb_spec v a), (Nat.eqb_spec v b); cbn [orb]; subst; try congruence; try lia.
  - unfold Vg. rewrite Hn2. change (seq 0 (nv g)) with (seq 0 n) in Htot. fold n.
    rewrite (zsum_ext (valg g2) (fun v => valg g v + (if Nat.eqb v a || Nat.eqb v b then k else 0))) by (intros; apply Hvalg).
    rewrite zsum_add.
    assert (zsum (fun v => if Nat.eqb v a || Nat.eqb v b then k else 0) (seq 0 n) = 2 * k); [|unfold Vg, nv in Htot; fold g in Htot; fold n in Htot; lia].
    rewrite (zsum_ext _ (fun v => (if Nat.eqb v a then k else 0) + (if Nat.eqb v b then k else 0))).
    + rewrite zsum_add, !zsum_indicator; try apply seq_NoDup; try (apply in_seq0; auto). lia.
    + intros v _. destruct (Nat.eqb_spec v a), (Nat.eqb_spec v b); subst; cbn; try lia; congruence. Qed.

(* every state reachable by any history of add_edge / add_edges calls (valid or refused) satisfies the invariant *)
Inductive gop := GAdd (a b : nat) (k : Z) | GAddMany (es : list (nat * nat * Z)).
Definition gapply (s : gstate) (o : gop) : gstate :=
  match o with GAdd a b k => match add_edge s a b k with Ok s' => s' | Err => s end | GAddMany es => fst (add_edges s es) end.
Lemma add_edges_inv es : forall s, ginv s -> ginv (fst (add_edges s es)) /\ gn (fst (add_edges s es)) = gn s.
Proof. induction es as [|[[a b] k] t IH]; intros s Hs; cbn [add_edges]; [split; auto|].
  destruct (add_edge s a b k) as [s'|] eqn:E; [|split; auto]. apply add_edge_inv in E; auto. destruct E as [E1 [E2 _]].
  destruct (IH s' E1) as [H1 H2]. split; auto. congruence. Qed.
Theorem graph_history_inv n ops : ginv (fold_left gapply ops (ginit n)) /\ gn (fold_left gapply ops (ginit n)) = n.
Proof. assert (H : forall s, ginv s -> ginv (fold_left gapply ops s) /\ gn (fold_left gapply ops s) = gn s).
  { induction ops as [|o t IH]; intros s Hs; [split; auto|]. cbn [fold_left].
    assert (Ho : ginv (gapply s o) /\ gn (gapply s o) = gn s).
    { destruct o as [a b k|es]; cbn [gapply].
      - destruct (add_edge s a b k) eqn:E; [|split; auto]. apply add_edge_inv in E; auto. tauto.
      - now apply add_edges_inv. }
    destruct Ho as [Ho1 Ho2]. destruct (IH _ Ho1). split; auto. congruence. }
  destruct (H (ginit n) (ginit_inv n)) as [H1 H2]. split; auto. rewrite H2. unfold gn, ginit; cbn [adj]. apply tab_length. Qed.
(* what the invariant says about the reported numbers *)
Theorem ginv_meaning s : ginv s -> let g := adj s in
  (forall v w, mult g v w = mult g w v) /\ (forall v, (v < gn s)%nat -> nthZ (valc s) v = zsum (mult g v) (Vg g)) /\
  2 * tot s = zsum (fun v => nthZ (valc s) v) (Vg g) /\ tot s = nedges_g g /\ g_genus s = genus_g g.
Proof. intros [Hwf [HL [Hval Htot]]] g. split; [apply (mult_sym g Hwf)|]. split; [exact Hval|].
  assert (Ht : tot s = nedges_g g).
  { pose proof (twice_edges_nedges (Vg g) (mult g) (mult_sym g Hwf) (mult_diag g Hwf)) as H. unfold twice_edges in H. unfold nedges_g. fold g in Htot. unfold valg, val in Htot. lia. }
  split; [|split; [exact Ht|]].
  - rewrite Htot. apply zsum_ext. intros v Hv. symmetry. apply Hval. now apply in_Vg.
  - unfold g_genus, genus_g, genus. rewrite Ht. unfold nedges_g, Vg, gn, nv. now rewrite seq_length. Qed.
(* batch insertion = edge-by-edge insertion stopping at the first refused edge *)
Theorem add_edges_prefix s es : exists pre rest, es = pre ++ rest /\ fst (add_edges s es) = fold_left (fun s e => gapply s (GAdd (fst (fst e)) (snd (fst e)) (snd e))) pre s /\
  (snd (add_edges s es) = true -> rest = []) /\ (snd (add_edges s es) = false -> exists e t, rest = e :: t /\ add_edge (fst (add_edges s es)) (fst (fst e)) (snd (fst e)) (snd e) = Err).
Proof. revert s. induction es as [|[[a b] k] t IH]; intros s; cbn [add_edges].
  - exists [], []. repeat split; auto. discriminate.
  - destruct (add_edge s a b k) as [s'|] eqn:E.
    + destruct (IH s') as [pre [rest [H1 [H2 [H3 H4]]]]]. exists (((a, b), k) :: pre), rest. split; [cbn; congruence|]. split; [|split; auto].
      cbn [fold_left gapply fst snd]. rewrite E. exact H2.
    + exists [], (((a, b), k) :: t). cbn [fst snd fold_left app]. repeat split; auto; [discriminate|]. intros _. exists ((a, b), k), t. split; auto. Qed.
(* removing a vertex: the induced multigraph, with consistent bookkeeping; the original state is a value and is not touched *)
Theorem remove_vertex_spec s v s' : ginv s -> remove_vertex s v = Ok s' ->
  gn s' = (gn s - 1)%nat /\ (forall a b, (a < gn s - 1)%nat -> (b < gn s - 1)%nat -> mult (adj s') a b = mult (adj s) (skip v a) (skip v b)) /\
  (forall a, (a < gn s')%nat -> nthZ (valc s') a = valg (adj s') a) /\ tot s' = nedges_g (adj s').
Proof. intros _ H. unfold remove_vertex in H. destruct (Nat.ltb v (gn s)); [|discriminate]. inversion H; subst s'; clear H.
  unfold graph_of_adj, gn; cbn [adj valc tot]. set (g := adj s). set (h := remove_vertex_adj g v).
  assert (Hn : length h = (length g - 1)%nat) by apply tab_length. repeat split; auto.
  - intros a b Ha Hb. unfold h, remove_vertex_adj, mult, nv. rewrite (nth_tab (length g - 1) (fun a => tab (length g - 1) (fun b => mult g (skip v a) (skip v b)))) by auto.
    rewrite (nthZ_tab (length g - 1) (fun b => mult g (skip v a) (skip v b))) by auto. reflexivity.
  - intros a Ha. apply (nthZ_tab (nv h) (fun v => valg h v)). exact Ha. Qed.
