(* Partial correctness of debt concentration, the burn and the EWD loop of the model (every fuel on which they return). *)
From Coq Require Import ZArith List Lia Bool Arith.
Import ListNotations.
From CF Require Import ZSum ListAux Defs LinEquiv Reduced Burn Core GraphLink.
Open Scope Z_scope.

Section WF.
Variable g : graph.
Hypothesis Hwf : wfb g = true.
Local Notation V := (Vg g).
Local Notation m := (mult g).
Local Notation msym := (mult_sym g Hwf).
Local Notation mnn := (mult_nonneg g Hwf).

(* D' is obtained from D by borrowing moves at vertices other than q: D' = D - L s with s <= 0, s q = 0 *)
Definition conc_rel (q : nat) (D D' : div) : Prop :=
  exists s : script, (forall v, s v <= 0) /\ s q = 0 /\ (forall v, In v V -> nthZ D' v = nthZ D v - lap V m s v).
Lemma conc_rel_refl q D : conc_rel q D D.
Proof. exists (fun _ => 0). repeat split; try lia. intros v _. rewrite lap_const. lia. Qed.
Lemma conc_rel_trans q D E F : conc_rel q D E -> conc_rel q E F -> conc_rel q D F.
Proof. intros [s [H1 [H2 H3]]] [t [H4 [H5 H6]]]. exists (fun x => s x + t x). repeat split.
  - intros v. specialize (H1 v). specialize (H4 v). lia.
  - lia.
  - intros v Hv. rewrite lap_add, (H6 v Hv), (H3 v Hv). lia. Qed.
Lemma conc_rel_borrow q D v : In v V -> v <> q -> conc_rel q D (borrow g D v).
Proof. intros Hv Hne. exists (fun x => - unit_at v x). repeat split.
  - intros x. unfold unit_at. destruct (Nat.eqb x v); lia.
  - unfold unit_at. destruct (Nat.eqb_spec q v); [congruence|lia].
  - intros w Hw. rewrite lap_neg, (nth_borrow g Hwf) by auto. lia. Qed.
Lemma conc_rel_lequiv q D D' : conc_rel q D D' -> lequiv V m (nthZ D) (nthZ D').
Proof. intros [s [_ [_ H]]]. exists s. exact H. Qed.

Lemma borrow_while_post fuel q D v D' : In v V -> v <> q -> length D = nv g ->
  borrow_while fuel g D v = Done D' -> conc_rel q D D' /\ length D' = nv g /\ 0 <= nthZ D' v.
Proof. revert D. induction fuel as [|f IH]; intros D Hv Hne HL H; cbn in H; [discriminate|].
  destruct (Z.ltb_spec (nthZ D v) 0).
  - apply IH in H; auto; [|apply len_borrow]. destruct H as [H1 [H2 H3]]. repeat split; auto.
    apply (conc_rel_trans q D (borrow g D v) D'); [apply conc_rel_borrow; auto|exact H1].
  - inversion H; subst. repeat split; auto. apply conc_rel_refl. Qed.
Lemma pass_post fuel q vs D D' : (forall v, In v vs -> In v V) -> length D = nv g ->
  pass fuel g q vs D = Done D' -> conc_rel q D D' /\ length D' = nv g.
Proof. revert D. induction vs as [|v t IH]; intros D Hvs HL H; cbn in H.
  - inversion H; subst. split; auto. apply conc_rel_refl.
  - destruct (Nat.eqb_spec v q) as [->|Hne].
    + apply IH; auto. intros; apply Hvs; now right.
    + destruct (borrow_while fuel g D v) as [D1|] eqn:E; [|discriminate].
      apply (borrow_while_post _ q) in E; auto; [|apply Hvs; now left]. destruct E as [E1 [E2 _]].
      apply IH in H; auto; [|intros; apply Hvs; now right]. destruct H as [H1 H2]. split; auto.
      eapply conc_rel_trans; eauto. Qed.
Lemma nonneg_off_spec q D : nonneg_off g q D = true <-> (forall v, In v V -> v <> q -> 0 <= nthZ D v).
Proof. unfold nonneg_off. rewrite forallb_forall. split.
  - intros H v Hv Hne. specialize (H v Hv). apply orb_true_iff in H. destruct H as [H|H]; [apply Nat.eqb_eq in H; congruence|now apply Z.leb_le].
  - intros H v Hv. destruct (Nat.eqb_spec v q); auto. cbn. apply Z.leb_le. auto. Qed.
Theorem concentrate_post fuel q ord D D' : (forall v, In v ord -> In v V) -> length D = nv g ->
  concentrate fuel g q ord D = Done D' ->
  conc_rel q D D' /\ length D' = nv g /\ (forall v, In v V -> v <> q -> 0 <= nthZ D' v).
Proof. revert D. induction fuel as [|f IH]; intros D Hord HL H; [discriminate|]. cbn [concentrate] in H.
  destruct (nonneg_off g q D) eqn:E.
  - inversion H; subst. repeat split; auto. apply conc_rel_refl. now apply nonneg_off_spec.
  - destruct (pass (S f) g q ord D) as [D1|] eqn:E1; [|discriminate].
    apply pass_post in E1; auto. destruct E1 as [E1 E2]. apply IH in H; auto. destruct H as [H1 [H2 H3]].
    repeat split; auto. eapply conc_rel_trans; eauto. Qed.

(* ---- the burn on a concrete divisor ---- *)
Lemma burn_reduced q D : In q V -> (forall v, In v V -> v <> q -> 0 <= nthZ D v) ->
  (unburnt_list g q D = [] <-> reduced V m q (nthZ D)).
Proof. intros Hq Hnn. unfold unburnt_list. apply burn_reduced_iff; [apply mnn | exact Hq | exact Hnn]. Qed.
Lemma reduced_b_spec q D : In q V -> (reduced_b g q D = true <-> reduced V m q (nthZ D)).
Proof. intros Hq. unfold reduced_b. split.
  - intros H. apply andb_true_iff in H. destruct H as [H1 H2]. rewrite nonneg_off_spec in H1.
    apply burn_reduced; auto. destruct (unburnt_list g q D); [reflexivity|discriminate].
  - intros H. pose proof H as [Hnn _]. apply andb_true_iff. split; [now apply nonneg_off_spec|].
    apply burn_reduced in H; auto. now rewrite H. Qed.

(* ---- the EWD loop ---- *)
Theorem reduce_loop_post fuel q ord D R B : In q V -> (forall v, In v ord -> In v V) -> length D = nv g ->
  reduce_loop fuel g q ord D = Done (R, B) ->
  lequiv V m (nthZ D) (nthZ R) /\ reduced V m q (nthZ R) /\ length R = nv g /\ B = burn_list g q R /\ unburnt_list g q R = [].
Proof. intros Hq Hord. revert D. induction fuel as [|f IH]; intros D HL H; [discriminate|]. cbn [reduce_loop] in H.
  destruct (concentrate (S f) g q ord D) as [D1|] eqn:E; [|discriminate].
  apply concentrate_post in E; auto. destruct E as [E1 [E2 E3]]. apply conc_rel_lequiv in E1.
  destruct (unburnt_list g q D1) as [|u U] eqn:EU.
  - inversion H; subst. split; [exact E1|]. split; [apply burn_reduced; auto|]. auto.
  - apply IH in H; [|apply len_fire_set]. destruct H as [H1 H2]. split; auto.
    eapply lequiv_trans; [exact E1|]. eapply lequiv_trans; [apply lequiv_fire_set|exact H1]. Qed.

Theorem ewd_q_sound fuel q D b R B : In q V -> length D = nv g -> ewd_q fuel g q D = Done (b, R, B) ->
  lequiv V m (nthZ D) (nthZ R) /\ reduced V m q (nthZ R) /\ length R = nv g /\ b = (0 <=? nthZ R q) /\
  (b = true <-> winnable V m (nthZ D)).
Proof. intros Hq HL H. unfold ewd_q in H. destruct (reduce_loop fuel g q (default_ord g q) D) as [[R0 B0]|] eqn:E; [|discriminate].
  inversion H; subst. apply reduce_loop_post in E; auto.
  2:{ intros v Hv. unfold default_ord in Hv. apply filter_In in Hv. destruct Hv as [Hv _]. now apply in_rev in Hv. }
  destruct E as [E1 [E2 [E3 _]]]. split; [exact E1|]. split; [exact E2|]. split; [exact E3|]. split; [reflexivity|]. split.
  - intros Hb. apply Z.leb_le in Hb. apply (winnable_lequiv V m _ _ E1). apply (reduced_winnable_iff V m mnn q); auto.
  - intros Hw. apply Z.leb_le. apply (reduced_winnable_iff V m mnn q (nthZ R)); auto.
    apply (winnable_lequiv_iff V m _ _ E1). exact Hw. Qed.
End WF.
