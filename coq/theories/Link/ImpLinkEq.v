(* CFDivisor.__eq__ translated from /repo's current source (TranslatedImpCFDivisor.v): the right operand may be anything (None = not a CFDivisor);
   for two divisors the answer is True exactly when the graphs have the same vertices and multiplicities and the chips agree - in whatever order the
   vertex set is iterated, and no KeyError can escape. *)
From Coq Require Import ZArith List Lia Bool Arith Permutation.
Import ListNotations.
From CF Require Import ZSum ListAux Defs Core Machines GraphLink PyDict ImpRep TranslatedImpCFDivisor.
Open Scope Z_scope.

Definition retstep {A} (body : A -> pyres unit (option bool * unit)) (acc_ : pyres unit (option bool * unit)) (x : A) : pyres unit (option bool * unit) :=
  match acc_ with PyExn e_ => PyExn e_ | PyOk (Some r_, tt) => PyOk (Some r_, tt) | PyOk (None, tt) => body x end.
Lemma retloop_done {A} (body : A -> pyres unit (option bool * unit)) L r : fold_left (retstep body) L (PyOk (Some r, tt)) = PyOk (Some r, tt).
Proof. induction L as [|x L IH]; [reflexivity|exact IH]. Qed.
Lemma retloop {A} (body : A -> pyres unit (option bool * unit)) (P : A -> Prop) : forall L,
  (forall x, In x L -> (body x = PyOk (None, tt) /\ P x) \/ (body x = PyOk (Some false, tt) /\ ~ P x)) ->
  (fold_left (retstep body) L (PyOk (None, tt)) = PyOk (None, tt) /\ forall x, In x L -> P x) \/
  (fold_left (retstep body) L (PyOk (None, tt)) = PyOk (Some false, tt) /\ exists x, In x L /\ ~ P x).
Proof. induction L as [|a L IH]; intros H; [left; split; [reflexivity|intros x []]|]. cbn [fold_left]. change (retstep body (PyOk (None, tt)) a) with (body a).
  destruct (H a (or_introl eq_refl)) as [[E Pa]|[E nPa]]; rewrite E.
  - destruct (IH (fun x Hx => H x (or_intror Hx))) as [[E2 HP]|[E2 (x & Hx & nP)]].
    + left. split; [exact E2|]. intros x [<-|Hx]; [exact Pa|apply HP; exact Hx].
    + right. split; [exact E2|]. exists x. split; [now right|exact nP].
  - right. split; [apply retloop_done|]. exists a. split; [now left|exact nPa]. Qed.

Lemma set_eqb_iff a b : set_eqb a b = true <-> forall w, s_mem w a = s_mem w b.
Proof. unfold set_eqb. rewrite andb_true_iff, !forallb_forall. split.
  - intros [H1 H2] w. apply Bool.eq_true_iff_eq. rewrite !s_mem_In. split; intros Hw; apply s_mem_In; [apply H1|apply H2]; exact Hw.
  - intros H. split; intros x Hx; apply s_mem_In in Hx; [rewrite <- H|rewrite H]; exact Hx. Qed.
Lemma set_eqb_ltb a b n1 n2 : (forall v, s_mem v a = Nat.ltb v n1) -> (forall v, s_mem v b = Nat.ltb v n2) -> set_eqb a b = Nat.eqb n1 n2.
Proof. intros Ha Hb. destruct (set_eqb a b) eqn:E.
  - symmetry. apply Nat.eqb_eq. pose proof (proj1 (set_eqb_iff a b) E) as H. destruct (Nat.lt_total n1 n2) as [L|[L|L]]; [|exact L|]; exfalso.
    + specialize (H n1). rewrite Ha, Hb, Nat.ltb_irrefl in H. apply Nat.ltb_lt in L. congruence.
    + specialize (H n2). rewrite Ha, Hb, Nat.ltb_irrefl in H. apply Nat.ltb_lt in L. congruence.
  - symmetry. apply Nat.eqb_neq. intros Q. subst n2. assert (set_eqb a b = true) by (apply set_eqb_iff; intros w; rewrite Ha, Hb; reflexivity). congruence. Qed.
Lemma rep_div_smem n dd D v : rep_div n dd D -> s_mem v (d_keys dd) = Nat.ltb v n.
Proof. intros (_ & _ & Hf). apply Bool.eq_true_iff_eq. rewrite s_mem_In, <- (d_find_in_keys v dd). unfold d_mem. rewrite (Hf v). destruct (Nat.ltb v n); cbn; split; congruence. Qed.
Lemma rep_row_smem g v row w : rep_row g v row -> s_mem w (d_keys row) = (0 <? mult g v w).
Proof. intros (_ & Hf). apply Bool.eq_true_iff_eq. rewrite s_mem_In, <- (d_find_in_keys w row). unfold d_mem. rewrite (Hf w). destruct (0 <? mult g v w); cbn; split; congruence. Qed.

Section EQ.
Variables g1 g2 : graph.
Hypothesis Hwf1 : wfb g1 = true.
Hypothesis Hwf2 : wfb g2 = true.
Variables gg1 gg2 : dictD.
Hypothesis Hgg1 : rep_graph gg1 g1.
Hypothesis Hgg2 : rep_graph gg2 g2.
Variables vs1 vs2 : list nat.
Hypothesis Hvs1 : rep_vset (nv g1) vs1.
Hypothesis Hvs2 : rep_vset (nv g2) vs2.
Variables (dd1 dd2 : dictZ) (D E : list Z).
Hypothesis HD : rep_div (nv g1) dd1 D.
Hypothesis HE : rep_div (nv g2) dd2 E.
Variable so : list nat -> list nat.
Hypothesis Hso : forall l, Permutation (so l) l.

Definition eq_spec : Prop := nv g1 = nv g2 /\ (forall v, (v < nv g1)%nat -> nthZ D v = nthZ E v) /\ (forall v w, (v < nv g1)%nat -> (w < nv g1)%nat -> mult g1 v w = mult g2 v w).

Definition eq_body1 (kv_ : nat * Z) : pyres unit (option bool * unit) := let '(vertex, degree) := kv_ in
  match d_find vertex dd2 with None => PyExn tt | Some t1_ => if (negb (t1_ =? degree)) then PyOk (Some (false), tt) else PyOk (None, tt) end.
Definition eq_body3 (v : nat) (kv_ : nat * Z) : pyres unit (option bool * unit) := let '(neighbor, weight) := kv_ in
  match d_find v gg2 with None => PyExn tt | Some t5_ =>
  match d_find neighbor t5_ with None => PyExn tt | Some t6_ => if (negb (t6_ =? weight)) then PyOk (Some (false), tt) else PyOk (None, tt) end end.
Definition eq_body2 (v : nat) : pyres unit (option bool * unit) :=
  if (negb (d_mem v gg2)) then PyOk (Some (false), tt) else
  match d_find v gg1 with None => PyExn tt | Some t2_ =>
  match d_find v gg2 with None => PyExn tt | Some t3_ =>
  if (negb (set_eqb (d_keys t2_) (d_keys t3_))) then PyOk (Some (false), tt) else
  match d_find v gg1 with None => PyExn tt | Some t4_ =>
  match fold_left (retstep (eq_body3 v)) t4_ (PyOk (None, tt)) with PyExn e_ => PyExn e_ | PyOk (Some r_, tt) => PyOk (Some r_, tt) | PyOk (None, tt) => PyOk (None, tt) end end end end.
Lemma eq_unfold : CFDivisor___eq__ dd1 vs1 gg1 so (Some (vs2, gg2, dd2)) =
  if (negb (set_eqb (d_keys dd1) (d_keys dd2))) then PyOk false else
  match fold_left (retstep eq_body1) dd1 (PyOk (None, tt)) with PyExn e_ => PyExn e_ | PyOk (Some r_, tt) => PyOk r_ | PyOk (None, tt) =>
  if (negb (set_eqb vs1 vs2)) then PyOk false else
  match fold_left (retstep eq_body2) (so vs1) (PyOk (None, tt)) with PyExn e_ => PyExn e_ | PyOk (Some r_, tt) => PyOk r_ | PyOk (None, tt) => PyOk true end end.
Proof. reflexivity. Qed.

Lemma eq_body2_spec v : (v < nv g1)%nat -> nv g1 = nv g2 ->
  (eq_body2 v = PyOk (None, tt) /\ (forall w, (w < nv g1)%nat -> mult g1 v w = mult g2 v w)) \/
  (eq_body2 v = PyOk (Some false, tt) /\ ~ (forall w, (w < nv g1)%nat -> mult g1 v w = mult g2 v w)).
Proof. intros Hv Hn. unfold eq_body2. rewrite (rep_graph_mem gg2 g2 v Hgg2), <- Hn. assert (Lv : Nat.ltb v (nv g1) = true) by (apply Nat.ltb_lt; exact Hv). rewrite Lv. cbn [negb].
  pose proof (Hgg1 v) as H1. rewrite Lv in H1. destruct H1 as (row1 & E1 & R1). pose proof (Hgg2 v) as H2. rewrite <- Hn, Lv in H2. destruct H2 as (row2 & E2 & R2).
  rewrite E1, E2. pose proof R1 as (N1 & F1). pose proof R2 as (N2 & F2).
  destruct (set_eqb (d_keys row1) (d_keys row2)) eqn:Ek; cbn [negb].
  - pose proof (proj1 (set_eqb_iff _ _) Ek) as Hk.
    assert (Hsupp : forall w, (0 <? mult g1 v w) = (0 <? mult g2 v w)) by (intros w; rewrite <- (rep_row_smem g1 v row1 w R1), <- (rep_row_smem g2 v row2 w R2); apply Hk).
    destruct (retloop (eq_body3 v) (fun kv => mult g2 v (fst kv) = snd kv) row1) as [[Ef HP]|[Ef (kv & Hin & nP)]].
    + intros [w x] Hin. cbn [fst snd]. unfold eq_body3. rewrite E2. pose proof (d_in_find w x row1 N1 Hin) as Ew. rewrite (F1 w) in Ew.
      destruct (0 <? mult g1 v w) eqn:Ep; [|discriminate]. inversion Ew; subst x. rewrite (F2 w), <- Hsupp, Ep.
      destruct (Z.eqb_spec (mult g2 v w) (mult g1 v w)) as [Q|Q]; cbn [negb]; [left|right]; split; auto.
    + rewrite Ef. left. split; [reflexivity|]. intros w Hw. destruct (0 <? mult g1 v w) eqn:Ep.
      * assert (Hin : In (w, mult g1 v w) row1) by (apply d_find_some_in; rewrite (F1 w), Ep; reflexivity). specialize (HP _ Hin). cbn [fst snd] in HP. congruence.
      * pose proof (Hsupp w) as Hs. rewrite Ep in Hs. apply Z.ltb_ge in Ep. symmetry in Hs. apply Z.ltb_ge in Hs.
        pose proof (mult_nonneg g1 Hwf1 v w). pose proof (mult_nonneg g2 Hwf2 v w). lia.
    + rewrite Ef. right. split; [reflexivity|]. intros HP. destruct kv as [w x]. cbn [fst snd] in nP. pose proof (d_in_find w x row1 N1 Hin) as Ew. rewrite (F1 w) in Ew.
      destruct (0 <? mult g1 v w) eqn:Ep; [|discriminate]. inversion Ew; subst x. apply Z.ltb_lt in Ep.
      destruct (le_lt_dec (nv g1) w) as [Hw|Hw]; [rewrite (mult_out_r g1 Hwf1 v w Hw) in Ep; lia|]. apply nP. symmetry. apply HP. exact Hw.
  - right. split; [reflexivity|]. intros HP. assert (set_eqb (d_keys row1) (d_keys row2) = true); [|congruence]. apply set_eqb_iff. intros w.
    rewrite (rep_row_smem g1 v row1 w R1), (rep_row_smem g2 v row2 w R2). destruct (le_lt_dec (nv g1) w) as [Hw|Hw]; [|rewrite (HP w Hw); reflexivity].
    rewrite (mult_out_r g1 Hwf1 v w Hw), (mult_out_r g2 Hwf2 v w) by (rewrite <- Hn; exact Hw). reflexivity. Qed.

Theorem eq_refines : exists b, CFDivisor___eq__ dd1 vs1 gg1 so (Some (vs2, gg2, dd2)) = PyOk b /\ (b = true <-> eq_spec).
Proof. rewrite eq_unfold. rewrite (set_eqb_ltb _ _ _ _ (fun v => rep_div_smem _ dd1 D v HD) (fun v => rep_div_smem _ dd2 E v HE)).
  destruct (Nat.eqb_spec (nv g1) (nv g2)) as [Hn|Hn]; cbn [negb]; [|exists false; split; [reflexivity|split; [discriminate|intros (Q & _); contradiction]]].
  pose proof HD as (HL1 & Hk1 & Hf1). pose proof HE as (HL2 & Hk2 & Hf2).
  destruct (retloop eq_body1 (fun kv => nthZ E (fst kv) = snd kv) dd1) as [[Ef HP]|[Ef (kv & Hin & nP)]].
  - intros [k x] Hin. cbn [fst snd]. unfold eq_body1. pose proof (d_in_find k x dd1 Hk1 Hin) as Ek. rewrite (Hf1 k) in Ek.
    destruct (Nat.ltb k (nv g1)) eqn:Lk; [|discriminate]. inversion Ek; subst x. rewrite (Hf2 k), <- Hn, Lk.
    destruct (Z.eqb_spec (nthZ E k) (nthZ D k)) as [Q|Q]; cbn [negb]; [left|right]; split; auto.
  - rewrite Ef.
    assert (HDE : forall v, (v < nv g1)%nat -> nthZ D v = nthZ E v).
    { intros v Hv. assert (Hin : In (v, nthZ D v) dd1). { apply d_find_some_in. rewrite (Hf1 v). apply Nat.ltb_lt in Hv. rewrite Hv. reflexivity. }
      specialize (HP _ Hin). cbn [fst snd] in HP. congruence. }
    rewrite (set_eqb_ltb _ _ _ _ Hvs1 Hvs2). apply Nat.eqb_eq in Hn as Hnb. rewrite Hnb. cbn [negb].
    assert (Hin1 : forall v, In v (so vs1) -> (v < nv g1)%nat).
    { intros v Hv. apply (Permutation_in _ (Hso vs1)) in Hv. apply s_mem_In in Hv. rewrite (Hvs1 v) in Hv. apply Nat.ltb_lt. exact Hv. }
    destruct (retloop eq_body2 (fun v => forall w, (w < nv g1)%nat -> mult g1 v w = mult g2 v w) (so vs1)) as [[Eg HQ]|[Eg (v & Hv & nQ)]].
    + intros v Hv. apply eq_body2_spec; [apply Hin1; exact Hv|exact Hn].
    + rewrite Eg. exists true. split; [reflexivity|]. split; [intros _|reflexivity]. split; [exact Hn|]. split; [exact HDE|].
      intros v w Hv Hw. apply HQ; [|exact Hw]. apply (Permutation_in _ (Permutation_sym (Hso vs1))). apply s_mem_In. rewrite (Hvs1 v). apply Nat.ltb_lt. exact Hv.
    + rewrite Eg. exists false. split; [reflexivity|]. split; [discriminate|]. intros (_ & _ & HS). exfalso. apply nQ. intros w Hw. apply HS; [apply Hin1; exact Hv|exact Hw].
  - rewrite Ef. exists false. split; [reflexivity|]. split; [discriminate|]. intros (_ & HS & _). exfalso. destruct kv as [k x]. cbn [fst snd] in nP.
    pose proof (d_in_find k x dd1 Hk1 Hin) as Ek. rewrite (Hf1 k) in Ek. destruct (Nat.ltb k (nv g1)) eqn:Lk; [|discriminate]. inversion Ek; subst x.
    apply nP. symmetry. apply HS. apply Nat.ltb_lt. exact Lk. Qed.
Theorem eq_not_a_divisor : CFDivisor___eq__ dd1 vs1 gg1 so None = PyOk false.
Proof. reflexivity. Qed.
End EQ.
