(* The constructor CFDivisor.__init__ and the operators __neg__ / __rmul__ built on it, translated from /repo's current source (TranslatedImpCFDivisor.v):
   the constructor accepts exactly the lists of (name, chips) without a repeated name whose names are vertices of the graph; the new object's dictionary
   then represents "the listed chips, 0 elsewhere" and its total is the sum of the listed chips - whatever order the vertex set is iterated in.
   -D and k*D are built by the constructor from the negated / multiplied items and represent dneg / dscale of Model/Core.v. *)
From Coq Require Import ZArith List Lia Bool Arith Permutation.
Import ListNotations.
From CF Require Import ZSum ListAux Defs Core GraphLink PyDict ImpRep TranslatedImpCFDivisor.
Open Scope Z_scope.

Lemma d_mem_app {A} k (d d' : list (nat * A)) : d_mem k (d ++ d') = d_mem k d || d_mem k d'.
Proof. unfold d_mem. induction d as [|[k' y] t IH]; cbn [app d_find]; [destruct (d_find k d'); reflexivity|]. destruct (Nat.eqb k' k); [reflexivity|exact IH]. Qed.
Lemma d_set_absent {A} k (x : A) d : d_mem k d = false -> d_set k x d = d ++ [(k, x)].
Proof. unfold d_mem. induction d as [|[k' y] t IH]; cbn [d_set d_find app]; [reflexivity|]. destruct (Nat.eqb k' k); [discriminate|]. intros H. rewrite IH by exact H. reflexivity. Qed.
Lemma const_fold {A} (c : A) L : NoDup L -> forall d0 : list (nat * A), (forall x, In x L -> d_mem x d0 = false) ->
  fold_left (fun d_ v => d_set v c d_) L d0 = d0 ++ map (fun v => (v, c)) L.
Proof. induction L as [|x L IH]; intros Hnd d0 H0; cbn [fold_left map]; [now rewrite app_nil_r|]. inversion Hnd as [|? ? Hx HL]; subst.
  rewrite d_set_absent by (apply H0; now left). rewrite IH; [rewrite <- app_assoc; reflexivity|exact HL|].
  intros y Hy. rewrite d_mem_app, (H0 y) by (now right). unfold d_mem. cbn [d_find]. destruct (Nat.eqb_spec x y) as [->|Q]; [contradiction|reflexivity]. Qed.
Lemma d_find_const {A} (c : A) v L : d_find v (map (fun w => (w, c)) L) = if s_mem v L then Some c else None.
Proof. unfold s_mem. induction L as [|a L IH]; [reflexivity|]. cbn [map d_find existsb]. rewrite (Nat.eqb_sym v a). destruct (Nat.eqb a v); [reflexivity|exact IH]. Qed.
Lemma d_keys_const {A} (c : A) L : d_keys (map (fun w => (w, c)) L) = L.
Proof. unfold d_keys. rewrite map_map. cbn [fst]. apply map_id. Qed.
Lemma zero_fold L : NoDup L -> forall d0 : dictZ, (forall x, In x L -> d_mem x d0 = false) ->
  fold_left (fun d_ v => d_set v 0 d_) L d0 = d0 ++ map (fun v => (v, 0)) L.
Proof. induction L as [|x L IH]; intros Hnd d0 H0; cbn [fold_left map]; [now rewrite app_nil_r|]. inversion Hnd as [|? ? Hx HL]; subst.
  rewrite d_set_absent by (apply H0; now left). rewrite IH; [rewrite <- app_assoc; reflexivity|exact HL|].
  intros y Hy. rewrite d_mem_app, (H0 y) by (now right). unfold d_mem. cbn [d_find]. destruct (Nat.eqb_spec x y) as [->|Q]; [contradiction|reflexivity]. Qed.
Lemma d_find_zeros v L : d_find v (map (fun w => (w, 0)) L) = if s_mem v L then Some 0 else None.
Proof. unfold s_mem. induction L as [|a L IH]; [reflexivity|]. cbn [map d_find existsb]. rewrite (Nat.eqb_sym v a). destruct (Nat.eqb a v); [reflexivity|exact IH]. Qed.
Lemma d_keys_zeros L : d_keys (map (fun w => (w, 0)) L) = L.
Proof. unfold d_keys. rewrite map_map. cbn [fst]. apply map_id. Qed.
Lemma s_mem_perm v l l' : Permutation l l' -> s_mem v l = s_mem v l'.
Proof. intros H. apply Bool.eq_true_iff_eq. rewrite !s_mem_In. split; apply Permutation_in; [exact H|apply Permutation_sym; exact H]. Qed.
Lemma d_find_absent {A} v (L : list (nat * A)) : ~ In v (map fst L) -> d_find v L = None.
Proof. intros H. destruct (d_find v L) eqn:E; [|reflexivity]. exfalso. apply H. apply (d_find_in_keys v L). unfold d_mem. now rewrite E. Qed.

Definition store_all (L : list (nat * Z)) (sd : list (nat * Z)) : list (nat * Z) := fold_left (fun d kv => d_set (fst kv) (snd kv) d) L sd.
Lemma store_all_find L : NoDup (map fst L) -> forall sd v, d_find v (store_all L sd) = match d_find v L with Some x => Some x | None => d_find v sd end.
Proof. unfold store_all. induction L as [|[k x] L IH]; intros Hnd sd v; [reflexivity|]. cbn [map fst] in Hnd. inversion Hnd as [|? ? Hk HL]; subst.
  cbn [fold_left fst snd d_find]. rewrite IH by exact HL. destruct (Nat.eqb_spec k v) as [->|Q].
  - rewrite (d_find_absent v L Hk). apply d_find_set_same.
  - destruct (d_find v L); [reflexivity|]. apply d_find_set_other. congruence. Qed.
Lemma store_all_nodup L : forall sd, NoDup (d_keys sd) -> NoDup (d_keys (store_all L sd)).
Proof. unfold store_all. induction L as [|[k x] L IH]; intros sd H; [exact H|]. cbn [fold_left]. apply IH, d_keys_set_nodup, H. Qed.

Section CTOR.
Variable g : graph.
Variable gg : dictD.
Hypothesis Hgg : rep_graph gg g.
Variable vs : list nat.
Hypothesis Hvs : rep_vset (nv g) vs.
Hypothesis Hnd : NoDup vs.
Variable so : list nat -> list nat.
Hypothesis Hso : forall l, Permutation (so l) l.
Local Notation n := (nv g).

Definition ctor_body (acc_ : pyres (list (nat * Z) * Z) (list (nat * Z) * Z)) (kv_ : nat * Z) : pyres (list (nat * Z) * Z) (list (nat * Z) * Z) :=
  match acc_ with PyExn e_ => PyExn e_ | PyOk (self_degrees, self_total_degree) => let '(vertex_name, degree) := kv_ in
  let vertex := vertex_name in
  if (negb (d_mem vertex gg)) then PyExn (self_degrees, self_total_degree) else
  let self_degrees := d_set vertex degree self_degrees in
  let self_total_degree := (self_total_degree + degree) in
  PyOk (self_degrees, self_total_degree) end.
Lemma ctor_exn L e : fold_left ctor_body L (PyExn e) = PyExn e.
Proof. induction L as [|x L IH]; [reflexivity|exact IH]. Qed.
Lemma ctor_loop : forall L sd st, forallb (fun kv => Nat.ltb (fst kv) n) L = true ->
  fold_left ctor_body L (PyOk (sd, st)) = PyOk (store_all L sd, st + zsum snd L).
Proof. induction L as [|[k x] L IH]; intros sd st H; [unfold store_all; cbn [fold_left zsum]; rewrite Z.add_0_r; reflexivity|]. cbn [fold_left forallb fst] in *. unfold ctor_body at 2. cbn zeta.
  rewrite (rep_graph_mem gg g k Hgg). apply andb_true_iff in H. destruct H as [H1 H2]. rewrite H1. cbn [negb].
  rewrite IH by exact H2. unfold store_all. cbn [fold_left fst snd zsum]. rewrite Z.add_assoc. reflexivity. Qed.
Lemma ctor_loop_bad L sd st : forallb (fun kv => Nat.ltb (fst kv) n) L = false -> exists e, fold_left ctor_body L (PyOk (sd, st)) = PyExn e.
Proof. revert sd st. induction L as [|[k x] L IH]; intros sd st H; [discriminate|]. cbn [fold_left forallb fst] in *. unfold ctor_body at 2. cbn zeta.
  rewrite (rep_graph_mem gg g k Hgg). destruct (Nat.ltb k n); cbn [negb andb] in *; [apply IH; exact H|]. rewrite ctor_exn. eexists. reflexivity. Qed.

Definition ctor_ok (L : list (nat * Z)) : bool := nodupb (map fst L) && forallb (fun kv => Nat.ltb (fst kv) n) L.
Lemma ctor_unfold L : CFDivisor___init__ so vs gg L =
  let sd := fold_left (fun d_ v => d_set v 0 d_) (so vs) [] in
  if negb (nodupb (map (fun '(name, _) => name) L)) then PyExn (sd, 0) else
  match fold_left ctor_body L (PyOk (sd, 0)) with PyExn e_ => PyExn e_ | PyOk (sd', st') => PyOk (sd', st') end.
Proof. reflexivity. Qed.
Lemma map_fst_pat (L : list (nat * Z)) : map (fun '(name, _) => name) L = map fst L.
Proof. apply map_ext. intros [a b]. reflexivity. Qed.

Theorem ctor_refines L :
  match CFDivisor___init__ so vs gg L with
  | PyOk (dd, t) => ctor_ok L = true /\ rep_div n dd (tab n (fun v => d_get v 0 L)) /\ t = zsum snd L
  | PyExn _ => ctor_ok L = false end.
Proof. rewrite ctor_unfold. cbn zeta. rewrite map_fst_pat. unfold ctor_ok. unfold dictZ in *. destruct (nodupb (map fst L)) eqn:En; cbn [negb andb]; [|reflexivity].
  destruct (forallb (fun kv => Nat.ltb (fst kv) n) L) eqn:Ef.
  - rewrite ctor_loop by exact Ef. split; [reflexivity|]. split; [|lia].
    assert (Hz : fold_left (fun d_ v => d_set v 0 d_) (so vs) ([] : dictZ) = map (fun v => (v, 0)) (so vs)).
    { rewrite zero_fold; [reflexivity| |intros; reflexivity]. apply (Permutation_NoDup (Permutation_sym (Hso vs))). exact Hnd. }
    rewrite Hz. apply rep_div_intro.
    + apply store_all_nodup. rewrite d_keys_zeros. apply (Permutation_NoDup (Permutation_sym (Hso vs))). exact Hnd.
    + intros v. rewrite store_all_find by (apply nodupb_NoDup; exact En). rewrite d_find_zeros, (s_mem_perm v _ _ (Hso vs)), (Hvs v). unfold d_get.
      destruct (d_find v L) as [x|] eqn:Ev; [|destruct (Nat.ltb v n); reflexivity].
      apply d_find_some_in in Ev. rewrite forallb_forall in Ef. specialize (Ef (v, x) Ev). cbn [fst] in Ef. rewrite Ef. reflexivity.
  - destruct (ctor_loop_bad L (fold_left (fun d_ v => d_set v 0 d_) (so vs) []) 0 Ef) as [e He]. rewrite He. reflexivity. Qed.

(* -D and k*D: the items of the dictionary, with f applied to the chips, handed to the constructor *)
Lemma d_find_map_values (f : Z -> Z) (dd : dictZ) v : d_find v (map (fun '(w, deg) => (w, f deg)) dd) = option_map f (d_find v dd).
Proof. induction dd as [|[k x] t IH]; [reflexivity|]. cbn [map d_find]. destruct (Nat.eqb k v); [reflexivity|exact IH]. Qed.
Lemma map_values_keys (f : Z -> Z) (dd : dictZ) : map fst (map (fun '(w, deg) => (w, f deg)) dd) = d_keys dd.
Proof. unfold d_keys. rewrite map_map. apply map_ext. intros [a b]. reflexivity. Qed.
Lemma rep_div_keys_perm dd D : rep_div n dd D -> Permutation (d_keys dd) (seq 0 n).
Proof. intros (_ & Hk & Hf). apply NoDup_Permutation; [exact Hk|apply seq_NoDup|]. intros v. rewrite <- (d_find_in_keys v dd), in_seq. unfold d_mem. rewrite (Hf v).
  destruct (Nat.ltb_spec v n); split; intros; try lia; try reflexivity; discriminate. Qed.
Lemma map_values_refines (f : Z -> Z) dd D : rep_div n dd D ->
  exists dd', CFDivisor___init__ so vs gg (map (fun '(w, deg) => (w, f deg)) dd) = PyOk (dd', zsum (fun v => f (nthZ D v)) (seq 0 n)) /\
              rep_div n dd' (tab n (fun v => f (nthZ D v))).
Proof. intros HR. pose proof HR as (HL & Hk & Hf). set (L := map (fun '(w, deg) => (w, f deg)) dd).
  pose proof (ctor_refines L) as H.
  assert (Hok : ctor_ok L = true).
  { unfold ctor_ok, L. rewrite map_values_keys. apply andb_true_iff. split; [apply nodupb_NoDup; exact Hk|]. apply forallb_forall. intros [k x] Hin. cbn [fst].
    assert (Hin' : In k (d_keys dd)). { rewrite <- (map_values_keys f dd). apply in_map_iff. exists (k, x). split; [reflexivity|exact Hin]. }
    apply d_find_in_keys in Hin'. unfold d_mem in Hin'. rewrite (Hf k) in Hin'. destruct (Nat.ltb k n); [reflexivity|discriminate]. }
  destruct (CFDivisor___init__ so vs gg L) as [[dd' t]|e]; [|congruence]. destruct H as (_ & Hrep & Ht). exists dd'. split.
  - f_equal. f_equal. rewrite Ht. unfold L. rewrite zsum_map.
    rewrite <- (zsum_perm _ _ _ (rep_div_keys_perm dd D HR)). unfold d_keys. rewrite zsum_map. apply zsum_ext. intros [k x] Hin. cbn [fst snd].
    pose proof (d_in_find k x dd Hk Hin) as E. rewrite (Hf k) in E. destruct (Nat.ltb k n); [|discriminate]. inversion E. reflexivity.
  - replace (tab n (fun v => f (nthZ D v))) with (tab n (fun v => d_get v 0 L)); [exact Hrep|]. apply tab_ext. intros v Hv. unfold d_get, L. rewrite d_find_map_values, (Hf v).
    destruct (Nat.ltb_spec v n); [reflexivity|lia]. Qed.

Theorem neg_refines dd D : rep_div n dd D ->
  exists dd', CFDivisor___neg__ dd vs gg so = PyOk (dd', - zsum (nthZ D) (seq 0 n)) /\ rep_div n dd' (dneg n D).
Proof. intros HR. destruct (map_values_refines Z.opp dd D HR) as (dd' & H1 & H2). exists dd'. unfold CFDivisor___neg__. cbn zeta.
  change (map (fun '(v, deg) => (v, - deg)) dd) with (map (fun '(w, deg) => (w, Z.opp deg)) dd). rewrite H1. split; [|exact H2]. f_equal. f_equal. apply zsum_opp. Qed.
Theorem rmul_refines dd D k : rep_div n dd D ->
  exists dd', CFDivisor___rmul__ dd vs gg so k = PyOk (dd', k * zsum (nthZ D) (seq 0 n)) /\ rep_div n dd' (dscale n k D).
Proof. intros HR. destruct (map_values_refines (Z.mul k) dd D HR) as (dd' & H1 & H2). exists dd'. unfold CFDivisor___rmul__. cbn [negb]. cbn zeta.
  change (map (fun '(v, deg) => (v, k * deg)) dd) with (map (fun '(w, deg) => (w, Z.mul k deg)) dd). rewrite H1. split; [|exact H2]. f_equal. f_equal. apply zsum_scale. Qed.

(* D + E and D - E: refused exactly when the two graphs have different vertex sets; otherwise the list [(v, D(v) op E(v)) for v in V] goes to the constructor *)
Lemma set_eqb_rep n2 vs2 : rep_vset n2 vs2 -> set_eqb vs vs2 = Nat.eqb n n2.
Proof. intros H2. unfold set_eqb. destruct (Nat.eqb_spec n n2) as [Q|Q].
  - apply andb_true_iff. split; apply forallb_forall; intros x Hx; apply s_mem_In in Hx; [rewrite (Hvs x) in Hx; rewrite (H2 x), <- Q; exact Hx|rewrite (H2 x), <- Q in Hx; rewrite (Hvs x); exact Hx].
  - destruct (forallb (fun x => s_mem x vs2) vs && forallb (fun x => s_mem x vs) vs2) eqn:E; [|reflexivity]. exfalso. apply andb_true_iff in E. destruct E as [E1 E2].
    rewrite forallb_forall in E1, E2. destruct (Nat.lt_total n n2) as [L|[L|L]]; [|contradiction|].
    + assert (Hin : In n vs2) by (apply s_mem_In; rewrite (H2 n); apply Nat.ltb_lt; exact L). specialize (E2 n Hin). rewrite (Hvs n), Nat.ltb_irrefl in E2. discriminate.
    + assert (Hin : In n2 vs) by (apply s_mem_In; rewrite (Hvs n2); apply Nat.ltb_lt; exact L). specialize (E1 n2 Hin). rewrite (H2 n2), Nat.ltb_irrefl in E1. discriminate. Qed.
Definition bin_body (op : Z -> Z -> Z) (dd dd2 : list (nat * Z)) (acc_ : pyres unit (list (nat * Z))) (v_obj : nat) : pyres unit (list (nat * Z)) :=
  match acc_ with PyExn e_ => PyExn e_ | PyOk new_degrees_list =>
  let deg1 := (d_get v_obj 0 dd) in let deg2 := (d_get v_obj 0 dd2) in
  let new_degrees_list := new_degrees_list ++ [(v_obj, (op deg1 deg2))] in PyOk new_degrees_list end.
Lemma bin_loop op dd dd2 : forall L l0, fold_left (bin_body op dd dd2) L (PyOk l0) = PyOk (l0 ++ map (fun v => (v, op (d_get v 0 dd) (d_get v 0 dd2))) L).
Proof. induction L as [|x L IH]; intros l0; cbn [fold_left map]; [now rewrite app_nil_r|]. unfold bin_body at 2. cbn zeta. rewrite IH, <- app_assoc. reflexivity. Qed.
Lemma d_find_graph_of (f : nat -> Z) v L : d_find v (map (fun w => (w, f w)) L) = if s_mem v L then Some (f v) else None.
Proof. unfold s_mem. induction L as [|a L IH]; [reflexivity|]. cbn [map d_find existsb]. rewrite (Nat.eqb_sym v a). destruct (Nat.eqb_spec a v) as [->|Q]; [reflexivity|exact IH]. Qed.
Lemma vs_perm_seq : Permutation vs (seq 0 n).
Proof. apply NoDup_Permutation; [exact Hnd|apply seq_NoDup|]. intros v. rewrite <- s_mem_In, (Hvs v), in_seq, Nat.ltb_lt. lia. Qed.
Lemma binop_ctor (op : Z -> Z -> Z) dd D dd2 E : rep_div n dd D -> rep_div n dd2 E ->
  exists dd', CFDivisor___init__ so vs gg (map (fun v => (v, op (d_get v 0 dd) (d_get v 0 dd2))) (so vs)) = PyOk (dd', zsum (fun v => op (nthZ D v) (nthZ E v)) (seq 0 n)) /\
              rep_div n dd' (tab n (fun v => op (nthZ D v) (nthZ E v))).
Proof. intros (HL & Hk & Hf) (HL2 & Hk2 & Hf2). set (F := fun v => op (d_get v 0 dd) (d_get v 0 dd2)). set (L := map (fun v => (v, F v)) (so vs)).
  assert (HF : forall v, (v < n)%nat -> F v = op (nthZ D v) (nthZ E v)).
  { intros v Hv. unfold F, d_get. rewrite (Hf v), (Hf2 v). destruct (Nat.ltb_spec v n); [reflexivity|lia]. }
  assert (Hkeys : map fst L = so vs). { unfold L. rewrite map_map. cbn [fst]. apply map_id. }
  assert (Hsn : NoDup (so vs)) by (apply (Permutation_NoDup (Permutation_sym (Hso vs))); exact Hnd).
  pose proof (ctor_refines L) as H.
  assert (Hok : ctor_ok L = true).
  { unfold ctor_ok. rewrite Hkeys. apply andb_true_iff. split; [apply nodupb_NoDup; exact Hsn|]. apply forallb_forall. intros [k x] Hin. cbn [fst].
    assert (Hin' : In k (so vs)). { rewrite <- Hkeys. apply in_map_iff. exists (k, x). split; [reflexivity|exact Hin]. }
    apply (Permutation_in _ (Hso vs)) in Hin'. apply s_mem_In in Hin'. rewrite (Hvs k) in Hin'. exact Hin'. }
  change (map (fun v => (v, op (d_get v 0 dd) (d_get v 0 dd2))) (so vs)) with L.
  destruct (CFDivisor___init__ so vs gg L) as [[dd' t]|e]; [|congruence]. destruct H as (_ & Hrep & Ht). exists dd'. split.
  - f_equal. f_equal. rewrite Ht. unfold L. rewrite zsum_map. cbn [snd]. rewrite (zsum_perm _ _ _ (Hso vs)), (zsum_perm _ _ _ vs_perm_seq). apply zsum_ext. intros v Hv. apply HF. apply in_seq in Hv. lia.
  - replace (tab n (fun v => op (nthZ D v) (nthZ E v))) with (tab n (fun v => d_get v 0 L)); [exact Hrep|]. apply tab_ext. intros v Hv. unfold d_get, L. rewrite d_find_graph_of.
    rewrite (s_mem_perm v _ _ (Hso vs)), (Hvs v). destruct (Nat.ltb_spec v n); [apply HF; exact Hv|lia]. Qed.

(* the constructor on [(v, F v) for v in V] *)
Lemma fun_ctor (F : nat -> Z) :
  exists dd', CFDivisor___init__ so vs gg (map (fun v => (v, F v)) (so vs)) = PyOk (dd', zsum F (seq 0 n)) /\ rep_div n dd' (tab n F).
Proof. set (L := map (fun v => (v, F v)) (so vs)).
  assert (Hkeys : map fst L = so vs). { unfold L. rewrite map_map. cbn [fst]. apply map_id. }
  assert (Hsn : NoDup (so vs)) by (apply (Permutation_NoDup (Permutation_sym (Hso vs))); exact Hnd).
  pose proof (ctor_refines L) as H.
  assert (Hok : ctor_ok L = true).
  { unfold ctor_ok. rewrite Hkeys. apply andb_true_iff. split; [apply nodupb_NoDup; exact Hsn|]. apply forallb_forall. intros [k x] Hin. cbn [fst].
    assert (Hin' : In k (so vs)). { rewrite <- Hkeys. apply in_map_iff. exists (k, x). split; [reflexivity|exact Hin]. }
    apply (Permutation_in _ (Hso vs)) in Hin'. apply s_mem_In in Hin'. rewrite (Hvs k) in Hin'. exact Hin'. }
  destruct (CFDivisor___init__ so vs gg L) as [[dd' t]|e]; [|congruence]. destruct H as (_ & Hrep & Ht). exists dd'. split.
  - f_equal. f_equal. rewrite Ht. unfold L. rewrite zsum_map. cbn [snd]. rewrite (zsum_perm _ _ _ (Hso vs)), (zsum_perm _ _ _ vs_perm_seq). reflexivity.
  - replace (tab n F) with (tab n (fun v => d_get v 0 L)); [exact Hrep|]. apply tab_ext. intros v Hv. unfold d_get, L. rewrite d_find_graph_of.
    rewrite (s_mem_perm v _ _ (Hso vs)), (Hvs v). destruct (Nat.ltb_spec v n); [reflexivity|lia]. Qed.

Theorem add_refines dd D n2 vs2 dd2 E : rep_div n dd D -> rep_vset n2 vs2 -> rep_div n2 dd2 E ->
  if Nat.eqb n n2 then exists dd', CFDivisor___add__ vs dd gg so vs2 dd2 = PyOk (dd', zsum (nthZ D) (seq 0 n) + zsum (nthZ E) (seq 0 n)) /\ rep_div n dd' (dadd n D E)
  else CFDivisor___add__ vs dd gg so vs2 dd2 = PyExn tt.
Proof. intros HR H2 HR2. unfold CFDivisor___add__. rewrite (set_eqb_rep n2 vs2 H2). destruct (Nat.eqb_spec n n2) as [Q|Q]; cbn [negb]; [|reflexivity]. subst n2.
  cbn zeta. change (fold_left _ (so vs) (PyOk [])) with (fold_left (bin_body Z.add dd dd2) (so vs) (PyOk [])). rewrite bin_loop. cbn [app].
  destruct (binop_ctor Z.add dd D dd2 E HR HR2) as (dd' & H1 & H3). rewrite H1. exists dd'. split; [f_equal; f_equal; apply zsum_add|exact H3]. Qed.
Theorem sub_refines dd D n2 vs2 dd2 E : rep_div n dd D -> rep_vset n2 vs2 -> rep_div n2 dd2 E ->
  if Nat.eqb n n2 then exists dd', CFDivisor___sub__ vs dd gg so vs2 dd2 = PyOk (dd', zsum (nthZ D) (seq 0 n) - zsum (nthZ E) (seq 0 n)) /\ rep_div n dd' (dsub n D E)
  else CFDivisor___sub__ vs dd gg so vs2 dd2 = PyExn tt.
Proof. intros HR H2 HR2. unfold CFDivisor___sub__. rewrite (set_eqb_rep n2 vs2 H2). destruct (Nat.eqb_spec n n2) as [Q|Q]; cbn [negb]; [|reflexivity]. subst n2.
  cbn zeta. change (fold_left _ (so vs) (PyOk [])) with (fold_left (bin_body Z.sub dd dd2) (so vs) (PyOk [])). rewrite bin_loop. cbn [app].
  destruct (binop_ctor Z.sub dd D dd2 E HR HR2) as (dd' & H1 & H3). rewrite H1. exists dd'. split; [f_equal; f_equal; apply zsum_sub|exact H3]. Qed.
End CTOR.

(* the total a constructor call stores (the sum of the listed chips) is the degree of the divisor it represents; get_total_degree returns that field *)
Lemma zsum_pairs_as_function n : forall L : list (nat * Z), NoDup (map fst L) -> forallb (fun kv => Nat.ltb (fst kv) n) L = true ->
  zsum snd L = zsum (fun v => d_get v 0 L) (seq 0 n).
Proof. induction L as [|[k x] L IH]; intros Hnd Hall.
  - cbn [zsum]. rewrite (zsum_ext _ (fun _ => 0)) by (intros; reflexivity). now rewrite zsum_zero.
  - cbn [map fst] in Hnd. inversion Hnd as [|? ? Hk HL]; subst. cbn [forallb fst] in Hall. apply andb_true_iff in Hall. destruct Hall as [Hkn Hall]. apply Nat.ltb_lt in Hkn.
    cbn [zsum snd]. rewrite (IH HL Hall).
    rewrite (zsum_ext (fun v => d_get v 0 ((k, x) :: L)) (fun v => (if Nat.eqb v k then x else 0) + d_get v 0 L)).
    + rewrite zsum_add, zsum_indicator; [reflexivity|apply seq_NoDup|apply in_seq; lia].
    + intros v _. unfold d_get. cbn [d_find]. rewrite (Nat.eqb_sym k v). destruct (Nat.eqb_spec v k) as [->|Q]; [rewrite (d_find_absent k L Hk); lia|lia]. Qed.
