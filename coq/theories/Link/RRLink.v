(* Riemann-Roch for the model: the burning certificate of every unwinnable divisor gives RR1 / N_closed (Theory/RiemannRoch.v), hence the
   optimized rank of the model equals the Baker-Norine rank on connected multigraphs, with no hypothesis left. *)
From Coq Require Import ZArith List Lia Bool Arith.
Import ListNotations.
From CF Require Import ZSum ListAux Defs LinEquiv Reduced Genus RiemannRoch Core Cert GraphLink DharLink CertLink EwdLink QredLink LineqLink RankLink ConnLink Termination.
Open Scope Z_scope.

Section WF.
Variable g : graph.
Hypothesis Hwf : wfb g = true.
Hypothesis Hc : connected_b g = true.
Hypothesis Hn : (0 < nv g)%nat.
Local Notation V := (Vg g).
Local Notation m := (mult g).
Local Notation mnn := (mult_nonneg g Hwf).
Local Notation msym := (mult_sym g Hwf).
Local Notation mdiag := (mult_diag g Hwf).

Lemma V_ne : V <> []. Proof. unfold Vg. destruct (nv g); [lia|discriminate]. Qed.
Lemma nth_tabX (X : nat -> Z) v : In v V -> nthZ (tab (nv g) X) v = X v.
Proof. intros Hv. apply nthZ_tab. now apply in_Vg. Qed.
(* winnability is decidable (by running the algorithm, which terminates) *)
Lemma win_dec X : winnable V m X \/ ~ winnable V m X.
Proof. set (Xl := tab (nv g) X). assert (HL : length Xl = nv g) by apply tab_length.
  destruct (ewd_q_terminates g Hwf Hc (argmin Xl) Xl (argmin_in g Xl HL Hn) HL) as [fuel [[[b R] B] H]].
  destruct (ewd_q_sound g Hwf fuel _ Xl b R B (argmin_in g Xl HL Hn) HL H) as [_ [_ [_ [_ Hb]]]].
  destruct b; [left|right].
  - apply (winnable_ext V m (nthZ Xl)); [intros v Hv; now apply nth_tabX|]. now apply Hb.
  - intros Hw. assert (false = true); [|discriminate]. apply Hb. apply (winnable_ext V m X); auto. intros v Hv. symmetry. now apply nth_tabX. Qed.
(* every unwinnable divisor is equivalent to one dominated by the divisor of the acyclic orientation of its final burn *)
Theorem cert_exists X : ~ winnable V m X -> exists R pos, lequiv V m X R /\ inj_on V pos /\ forall v, In v V -> R v <= orient_div V m pos v.
Proof. intros HX. set (Xl := tab (nv g) X). assert (HL : length Xl = nv g) by apply tab_length.
  pose proof (argmin_in g Xl HL Hn) as Hq.
  destruct (ewd_q_terminates g Hwf Hc (argmin Xl) Xl Hq HL) as [fuel [[[b R] B] H]].
  destruct (ewd_q_sound g Hwf fuel _ Xl b R B Hq HL H) as [HE [_ [_ [_ Hb]]]].
  assert (b = false). { destruct b; auto. exfalso. apply HX. apply (winnable_ext V m (nthZ Xl)); [intros v Hv; now apply nth_tabX|]. now apply Hb. }
  subst b. destruct (ewd_q_certificate g Hwf fuel _ Xl false R B Hq HL H) as [Hcert [Hall Hdom]].
  exists (nthZ R), (fun v => index_of v B). split; [|split].
  - apply (lequiv_ext V m (nthZ Xl) X (nthZ R) (nthZ R)); auto. intros v Hv. now apply nth_tabX.
  - intros v w Hv Hw E. apply (index_of_inj B); auto.
  - intros v Hv. specialize (Hdom eq_refl v Hv). pose proof (cert_indeg_le g Hwf _ _ _ _ Hcert v Hv) as Hle.
    unfold orient_div. assert (Hext : indeg_pos V m (fun x => nth x (burn_pos g B) 0%nat) v = indeg_pos V m (fun v => index_of v B) v).
    { unfold indeg_pos. apply zsum_ext. intros w Hw. unfold burn_pos.
      rewrite (nth_tab (nv g) (fun v => index_of v B)) by now apply in_Vg. rewrite (nth_tab (nv g) (fun v => index_of v B)) by now apply in_Vg. reflexivity. }
    lia. Qed.
Theorem riemann_roch_model D k :
  unwinnable_at V m D k <-> unwinnable_at V m (fun v => canonical V m v - D v) (k - deg V D - 1 + genus V m).
Proof. apply (riemann_roch V m V_ne mnn msym mdiag cert_exists). Qed.

(* ---- rank in terms of "unwinnable at level k" ---- *)
Lemma finite_search {A} (P : A -> Prop) l : (forall x, In x l -> P x \/ ~ P x) -> (forall x, In x l -> P x) \/ (exists x, In x l /\ ~ P x).
Proof. induction l as [|a l IH]; intros Hd; [left; intros ? []|].
  destruct (Hd a (or_introl eq_refl)) as [Ha|Ha]; [|right; exists a; split; auto; now left].
  destruct IH as [H|[x [Hx Hnx]]]; [intros; apply Hd; now right|left; intros x [<-|Hx]; auto|right; exists x; split; auto; now right]. Qed.
Lemma not_rank_ge_witness D k : length D = nv g -> ~ rank_ge V m (nthZ D) k -> unwinnable_at V m (nthZ D) (Z.of_nat k).
Proof. intros HL Hn'. rewrite (rank_ge_placements g Hn D k HL) in Hn'.
  destruct (finite_search (fun E => winnable V m (nthZ (dsub (nv g) D E))) (placements (nv g) k)) as [Hall|[E [HE HnE]]]; [intros; apply win_dec|contradiction|].
  destruct (placements_sound _ _ _ HE) as [L [Nn S]]. exists (nthZ E). split; [|split].
  - intros v Hv. apply in_Vg in Hv. apply Nn. unfold nthZ. apply nth_In. lia.
  - unfold deg, Vg. rewrite <- L, <- lsum_zsum. exact S.
  - intros Hw. apply HnE. eapply winnable_ext; [|exact Hw]. intros v Hv. cbv beta. symmetry. now apply nth_dsub. Qed.
Definition rank_char (D : nat -> Z) (r : Z) : Prop := (forall k, 0 <= k <= r -> ~ unwinnable_at V m D k) /\ unwinnable_at V m D (r + 1).
Lemma unwinnable_at_rank_ge D k : unwinnable_at V m D (Z.of_nat k) -> ~ rank_ge V m D k.
Proof. intros [E [He [Hd Hnw]]] Hr. apply Hnw. now apply Hr. Qed.
Lemma is_rank_char D r : length D = nv g -> is_rank V m (nthZ D) r -> rank_char (nthZ D) r.
Proof. intros HL [[-> Hnw]|[H0 [Hge Hng]]].
  - split; [intros k Hk; lia|]. exists (fun _ => 0). split; [intros v _; lia|]. split; [apply zsum_zero|]. intros Hw. apply Hnw. eapply winnable_ext; [|exact Hw]. intros; cbv beta; lia.
  - split.
    + intros k Hk Hu. replace k with (Z.of_nat (Z.to_nat k)) in Hu by lia. apply unwinnable_at_rank_ge in Hu. apply Hu. apply (rank_ge_le g Hn (nthZ D) (Z.to_nat k) (Z.to_nat r)); auto. lia.
    + replace (r + 1) with (Z.of_nat (S (Z.to_nat r))) by lia. now apply not_rank_ge_witness. Qed.
Lemma rank_char_is_rank D r : rank_char D r -> is_rank V m D r.
Proof. intros [Hlow Hup]. pose proof (unwinnable_at_nonneg _ _ _ _ Hup) as Hr. destruct (Z.eq_dec r (-1)) as [->|Hne].
  - left. split; auto. destruct Hup as [E [He [Hd Hnw]]]. intros Hw. apply Hnw. eapply winnable_ext; [|exact Hw]. intros v Hv. cbv beta.
    rewrite (zsum_nonneg_zero E V He Hd v Hv). lia.
  - right. split; [lia|]. split.
    + intros E He Hd. destruct (win_dec (fun v => D v - E v)) as [Hw|Hnw]; auto. exfalso. apply (Hlow r); [lia|]. exists E. repeat split; auto. rewrite Hd. lia.
    + apply unwinnable_at_rank_ge. replace (Z.of_nat (S (Z.to_nat r))) with (r + 1) by lia. exact Hup. Qed.

(* ---- the two Riemann-Roch consequences the optimized rank uses ---- *)
Lemma nth_KD D v : In v V -> nthZ (dsub (nv g) (canonical_g g) D) v = canonical V m v - nthZ D v.
Proof. intros Hv. rewrite nth_dsub by auto. unfold canonical_g, canonical. rewrite (nthZ_tab (nv g) (fun v => valg g v - 2)) by now apply in_Vg. reflexivity. Qed.
Theorem RR_for_rank D r' : length D = nv g -> is_rank V m (nthZ (dsub (nv g) (canonical_g g) D)) r' ->
  is_rank V m (nthZ D) (r' + degD g D + 1 - genus_g g).
Proof. intros HL Hr. apply is_rank_char in Hr; [|apply tab_length]. destruct Hr as [Hlow Hup].
  set (KD := fun v => canonical V m v - nthZ D v).
  assert (Hext : forall k, unwinnable_at V m (nthZ (dsub (nv g) (canonical_g g) D)) k <-> unwinnable_at V m KD k).
  { intros k. split; intros [E [He [Hd Hnw]]]; exists E; repeat split; auto; intros Hw; apply Hnw; eapply winnable_ext; [|exact Hw| |exact Hw]; intros v Hv; cbv beta; unfold KD; rewrite nth_KD by auto; reflexivity. }
  apply rank_char_is_rank. unfold degD, genus_g. set (d := deg V (nthZ D)). set (gg := genus V m). split.
  - intros k Hk Hu. apply riemann_roch_model in Hu. fold KD d gg in Hu. apply Hext in Hu.
    pose proof (unwinnable_at_nonneg _ _ _ _ Hu). apply (Hlow (k - d - 1 + gg)); [lia|exact Hu].
  - apply riemann_roch_model. fold KD d gg. apply Hext. replace (r' + d + 1 - gg + 1 - d - 1 + gg) with (r' + 1) by lia. exact Hup. Qed.
Theorem RR_corollary_for_rank D : length D = nv g -> winnable V m (nthZ D) -> 2 * genus_g g - 2 < degD g D -> is_rank V m (nthZ D) (degD g D - genus_g g).
Proof. intros HL Hw Hd. replace (degD g D - genus_g g) with (-1 + degD g D + 1 - genus_g g) by lia. apply RR_for_rank; auto.
  left. split; auto. apply (neg_deg_unwinnable V m msym).
  unfold deg. rewrite (zsum_ext (nthZ (dsub (nv g) (canonical_g g) D)) (fun v => canonical V m v - nthZ D v)) by (intros v Hv; now apply nth_KD).
  rewrite zsum_sub. pose proof (canonical_degree V m msym mdiag) as CK. unfold deg in CK. unfold degD, deg, genus_g in Hd. lia. Qed.
(* the optimized rank of the model is the Baker-Norine rank: no hypothesis left *)
Theorem rank_opt_spec kfuel fuel D r : length D = nv g -> rank_opt kfuel fuel g D = Done r -> is_rank V m (nthZ D) r.
Proof. apply (rank_opt_spec_partial g Hwf Hn).
  - intros D0 HL Hw Hd. now apply RR_corollary_for_rank.
  - intros D0 r' HL _ Hr. now apply RR_for_rank. Qed.
End WF.
