(* CFOrientation state machine: counters = recount, endpoints mirror each other, the fullness cache never lies -- over any history.
   Orientation divisors: deg = g - 1, D(O) + D(rev O) = K, acyclic => unwinnable. *)
From Coq Require Import ZArith List Lia Bool Arith Permutation.
Import ListNotations.
From CF Require Import ZSum ListAux Defs LinEquiv Reduced Genus Core Machines GraphLink MachinesLink.
Open Scope Z_scope.

Lemma forallb_ext_in {A} (f h : A -> bool) l : (forall x, In x l -> f x = h x) -> forallb f l = forallb h l.
Proof. induction l as [|a l IH]; intros H; [reflexivity|]. cbn [forallb]. rewrite (H a) by now left. f_equal. apply IH. intros; apply H; now right. Qed.

Section WF.
Variable g : graph.
Hypothesis Hwf : wfb g = true.
Local Notation V := (Vg g).
Local Notation m := (mult g).
Local Notation n := (nv g).

Definition recount_in (d : graph) (v : nat) : Z := zsum (fun w => if mult d w v =? 1 then m v w else 0) V.
Definition recount_out (d : graph) (v : nat) : Z := zsum (fun w => if mult d v w =? 1 then m v w else 0) V.
Definition oinv (s : ostate) : Prop :=
  nv (dir s) = n /\ (forall v, (v < n)%nat -> length (nth v (dir s) []) = n) /\ length (inc s) = n /\ length (outc s) = n /\
  (forall a b, (a < n)%nat -> (b < n)%nat -> dir_at s b a = mirror (dir_at s a b)) /\
  (forall v, (v < n)%nat -> nthZ (inc s) v = recount_in (dir s) v /\ nthZ (outc s) v = recount_out (dir s) v) /\
  (is_full_checked s = true -> is_full s = full_b g s) /\
  (forall a b, (a < n)%nat -> (b < n)%nat -> dir_at s a b = 0 \/ dir_at s a b = 1 \/ dir_at s a b = 2).

Lemma mirror_mirror x : (x = 0 \/ x = 1 \/ x = 2) -> mirror (mirror x) = x.
Proof. intros [-> | [-> | ->]]; reflexivity. Qed.
Lemma nthZ_bump l v d w : nthZ (bump l v d) w = if Nat.eqb w v && Nat.ltb v (length l) then nthZ l v + d else nthZ l w.
Proof. unfold bump. rewrite nthZ_upd. destruct (Nat.eqb_spec w v); subst; reflexivity. Qed.
Lemma bump_length l v d : length (bump l v d) = length l. Proof. apply upd_length. Qed.

Lemma oinit_inv : oinv (oinit g).
Proof. unfold oinv, oinit, dir_at; cbn [dir inc outc is_full is_full_checked].
  assert (Hm : forall v w, mult (tab n (fun _ => tab n (fun _ : nat => 0))) v w = 0).
  { intros v w. unfold mult. destruct (le_lt_dec n v). rewrite nth_overflow by (rewrite tab_length; lia). now destruct w.
    rewrite (nth_tab n (fun _ => tab n (fun _ : nat => 0))) by auto. destruct (le_lt_dec n w); [apply nthZ_tab_out; auto|apply (nthZ_tab n (fun _ => 0)); auto]. }
  split; [apply tab_length|]. split; [intros v Hv; rewrite (nth_tab n (fun _ => tab n (fun _ : nat => 0))) by auto; apply tab_length|].
  split; [apply tab_length|]. split; [apply tab_length|]. split; [intros; rewrite !Hm; reflexivity|]. split; [|split; [discriminate|intros; rewrite Hm; auto]].
  intros v Hv. rewrite !(nthZ_tab n (fun _ => 0)) by auto. unfold recount_in, recount_out. split; symmetry; rewrite (zsum_ext _ (fun _ => 0)); try apply zsum_zero; intros w _; now rewrite Hm. Qed.

Lemma mirror_eq1 x : (mirror x =? 1) = (x =? 2).
Proof. unfold mirror. destruct (Z.eqb_spec x 1), (Z.eqb_spec x 2); subst; try reflexivity; try lia. Qed.
Lemma mirror_eq0 x : (mirror x =? 0) = negb ((x =? 1) || (x =? 2)).
Proof. unfold mirror. destruct (Z.eqb_spec x 1), (Z.eqb_spec x 2); subst; try reflexivity; try lia. Qed.

Theorem set_orientation_inv s a b st s' : oinv s -> set_orientation g s a b st = Ok s' ->
  oinv s' /\ (a < n)%nat /\ (b < n)%nat /\ 0 < m a b /\ (st = 0 \/ st = 1 \/ st = 2) /\
  (forall x y, dir_at s' x y = if Nat.eqb x a && Nat.eqb y b then st else if Nat.eqb x b && Nat.eqb y a then mirror st else dir_at s x y).
Proof. intros [Hn [Hrows [Hli [Hlo [Hmir [Hcnt [Hcache Hval]]]]]]] H. unfold set_orientation in H.
  unfold inb in H. destruct (Nat.ltb_spec a n) as [Ha|]; [|discriminate]. destruct (Nat.ltb_spec b n) as [Hb|]; [|discriminate]. cbn [andb negb] in H.
  destruct (Z.leb_spec (m a b) 0) as [|Hk]; [discriminate|].
  destruct ((st =? 0) || (st =? 1) || (st =? 2)) eqn:Hst; cbn [negb] in H; [|discriminate].
  assert (Hst' : st = 0 \/ st = 1 \/ st = 2). { destruct (Z.eqb_spec st 0), (Z.eqb_spec st 1), (Z.eqb_spec st 2); auto; discriminate. }
  assert (Hab : a <> b). { intro; subst. rewrite (mult_diag g Hwf) in Hk. lia. }
  set (k := m a b) in *. set (old := dir_at s a b) in *.
  destruct (if old =? 1 then (bump (outc s) a (- k), bump (inc s) b (- k)) else if old =? 2 then (bump (outc s) b (- k), bump (inc s) a (- k)) else (outc s, inc s)) as [o1 i1] eqn:E1.
  destruct (if st =? 1 then (bump o1 a k, bump i1 b k) else if st =? 2 then (bump o1 b k, bump i1 a k) else (o1, i1)) as [o2 i2] eqn:E2.
  inversion H; subst s'; clear H. unfold dir_at in *; cbn [dir inc outc is_full is_full_checked].
  set (d := dir s) in *. set (d1 := upd2 d a b st). set (d2 := upd2 d1 b a (mirror st)).
  assert (Hn1 : nv d1 = n) by (unfold d1; rewrite (proj1 (upd2_rows d a b st)); exact Hn).
  assert (Hr1 : forall v, length (nth v d1 []) = length (nth v d [])) by apply (proj2 (upd2_rows d a b st)).
  assert (Hm1 : forall x y, mult d1 x y = if Nat.eqb x a && Nat.eqb y b then st else mult d x y).
  { intros. apply mult_upd2; [rewrite Hn; auto|rewrite Hrows; auto]. }
  assert (Hm2 : forall x y, mult d2 x y = if Nat.eqb x a && Nat.eqb y b then st else if Nat.eqb x b && Nat.eqb y a then mirror st else mult d x y).
  { intros x y. unfold d2. rewrite mult_upd2; [|rewrite Hn1; auto|rewrite Hr1, Hrows; auto]. rewrite Hm1.
    destruct (Nat.eqb_spec x a), (Nat.eqb_spec y b), (Nat.eqb_spec x b), (Nat.eqb_spec y a); cbn [andb]; subst; try congruence. }
  assert (Hn2 : nv d2 = n) by (unfold d2; rewrite (proj1 (upd2_rows d1 b a _)); exact Hn1).
  assert (kba : m b a = k) by (unfold k; apply (mult_sym g Hwf)).
  assert (Eab : Nat.eqb a b = false) by (apply Nat.eqb_neq; auto). assert (Eba : Nat.eqb b a = false) by (apply Nat.eqb_neq; auto).
  assert (Hold_ba : mult d b a = mirror old) by (apply Hmir; auto).
  assert (Hold3 : old = 0 \/ old = 1 \/ old = 2) by (apply Hval; auto).
  assert (Rin : forall v, (v < n)%nat -> recount_in d2 v = recount_in d v
            + (if Nat.eqb v b then (if st =? 1 then k else 0) - (if old =? 1 then k else 0) else 0)
            + (if Nat.eqb v a then (if st =? 2 then k else 0) - (if old =? 2 then k else 0) else 0)).
  { intros v Hv. unfold recount_in. destruct (Nat.eqb_spec v b) as [->|Hvb]; [|destruct (Nat.eqb_spec v a) as [->|Hva]].
    - rewrite Eba.
      rewrite (zsum_update (fun w => if mult d w b =? 1 then m b w else 0) (fun w => if mult d2 w b =? 1 then m b w else 0) V a); auto using Vg_nodup; [|now apply in_Vg|].
      + rewrite Hm2, !Nat.eqb_refl. cbn [andb]. rewrite kba. fold old. lia.
      + intros x _ Hx. rewrite Hm2. apply Nat.eqb_neq in Hx. rewrite ?Hx, ?Nat.eqb_refl, ?Eab, ?Eba, ?andb_false_r; cbn [andb]; rewrite ?Hx, ?Eab, ?Eba, ?andb_false_r; reflexivity.
    - rewrite (zsum_update (fun w => if mult d w a =? 1 then m a w else 0) (fun w => if mult d2 w a =? 1 then m a w else 0) V b); auto using Vg_nodup; [|now apply in_Vg|].
      + rewrite Hm2, !Nat.eqb_refl, Eba. cbn [andb]. fold k. rewrite Hold_ba, !mirror_eq1. lia.
      + intros x _ Hx. rewrite Hm2. apply Nat.eqb_neq in Hx. rewrite ?Hx, ?Nat.eqb_refl, ?Eab, ?Eba, ?andb_false_r; cbn [andb]; rewrite ?Hx, ?Eab, ?Eba, ?andb_false_r; reflexivity.
    - rewrite Z.add_0_r, Z.add_0_r. apply zsum_ext. intros w _. rewrite Hm2. apply Nat.eqb_neq in Hvb. apply Nat.eqb_neq in Hva. rewrite Hvb, Hva, !andb_false_r. reflexivity. }
  assert (Rout : forall v, (v < n)%nat -> recount_out d2 v = recount_out d v
            + (if Nat.eqb v a then (if st =? 1 then k else 0) - (if old =? 1 then k else 0) else 0)
            + (if Nat.eqb v b then (if st =? 2 then k else 0) - (if old =? 2 then k else 0) else 0)).
  { intros v Hv. unfold recount_out. destruct (Nat.eqb_spec v a) as [->|Hva]; [|destruct (Nat.eqb_spec v b) as [->|Hvb]].
    - rewrite Eab.
      rewrite (zsum_update (fun w => if mult d a w =? 1 then m a w else 0) (fun w => if mult d2 a w =? 1 then m a w else 0) V b); auto using Vg_nodup; [|now apply in_Vg|].
      + rewrite Hm2, !Nat.eqb_refl. cbn [andb]. fold k old. lia.
      + intros x _ Hx. rewrite Hm2. apply Nat.eqb_neq in Hx. rewrite ?Hx, ?Nat.eqb_refl, ?Eab, ?Eba, ?andb_false_r; cbn [andb]; rewrite ?Hx, ?Eab, ?Eba, ?andb_false_r; reflexivity.
    - rewrite (zsum_update (fun w => if mult d b w =? 1 then m b w else 0) (fun w => if mult d2 b w =? 1 then m b w else 0) V a); auto using Vg_nodup; [|now apply in_Vg|].
      + rewrite Hm2, !Nat.eqb_refl, Eba. cbn [andb]. rewrite kba. rewrite Hold_ba, !mirror_eq1. lia.
      + intros x _ Hx. rewrite Hm2. apply Nat.eqb_neq in Hx. rewrite ?Hx, ?Nat.eqb_refl, ?Eab, ?Eba, ?andb_false_r; cbn [andb]; rewrite ?Hx, ?Eab, ?Eba, ?andb_false_r; reflexivity.
    - rewrite Z.add_0_r, Z.add_0_r. apply zsum_ext. intros w _. rewrite Hm2. apply Nat.eqb_neq in Hvb. apply Nat.eqb_neq in Hva. rewrite Hvb, Hva. cbn [andb]. reflexivity. }
  assert (La : Nat.ltb a n = true) by now apply Nat.ltb_lt. assert (Lb : Nat.ltb b n = true) by now apply Nat.ltb_lt.
  split; [|split; [exact Ha|split; [exact Hb|split; [exact Hk|split; [exact Hst'|intros x y; apply Hm2]]]]].
  unfold oinv, dir_at; cbn [dir inc outc is_full is_full_checked]. fold d d1 d2.
  assert (Lens : length o1 = n /\ length i1 = n /\ length o2 = n /\ length i2 = n).
  { destruct (old =? 1); [|destruct (old =? 2)]; inversion E1; subst o1 i1; destruct (st =? 1); [| destruct (st =? 2) | | destruct (st =? 2) | | destruct (st =? 2)];
      inversion E2; subst o2 i2; rewrite ?bump_length; auto. }
  destruct Lens as [Lo1 [Li1 [Lo2 Li2]]].
  split; [exact Hn2|]. split; [intros v Hv; unfold d2; rewrite (proj2 (upd2_rows d1 b a _)), Hr1; auto|]. split; [exact Li2|]. split; [exact Lo2|]. split; [|split; [|split]].
  - intros x y Hx Hy. rewrite !Hm2. destruct (Nat.eqb_spec x a), (Nat.eqb_spec y b), (Nat.eqb_spec x b), (Nat.eqb_spec y a); cbn [andb]; subst; try congruence; try reflexivity; try (apply Hmir; assumption); try (symmetry; apply mirror_mirror; assumption).
  - intros v Hv. rewrite (Rin v Hv), (Rout v Hv). destruct (Hcnt v Hv) as [Ci Co]. fold d in Ci, Co. rewrite <- Ci, <- Co.
    destruct (Z.eqb_spec old 1) as [Eo1|No1]; [|destruct (Z.eqb_spec old 2) as [Eo2|No2]]; inversion E1; subst o1 i1;
    (destruct (Z.eqb_spec st 1) as [Es1|Ns1]; [|destruct (Z.eqb_spec st 2) as [Es2|Ns2]]); inversion E2; subst o2 i2;
    rewrite ?nthZ_bump, ?bump_length, ?Hli, ?Hlo, ?La, ?Lb, ?andb_true_r;
    try (rewrite Eo1 in * ); try (rewrite Es1 in * );
    destruct (Nat.eqb_spec v a), (Nat.eqb_spec v b); subst; cbn [andb]; rewrite ?Eab, ?Eba; cbn [andb];
    repeat match goal with |- context [Z.eqb ?x ?y] => destruct (Z.eqb_spec x y) end; split; rewrite ?Nat.eqb_refl; try lia; try congruence.
  - intros Hchk. destruct (Z.eqb_spec st 0) as [->|Hs0].
    + (* un-orienting: not full *)
      symmetry. apply not_true_is_false. intros Hf. unfold full_b in Hf. rewrite forallb_forall in Hf.
      destruct (Nat.lt_ge_cases a b) as [Hlt|Hge].
      * specialize (Hf a (proj2 (in_Vg g a) Ha)). rewrite forallb_forall in Hf. specialize (Hf b (proj2 (in_Vg g b) Hb)).
        assert (E : (0 <? m a b) = true) by now apply Z.ltb_lt. assert (E' : Nat.ltb a b = true) by now apply Nat.ltb_lt. rewrite E, E' in Hf. cbn [andb] in Hf.
        unfold dir_at in Hf; cbn [dir] in Hf. fold d d1 d2 in Hf. rewrite Hm2, !Nat.eqb_refl in Hf. cbn in Hf. discriminate.
      * assert (Hlt : (b < a)%nat) by lia.
        specialize (Hf b (proj2 (in_Vg g b) Hb)). rewrite forallb_forall in Hf. specialize (Hf a (proj2 (in_Vg g a) Ha)).
        assert (E : (0 <? m b a) = true) by (apply Z.ltb_lt; lia). assert (E' : Nat.ltb b a = true) by now apply Nat.ltb_lt. rewrite E, E' in Hf. cbn [andb] in Hf.
        unfold dir_at in Hf; cbn [dir] in Hf. fold d d1 d2 in Hf. rewrite Hm2, !Nat.eqb_refl, Eba in Hf. cbn in Hf. discriminate.
    + destruct (Z.eqb_spec old 0) as [Ho0|Ho0]; [discriminate|]. rewrite (Hcache Hchk).
      unfold full_b. apply forallb_ext_in. intros x Hx. apply forallb_ext_in. intros y Hy. destruct ((0 <? m x y) && Nat.ltb x y); auto.
      unfold dir_at; cbn [dir]. fold d d1 d2. rewrite Hm2. f_equal.
      destruct (Nat.eqb_spec x a), (Nat.eqb_spec y b); cbn [andb]; subst.
      * fold old. destruct (Z.eqb_spec old 0), (Z.eqb_spec st 0); try lia; reflexivity.
      * destruct (Nat.eqb_spec a b), (Nat.eqb_spec y a); cbn [andb]; subst; try congruence; reflexivity.
      * destruct (Nat.eqb_spec x b), (Nat.eqb_spec b a); cbn [andb]; subst; try congruence; reflexivity.
      * destruct (Nat.eqb_spec x b), (Nat.eqb_spec y a); cbn [andb]; subst; try reflexivity.
        rewrite Hold_ba, !mirror_eq0. destruct Hst' as [-> | [-> | ->]]; try lia; cbn;
        destruct (Z.eqb_spec old 1), (Z.eqb_spec old 2); cbn; try reflexivity;
        exfalso; destruct Hold3 as [?|[?|?]]; lia.
  - intros x y Hx Hy. rewrite Hm2. destruct (Nat.eqb x a && Nat.eqb y b); [exact Hst'|]. destruct (Nat.eqb x b && Nat.eqb y a); [|apply Hval; auto].
    destruct Hst' as [-> | [-> | ->]]; cbn; auto.
Qed.

(* ---- fullness check, constructor, histories ---- *)
Lemma full_b_spec s : oinv s -> (full_b g s = true <-> forall a b, (a < n)%nat -> (b < n)%nat -> 0 < m a b -> dir_at s a b <> 0).
Proof. intros [_ [_ [_ [_ [Hmir [_ [_ Hval]]]]]]]. unfold full_b. rewrite forallb_forall. split.
  - intros H a b Ha Hb Hm. assert (Hne : a <> b) by (intro; subst; rewrite (mult_diag g Hwf) in Hm; lia).
    assert (Hlt : forall x y, (x < n)%nat -> (y < n)%nat -> 0 < m x y -> (x < y)%nat -> dir_at s x y <> 0).
    { intros x y Hx Hy Hxy Hl. specialize (H x (proj2 (in_Vg g x) Hx)). rewrite forallb_forall in H. specialize (H y (proj2 (in_Vg g y) Hy)).
      apply Z.ltb_lt in Hxy. apply Nat.ltb_lt in Hl. rewrite Hxy, Hl in H. cbn [andb] in H. apply negb_true_iff in H. now apply Z.eqb_neq. }
    destruct (Nat.lt_ge_cases a b) as [Hl|Hl]; [now apply Hlt|].
    assert (Hba : dir_at s b a <> 0) by (apply Hlt; auto; [rewrite (mult_sym g Hwf); auto|lia]).
    rewrite (Hmir b a Hb Ha). intro E. apply Hba. destruct (Hval b a Hb Ha) as [E0|[E1|E2]]; auto; rewrite ?E1, ?E2 in E; cbn in E; discriminate.
  - intros H x Hx. apply forallb_forall. intros y Hy. apply in_Vg in Hx. apply in_Vg in Hy.
    destruct (Z.ltb_spec 0 (m x y)); cbn [andb]; auto. destruct (Nat.ltb x y); auto. apply negb_true_iff. apply Z.eqb_neq. now apply H. Qed.
Lemma check_fullness_inv s : oinv s -> oinv (fst (check_fullness g s)) /\ snd (check_fullness g s) = full_b g s /\
  dir (fst (check_fullness g s)) = dir s /\ inc (fst (check_fullness g s)) = inc s /\ outc (fst (check_fullness g s)) = outc s /\ is_full_checked (fst (check_fullness g s)) = true.
Proof. intros [H1 [H2 [H3 [H4 [H5 [H6 [H7 H8]]]]]]]. unfold check_fullness; cbn [fst snd dir inc outc is_full_checked].
  split; [|repeat split; auto].
  unfold oinv, dir_at, full_b in *; cbn [dir inc outc is_full is_full_checked].
  split; [exact H1|]. split; [exact H2|]. split; [exact H3|]. split; [exact H4|]. split; [exact H5|]. split; [exact H6|]. split; [reflexivity|exact H8]. Qed.
Lemma oconstruct_go_inv os : forall s s', oinv s -> oconstruct_go g s os = Ok s' -> oinv s' /\ is_full_checked s' = true.
Proof. induction os as [|[a b] t IH]; intros s s' Hs H; cbn [oconstruct_go] in H.
  - inversion H; subst. destruct (check_fullness_inv s Hs) as [A [_ [_ [_ [_ B]]]]]. auto.
  - destruct (negb (inb g a && inb g b)); [discriminate|]. destruct (m a b <=? 0); [discriminate|]. destruct (negb (dir_at s a b =? 0)); [discriminate|].
    destruct (set_orientation g s a b 1) as [s1|] eqn:E; [|discriminate]. apply set_orientation_inv in E; auto. destruct E as [E _]. eapply IH; eauto. Qed.
Theorem oconstruct_inv os s : oconstruct g os = Ok s -> oinv s /\ is_full_checked s = true.
Proof. apply oconstruct_go_inv. apply oinit_inv. Qed.

Inductive oop := OSet (a b : nat) (st : Z) | OCheck | ODivisor | OReverse.
Definition oapply (s : ostate) (o : oop) : ostate :=
  match o with
  | OSet a b st => match set_orientation g s a b st with Ok s' => s' | Err => s end
  | OCheck => fst (check_fullness g s)
  | ODivisor => fst (o_divisor g s)
  | OReverse => fst (o_reverse g s) end.
Lemma ensure_checked_inv s : oinv s -> oinv (ensure_checked g s) /\ is_full_checked (ensure_checked g s) = true /\ dir (ensure_checked g s) = dir s /\ inc (ensure_checked g s) = inc s.
Proof. intros Hs. unfold ensure_checked. destruct (is_full_checked s) eqn:E; [auto|]. destruct (check_fullness_inv s Hs) as [A [_ [B [C [_ D]]]]]. auto. Qed.
(* every state reachable by any history of set_orientation (all three states, both endpoint orders, also on non-edges), check_fullness,
   divisor and reverse calls keeps: counters = recount, mirror endpoints, honest fullness cache *)
Theorem orientation_history_inv ops : forall s, oinv s -> oinv (fold_left oapply ops s).
Proof. induction ops as [|o t IH]; intros s Hs; [exact Hs|]. cbn [fold_left]. apply IH. destruct o as [a b st| | |]; cbn [oapply].
  - destruct (set_orientation g s a b st) eqn:E; auto. apply set_orientation_inv in E; tauto.
  - apply check_fullness_inv; auto.
  - unfold o_divisor; cbn [fst]. apply ensure_checked_inv; auto.
  - unfold o_reverse; cbn [fst]. apply ensure_checked_inv; auto. Qed.

(* divisor() / reverse() are granted exactly on full orientations; the divisor is in-degree minus one *)
Theorem o_divisor_spec s : oinv s -> match snd (o_divisor g s) with
  | Ok D => full_b g s = true /\ forall v, (v < n)%nat -> nthZ D v = recount_in (dir s) v - 1
  | Err => full_b g s = false end.
Proof. intros Hs. destruct (ensure_checked_inv s Hs) as [A [B [C D]]]. unfold o_divisor; cbn [snd]. set (s' := ensure_checked g s) in *.
  destruct A as [_ [_ [_ [_ [_ [Hc [Hcache _]]]]]]]. specialize (Hcache B).
  assert (Hf : full_b g s' = full_b g s) by (unfold full_b, dir_at; rewrite C; reflexivity).
  destruct (is_full s') eqn:E.
  - split; [congruence|]. intros v Hv. rewrite (nthZ_tab n (fun v => nthZ (inc s') v - 1)) by auto. rewrite (proj1 (Hc v Hv)), C. reflexivity.
  - congruence. Qed.

(* ---- identities for full orientations ---- *)
Section Full.
Variable s : ostate.
Hypothesis Hs : oinv s.
Hypothesis Hfull : full_b g s = true.
Let d := dir s.
Lemma one_direction a b : (a < n)%nat -> (b < n)%nat -> 0 < m a b ->
  (if mult d a b =? 1 then 1 else 0) + (if mult d b a =? 1 then 1 else 0) = 1.
Proof. intros Ha Hb Hm. pose proof (proj1 (full_b_spec s Hs) Hfull a b Ha Hb Hm) as Hne. destruct Hs as [_ [_ [_ [_ [Hmir [_ [_ Hval]]]]]]].
  unfold dir_at in *. fold d in Hmir, Hval, Hne. rewrite (Hmir a b Ha Hb). destruct (Hval a b Ha Hb) as [E|[E|E]]; rewrite E in *; cbn; try lia; try congruence. Qed.
Lemma in_plus_out v : (v < n)%nat -> recount_in d v + recount_out d v = valg g v.
Proof. intros Hv. unfold recount_in, recount_out, valg, val. rewrite <- zsum_add. apply zsum_ext. intros w Hw. apply in_Vg in Hw.
  destruct (Z.ltb_spec 0 (m v w)) as [Hm|Hm].
  - pose proof (one_direction v w Hv Hw Hm). destruct (mult d w v =? 1), (mult d v w =? 1); lia.
  - pose proof (mult_nonneg g Hwf v w). assert (m v w = 0) by lia. rewrite H0. destruct (mult d w v =? 1), (mult d v w =? 1); lia. Qed.
Lemma sum_in_eq_sum_out : zsum (recount_in d) V = zsum (recount_out d) V.
Proof. unfold recount_in, recount_out. rewrite (zsum_swap (fun v w => if mult d w v =? 1 then m v w else 0)).
  apply zsum_ext. intros v _. apply zsum_ext. intros w _. now rewrite (mult_sym g Hwf w v). Qed.
(* the orientation divisor has degree g - 1 *)
Theorem orientation_divisor_degree : zsum (fun v => recount_in d v - 1) V = genus_g g - 1.
Proof. rewrite zsum_sub, zsum_const. unfold Vg at 2. rewrite seq_length.
  assert (H2 : 2 * zsum (recount_in d) V = 2 * nedges_g g).
  { transitivity (zsum (recount_in d) V + zsum (recount_out d) V); [rewrite sum_in_eq_sum_out; lia|]. rewrite <- zsum_add.
    rewrite (zsum_ext _ (valg g)) by (intros v Hv; apply in_plus_out; now apply in_Vg).
    pose proof (twice_edges_nedges V m (mult_sym g Hwf) (mult_diag g Hwf)) as T. unfold twice_edges in T. unfold nedges_g. exact T. }
  unfold genus_g, genus. unfold nedges_g in H2. unfold Vg at 3. rewrite seq_length. lia. Qed.
(* D(O) + D(reverse O) = K for ANY state s' holding the reversed directions *)
Theorem orientation_plus_reverse s' : oinv s' -> (forall a b, dir_at s' a b = dir_at s b a) ->
  forall v, (v < n)%nat -> (recount_in (dir s) v - 1) + (recount_in (dir s') v - 1) = valg g v - 2.
Proof. intros Hs' Hrev v Hv. fold d. rewrite <- (in_plus_out v Hv).
  assert (recount_in (dir s') v = recount_out d v); [|lia]. unfold recount_in, recount_out. apply zsum_ext. intros w _.
  unfold dir_at in Hrev. now rewrite Hrev. Qed.
(* an acyclic orientation (consistent with some vertex order) has an unwinnable divisor *)
Theorem acyclic_orientation_unwinnable (pos : nat -> nat) : (0 < n)%nat ->
  (forall a b, (a < n)%nat -> (b < n)%nat -> 0 < m a b -> mult d a b = 1 -> (pos a < pos b)%nat) ->
  ~ winnable V m (fun v => recount_in d v - 1).
Proof. intros Hn Hacyc. apply (dominated_unwinnable V m (mult_nonneg g Hwf) pos).
  - unfold Vg. intro E. assert (length (seq 0 n) = 0%nat) by now rewrite E. rewrite seq_length in H. lia.
  - intros v Hv. apply in_Vg in Hv. unfold orient_div. assert (recount_in d v <= indeg_pos V m pos v); [|lia].
    unfold recount_in, indeg_pos. apply zsum_le. intros w Hw. apply in_Vg in Hw. pose proof (mult_nonneg g Hwf v w).
    destruct (Z.eqb_spec (mult d w v) 1) as [E|]; [|destruct (Nat.ltb (pos w) (pos v)); lia].
    destruct (Z.ltb_spec 0 (m v w)) as [Hm|]; [|destruct (Nat.ltb (pos w) (pos v)); lia].
    assert (Hlt : (pos w < pos v)%nat) by (apply Hacyc; auto; rewrite (mult_sym g Hwf); auto). apply Nat.ltb_lt in Hlt. rewrite Hlt. lia. Qed.
End Full.
End WF.
