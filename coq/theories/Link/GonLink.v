(* Gonality of the model: games, strategy tests, strategy collection and the search for the least number of chips. *)
From Coq Require Import ZArith List Lia Bool Arith.
Import ListNotations.
From CF Require Import ZSum ListAux Defs LinEquiv Core GraphLink DharLink EwdLink QredLink LineqLink RankLink.
Open Scope Z_scope.

Lemma zsum_pos_exists {A} (f : A -> Z) l : (forall x, In x l -> 0 <= f x) -> 0 < zsum f l -> exists x, In x l /\ 0 < f x.
Proof. induction l as [|a l IH]; cbn [zsum]; intros Hnn Hp; [lia|]. destruct (Z_lt_le_dec 0 (f a)); [exists a; split; auto; now left|].
  destruct IH as [x [Hx Hfx]]; [intros; apply Hnn; now right| |exists x; split; auto; now right]. assert (0 <= f a) by (apply Hnn; now left). lia. Qed.

Section WF.
Variable g : graph.
Hypothesis Hwf : wfb g = true.
Hypothesis Hn : (0 < nv g)%nat.
Hypothesis Hterm : terminates g.
Local Notation V := (Vg g).
Local Notation m := (mult g).
Local Notation msym := (mult_sym g Hwf).
Local Notation ex_opt := (exact_optimized g Hwf Hn Hterm).

Lemma nth_sub1 D v w : In w V -> nthZ (sub1 (nv g) D v) w = nthZ D w - (if Nat.eqb w v then 1 else 0).
Proof. intros Hw. unfold sub1. rewrite (nthZ_tab (nv g) (fun w => if Nat.eqb w v then nthZ D w - 1 else nthZ D w)) by now apply in_Vg. destruct (Nat.eqb w v); lia. Qed.
(* rank >= 1  <->  the placement survives the removal of one chip at every vertex *)
Lemma rank_ge_one D : rank_ge V m (nthZ D) 1 <-> forall v, In v V -> winnable V m (nthZ (sub1 (nv g) D v)).
Proof. split.
  - intros H v Hv. apply (winnable_ext V m (fun w => nthZ D w - (if Nat.eqb w v then 1 else 0))); [intros w Hw; symmetry; now apply nth_sub1|].
    apply H. intros w _; destruct (Nat.eqb w v); lia. unfold deg. rewrite zsum_indicator; auto using Vg_nodup.
  - intros H E Heff Hd. destruct (zsum_pos_exists E V Heff) as [v [Hv Hpos]]. { unfold deg in Hd. lia. }
    set (E0 := fun w => E w - (if Nat.eqb w v then 1 else 0)).
    assert (H0 : forall w, In w V -> E0 w = 0).
    { apply zsum_nonneg_zero. intros w Hw. unfold E0. specialize (Heff w Hw). destruct (Nat.eqb_spec w v); subst; lia.
      unfold E0. rewrite zsum_sub, zsum_indicator; auto using Vg_nodup. unfold deg in Hd. lia. }
    apply (winnable_ext V m (nthZ (sub1 (nv g) D v))); [|now apply H]. intros w Hw. rewrite nth_sub1 by auto. specialize (H0 w Hw). unfold E0 in H0. lia. Qed.

Theorem play_game_spec fuel D v b : length D = nv g -> play_game fuel g D v = Done b -> (b = true <-> winnable V m (nthZ (sub1 (nv g) D v))).
Proof. intros HL H. unfold play_game in H. apply (ex_opt fuel _ b) in H; auto. apply tab_length. Qed.
Lemma losing_spec fuel D vs : length D = nv g -> forall l, losing fuel g D vs = Done l ->
  forall v, In v l <-> In v vs /\ ~ winnable V m (nthZ (sub1 (nv g) D v)).
Proof. intros HL. induction vs as [|x t IH]; intros l H v; cbn [losing] in H.
  - inversion H; subst. split; [intros []|intros [[] _]].
  - destruct (play_game fuel g D x) as [b|] eqn:Ep; [|discriminate]. destruct (losing fuel g D t) as [l0|] eqn:El; [|discriminate]. inversion H; subst l; clear H.
    pose proof (play_game_spec fuel D x b HL Ep) as Hb. specialize (IH l0 eq_refl v). destruct b.
    + rewrite IH. split.
      * intros [A B]. split; auto. now right.
      * intros [[Hx|A] B]; [subst x; exfalso; apply B; now apply Hb|auto].
    + split.
      * intros [Hx|Hv].
        -- subst x. split; [now left|]. intros Hw. apply Hb in Hw. discriminate.
        -- apply IH in Hv. destruct Hv as [Hv1 Hv2]. split; auto. now right.
      * intros [[Hx|A] B]; [now left|]. right. apply IH. auto. Qed.
Lemma losing_done_play fuel D vs : forall l, losing fuel g D vs = Done l -> forall v, In v vs -> exists b, play_game fuel g D v = Done b.
Proof. induction vs as [|x t IH]; intros l H v Hv; [destruct Hv|]. cbn [losing] in H.
  destruct (play_game fuel g D x) as [b|] eqn:Ep; [|discriminate]. destruct (losing fuel g D t) as [l0|] eqn:El; [|discriminate].
  destruct Hv as [Hx|Hv]; [subst; eauto|eapply IH; eauto]. Qed.
(* test_n_chip_strategy: works iff rank >= 1; the losing vertices are exactly the vertices that defeat the placement *)
Theorem test_strategy_spec fuel D b l : length D = nv g -> test_strategy fuel g D = Done (b, l) ->
  (b = true <-> rank_ge V m (nthZ D) 1) /\ (forall v, In v l <-> In v V /\ ~ winnable V m (nthZ (sub1 (nv g) D v))).
Proof. intros HL H. unfold test_strategy in H. destruct (losing fuel g D V) as [l0|] eqn:E; [|discriminate]. inversion H; subst; clear H.
  pose proof (losing_spec fuel D V HL l E) as Hl. split; auto. rewrite rank_ge_one. destruct l as [|x t].
  - split; auto. intros _ v Hv. destruct (losing_done_play fuel D V [] E v Hv) as [b Ep].
    destruct b; [now apply (play_game_spec fuel D v true HL Ep)|]. exfalso.
    assert (Hin : In v []) by (apply Hl; split; auto; intros Hw; apply (play_game_spec fuel D v false HL Ep) in Hw; discriminate). destruct Hin.
  - split; [discriminate|]. intros Hall. exfalso. assert (Hx : In x (x :: t)) by now left. apply Hl in Hx. destruct Hx as [HxV Hnw]. apply Hnw. now apply Hall. Qed.

Definition winning (D : div) : Prop := length D = nv g /\ (forall x, In x D -> 0 <= x) /\ rank_ge V m (nthZ D) 1.
Lemma winning_among_spec fuel Ps : (forall P, In P Ps -> length P = nv g) -> forall cap l, winning_among fuel g cap Ps = Done l ->
  (forall P, In P l -> In P Ps /\ rank_ge V m (nthZ P) 1) /\
  (cap <> Some 0%nat -> (l = [] <-> forall P, In P Ps -> ~ rank_ge V m (nthZ P) 1)) /\
  (forall c, cap = Some c -> (length l <= c)%nat).
Proof. intros HL. induction Ps as [|P t IH]; intros cap l H; cbn [winning_among] in H.
  - inversion H; subst. split; [intros P0 []|]. split; [intros _; split; [intros _ P0 []|reflexivity]|intros c _; cbn; lia].
  - assert (HLt : forall P, In P t -> length P = nv g) by (intros; apply HL; now right). assert (HLP : length P = nv g) by (apply HL; now left).
    destruct cap as [[|c]|].
    + inversion H; subst. split; [intros P0 []|]. split; [intros X; congruence|intros c0 Hc; cbn; lia].
    + destruct (test_strategy fuel g P) as [[[|] ls]|] eqn:Et; [| |discriminate].
      * destruct (winning_among fuel g (Some c) t) as [l0|] eqn:Ew; [|discriminate]. inversion H; subst l; clear H.
        destruct (IH HLt _ _ Ew) as [A [_ C]]. pose proof (proj1 (proj1 (test_strategy_spec fuel P true ls HLP Et)) eq_refl) as HP.
        split; [intros Q [<-|HQ]; [split; auto; now left|destruct (A Q HQ); split; auto; now right]|]. split.
        -- intros _. split; [discriminate|]. intros Hno. exfalso. apply (Hno P); auto. now left.
        -- intros c0 Hc. inversion Hc; subst. cbn [length]. specialize (C c eq_refl). lia.
      * destruct (IH HLt _ _ H) as [A [B C]]. assert (HP : ~ rank_ge V m (nthZ P) 1). { intros Hr. apply (proj1 (test_strategy_spec fuel P false ls HLP Et)) in Hr. discriminate. }
        split; [intros Q HQ; destruct (A Q HQ); split; auto; now right|]. split.
        -- intros _. rewrite (B ltac:(discriminate)). split; [intros Hno Q [<-|HQ]; auto|intros Hno Q HQ; apply Hno; now right].
        -- intros c0 Hc. inversion Hc; subst. apply (C (S c) eq_refl).
    + destruct (test_strategy fuel g P) as [[[|] ls]|] eqn:Et; [| |discriminate].
      * destruct (winning_among fuel g None t) as [l0|] eqn:Ew; [|discriminate]. inversion H; subst l; clear H.
        destruct (IH HLt _ _ Ew) as [A _]. pose proof (proj1 (proj1 (test_strategy_spec fuel P true ls HLP Et)) eq_refl) as HP.
        split; [intros Q [<-|HQ]; [split; auto; now left|destruct (A Q HQ); split; auto; now right]|]. split; [|discriminate].
        intros _. split; [discriminate|]. intros Hno. exfalso. apply (Hno P); auto. now left.
      * destruct (IH HLt _ _ H) as [A [B _]]. assert (HP : ~ rank_ge V m (nthZ P) 1). { intros Hr. apply (proj1 (test_strategy_spec fuel P false ls HLP Et)) in Hr. discriminate. }
        split; [intros Q HQ; destruct (A Q HQ); split; auto; now right|]. split; [|discriminate].
        intros _. rewrite (B ltac:(discriminate)). split; [intros Hno Q [<-|HQ]; auto|intros Hno Q HQ; apply Hno; now right]. Qed.

(* some effective divisor of degree k has rank >= 1  <->  some placement in (placements n k) does *)
Lemma exists_rank1_placement k : (exists D, effective V D /\ deg V D = Z.of_nat k /\ rank_ge V m D 1) <->
  (exists P, In P (placements (nv g) k) /\ rank_ge V m (nthZ P) 1).
Proof. split.
  - intros [D [Heff [Hd Hr]]]. exists (tab (nv g) D). split.
    + apply placements_complete; [apply tab_length| |].
      * intros x Hx. unfold tab in Hx. apply in_map_iff in Hx. destruct Hx as [v [<- Hv]]. now apply Heff.
      * rewrite lsum_zsum, tab_length. rewrite <- Hd. unfold deg, Vg. apply zsum_ext. intros v Hv. apply nthZ_tab. now apply in_seq0.
    + intros E HE HdE. apply (winnable_ext V m (fun v => D v - E v)); [|now apply Hr]. intros v Hv. rewrite nthZ_tab by now apply in_Vg. reflexivity.
  - intros [P [HP Hr]]. destruct (placements_sound _ _ _ HP) as [L [Nn S]]. exists (nthZ P). repeat split; auto.
    + intros v Hv. apply in_Vg in Hv. apply Nn. unfold nthZ. apply nth_In. lia.
    + unfold deg, Vg. rewrite <- L, <- lsum_zsum. exact S. Qed.

Theorem gon_search_spec fuel cap ks : (0 < cap)%nat -> forall k l, gon_search fuel g cap ks = Done (k, l) ->
  (k = -1 /\ l = [] /\ forall j, In j ks -> ~ exists P, In P (placements (nv g) j) /\ rank_ge V m (nthZ P) 1) \/
  (exists j pre post, k = Z.of_nat j /\ ks = pre ++ j :: post /\ l <> [] /\ (length l <= cap)%nat /\
     (forall P, In P l -> In P (placements (nv g) j) /\ rank_ge V m (nthZ P) 1) /\
     (forall i, In i pre -> ~ exists P, In P (placements (nv g) i) /\ rank_ge V m (nthZ P) 1)).
Proof. intros Hcap. induction ks as [|j t IH]; intros k l H; cbn [gon_search] in H.
  - inversion H; subst. left. split; [reflexivity|]. split; [reflexivity|]. intros ? [].
  - unfold find_strategies in H. destruct (winning_among fuel g (Some cap) (placements (nv g) j)) as [l0|] eqn:E; [|discriminate].
    assert (HLp : forall P, In P (placements (nv g) j) -> length P = nv g) by (intros P HP; apply (placements_sound _ _ _ HP)).
    destruct (winning_among_spec fuel _ HLp _ _ E) as [A [B C]]. assert (Hc : Some cap <> Some 0%nat) by (intro X; inversion X; lia). specialize (B Hc).
    destruct l0 as [|P0 l1].
    + assert (Hno : forall P, In P (placements (nv g) j) -> ~ rank_ge V m (nthZ P) 1) by (apply B; reflexivity).
      destruct (IH _ _ H) as [[-> [-> Hall]]|[j' [pre [post [-> [-> [Hl [Hlen [Hw Hpre]]]]]]]]].
      * left. split; [reflexivity|]. split; [reflexivity|]. intros i [Hi|Hi]; [subst i; intros [P [HP Hr]]; exact (Hno P HP Hr)|auto].
      * right. exists j', (j :: pre), post. split; [reflexivity|]. split; [reflexivity|]. split; [exact Hl|]. split; [exact Hlen|]. split; [exact Hw|].
        intros i [Hi|Hi]; [subst i; intros [P [HP Hr]]; exact (Hno P HP Hr)|auto].
    + inversion H; subst k l. right. exists j, [], t. split; [reflexivity|]. split; [reflexivity|]. split; [discriminate|]. split; [apply (C cap eq_refl)|]. split; [exact A|intros ? []]. Qed.

(* compute_gonality: the least k in 1..maxg admitting an effective divisor of degree k and rank >= 1, or -1 if there is none;
   the same k whether or not strategies are collected; every reported strategy is genuine and has exactly k chips *)
Theorem compute_gonality_spec fuel maxg fs k l : compute_gonality fuel g maxg fs = Done (k, l) ->
  (k = -1 /\ l = [] /\ forall j, (1 <= j <= maxg)%nat -> ~ exists D, effective V D /\ deg V D = Z.of_nat j /\ rank_ge V m D 1) \/
  (exists j, k = Z.of_nat j /\ (1 <= j <= maxg)%nat /\ is_gonality V m j /\ l <> [] /\ (length l <= if fs then 5 else 1)%nat /\
     forall P, In P l -> length P = nv g /\ (forall x, In x P -> 0 <= x) /\ lsum P = Z.of_nat j /\ rank_ge V m (nthZ P) 1).
Proof. intros H. unfold compute_gonality in H. apply gon_search_spec in H; [|destruct fs; lia].
  destruct H as [[-> [-> Hall]]|[j [pre [post [-> [Hks [Hl [Hlen [Hw Hpre]]]]]]]]].
  - left. repeat split; auto. intros j Hj. rewrite exists_rank1_placement. apply Hall. apply in_seq. lia.
  - right. exists j. assert (Hj : In j (seq 1 maxg)) by (rewrite Hks; apply in_or_app; right; now left). apply in_seq in Hj.
    split; auto. split; [lia|]. split; [|split; [exact Hl|split; [exact Hlen|]]].
    + destruct l as [|P0 l']; [congruence|]. destruct (Hw P0 (or_introl eq_refl)) as [HP0 Hr0]. split.
      * apply exists_rank1_placement. eauto.
      * intros i D Hi Heff Hd Hr. destruct i as [|i].
        -- (* zero chips: removing one chip leaves negative degree *)
           assert (H0 : In 0%nat V) by (apply in_Vg; exact Hn).
           assert (Hw0 : winnable V m (fun w => D w - (if Nat.eqb w 0 then 1 else 0))).
           { apply Hr. intros w _; destruct (Nat.eqb w 0); lia. unfold deg. rewrite zsum_indicator; auto using Vg_nodup. }
           apply (neg_deg_unwinnable V m msym) in Hw0; auto. unfold deg. rewrite zsum_sub, zsum_indicator; auto using Vg_nodup. unfold deg in Hd. lia.
        -- assert (Hin : In (S i) pre).
           { assert (Hs : In (S i) (seq 1 maxg)) by (apply in_seq; lia). rewrite Hks in Hs. apply in_app_or in Hs. destruct Hs as [Hs|[Hs|Hs]]; auto; [lia|].
             exfalso. (* seq is strictly increasing: elements after j are larger *)
             assert (Hinc : forall a b c n0 l1 l2, seq a n0 = l1 ++ b :: l2 -> In c l2 -> (b < c)%nat).
             { clear. intros a b c n0. revert a. induction n0 as [|n0 IH]; intros a l1 l2 E Hc; cbn [seq] in E; [destruct l1; discriminate|].
               destruct l1 as [|x l1]; cbn [app] in E; inversion E; subst.
               - apply in_seq in Hc. lia.
               - eapply IH; eauto. }
             pose proof (Hinc _ _ _ _ _ _ Hks Hs). lia. }
           apply (Hpre (S i) Hin). apply exists_rank1_placement. eauto.
    + intros P HP. destruct (Hw P HP) as [HPp Hr]. destruct (placements_sound _ _ _ HPp) as [L [Nn S]]. auto. Qed.
End WF.

(* ---- the per-sink search ---- *)
Section PerSink.
Variable g : graph.
Hypothesis Hwf : wfb g = true.
Hypothesis Hn : (0 < nv g)%nat.
Hypothesis Hterm : terminates g.
Local Notation V := (Vg g).
Local Notation m := (mult g).
Lemma filter_res_spec {A} (f : A -> res bool) (P : A -> Prop) l : (forall x b, In x l -> f x = Done b -> (b = true <-> P x)) ->
  forall r, filter_res f l = Done r -> forall x, In x r <-> In x l /\ P x.
Proof. induction l as [|a t IH]; intros Hf r H x; cbn [filter_res] in H.
  - inversion H; subst. split; [intros []|intros [[] _]].
  - destruct (f a) as [b|] eqn:Ea; [|discriminate]. destruct (filter_res f t) as [r0|] eqn:Er; [|discriminate]. inversion H; subst r; clear H.
    pose proof (Hf a b (or_introl eq_refl) Ea) as Hb. specialize (IH (fun y c Hy => Hf y c (or_intror Hy)) r0 eq_refl x). destruct b.
    + split.
      * intros [Hx|Hx]; [subst; split; [now left|now apply Hb]|]. apply IH in Hx. destruct Hx; split; auto; now right.
      * intros [[Hx|Hx] HP]; [now left|right; apply IH; auto].
    + rewrite IH. split; [intros [Hx HP]; split; auto; now right|]. intros [[Hx|Hx] HP]; auto. subst. apply Hb in HP. discriminate. Qed.
(* result (k, S): S is exactly the set of k-chip placements off q that stay winnable after removing a chip at q, S is non-empty,
   and no smaller number of chips admits one; result (max+1, []) : none exists up to max *)
Theorem per_sink_spec fuel q maxg k S : per_sink fuel g q maxg = Done (k, S) ->
  let good j P := In P (off_q (nv g) q j) /\ winnable V m (nthZ (sub1 (nv g) P q)) in
  ((1 <= k <= maxg)%nat /\ S <> [] /\ (forall P, In P S <-> good k P) /\ (forall j P, (1 <= j < k)%nat -> ~ good j P)) \/
  (k = Datatypes.S maxg /\ S = [] /\ forall j P, (1 <= j <= maxg)%nat -> ~ good j P).
Proof. intros H good. unfold per_sink in H.
  assert (Hgen : forall ks dflt, per_sink_search fuel g q ks dflt = Done (k, S) ->
     (exists pre post, ks = pre ++ k :: post /\ S <> [] /\ (forall P, In P S <-> good k P) /\ (forall j P, In j pre -> ~ good j P)) \/
     (k = dflt /\ S = [] /\ forall j P, In j ks -> ~ good j P)).
  { induction ks as [|j t IH]; intros dflt H0; cbn [per_sink_search] in H0.
    - inversion H0; subst. right. split; [reflexivity|]. split; [reflexivity|]. intros ? ? [].
    - destruct (filter_res (test_at_q fuel g q) (off_q (nv g) q j)) as [r|] eqn:E; [|discriminate].
      assert (Hr : forall P, In P r <-> good j P).
      { intros P. unfold good. apply (filter_res_spec (test_at_q fuel g q) (fun P => winnable V m (nthZ (sub1 (nv g) P q))) _ ) with (r := r); auto.
        intros x b Hx Hb. unfold test_at_q in Hb. apply (exact_optimized g Hwf Hn Hterm fuel _ b) in Hb; auto. apply tab_length. }
      destruct r as [|P0 r'].
      + destruct (IH dflt H0) as [[pre [post [-> [A [B C]]]]]|[-> [-> C]]].
        * left. exists (j :: pre), post. split; [reflexivity|]. split; [exact A|]. split; [exact B|]. intros i P [Hi|Hi]; [subst i; intros HG; apply Hr in HG; destruct HG|auto].
        * right. split; [reflexivity|]. split; [reflexivity|]. intros i P [Hi|Hi]; [subst i; intros HG; apply Hr in HG; destruct HG|auto].
      + inversion H0; subst. left. exists [], t. split; [reflexivity|]. split; [discriminate|]. split; [exact Hr|intros ? ? []]. }
  destruct (Hgen _ _ H) as [[pre [post [Hks [A [B C]]]]]|[-> [-> C]]].
  - left. assert (Hk : In k (seq 1 maxg)) by (rewrite Hks; apply in_or_app; right; now left). apply in_seq in Hk. split; [lia|]. split; [exact A|]. split; [exact B|].
    intros j P Hj. apply C.
    assert (Hs : In j (seq 1 maxg)) by (apply in_seq; lia). rewrite Hks in Hs. apply in_app_or in Hs. destruct Hs as [Hs|[Hs|Hs]]; auto; [lia|].
    exfalso. assert (Hinc : forall a b c n0 l1 l2, seq a n0 = l1 ++ b :: l2 -> In c l2 -> (b < c)%nat).
    { clear. intros a b c n0. revert a. induction n0 as [|n0 IH]; intros a l1 l2 E Hc; cbn [seq] in E; [destruct l1; discriminate|].
      destruct l1 as [|x l1]; cbn [app] in E; inversion E; subst; [apply in_seq in Hc; lia|eapply IH; eauto]. }
    pose proof (Hinc _ _ _ _ _ _ Hks Hs). lia.
  - right. split; [reflexivity|]. split; [reflexivity|]. intros j P Hj. apply C. apply in_seq. lia. Qed.
End PerSink.
