(* CFConfig.get_out_degree_S translated from /repo's current source (TranslatedImpCFConfig.v, regenerated on every run by tools/translate_imp.py)
   is the out-degree of v with respect to S of Model/Config.v, and raises exactly on an unknown v, on q and on v outside S. *)
From Coq Require Import ZArith List Lia Bool Arith Permutation.
Import ListNotations.
From CF Require Import ZSum ListAux Defs Core Machines Config GraphLink MachinesLink PyDict ImpRep ImpLinkScript TranslatedImpCFConfig.
Open Scope Z_scope.

Lemma acc_loop (S : list nat) : forall (row : dictZ) (o : Z),
  fold_left (fun (acc_ : pyres unit Z) (kv_ : nat * Z) => match acc_ with PyExn e_ => PyExn e_ | PyOk out_degree => let '(neighbor_vertex, valence) := kv_ in
     if negb (s_mem neighbor_vertex S) then let out_degree := out_degree + valence in PyOk out_degree else PyOk out_degree end) row (PyOk o)
  = PyOk (o + zsum (fun kv => if s_mem (fst kv) S then 0 else snd kv) row).
Proof. induction row as [|[w x] row IH]; intros o; [cbn; f_equal; lia|]. cbn [fold_left zsum fst snd]. destruct (s_mem w S); cbn [negb]; rewrite IH; f_equal; lia. Qed.

Lemma row_out_degree g v row S : wfb g = true -> (v < nv g)%nat -> rep_row g v row ->
  zsum (fun kv => if s_mem (fst kv) S then 0 else snd kv) row = out_degree_S g v S.
Proof. intros Hwf Hv [Nd Fr]. unfold out_degree_S.
  rewrite (zsum_ext _ (fun kv => (fun w => if mem w S then 0 else mult g v w) (fst kv))).
  - rewrite <- (zsum_map (fun w => if mem w S then 0 else mult g v w) fst). fold (d_keys row). apply zsum_support; [exact Nd|apply Vg_nodup| |].
    + intros w Hw. apply d_find_in_keys in Hw. unfold d_mem in Hw. rewrite Fr in Hw. destruct (Z.ltb_spec 0 (mult g v w)) as [P|P]; [|discriminate].
      apply in_seq. destruct (Nat.lt_ge_cases w (nv g)) as [A|A]; [lia|]. rewrite (mult_out_r g Hwf) in P by exact A. lia.
    + intros u _ Hu. assert (E : d_mem u row = false) by (destruct (d_mem u row) eqn:E; [exfalso; apply Hu; apply d_find_in_keys; exact E|reflexivity]).
      unfold d_mem in E. rewrite Fr in E. destruct (Z.ltb_spec 0 (mult g v u)); [discriminate|]. pose proof (mult_nonneg g Hwf v u).
      replace (mult g v u) with 0 by lia. destruct (mem u S); reflexivity.
  - intros [w x] Hin. cbn [fst snd]. pose proof (d_in_find w x row Nd Hin) as E. rewrite Fr in E. destruct (0 <? mult g v w); [|discriminate]. inversion E. reflexivity. Qed.

Theorem get_out_degree_S_refines g gg vs q v S : wfb g = true -> rep_graph gg g -> rep_vset (nv g) vs ->
  CFConfig_get_out_degree_S vs q gg v S = if Nat.ltb v (nv g) && negb (Nat.eqb v q) && mem v S then PyOk (out_degree_S g v S) else PyExn tt.
Proof. intros Hwf Hgg Hvs. unfold CFConfig_get_out_degree_S. rewrite (Hvs v). destruct (Nat.ltb_spec v (nv g)) as [Hv|Hv]; cbn [negb andb]; [|reflexivity].
  destruct (Nat.eqb v q); cbn [negb andb]; [reflexivity|]. change (s_mem v S) with (mem v S). destruct (mem v S); cbn [negb]; [|reflexivity].
  rewrite (rep_graph_mem gg g v Hgg). assert (E : Nat.ltb v (nv g) = true) by (apply Nat.ltb_lt; exact Hv). rewrite E.
  pose proof (Hgg v) as Hr. rewrite E in Hr. destruct Hr as (row & Er & Rr). rewrite Er. cbn beta iota zeta. unfold dictZ in *. rewrite acc_loop. f_equal.
  rewrite (row_out_degree g v row S Hwf Hv Rr). lia. Qed.
