(* DharAlgorithm.outdegree_S translated from /repo's current source (TranslatedImpDharAlgorithm.v): the number of edges from a vertex into a set, the quantity the
   burning test compares the chips with (edges_to of Theory/Burn.v); 0 for a name that is not a vertex, and it never raises. *)
From Coq Require Import ZArith List Lia Bool Arith Permutation.
Import ListNotations.
From CF Require Import ZSum ListAux Defs Burn Core GraphLink PyDict ImpRep TranslatedImpDharAlgorithm.
Open Scope Z_scope.

Lemma fold_sum_if (c : nat -> bool) (f : nat -> Z) L : forall a, fold_left (fun a_ x => if c x then a_ + f x else a_) L a = a + zsum (fun x => if c x then f x else 0) L.
Proof. induction L as [|x L IH]; intros a; cbn [fold_left zsum]; [lia|]. rewrite IH. destruct (c x); lia. Qed.
Lemma zsum_zero {A} (f : A -> Z) l : (forall x, In x l -> f x = 0) -> zsum f l = 0.
Proof. induction l as [|a l IH]; intros H; cbn [zsum]; [reflexivity|]. rewrite (H a (or_introl eq_refl)), IH; [reflexivity|]. intros x Hx. apply H. now right. Qed.
Lemma s_mem_mem v l : s_mem v l = mem v l.
Proof. apply Bool.eq_true_iff_eq. rewrite s_mem_In, mem_In. reflexivity. Qed.

Theorem outdegree_S_refines g gg v B : wfb g = true -> rep_graph gg g ->
  DharAlgorithm_outdegree_S gg v B = PyOk (edges_to (Vg g) (mult g) v B).
Proof. intros Hwf Hgg. unfold DharAlgorithm_outdegree_S, edges_to. rewrite (rep_graph_mem gg g v Hgg). pose proof (Hgg v) as H. destruct (Nat.ltb v (nv g)) eqn:Lv; cbn [negb].
  - destruct H as (row & Er & Nk & Fr). unfold dictD, dictZ in *. rewrite Er. f_equal. rewrite fold_sum_if. cbn [Z.add].
    rewrite (zsum_ext _ (fun w => if mem w B then mult g v w else 0) (d_keys row)).
    + apply zsum_support; [exact Nk|apply Vg_nodup| |].
      * intros w Hw. apply d_find_in_keys in Hw. unfold d_mem in Hw. rewrite (Fr w) in Hw. destruct (Z.ltb_spec 0 (mult g v w)) as [P|P]; [|discriminate].
        apply in_Vg. destruct (le_lt_dec (nv g) w) as [Q|Q]; [rewrite (mult_out_r g Hwf v w Q) in P; lia|exact Q].
      * intros u _ Hu. assert (E : mult g v u = 0).
        { pose proof (mult_nonneg g Hwf v u). destruct (Z.ltb_spec 0 (mult g v u)) as [P|P]; [|lia]. exfalso. apply Hu. apply d_find_in_keys. unfold d_mem. rewrite (Fr u).
          apply Z.ltb_lt in P. rewrite P. reflexivity. }
        rewrite E. destruct (mem u B); reflexivity.
    + intros w Hw. rewrite s_mem_mem. destruct (mem w B); [|reflexivity]. unfold d_get. rewrite (Fr w). apply d_find_in_keys in Hw. unfold d_mem in Hw. rewrite (Fr w) in Hw.
      destruct (0 <? mult g v w); [reflexivity|discriminate].
  - f_equal. symmetry. apply zsum_zero. intros w _. apply Nat.ltb_ge in Lv. rewrite (mult_out_l g v w Lv). destruct (mem w B); reflexivity. Qed.
