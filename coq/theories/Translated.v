(* GENERATED on every run by tools/translate.py from the current source in /repo. Do not edit. *)
From Coq Require Import ZArith List Bool.
Import ListNotations.
From CF Require Import PyLib.
Open Scope Z_scope.

(* chipfiring/CFCombinatorics.py :: is_parking_function *)
Definition is_parking_function (sequence : list Z) (n : option Z) : bool :=
  if (py_is_empty sequence) then true else
  let n := match n with Some v_ => v_ | None => (py_len sequence) end in
  if (negb ((py_len sequence) =? n)) then false else
  if (negb (forallb (fun x => ((1 <=? x) && (x <=? n))) sequence)) then false else
  let sorted_seq := (py_sorted sequence) in
  (forallb (fun i => ((py_index sorted_seq i) <=? (i + 1))) (py_range n)).

(* chipfiring/CFCombinatorics.py :: parking_function_count *)
Definition parking_function_count (n : Z) : Z :=
  if (n <=? 0) then 0 else
  ((n + 1) ^ (n - 1)).

(* chipfiring/CFCombinatorics.py :: complete_multipartite_gonality *)
Definition complete_multipartite_gonality (partition_sizes : list Z) : Z :=
  if (py_is_empty partition_sizes) then 0 else
  let n := (py_sum partition_sizes) in
  if ((py_len partition_sizes) =? 1) then (n - 1) else
  let nk := (py_min partition_sizes) in
  (n - nk).

(* chipfiring/CFPlatonicSolids.py :: complete_graph_gonality *)
Definition complete_graph_gonality (n : Z) : option (Z) :=
  if (n <? 1) then None else
  Some ((n - 1)).

(* chipfiring/CFGraph.py :: CFGraph.get_genus *)
Definition CFGraph_get_genus (self_total_valence : Z) (self_vertices : list Z) : Z :=
  ((self_total_valence - (py_len self_vertices)) + 1).

(* chipfiring/CFGraph.py :: CFGraph.is_loopless *)
Definition CFGraph_is_loopless (v1_name : pystr) (v2_name : pystr) : bool :=
  (negb (py_str_eqb v1_name v2_name)).
