(* C20  Invalid requests are refused without side effects.
   In the model every mutator returns Ok new_state or Err; a run keeps the previous state on Err. The theorems say exactly which requests
   are refused (so the listed invalid kinds are all covered, in every reachable state) and that a refused request is invisible in any history.
   The tie to the code is the correspondence run and, for the ORDER of validation and mutation inside eight mutators (lending_move, borrowing_move,
   chip_transfer, set_fire, add_edge, set_firings, update_firings, set_orientation), the C20_source_* theorems below about the methods translated from the current
   source: an exception never leaves a changed dictionary behind. *)
From Coq Require Import ZArith List Bool Lia Arith.
Import ListNotations.
From Coq Require Import Permutation.
From CF Require Import ZSum ListAux Defs Core Machines MachinesLink PyDict ImpRep TranslatedImpCFDivisor ImpLinkDiv TranslatedImpCFGraph ImpLinkGraph TranslatedImpCFiringScript ImpLinkScript OrientLink TranslatedImpCFOrientation ImpLinkOrient.
Open Scope Z_scope.

(* graph: refused exactly on a loop, a non-positive multiplicity or an unknown endpoint *)
Theorem C20_add_edge_refused_iff : forall s a b k, add_edge s a b k = Err <-> (a = b \/ k <= 0 \/ (gn s <= a)%nat \/ (gn s <= b)%nat).
Proof. intros s a b k. unfold add_edge. destruct (Nat.eqb_spec a b) as [Eab|Nab]; [split; auto|]. destruct (Z.leb_spec k 0) as [Hk|Hk]; [split; auto|].
  destruct (Nat.ltb_spec a (gn s)) as [Ha|Ha], (Nat.ltb_spec b (gn s)) as [Hb|Hb]; cbn [andb negb]; split; intros X; auto; try discriminate;
    destruct X as [X|[X|[X|X]]]; try lia; congruence. Qed.
Print Assumptions C20_add_edge_refused_iff.
(* batch insertion refuses per edge: everything before the first invalid edge is applied, that edge and the rest are not *)
Theorem C20_add_edges_per_edge : forall s es, exists pre rest, es = pre ++ rest /\
  fst (add_edges s es) = fold_left (fun s e => gapply s (GAdd (fst (fst e)) (snd (fst e)) (snd e))) pre s /\
  (snd (add_edges s es) = true -> rest = []) /\
  (snd (add_edges s es) = false -> exists e t, rest = e :: t /\ add_edge (fst (add_edges s es)) (fst (fst e)) (snd (fst e)) (snd e) = Err).
Proof. exact add_edges_prefix. Qed.
Print Assumptions C20_add_edges_per_edge.
(* divisor moves: refused exactly on an unknown vertex (anywhere in a firing set, whatever its position) or a non-positive amount *)
Theorem C20_move_refused_iff : forall g s mv, dstep g s mv = Err <->
  match mv with
  | MLend v | MBorrow v => (nv g <= v)%nat
  | MFire vs => exists v, In v vs /\ (nv g <= v)%nat
  | MTransfer a b k => k <= 0 \/ (nv g <= a)%nat \/ (nv g <= b)%nat end.
Proof. intros g s mv. destruct mv as [v|v|vs|a b k]; cbn [dstep]; unfold inb.
  1,2: destruct (Nat.ltb_spec v (nv g)); split; auto; try discriminate; lia.
  - destruct (forallb (fun v => Nat.ltb v (nv g)) vs) eqn:E.
    + split; [discriminate|]. intros [v [Hv Hn]]. rewrite forallb_forall in E. specialize (E v Hv). apply Nat.ltb_lt in E. lia.
    + split; auto. intros _. assert (H : ~ (forall v, In v vs -> Nat.ltb v (nv g) = true)) by (rewrite <- forallb_forall; congruence).
      induction vs as [|x t IH]; [exfalso; apply H; intros ? []|]. destruct (Nat.ltb_spec x (nv g)).
      * cbn [forallb] in E. destruct (Nat.ltb_spec x (nv g)); [|lia]. cbn [andb] in E. destruct IH as [v [Hv Hn]]; auto.
        { intro Hall. apply H. intros v [<-|Hv]; auto. now apply Nat.ltb_lt. } exists v. split; auto. now right.
      * exists x. split; [now left|lia].
  - destruct (Z.leb_spec k 0); [split; auto|]. destruct (Nat.ltb_spec a (nv g)), (Nat.ltb_spec b (nv g)); cbn [andb]; split; auto; try discriminate; lia. Qed.
Print Assumptions C20_move_refused_iff.
(* configuration moves additionally refuse the sink q in a firing set *)
Theorem C20_config_fire_refused_iff : forall g q s vs, cstep g q s (MFire vs) = Err <-> exists v, In v vs /\ ((nv g <= v)%nat \/ v = q).
Proof. intros g q s vs. cbn [cstep]. destruct (forallb (fun v => inb g v && negb (Nat.eqb v q)) vs) eqn:E.
  - rewrite forallb_forall in E. assert (Hd : dstep g s (MFire vs) <> Err).
    { cbn [dstep]. assert (forallb (inb g) vs = true) by (apply forallb_forall; intros v Hv; specialize (E v Hv); now apply andb_true_iff in E). now rewrite H. }
    split; [intros; contradiction|]. intros [v [Hv Hb]]. specialize (E v Hv). apply andb_true_iff in E. destruct E as [E1 E2]. unfold inb in E1.
    apply Nat.ltb_lt in E1. apply negb_true_iff, Nat.eqb_neq in E2. destruct Hb; [lia|contradiction].
  - split; auto. intros _. assert (H : ~ (forall v, In v vs -> inb g v && negb (Nat.eqb v q) = true)) by (rewrite <- forallb_forall; congruence).
    clear E. induction vs as [|x t IH]; [exfalso; apply H; intros ? []|]. destruct (inb g x && negb (Nat.eqb x q)) eqn:Ex.
    + destruct IH as [v [Hv Hn]]. { intro Hall. apply H. intros v [<-|Hv]; auto. } exists v. split; auto. now right.
    + exists x. split; [now left|]. apply andb_false_iff in Ex. destruct Ex as [Ex|Ex]; [left; unfold inb in Ex; now apply Nat.ltb_ge|right; apply negb_false_iff in Ex; now apply Nat.eqb_eq]. Qed.
Print Assumptions C20_config_fire_refused_iff.
(* scripts, chips, binary divisor operations, orientation edits *)
Theorem C20_script_refused_iff : forall n s o, sstep n s o = Err <-> (n <= match o with SSet v _ | SUpdate v _ => v end)%nat.
Proof. intros n s [v k|v k]; cbn [sstep]; destruct (Nat.ltb_spec v n); split; auto; try discriminate; lia. Qed.
Print Assumptions C20_script_refused_iff.
Theorem C20_mismatched_vertex_sets : forall n1 n2 D E, n1 <> n2 -> d_add n1 n2 D E = Err /\ d_sub n1 n2 D E = Err.
Proof. intros n1 n2 D E H. unfold d_add, d_sub. apply Nat.eqb_neq in H. now rewrite H. Qed.
Print Assumptions C20_mismatched_vertex_sets.
Theorem C20_set_orientation_refused_iff : forall g s a b st, set_orientation g s a b st = Err <->
  ((nv g <= a)%nat \/ (nv g <= b)%nat \/ mult g a b <= 0 \/ ~ (st = 0 \/ st = 1 \/ st = 2)).
Proof. intros g s a b st. unfold set_orientation, inb. destruct (Nat.ltb_spec a (nv g)); [|split; auto; intros _; left; lia].
  destruct (Nat.ltb_spec b (nv g)); cbn [andb negb]; [|split; auto; intros _; right; left; lia].
  destruct (Z.leb_spec (mult g a b) 0); [split; auto|].
  destruct (Z.eqb_spec st 0), (Z.eqb_spec st 1), (Z.eqb_spec st 2); cbn [orb negb]; subst; try lia.
  all: try (split; [|intros [?|[?|[?|Hn]]]; try lia; exfalso; apply Hn; auto]; try discriminate;
            repeat match goal with |- context [let '(_, _) := ?x in _] => destruct x end; discriminate).
  split; auto. intros _. right. right. right. lia. Qed.
Print Assumptions C20_set_orientation_refused_iff.
(* a refused request is invisible: any history containing it ends in the same state as the history without it *)
Theorem C20_refused_is_invisible : forall g s mv t, dstep g s mv = Err -> drun g s (mv :: t) = drun g s t.
Proof. intros g s mv t H. cbn [drun]. now rewrite H. Qed.
Print Assumptions C20_refused_is_invisible.
Theorem C20_refused_edge_is_invisible : forall s a b k, add_edge s a b k = Err -> gapply s (GAdd a b k) = s.
Proof. intros s a b k H. cbn [gapply]. now rewrite H. Qed.
Print Assumptions C20_refused_edge_is_invisible.

(* ---- the ORDER of validation and mutation, on the methods translated from /repo's CURRENT source (tools/translate_imp.py): whenever one of them ends
   with an exception (PyExn st), the dictionaries it writes are exactly as before the call (st = the initial state). Under the representation hypotheses
   this covers every exception the method can raise, including a KeyError in the middle of a loop ---- *)
Theorem C20_source_divisor_moves_refused_without_effect : forall g, wfb g = true -> forall gg, rep_graph gg g -> forall dd D, rep_div (nv g) dd D ->
  (forall v st, CFDivisor_lending_move gg dd v = PyExn st -> st = dd) /\
  (forall v st, CFDivisor_borrowing_move gg dd v = PyExn st -> st = dd) /\
  (forall a b k st, CFDivisor_chip_transfer dd a b k = PyExn st -> st = dd) /\
  (forall (so : list nat -> list nat) U st, (forall s, Permutation (so s) s) -> CFDivisor_set_fire gg dd so U = PyExn st -> st = dd).
Proof. intros g Hwf gg Hgg dd D HR. split; [|split; [|split]].
  - intros v st E. pose proof (lending_move_refines g Hwf gg Hgg dd D v HR) as H. rewrite E in H. apply H.
  - intros v st E. pose proof (borrowing_move_refines g Hwf gg Hgg dd D v HR) as H. rewrite E in H. apply H.
  - intros a b k st E. pose proof (chip_transfer_refines g dd D a b k HR) as H. rewrite E in H. apply H.
  - intros so U st Hso E. pose proof (set_fire_refines g Hwf gg Hgg dd D so U HR Hso) as H. rewrite E in H. apply H. Qed.
Print Assumptions C20_source_divisor_moves_refused_without_effect.
Theorem C20_source_add_edge_refused_without_effect : forall gg vtv tv s a b k st, ginv s -> rep_gstate gg vtv tv s ->
  TranslatedImpCFGraph.CFGraph_add_edge gg vtv tv a b k = PyExn st -> st = (gg, vtv, tv) /\ add_edge s a b k = Err.
Proof. intros gg vtv tv s a b k st Hi HR E. pose proof (add_edge_refines gg vtv tv s a b k Hi HR) as H. rewrite E in H. destruct H as [H1 H2]. split; assumption. Qed.
Print Assumptions C20_source_add_edge_refused_without_effect.
Theorem C20_source_script_refused_without_effect : forall n vs sd s v k st, rep_vset n vs -> rep_script n sd s ->
  (CFiringScript_set_firings vs sd v k = PyExn st -> st = sd) /\ (CFiringScript_update_firings vs sd v k = PyExn st -> st = sd).
Proof. intros n vs sd s v k st Hv Hs. split; intros E.
  - pose proof (set_firings_refines n vs sd s v k Hv Hs) as H. rewrite E in H. apply H.
  - pose proof (update_firings_refines n vs sd s v k Hv Hs) as H. rewrite E in H. apply H. Qed.
Print Assumptions C20_source_script_refused_without_effect.
Theorem C20_source_set_orientation_refused_without_effect : forall g, wfb g = true -> forall gg, rep_graph gg g -> forall oo outd ind isf isfc s a b st e,
  oinv g s -> rep_ostate g oo outd ind isf isfc s -> (st = 0 \/ st = 1 \/ st = 2) ->
  CFOrientation_set_orientation oo gg outd ind isf isfc a b st = PyExn e -> e = (outd, ind, oo, isf, isfc) /\ set_orientation g s a b st = Err.
Proof. intros g Hwf gg Hgg oo outd ind isf isfc s a b st e Hi HR Hst E. pose proof (set_orientation_refines g Hwf gg Hgg oo outd ind isf isfc s a b st Hi HR Hst) as H.
  rewrite E in H. destruct H as [H1 H2]. split; assumption. Qed.
Print Assumptions C20_source_set_orientation_refused_without_effect.
Example C20_source_nonvacuous : let g := [[0;2;1];[2;0;0];[1;0;0]] in
  CFDivisor_set_fire (dict_of_graph g) (dict_of_div [1;-1;0]) (@rev nat) [1;7]%nat = PyExn (dict_of_div [1;-1;0]) /\
  CFDivisor_chip_transfer (dict_of_div [1;-1;0]) 0%nat 5%nat 2 = PyExn (dict_of_div [1;-1;0]).
Proof. split; vm_compute; reflexivity. Qed.

Example C20_nonvacuous : let g := [[0;1];[1;0]] in
  dstep g (dinit g [1;0]) (MFire [0;5;1]%nat) = Err /\ dstep g (dinit g [1;0]) (MFire [5;0]%nat) = Err /\ cstep g 1%nat (dinit g [1;0]) (MFire [0;1]%nat) = Err /\
  dstep g (dinit g [1;0]) (MTransfer 0 1 0) = Err /\ degs (drun g (dinit g [1;0]) [MFire [0;5]%nat; MLend 0%nat]) = [0;1].
Proof. repeat split; vm_compute; reflexivity. Qed.
