(* C14  Greedy solver: success carries a valid script; failure only if unwinnable or capped. *)
From Coq Require Import ZArith List Bool.
Import ListNotations.
From CF Require Import ZSum ListAux Defs Core GreedyModel Greedy GreedyLink.
Open Scope Z_scope.

(* success: D' is effective and D' = D - L*script on every vertex (a checkable proof of winnability); the script is a vector of borrow counts *)
Theorem C14_success : forall g, wfb g = true -> forall D, length D = nv g -> forall order, (forall v, In v order -> In v (Vg g)) -> (forall v, In v (Vg g) -> In v order) ->
  forall D' s', greedy g order D = Some (D', s') ->
  effective (Vg g) (nthZ D') /\ (forall v, In v (Vg g) -> nthZ D' v = nthZ D v - lap (Vg g) (mult g) (nthZ s') v) /\
  (forall v, In v (Vg g) -> nthZ s' v <= 0) /\ length D' = nv g /\ length s' = nv g.
Proof. intros g Hwf D HL order H1 H2 D' s' H. exact (greedy_success_spec g Hwf D HL order H1 H2 D' s' H). Qed.
Print Assumptions C14_success.
(* the outcome, the script and the final divisor are the same whatever order the vertices are visited in *)
Theorem C14_order_independent : forall g, wfb g = true -> forall D, length D = nv g -> forall o1 o2,
  (forall v, In v o1 <-> In v (Vg g)) -> (forall v, In v o2 <-> In v (Vg g)) -> greedy g o1 D = greedy g o2 D.
Proof. exact greedy_order_independent. Qed.
Print Assumptions C14_order_independent.
(* failure: every non-negative borrowing vector reaching an effective divisor has more than 10*|V| moves -
   so either D is unwinnable (no such vector) or it needs more than the documented budget *)
Theorem C14_failure : forall g, wfb g = true -> forall D, length D = nv g -> forall order, (forall v, In v order -> In v (Vg g)) -> (forall v, In v (Vg g) -> In v order) ->
  greedy g order D = None -> forall c, (forall v, In v (Vg g) -> 0 <= c v) -> effective (Vg g) (after (Vg g) (mult g) (nthZ D) c) ->
  Z.of_nat (10 * nv g) < zsum c (Vg g).
Proof. intros g Hwf D HL order H1 H2 H. exact (greedy_failure_spec g Hwf D HL order H1 H2 H). Qed.
Print Assumptions C14_failure.
(* the mathematics: two successful greedy runs borrow equally often at every vertex, on every multigraph *)
Theorem C14_script_unique : forall V m, (forall v w, 0 <= m v w) -> forall D l1 l2, greedy_run V m D l1 -> greedy_run V m D l2 ->
  effective V (after V m D (counts l1)) -> effective V (after V m D (counts l2)) -> forall v, In v V -> counts l1 v = counts l2 v.
Proof. exact greedy_script_unique. Qed.
Print Assumptions C14_script_unique.

Example C14_nonvacuous : let P2 := [[0;1];[1;0]] in
  greedy P2 [0;1]%nat [-20;20] = Some ([0;0], [-20;0]) /\ greedy P2 [1;0]%nat [-21;21] = None /\
  greedy [[0;1;0];[1;0;1];[0;1;0]] [2;1;0]%nat [-1;0;1] = greedy [[0;1;0];[1;0;1];[0;1;0]] [0;1;2]%nat [-1;0;1].
Proof. repeat split; vm_compute; reflexivity. Qed.
