(* C15  Save/load round-trips every object; damaged files never raise.
   Proved about the TXT model (strings = lists of code points): the readers are total and only return well-formed objects - this is the
   'damaged files' clause for EVERY character string, not for sampled faults; numbers survive print/parse; round trips on a bounded family.
   and the GENERAL TXT round trip (Link/TxtRound.v): for every well-formed multigraph, every sorted list of representable names (name_ok),
   every integer divisor / firing script and every consistent orientation state, reading what the writer wrote returns the same object -
   no bound on sizes, multiplicities or chip counts.
   The dictionary forms (to_dict / from_dict on well-typed dictionaries, Model/DictForm.v) are modelled too: from_dict (to_dict x) = x for all four
   kinds of object, and from_dict of any well-typed dictionary is None or a well-formed object (Link/DictRound.v).
   Not modelled in Coq: Python's json text codec, the dynamic typing of ill-typed dictionaries (a string where a list is expected, ...) and file
   I/O - tied by the correspondence run and its exhaustive fault enumeration only (declared partial). *)
From Coq Require Import ZArith NArith List Bool.
Import ListNotations.
From CF Require Import ListAux Core Machines Txt DictForm MachinesLink OrientLink OrientRound TxtLink TxtLines TxtRound DictRound.
Open Scope Z_scope.

Definition C15_txt_roundtrip_full_statement : Prop :=
  forall names g, wfb g = true -> length names = nv g -> Forall (fun s => name_ok s = true) names -> sort_names names = names ->
    option_map (fun x => (fst x, adj (snd x))) (read_graph (write_graph names g)) = Some (names, g).

Theorem C15_txt_roundtrip_graph : C15_txt_roundtrip_full_statement.
Proof. intros names g Hwf Hlen Hok Hsort. destruct (read_graph_write_graph names g Hwf Hlen Hok Hsort) as [s [H [_ Ha]]]. rewrite H. cbn. now rewrite Ha. Qed.
Print Assumptions C15_txt_roundtrip_graph.
Theorem C15_txt_roundtrip_divisor : forall names g D, wfb g = true -> length names = nv g -> Forall (fun s => name_ok s = true) names -> sort_names names = names ->
  length D = nv g -> exists s, read_divisor (write_divisor names g D) = Some (names, s, D) /\ ginv s /\ adj s = g.
Proof. exact read_divisor_write_divisor. Qed.
Print Assumptions C15_txt_roundtrip_divisor.
Theorem C15_txt_roundtrip_script : forall names g sc, wfb g = true -> length names = nv g -> Forall (fun s => name_ok s = true) names -> sort_names names = names ->
  length sc = nv g -> exists s, read_script (write_script names g sc) = Some (names, s, sc) /\ ginv s /\ adj s = g.
Proof. exact read_script_write_script. Qed.
Print Assumptions C15_txt_roundtrip_script.
(* orientation states: consistent (oinv) with directions stored on edges only (oedges) - every state the constructor and any history of
   set_orientation / check / divisor / reverse calls can reach (C11_history, C11_edges_history) *)
Theorem C15_txt_roundtrip_orientation : forall names g o, wfb g = true -> length names = nv g -> Forall (fun s => name_ok s = true) names -> sort_names names = names ->
  oinv g o -> oedges g o ->
  exists s o', read_orientation (write_orientation names g o) = Some (names, s, o') /\ ginv s /\ adj s = g /\
    oinv g o' /\ dir o' = dir o /\ inc o' = inc o /\ outc o' = outc o.
Proof. exact read_orientation_write_orientation. Qed.
Print Assumptions C15_txt_roundtrip_orientation.

(* ---- dictionary forms ---- *)
Theorem C15_dict_roundtrip_graph : forall names g, wfb g = true -> length names = nv g -> sort_names names = names ->
  exists s, graph_from_dict (graph_to_dict names g) = Some (names, s) /\ ginv s /\ adj s = g.
Proof. exact graph_dict_roundtrip. Qed.
Print Assumptions C15_dict_roundtrip_graph.
Theorem C15_dict_roundtrip_divisor : forall names g D, wfb g = true -> length names = nv g -> sort_names names = names -> length D = nv g ->
  exists s, divisor_from_dict (divisor_to_dict names g D) = Some (names, s, D) /\ ginv s /\ adj s = g.
Proof. exact divisor_dict_roundtrip. Qed.
Print Assumptions C15_dict_roundtrip_divisor.
Theorem C15_dict_roundtrip_script : forall names g sc, wfb g = true -> length names = nv g -> sort_names names = names -> length sc = nv g ->
  exists s, script_from_dict (script_to_dict names g sc) = Some (names, s, sc) /\ ginv s /\ adj s = g.
Proof. exact script_dict_roundtrip. Qed.
Print Assumptions C15_dict_roundtrip_script.
Theorem C15_dict_roundtrip_orientation : forall names g o, wfb g = true -> length names = nv g -> sort_names names = names -> oinv g o -> oedges g o ->
  exists s o', orientation_from_dict (orientation_to_dict names g o) = Some (names, s, o') /\ ginv s /\ adj s = g /\
    oinv g o' /\ dir o' = dir o /\ inc o' = inc o /\ outc o' = outc o.
Proof. exact orientation_dict_roundtrip. Qed.
Print Assumptions C15_dict_roundtrip_orientation.
Theorem C15_graph_from_dict_total : forall d, graph_from_dict d = None \/ exists names gs, graph_from_dict d = Some (names, gs) /\ ginv gs /\ gn gs = length names.
Proof. exact graph_from_dict_total. Qed.
Print Assumptions C15_graph_from_dict_total.

Theorem C15_read_graph_total : forall s, read_graph s = None \/ exists names gs, read_graph s = Some (names, gs) /\ ginv gs /\ gn gs = length names.
Proof. exact read_graph_total. Qed.
Print Assumptions C15_read_graph_total.
Theorem C15_read_divisor_total : forall s, read_divisor s = None \/
  exists names gs D, read_divisor s = Some (names, gs, D) /\ ginv gs /\ gn gs = length names /\ length D = length names.
Proof. exact read_divisor_total. Qed.
Print Assumptions C15_read_divisor_total.
Theorem C15_read_script_total : forall s, read_script s = None \/
  exists names gs D, read_script s = Some (names, gs, D) /\ ginv gs /\ gn gs = length names /\ length D = length names.
Proof. exact read_script_total. Qed.
Print Assumptions C15_read_script_total.
Theorem C15_read_orientation_total : forall s, read_orientation s = None \/
  exists names gs o, read_orientation s = Some (names, gs, o) /\ ginv gs /\ gn gs = length names /\ oinv (adj gs) o.
Proof. exact read_orientation_total. Qed.
Print Assumptions C15_read_orientation_total.
(* chip counts, multiplicities and firing counts of any size survive writing and reading *)
Theorem C15_number_roundtrip : forall z, py_int (print_Z z) = Some z.
Proof. exact py_int_print_Z. Qed.
Print Assumptions C15_number_roundtrip.

(* non-vacuity and regression examples computed by the kernel: three awkward but representable names ("EDGE", "a b", "Ian"), all multigraphs on them with multiplicities <= 2,
   chip counts from {-12, 0, 2^70}, every orientation of the path, computed by the kernel *)
Definition nm : list str := [[69;68;71;69]; [73;97;110]; [97;32;98]]%N.
Definition gs3 : list graph := flat_map (fun a => flat_map (fun b => map (fun c => [[0;a;b];[a;0;c];[b;c;0]]) [0;1;2]) [0;1;2]) [0;1;2].
Definition ds3 : list div := flat_map (fun a => flat_map (fun b => map (fun c => [a;b;c]) [-12;0;2^70]) [-12;0;2^70]) [-12;0;2^70].
Theorem C15_txt_roundtrip_graph_bounded :
  map (fun g => option_map (fun x => (fst x, adj (snd x))) (read_graph (write_graph nm g))) gs3 = map (fun g => Some (nm, g)) gs3.
Proof. vm_compute. reflexivity. Qed.
Print Assumptions C15_txt_roundtrip_graph_bounded.
Theorem C15_txt_roundtrip_divisor_script_bounded : let g := [[0;2;0];[2;0;1];[0;1;0]] in
  map (fun D => option_map (fun x => (fst (fst x), adj (snd (fst x)), snd x)) (read_divisor (write_divisor nm g D))) ds3 = map (fun D => Some (nm, g, D)) ds3 /\
  map (fun D => option_map (fun x => (fst (fst x), adj (snd (fst x)), snd x)) (read_script (write_script nm g D))) ds3 = map (fun D => Some (nm, g, D)) ds3.
Proof. split; vm_compute; reflexivity. Qed.
Print Assumptions C15_txt_roundtrip_divisor_script_bounded.
Theorem C15_txt_roundtrip_orientation_bounded : let g := [[0;2;0];[2;0;1];[0;1;0]] in
  forallb (fun ps => match oconstruct g ps with Err => false | Ok o =>
     match read_orientation (write_orientation nm g o) with Some (n', gs', o') => forallb (fun a => forallb (fun b => dir_at o' a b =? dir_at o a b) [0;1;2]%nat) [0;1;2]%nat | None => false end end)
    [[]; [(0,1)]; [(1,0)]; [(1,2)]; [(2,1)]; [(0,1);(1,2)]; [(0,1);(2,1)]; [(1,0);(1,2)]; [(1,0);(2,1)]]%nat = true.
Proof. vm_compute. reflexivity. Qed.
Print Assumptions C15_txt_roundtrip_orientation_bounded.
(* names must satisfy name_ok: an example that cannot be represented (trailing blank is stripped) and one that can *)
Example C15_name_ok_examples : name_ok [97;32;98]%N = true /\ name_ok [97;32]%N = false /\ name_ok [97;44;98]%N = false /\ name_ok []%N = false /\ name_ok [97;160]%N = false.
Proof. repeat split; vm_compute; reflexivity. Qed.

Example C15_roundtrip_hypotheses_met : Forall (fun s => name_ok s = true) nm /\ sort_names nm = nm /\ wfb [[0;2;0];[2;0;1];[0;1;0]] = true.
Proof. split; [repeat constructor|split; vm_compute; reflexivity]. Qed.
