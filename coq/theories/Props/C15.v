(* C15  Save/load round-trips every object; damaged files never raise.
   Proved about the TXT model (strings = lists of code points): the readers are total and only return well-formed objects - this is the
   'damaged files' clause for EVERY character string, not for sampled faults; numbers survive print/parse; round trips on a bounded family.
   Not modelled in Coq: the dict / JSON layer (Python's json module and the dynamic typing of from_dict) and file I/O - tied by the
   correspondence run and its exhaustive fault enumeration only (declared partial). The general TXT round-trip theorem under name_ok is not
   proved; the full statement is kept visible below. *)
From Coq Require Import ZArith NArith List Bool.
Import ListNotations.
From CF Require Import ListAux Core Machines Txt MachinesLink OrientLink TxtLink.
Open Scope Z_scope.

Definition C15_txt_roundtrip_full_statement : Prop :=
  forall names g, wfb g = true -> length names = nv g -> Forall (fun s => name_ok s = true) names -> sort_names names = names ->
    option_map (fun x => (fst x, adj (snd x))) (read_graph (write_graph names g)) = Some (names, g).

Theorem C15_read_graph_total : forall s, read_graph s = None \/ exists names gs, read_graph s = Some (names, gs) /\ ginv gs /\ gn gs = length names.
Proof. exact read_graph_total. Qed.
Print Assumptions C15_read_graph_total.
Theorem C15_read_divisor_total : forall s, read_divisor s = None \/
  exists names gs D, read_divisor s = Some (names, gs, D) /\ ginv gs /\ gn gs = length names /\ length D = length names.
Proof. exact read_divisor_total. Qed.
Print Assumptions C15_read_divisor_total.
Theorem C15_read_script_total : forall s, read_script s = None \/
  exists names gs D, read_script s = Some (names, gs, D) /\ ginv gs /\ gn gs = length names /\ length D = length names.
Proof. exact read_script_total. Qed.
Print Assumptions C15_read_script_total.
Theorem C15_read_orientation_total : forall s, read_orientation s = None \/
  exists names gs o, read_orientation s = Some (names, gs, o) /\ ginv gs /\ gn gs = length names /\ oinv (adj gs) o.
Proof. exact read_orientation_total. Qed.
Print Assumptions C15_read_orientation_total.
(* chip counts, multiplicities and firing counts of any size survive writing and reading *)
Theorem C15_number_roundtrip : forall z, py_int (print_Z z) = Some z.
Proof. exact py_int_print_Z. Qed.
Print Assumptions C15_number_roundtrip.

(* bounded round trips: three awkward but representable names ("EDGE", "a b", "Ian"), all multigraphs on them with multiplicities <= 2,
   chip counts from {-12, 0, 2^70}, every orientation of the path, computed by the kernel *)
Definition nm : list str := [[69;68;71;69]; [73;97;110]; [97;32;98]]%N.
Definition gs3 : list graph := flat_map (fun a => flat_map (fun b => map (fun c => [[0;a;b];[a;0;c];[b;c;0]]) [0;1;2]) [0;1;2]) [0;1;2].
Definition ds3 : list div := flat_map (fun a => flat_map (fun b => map (fun c => [a;b;c]) [-12;0;2^70]) [-12;0;2^70]) [-12;0;2^70].
Theorem C15_txt_roundtrip_graph_bounded :
  map (fun g => option_map (fun x => (fst x, adj (snd x))) (read_graph (write_graph nm g))) gs3 = map (fun g => Some (nm, g)) gs3.
Proof. vm_compute. reflexivity. Qed.
Print Assumptions C15_txt_roundtrip_graph_bounded.
Theorem C15_txt_roundtrip_divisor_script_bounded : let g := [[0;2;0];[2;0;1];[0;1;0]] in
  map (fun D => option_map (fun x => (fst (fst x), adj (snd (fst x)), snd x)) (read_divisor (write_divisor nm g D))) ds3 = map (fun D => Some (nm, g, D)) ds3 /\
  map (fun D => option_map (fun x => (fst (fst x), adj (snd (fst x)), snd x)) (read_script (write_script nm g D))) ds3 = map (fun D => Some (nm, g, D)) ds3.
Proof. split; vm_compute; reflexivity. Qed.
Print Assumptions C15_txt_roundtrip_divisor_script_bounded.
Theorem C15_txt_roundtrip_orientation_bounded : let g := [[0;2;0];[2;0;1];[0;1;0]] in
  forallb (fun ps => match oconstruct g ps with Err => false | Ok o =>
     match read_orientation (write_orientation nm g o) with Some (n', gs', o') => forallb (fun a => forallb (fun b => dir_at o' a b =? dir_at o a b) [0;1;2]%nat) [0;1;2]%nat | None => false end end)
    [[]; [(0,1)]; [(1,0)]; [(1,2)]; [(2,1)]; [(0,1);(1,2)]; [(0,1);(2,1)]; [(1,0);(1,2)]; [(1,0);(2,1)]]%nat = true.
Proof. vm_compute. reflexivity. Qed.
Print Assumptions C15_txt_roundtrip_orientation_bounded.
(* names must satisfy name_ok: an example that cannot be represented (trailing blank is stripped) and one that can *)
Example C15_name_ok_examples : name_ok [97;32;98]%N = true /\ name_ok [97;32]%N = false /\ name_ok [97;44;98]%N = false /\ name_ok []%N = false /\ name_ok [97;160]%N = false.
Proof. repeat split; vm_compute; reflexivity. Qed.
