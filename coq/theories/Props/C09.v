(* C09  The burning orientation is an acyclic certificate of the verdict. *)
From Coq Require Import ZArith List Bool.
Import ListNotations.
From CF Require Import ListAux Defs Reduced Burn Core Cert DharLink CertLink.
Open Scope Z_scope.

(* whenever the (non-shortcut) winnability run returns, the orientation of its final burn (earlier-burnt -> later-burnt) passes the
   certificate check w.r.t. the burn order, every vertex was burnt (so the 'orientation is not full' error is unreachable),
   and for an unwinnable verdict the returned divisor is dominated by in-degree minus one *)
Theorem C09_certificate : forall g, wfb g = true -> forall fuel q D b R B, In q (Vg g) -> length D = nv g -> ewd_q fuel g q D = Done (b, R, B) ->
  cert_ok g q R (burn_orient g B) (burn_pos g B) = true /\ (forall v, In v (Vg g) -> In v B) /\
  (b = false -> forall v, In v (Vg g) -> nthZ R v <= indeg_o g (burn_orient g B) v - 1).
Proof. exact ewd_q_certificate. Qed.
Print Assumptions C09_certificate.

(* what the check means: every edge oriented exactly one way, consistent with an order (acyclic), q the only source, chips < in-degree off q *)
Theorem C09_cert_meaning : forall g, wfb g = true -> forall q R o pos, cert_ok g q R o pos = true ->
  (forall v w, In v (Vg g) -> In w (Vg g) -> 0 < mult g v w -> (o_mem o v w = true /\ o_mem o w v = false) \/ (o_mem o v w = false /\ o_mem o w v = true)) /\
  (forall v w, In v (Vg g) -> In w (Vg g) -> 0 < mult g v w -> o_mem o v w = true -> (nth v pos 0 < nth w pos 0)%nat) /\
  indeg_o g o q = 0 /\ (forall v, In v (Vg g) -> v <> q -> 1 <= indeg_o g o v /\ nthZ R v < indeg_o g o v).
Proof. intros g _. apply cert_ok_meaning. Qed.
Print Assumptions C09_cert_meaning.

(* independent soundness: ANY orientation and divisor passing the check, with debt at q, is a proof of unwinnability *)
Theorem C09_cert_sound : forall g, wfb g = true -> forall q R o pos, In q (Vg g) -> cert_ok g q R o pos = true -> nthZ R q < 0 ->
  ~ winnable (Vg g) (mult g) (nthZ R).
Proof. exact cert_sound. Qed.
Print Assumptions C09_cert_sound.

(* the mathematics behind it, for every multigraph and every vertex order *)
Theorem C09_dominated_unwinnable : forall V m, (forall v w, 0 <= m v w) -> forall pos D, V <> [] ->
  (forall v, In v V -> D v <= orient_div V m pos v) -> ~ winnable V m D.
Proof. exact dominated_unwinnable. Qed.
Print Assumptions C09_dominated_unwinnable.

Example C09_nonvacuous : let g := [[0;1;1];[1;0;1];[1;1;0]] in
  ewd_q 100 g 0%nat [-1;1;0] = Done (false, [-1;1;0], [0;2;1]%nat) /\
  cert_ok g 0%nat [-1;1;0] (burn_orient g [0;2;1]%nat) (burn_pos g [0;2;1]%nat) = true /\
  cert_ok g 0%nat [-1;1;0] [(0,1);(1,2);(2,0)]%nat [0;1;2]%nat = false.
Proof. repeat split; vm_compute; reflexivity. Qed.
