(* C05  Chip moves act by the Laplacian, commute, and conserve chips over any history. *)
From Coq Require Import ZArith List Bool Permutation.
Import ListNotations.
From CF Require Import ZSum ListAux Defs Core Machines GraphLink MovesLink PyDict ImpRep TranslatedImpCFDivisor ImpLinkDiv TranslatedImpCFConfigMoves ImpLinkConfigMoves.
Open Scope Z_scope.

(* a lending move at v: v loses its valence, each neighbour gains the multiplicity of the shared edge ( = minus the v-th Laplacian column) *)
Theorem C05_lend : forall g, wfb g = true -> forall D v w, In v (Vg g) -> In w (Vg g) ->
  nthZ (lend g D v) w = (if Nat.eqb w v then nthZ D w - valg g v else nthZ D w + mult g v w) /\
  nthZ (lend g D v) w = nthZ D w - lap (Vg g) (mult g) (unit_at v) w.
Proof. intros g Hwf D v w Hv Hw. split; [now apply lend_explicit|now apply nth_lend]. Qed.
Print Assumptions C05_lend.
(* borrowing is its exact inverse *)
Theorem C05_borrow_inverse : forall g, wfb g = true -> forall D v, In v (Vg g) -> length D = nv g ->
  borrow g (lend g D v) v = D /\ lend g (borrow g D v) v = D.
Proof. intros g Hwf D v Hv HL. split; [now apply borrow_lend|now apply lend_borrow]. Qed.
Print Assumptions C05_borrow_inverse.
(* firing a set equals firing its members one by one, in EVERY order *)
Theorem C05_fire_any_order : forall g, wfb g = true -> forall S S' D, NoDup S -> (forall v, In v S -> In v (Vg g)) -> Permutation S S' ->
  length D = nv g -> fold_left (lend g) S' D = fire_set g D S.
Proof. exact fire_set_any_order. Qed.
Print Assumptions C05_fire_any_order.
Theorem C05_moves_commute : forall g, wfb g = true -> forall l l' D, Permutation l l' -> (forall v, In v l -> In v (Vg g)) -> length D = nv g ->
  fold_left (lend g) l D = fold_left (lend g) l' D.
Proof. exact lends_commute. Qed.
Print Assumptions C05_moves_commute.
(* firing all vertices is the identity *)
Theorem C05_fire_all_identity : forall g, wfb g = true -> forall D, length D = nv g -> fire_set g D (Vg g) = D.
Proof. intros g _. apply fire_all_identity. Qed.
Print Assumptions C05_fire_all_identity.
(* after ANY sequence of lend / borrow / set-fire / transfer requests (accepted or refused):
   reported total = sum of the reported per-vertex degrees = total before the sequence *)
Theorem C05_history : forall g, wfb g = true -> forall D ms, length D = nv g ->
  let s' := drun g (dinit g D) ms in
  total s' = degD g (degs s') /\ total s' = degD g D /\ length (degs s') = nv g.
Proof. intros g Hwf D ms HL s'. destruct (history_conserves g Hwf ms (dinit g D) (dinit_inv g D HL)) as [[H1 H2] H3]. fold s' in H1, H2, H3.
  split; [exact H2|]. split; [exact H3|exact H1]. Qed.
Print Assumptions C05_history.
(* the configuration wrapper = the divisor moves, with firing sets containing q refused *)
Theorem C05_config_wrapper : forall g q s mv,
  cstep g q s mv = match mv with MFire vs => if existsb (Nat.eqb q) vs then Err else dstep g s mv | _ => dstep g s mv end.
Proof. exact cstep_spec. Qed.
Print Assumptions C05_config_wrapper.

(* ---- tie to the source text: the CFDivisor methods translated from /repo's CURRENT source by tools/translate_imp.py (TranslatedImpCFDivisor.v, regenerated
   on every run; dictionaries as insertion-ordered association lists, Base/PyDict.v) refine the model functions the theorems above are about. A method ends with PyOk result, or with PyExn st: an exception that leaves the written
   dictionaries in state st.
   rep_graph gg g / rep_div n dd D: the dictionaries gg, dd hold exactly the positive multiplicities of g / the chips of D ---- *)
Theorem C05_source_lending_move : forall g, wfb g = true -> forall gg, rep_graph gg g -> forall dd D v, rep_div (nv g) dd D ->
  match CFDivisor_lending_move gg dd v with PyExn st => inb g v = false /\ st = dd | PyOk dd' => inb g v = true /\ rep_div (nv g) dd' (lend g D v) end.
Proof. exact lending_move_refines. Qed.
Print Assumptions C05_source_lending_move.
Theorem C05_source_firing_move_is_lending_move : CFDivisor_firing_move = CFDivisor_lending_move.
Proof. reflexivity. Qed.
Print Assumptions C05_source_firing_move_is_lending_move.
Theorem C05_source_borrowing_move : forall g, wfb g = true -> forall gg, rep_graph gg g -> forall dd D v, rep_div (nv g) dd D ->
  match CFDivisor_borrowing_move gg dd v with PyExn st => inb g v = false /\ st = dd | PyOk dd' => inb g v = true /\ rep_div (nv g) dd' (borrow g D v) end.
Proof. exact borrowing_move_refines. Qed.
Print Assumptions C05_source_borrowing_move.
Theorem C05_source_chip_transfer : forall g dd D a b k, rep_div (nv g) dd D ->
  match CFDivisor_chip_transfer dd a b k with
  | PyExn st => ((k <=? 0) || negb (inb g a && inb g b) = true) /\ st = dd
  | PyOk dd' => ((k <=? 0) || negb (inb g a && inb g b) = false) /\ rep_div (nv g) dd' (transfer g D a b k) end.
Proof. exact chip_transfer_refines. Qed.
Print Assumptions C05_source_chip_transfer.
(* set_fire iterates over Python sets: `so` is ANY function returning a permutation of its argument (the unspecified iteration order) *)
Theorem C05_source_set_fire : forall g, wfb g = true -> forall gg, rep_graph gg g -> forall dd D (so : list nat -> list nat) U, rep_div (nv g) dd D ->
  (forall s, Permutation (so s) s) ->
  match CFDivisor_set_fire gg dd so U with
  | PyExn st => forallb (inb g) U = false /\ st = dd
  | PyOk dd' => forallb (inb g) U = true /\ rep_div (nv g) dd' (fire_set g D U) end.
Proof. exact set_fire_refines. Qed.
Print Assumptions C05_source_set_fire.
Theorem C05_source_is_effective_get_degree : forall g dd D, rep_div (nv g) dd D ->
  CFDivisor_is_effective dd = is_effective_b g D /\ forall v, CFDivisor_get_degree dd v = if inb g v then PyOk (nthZ D v) else PyExn tt.
Proof. intros g dd D H. split; [apply is_effective_refines; exact H|intros v; apply get_degree_refines; exact H]. Qed.
Print Assumptions C05_source_is_effective_get_degree.
(* the configuration wrappers CFConfig.set_fire / lending_move / borrowing_move, translated from the current source (they delegate to the translated
   CFDivisor methods): set_fire refuses the sink and everything outside V - {q} before anything is written, otherwise the wrappers are the divisor moves
   (C05_config_wrapper). rep_vtilde n q vt: the set v_tilde_vertices is V - {q} *)
Theorem C05_source_config_wrappers : forall g, wfb g = true -> forall gg, rep_graph gg g -> forall q vt, rep_vtilde (nv g) q vt -> forall s dd, rep_div (nv g) dd (degs s) ->
  (forall (so : list nat -> list nat) U, (forall l, Permutation (so l) l) ->
     match CFConfigMoves_set_fire q vt gg dd so U with
     | PyExn st => cstep g q s (MFire U) = Err /\ st = dd
     | PyOk dd' => exists s', cstep g q s (MFire U) = Ok s' /\ rep_div (nv g) dd' (degs s') /\ total s' = total s end) /\
  (forall v, match CFConfigMoves_lending_move gg dd v with
     | PyExn st => cstep g q s (MLend v) = Err /\ st = dd | PyOk dd' => exists s', cstep g q s (MLend v) = Ok s' /\ rep_div (nv g) dd' (degs s') end /\
     match CFConfigMoves_borrowing_move gg dd v with
     | PyExn st => cstep g q s (MBorrow v) = Err /\ st = dd | PyOk dd' => exists s', cstep g q s (MBorrow v) = Ok s' /\ rep_div (nv g) dd' (degs s') end).
Proof. intros g Hwf gg Hgg q vt Hvt s dd HR. split.
  - intros so U Hso. apply (config_set_fire_refines g Hwf gg Hgg q vt Hvt s dd so U HR Hso).
  - intros v. apply (config_lending_borrowing_refines g Hwf gg Hgg q s dd v HR). Qed.
Print Assumptions C05_source_config_wrappers.
(* every model state has such dictionaries: the statements above are not vacuous *)
Theorem C05_source_states_representable : forall g D, wfb g = true -> rep_graph (dict_of_graph g) g /\ rep_div (length D) (dict_of_div D) D.
Proof. intros g D H. split; [apply rep_graph_of; exact H|apply rep_div_of]. Qed.
Print Assumptions C05_source_states_representable.
Example C05_source_nonvacuous : let g := [[0;2;1];[2;0;0];[1;0;0]] in
  CFDivisor_lending_move (dict_of_graph g) (dict_of_div [1;-1;0]) 0%nat = PyOk (dict_of_div (lend g [1;-1;0] 0%nat)) /\
  CFDivisor_set_fire (dict_of_graph g) (dict_of_div [1;-1;0]) (@rev nat) [1;2]%nat = PyOk (dict_of_div (fire_set g [1;-1;0] [1;2]%nat)) /\
  CFDivisor_set_fire (dict_of_graph g) (dict_of_div [1;-1;0]) (@rev nat) [1;7]%nat = PyExn (dict_of_div [1;-1;0]).
Proof. repeat split; vm_compute; reflexivity. Qed.
Example C05_nonvacuous : let g := [[0;2;1];[2;0;0];[1;0;0]] in
  degs (drun g (dinit g [1;-1;0]) [MLend 0; MFire [1;2]; MBorrow 5; MTransfer 2 2 3; MTransfer 0 1 4]%nat) = [-3;3;0].
Proof. vm_compute. reflexivity. Qed.
