(* C13  Graph bookkeeping (valences, edge total, genus) consistent over any history. *)
From Coq Require Import ZArith List Bool Lia Arith.
Import ListNotations.
From CF Require Import ZSum ListAux Defs Core Machines MachinesLink PyLib Translated TranslatedLink PyDict ImpRep TranslatedImpCFGraph ImpLinkGraph.
Open Scope Z_scope.

(* every state reachable from the empty graph on n vertices by ANY sequence of add_edge / add_edges calls - valid or refused, either
   endpoint order, repeated pairs - is well formed (square, symmetric, non-negative, loopless) with consistent cached numbers *)
Theorem C13_history : forall n ops, let s := fold_left gapply ops (ginit n) in
  ginv s /\ gn s = n.
Proof. exact graph_history_inv. Qed.
Print Assumptions C13_history.

(* what the invariant means for the reported numbers: adjacency symmetric, valence = sum of incident multiplicities,
   edge total = half the sum of valences = number of edges, genus = |E| - |V| + 1 *)
Theorem C13_invariant_meaning : forall s, ginv s -> let g := adj s in
  (forall v w, mult g v w = mult g w v) /\ (forall v, (v < gn s)%nat -> nthZ (valc s) v = zsum (mult g v) (Vg g)) /\
  2 * tot s = zsum (fun v => nthZ (valc s) v) (Vg g) /\ tot s = nedges_g g /\ g_genus s = genus_g g.
Proof. exact ginv_meaning. Qed.
Print Assumptions C13_invariant_meaning.

(* an accepted insertion changes exactly the two mirror entries; a refused one (loop, non-positive multiplicity, unknown endpoint)
   returns Err, i.e. the caller keeps the previous state *)
Theorem C13_add_edge : forall s a b k s', ginv s -> add_edge s a b k = Ok s' ->
  ginv s' /\ gn s' = gn s /\ a <> b /\ 0 < k /\ (a < gn s)%nat /\ (b < gn s)%nat /\
  (forall v w, mult (adj s') v w = mult (adj s) v w + (if (Nat.eqb v a && Nat.eqb w b) || (Nat.eqb v b && Nat.eqb w a) then k else 0)).
Proof. exact add_edge_inv. Qed.
Print Assumptions C13_add_edge.
Theorem C13_refusals : forall s a b k, (a = b \/ k <= 0 \/ (gn s <= a)%nat \/ (gn s <= b)%nat) -> add_edge s a b k = Err.
Proof. intros s a b k H. unfold add_edge. destruct (Nat.eqb_spec a b); auto. destruct (Z.leb_spec k 0); auto.
  destruct (Nat.ltb_spec a (gn s)), (Nat.ltb_spec b (gn s)); cbn; auto; exfalso; destruct H as [H|[H|[H|H]]]; auto; lia. Qed.
Print Assumptions C13_refusals.

(* batch insertion is edge-by-edge insertion that stops at the first refused edge: the prefix stays applied, the rest is not *)
Theorem C13_add_edges_prefix : forall s es, exists pre rest, es = pre ++ rest /\
  fst (add_edges s es) = fold_left (fun s e => gapply s (GAdd (fst (fst e)) (snd (fst e)) (snd e))) pre s /\
  (snd (add_edges s es) = true -> rest = []) /\
  (snd (add_edges s es) = false -> exists e t, rest = e :: t /\ add_edge (fst (add_edges s es)) (fst (fst e)) (snd (fst e)) (snd e) = Err).
Proof. exact add_edges_prefix. Qed.
Print Assumptions C13_add_edges_prefix.

(* removing a vertex yields the induced multigraph (fresh value; the original state is immutable in the model) *)
Theorem C13_remove_vertex : forall s v s', ginv s -> remove_vertex s v = Ok s' ->
  gn s' = (gn s - 1)%nat /\ (forall a b, (a < gn s - 1)%nat -> (b < gn s - 1)%nat -> mult (adj s') a b = mult (adj s) (skip v a) (skip v b)) /\
  (forall a, (a < gn s')%nat -> nthZ (valc s') a = valg (adj s') a) /\ tot s' = nedges_g (adj s').
Proof. exact remove_vertex_spec. Qed.
Print Assumptions C13_remove_vertex.

Example C13_nonvacuous : let s := fold_left gapply [GAdd 0 1 2; GAdd 1 0 1; GAdd 2 2 1; GAddMany [(1%nat,2%nat,1);(0%nat,5%nat,1);(0%nat,2%nat,1)]] (ginit 3) in
  adj s = [[0;3;0];[3;0;1];[0;1;0]] /\ valc s = [3;4;1] /\ tot s = 4 /\ g_genus s = 2.
Proof. vm_compute. repeat split. Qed.

(* tie to the source text: CFGraph.get_genus as translated from /repo's current CFGraph.py (Translated.v) is total - |V| + 1 on the bookkeeping
   state, which under the invariant is the genus |E| - |V| + 1 of the multigraph *)
Theorem C13_source_get_genus : forall s (vs : list Z), length vs = gn s -> Translated.CFGraph_get_genus (tot s) vs = g_genus s.
Proof. exact get_genus_eq. Qed.
Print Assumptions C13_source_get_genus.
(* the loop test of add_edge, as translated from the current source: names are compared as strings *)
Theorem C13_source_is_loopless : forall a b, Translated.CFGraph_is_loopless a b = true <-> a <> b.
Proof. exact is_loopless_spec. Qed.
Print Assumptions C13_source_is_loopless.

(* ---- CFGraph.add_edge and get_valence as translated from /repo's CURRENT source by tools/translate_imp.py (TranslatedImpCFGraph.v; dictionaries as
   insertion-ordered association lists, Base/PyDict.v): on dictionaries representing a bookkeeping state that satisfies the invariant, add_edge raises
   exactly when the model refuses, and otherwise all three fields (adjacency, per-vertex valences, total) represent the model's next state ---- *)
Theorem C13_source_add_edge : forall gg vtv tv s a b k, ginv s -> rep_gstate gg vtv tv s ->
  match TranslatedImpCFGraph.CFGraph_add_edge gg vtv tv a b k with
  | PyExn st => add_edge s a b k = Err /\ st = (gg, vtv, tv)
  | PyOk (gg', vtv', tv') => exists s', add_edge s a b k = Ok s' /\ rep_gstate gg' vtv' tv' s' end.
Proof. exact add_edge_refines. Qed.
Print Assumptions C13_source_add_edge.
Theorem C13_source_get_valence : forall gg vtv tv s v, rep_gstate gg vtv tv s ->
  TranslatedImpCFGraph.CFGraph_get_valence vtv v = if Nat.ltb v (gn s) then PyOk (nthZ (valc s) v) else PyExn tt.
Proof. exact get_valence_refines. Qed.
Print Assumptions C13_source_get_valence.
(* batch insertion, as translated from the current source (the duplicate-edge warning is bookkeeping and is skipped): one add_edge per entry, in order;
   it raises at the first refused entry, and the dictionaries then represent the state in which the EARLIER entries are applied - refused per edge *)
Theorem C13_source_add_edges : forall gg vtv tv s es, ginv s -> rep_gstate gg vtv tv s ->
  match TranslatedImpCFGraph.CFGraph_add_edges gg vtv tv es with
  | PyOk (gg', vtv', tv') => snd (add_edges s es) = true /\ rep_gstate gg' vtv' tv' (fst (add_edges s es))
  | PyExn (gg', vtv', tv') => snd (add_edges s es) = false /\ rep_gstate gg' vtv' tv' (fst (add_edges s es)) end.
Proof. intros. apply add_edges_refines; assumption. Qed.
Print Assumptions C13_source_add_edges.
(* the constructor CFGraph(vertices, edges), translated from the CURRENT source: an empty row and a zero valence for every vertex - in whatever order the set is
   iterated (so) - then add_edges; the new object represents exactly the model's add_edges from the edgeless graph on these vertices (so every constructed graph
   satisfies the invariant, C13_history), and a refused entry raises after the earlier entries were applied to the half-built object *)
Theorem C13_source_constructor : forall n vs so es, rep_vset n vs -> NoDup vs -> (forall l, Permutation.Permutation (so l) l) ->
  match TranslatedImpCFGraph.CFGraph___init__ so vs es with
  | PyOk (vsf, gg, vtv, tv) => vsf = vs /\ snd (add_edges (ginit n) es) = true /\ rep_gstate gg vtv tv (fst (add_edges (ginit n) es))
  | PyExn (vsf, gg, vtv, tv) => snd (add_edges (ginit n) es) = false /\ rep_gstate gg vtv tv (fst (add_edges (ginit n) es)) end.
Proof. exact graph_ctor_refines. Qed.
Print Assumptions C13_source_constructor.
Example C13_source_constructor_nonvacuous :
  match TranslatedImpCFGraph.CFGraph___init__ (fun l => rev l) [0;1;2]%nat [(0%nat, 1%nat, 2); (1%nat, 2%nat, 1)] with
  | PyOk (vsf, gg, vtv, tv) => tv = 3 /\ d_find 1%nat vtv = Some 3 /\ d_keys gg = [2;1;0]%nat | PyExn _ => False end /\
  match TranslatedImpCFGraph.CFGraph___init__ (fun l => l) [0;1;2]%nat [(0%nat, 1%nat, 2); (1%nat, 1%nat, 1); (1%nat, 2%nat, 1)] with
  | PyOk _ => False | PyExn (vsf, gg, vtv, tv) => tv = 2 /\ d_find 2%nat vtv = Some 0 end.
Proof. vm_compute. repeat split. Qed.
(* every state satisfying the invariant has such dictionaries *)
Theorem C13_source_states_representable : forall s, ginv s -> rep_gstate (dict_of_graph (adj s)) (dict_of_div (valc s)) (tot s) s.
Proof. intros s (Hwf & HL & _). split; [apply rep_graph_of; exact Hwf|]. split; [rewrite <- HL; apply rep_div_of|reflexivity]. Qed.
Print Assumptions C13_source_states_representable.
Example C13_source_nonvacuous : let s := fst (add_edges (ginit 3) [(0%nat, 1%nat, 2); (1%nat, 2%nat, 1)]) in
  match TranslatedImpCFGraph.CFGraph_add_edge (dict_of_graph (adj s)) (dict_of_div (valc s)) (tot s) 1%nat 0%nat 1 with
  | PyOk (gg', vtv', tv') => d_find 0%nat vtv' = Some 3 /\ tv' = 4 /\ (match d_find 1%nat gg' with Some r => d_find 0%nat r | None => None end) = Some 3
  | PyExn _ => False end /\
  TranslatedImpCFGraph.CFGraph_add_edge (dict_of_graph (adj s)) (dict_of_div (valc s)) (tot s) 1%nat 1%nat 1 = PyExn (dict_of_graph (adj s), dict_of_div (valc s), tot s).
Proof. vm_compute. repeat split. Qed.
