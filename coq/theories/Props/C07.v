(* C07  linear_equivalence decides membership of D1 - D2 in the Laplacian lattice. *)
From Coq Require Import ZArith List Bool.
Import ListNotations.
From CF Require Import ListAux Defs LinEquiv Core EwdLink LineqLink Termination.
Open Scope Z_scope.

(* b = true exactly when the graphs coincide structurally and D1 - D2 = L*sigma for an integer script sigma.
   _partial: conditional on termination of the reduction of D1 - D2 (discharged by Link/Termination.v when present). *)
Theorem C07_spec_partial : forall g, wfb g = true -> forall fuel D1 g2 D2 b, length D1 = nv g -> length D2 = nv g -> (0 < nv g)%nat ->
  (exists f x, ewd_q f g (argmin (dsub (nv g) D1 D2)) (dsub (nv g) D1 D2) = Done x) ->
  linear_equivalence fuel g D1 g2 D2 = Done b ->
  (b = true <-> graph_eqb g g2 = true /\ lequiv (Vg g) (mult g) (nthZ D1) (nthZ D2)).
Proof. exact lineq_spec. Qed.
Print Assumptions C07_spec_partial.

(* on connected multigraphs the hypothesis is discharged by the termination theorem: the full specification *)
Theorem C07_spec : forall g, wfb g = true -> connected_b g = true -> forall fuel D1 g2 D2 b, length D1 = nv g -> length D2 = nv g -> (0 < nv g)%nat ->
  linear_equivalence fuel g D1 g2 D2 = Done b ->
  (b = true <-> graph_eqb g g2 = true /\ lequiv (Vg g) (mult g) (nthZ D1) (nthZ D2)).
Proof. intros g Hwf Hc fuel D1 g2 D2 b L1 L2 Hn. apply lineq_spec; auto. apply ewd_q_terminates; auto; [apply argmin_in; auto|]; apply tab_length. Qed.
Print Assumptions C07_spec.
(* the relation it decides is an equivalence, invariant under firing moves, and forces equal degrees -- for every multigraph *)
Theorem C07_equivalence : forall V m, (forall D, lequiv V m D D) /\ (forall D E, lequiv V m D E -> lequiv V m E D) /\
  (forall D E F, lequiv V m D E -> lequiv V m E F -> lequiv V m D F).
Proof. intros V m. split; [apply lequiv_refl|split; [apply lequiv_sym|apply lequiv_trans]]. Qed.
Print Assumptions C07_equivalence.
Theorem C07_degree_invariant : forall V m, (forall v w, m v w = m w v) -> forall D E, lequiv V m D E -> deg V E = deg V D.
Proof. exact lequiv_deg. Qed.
Print Assumptions C07_degree_invariant.
Theorem C07_invariant_under_firing : forall V m U D, lequiv V m D (fire V m U D).
Proof. intros. apply fire_lequiv. Qed.
Print Assumptions C07_invariant_under_firing.

(* regression statement for the repaired defect d5: an identity gate is not reflexive across equal copies *)
Example C07_nonvacuous : let g := [[0;1;0];[1;0;2];[0;2;0]] in
  linear_equivalence 100 g [1;0;0] g [0;1;0] = Done true /\ linear_equivalence 100 g [1;0;0] g [0;0;1] = Done false /\
  linear_equivalence 100 g [1;0;0] [[0;1;0];[1;0;1];[0;1;0]] [1;0;0] = Done false.
Proof. repeat split; vm_compute; reflexivity. Qed.
